(* The resolve walk on graph forests (cyclic or not): what it returns is one of the finite unfoldings the
   forest stores ([den]), and it returns one whenever the root has one. *)
From Coq Require Import List Arith Bool Lia.
From LV Require Import Cfg.Grammar Forest.ExplicitBuild Forest.GraphResolve.
Import ListNotations.

Section Proofs.
  Variable tok : Type.
  Variable teqb : tok -> tok -> bool.
  Hypothesis teqb_spec : forall a b, teqb a b = true <-> a = b.

  Notation label := (nlabel tok).
  Notation leqb := (nlabel_eqb tok teqb).

  Lemma rule_eqb'_spec a b : rule_eqb' a b = true <-> a = b.
  Proof. unfold rule_eqb'. destruct (rule_eq_dec a b); split; congruence. Qed.

  Lemma nlabel_eqb_spec (a b : label) : leqb a b = true <-> a = b.
  Proof.
    destruct a, b; cbn [nlabel_eqb]; try (split; [discriminate|congruence]);
      rewrite ?andb_true_iff, ?Nat.eqb_eq, ?rule_eqb'_spec, ?teqb_spec; split;
      try (intros H; decompose [and] H; subst; reflexivity); intros H; inversion H; subst; auto.
  Qed.

  Lemma lmem_in (x : label) l : lmem tok teqb x l = true <-> In x l.
  Proof.
    induction l as [|y r IH]; cbn; [split; [discriminate|tauto]|].
    rewrite orb_true_iff, IH, nlabel_eqb_spec. split; intros [H|H]; auto.
  Qed.
  Lemma lmem_not_in (x : label) l : lmem tok teqb x l = false <-> ~ In x l.
  Proof. rewrite <- lmem_in. destruct (lmem tok teqb x l); split; congruence. Qed.

  Variable fams : list (label * family tok).
  Variable order : label -> list (family tok) -> list (family tok).
  (* SymbolNode.children rearranges the packed children: nothing added, nothing lost *)
  Hypothesis order_perm : forall l fs f, In f (order l fs) <-> In f fs.

  Notation gres := (gres tok teqb fams order).
  Notation F := (in_forest tok fams).

  Lemma fams_of_in lbl f : In f (fams_of tok teqb fams lbl) <-> In (lbl, f) fams.
  Proof.
    unfold fams_of. rewrite in_map_iff. split.
    - intros [[l0 f0] [<- H]]. apply filter_In in H. destruct H as [H E]. cbn [fst snd] in *.
      apply nlabel_eqb_spec in E. subst. exact H.
    - intros H. exists (lbl, f). split; [reflexivity|]. apply filter_In. split; [exact H|].
      apply nlabel_eqb_spec. reflexivity.
  Qed.

  Lemma first_some_some {A B} (f : A -> option B) l y :
    first_some f l = Some y -> exists x, In x l /\ f x = Some y.
  Proof.
    induction l as [|x r IH]; cbn; [discriminate|]. destruct (f x) eqn:E.
    - intros [= <-]. exists x. auto.
    - intros H. destruct (IH H) as [x' [H1 H2]]. exists x'. auto.
  Qed.
  Lemma first_some_none {A B} (f : A -> option B) l x : first_some f l = None -> In x l -> f x = None.
  Proof.
    induction l as [|x0 r IH]; cbn; [tauto|]. destruct (f x0) eqn:E; [discriminate|].
    intros H [<-|Hin]; auto.
  Qed.

  Definition sub (f : nat) (path : list label) (o : option label) : option (list (dt tok)) :=
    match o with None => Some [] | Some l => gres f path l end.

  Definition try_fam (f : nat) (path : list label) (lbl : label) (fm : family tok) : option (list (dt tok)) :=
    let '(r, l, rt) := fm in
    match sub f (lbl :: path) l with
    | None => None
    | Some d1 => match sub f (lbl :: path) rt with
                 | None => None
                 | Some d2 => Some (pack tok lbl r (d1 ++ d2))
                 end
    end.

  Definition is_tok (l : label) : bool := match l with NTok _ _ _ _ _ => true | _ => false end.

  Lemma gres_unfold f path lbl :
    gres (S f) path lbl =
    match lbl with
    | NTok _ t x _ _ => Some [DL tok t x]
    | _ => if lmem tok teqb lbl path then None
           else first_some (try_fam f path lbl) (order lbl (fams_of tok teqb fams lbl))
    end.
  Proof. destruct lbl; reflexivity. Qed.

  Lemma gres_nontok f path lbl : is_tok lbl = false ->
    gres (S f) path lbl =
    if lmem tok teqb lbl path then None
    else first_some (try_fam f path lbl) (order lbl (fams_of tok teqb fams lbl)).
  Proof. rewrite gres_unfold. destruct lbl; [reflexivity|reflexivity|discriminate]. Qed.

  (* ---------------------------------------------------------------- soundness *)
  Theorem gres_sound : forall fuel path lbl ds, gres fuel path lbl = Some ds -> den tok F lbl ds.
  Proof.
    induction fuel as [|f IH]; intros path lbl ds; [discriminate|].
    destruct (is_tok lbl) eqn:Et.
    - destruct lbl; try discriminate. cbn. intros [= <-]. constructor.
    - rewrite (gres_nontok _ _ _ Et). destruct (lmem tok teqb lbl path); [discriminate|].
      intros H. apply first_some_some in H. destruct H as [[[r l] rt] [Hin Htry]].
      apply order_perm in Hin. apply fams_of_in in Hin. unfold try_fam in Htry.
      destruct (sub f (lbl :: path) l) as [d1|] eqn:E1; [|discriminate].
      destruct (sub f (lbl :: path) rt) as [d2|] eqn:E2; [|discriminate]. injection Htry as <-.
      apply (den_fam tok F lbl r l rt d1 d2); [exact Hin| |].
      + destruct l as [l0|]; cbn [sub] in E1; [constructor; apply (IH _ _ _ E1)|]. injection E1 as <-. constructor.
      + destruct rt as [l0|]; cbn [sub] in E2; [constructor; apply (IH _ _ _ E2)|]. injection E2 as <-. constructor.
  Qed.

  (* the result below a symbol node is one tree, so transform() returns it *)
  Theorem graph_resolve_in_den a i j d :
    graph_resolve tok teqb fams order (NSym tok a i j) = Some d -> den tok F (NSym tok a i j) [d].
  Proof.
    unfold graph_resolve. destruct (GraphResolve.gres tok teqb fams order _ _ _) as [[|d0 [|? ?]]|] eqn:E; try discriminate.
    intros [= <-]. exact (gres_sound _ _ _ _ E).
  Qed.

  (* ---------------------------------------------------------------- totality *)
  (* unfoldings of height at most n *)
  Inductive denh : nat -> label -> Prop :=
  | dh_tok n t x i j : denh n (NTok tok t x i j)
  | dh_fam n lbl r l rt : F lbl (r, l, rt) -> denh_opt n l -> denh_opt n rt -> denh (S n) lbl
  with denh_opt : nat -> option label -> Prop :=
  | dho_none n : denh_opt n None
  | dho_some n l : denh n l -> denh_opt n (Some l).

  Scheme denh_mind := Minimality for denh Sort Prop
    with denh_opt_mind := Minimality for denh_opt Sort Prop.
  Combined Scheme denh_mutind from denh_mind, denh_opt_mind.

  Lemma denh_mono : (forall n l, denh n l -> forall m, n <= m -> denh m l) /\
                    (forall n o, denh_opt n o -> forall m, n <= m -> denh_opt m o).
  Proof.
    apply denh_mutind.
    - intros. constructor.
    - intros n lbl r l rt HF _ IH1 _ IH2 m Hm. destruct m as [|m]; [lia|].
      apply (dh_fam m lbl r l rt HF); [apply IH1|apply IH2]; lia.
    - intros. constructor.
    - intros n l _ IH m Hm. constructor. apply IH. exact Hm.
  Qed.

  Scheme den_mind := Minimality for den Sort Prop
    with den_opt_mind := Minimality for den_opt Sort Prop.
  Combined Scheme den_mutind from den_mind, den_opt_mind.

  Lemma den_height : (forall l ds, den tok F l ds -> exists n, denh n l) /\
                     (forall o ds, den_opt tok F o ds -> exists n, denh_opt n o).
  Proof.
    apply den_mutind.
    - intros. exists 0. constructor.
    - intros lbl r l rt ds1 ds2 HF _ [n1 H1] _ [n2 H2]. exists (S (Nat.max n1 n2)).
      apply (dh_fam _ lbl r l rt HF).
      + apply (proj2 denh_mono _ _ H1). lia.
      + apply (proj2 denh_mono _ _ H2). lia.
    - exists 0. constructor.
    - intros l ds _ [n H]. exists n. constructor. exact H.
  Qed.

  Definition heads : list label := map fst fams.

  Lemma dn_em (A : Prop) : ~ ~ (A \/ ~ A).
  Proof. tauto. Qed.

  (* a node all of whose ancestors have no unfolding of height <= n, and that has one itself, succeeds *)
  Lemma gres_total_aux : forall n fuel lbl path,
    denh n lbl -> (forall q, In q path -> ~ denh n q) ->
    NoDup path -> incl path heads -> List.length fams - List.length path < fuel ->
    gres fuel path lbl <> None.
  Proof.
    induction n as [n IHn] using lt_wf_ind. intros fuel lbl path Hd Hp Hnd Hincl Hf.
    destruct fuel as [|f]; [lia|].
    destruct (is_tok lbl) eqn:Et.
    { destruct lbl; discriminate. }
    rewrite (gres_nontok _ _ _ Et).
    assert (Hnp : ~ In lbl path) by (intros Hin; exact (Hp _ Hin Hd)).
    apply lmem_not_in in Hnp. rewrite Hnp. apply lmem_not_in in Hnp.
    inversion Hd as [|n0 lbl0 r l rt HF Hl Hr]; subst; [discriminate|].
    intros Hnone.
    (* either lbl already has a smaller unfolding (then the induction hypothesis applies to lbl itself), or the
       children of this family can be tried below lbl *)
    apply (dn_em (denh n0 lbl)). intros [Hsmall|Hnot].
    - refine (IHn n0 (Nat.lt_succ_diag_r _) (S f) lbl path Hsmall _ Hnd Hincl Hf _).
      + intros q Hq Hdq. apply (Hp q Hq). apply (proj1 denh_mono _ _ Hdq). lia.
      + rewrite (gres_nontok _ _ _ Et). apply lmem_not_in in Hnp. rewrite Hnp. exact Hnone.
    - assert (Hin : In (r, l, rt) (order lbl (fams_of tok teqb fams lbl))).
      { apply order_perm. apply fams_of_in. exact HF. }
      pose proof (first_some_none _ _ _ Hnone Hin) as Htry. unfold try_fam in Htry.
      assert (Hhead : In lbl heads) by (unfold heads; apply in_map_iff; exists (lbl, (r, l, rt)); auto).
      assert (Hnd' : NoDup (lbl :: path)) by (constructor; assumption).
      assert (Hincl' : incl (lbl :: path) heads) by (intros q [<-|Hq]; auto).
      assert (Hlen : List.length (lbl :: path) <= List.length fams).
      { unfold heads in Hincl'. rewrite <- (map_length fst fams). apply NoDup_incl_length; assumption. }
      cbn [List.length] in Hlen.
      assert (Hp' : forall q, In q (lbl :: path) -> ~ denh n0 q).
      { intros q [<-|Hq]; [exact Hnot|]. intros Hdq. apply (Hp q Hq). apply (proj1 denh_mono _ _ Hdq). lia. }
      assert (Hsub : forall o, denh_opt n0 o -> sub f (lbl :: path) o <> None).
      { intros o Ho. destruct o as [l0|]; cbn [sub]; [|discriminate]. inversion Ho; subst.
        apply (IHn n0 (Nat.lt_succ_diag_r _)); auto. cbn [List.length]. lia. }
      destruct (sub f (lbl :: path) l) as [d1|] eqn:E1; [|exact (Hsub l Hl E1)].
      destruct (sub f (lbl :: path) rt) as [d2|] eqn:E2; [discriminate|exact (Hsub rt Hr E2)].
  Qed.

  Theorem gres_total lbl ds : den tok F lbl ds -> gres (S (List.length fams)) [] lbl <> None.
  Proof.
    intros H. destruct (proj1 den_height _ _ H) as [n Hn].
    apply (gres_total_aux n); [exact Hn|intros q []|constructor|intros q []|cbn [List.length]; lia].
  Qed.

  (* below a symbol-node label every stored unfolding is a single tree *)
  Lemma den_sym_single a i j ds : den tok F (NSym tok a i j) ds -> exists d, ds = [d].
  Proof. intros H. inversion H; subst. cbn [pack]. eauto. Qed.

  (* the walk returns a tree whenever the forest stores one below the root - on every forest, cyclic or not:
     it retreats from alternatives that run into the current path and still finds an unfolding if one exists *)
  Theorem graph_resolve_total a i j d :
    den tok F (NSym tok a i j) [d] -> graph_resolve tok teqb fams order (NSym tok a i j) <> None.
  Proof.
    intros H. pose proof (gres_total _ _ H) as Hne. unfold graph_resolve.
    destruct (GraphResolve.gres tok teqb fams order _ _ _) as [ds|] eqn:E; [|congruence].
    destruct (den_sym_single _ _ _ _ (gres_sound _ _ _ _ E)) as [d0 ->]. discriminate.
  Qed.
End Proofs.
