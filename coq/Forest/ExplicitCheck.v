(* C04 - decidable helpers used by the correspondence harness and by the well-formedness hypothesis of
   B_expand_exact: structural equality, normalisation of nested _ambig, the boolean forest checker. *)
From Coq Require Import String Ascii Bool Arith List.
From LV Require Import Base.Prelude Forest.ExplicitToTree.
Import ListNotations.
Local Open Scope string_scope.
Local Open Scope list_scope.

Fixpoint list_eqb {A} (f : A -> A -> bool) (a b : list A) : bool :=
  match a, b with
  | [], [] => true
  | x :: a', y :: b' => f x y && list_eqb f a' b'
  | _, _ => false
  end.

Fixpoint tree_eqb (a b : tree) : bool :=
  match a, b with
  | Tk t1 v1, Tk t2 v2 => String.eqb t1 t2 && String.eqb v1 v2
  | Nn, Nn => true
  | Nd d1 k1, Nd d2 k2 =>
      String.eqb d1 d2 &&
      (fix go (k1 k2 : list tree) : bool :=
         match k1, k2 with
         | [], [] => true
         | x :: r1, y :: r2 => tree_eqb x y && go r1 r2
         | _, _ => false
         end) k1 k2
  | _, _ => false
  end.

(* nested _ambig directly under _ambig flattened at every depth.  Lark flattens them in place on objects
   that can be shared between parents (Tree.expand_kids_by_data in AmbiguousExpander), so how many levels
   are flattened depends on how often an object was passed to a callback; the alternatives are the same. *)
Fixpoint norm (t : tree) : tree :=
  match t with
  | Nd d ks =>
      let ks' := (fix go (ks : list tree) := match ks with [] => [] | k :: r => norm k :: go r end) ks in
      if String.eqb d AMBIG then Nd d (flat_map (fun k => if is_ambig k then kids k else [k]) ks') else Nd d ks'
  | _ => t
  end.

Definition esym_eqb (a b : esym) : bool :=
  String.eqb (e_name a) (e_name b) && Bool.eqb (e_term a) (e_term b) && Bool.eqb (e_filter a) (e_filter b).

Definition xrule_eqb (a b : xrule) : bool :=
  String.eqb (x_origin a) (x_origin b) && String.eqb (x_name a) (x_name b) && Bool.eqb (x_alias a) (x_alias b)
  && Bool.eqb (x_expand1 a) (x_expand1 b) && Bool.eqb (x_keep a) (x_keep b)
  && list_eqb esym_eqb (x_exp a) (x_exp b) && list_eqb Bool.eqb (x_empty a) (x_empty b).

(* what the tree builder guarantees for every compiled rule *)
Definition rule_okb (r : xrule) : bool :=
  negb (String.eqb (x_name r) AMBIG) && negb (String.eqb (x_name r) IAMBIG)
  && (negb (starts_us (x_origin r)) || negb (esc_on r)).

Definition sym_matches (s : esym) (n : node) : bool :=
  match n with
  | TokN _ _ => e_term s
  | SymN (LSym a) _ => negb (e_term s) && String.eqb a (e_name s)
  | SymN (LInter _ _) _ => false
  end.

Definition dummy_sym := mkSym "" true false.

(* the shape of the SPPF that lark's Earley parser builds:
   - every symbol/intermediate node has at least one family;
   - a family of a symbol node labelled a has a rule r with origin a and its spine lists one child per symbol
     of r; a family of an intermediate node (r, k), k >= 1, lists the first k children;
   - the right child of the family at spine position k (1-based) is a token node if symbol k-1 of r is a
     terminal, else a symbol node labelled by that non-terminal; the left child is the intermediate node
     (r, k-1), absent for k = 1. *)
Fixpoint wfnb (n : node) : bool :=
  match n with
  | TokN _ _ => true
  | SymN l fams =>
      nonnil fams &&
      (fix go (fs : list packed) : bool := match fs with [] => true | p :: r => wfpb l p && go r end) fams
  end
with wfpb (l : label) (p : packed) : bool :=
  match p with
  | Pack r lf rt =>
      let k := match l with LSym _ => length (x_exp r) | LInter _ k => k end in
      rule_okb r &&
      (match l with
       | LSym a => String.eqb (x_origin r) a
       | LInter r' k' => xrule_eqb r r' && Nat.ltb 0 k' && Nat.ltb k' (length (x_exp r))
       end) &&
      (match k with
       | 0 => match lf, rt with None, None => true | _, _ => false end
       | S k' =>
           (match rt with
            | Some rn => sym_matches (nth k' (x_exp r) dummy_sym) rn && wfnb rn
            | None => false
            end) &&
           (match k', lf with
            | 0, None => true
            | S _, Some ln =>
                (match ln with
                 | SymN (LInter r'' k'') _ => xrule_eqb r r'' && Nat.eqb k'' k'
                 | _ => false
                 end) && wfnb ln
            | _, _ => false
            end)
       end)
  end.

Definition root_okb (n : node) : bool :=
  match n with SymN (LSym _) _ => wfnb n | _ => false end.

Definition res_list (r : res (list tree)) : option (list tree) :=
  match r with Ok l => Some l | _ => None end.

Definition opt_list_eqb (a b : option (list tree)) : bool :=
  match a, b with
  | None, None => true
  | Some x, Some y => list_eqb tree_eqb x y
  | _, _ => false
  end.

(* one correspondence case: strict (compare the trees exactly; false only when lark's tree contains an _ambig
   object reachable from two parents, see norm), the forest lark transformed, the tree it returned, and (optionally) what
   CollapseAmbiguities().transform returned for that tree (None = an exception). *)
Definition check_case (c : bool * node * tree * option (option (list tree))) : bool :=
  let '(strict, n, t, obs) := c in
  root_okb n
  && (if strict then tree_eqb (to_tree_explicit n) t else tree_eqb (norm (to_tree_explicit n)) (norm t))
  && match obs with
     | None => true
     | Some o => opt_list_eqb o (res_list (collapse t))
     end.
