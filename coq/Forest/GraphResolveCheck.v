(* Correspondence for Forest/GraphResolve.v: the model of the resolve walk on the exported graph forest
   (lexemes = token ids, labels as in Forest/ExplicitBuild.v, packed children in insertion order plus the observed
   [children] order of every symbol node) against what lark's ForestToParseTree(resolve_ambiguity=True) with
   rule-identity callbacks returned - on acyclic and cyclic forests. *)
From Coq Require Import List Arith Bool.
From LV Require Import Cfg.Grammar Forest.ExplicitBuild Forest.GraphResolve.
Import ListNotations.

Definition leqbn := nlabel_eqb nat Nat.eqb.

Definition olabel_eqb (a b : option (nlabel nat)) : bool :=
  match a, b with
  | None, None => true
  | Some x, Some y => leqbn x y
  | _, _ => false
  end.

Definition family_eqb (a b : family nat) : bool :=
  let '(r1, l1, t1) := a in let '(r2, l2, t2) := b in
  rule_eqb' r1 r2 && olabel_eqb l1 l2 && olabel_eqb t1 t2.

Fixpoint dt_eqb (a b : dt nat) : bool :=
  match a, b with
  | DL _ t1 x1, DL _ t2 x2 => Nat.eqb t1 t2 && Nat.eqb x1 x2
  | DN _ r1 k1, DN _ r2 k2 =>
      rule_eqb' r1 r2 &&
      (fix go (l1 l2 : list (dt nat)) : bool :=
         match l1, l2 with
         | [], [] => true
         | x :: r, y :: s => dt_eqb x y && go r s
         | _, _ => false
         end) k1 k2
  | _, _ => false
  end.

(* observed SymbolNode.children of the nodes, by label; a node not listed keeps insertion order *)
Definition order_tab (tab : list (nlabel nat * list (family nat))) (lbl : nlabel nat) (fs : list (family nat))
  : list (family nat) :=
  match find (fun p => leqbn (fst p) lbl) tab with
  | Some p => snd p
  | None => fs
  end.

Definition gcase : Type :=
  (list (nlabel nat * family nat) * list (nlabel nat * list (family nat)) * nlabel nat * option (dt nat))%type.

Definition incl_fam (a b : list (family nat)) : bool := forallb (fun x => existsb (family_eqb x) b) a.

(* 0 = agreement; 2 = some observed children list is not a rearrangement of the node's packed children (the
   hypothesis order_perm of the theorems); 1 = the walk's result differs *)
Definition gres_diag (c : gcase) : nat :=
  let '(fams, tab, root, obs) := c in
  if negb (forallb (fun p => let fs := fams_of nat Nat.eqb fams (fst p) in
                             incl_fam (snd p) fs && incl_fam fs (snd p)
                             && Nat.eqb (List.length fs) (List.length (snd p))) tab) then 2
  else match graph_resolve nat Nat.eqb fams (order_tab tab) root, obs with
       | Some d, Some o => if dt_eqb d o then 0 else 1
       | None, None => 0
       | _, _ => 1
       end.

Definition gres_ok (c : gcase) : bool := Nat.eqb (gres_diag c) 0.

(* ---- ForestSumVisitor: the walk model of Forest/GraphSum.v against node.priority / packed.priority after lark's
   real ForestSumVisitor().visit(root) on the pristine forest (cyclic forests included; None = -inf) ---- *)
From Coq Require Import ZArith.
From LV Require Import Forest.GraphSum.

Definition rule_tab (tab : list (rule * Z)) (x : rule) : Z :=
  match find (fun p => rule_eqb' (fst p) x) tab with Some p => snd p | None => 0%Z end.

Definition oz_eqb (a b : option Z) : bool :=
  match a, b with Some x, Some y => Z.eqb x y | None, None => true | _, _ => false end.

Definition gsumcase : Type :=
  (list (nlabel nat * family nat) * list (rule * Z) * list (rule * Z) * list Z * nlabel nat
   * list (nlabel nat * option Z) * list (nlabel nat * family nat * option Z) * bool)%type.

(* 0 = agreement; 1 = a symbol node's priority differs; 2 = a packed node's; 3 = (acyclic, small forests only) the
   walk's annotation differs from the recursive reading gsv used by C05_optimal_graph_walk *)
Definition gsum_diag (c : gsumcase) : nat :=
  let '(fams, rptab, rotab, tptab, root, osym, opk, cmp_gsv) := c in
  let rp := rule_tab rptab in
  let ro := rule_tab rotab in
  let tp := fun (_ x : nat) => nth x tptab 0%Z in
  let st := sum_walk nat Nat.eqb fams rp ro tp root in
  if negb (forallb (fun lv : nlabel nat * option Z =>
                      match look_sym nat Nat.eqb (sv_sym nat st) (fst lv) with
                      | Some v => oz_eqb v (snd lv) | None => false end) osym) then 1
  else if negb (forallb (fun lfv : nlabel nat * family nat * option Z =>
                           match look_pk nat Nat.eqb (sv_pk nat st) (fst (fst lfv)) (snd (fst lfv)) with
                           | Some v => oz_eqb v (snd lfv) | None => false end) opk) then 2
  else if (if cmp_gsv     (* a conditional, not andb: vm_compute is strict *)
           then negb (forallb (fun lv : nlabel nat * option Z =>
                                 Z.eqb (walk_pr nat Nat.eqb tp st (fst lv))
                                       (gsv nat Nat.eqb fams rp tp (S (List.length fams)) (fst lv))) osym)
           else false) then 3
  else 0.

Definition gsum_ok (c : gsumcase) : bool := Nat.eqb (gsum_diag c) 0.
