(* C04 layer B - executable model of the forest -> tree conversion used by ambiguity='explicit':
     lark/parsers/earley_forest.py   ForestToParseTree(resolve_ambiguity=False), PackedData,
                                     _collapse_ambig, _call_ambig_func, transform_*_node
     lark/parse_tree_builder.py      maybe_create_child_filter, ChildFilter, ExpandSingleChild,
                                     AmbiguousExpander, AmbiguousIntermediateExpander
     lark/visitors.py                CollapseAmbiguities (+ utils.combine_alternatives)
   on an acyclic SPPF given as an inductive type (sharing unfolded).  Definitions only; the proofs are
   in Explicit_proofs.v.  Self-contained on purpose (only Base/Prelude is imported). *)
From Coq Require Import String Ascii Bool Arith List.
From LV Require Import Base.Prelude.
Import ListNotations.
Local Open Scope string_scope.
Local Open Scope list_scope.

(* ------------------------------------------------------------------ trees *)
(* lark.Tree(data, children) / Token(type, value) / the None placeholder *)
Inductive tree :=
| Tk (ty v : string)
| Nn
| Nd (d : string) (ks : list tree).

Definition AMBIG := "_ambig".
Definition IAMBIG := "_iambig".
Definition INTER := "_inter".

(* hasattr(t, 'data') and t.data == s *)
Definition is_data (s : string) (t : tree) : bool :=
  match t with Nd d _ => String.eqb d s | _ => false end.
Definition is_ambig := is_data AMBIG.
Definition is_iambig := is_data IAMBIG.
Definition kids (t : tree) : list tree := match t with Nd _ ks => ks | _ => [] end.

(* itertools.product of the lists, same order *)
Fixpoint product {A} (ls : list (list A)) : list (list A) :=
  match ls with
  | [] => [[]]
  | l :: r => flat_map (fun x => map (cons x) (product r)) l
  end.

(* The reading of "expanding every _ambig node": every _ambig node is replaced by each of its
   alternatives, cartesian over siblings. *)
Fixpoint expand (t : tree) : list tree :=
  match t with
  | Nd d ks =>
      let alts := (fix go (ks : list tree) := match ks with [] => [] | k :: r => expand k :: go r end) ks in
      if String.eqb d AMBIG then concat alts else map (Nd d) (product alts)
  | _ => [t]
  end.

(* ------------------------------------------------------------------ rules *)
Record esym := mkSym { e_name : string; e_term : bool; e_filter : bool }.

(* a compiled lark Rule as the tree builder sees it:
   x_name   = rule.alias or rule.options.template_source or rule.origin.name
   x_alias  = bool(rule.alias)
   x_empty  = options.empty_indices if maybe_placeholders else ()            *)
Record xrule := mkX {
  x_origin : string; x_name : string; x_alias : bool; x_expand1 : bool; x_keep : bool;
  x_exp : list esym; x_empty : list bool }.

Definition starts_us (s : string) : bool :=
  match s with String c _ => Ascii.eqb c "_"%char | EmptyString => false end.

(* _should_expand *)
Definition should_expand (s : esym) : bool := negb (e_term s) && starts_us (e_name s).

(* [len(ones) for ones in s.split('0')] *)
Fixpoint runs (l : list bool) (acc : nat) : list nat :=
  match l with
  | [] => [acc]
  | true :: r => runs r (S acc)
  | false :: r => acc :: runs r 0
  end.

Definition empty_counts (r : xrule) : list nat :=
  match x_empty r with
  | [] => repeat 0 (S (length (x_exp r)))
  | e => runs e 0
  end.

(* the to_include loop of maybe_create_child_filter: ([(i, to_expand, add_none)], append_none) *)
Fixpoint to_include (i : nat) (exp : list esym) (ei : list nat) (nones : nat) (keep : bool)
  : list (nat * bool * nat) * nat :=
  match exp with
  | [] => ([], nones + hd 0 ei)
  | s :: r =>
      let nones' := nones + hd 0 ei in
      if keep || negb (e_term s && e_filter s)
      then let '(l, a) := to_include (S i) r (tl ei) 0 keep in ((i, should_expand s, nones') :: l, a)
      else to_include (S i) r (tl ei) nones' keep
  end.

Definition cf_spec (r : xrule) := to_include 0 (x_exp r) (empty_counts r) 0 (x_keep r).

Definition nonnil {A} (l : list A) : bool := match l with [] => false | _ => true end.

(* "if _empty_indices or len(to_include) < len(expansion) or any(to_expand ...)" *)
Definition has_filter (r : xrule) : bool :=
  nonnil (x_empty r) || Nat.ltb (length (fst (cf_spec r))) (length (x_exp r))
  || existsb (fun x => snd (fst x)) (fst (cf_spec r)).

(* ChildFilter.__call__ (the copying variant used when ambiguous=True) without the node builder *)
Definition cf_piece (cs : list tree) (x : nat * bool * nat) : list tree :=
  let '(i, ex, nn) := x in
  repeat Nn nn ++ (if ex then kids (nth i cs Nn) else [nth i cs Nn]).

Definition child_filter (ti : list (nat * bool * nat)) (an : nat) (cs : list tree) : list tree :=
  flat_map (cf_piece cs) ti ++ repeat Nn an.

Definition filtered (r : xrule) (cs : list tree) : list tree :=
  if has_filter r then child_filter (fst (cf_spec r)) (snd (cf_spec r)) cs else cs.

(* ExpandSingleChild is in the chain iff expand1 and not alias *)
Definition esc_on (r : xrule) : bool := x_expand1 r && negb (x_alias r).

(* the callback chain without the two ambiguity wrappers (propagate_positions=False):
   ChildFilter(ExpandSingleChild(Tree(name, .))) - this is also the shaping of one derivation step *)
Definition plain (r : xrule) (cs : list tree) : tree :=
  let f := filtered r cs in
  if esc_on r then match f with [x] => x | _ => Nd (x_name r) f end else Nd (x_name r) f.

(* maybe_create_ambiguous_expander: to_expand *)
Fixpoint amb_indices (i : nat) (exp : list esym) (keep : bool) : list nat :=
  match exp with
  | [] => []
  | s :: r =>
      if keep || (negb (e_term s && e_filter s) && should_expand s)
      then i :: amb_indices (S i) r keep else amb_indices (S i) r keep
  end.
Definition ae_spec (r : xrule) := amb_indices 0 (x_exp r) (x_keep r).

Fixpoint memn (i : nat) (l : list nat) : bool :=
  match l with [] => false | j :: r => Nat.eqb i j || memn i r end.

(* Tree.expand_kids_by_data('_ambig') applied to an _ambig child (one level) *)
Definition flatten_ambig (t : tree) : tree :=
  match t with
  | Nd d ks => if String.eqb d AMBIG
               then Nd d (flat_map (fun k => if is_ambig k then kids k else [k]) ks) else t
  | _ => t
  end.

Fixpoint ae_alts (te : list nat) (i : nat) (cs : list tree) : list (list tree) :=
  match cs with
  | [] => []
  | c :: r => (if is_ambig c && memn i te then kids c else [c]) :: ae_alts te (S i) r
  end.
Fixpoint ae_any (te : list nat) (i : nat) (cs : list tree) : bool :=
  match cs with
  | [] => false
  | c :: r => (is_ambig c && memn i te) || ae_any te (S i) r
  end.

(* AmbiguousExpander.__call__ *)
Definition ae (te : list nat) (nb : list tree -> tree) (cs : list tree) : tree :=
  let cs' := map flatten_ambig cs in
  if ae_any te 0 cs' then Nd AMBIG (map nb (product (ae_alts te 0 cs'))) else nb cs'.

(* _collapse_iambig on an '_iambig' node: the children lists of the flattened '_inter' nodes
   (without the tail children[1:] of the caller, which is appended by the caller) *)
Fixpoint ci (t : tree) : list (list tree) :=
  match t with
  | Nd _ gcs =>
      (fix go (gcs : list tree) : list (list tree) :=
         match gcs with
         | [] => []
         | gc :: gcs' =>
             (match gc with
              | Nd _ (k0 :: rest) =>
                  if is_iambig k0
                  then match ci k0 with [] => [k0 :: rest] | col => map (fun l => l ++ rest) col end
                  else [k0 :: rest]
              | Nd _ [] => [[]]
              | _ => [[]]
              end) ++ go gcs'
         end) gcs
  | _ => []
  end.

(* AmbiguousIntermediateExpander.__call__ *)
Definition aie (nb : list tree -> tree) (cs : list tree) : tree :=
  match cs with
  | c0 :: rest =>
      if is_iambig c0
      then match ci c0 with
           | [] => nb cs
           | col => Nd AMBIG (map (fun l => nb (l ++ rest)) col)
           end
      else nb cs
  | [] => nb cs
  end.

(* callbacks[rule] when ambiguous=True *)
Definition amb_cb (r : xrule) (cs : list tree) : tree :=
  let inner := plain r in
  let f1 := match ae_spec r with [] => inner | te => ae te inner end in
  aie f1 cs.

(* ------------------------------------------------------------------ forest *)
(* SymbolNode.s: a non-terminal name, or (rule, ptr) for an intermediate node *)
Inductive label := LSym (a : string) | LInter (r : xrule) (ptr : nat).
Definition lbl_inter (l : label) : bool := match l with LInter _ _ => true | LSym _ => false end.

(* ForestNodes, acyclic, sharing unfolded.  fams = node.children (PackedNodes in sort_key order) *)
Inductive node :=
| TokN (ty v : string)
| SymN (l : label) (fams : list packed)
with packed :=
| Pack (r : xrule) (left : option node) (right : option node).

(* what a transform_* method returns: a tree/token, or (packed node under an intermediate parent,
   intermediate node with one family) a plain Python list of children *)
Inductive val := VT (t : tree) | VL (l : list tree).
Definition val_items (v : val) : list tree := match v with VL l => l | VT t => [t] end.
Definition val_tree (v : val) : tree := match v with VT t => t | VL l => Nd "_list_" l end.

(* _collapse_ambig *)
Definition collapse_ambig (data : list tree) : list tree :=
  flat_map (fun c => if is_ambig c then kids c else [c]) data.
(* _call_ambig_func (Discard for no data cannot arise on the forests of the theorem; it is
   represented by an _ambig without alternatives) *)
Definition call_ambig (data : list tree) : tree :=
  match data with [x] => x | _ => Nd AMBIG data end.

Fixpoint tn (n : node) : val :=
  match n with
  | TokN ty v => VT (Tk ty v)
  | SymN l fams =>
      let inter := lbl_inter l in
      let data := (fix go (fs : list packed) : list val :=
                     match fs with [] => [] | p :: r => tp inter p :: go r end) fams in
      if inter
      then match data with
           | [d] => d
           | _ => VT (Nd IAMBIG (map (fun c => Nd INTER (val_items c)) data))
           end
      else VT (call_ambig (collapse_ambig (map val_tree data)))
  end
with tp (pinter : bool) (p : packed) : val :=
  match p with
  | Pack r l rt =>
      (* PackedData + transform_packed_node *)
      let cl := match l with Some ln => val_items (tn ln) | None => [] end in
      let cr := match rt with Some rn => [val_tree (tn rn)] | None => [] end in
      let children := cl ++ cr in
      if pinter then VL children else VT (amb_cb r children)
  end.

Definition to_tree_explicit (n : node) : tree := val_tree (tn n).

(* ------------------------------------------------------------------ derivations *)
Inductive dtree := DTok (ty v : string) | DNode (r : xrule) (ks : list dtree).

Definition app_product {A} (xs ys : list (list A)) : list (list A) :=
  flat_map (fun x => map (fun y => x ++ y) ys) xs.

(* all derivations below a node, as children sequences (a singleton sequence for symbol/token nodes,
   the sequence of the first ptr children for an intermediate node) *)
Fixpoint dn (n : node) : list (list dtree) :=
  match n with
  | TokN ty v => [[DTok ty v]]
  | SymN l fams =>
      (fix go (fs : list packed) : list (list dtree) :=
         match fs with
         | [] => []
         | p :: r =>
             (match l with
              | LSym _ => map (fun ks => [DNode (match p with Pack r _ _ => r end) ks]) (dp p)
              | LInter _ _ => dp p
              end) ++ go r
         end) fams
  end
with dp (p : packed) : list (list dtree) :=
  match p with
  | Pack r l rt =>
      app_product (match l with Some ln => dn ln | None => [[]] end)
                  (match rt with Some rn => dn rn | None => [[]] end)
  end.

Definition derivs (n : node) : list dtree := concat (dn n).

(* the documented shaping of one derivation: the plain callback chain bottom-up *)
Fixpoint shape (d : dtree) : tree :=
  match d with
  | DTok ty v => Tk ty v
  | DNode r ks => plain r ((fix go (ks : list dtree) := match ks with [] => [] | k :: r => shape k :: go r end) ks)
  end.

(* ------------------------------------------------------------------ CollapseAmbiguities *)
(* visitors.CollapseAmbiguities as repaired in /repo (commits 61926ad, 686970f): a child that is not a list of
   alternatives (the None placeholder) is its own single alternative, in __default__ and in _ambig;
   utils.combine_alternatives still asserts that no list of alternatives is empty. *)
Fixpoint collapse (t : tree) : res (list tree) :=
  match t with
  | Nd d ks =>
      let isamb := String.eqb d AMBIG in
      let lists := (fix go (ks : list tree) : res (list (list tree)) :=
                      match ks with
                      | [] => Ok []
                      | k :: r =>
                          rbind (collapse k) (fun a =>
                            match a with
                            | [] => if isamb then rbind (go r) (fun b => Ok (a :: b)) else AssertFail
                            | _ => rbind (go r) (fun b => Ok (a :: b))
                            end)
                      end) ks in
      rbind lists (fun ls => if isamb then Ok (List.concat ls) else Ok (map (Nd d) (product ls)))
  | _ => Ok [t]
  end.

(* the same utility before the repair (lark 1.3.1 snapshot): fix_default / fix_ambig = false reproduces
   Transformer._transform_children passing None through: combine_alternatives asserts on it (finding F6),
   and sum(options, []) raises TypeError on it (F6b).  Kept as a record of the finding. *)
Fixpoint collapse_old (fix_default fix_ambig : bool) (t : tree) : res (list tree) :=
  match t with
  | Nd d ks =>
      let isamb := String.eqb d AMBIG in
      let lists := (fix go (ks : list tree) : res (list (list tree)) :=
                      match ks with
                      | [] => Ok []
                      | k :: r =>
                          match k with
                          | Nn => if (if isamb then fix_ambig else fix_default)
                                  then rbind (go r) (fun b => Ok ([Nn] :: b)) else AssertFail
                          | _ => rbind (collapse_old fix_default fix_ambig k) (fun a =>
                                   match a with
                                   | [] => if isamb then rbind (go r) (fun b => Ok (a :: b)) else AssertFail
                                   | _ => rbind (go r) (fun b => Ok (a :: b))
                                   end)
                          end
                      end) ks in
      rbind lists (fun ls => if isamb then Ok (List.concat ls) else Ok (map (Nd d) (product ls)))
  | _ => Ok [t]
  end.

(* no _ambig node without alternatives anywhere *)
Fixpoint noempty (t : tree) : bool :=
  match t with
  | Nd d ks =>
      (fix go (ks : list tree) : bool := match ks with [] => true | k :: r => noempty k && go r end) ks
      && (if String.eqb d AMBIG then nonnil ks else true)
  | _ => true
  end.
