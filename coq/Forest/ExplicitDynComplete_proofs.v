(* C04 layer A for the dynamic lexers - completeness of the scanner's bookkeeping in the instrumented model:
   every entry that a scan step puts into delayed_matches and whose position the run reaches is realised there:
   a token entry adds its token family; a carried entry copies the packed children of the node it carries - exactly
   the first family per (left, right), PackedNode equality - so the copy is complete modulo that equality. *)
From Coq Require Import List Arith Bool Lia.
From LV Require Import Cfg.Grammar Cfg.Analysis Cfg.Analysis_proofs Earley.Spec Earley.Alg Earley.Alg_proofs
  Earley.Dyn Earley.Dyn_proofs
  Forest.ExplicitBuild Forest.ExplicitBuild_proofs Forest.ExplicitAlgBuild Forest.ExplicitAlgBuild_proofs
  Forest.ExplicitDynBuild Forest.ExplicitDynSound Forest.ExplicitDynBuild_proofs Forest.ExplicitDynFamilies_proofs.
Import ListNotations.

(* ---- delayed_matches of the instrumented model as a finite map ---- *)
Lemma idm_get_extend k es dm j e :
  In e (idm_get j (idm_extend k es dm)) <-> In e (idm_get j dm) \/ (j = k /\ In e es).
Proof.
  unfold idm_get. induction dm as [|[k' l] dm IH]; simpl.
  - destruct (Nat.eqb_spec k j) as [->|Hne]; simpl.
    + split; [intros H; right; auto|intros [[]|[_ H]]; auto].
    + split; [intros []|intros [[]|[E _]]; congruence].
  - destruct (Nat.eqb_spec k k') as [->|Hne]; simpl.
    + destruct (Nat.eqb_spec k' j) as [->|Hne']; simpl.
      * rewrite in_app_iff. split; [intros [?|?]; auto|intros [?|[_ ?]]; auto].
      * split; auto. intros [?|[E _]]; auto. congruence.
    + destruct (Nat.eqb_spec k' j) as [->|Hne']; simpl.
      * split; auto. intros [?|[E _]]; auto. congruence.
      * apply IH.
Qed.

Lemma idm_get_remove k dm j : idm_get j (idm_remove k dm) = if Nat.eqb j k then [] else idm_get j dm.
Proof.
  unfold idm_get, idm_remove. induction dm as [|[k' l] dm IH]; simpl.
  - destruct (Nat.eqb j k); auto.
  - destruct (Nat.eqb_spec k' k) as [->|Hne]; simpl.
    + destruct (Nat.eqb_spec k j) as [->|Hne']; simpl.
      * rewrite IH, Nat.eqb_refl. auto.
      * rewrite IH. destruct (Nat.eqb_spec j k); auto; try congruence.
    + destruct (Nat.eqb_spec k' j) as [->|Hne']; simpl.
      * destruct (Nat.eqb_spec j k); auto; try congruence.
      * apply IH.
Qed.

Lemma ifold_get_spec {A} (f : idmap -> A -> idmap) (P : A -> nat -> ientry -> Prop) :
  (forall dm a j e, In e (idm_get j (f dm a)) <-> In e (idm_get j dm) \/ P a j e) ->
  forall l dm j e, In e (idm_get j (fold_left f l dm)) <-> In e (idm_get j dm) \/ exists a, In a l /\ P a j e.
Proof.
  intros Hf. induction l as [|a l IH]; intros dm j e; simpl.
  - split; auto. intros [?|(a & [] & _)]; auto.
  - rewrite IH, Hf. split.
    + intros [[?|?]|(a' & ? & ?)]; auto; right; eauto.
    + intros [?|(a' & [<- |?] & ?)]; auto. right; eauto.
Qed.

(* ---- first family per (left, right) ---- *)
Lemma same_children_refl (f : dfam) : same_children f f = true.
Proof.
  destruct f as [l [[r a] b]]. simpl.
  assert (L : forall x : nlabel nat, label_eqb x x = true).
  { intros [a0 i j|r0 d i j|t x i j]; simpl; rewrite ?Nat.eqb_refl; auto.
    rewrite (proj2 (rule_eqb_spec r0 r0) eq_refl). auto. }
  destruct a, b; simpl; rewrite ?L; auto.
Qed.

Lemma same_children_sym (f g : dfam) : same_children f g = true -> same_children g f = true.
Proof.
  destruct f as [l1 [[r1 a1] b1]], g as [l2 [[r2 a2] b2]]. simpl. rewrite !andb_true_iff.
  assert (L : forall x y : option (nlabel nat), olabel_eqb x y = true -> olabel_eqb y x = true).
  { intros [x|] [y|]; simpl; auto. intros H. apply label_eqb_eq in H. subst.
    destruct y; simpl; rewrite ?Nat.eqb_refl; auto. rewrite (proj2 (rule_eqb_spec r r) eq_refl). auto. }
  intros (H1 & H2). split; auto.
Qed.

Lemma same_children_trans (f g h : dfam) :
  same_children f g = true -> same_children g h = true -> same_children f h = true.
Proof.
  destruct f as [l1 [[r1 a1] b1]], g as [l2 [[r2 a2] b2]], h as [l3 [[r3 a3] b3]]. simpl. rewrite !andb_true_iff.
  assert (L : forall x y z : option (nlabel nat), olabel_eqb x y = true -> olabel_eqb y z = true -> olabel_eqb x z = true).
  { intros [x|] [y|] [z|]; simpl; auto; try discriminate. intros H1 H2. apply label_eqb_eq in H1. subst. auto. }
  intros (H1 & H2) (H3 & H4). split; eauto.
Qed.

(* every call has a representative among the deduplicated children *)
Lemma dedup_children_repr l : forall seen f, In f l ->
  (exists g, In g seen /\ same_children f g = true) \/ (exists g, In g (dedup_children l seen) /\ same_children f g = true).
Proof.
  induction l as [|h l IH]; intros seen f Hf; [destruct Hf|]. destruct Hf as [<- |Hf]; simpl.
  - destruct (existsb (same_children h) seen) eqn:E.
    + left. apply existsb_exists in E. destruct E as (g & Hg & Hs). eauto.
    + right. exists h. split; [left; auto|apply same_children_refl].
  - destruct (existsb (same_children h) seen) eqn:E.
    + apply IH; auto.
    + destruct (IH (h :: seen) f Hf) as [(g & [<- |Hg] & Hs)|(g & Hg & Hs)].
      * right. exists h. split; [left; auto|auto].
      * left; eauto.
      * right. exists g. split; [right; auto|auto].
Qed.

Lemma node_children_repr acc lbl f : In f acc -> fst f = lbl ->
  exists g, In g (node_children acc lbl) /\ same_children f g = true.
Proof.
  intros Hf Hl. unfold node_children.
  assert (Hin : In f (filter (fun f0 => label_eqb (fst f0) lbl) acc)).
  { apply filter_In. split; auto. rewrite Hl. destruct lbl; simpl; rewrite ?Nat.eqb_refl; auto.
    rewrite (proj2 (rule_eqb_spec r r) eq_refl). auto. }
  destruct (dedup_children_repr _ [] f Hin) as [(g & [] & _)|H]; auto.
Qed.

Section DynScanComplete.
  Variable G : grammar.
  Variable predictions : nat -> list rule.
  Variable start : nat.
  Variable n : nat.
  Variable rmatch : nat -> nat -> option nat.
  Variable rtrunc : nat -> nat -> nat -> option nat.
  Variable complete_lex : bool.
  Variable ignore : list nat.

  Notation ends := (ends_of rmatch rtrunc complete_lex).
  Notation idloop := (idloop G predictions start rmatch rtrunc complete_lex ignore).

  (* what scan(i) with to_scan = Q and column = C puts under key j *)
  Definition iemits (Q C : list item) (i j : nat) (e : ientry) : Prop :=
    (exists x t, In x Q /\ expect x = Some (T t) /\ In j (ends t i) /\ e = (x, i, Some t)) \/
    (exists ig, In ig ignore /\ rmatch ig i = Some j /\
       ((exists x, In x Q /\ e = (x, i, None)) \/ (exists x, In x C /\ is_solution start x = true /\ e = (x, i, None)))).

  Lemma iscan_item_spec i dm x j e :
    In e (idm_get j (iscan_item rmatch rtrunc complete_lex i dm x)) <->
    In e (idm_get j dm) \/ (exists t, expect x = Some (T t) /\ In j (ends t i) /\ e = (x, i, Some t)).
  Proof.
    unfold iscan_item. destruct (expect x) as [[t|a]|] eqn:E.
    - rewrite (ifold_get_spec (fun dm e0 => idm_extend e0 [(x, i, Some t)] dm) (fun e0 j e => j = e0 /\ e = (x, i, Some t))).
      + split; intros [?|H]; auto; right.
        * destruct H as (e0 & Hin & -> & ->). eauto.
        * destruct H as (t' & Et & Hin & ->). inversion Et; subst t'. eauto.
      + intros dm0 a j0 e0. rewrite idm_get_extend. simpl. split.
        * intros [?|[? [<- |[]]]]; auto.
        * intros [?|[? ->]]; auto.
    - split; auto. intros [?|(t & F & _)]; auto. discriminate.
    - split; auto. intros [?|(t & F & _)]; auto. discriminate.
  Qed.

  Lemma iscan_ignore_spec i Q C dm x j e :
    In e (idm_get j (iscan_ignore start rmatch i Q C dm x)) <->
    In e (idm_get j dm) \/ (rmatch x i = Some j /\
        ((exists y, In y Q /\ e = (y, i, None)) \/ (exists y, In y C /\ is_solution start y = true /\ e = (y, i, None)))).
  Proof.
    unfold iscan_ignore. destruct (rmatch x i) as [e0|] eqn:E.
    - rewrite !idm_get_extend, !in_map_iff. split.
      + intros [[?|[-> (y & <- & Hy)]]|[-> (y & <- & Hy)]]; auto; right; split; auto.
        * left; eauto.
        * apply filter_In in Hy. right. exists y. tauto.
      + intros [?|[Ej [(y & Hy & ->)|(y & Hy & Hs & ->)]]]; auto; inversion Ej; subst e0.
        * left; right; split; auto. exists y; auto.
        * right; split; auto. exists y; split; auto. apply filter_In; auto.
    - split; auto. intros [?|[F _]]; auto. discriminate.
  Qed.

  Lemma idscan_dm_spec i Q C dm j e :
    In e (idm_get j (fold_left (iscan_ignore start rmatch i Q C) ignore
                               (fold_left (iscan_item rmatch rtrunc complete_lex i) Q dm))) <->
    In e (idm_get j dm) \/ iemits Q C i j e.
  Proof.
    rewrite (ifold_get_spec _ _ (fun dm0 a j0 e0 => iscan_ignore_spec i Q C dm0 a j0 e0)).
    rewrite (ifold_get_spec _ _ (fun dm0 a j0 e0 => iscan_item_spec i dm0 a j0 e0)).
    unfold iemits. split.
    - intros [[?|(x & Hx & t & He & Hj & ->)]|(ig & Hig & Hm & H)]; auto.
      + right; left. exists x, t; auto.
      + right; right. exists ig; auto.
    - intros [?|[(x & t & Hx & He & Hj & ->)|(ig & Hig & Hm & H)]]; auto.
      + left; right. exists x; split; auto. exists t; auto.
      + right. exists ig; auto.
  Qed.

  (* ---- what "realised" means for an entry, in terms of a log ---- *)
  Definition has_node (x : item) : Prop := ~ (dot x = 0 /\ expect x <> None).

  Definition tok_fam (x : item) (i0 t j : nat) : dfam :=
    (ilabel nat (irule x) (S (dot x)) (orig x) j,
     (irule x, inode nat (irule x) (dot x) (orig x) i0, Some (NTok nat t t i0 j))).

  Definition entry_done (pre log : list dfam) (j : nat) (e : ientry) : Prop :=
    let '(x, i0, tk) := e in
    match tk with
    | Some t => In (tok_fam x i0 t j) log
    | None => has_node x -> forall f, In f pre -> fst f = node_label x i0 ->
              exists f0, fst f0 = node_label x i0 /\ same_children f f0 = true /\ In (node_label x j, snd f0) log
    end.

  Lemma entry_fams_done i a e : entry_done a (a ++ entry_fams i a e) (S i) e.
  Proof.
    destruct e as [[x i0] [t|]]; unfold entry_done, entry_fams.
    - apply in_or_app. right. left. reflexivity.
    - intros Hn f Hf Hl.
      destruct (node_children_repr a (node_label x i0) f Hf Hl) as (g & Hg & Hs).
      pose proof (node_children_in _ _ _ Hg) as (_ & Hgl).
      exists g. repeat split; auto. apply in_or_app. right.
      unfold has_node in Hn.
      destruct (dot x) eqn:Ed; [destruct (expect x) eqn:Ee|]; try (apply in_map_iff; exists g; auto; fail).
      exfalso. apply Hn. split; auto. discriminate.
  Qed.

  Lemma entry_done_mono pre pre' log log' j e :
    incl pre' pre -> incl log log' -> entry_done pre log j e -> entry_done pre' log' j e.
  Proof.
    destruct e as [[x i0] [t|]]; unfold entry_done; intros Hp Hl H; auto.
    intros Hn f Hf Hlab. destruct (H Hn f (Hp f Hf) Hlab) as (f0 & A & B & C). exists f0. auto.
  Qed.

  Lemma fold_entries_done i es : forall acc e, In e es ->
    entry_done acc (fold_left (fun a e0 => a ++ entry_fams i a e0) es acc) (S i) e.
  Proof.
    induction es as [|e0 es IH]; intros acc e He; [destruct He|]. destruct He as [<- |He]; simpl.
    - eapply entry_done_mono; [apply incl_refl| |apply entry_fams_done].
      apply fold_entry_incl.
    - eapply entry_done_mono; [|apply incl_refl|apply IH; auto]. intros z Hz. apply in_or_app; auto.
  Qed.

  (* ---- the log only grows, and what is added while column i is processed is labelled with end i or i+1 ---- *)
  Lemma ipc_loop_decomp fuel i cols : forall st acc st' acc',
    ipc_loop predictions nat fuel i cols st acc = Some (st', acc') ->
    exists rest, acc' = acc ++ rest /\ forall f, In f rest -> lend (fst f) = i.
  Proof.
    induction fuel as [|f IH]; intros st acc st' acc' H; destruct st as [col work scan held];
      cbn [ExplicitAlgBuild.ipc_loop pc_work pc_col pc_scan pc_held] in H; destruct work as [|x work].
    - inversion H; subst. exists []. rewrite app_nil_r. split; auto. intros f0 [].
    - discriminate.
    - inversion H; subst. exists []. rewrite app_nil_r. split; auto. intros f0 [].
    - apply IH in H. destruct H as (rest & -> & Hr).
      exists (step_fams nat i cols x (mkPC col work scan held) ++ rest). rewrite app_assoc. split; auto.
      intros f0 Hf. apply in_app_or in Hf. destruct Hf as [Hf|Hf]; auto.
      unfold ExplicitAlgBuild.step_fams in Hf. destruct (expect x) as [[t|a]|].
      + destruct Hf.
      + destruct (nat_mem a (pc_held (mkPC col work scan held))); [|destruct Hf]. destruct Hf as [<- |[]].
        unfold comp_fam. cbn [fst]. apply lend_ilabel.
      + apply in_app_or in Hf. destruct Hf as [Hf|Hf].
        * destruct (dot x); [|destruct Hf]. destruct Hf as [<- |[]]. reflexivity.
        * apply in_map_iff in Hf. destruct Hf as (o & <- & _). unfold comp_fam. cbn [fst]. apply lend_ilabel.
  Qed.

  Lemma fold_entries_decomp i es : forall acc,
    exists rest, fold_left (fun a e => a ++ entry_fams i a e) es acc = acc ++ rest /\
                 forall f, In f rest -> lend (fst f) = S i.
  Proof.
    induction es as [|e es IH]; intros acc; simpl.
    - exists []. rewrite app_nil_r. split; auto. intros f [].
    - destruct (IH (acc ++ entry_fams i acc e)) as (rest & -> & Hr).
      exists (entry_fams i acc e ++ rest). rewrite app_assoc. split; auto.
      intros f Hf. apply in_app_or in Hf. destruct Hf as [Hf|Hf]; auto.
      destruct e as [[x i0] [t|]]; unfold entry_fams in Hf.
      + destruct Hf as [<- |[]]. cbn [fst]. apply lend_ilabel.
      + assert (Hm : In f (map (fun f1 : dfam => (node_label x (S i), snd f1)) (node_children acc (node_label x i0)))).
        { destruct (dot x); [destruct (expect x)|]; auto. destruct Hf. }
        apply in_map_iff in Hm. destruct Hm as (g & <- & _). cbn [fst]. unfold node_label. apply lend_ilabel.
  Qed.

  Definition entries_done (res : dresult) (log : list dfam) (i : nat) : Prop :=
    forall k j e, k < j -> i < j -> j < length (d_cols res) ->
      iemits (colf (d_scans res) k) (colf (d_cols res) k) k j e ->
      exists pre rest, log = pre ++ rest /\ (forall f, In f rest -> j <= lend (fst f)) /\ entry_done pre log j e.

  Lemma idloop_entries : forall rem i cols scans keys col scanq dm acc,
    length cols = i -> length scans = i ->
    (forall k j e, k < i -> i < j -> iemits (colf scans k) (colf cols k) k j e -> In e (idm_get j dm)) ->
    let r := idloop rem i cols scans keys col scanq dm acc in
    (exists rc rs, d_cols (fst r) = cols ++ rc /\ d_scans (fst r) = scans ++ rs) /\
    (exists rest, snd r = acc ++ rest /\ forall f, In f rest -> i <= lend (fst f)) /\
    entries_done (fst r) (snd r) i.
  Proof.
    induction rem as [|rem IH]; intros i cols scans keys col scanq dm acc Hlc Hls Hpend;
      cbn [ExplicitDynBuild.idloop]; unfold ipredict_and_complete;
      destruct (ipc_loop predictions nat (pc_fuel G i) i cols (mkPC col (rev col) scanq []) acc) as [[st acc1]|] eqn:E;
      cbn zeta.
    - destruct (ipc_loop_decomp _ _ _ _ _ _ _ E) as (r1 & -> & Hr1). cbn [fst snd d_cols d_scans].
      split; [exists [pc_col st], [pc_scan st]; auto|]. split.
      + exists r1. split; auto. intros f Hf. rewrite (Hr1 f Hf). lia.
      + intros k j e Hkj Hij Hj. cbn [d_cols] in Hj. rewrite app_length in Hj. simpl in Hj. lia.
    - cbn [fst snd d_cols d_scans]. split; [exists [], []; rewrite !app_nil_r; auto|]. split.
      + exists []. rewrite app_nil_r. split; auto. intros f [].
      + intros k j e Hkj Hij Hj. cbn [d_cols] in Hj. lia.
    - destruct (ipc_loop_decomp _ _ _ _ _ _ _ E) as (r1 & -> & Hr1).
      set (acc1 := acc ++ r1) in *.
      unfold idscan. cbn zeta. cbn [fst snd].
      set (dm2 := fold_left (iscan_ignore start rmatch i (pc_scan st) (pc_col st)) ignore
                            (fold_left (iscan_item rmatch rtrunc complete_lex i) (pc_scan st) dm)).
      set (es := idm_get (S i) dm2).
      set (ns := fold_left (fun a e => dplace a (realise (erase_entry e))) es ([], [])).
      destruct (fold_entries_decomp i es acc1) as (r2 & Eacc2 & Hr2).
      set (acc2 := fold_left (fun a e => a ++ entry_fams i a e) es acc1) in *.
      set (cols' := cols ++ [pc_col st]). set (scans' := scans ++ [pc_scan st]).
      assert (Ec : colf cols' i = pc_col st) by (apply colf_snoc_eq'; auto).
      assert (Eq : colf scans' i = pc_scan st) by (apply colf_snoc_eq'; auto).
      assert (Ecl : forall k, k < i -> colf cols' k = colf cols k) by (intros; apply colf_snoc_lt; lia).
      assert (Eql : forall k, k < i -> colf scans' k = colf scans k) by (intros; apply colf_snoc_lt; lia).
      (* everything emitted for position i+1 is processed now *)
      assert (Hnow : forall k e, k <= i -> iemits (colf scans' k) (colf cols' k) k (S i) e -> In e es).
      { intros k e Hk He. unfold es, dm2. apply idscan_dm_spec.
        destruct (Nat.eq_dec k i) as [-> |Hne].
        - right. rewrite Ec, Eq in He. exact He.
        - left. apply (Hpend k (S i) e); try lia. rewrite <- Ecl, <- Eql by lia. exact He. }
      (* everything emitted for a later position is still pending *)
      assert (Hpend' : forall k j e, k < S i -> S i < j -> iemits (colf scans' k) (colf cols' k) k j e ->
                                    In e (idm_get j (idm_remove (S i) dm2))).
      { intros k j e Hk Hj He. rewrite idm_get_remove. destruct (Nat.eqb_spec j (S i)); [lia|].
        unfold dm2. apply idscan_dm_spec.
        destruct (Nat.eq_dec k i) as [-> |Hne].
        - right. rewrite Ec, Eq in He. exact He.
        - left. apply (Hpend k j e); try lia. rewrite <- Ecl, <- Eql by lia. exact He. }
      assert (Stop : forall o,
                let r := (mkDRes o cols' scans' keys, acc2) in
                (exists rc rs, d_cols (fst r) = cols ++ rc /\ d_scans (fst r) = scans ++ rs) /\
                (exists rest, snd r = acc ++ rest /\ forall f, In f rest -> i <= lend (fst f)) /\
                entries_done (fst r) (snd r) i).
      { intros o. cbn [fst snd d_cols d_scans]. split; [exists [pc_col st], [pc_scan st]; auto|]. split.
        - exists (r1 ++ r2). rewrite Eacc2. unfold acc1. rewrite app_assoc. split; auto.
          intros f Hf. apply in_app_or in Hf. destruct Hf as [Hf|Hf]; [rewrite (Hr1 f Hf)|rewrite (Hr2 f Hf)]; lia.
        - intros k j e Hkj Hij Hj. cbn [d_cols] in Hj. unfold cols' in Hj. rewrite app_length in Hj. simpl in Hj. lia. }
      assert (Go : let r := idloop rem (S i) cols' scans' (keys ++ [map fst (idm_remove (S i) dm2)])
                                   (fst ns) (snd ns) (idm_remove (S i) dm2) acc2 in
                (exists rc rs, d_cols (fst r) = cols ++ rc /\ d_scans (fst r) = scans ++ rs) /\
                (exists rest, snd r = acc ++ rest /\ forall f, In f rest -> i <= lend (fst f)) /\
                entries_done (fst r) (snd r) i).
      { destruct (IH (S i) cols' scans' (keys ++ [map fst (idm_remove (S i) dm2)]) (fst ns) (snd ns)
                     (idm_remove (S i) dm2) acc2) as ((rc & rs & R1 & R2) & (rest & R3 & R4) & R5); auto.
        - unfold cols'. rewrite app_length. simpl. lia.
        - unfold scans'. rewrite app_length. simpl. lia.
        - cbn zeta. split; [exists ([pc_col st] ++ rc), ([pc_scan st] ++ rs); rewrite R1, R2; unfold cols', scans'; rewrite <- !app_assoc; auto|].
          split.
          + exists (r1 ++ r2 ++ rest). rewrite R3, Eacc2. unfold acc1. rewrite <- !app_assoc. split; auto.
            intros f Hf. apply in_app_or in Hf. destruct Hf as [Hf|Hf]; [rewrite (Hr1 f Hf); lia|].
            apply in_app_or in Hf. destruct Hf as [Hf|Hf]; [rewrite (Hr2 f Hf); lia|]. specialize (R4 f Hf). lia.
          + intros k j e Hkj Hij Hj He.
            destruct (Nat.eq_dec j (S i)) as [-> |Hne]; [|apply (R5 k j e); auto; lia].
            (* realised in this iteration *)
            assert (Hk : k <= i) by lia.
            assert (Ecf : colf (cols' ++ rc) k = colf cols' k).
            { unfold colf. rewrite app_nth1; auto. unfold cols'. rewrite app_length. simpl. lia. }
            assert (Eqf : colf (scans' ++ rs) k = colf scans' k).
            { unfold colf. rewrite app_nth1; auto. unfold scans'. rewrite app_length. simpl. lia. }
            rewrite R1, R2, Ecf, Eqf in He.
            pose proof (fold_entries_done i es acc1 e (Hnow k e Hk He)) as Hd. fold acc2 in Hd.
            exists acc1, (r2 ++ rest). rewrite R3, Eacc2, <- app_assoc. split; auto. split.
            * intros f Hf. apply in_app_or in Hf. destruct Hf as [Hf|Hf]; [rewrite (Hr2 f Hf); lia|apply R4; auto].
            * eapply entry_done_mono; [apply incl_refl| |exact Hd]. rewrite Eacc2. intros z Hz. rewrite app_assoc. apply in_or_app; auto. }
      destruct (fst ns) as [|z nc']; [destruct (idm_remove (S i) dm2) as [|p dm'']; [destruct (snd ns) as [|z nq']|]|];
        try apply Stop; apply Go.
    - cbn [fst snd d_cols d_scans]. split; [exists [], []; rewrite !app_nil_r; auto|]. split.
      + exists []. rewrite app_nil_r. split; auto. intros f [].
      + intros k j e Hkj Hij Hj. cbn [d_cols] in Hj. lia.
  Qed.
End DynScanComplete.

Section DynScanTop.
  Variable G : grammar.
  Variable predictions : nat -> list rule.
  Variable start : nat.
  Variable n : nat.
  Variable rmatch : nat -> nat -> option nat.
  Variable rtrunc : nat -> nat -> nat -> option nat.
  Variable complete_lex : bool.
  Variable ignore : list nat.
  Hypothesis pred_sound : forall a r, In r (predictions a) -> In r G /\ lc_reach G a (lhs r).
  Hypothesis pred_direct : forall a r, In r G -> lhs r = a -> In r (predictions a).
  Hypothesis H_fwd : fwd rmatch rtrunc.

  Notation ends := (ends_of rmatch rtrunc complete_lex).
  Notation gchart := (gchart G start rmatch rtrunc complete_lex ignore).
  Notation ires := (idparse G predictions start n rmatch rtrunc complete_lex ignore).

  Lemma ires_entries : entries_done start rmatch rtrunc complete_lex ignore (fst ires) (snd ires) 0.
  Proof.
    unfold idparse. cbn zeta.
    destruct (idloop_entries G predictions start rmatch rtrunc complete_lex ignore n 0 [] [] []
                (fst (initial predictions start)) (snd (initial predictions start)) [] [] eq_refl eq_refl) as (_ & _ & H); auto.
    intros k j e Hk. lia.
  Qed.

  (* every chart item advanced over a token edge has its token family in the log *)
  Theorem dyn_token_families k x t j :
    gchart k x -> expect x = Some (T t) -> In j (ends t k) -> j < length (d_cols (fst ires)) ->
    In (tok_fam x k t j) (snd ires).
  Proof.
    intros Hx He Hj Hlt.
    destruct (ires_gclosed G predictions start n rmatch rtrunc complete_lex ignore pred_sound pred_direct H_fwd) as (N & HN & Cl).
    assert (Hkj : k < j) by (eapply ends_fwd; eauto).
    assert (Hq : In x (colf (d_scans (fst ires)) k)).
    { eapply ginT_Q; eauto; [lia| |unfold is_term_item; rewrite He; reflexivity]. eapply gclosed_complete; eauto. lia. }
    destruct (ires_entries k j (x, k, Some t)) as (pre & rest & _ & _ & Hd); auto; try lia.
    left. exists x, t. auto.
  Qed.

  (* the carry-over copies the packed children of the carried node: every family of node (s, start, k) - up to
     PackedNode equality, which is what node.children keeps - has its copy under (s, start, j) *)
  Theorem dyn_carry_copies k x j f :
    gchart k x -> is_term_item x = true \/ is_solution start x = true -> ign_edge rmatch ignore k j ->
    j < length (d_cols (fst ires)) -> has_node x ->
    In f (snd ires) -> fst f = node_label x k ->
    exists f0, fst f0 = node_label x k /\ same_children f f0 = true /\ In (node_label x j, snd f0) (snd ires).
  Proof.
    intros Hx Hkind Hedge Hlt Hn Hf Hl.
    destruct (ires_gclosed G predictions start n rmatch rtrunc complete_lex ignore pred_sound pred_direct H_fwd) as (N & HN & Cl).
    assert (Hkj : k < j) by (eapply ign_edge_fwd; eauto).
    destruct Hedge as (ig & Hig & Hm).
    assert (Hem : iemits start rmatch rtrunc complete_lex ignore
                         (colf (d_scans (fst ires)) k) (colf (d_cols (fst ires)) k) k j (x, k, None)).
    { right. exists ig. repeat split; auto. destruct Hkind as [Ht|Hs].
      - left. exists x. split; auto. eapply ginT_Q; eauto; [lia|]. eapply gclosed_complete; eauto. lia.
      - right. exists x. repeat split; auto. eapply ginT_C; eauto; [lia| |].
        + eapply gclosed_complete; eauto. lia.
        + apply is_solution_spec in Hs. destruct Hs as (He & _). unfold is_term_item. rewrite He. reflexivity. }
    destruct (ires_entries k j (x, k, None) Hkj) as (pre & rest & Elog & Hrest & Hd); auto; try lia.
    unfold entry_done in Hd. apply Hd; auto.
    rewrite Elog in Hf. apply in_app_or in Hf. destruct Hf as [Hf|Hf]; auto.
    exfalso. specialize (Hrest f Hf). rewrite Hl in Hrest. unfold node_label in Hrest. rewrite lend_ilabel in Hrest. lia.
  Qed.
End DynScanTop.

Section DynScanModel.
  Variable G : grammar.
  Variable start n : nat.
  Variable rmatch : nat -> nat -> option nat.
  Variable rtrunc : nat -> nat -> nat -> option nat.
  Variable complete_lex : bool.
  Variable ignore : list nat.
  Hypothesis H_fwd : fwd rmatch rtrunc.

  Let ps : forall a r, In r (pred_lookup G (pred_table G) a) -> In r G /\ lc_reach G a (lhs r).
  Proof. intros a r. rewrite pred_lookup_eq. apply predictions_spec. Qed.
  Let pd : forall a r, In r G -> lhs r = a -> In r (pred_lookup G (pred_table G) a).
  Proof. intros a r. rewrite pred_lookup_eq. apply predictions_direct. Qed.

  Notation gchart := (gchart G start rmatch rtrunc complete_lex ignore).
  Notation ires := (idyn_parse G start n rmatch rtrunc complete_lex ignore).

  Theorem idyn_token_families k x t j :
    gchart k x -> expect x = Some (T t) -> In j (ends_of rmatch rtrunc complete_lex t k) ->
    j < length (d_cols (fst ires)) -> In (tok_fam x k t j) (snd ires).
  Proof. apply (dyn_token_families G (pred_lookup G (pred_table G)) start n rmatch rtrunc complete_lex ignore ps pd H_fwd). Qed.

  Theorem idyn_carry_copies k x j f :
    gchart k x -> is_term_item x = true \/ is_solution start x = true -> ign_edge rmatch ignore k j ->
    j < length (d_cols (fst ires)) -> has_node x ->
    In f (snd ires) -> fst f = node_label x k ->
    exists f0, fst f0 = node_label x k /\ same_children f f0 = true /\ In (node_label x j, snd f0) (snd ires).
  Proof. apply (dyn_carry_copies G (pred_lookup G (pred_table G)) start n rmatch rtrunc complete_lex ignore ps pd H_fwd). Qed.
End DynScanModel.
