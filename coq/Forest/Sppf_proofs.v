(* Induction principle for forests and basic facts about [derivs]. *)
From Coq Require Import ZArith List Bool String Lia.
From LV Require Import Forest.Sppf.
Import ListNotations.

Section SymInd.
  Variable P : sym -> Prop.
  Variable Q : packed -> Prop.
  Hypothesis HTok : forall a b c, P (TokLeaf a b c).
  Hypothesis HSym : forall l fams, Forall Q fams -> P (Sym l fams).
  Hypothesis HPack : forall r lft rgt,
      (forall s, lft = Some s -> P s) -> (forall s, rgt = Some s -> P s) -> Q (Pack r lft rgt).

  Fixpoint sym_ind2 (s : sym) : P s :=
    match s with
    | TokLeaf a b c => HTok a b c
    | Sym l fams =>
        HSym l fams ((fix go (fs : list packed) : Forall Q fs :=
                        match fs with
                        | [] => Forall_nil Q
                        | p :: r => Forall_cons p (packed_ind2 p) (go r)
                        end) fams)
    end
  with packed_ind2 (p : packed) : Q p :=
    match p with
    | Pack r lft rgt =>
        HPack r lft rgt
          (match lft as o return forall s, o = Some s -> P s with
           | None => fun s H => match H with eq_refl => I end
           | Some s0 => fun s H => match H in _ = y return match y with Some s' => P s' | None => True end
                                   with eq_refl => sym_ind2 s0 end
           end)
          (match rgt as o return forall s, o = Some s -> P s with
           | None => fun s H => match H with eq_refl => I end
           | Some s0 => fun s H => match H in _ = y return match y with Some s' => P s' | None => True end
                                   with eq_refl => sym_ind2 s0 end
           end)
    end.

  Lemma sym_packed_ind : (forall s, P s) /\ (forall p, Q p).
  Proof. split; [exact sym_ind2 | exact packed_ind2]. Qed.
End SymInd.
