(* The coded single-visit walk of ForestSumVisitor ([svw], Forest/GraphSum.v) leaves, on an acyclic closed graph
   forest, exactly the recursive annotation pr_sv used by C05_optimal_graph_walk. *)
From Coq Require Import ZArith List Arith Bool Lia.
From LV Require Import Cfg.Grammar Forest.ExplicitBuild Forest.GraphResolve Forest.GraphResolve_proofs
  Gen.ForestSortKey Forest.Sppf Forest.Prio Forest.Prio_proofs Forest.GraphPrio_proofs Forest.GraphSum
  Forest.GraphSum_proofs.
Import ListNotations.
Local Open Scope Z_scope.

Section Walk.
  Variable tok : Type.
  Variable teqb : tok -> tok -> bool.
  Hypothesis teqb_spec : forall a b, teqb a b = true <-> a = b.
  Variable fams : list (nlabel tok * family tok).
  Variable rprio rorder : rule -> Z.
  Variable tprio : nat -> tok -> Z.
  Variable rk : nlabel tok -> nat.
  Variable M : nat.
  Hypothesis Hranked : rankedb tok fams rk M = true.
  Hypothesis Hclosed : closedb tok teqb fams = true.
  Hypothesis Hnotok : notokb tok fams = true.

  Notation label := (nlabel tok).
  Notation leqb := (nlabel_eqb tok teqb).
  Notation F := (in_forest tok fams).
  Notation fams_of := (fams_of tok teqb fams).
  Notation G := (pr_sv tok teqb fams rprio tprio M).
  Notation GF := (prf_sv tok teqb fams rprio tprio M).
  Notation svw := (svw tok teqb fams rprio rorder tprio).
  Notation look_sym := (look_sym tok teqb).
  Notation look_pk := (look_pk tok teqb).

  Notation gsv := (gsv tok teqb fams rprio tprio).

  Lemma gsv_fuel' : forall n lbl f1 f2, (rk lbl <= n)%nat -> (rk lbl < f1)%nat -> (rk lbl < f2)%nat ->
    gsv f1 lbl = gsv f2 lbl.
  Proof.
    induction n as [n IH] using lt_wf_ind. intros lbl f1 f2 Hn H1 H2.
    destruct f1 as [|a]; [lia|]. destruct f2 as [|b]; [lia|].
    destruct lbl as [a0 i0 j0|r0 d0 i0 j0|t0 x0 i0 j0]; cbn [GraphSum.gsv]; try reflexivity; f_equal; apply map_ext_in; intros [[r l] rt] Hin;
      apply (fams_of_in tok teqb teqb_spec) in Hin; destruct (ranked_prop tok fams rk M Hranked _ _ _ _ Hin) as [Hl [Hr _]];
      unfold gsvf_with; f_equal; [f_equal| |f_equal|];
      try (destruct rt as [c|]; [|reflexivity]; cbn [orank] in Hr; apply (IH (rk c)); lia);
      try (destruct l as [c|]; [|reflexivity]; cbn [orank] in Hl; apply (IH (rk c)); lia).
  Qed.

  Lemma GF_eq lbl r l rt : F lbl (r, l, rt) ->
    prf_sv tok teqb fams rprio tprio M lbl (r, l, rt)
    = (if is_sym tok lbl then rprio r else 0) + pro tok (pr_sv tok teqb fams rprio tprio M) rt
      + pro tok (pr_sv tok teqb fams rprio tprio M) l.
  Proof.
    intros H. destruct (ranked_prop tok fams rk M Hranked _ _ _ _ H) as [Hl [Hr Hm]].
    unfold prf_sv, gsvf_with, rule_part, pr_sv, pro.
    assert (Hs : is_symb tok lbl = is_sym tok lbl) by (destruct lbl; reflexivity). rewrite Hs.
    assert (E1 : match rt with Some c => gsv M c | None => 0 end = match rt with Some c => gsv (S M) c | None => 0 end).
    { destruct rt as [c|]; [|reflexivity]. cbn [orank] in Hr. apply (gsv_fuel' (rk c)); lia. }
    assert (E2 : match l with Some c => gsv M c | None => 0 end = match l with Some c => gsv (S M) c | None => 0 end).
    { destruct l as [c|]; [|reflexivity]. cbn [orank] in Hl. apply (gsv_fuel' (rk c)); lia. }
    rewrite E1, E2. reflexivity.
  Qed.

  Definition zval (v : zinf) : Z := match v with Some z => z | None => 0 end.

  Lemma leqb_refl (a : label) : leqb a a = true.
  Proof. apply (nlabel_eqb_spec tok teqb teqb_spec). reflexivity. Qed.
  Lemma leqb_false (a b : label) : a <> b -> leqb a b = false.
  Proof. intros H. destruct (leqb a b) eqn:E; [|reflexivity]. apply (nlabel_eqb_spec tok teqb teqb_spec) in E. congruence. Qed.
  Lemma leqb_dec (a b : label) : {a = b} + {a <> b}.
  Proof. destruct (leqb a b) eqn:E; [left; apply (nlabel_eqb_spec tok teqb teqb_spec); exact E|right; intros ->; rewrite leqb_refl in E; discriminate]. Qed.

  Lemma famb_refl (f : family tok) : famb tok teqb f f = true.
  Proof.
    destruct f as [[r l] rt]. unfold famb. rewrite (proj2 (rule_eqb'_spec r r) eq_refl).
    destruct l, rt; cbn; rewrite ?leqb_refl; reflexivity.
  Qed.
  Lemma famb_eq (f1 f2 : family tok) : famb tok teqb f1 f2 = true -> f1 = f2.
  Proof.
    destruct f1 as [[r1 l1] t1], f2 as [[r2 l2] t2]. unfold famb. intros H.
    apply andb_true_iff in H. destruct H as [H H3]. apply andb_true_iff in H. destruct H as [H1 H2].
    apply rule_eqb'_spec in H1. subst.
    destruct l1, l2; try discriminate; destruct t1, t2; try discriminate;
      repeat match goal with E : nlabel_eqb _ _ _ _ = true |- _ => apply (nlabel_eqb_spec tok teqb teqb_spec) in E; subst end;
      reflexivity.
  Qed.

  (* the state is correct: every recorded symbol priority is the recursive one *)
  Definition good_sym (s : list (label * zinf)) : Prop :=
    forall k v, look_sym s k = Some v ->
      is_tokb tok k = false /\ zval v = G k /\ (fams_of k <> [] -> v = Some (G k)).

  Definition ext (s s' : list (label * zinf)) : Prop :=
    forall k v, look_sym s k = Some v -> look_sym s' k = Some v.

  Lemma G_tok t x i j : G (NTok tok t x i j) = tprio t x.
  Proof. reflexivity. Qed.

  Lemma G_nontok lbl : is_tokb tok lbl = false ->
    G lbl = zmax_list (map (GF lbl) (fams_of lbl)).
  Proof. intros H. destruct lbl; try discriminate; reflexivity. Qed.

  Lemma fold_zi_max l x : fold_left (zi_max) (map Some l) (Some x) = Some (fold_left Z.max l x).
  Proof. revert x. induction l as [|y l IH]; intros x; [reflexivity|]. cbn [map fold_left zi_max]. apply IH. Qed.

  Definition child_ok (s : list (label * zinf)) (o : option label) : Prop :=
    match o with
    | Some c => is_tokb tok c = false -> look_sym s c = Some (Some (G c))
    | None => True
    end.

  Lemma child_prio_ok st o : child_ok (sv_sym tok st) o ->
    child_prio tok teqb tprio st o = Some (pro tok G o).
  Proof.
    destruct o as [c|]; cbn [child_ok child_prio pro]; [|reflexivity].
    intros H. destruct c; try (rewrite (H eq_refl); reflexivity). reflexivity.
  Qed.

  (* the main invariant, by induction on the rank *)
  Lemma svw_correct : forall n fuel path st lbl,
    (rk lbl <= n)%nat -> (rk lbl < fuel)%nat -> (forall q, In q path -> (rk lbl < rk q)%nat) ->
    (is_tokb tok lbl = false -> fams_of lbl <> []) ->
    good_sym (sv_sym tok st) ->
    let st' := svw fuel path st lbl in
    good_sym (sv_sym tok st') /\ ext (sv_sym tok st) (sv_sym tok st') /\
    (is_tokb tok lbl = false -> look_sym (sv_sym tok st') lbl = Some (Some (G lbl))) /\
    (forall q, In q path -> forall fm, look_pk (sv_pk tok st') q fm = look_pk (sv_pk tok st) q fm).
  Proof.
    induction n as [n IHn] using lt_wf_ind. intros fuel path st lbl Hrk Hf Hp Hne Hg.
    destruct fuel as [|f]; [lia|]. cbn [GraphSum.svw].
    destruct (is_tokb tok lbl) eqn:Et.
    { cbv zeta. split; [exact Hg|]. split; [intros k v H; exact H|]. split; [discriminate|reflexivity]. }
    assert (Hnp : lmem tok teqb lbl path = false).
    { apply (lmem_not_in tok teqb teqb_spec). intros Hin. specialize (Hp _ Hin). lia. }
    rewrite Hnp.
    destruct (look_sym (sv_sym tok st) lbl) as [v|] eqn:El.
    { cbv zeta. split; [exact Hg|]. split; [intros k v0 H; exact H|]. split; [|reflexivity]. intros _.
      destruct (Hg _ _ El) as [_ [_ H3]]. rewrite El, (H3 (Hne eq_refl)). reflexivity. }
    specialize (Hne eq_refl).
    set (fs := fams_of lbl) in *.
    (* the loop over the packed children *)
    set (body := fun (st : svstate tok) (fm : family tok) =>
                   let '(r, l, rt) := fm in
                   let st := (match rt with None => (match l with None => st | Some c => svw f (lbl :: path) st c end)
                                           | Some c => svw f (lbl :: path) (match l with None => st | Some c => svw f (lbl :: path) st c end) c end) in
                   let p := zi_add (zi_add (Some (rule_part tok rprio lbl r)) (child_prio tok teqb tprio st rt))
                                   (child_prio tok teqb tprio st l) in
                   mkSV tok (sv_sym tok st) ((lbl, fm, p) :: sv_pk tok st)).
    assert (Hbody : forall (done : list (family tok)) (todo : list (family tok)) (s : svstate tok),
              (forall fm, In fm todo -> F lbl fm) ->
              good_sym (sv_sym tok s) -> ext (sv_sym tok st) (sv_sym tok s) ->
              (forall fm, In fm done -> look_pk (sv_pk tok s) lbl fm = Some (Some (GF lbl fm))) ->
              (forall q, In q path -> forall fm, look_pk (sv_pk tok s) q fm = look_pk (sv_pk tok st) q fm) ->
              let s' := fold_left body todo s in
              good_sym (sv_sym tok s') /\ ext (sv_sym tok st) (sv_sym tok s') /\
              (forall fm, In fm (done ++ todo) -> look_pk (sv_pk tok s') lbl fm = Some (Some (GF lbl fm))) /\
              (forall q, In q path -> forall fm, look_pk (sv_pk tok s') q fm = look_pk (sv_pk tok st) q fm)).
    { intros done todo. revert done. induction todo as [|fm todo IHt]; intros done s HF Hgs Hext Hdone Hpk.
      - cbn. rewrite app_nil_r. auto.
      - cbn [fold_left]. destruct fm as [[r l] rt].
        assert (HFfm : F lbl (r, l, rt)) by (apply HF; left; reflexivity).
        destruct (ranked_prop tok fams rk M Hranked _ _ _ _ HFfm) as [Hrl [Hrr HlM]].
        destruct (closed_prop tok teqb teqb_spec fams Hclosed _ _ _ _ HFfm) as [Hcl Hcr].
        (* visit the left child *)
        set (sa := match l with None => s | Some c => svw f (lbl :: path) s c end).
        assert (Ha : good_sym (sv_sym tok sa) /\ ext (sv_sym tok s) (sv_sym tok sa) /\ child_ok (sv_sym tok sa) l /\
                     (forall q, In q (lbl :: path) -> forall fm, look_pk (sv_pk tok sa) q fm = look_pk (sv_pk tok s) q fm)).
        { unfold sa. destruct l as [c|]; [|split; [exact Hgs|split; [intros k v H; exact H|split; [exact I|reflexivity]]]].
          cbn [orank oclosed] in Hrl, Hcl.
          assert (Hpc : forall q, In q (lbl :: path) -> (rk c < rk q)%nat).
          { intros q [<-|Hq]; [exact Hrl|]. specialize (Hp _ Hq). lia. }
          assert (Hnec : is_tokb tok c = false -> fams_of c <> []).
          { intros Hc. apply Hcl. unfold is_tok. destruct c; try discriminate; reflexivity. }
          destruct (IHn (rk c) ltac:(lia) f (lbl :: path) s c (le_n _) ltac:(lia) Hpc Hnec Hgs) as [H1 [H2 [H3 H4]]].
          split; [exact H1|]. split; [exact H2|]. split; [exact H3|exact H4]. }
        destruct Ha as [Hga [Hexta [Hoka Hpka]]].
        set (sb := match rt with None => sa | Some c => svw f (lbl :: path) sa c end).
        assert (Hb : good_sym (sv_sym tok sb) /\ ext (sv_sym tok sa) (sv_sym tok sb) /\ child_ok (sv_sym tok sb) rt /\
                     (forall q, In q (lbl :: path) -> forall fm, look_pk (sv_pk tok sb) q fm = look_pk (sv_pk tok sa) q fm)).
        { unfold sb. destruct rt as [c|]; [|split; [exact Hga|split; [intros k v H; exact H|split; [exact I|reflexivity]]]].
          cbn [orank oclosed] in Hrr, Hcr.
          assert (Hpc : forall q, In q (lbl :: path) -> (rk c < rk q)%nat).
          { intros q [<-|Hq]; [exact Hrr|]. specialize (Hp _ Hq). lia. }
          assert (Hnec : is_tokb tok c = false -> fams_of c <> []).
          { intros Hc. apply Hcr. unfold is_tok. destruct c; try discriminate; reflexivity. }
          destruct (IHn (rk c) ltac:(lia) f (lbl :: path) sa c (le_n _) ltac:(lia) Hpc Hnec Hga) as [H1 [H2 [H3 H4]]].
          split; [exact H1|]. split; [exact H2|]. split; [exact H3|exact H4]. }
        destruct Hb as [Hgb [Hextb [Hokb Hpkb]]].
        assert (Hokl : child_ok (sv_sym tok sb) l).
        { destruct l as [c|]; [|exact I]. cbn [child_ok] in *. intros Hc. apply Hextb. apply Hoka. exact Hc. }
        assert (Ebody : body s (r, l, rt) =
                        mkSV tok (sv_sym tok sb) ((lbl, (r, l, rt), Some (GF lbl (r, l, rt))) :: sv_pk tok sb)).
        { unfold body. fold sa. fold sb.
          assert (Esb : (match rt with None => sa | Some c => svw f (lbl :: path) sa c end) = sb) by reflexivity.
          rewrite (child_prio_ok sb rt Hokb), (child_prio_ok sb l Hokl). cbn [zi_add].
          rewrite (GF_eq lbl r l rt HFfm).
          unfold rule_part. assert (Hs : is_symb tok lbl = is_sym tok lbl) by (destruct lbl; reflexivity). rewrite Hs.
          destruct l, rt; reflexivity. }
        rewrite Ebody. cbv zeta.
        change (done ++ (r, l, rt) :: todo) with (done ++ [(r, l, rt)] ++ todo). rewrite app_assoc.
        apply (IHt (done ++ [(r, l, rt)])); cbn [sv_sym sv_pk].
        + intros fm Hfm. apply HF. right. exact Hfm.
        + exact Hgb.
        + intros k v H. apply Hextb. apply Hexta. apply Hext. exact H.
        + intros fm Hfm. cbn [GraphSum.look_pk]. rewrite leqb_refl. cbn [andb].
          destruct (famb tok teqb (r, l, rt) fm) eqn:Ef.
          * apply famb_eq in Ef. subst fm. reflexivity.
          * apply in_app_or in Hfm. destruct Hfm as [Hfm|[<-|[]]].
            -- rewrite (Hpkb lbl (or_introl eq_refl)), (Hpka lbl (or_introl eq_refl)). apply Hdone. exact Hfm.
            -- rewrite famb_refl in Ef. discriminate.
        + intros q Hq fm. cbn [GraphSum.look_pk].
          assert (Hql : leqb lbl q = false).
          { apply leqb_false. intros <-. specialize (Hp _ Hq). lia. }
          rewrite Hql. cbn [andb].
          rewrite (Hpkb q (or_intror Hq)), (Hpka q (or_intror Hq)). apply Hpk. exact Hq. }
    (* after the loop: the maximum *)
    assert (Hperm : forall fm, In fm (in_order tok rorder fs) <-> In fm fs).
    { intros fm. unfold in_order. rewrite in_map_iff. split.
      - intros [[k y] [<- H]]. apply (proj1 (ksort_in _ _)) in H. apply in_map_iff in H.
        destruct H as [x [E Hx]]. cbn. congruence.
      - intros H. eexists (_, fm). split; [reflexivity|]. apply ksort_in. apply in_map_iff. eauto. }
    destruct (Hbody [] (in_order tok rorder fs) st) as [Hg1 [Hext1 [Hpk1 Hpath1]]].
    { intros fm Hfm. apply (fams_of_in tok teqb teqb_spec). apply Hperm. exact Hfm. }
    { exact Hg. }
    { intros k v H; exact H. }
    { intros fm []. }
    { reflexivity. }
    set (st1 := fold_left body (in_order tok rorder fs) st) in *.
    match goal with |- good_sym (sv_sym tok ?X) /\ _ =>
      change X with (mkSV tok ((lbl, match map (fun fm => match look_pk (sv_pk tok st1) lbl fm with Some v => v | None => None end) fs
                                     with [] => None | x :: r => fold_left zi_max r x end) :: sv_sym tok st1) (sv_pk tok st1)) end.
    cbv zeta.
    assert (Hprios : map (fun fm => match look_pk (sv_pk tok st1) lbl fm with Some v => v | None => None end) fs
                     = map Some (map (GF lbl) fs)).
    { rewrite map_map. apply map_ext_in. intros fm Hfm. rewrite (Hpk1 fm); [reflexivity|].
      cbn [app]. apply Hperm. exact Hfm. }
    rewrite Hprios.
    assert (HG : G lbl = zmax_list (map (GF lbl) fs)) by (rewrite (G_nontok lbl Et); reflexivity).
    destruct (map (GF lbl) fs) as [|z zs] eqn:Emap.
    { destruct fs; [congruence|discriminate]. }
    cbn [map]. rewrite fold_zi_max. change (fold_left Z.max zs z) with (zmax_list (z :: zs)). rewrite <- HG.
    cbn [sv_sym sv_pk].
    split; [|split; [|split]].
    - intros k v H. cbn [GraphSum.look_sym] in H. destruct (leqb lbl k) eqn:E.
      + apply (nlabel_eqb_spec tok teqb teqb_spec) in E. subst k. injection H as <-.
        split; [exact Et|]. split; [reflexivity|]. intros _. reflexivity.
      + apply Hg1. exact H.
    - intros k v H. cbn [GraphSum.look_sym]. destruct (leqb lbl k) eqn:E.
      + apply (nlabel_eqb_spec tok teqb teqb_spec) in E. subst k. rewrite El in H. discriminate.
      + apply Hext1. exact H.
    - intros _. cbn [GraphSum.look_sym]. rewrite leqb_refl. reflexivity.
    - exact Hpath1.
  Qed.

  (* C05: the coded walk leaves the recursive annotation on every symbol node it visited *)
  Theorem sum_walk_eq_recursive root lbl :
    (M <= List.length fams)%nat -> fams_of root <> [] ->
    let st := sum_walk tok teqb fams rprio rorder tprio root in
    look_sym (sv_sym tok st) lbl <> None ->
    walk_pr tok teqb tprio st lbl = G lbl.
  Proof.
    intros HM Hroot. cbv zeta. intros Hv.
    assert (Hrk : (rk root <= M)%nat).
    { destruct (fams_of root) as [|[[r l] rt] fr] eqn:E; [congruence|].
      assert (Hin : In (r, l, rt) (fams_of root)) by (rewrite E; left; reflexivity).
      apply (fams_of_in tok teqb teqb_spec) in Hin.
      destruct (ranked_prop tok fams rk M Hranked _ _ _ _ Hin) as [_ [_ H]]. exact H. }
    destruct (svw_correct (rk root) (S (List.length fams)) [] (mkSV tok [] []) root (le_n _)) as [Hgood _].
    - lia.
    - intros q [].
    - intros _. exact Hroot.
    - intros k v H. discriminate.
    - unfold sum_walk in *. destruct (look_sym _ lbl) as [v|] eqn:El; [|congruence].
      destruct (Hgood _ _ El) as [Ht [Hz _]]. unfold walk_pr. destruct lbl; try discriminate; rewrite El; rewrite <- Hz; destruct v; reflexivity.
  Qed.
End Walk.
