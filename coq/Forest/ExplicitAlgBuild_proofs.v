(* C04 layer A for the executable model: the instrumented run of Forest/ExplicitAlgBuild.v
   - erases to Alg's run (erasure),
   - adds only families of the specification relation `added` (families_sound),
   - adds every family of `added` over the columns it builds (families_complete),
   hence stores exactly the derivation trees of the input when it accepts (model_forest_exact). *)
From Coq Require Import List Arith Bool Lia.
From LV Require Import Cfg.Grammar Cfg.Analysis Earley.Spec Earley.Alg Earley.Alg_proofs
  Forest.ExplicitBuild Forest.ExplicitBuild_proofs Forest.ExplicitAlgBuild.
Import ListNotations.

Section Erase.
  Variable G : grammar.
  Variable predictions : nat -> list rule.
  Variable tok : Type.
  Variable tmatch : nat -> tok -> bool.
  Variable start : nat.

  Notation ipc_loop := (ipc_loop predictions tok).
  Notation iparse_loop := (iparse_loop G predictions tok tmatch start).

  Lemma ipc_loop_erase fuel i cols : forall st acc,
    option_map fst (ipc_loop fuel i cols st acc) = pc_loop predictions fuel i cols st.
  Proof.
    induction fuel as [|f IH]; intros st acc; simpl; destruct (pc_work st); simpl; auto.
  Qed.

  Lemma ipc_loop_some fuel i cols st acc st' acc' :
    ipc_loop fuel i cols st acc = Some (st', acc') -> pc_loop predictions fuel i cols st = Some st'.
  Proof. intros H. rewrite <- (ipc_loop_erase fuel i cols st acc), H. reflexivity. Qed.

  Lemma ipc_loop_none fuel i cols st acc :
    ipc_loop fuel i cols st acc = None -> pc_loop predictions fuel i cols st = None.
  Proof. intros H. rewrite <- (ipc_loop_erase fuel i cols st acc), H. reflexivity. Qed.

  Lemma iparse_loop_erase toks : forall i cols scans col scanq acc,
    fst (iparse_loop toks i cols scans col scanq acc) = parse_loop G predictions tok tmatch start toks i cols scans col scanq.
  Proof.
    induction toks as [|tk rest IH]; intros i cols scans col scanq acc; cbn [ExplicitAlgBuild.iparse_loop Alg.parse_loop];
      unfold ipredict_and_complete, predict_and_complete;
      destruct (ipc_loop (pc_fuel G i) i cols (mkPC col (rev col) scanq []) acc) as [[st acc1]|] eqn:E.
    - rewrite (ipc_loop_some _ _ _ _ _ _ _ E). reflexivity.
    - rewrite (ipc_loop_none _ _ _ _ _ E). reflexivity.
    - rewrite (ipc_loop_some _ _ _ _ _ _ _ E).
      destruct (fst (scan tok tmatch tk (pc_scan st))), (snd (scan tok tmatch tk (pc_scan st))); auto.
    - rewrite (ipc_loop_none _ _ _ _ _ E). reflexivity.
  Qed.

  (* forgetting the add_family log gives the recogniser's run *)
  Theorem erasure toks : fst (iparse G predictions tok tmatch start toks) = parse G predictions tok tmatch start toks.
  Proof. unfold iparse, parse. apply iparse_loop_erase. Qed.
End Erase.

Section Families.
  Variable G : grammar.
  Variable predictions : nat -> list rule.
  Variable tok : Type.
  Variable tmatch : nat -> tok -> bool.
  Variable start : nat.
  Variable w : list tok.
  Hypothesis pred_sound : forall a r, In r (predictions a) -> In r G /\ Analysis_proofs.lc_reach G a (lhs r).
  Hypothesis pred_direct : forall a r, In r G -> lhs r = a -> In r (predictions a).

  Notation chart := (chart G tok tmatch w start).
  Notation added := (added G tok tmatch w start).
  Notation fam := (fam tok).
  Notation ipc_loop := (ipc_loop predictions tok).
  Notation iparse_loop := (iparse_loop G predictions tok tmatch start).
  Notation step_fams := (step_fams tok).
  Notation scan_fams := (scan_fams tok tmatch).
  Notation comp_fam := (comp_fam tok).

  Definition Fok (l : list fam) : Prop := forall f, In f l -> added (fst f) (snd f).

  Lemma Fok_app a b : Fok a -> Fok b -> Fok (a ++ b).
  Proof. intros Ha Hb f Hf. apply in_app_or in Hf. destruct Hf; auto. Qed.

  Lemma inode_eq r d j k : ExplicitAlgBuild.inode tok r d j k = ExplicitBuild_proofs.inode tok r d j k.
  Proof. reflexivity. Qed.

  (* a completed item x = (r', |r'|, m) in column i and an originator o in column m give an add_comp family *)
  Lemma comp_fam_added i m a o x :
    chart m o -> expect o = Some (NT a) -> chart i x -> expect x = None -> orig x = m -> lhs (irule x) = a ->
    added (fst (comp_fam i m a o)) (snd (comp_fam i m a o)).
  Proof.
    intros Ho Heo Hx Hex Hox Hl. pose proof (expect_none_complete _ _ _ _ _ _ _ Hx Hex) as Hd.
    destruct o as [r d j]. destruct x as [r' d' m']. unfold expect in *. cbn [irule dot orig] in *. subst.
    unfold ExplicitAlgBuild.comp_fam. cbn [fst snd irule dot orig]. rewrite inode_eq.
    eapply add_comp; eauto.
  Qed.

  (* ---- soundness of one predict_and_complete call ---- *)
  Section Column.
    Variable i : nat.
    Variable cols : list (list item).
    Hypothesis cols_sound : forall j x, In x (nth j cols []) -> chart j x.

    Notation pc_sound := (pc_sound chart i).

    Lemma step_fams_sound x col work scan held :
      pc_sound (mkPC col (x :: work) scan held) -> Fok (step_fams i cols x (mkPC col work scan held)).
    Proof.
      intros (S1 & S2 & S3 & S4). assert (Hx : chart i x) by (apply S3; left; auto).
      cbn [pc_col pc_work pc_scan pc_held] in *.
      unfold ExplicitAlgBuild.step_fams. cbn [pc_col pc_held].
      destruct (expect x) as [[t|a]|] eqn:E.
      - intros f [].
      - destruct (nat_memP a held) as [Hin|]; [|intros f []].
        intros f [<- |[]]. destruct (S4 a Hin) as (z & Hz & Hez & Hoz & Hlz).
        eapply comp_fam_added; eauto.
      - apply Fok_app.
        + destruct (dot x) eqn:Ed; [|intros f []]. intros f [<- |[]]. cbn [fst snd].
          pose proof (chart_dot0 _ _ _ _ _ _ _ Hx Ed) as Ho.
          pose proof (expect_none_complete _ _ _ _ _ _ _ Hx E) as Hlen.
          destruct x as [r d j]. cbn [irule dot orig] in *. subst. 
          apply add_empty; auto. destruct (rhs r); auto; discriminate.
        + intros f Hf. apply in_map_iff in Hf. destruct Hf as (o & <- & Ho).
          apply filter_In in Ho. destruct Ho as (Ho & He). apply expects_nt_spec in He.
          eapply comp_fam_added; eauto.
          destruct (Nat.eqb (orig x) i) eqn:Eo.
          * apply Nat.eqb_eq in Eo. rewrite Eo. auto.
          * auto.
    Qed.

    Lemma ipc_loop_sound fuel : forall st acc st' acc',
      pc_sound st -> Fok acc -> ipc_loop fuel i cols st acc = Some (st', acc') -> Fok acc'.
    Proof.
      induction fuel as [|f IH]; intros st acc st' acc' S HF H; destruct st as [col work scan held];
        cbn [ExplicitAlgBuild.ipc_loop pc_work pc_col pc_scan pc_held] in H; destruct work as [|x work].
      - inversion H; subst; auto.
      - discriminate.
      - inversion H; subst; auto.
      - eapply IH; [| |exact H].
        + apply (step_sound G predictions pred_sound chart
                   (chart_pred' G tok tmatch start w) (chart_comp' G tok tmatch start w) i cols cols_sound); auto.
        + apply Fok_app; auto. apply step_fams_sound; auto.
    Qed.
  End Column.

  Lemma scan_fams_sound i tk scanq :
    (forall x, In x scanq -> chart i x) -> nth_error w i = Some tk -> Fok (scan_fams i tk scanq).
  Proof.
    intros Hs Hn f Hf. unfold ExplicitAlgBuild.scan_fams in Hf. apply in_flat_map in Hf. destruct Hf as (x & Hx & Hf).
    unfold scan_fam in Hf. destruct (expect x) as [[t|a]|] eqn:E; try destruct Hf.
    destruct (tmatch t tk) eqn:M; [|destruct Hf]. destruct Hf as [<- |[]]. cbn [fst snd].
    specialize (Hs x Hx). destruct x as [r d j]. unfold expect in E. cbn [irule dot orig] in *.
    rewrite inode_eq. eapply add_scan; eauto.
  Qed.

  (* ---- soundness of the whole run: same induction as Alg_proofs.parse_loop_spec ---- *)
  Lemma iparse_loop_sound : forall toks i cols scans col scanq pre acc,
    w = pre ++ toks -> length pre = i -> length cols = i -> length scans = i ->
    closed G tok tmatch start w (colf cols) (colf scans) i ->
    NoDup col -> (forall x, In x col -> chart i x) -> (forall x, In x scanq -> chart i x) ->
    (forall x, In x col -> is_term_item x = false) -> (forall x, In x scanq -> is_term_item x = true) ->
    (i = 0 -> forall r, In r G -> lhs r = start -> In (mkItem r 0 0) col \/ In (mkItem r 0 0) scanq) ->
    (forall m x t tk, i = S m -> In x (colf scans m) -> expect x = Some (T t) -> nth_error w m = Some tk ->
        tmatch t tk = true -> In (advance x) col \/ In (advance x) scanq) ->
    Fok acc ->
    Fok (snd (iparse_loop toks i cols scans col scanq acc)).
  Proof.
    induction toks as [|tk rest IH]; intros i cols scans col scanq pre acc Hw Hpre Hlc Hls Cl ND Sc Sq Dc Dq Hi Hs HF;
      destruct (column_step G predictions tok tmatch start w pred_sound pred_direct
                  i cols scans col scanq Hlc Hls Cl ND Sc Sq Dc Dq Hi Hs) as (st & Est & Cl' & Sq');
      pose proof (colf_snoc_eq' cols (pc_col st) i Hlc) as Ec;
      pose proof (colf_snoc_eq' scans (pc_scan st) i Hls) as Eq;
      assert (cols_sound : forall j x, In x (nth j cols []) -> chart j x)
        by (intros j x Hx; destruct (Nat.lt_ge_cases j i) as [Hlt|Hge];
            [apply (cl_sound _ _ _ _ _ _ _ _ Cl j x Hlt); left; exact Hx
            |rewrite nth_overflow in Hx by lia; destruct Hx]);
      assert (S0 : pc_sound chart i (mkPC col (rev col) scanq []))
        by (repeat split; cbn; auto; [intros x Hx; apply Sc; apply in_rev; auto | intros a []]);
      cbn [ExplicitAlgBuild.iparse_loop]; unfold ipredict_and_complete;
      destruct (ipc_loop (pc_fuel G i) i cols (mkPC col (rev col) scanq []) acc) as [[st2 acc1]|] eqn:E;
      try (cbn [snd]; exact HF);
      pose proof (ipc_loop_some _ _ _ _ _ _ _ _ _ E) as E';
      unfold predict_and_complete in Est; rewrite Est in E'; inversion E'; subst st2;
      pose proof (ipc_loop_sound i cols cols_sound _ _ _ _ _ S0 HF E) as HF1.
    - cbn [snd]. exact HF1.
    - assert (Hnth : nth_error w i = Some tk).
      { rewrite Hw, nth_error_app2 by lia. rewrite Hpre, Nat.sub_diag. reflexivity. }
      assert (HF2 : Fok (acc1 ++ scan_fams i tk (pc_scan st))).
      { apply Fok_app; auto. apply scan_fams_sound; auto. }
      destruct (scan tok tmatch tk (pc_scan st)) as [nc nq] eqn:Escan. cbn [fst snd].
      pose proof Escan as Escan'. unfold scan in Escan'.
      destruct (places_spec _ _ (scan_step_eq tok tmatch tk) _ _ _ _ _ Escan') as (_ & _ & A3 & A4 & A5 & A6).
      assert (Hsrc : forall z, (exists x, In x (pc_scan st) /\ scan_pick tok tmatch tk x = Some z) -> chart (S i) z).
      { intros z (x & Hx & Hp). apply scan_pick_spec in Hp. destruct Hp as (t & He & Hm & ->).
        eapply chart_scan'; eauto. }
      assert (Rec : Fok (snd (iparse_loop rest (S i) (cols ++ [pc_col st]) (scans ++ [pc_scan st]) nc nq
                                          (acc1 ++ scan_fams i tk (pc_scan st))))).
      { apply (IH (S i) _ _ nc nq (pre ++ [tk])); auto.
        - rewrite <- app_assoc. exact Hw.
        - rewrite app_length. simpl. lia.
        - rewrite app_length. simpl. lia.
        - rewrite app_length. simpl. lia.
        - apply A6. constructor.
        - intros z Hz. destruct (A4 z Hz) as [[]|(_ & Hex)]. auto.
        - intros z Hz. destruct (A5 z Hz) as [[]|(_ & Hex)]. auto.
        - intros z Hz. destruct (A4 z Hz) as [[]|(? & _)]. auto.
        - intros z Hz. destruct (A5 z Hz) as [[]|(? & _)]. auto.
        - intros F; discriminate.
        - intros m x t tk0 Hm Hx He Hn Hmt. inversion Hm; subst m. rewrite Eq in Hx.
          rewrite Hnth in Hn. inversion Hn; subst tk0.
          apply (A3 x (advance x) Hx). apply scan_pick_spec. eauto. }
      destruct nc as [|z nc']; [destruct nq as [|z nq']|]; auto.
  Qed.

  (* every family the instrumented run adds is one of the specification *)
  Theorem families_sound : forall f, In f (snd (iparse G predictions tok tmatch start w)) -> added (fst f) (snd f).
  Proof.
    unfold iparse. destruct (initial predictions start) as [c0 q0] eqn:E. cbn [fst snd].
    destruct (initial_spec G predictions tok tmatch start w pred_sound pred_direct _ _ E) as (ND & Sc & Sq & Dc & Dq & Hi).
    apply (iparse_loop_sound w 0 [] [] c0 q0 [] []); auto.
    - constructor; intros; lia.
    - intros m x t tk F; discriminate.
    - intros f [].
  Qed.

  (* ---- completeness of one predict_and_complete call; P = the items already popped (Alg_proofs.pc_inv) ---- *)
  Section ColumnC.
    Variable i : nat.
    Variable cols : list (list item).
    Notation pc_inv := (pc_inv G i cols).

    Record fam_inv (P : list item) (acc : list fam) : Prop := mkFI {
      fi_empty : forall x, In x P -> expect x = None -> dot x = 0 ->
                 In (NSym tok (lhs (irule x)) (orig x) i, (irule x, None, None)) acc;
      fi_old : forall x y, In x P -> expect x = None -> orig x <> i -> In y (nth (orig x) cols []) ->
                 expect y = Some (NT (lhs (irule x))) -> In (comp_fam i (orig x) (lhs (irule x)) y) acc;
      fi_here : forall x y, In x P -> In y P -> expect x = None -> orig x = i ->
                 expect y = Some (NT (lhs (irule x))) -> In (comp_fam i i (lhs (irule x)) y) acc
    }.

    Lemma step_fam_inv P x col work scan held acc :
      pc_inv P (mkPC col (x :: work) scan held) -> fam_inv P acc ->
      fam_inv (x :: P) (acc ++ step_fams i cols x (mkPC col work scan held)).
    Proof.
      intros I F. constructor.
      - intros z [<- |Hz] He Hd; apply in_or_app.
        + right. unfold ExplicitAlgBuild.step_fams. rewrite He, Hd. apply in_or_app. left. left. reflexivity.
        + left. apply (fi_empty _ _ F); auto.
      - intros z y [<- |Hz] He Ho Hy Hey; apply in_or_app.
        + right. unfold ExplicitAlgBuild.step_fams. rewrite He. apply in_or_app. right.
          rewrite (proj2 (Nat.eqb_neq _ _) Ho). apply in_map. apply filter_In. split; auto.
          apply expects_nt_spec; auto.
        + left. apply (fi_old _ _ F); auto.
      - intros z y [<- |Hz] [<- |Hy] He Ho Hey; apply in_or_app.
        + congruence.
        + (* the completed item is popped after the originator: the completer finds it in the column *)
          right. unfold ExplicitAlgBuild.step_fams. rewrite He. apply in_or_app. right.
          rewrite (proj2 (Nat.eqb_eq _ _) Ho). rewrite Ho. apply in_map. apply filter_In.
          split; [|apply expects_nt_spec; auto]. cbn [pc_col]. apply (inv_P_col _ _ _ _ _ I); auto.
        + (* the originator is popped after the completed (empty) item: the predictor finds the held completion *)
          right. unfold ExplicitAlgBuild.step_fams. rewrite Hey.
          pose proof (inv_held _ _ _ _ _ I z Hz He Ho) as Hh. cbn [pc_held] in *.
          destruct (nat_memP (lhs (irule z)) held); [left; reflexivity|contradiction].
        + left. apply (fi_here _ _ F); auto.
    Qed.

    Lemma ipc_loop_complete fuel : forall P st acc st' acc',
      pc_inv P st -> fam_inv P acc -> ipc_loop fuel i cols st acc = Some (st', acc') ->
      incl acc acc' /\ exists P', pc_inv P' st' /\ fam_inv P' acc' /\ pc_work st' = [].
    Proof.
      induction fuel as [|f IH]; intros P st acc st' acc' I F H; destruct st as [col work scan held];
        cbn [ExplicitAlgBuild.ipc_loop pc_work pc_col pc_scan pc_held] in H; destruct work as [|x work].
      - inversion H; subst. split; [apply incl_refl|]. exists P; auto.
      - discriminate.
      - inversion H; subst. split; [apply incl_refl|]. exists P; auto.
      - pose proof (step_inv G predictions pred_direct i cols _ _ _ _ _ _ I) as I'.
        pose proof (step_fam_inv _ _ _ _ _ _ _ I F) as F'.
        destruct (IH _ _ _ _ _ I' F' H) as (Hinc & P' & IP & FP & W).
        split; [|exists P'; auto]. intros z Hz. apply Hinc. apply in_or_app; auto.
    Qed.

    (* what the log contains after the call, in terms of the finished column *)
    Definition col_facts (C : list item) (acc : list fam) : Prop :=
      (forall x, In x C -> expect x = None -> dot x = 0 ->
                 In (NSym tok (lhs (irule x)) (orig x) i, (irule x, None, None)) acc) /\
      (forall x y, In x C -> expect x = None -> orig x <> i -> In y (nth (orig x) cols []) ->
                 expect y = Some (NT (lhs (irule x))) -> In (comp_fam i (orig x) (lhs (irule x)) y) acc) /\
      (forall x y, In x C -> In y C -> expect x = None -> orig x = i ->
                 expect y = Some (NT (lhs (irule x))) -> In (comp_fam i i (lhs (irule x)) y) acc).

    Lemma icolumn_complete col0 scan0 acc st acc1 :
      (forall x, In x col0 -> is_term_item x = false) -> (forall x, In x scan0 -> is_term_item x = true) ->
      ipredict_and_complete predictions tok (pc_fuel G i) i cols col0 scan0 acc = Some (st, acc1) ->
      incl acc acc1 /\ col_facts (pc_col st) acc1.
    Proof.
      intros Dc Dq H. unfold ipredict_and_complete in H.
      set (st0 := mkPC col0 (rev col0) scan0 []) in *.
      assert (I0 : pc_inv [] st0).
      { constructor; cbn; auto; try (intros; contradiction).
        - intros x F; destruct F.
        - intros x Hx. right. apply in_rev in Hx. exact Hx.
        - intros x Hx. apply in_rev; auto. }
      assert (F0 : fam_inv [] acc) by (constructor; intros; contradiction).
      destruct (ipc_loop_complete _ _ _ _ _ _ I0 F0 H) as (Hinc & P & IP & FP & W).
      split; auto.
      assert (HP : forall x, In x (pc_col st) -> In x P).
      { intros x Hx. destruct (inv_col_P _ _ _ _ _ IP x Hx) as [?|Hw]; auto. rewrite W in Hw. destruct Hw. }
      repeat split.
      - intros x Hx. apply (fi_empty _ _ FP); auto.
      - intros x y Hx. apply (fi_old _ _ FP); auto.
      - intros x y Hx Hy. apply (fi_here _ _ FP); auto.
    Qed.
  End ColumnC.

  (* ---- completeness of the whole run, per column of the result ---- *)
  Definition col_ok (C Q : nat -> list item) (fams : list fam) (k : nat) : Prop :=
    (forall x, In x (C k) -> expect x = None -> dot x = 0 ->
               In (NSym tok (lhs (irule x)) (orig x) k, (irule x, None, None)) fams) /\
    (forall x y, In x (C k) -> expect x = None -> orig x <= k -> In y (C (orig x)) ->
               expect y = Some (NT (lhs (irule x))) -> In (comp_fam k (orig x) (lhs (irule x)) y) fams) /\
    (forall x tk, In x (Q k) -> nth_error w k = Some tk -> incl (scan_fam tok tmatch k tk x) fams).

  Lemma iparse_loop_complete : forall toks i cols scans col scanq pre acc,
    w = pre ++ toks -> length pre = i -> length cols = i -> length scans = i ->
    (forall x, In x col -> is_term_item x = false) -> (forall x, In x scanq -> is_term_item x = true) ->
    let r := iparse_loop toks i cols scans col scanq acc in
    incl acc (snd r) /\
    (exists rc rs, r_cols (fst r) = cols ++ rc /\ r_scans (fst r) = scans ++ rs) /\
    (forall k, i <= k < length (r_cols (fst r)) -> col_ok (colf (r_cols (fst r))) (colf (r_scans (fst r))) (snd r) k).
  Proof.
    induction toks as [|tk rest IH]; intros i cols scans col scanq pre acc Hw Hpre Hlc Hls Dc Dq;
      cbn [ExplicitAlgBuild.iparse_loop];
      destruct (ipredict_and_complete predictions tok (pc_fuel G i) i cols col scanq acc) as [[st acc1]|] eqn:E;
      cbn zeta.
    - (* end of input *)
      destruct (icolumn_complete i cols _ _ _ _ _ Dc Dq E) as (Hinc & F1 & F2 & F3).
      cbn [fst snd r_cols r_scans]. split; auto. split; [exists [pc_col st], [pc_scan st]; auto|].
      intros k Hk. rewrite app_length in Hk. simpl in Hk. assert (k = i) by lia. subst k.
      pose proof (colf_snoc_eq' cols (pc_col st) i Hlc) as Ec.
      repeat split.
      + rewrite Ec. auto.
      + rewrite Ec. intros x y Hx He Ho Hy Hey. destruct (Nat.eq_dec (orig x) i) as [Heq|Hne].
        * rewrite Heq in *. rewrite Ec in Hy. apply F3; auto.
        * rewrite colf_snoc_lt in Hy by lia. apply F2; auto.
      + intros x tk0 Hx Hn. exfalso. rewrite Hw, app_nil_r in Hn.
        assert (Hne : nth_error pre i <> None) by congruence. apply nth_error_Some in Hne. lia.
    - cbn [fst snd r_cols]. split; [apply incl_refl|]. split; [exists [], []; rewrite !app_nil_r; auto|].
      intros k Hk. lia.
    - (* one more token *)
      destruct (icolumn_complete i cols _ _ _ _ _ Dc Dq E) as (Hinc & F1 & F2 & F3).
      assert (Hnth : nth_error w i = Some tk).
      { rewrite Hw, nth_error_app2 by lia. rewrite Hpre, Nat.sub_diag. reflexivity. }
      set (acc2 := acc1 ++ scan_fams i tk (pc_scan st)).
      assert (Hinc2 : incl acc acc2) by (intros z Hz; apply in_or_app; left; auto).
      assert (Hsc : forall x tk0, In x (pc_scan st) -> nth_error w i = Some tk0 ->
                                  incl (scan_fam tok tmatch i tk0 x) acc2).
      { intros x tk0 Hx Hn z Hz. rewrite Hnth in Hn. inversion Hn; subst tk0.
        apply in_or_app. right. apply in_flat_map. exists x; auto. }
      (* facts about column i with respect to any extension of the trace and of the log *)
      assert (Here : forall rc rs fams, incl acc2 fams ->
                col_ok (colf ((cols ++ [pc_col st]) ++ rc)) (colf ((scans ++ [pc_scan st]) ++ rs)) fams i).
      { intros rc rs fams Hf.
        assert (Ec : colf ((cols ++ [pc_col st]) ++ rc) i = pc_col st).
        { unfold colf. rewrite app_nth1 by (rewrite app_length; simpl; lia). exact (colf_snoc_eq' cols (pc_col st) i Hlc). }
        assert (Eq : colf ((scans ++ [pc_scan st]) ++ rs) i = pc_scan st).
        { unfold colf. rewrite app_nth1 by (rewrite app_length; simpl; lia). exact (colf_snoc_eq' scans (pc_scan st) i Hls). }
        assert (Eold : forall m, m < i -> colf ((cols ++ [pc_col st]) ++ rc) m = nth m cols []).
        { intros m Hm. unfold colf. rewrite <- app_assoc. rewrite app_nth1 by lia. reflexivity. }
        assert (Hf1 : incl acc1 fams) by (intros z Hz; apply Hf; apply in_or_app; left; auto).
        repeat split.
        - rewrite Ec. intros; apply Hf1; apply F1; auto.
        - rewrite Ec. intros x y Hx He Ho Hy Hey. apply Hf1. destruct (Nat.eq_dec (orig x) i) as [Heq|Hne].
          + rewrite Heq in *. rewrite Ec in Hy. apply F3; auto.
          + rewrite Eold in Hy by lia. apply F2; auto.
        - rewrite Eq. intros x tk0 Hx Hn z Hz. apply Hf. eapply Hsc; eauto. }
      destruct (scan tok tmatch tk (pc_scan st)) as [nc nq] eqn:Escan. cbn [fst snd].
      pose proof Escan as Escan'. unfold scan in Escan'.
      destruct (places_spec _ _ (scan_step_eq tok tmatch tk) _ _ _ _ _ Escan') as (_ & _ & _ & A4 & A5 & _).
      assert (Stop : forall o,
                let r := (mkRes o (cols ++ [pc_col st]) (scans ++ [pc_scan st]), acc2) in
                incl acc (snd r) /\
                (exists rc rs, r_cols (fst r) = cols ++ rc /\ r_scans (fst r) = scans ++ rs) /\
                (forall k, i <= k < length (r_cols (fst r)) ->
                           col_ok (colf (r_cols (fst r))) (colf (r_scans (fst r))) (snd r) k)).
      { intros o. cbn [fst snd r_cols r_scans]. split; auto. split; [exists [pc_col st], [pc_scan st]; auto|].
        intros k Hk. rewrite app_length in Hk. simpl in Hk. assert (k = i) by lia. subst k.
        specialize (Here [] [] acc2 (incl_refl _)). rewrite !app_nil_r in Here. exact Here. }
      assert (Go : nc <> [] \/ nq <> [] ->
                let r := iparse_loop rest (S i) (cols ++ [pc_col st]) (scans ++ [pc_scan st]) nc nq acc2 in
                incl acc (snd r) /\
                (exists rc rs, r_cols (fst r) = cols ++ rc /\ r_scans (fst r) = scans ++ rs) /\
                (forall k, i <= k < length (r_cols (fst r)) ->
                           col_ok (colf (r_cols (fst r))) (colf (r_scans (fst r))) (snd r) k)).
      { intros _.
        destruct (IH (S i) (cols ++ [pc_col st]) (scans ++ [pc_scan st]) nc nq (pre ++ [tk]) acc2) as (R1 & (rc & rs & R2 & R3) & R4).
        - rewrite <- app_assoc. exact Hw.
        - rewrite app_length. simpl. lia.
        - rewrite app_length. simpl. lia.
        - rewrite app_length. simpl. lia.
        - intros z Hz. destruct (A4 z Hz) as [[]|(? & _)]. auto.
        - intros z Hz. destruct (A5 z Hz) as [[]|(? & _)]. auto.
        - cbn zeta. split; [intros z Hz; apply R1; apply Hinc2; auto|].
          split; [exists ([pc_col st] ++ rc), ([pc_scan st] ++ rs); rewrite R2, R3, <- !app_assoc; auto|].
          intros k Hk. destruct (Nat.eq_dec k i) as [-> |Hne]; [|apply R4; lia].
          rewrite R2, R3. apply Here. exact R1. }
      destruct nc as [|z nc']; [destruct nq as [|z nq']|].
      + apply Stop.
      + apply Go. right; discriminate.
      + apply Go. left; discriminate.
    - cbn [fst snd r_cols]. split; [apply incl_refl|]. split; [exists [], []; rewrite !app_nil_r; auto|].
      intros k Hk. lia.
  Qed.

  (* ---- the theorems about one run ---- *)
  Notation ires := (iparse G predictions tok tmatch start w).
  Notation C := (colf (r_cols (fst ires))).
  Notation Q := (colf (r_scans (fst ires))).

  Lemma ires_closed : closed G tok tmatch start w C Q (length (r_cols (fst ires))).
  Proof.
    rewrite erasure. destruct (parse_ok G predictions tok tmatch start w pred_sound pred_direct) as (n & L1 & L2 & Cl & _).
    rewrite L1. exact Cl.
  Qed.

  Lemma ires_col_ok k : k < length (r_cols (fst ires)) -> col_ok C Q (snd ires) k.
  Proof.
    intros Hk. unfold iparse in *. destruct (initial predictions start) as [c0 q0] eqn:E. cbn [fst snd] in *.
    destruct (initial_spec G predictions tok tmatch start w pred_sound pred_direct _ _ E) as (_ & _ & _ & Dc & Dq & _).
    destruct (iparse_loop_complete w 0 [] [] c0 q0 [] [] eq_refl eq_refl eq_refl eq_refl Dc Dq) as (_ & _ & H).
    apply H. lia.
  Qed.

  Lemma chart_le k x : chart k x -> k <= length w.
  Proof. intros H. destruct (chart_sound _ _ _ _ _ _ _ H) as (u & Hs & _). apply span_le in Hs. lia. Qed.

  Lemma in_C k x : k < length (r_cols (fst ires)) -> chart k x -> is_term_item x = false -> In x (C k).
  Proof.
    intros Hk Hc Ht. eapply inT_C; eauto using ires_closed. eapply closed_complete; eauto using ires_closed.
  Qed.
  Lemma in_Q k x : k < length (r_cols (fst ires)) -> chart k x -> is_term_item x = true -> In x (Q k).
  Proof.
    intros Hk Hc Ht. eapply inT_Q; eauto using ires_closed. eapply closed_complete; eauto using ires_closed.
  Qed.

  (* every family of the specification that lives in a column the run has built is in the log *)
  Theorem families_complete_upto lbl f :
    added lbl f ->
    (forall k x, chart k x -> k < length (r_cols (fst ires))) ->
    In (lbl, f) (snd ires).
  Proof.
    intros H Hall. destruct H as [k r Hc Hr|k r d j t x Hc Hn Hw Hm|k r d j a r' i Hc Hn Hc' Hl].
    - pose proof (Hall _ _ Hc) as Hk. destruct (ires_col_ok k Hk) as (F1 & _ & _).
      assert (He : expect (mkItem r 0 k) = None) by (unfold expect; cbn [irule dot]; rewrite Hr; reflexivity).
      specialize (F1 (mkItem r 0 k)). cbn [irule dot orig] in F1. apply F1; auto.
      apply in_C; auto. unfold is_term_item. rewrite He. reflexivity.
    - pose proof (Hall _ _ Hc) as Hk. destruct (ires_col_ok k Hk) as (_ & _ & F3).
      assert (He : expect (mkItem r d j) = Some (T t)) by exact Hn.
      assert (Hin : In (mkItem r d j) (Q k)).
      { apply in_Q; auto. unfold is_term_item. rewrite He. reflexivity. }
      apply (F3 _ _ Hin Hw). unfold scan_fam. rewrite He, Hm. left. reflexivity.
    - pose proof (Hall _ _ Hc') as Hk. destruct (ires_col_ok k Hk) as (_ & F2 & _).
      assert (Hik : i <= k) by (apply chart_wf in Hc'; cbn [orig] in Hc'; lia).
      assert (Hex : expect (mkItem r' (length (rhs r')) i) = None).
      { unfold expect; cbn [irule dot]. apply nth_error_None. lia. }
      assert (Hey : expect (mkItem r d j) = Some (NT a)) by exact Hn.
      assert (Hx : In (mkItem r' (length (rhs r')) i) (C k)).
      { apply in_C; auto. unfold is_term_item. rewrite Hex. reflexivity. }
      assert (Hy : In (mkItem r d j) (C i)).
      { apply in_C; auto. lia. unfold is_term_item. rewrite Hey. reflexivity. }
      specialize (F2 _ (mkItem r d j) Hx Hex). cbn [irule dot orig] in F2. rewrite Hl in F2.
      apply F2; auto.
  Qed.

  (* a run that consumed the whole input has built every column of the chart *)
  Lemma full_run : r_out (fst ires) = Accept \/ r_out (fst ires) = RejectEOF ->
    forall k x, chart k x -> k < length (r_cols (fst ires)).
  Proof.
    intros Ho k x Hc. apply chart_le in Hc.
    rewrite erasure in *. destruct (parse_ok G predictions tok tmatch start w pred_sound pred_direct) as (n & L1 & _ & _ & H).
    rewrite L1. destruct Ho as [Ho|Ho]; rewrite Ho in H; destruct H; lia.
  Qed.

  Theorem families_complete lbl f :
    r_out (fst ires) = Accept \/ r_out (fst ires) = RejectEOF -> added lbl f -> In (lbl, f) (snd ires).
  Proof. intros Ho H. apply families_complete_upto; auto. apply full_run; auto. Qed.

  (* the model's forest = the specification's forest, so it stores exactly the derivation trees of w *)
  Theorem model_forest_is_spec :
    r_out (fst ires) = Accept \/ r_out (fst ires) = RejectEOF ->
    forall lbl f, in_forest tok (snd ires) lbl f <-> added lbl f.
  Proof.
    intros Ho lbl f. unfold in_forest. split.
    - intros H. apply (families_sound (lbl, f) H).
    - apply families_complete; auto.
  Qed.

  Variable occurs : tok -> nat -> bool.
  Hypothesis occurs_spec : forall x i, occurs x i = true <-> nth_error w i = Some x.

  Theorem model_forest_exact :
    r_out (fst ires) = Accept \/ r_out (fst ires) = RejectEOF ->
    forall ds, den tok (in_forest tok (snd ires)) (NSym tok start 0 (length w)) ds
               <-> exists d, ds = [d] /\ wfd G tok tmatch d (NT start) /\ yield tok d = w.
  Proof.
    intros Ho ds. rewrite <- (A_exact_chart G tok tmatch w start occurs occurs_spec). split; apply den_mono;
      intros lbl f; apply model_forest_is_spec; auto.
  Qed.

  (* whenever a derivation tree of w exists the run accepts (C01) and its forest contains the tree *)
  Theorem model_forest_complete d :
    wfd G tok tmatch d (NT start) -> yield tok d = w ->
    r_out (fst ires) = Accept /\ den tok (in_forest tok (snd ires)) (NSym tok start 0 (length w)) [d].
  Proof.
    intros Hw Hy.
    assert (Hacc : r_out (fst ires) = Accept).
    { rewrite erasure.
      assert (Hd : derives G tok tmatch [NT start] w).
      { rewrite <- Hy. apply (wfd_derives G tok tmatch d _ Hw). }
      apply (accepts_iff_sentence_gen G predictions tok tmatch start w pred_sound pred_direct) in Hd.
      unfold accepts in Hd. destruct (r_out (parse G predictions tok tmatch start w)); auto; discriminate. }
    split; auto. apply model_forest_exact; eauto.
  Qed.
End Families.

(* ---- lark's basic-lexer configuration: tokens are terminal ids, predictions = expand_rule ---- *)
Section IBasic.
  Variable G : grammar.
  Variable start : nat.
  Variable toks : list nat.

  Let ps : forall a r, In r (pred_lookup G (pred_table G) a) -> In r G /\ Analysis_proofs.lc_reach G a (lhs r).
  Proof. intros a r. rewrite pred_lookup_eq. apply Analysis_proofs.predictions_spec. Qed.
  Let pd : forall a r, In r G -> lhs r = a -> In r (pred_lookup G (pred_table G) a).
  Proof. intros a r. rewrite pred_lookup_eq. apply Analysis_proofs.predictions_direct. Qed.

  Definition occurs_nat (x i : nat) : bool :=
    match nth_error toks i with Some y => Nat.eqb x y | None => false end.
  Lemma occurs_nat_spec x i : occurs_nat x i = true <-> nth_error toks i = Some x.
  Proof.
    unfold occurs_nat. destruct (nth_error toks i) as [y|]; split; try discriminate.
    - intros H. apply Nat.eqb_eq in H. subst; auto.
    - intros H. inversion H. apply Nat.eqb_refl.
  Qed.

  Notation ires := (iearley_parse G start toks).

  Theorem iearley_erasure : fst ires = earley_parse G start toks.
  Proof. apply erasure. Qed.

  Theorem iearley_families_sound f : In f (snd ires) -> added G nat Nat.eqb toks start (fst f) (snd f).
  Proof. apply (families_sound G (pred_lookup G (pred_table G)) nat Nat.eqb start toks ps pd). Qed.

  Theorem iearley_families_complete lbl f :
    r_out (fst ires) = Accept \/ r_out (fst ires) = RejectEOF ->
    added G nat Nat.eqb toks start lbl f -> In (lbl, f) (snd ires).
  Proof. apply (families_complete G (pred_lookup G (pred_table G)) nat Nat.eqb start toks ps pd). Qed.

  Theorem iearley_forest_exact :
    r_out (fst ires) = Accept \/ r_out (fst ires) = RejectEOF ->
    forall ds, den nat (in_forest nat (snd ires)) (NSym nat start 0 (length toks)) ds
               <-> exists d, ds = [d] /\ wfd G nat Nat.eqb d (NT start) /\ yield nat d = toks.
  Proof.
    apply (model_forest_exact G (pred_lookup G (pred_table G)) nat Nat.eqb start toks ps pd occurs_nat occurs_nat_spec).
  Qed.

  Theorem iearley_forest_complete d :
    wfd G nat Nat.eqb d (NT start) -> yield nat d = toks ->
    r_out (fst ires) = Accept /\ den nat (in_forest nat (snd ires)) (NSym nat start 0 (length toks)) [d].
  Proof.
    apply (model_forest_complete G (pred_lookup G (pred_table G)) nat Nat.eqb start toks ps pd occurs_nat occurs_nat_spec).
  Qed.
End IBasic.
