(* C04 layer A for the executable model: the instrumented run of Forest/ExplicitAlgBuild.v
   - erases to Alg's run (erasure),
   - adds only families of the specification relation `added` (families_sound),
   - adds every family of `added` over the columns it builds (families_complete),
   hence stores exactly the derivation trees of the input when it accepts (model_forest_exact). *)
From Coq Require Import List Arith Bool Lia.
From LV Require Import Cfg.Grammar Cfg.Analysis Earley.Spec Earley.Alg Earley.Alg_proofs
  Forest.ExplicitBuild Forest.ExplicitBuild_proofs Forest.ExplicitAlgBuild.
Import ListNotations.

Section Erase.
  Variable G : grammar.
  Variable predictions : nat -> list rule.
  Variable tok : Type.
  Variable tmatch : nat -> tok -> bool.
  Variable start : nat.

  Notation ipc_loop := (ipc_loop predictions tok).
  Notation iparse_loop := (iparse_loop G predictions tok tmatch start).

  Lemma ipc_loop_erase fuel i cols : forall st acc,
    option_map fst (ipc_loop fuel i cols st acc) = pc_loop predictions fuel i cols st.
  Proof.
    induction fuel as [|f IH]; intros st acc; simpl; destruct (pc_work st); simpl; auto.
  Qed.

  Lemma ipc_loop_some fuel i cols st acc st' acc' :
    ipc_loop fuel i cols st acc = Some (st', acc') -> pc_loop predictions fuel i cols st = Some st'.
  Proof. intros H. rewrite <- (ipc_loop_erase fuel i cols st acc), H. reflexivity. Qed.

  Lemma ipc_loop_none fuel i cols st acc :
    ipc_loop fuel i cols st acc = None -> pc_loop predictions fuel i cols st = None.
  Proof. intros H. rewrite <- (ipc_loop_erase fuel i cols st acc), H. reflexivity. Qed.

  Lemma iparse_loop_erase toks : forall i cols scans col scanq acc,
    fst (iparse_loop toks i cols scans col scanq acc) = parse_loop G predictions tok tmatch start toks i cols scans col scanq.
  Proof.
    induction toks as [|tk rest IH]; intros i cols scans col scanq acc; cbn [ExplicitAlgBuild.iparse_loop Alg.parse_loop];
      unfold ipredict_and_complete, predict_and_complete;
      destruct (ipc_loop (pc_fuel G i) i cols (mkPC col (rev col) scanq []) acc) as [[st acc1]|] eqn:E.
    - rewrite (ipc_loop_some _ _ _ _ _ _ _ E). reflexivity.
    - rewrite (ipc_loop_none _ _ _ _ _ E). reflexivity.
    - rewrite (ipc_loop_some _ _ _ _ _ _ _ E).
      destruct (fst (scan tok tmatch tk (pc_scan st))), (snd (scan tok tmatch tk (pc_scan st))); auto.
    - rewrite (ipc_loop_none _ _ _ _ _ E). reflexivity.
  Qed.

  (* forgetting the add_family log gives the recogniser's run *)
  Theorem erasure toks : fst (iparse G predictions tok tmatch start toks) = parse G predictions tok tmatch start toks.
  Proof. unfold iparse, parse. apply iparse_loop_erase. Qed.
End Erase.

Section Families.
  Variable G : grammar.
  Variable predictions : nat -> list rule.
  Variable tok : Type.
  Variable tmatch : nat -> tok -> bool.
  Variable start : nat.
  Variable w : list tok.
  Hypothesis pred_sound : forall a r, In r (predictions a) -> In r G /\ Analysis_proofs.lc_reach G a (lhs r).
  Hypothesis pred_direct : forall a r, In r G -> lhs r = a -> In r (predictions a).

  Notation chart := (chart G tok tmatch w start).
  Notation added := (added G tok tmatch w start).
  Notation fam := (fam tok).
  Notation ipc_loop := (ipc_loop predictions tok).
  Notation iparse_loop := (iparse_loop G predictions tok tmatch start).
  Notation step_fams := (step_fams tok).
  Notation scan_fams := (scan_fams tok tmatch).
  Notation comp_fam := (comp_fam tok).

  Definition Fok (l : list fam) : Prop := forall f, In f l -> added (fst f) (snd f).

  Lemma Fok_app a b : Fok a -> Fok b -> Fok (a ++ b).
  Proof. intros Ha Hb f Hf. apply in_app_or in Hf. destruct Hf; auto. Qed.

  Lemma inode_eq r d j k : ExplicitAlgBuild.inode tok r d j k = ExplicitBuild_proofs.inode tok r d j k.
  Proof. reflexivity. Qed.

  (* a completed item x = (r', |r'|, m) in column i and an originator o in column m give an add_comp family *)
  Lemma comp_fam_added i m a o x :
    chart m o -> expect o = Some (NT a) -> chart i x -> expect x = None -> orig x = m -> lhs (irule x) = a ->
    added (fst (comp_fam i m a o)) (snd (comp_fam i m a o)).
  Proof.
    intros Ho Heo Hx Hex Hox Hl. pose proof (expect_none_complete _ _ _ _ _ _ _ Hx Hex) as Hd.
    destruct o as [r d j]. destruct x as [r' d' m']. unfold expect in *. cbn [irule dot orig] in *. subst.
    unfold ExplicitAlgBuild.comp_fam. cbn [fst snd irule dot orig]. rewrite inode_eq.
    eapply add_comp; eauto.
  Qed.

  (* ---- soundness of one predict_and_complete call ---- *)
  Section Column.
    Variable i : nat.
    Variable cols : list (list item).
    Hypothesis cols_sound : forall j x, In x (nth j cols []) -> chart j x.

    Notation pc_sound := (pc_sound G tok tmatch start w i).

    Lemma step_fams_sound x col work scan held :
      pc_sound (mkPC col (x :: work) scan held) -> Fok (step_fams i cols x (mkPC col work scan held)).
    Proof.
      intros (S1 & S2 & S3 & S4). assert (Hx : chart i x) by (apply S3; left; auto).
      cbn [pc_col pc_work pc_scan pc_held] in *.
      unfold ExplicitAlgBuild.step_fams. cbn [pc_col pc_held].
      destruct (expect x) as [[t|a]|] eqn:E.
      - intros f [].
      - destruct (nat_memP a held) as [Hin|]; [|intros f []].
        intros f [<- |[]]. destruct (S4 a Hin) as (z & Hz & Hez & Hoz & Hlz).
        eapply comp_fam_added; eauto.
      - apply Fok_app.
        + destruct (dot x) eqn:Ed; [|intros f []]. intros f [<- |[]]. cbn [fst snd].
          pose proof (chart_dot0 _ _ _ _ _ _ _ Hx Ed) as Ho.
          pose proof (expect_none_complete _ _ _ _ _ _ _ Hx E) as Hlen.
          destruct x as [r d j]. cbn [irule dot orig] in *. subst. 
          apply add_empty; auto. destruct (rhs r); auto; discriminate.
        + intros f Hf. apply in_map_iff in Hf. destruct Hf as (o & <- & Ho).
          apply filter_In in Ho. destruct Ho as (Ho & He). apply expects_nt_spec in He.
          eapply comp_fam_added; eauto.
          destruct (Nat.eqb (orig x) i) eqn:Eo.
          * apply Nat.eqb_eq in Eo. rewrite Eo. auto.
          * auto.
    Qed.

    Lemma ipc_loop_sound fuel : forall st acc st' acc',
      pc_sound st -> Fok acc -> ipc_loop fuel i cols st acc = Some (st', acc') -> Fok acc'.
    Proof.
      induction fuel as [|f IH]; intros st acc st' acc' S HF H; destruct st as [col work scan held];
        cbn [ExplicitAlgBuild.ipc_loop pc_work pc_col pc_scan pc_held] in H; destruct work as [|x work].
      - inversion H; subst; auto.
      - discriminate.
      - inversion H; subst; auto.
      - eapply IH; [| |exact H].
        + apply (step_sound G predictions tok tmatch start w pred_sound i cols cols_sound); auto.
        + apply Fok_app; auto. apply step_fams_sound; auto.
    Qed.
  End Column.

  Lemma scan_fams_sound i tk scanq :
    (forall x, In x scanq -> chart i x) -> nth_error w i = Some tk -> Fok (scan_fams i tk scanq).
  Proof.
    intros Hs Hn f Hf. unfold ExplicitAlgBuild.scan_fams in Hf. apply in_flat_map in Hf. destruct Hf as (x & Hx & Hf).
    unfold scan_fam in Hf. destruct (expect x) as [[t|a]|] eqn:E; try destruct Hf.
    destruct (tmatch t tk) eqn:M; [|destruct Hf]. destruct Hf as [<- |[]]. cbn [fst snd].
    specialize (Hs x Hx). destruct x as [r d j]. unfold expect in E. cbn [irule dot orig] in *.
    rewrite inode_eq. eapply add_scan; eauto.
  Qed.

  (* ---- soundness of the whole run: same induction as Alg_proofs.parse_loop_spec ---- *)
  Lemma iparse_loop_sound : forall toks i cols scans col scanq pre acc,
    w = pre ++ toks -> length pre = i -> length cols = i -> length scans = i ->
    closed G tok tmatch start w (colf cols) (colf scans) i ->
    NoDup col -> (forall x, In x col -> chart i x) -> (forall x, In x scanq -> chart i x) ->
    (forall x, In x col -> is_term_item x = false) -> (forall x, In x scanq -> is_term_item x = true) ->
    (i = 0 -> forall r, In r G -> lhs r = start -> In (mkItem r 0 0) col \/ In (mkItem r 0 0) scanq) ->
    (forall m x t tk, i = S m -> In x (colf scans m) -> expect x = Some (T t) -> nth_error w m = Some tk ->
        tmatch t tk = true -> In (advance x) col \/ In (advance x) scanq) ->
    Fok acc ->
    Fok (snd (iparse_loop toks i cols scans col scanq acc)).
  Proof.
    induction toks as [|tk rest IH]; intros i cols scans col scanq pre acc Hw Hpre Hlc Hls Cl ND Sc Sq Dc Dq Hi Hs HF;
      destruct (column_step G predictions tok tmatch start w pred_sound pred_direct
                  i cols scans col scanq Hlc Hls Cl ND Sc Sq Dc Dq Hi Hs) as (st & Est & Cl' & Sq');
      pose proof (colf_snoc_eq' cols (pc_col st) i Hlc) as Ec;
      pose proof (colf_snoc_eq' scans (pc_scan st) i Hls) as Eq;
      assert (cols_sound : forall j x, In x (nth j cols []) -> chart j x)
        by (intros j x Hx; destruct (Nat.lt_ge_cases j i) as [Hlt|Hge];
            [apply (cl_sound _ _ _ _ _ _ _ _ Cl j x Hlt); left; exact Hx
            |rewrite nth_overflow in Hx by lia; destruct Hx]);
      assert (S0 : pc_sound G tok tmatch start w i (mkPC col (rev col) scanq []))
        by (repeat split; cbn; auto; [intros x Hx; apply Sc; apply in_rev; auto | intros a []]);
      cbn [ExplicitAlgBuild.iparse_loop]; unfold ipredict_and_complete;
      destruct (ipc_loop (pc_fuel G i) i cols (mkPC col (rev col) scanq []) acc) as [[st2 acc1]|] eqn:E;
      try (cbn [snd]; exact HF);
      pose proof (ipc_loop_some _ _ _ _ _ _ _ _ _ E) as E';
      unfold predict_and_complete in Est; rewrite Est in E'; inversion E'; subst st2;
      pose proof (ipc_loop_sound i cols cols_sound _ _ _ _ _ S0 HF E) as HF1.
    - cbn [snd]. exact HF1.
    - assert (Hnth : nth_error w i = Some tk).
      { rewrite Hw, nth_error_app2 by lia. rewrite Hpre, Nat.sub_diag. reflexivity. }
      assert (HF2 : Fok (acc1 ++ scan_fams i tk (pc_scan st))).
      { apply Fok_app; auto. apply scan_fams_sound; auto. }
      destruct (scan tok tmatch tk (pc_scan st)) as [nc nq] eqn:Escan. cbn [fst snd].
      pose proof Escan as Escan'. unfold scan in Escan'.
      destruct (places_spec _ _ (scan_step_eq tok tmatch tk) _ _ _ _ _ Escan') as (_ & _ & A3 & A4 & A5 & A6).
      assert (Hsrc : forall z, (exists x, In x (pc_scan st) /\ scan_pick tok tmatch tk x = Some z) -> chart (S i) z).
      { intros z (x & Hx & Hp). apply scan_pick_spec in Hp. destruct Hp as (t & He & Hm & ->).
        eapply chart_scan'; eauto. }
      assert (Rec : Fok (snd (iparse_loop rest (S i) (cols ++ [pc_col st]) (scans ++ [pc_scan st]) nc nq
                                          (acc1 ++ scan_fams i tk (pc_scan st))))).
      { apply (IH (S i) _ _ nc nq (pre ++ [tk])); auto.
        - rewrite <- app_assoc. exact Hw.
        - rewrite app_length. simpl. lia.
        - rewrite app_length. simpl. lia.
        - rewrite app_length. simpl. lia.
        - apply A6. constructor.
        - intros z Hz. destruct (A4 z Hz) as [[]|(_ & Hex)]. auto.
        - intros z Hz. destruct (A5 z Hz) as [[]|(_ & Hex)]. auto.
        - intros z Hz. destruct (A4 z Hz) as [[]|(? & _)]. auto.
        - intros z Hz. destruct (A5 z Hz) as [[]|(? & _)]. auto.
        - intros F; discriminate.
        - intros m x t tk0 Hm Hx He Hn Hmt. inversion Hm; subst m. rewrite Eq in Hx.
          rewrite Hnth in Hn. inversion Hn; subst tk0.
          apply (A3 x (advance x) Hx). apply scan_pick_spec. eauto. }
      destruct nc as [|z nc']; [destruct nq as [|z nq']|]; auto.
  Qed.

  (* every family the instrumented run adds is one of the specification *)
  Theorem families_sound : forall f, In f (snd (iparse G predictions tok tmatch start w)) -> added (fst f) (snd f).
  Proof.
    unfold iparse. destruct (initial predictions start) as [c0 q0] eqn:E. cbn [fst snd].
    destruct (initial_spec G predictions tok tmatch start w pred_sound pred_direct _ _ E) as (ND & Sc & Sq & Dc & Dq & Hi).
    apply (iparse_loop_sound w 0 [] [] c0 q0 [] []); auto.
    - constructor; intros; lia.
    - intros m x t tk F; discriminate.
    - intros f [].
  Qed.
End Families.
