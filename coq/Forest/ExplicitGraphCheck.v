(* C04 layer B on cyclic forests - decidable helpers: local well-formedness of a numbered forest graph (the hypothesis
   of the theorems of ExplicitGraph_proofs.v, evaluated on every exported forest) and the comparison of lark's explicit
   tree with the model's. *)
From Coq Require Import String Ascii Bool Arith List.
From LV Require Import Base.Prelude Forest.ExplicitToTree Forest.ExplicitCheck Forest.ExplicitGraph.
Import ListNotations.
Local Open Scope list_scope.

(* the kind of node a child number points to, against the symbol it stands for *)
Definition gsym_matches (s : esym) (o : option gnode) : bool :=
  match o with
  | Some (GTok _ _) => e_term s
  | Some (GSym (LSym a) _) => negb (e_term s) && String.eqb a (e_name s)
  | _ => false
  end.

(* ExplicitCheck.wfpb with children given by number *)
Definition gwfp (g : graph) (l : label) (p : gpack) : bool :=
  let r := gp_rule p in
  let k := match l with LSym _ => length (x_exp r) | LInter _ k => k end in
  rule_okb r &&
  (match l with
   | LSym a => String.eqb (x_origin r) a
   | LInter r' k' => xrule_eqb r r' && Nat.ltb 0 k' && Nat.ltb k' (length (x_exp r))
   end) &&
  (match k with
   | 0 => match gp_left p, gp_right p with None, None => true | _, _ => false end
   | S k' =>
       (match gp_right p with
        | Some m => gsym_matches (nth k' (x_exp r) dummy_sym) (nth_error g m)
        | None => false
        end) &&
       (match k', gp_left p with
        | 0, None => true
        | S _, Some m =>
            (match nth_error g m with
             | Some (GSym (LInter r'' k'') _) => xrule_eqb r r'' && Nat.eqb k'' k'
             | _ => false
             end)
        | _, _ => false
        end)
   end).

Definition gwfn (g : graph) (nd : gnode) : bool :=
  match nd with
  | GTok _ _ => true
  | GSym l fams => nonnil fams && forallb (gwfp g l) fams
  end.

Definition gwfb (g : graph) : bool := forallb (gwfn g) g.

Definition groot_okb (g : graph) (root : nat) : bool :=
  match nth_error g root with Some (GSym (LSym _) _) => true | _ => false end.

(* one correspondence case: strict (as ExplicitCheck.check_case), the numbered forest lark transformed, its root, and the
   tree lark returned (None when transform returned None) *)
Definition gcheck_case (c : bool * graph * nat * option tree) : bool :=
  let '(strict, g, root, t) := c in
  gwfb g && groot_okb g root &&
  match graph_explicit g root, t with
  | Some (Some m), Some t => if strict then tree_eqb m t else tree_eqb (norm m) (norm t)
  | Some None, None => true
  | _, _ => false
  end.
