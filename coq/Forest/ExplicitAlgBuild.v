(* C04 layer A, executable: the recogniser model Earley/Alg.v instrumented with the SPPF bookkeeping of
   lark/parsers/earley.py.  Nodes are identified with their node_cache keys (s, start, i) - the labels of
   Forest/ExplicitBuild.v -, so an add_family call is the pair (label of the node, (rule, left label, right
   label)); the instrumented run returns the list of all add_family calls in order:
     predict_and_complete, completer with item.node is None   -> step_fams, first part of the None case
     predict_and_complete, completer, one call per originator -> step_fams, second part of the None case
     predict_and_complete, predictor with a held completion   -> step_fams, NT case
     scan, one call per matching to_scan item                 -> scan_fams
   The families a step adds depend only on the step's inputs (the popped item, the column and held completions
   as they are then, the earlier columns), never on families added before, so the instrumentation is a pure
   by-product and erasing it gives back Alg's run (ExplicitAlgBuild_proofs.erasure).  Definitions only. *)
From Coq Require Import List Arith Bool.
From LV Require Import Cfg.Grammar Cfg.Analysis Earley.Spec Earley.Alg Forest.ExplicitBuild.
Import ListNotations.

Section IAlg.
  Variable G : grammar.
  Variable predictions : nat -> list rule.
  Variable tok : Type.
  Variable tmatch : nat -> tok -> bool.
  Variable start : nat.

  Definition fam : Type := (nlabel tok * family tok)%type.

  (* item.node of an item (r, d, j) living in column k: None for ptr = 0, else the node ((r, d), j, k) *)
  Definition inode (r : rule) (d j k : nat) : option (nlabel tok) :=
    match d with 0 => None | S _ => Some (NInter tok r d j k) end.

  (* new_item = originator.advance(); label = (new_item.s, originator.start, i);
     new_item.node.add_family(new_item.s, new_item.rule, i, originator.node, item.node)
     o = the originator (living in column m), the completed symbol is a over m..i *)
  Definition comp_fam (i m a : nat) (o : item) : fam :=
    (ilabel tok (irule o) (S (dot o)) (orig o) i,
     (irule o, inode (irule o) (dot o) (orig o) m, Some (NSym tok a m i))).

  (* the add_family calls made while item x is processed by the body of `while items:`;
     st is the state after the pop, as in Alg.pc_step *)
  Definition step_fams (i : nat) (cols : list (list item)) (x : item) (st : pc_state) : list fam :=
    match expect x with
    | None =>
        let a := lhs (irule x) in
        let here := Nat.eqb (orig x) i in
        let src := if here then pc_col st else nth (orig x) cols [] in
        (* if item.node is None: ... item.node.add_family(item.s, item.rule, item.start, None, None) *)
        (match dot x with 0 => [(NSym tok a (orig x) i, (irule x, None, None))] | S _ => [] end)
        ++ map (comp_fam i (orig x) a) (filter (expects_nt a) src)
    | Some (NT a) =>
        (* if item.expect in held_completions: ... add_family(new_item.s, new_item.rule, new_item.start,
                                                              item.node, held_completions[item.expect]) *)
        if nat_mem a (pc_held st) then [comp_fam i i a x] else []
    | Some (T _) => []
    end.

  Fixpoint ipc_loop (fuel : nat) (i : nat) (cols : list (list item)) (st : pc_state) (acc : list fam)
    : option (pc_state * list fam) :=
    match pc_work st with
    | [] => Some (st, acc)
    | x :: work' =>
        match fuel with
        | 0 => None
        | S f =>
            let st0 := mkPC (pc_col st) work' (pc_scan st) (pc_held st) in
            ipc_loop f i cols (pc_step predictions i cols x st0) (acc ++ step_fams i cols x st0)
        end
    end.

  Definition ipredict_and_complete (fuel i : nat) (cols : list (list item)) (col scanq : list item) (acc : list fam) :=
    ipc_loop fuel i cols (mkPC col (rev col) scanq []) acc.

  (* scan: new_item.node.add_family(new_item.s, item.rule, new_item.start, item.node, token_node) *)
  Definition scan_fam (i : nat) (tk : tok) (x : item) : list fam :=
    match expect x with
    | Some (T t) =>
        if tmatch t tk
        then [(ilabel tok (irule x) (S (dot x)) (orig x) (S i),
               (irule x, inode (irule x) (dot x) (orig x) i, Some (NTok tok t tk i (S i))))]
        else []
    | _ => []
    end.
  Definition scan_fams (i : nat) (tk : tok) (scanq : list item) : list fam := flat_map (scan_fam i tk) scanq.

  Fixpoint iparse_loop (toks : list tok) (i : nat) (cols scans : list (list item)) (col scanq : list item)
           (acc : list fam) : result * list fam :=
    match ipredict_and_complete (pc_fuel G i) i cols col scanq acc with
    | None => (mkRes (OutOfFuel i) cols scans, acc)
    | Some (st, acc1) =>
        let cols' := cols ++ [pc_col st] in
        let scans' := scans ++ [pc_scan st] in
        match toks with
        | [] => (mkRes (if existsb (is_solution start) (pc_col st) then Accept else RejectEOF) cols' scans', acc1)
        | tk :: rest =>
            let ns := scan tok tmatch tk (pc_scan st) in
            let acc2 := acc1 ++ scan_fams i tk (pc_scan st) in
            match fst ns, snd ns with
            | [], [] => (mkRes (RejectTok i) cols' scans', acc2)
            | _, _ => iparse_loop rest (S i) cols' scans' (fst ns) (snd ns) acc2
            end
        end
    end.

  Definition iparse (toks : list tok) : result * list fam :=
    iparse_loop toks 0 [] [] (fst (initial predictions start)) (snd (initial predictions start)) [].
End IAlg.

(* lark's basic-lexer configuration, as Alg.earley_parse *)
Definition iearley_parse (G : grammar) (start : nat) (toks : list nat) : result * list (fam nat) :=
  let tbl := pred_table G in iparse G (pred_lookup G tbl) nat Nat.eqb start toks.

(* ---- comparison helpers for the harness (decidable equality of labels / families over nat lexemes) ---- *)
Definition label_eqb (a b : nlabel nat) : bool :=
  match a, b with
  | NSym _ a1 i1 j1, NSym _ a2 i2 j2 => Nat.eqb a1 a2 && Nat.eqb i1 i2 && Nat.eqb j1 j2
  | NInter _ r1 d1 i1 j1, NInter _ r2 d2 i2 j2 =>
      Alg.rule_eqb r1 r2 && Nat.eqb d1 d2 && Nat.eqb i1 i2 && Nat.eqb j1 j2
  | NTok _ t1 x1 i1 j1, NTok _ t2 x2 i2 j2 => Nat.eqb t1 t2 && Nat.eqb x1 x2 && Nat.eqb i1 i2 && Nat.eqb j1 j2
  | _, _ => false
  end.
Definition olabel_eqb (a b : option (nlabel nat)) : bool :=
  match a, b with
  | None, None => true
  | Some x, Some y => label_eqb x y
  | _, _ => false
  end.
Definition fam_eqb (a b : fam nat) : bool :=
  let '(l1, (r1, a1, b1)) := a in
  let '(l2, (r2, a2, b2)) := b in
  label_eqb l1 l2 && Alg.rule_eqb r1 r2 && olabel_eqb a1 a2 && olabel_eqb b1 b2.
Definition fams_subset (a b : list (fam nat)) : bool := forallb (fun x => existsb (fam_eqb x) b) a.

(* one observed run: token ids, outcome code (0 accept / 1 UnexpectedEOF / 2+i nothing scanned at i), and the log of
   every SymbolNode.add_family call lark made.  The model's run must have the same outcome and the same set of calls. *)
Definition icase := (list (nat * list symbol) * nat * list nat * nat * list (fam nat))%type.
Definition icheck (c : icase) : bool :=
  let '(rules, start, toks, code, log) := c in
  let G := map (fun p => mkRule (fst p) (snd p)) rules in
  let r := iearley_parse G start toks in
  Nat.eqb (match r_out (fst r) with Accept => 0 | RejectEOF => 1 | RejectTok i => 2 + i | OutOfFuel _ => 4999 end) code
  && fams_subset log (snd r) && fams_subset (snd r) log.
