(* C20 correspondence for the walks: the recursive model and the loop model replay the
   callbacks an instrumented lark visitor recorded on an exported forest graph. *)
From Coq Require Import List Bool Arith.
From LV Require Import Base.Prelude Forest.Visit.
Import ListNotations.

Fixpoint nat_list_eqb (a b : list nat) : bool :=
  match a, b with
  | [], [] => true
  | x :: r, y :: s => Nat.eqb x y && nat_list_eqb r s
  | _, _ => false
  end.

Definition event_eqb (a b : event) : bool :=
  match a, b with
  | EIn x, EIn y => Nat.eqb x y
  | EOut x, EOut y => Nat.eqb x y
  | ETok x, ETok y => Nat.eqb x y
  | ECycle x p, ECycle y q => Nat.eqb x y && nat_list_eqb p q
  | _, _ => false
  end.

Fixpoint trace_eqb (a b : list event) : bool :=
  match a, b with
  | [], [] => true
  | x :: r, y :: s => event_eqb x y && trace_eqb r s
  | _, _ => false
  end.

Fixpoint count_in (tr : list event) : nat :=
  match tr with
  | [] => 0
  | EIn _ :: r => S (count_in r)
  | _ :: r => count_in r
  end.

(* the k-th visit_*_in call returned the k-th recorded list *)
(* a recorded return: (true, [c]) = the callback returned the single node c itself; (false, ks) = an iterable *)
Definition sel_recorded (rets : list (bool * list nat)) (tr : list event) (n : nat) : vret :=
  match nth (count_in tr - 1) rets (false, []) with
  | (true, c :: _) => ROne c
  | (_, ks) => RNodes ks
  end.

(* graph, single_visit, recorded returns, observed callback trace *)
Definition vcase : Type := (vgraph * bool * list (bool * list nat) * list event)%type.

Definition visit_diag (c : vcase) : nat :=
  let '(g, single, rets, obs) := c in
  match visit g single (sel_recorded rets) 0 with
  | Ok (tr, _) =>
      if negb (trace_eqb tr obs) then 1
      else match visit_loop g single (sel_recorded rets) (10 * (List.length obs + List.length g) + 10) 0 with
           | Ok (tr2, _) => if trace_eqb tr2 obs then 0 else 2
           | _ => 3
           end
  | AssertFail => 4
  | OutOfFuel => 5
  end.

Definition visit_ok (c : vcase) : bool := Nat.eqb (visit_diag c) 0.

(* compact input form: binary numbers, nodes as [Some tid] (token) / [None], events as
   (kind, node, path) with kind 0 = in, 1 = out, 2 = token, 3 = on_cycle *)
From Coq Require Import NArith.
Definition rawcase : Type :=
  (list (option N) * bool * list (bool * list N) * list (N * N * list N))%type.

Definition event_of_raw (e : N * N * list N) : event :=
  let '(k, n, p) := e in
  if N.eqb k 0 then EIn (N.to_nat n)
  else if N.eqb k 1 then EOut (N.to_nat n)
  else if N.eqb k 2 then ETok (N.to_nat n)
  else ECycle (N.to_nat n) (map N.to_nat p).

Definition vcase_of_raw (c : rawcase) : vcase :=
  let '(g, single, rets, obs) := c in
  (map (fun o => match o with Some t => VTok (N.to_nat t) | None => VInner end) g, single,
   map (fun r => (fst r, map N.to_nat (snd r))) rets, map event_of_raw obs).

Definition visit_ok_raw (c : rawcase) : bool := visit_ok (vcase_of_raw c).
