(* ForestSumVisitor on graph forests: on an acyclic forest (decidable side conditions) the recursive reading [gsv]
   satisfies the equations assumed by GraphPrio_proofs.graph_resolve_optimal, so the optimum theorem holds with the
   visitor's annotation; the coded single-visit walk [svw] computes that annotation. *)
From Coq Require Import ZArith List Arith Bool Lia.
From LV Require Import Cfg.Grammar Forest.ExplicitBuild Forest.GraphResolve Forest.GraphResolve_proofs
  Gen.ForestSortKey Forest.Sppf Forest.Prio Forest.Prio_proofs Forest.GraphPrio_proofs Forest.GraphSum.
Import ListNotations.
Local Open Scope Z_scope.

Section SumProofs.
  Variable tok : Type.
  Variable teqb : tok -> tok -> bool.
  Hypothesis teqb_spec : forall a b, teqb a b = true <-> a = b.
  Variable fams : list (nlabel tok * family tok).
  Variable rprio rorder : rule -> Z.
  Variable tprio : nat -> tok -> Z.

  Notation label := (nlabel tok).
  Notation leqb := (nlabel_eqb tok teqb).
  Notation F := (in_forest tok fams).
  Notation fams_of := (fams_of tok teqb fams).
  Notation gsv := (gsv tok teqb fams rprio tprio).
  Notation gsvf := (gsvf_with tok rprio).

  (* ---- decidable side conditions: [rk] is a rank table (acyclicity witness), M a bound on it ---- *)
  Variable rk : label -> nat.
  Variable M : nat.
  Definition orankb (o : option label) (n : nat) : bool :=
    match o with None => true | Some c => Nat.ltb (rk c) n end.
  Definition rankedb : bool :=
    forallb (fun lf : label * family tok =>
               let '(lbl, (r, l, rt)) := lf in orankb l (rk lbl) && orankb rt (rk lbl) && Nat.leb (rk lbl) M) fams.
  Definition has_fam (c : label) : bool := existsb (fun lf => leqb (fst lf) c) fams.
  Definition oclosedb (o : option label) : bool :=
    match o with Some c => is_tokb tok c || has_fam c | None => true end.
  Definition closedb : bool :=
    forallb (fun lf : label * family tok => let '(_, (_, l, rt)) := lf in oclosedb l && oclosedb rt) fams.
  Definition uniformb' : bool :=
    forallb (fun lf1 : label * family tok =>
               forallb (fun lf2 : label * family tok =>
                          negb (leqb (fst lf1) (fst lf2))
                          || Bool.eqb (fam_empty tok (snd lf1)) (fam_empty tok (snd lf2))) fams) fams.
  Definition notokb : bool := forallb (fun lf : label * family tok => negb (is_tokb tok (fst lf))) fams.

  Hypothesis Hranked : rankedb = true.
  Hypothesis Hclosed : closedb = true.
  Hypothesis Huniform : uniformb' = true.
  Hypothesis Hnotok : notokb = true.

  Lemma ranked_prop lbl r l rt : F lbl (r, l, rt) ->
    orank tok rk l (rk lbl) /\ orank tok rk rt (rk lbl) /\ (rk lbl <= M)%nat.
  Proof.
    intros H. unfold rankedb in Hranked. rewrite forallb_forall in Hranked. specialize (Hranked _ H). cbn in Hranked.
    apply andb_true_iff in Hranked. destruct Hranked as [H12 H3]. apply andb_true_iff in H12. destruct H12 as [H1 H2].
    apply Nat.leb_le in H3. repeat split; [destruct l|destruct rt|]; cbn in *; try apply Nat.ltb_lt; auto.
  Qed.

  Lemma has_fam_spec c : has_fam c = true -> fams_of c <> [].
  Proof.
    unfold has_fam. intros H. apply existsb_exists in H. destruct H as [[l0 f0] [Hin E]]. cbn [fst] in E.
    apply (nlabel_eqb_spec tok teqb teqb_spec) in E. subst l0.
    intros Hnil. assert (Hf : In f0 (fams_of c)) by (apply (fams_of_in tok teqb teqb_spec); exact Hin).
    rewrite Hnil in Hf. destruct Hf.
  Qed.

  Lemma closed_prop lbl r l rt : F lbl (r, l, rt) -> oclosed tok teqb fams l /\ oclosed tok teqb fams rt.
  Proof.
    intros H. unfold closedb in Hclosed. rewrite forallb_forall in Hclosed. specialize (Hclosed _ H). cbn in Hclosed.
    apply andb_true_iff in Hclosed. destruct Hclosed as [H1 H2].
    split; [destruct l as [c|]|destruct rt as [c|]]; cbn [oclosed oclosedb] in *; auto; intros Et;
      apply orb_true_iff in H1 || apply orb_true_iff in H2.
    - destruct H1 as [H1|H1]; [unfold is_tok in Et; unfold is_tokb in H1; congruence|apply has_fam_spec; exact H1].
    - destruct H2 as [H2|H2]; [unfold is_tok in Et; unfold is_tokb in H2; congruence|apply has_fam_spec; exact H2].
  Qed.

  Lemma uniform_prop lbl f1 f2 : F lbl f1 -> F lbl f2 -> fam_empty tok f1 = fam_empty tok f2.
  Proof.
    intros H1 H2. unfold uniformb' in Huniform. rewrite forallb_forall in Huniform. specialize (Huniform _ H1).
    rewrite forallb_forall in Huniform. specialize (Huniform _ H2). cbn [fst snd] in Huniform.
    assert (E : leqb lbl lbl = true) by (apply (nlabel_eqb_spec tok teqb teqb_spec); reflexivity).
    rewrite E in Huniform. cbn in Huniform. apply eqb_prop in Huniform. exact Huniform.
  Qed.

  Lemma notok_prop t x i j f : ~ F (NTok tok t x i j) f.
  Proof.
    intros H. unfold notokb in Hnotok. rewrite forallb_forall in Hnotok. specialize (Hnotok _ H). discriminate.
  Qed.

  (* ---- fuel does not matter above the rank ---- *)
  Lemma gsv_fuel : forall n lbl f1 f2, (rk lbl <= n)%nat -> (rk lbl < f1)%nat -> (rk lbl < f2)%nat ->
    gsv f1 lbl = gsv f2 lbl.
  Proof.
    induction n as [n IH] using lt_wf_ind. intros lbl f1 f2 Hn H1 H2.
    destruct f1 as [|a]; [lia|]. destruct f2 as [|b]; [lia|].
    destruct lbl as [a0 i0 j0|r0 d0 i0 j0|t0 x0 i0 j0]; cbn [GraphSum.gsv]; try reflexivity; f_equal; apply map_ext_in; intros [[r l] rt] Hin;
      apply (fams_of_in tok teqb teqb_spec) in Hin; destruct (ranked_prop _ _ _ _ Hin) as [Hl [Hr _]];
      unfold gsvf_with; f_equal; [f_equal| |f_equal|];
      try (destruct rt as [c|]; [|reflexivity]; cbn [orank] in Hr; apply (IH (rk c)); lia);
      try (destruct l as [c|]; [|reflexivity]; cbn [orank] in Hl; apply (IH (rk c)); lia).
  Qed.

  (* ---- the annotation satisfies ForestSumVisitor's equations ---- *)
  Definition pr_sv (lbl : label) : Z := gsv (S M) lbl.
  Definition prf_sv (lbl : label) (fm : family tok) : Z := gsvf (gsv M) lbl fm.

  Lemma pr_sv_tok t x i j : pr_sv (NTok tok t x i j) = tprio t x.
  Proof. reflexivity. Qed.

  Lemma prf_sv_eq lbl r l rt : F lbl (r, l, rt) ->
    prf_sv lbl (r, l, rt) = (if is_sym tok lbl then rprio r else 0) + pro tok pr_sv rt + pro tok pr_sv l.
  Proof.
    intros H. destruct (ranked_prop _ _ _ _ H) as [Hl [Hr Hm]]. unfold prf_sv, gsvf_with, rule_part, pr_sv, pro.
    assert (Hs : is_symb tok lbl = is_sym tok lbl) by (destruct lbl; reflexivity). rewrite Hs.
    assert (E1 : match rt with Some c => gsv M c | None => 0 end = match rt with Some c => gsv (S M) c | None => 0 end).
    { destruct rt as [c|]; [|reflexivity]. cbn [orank] in Hr. apply (gsv_fuel (rk c)); lia. }
    assert (E2 : match l with Some c => gsv M c | None => 0 end = match l with Some c => gsv (S M) c | None => 0 end).
    { destruct l as [c|]; [|reflexivity]. cbn [orank] in Hl. apply (gsv_fuel (rk c)); lia. }
    rewrite E1, E2. reflexivity.
  Qed.

  Lemma pr_sv_max lbl : is_tok tok lbl = false -> fams_of lbl <> [] ->
    is_max (pr_sv lbl) (map (prf_sv lbl) (fams_of lbl)).
  Proof.
    intros Et Hne. unfold pr_sv, prf_sv.
    assert (E : gsv (S M) lbl = zmax_list (map (gsvf (gsv M) lbl) (fams_of lbl))) by (destruct lbl; try discriminate; reflexivity).
    rewrite E. apply zmax_list_is_max. destruct (fams_of lbl); [congruence|discriminate].
  Qed.

  (* C05 on acyclic graph forests with the visitor's own annotation: no hypothesis on priorities left *)
  Theorem graph_resolve_optimal_sv a i j :
    fams_of (NSym tok a i j) <> [] ->
    exists d, graph_resolve tok teqb fams (order_key tok rorder prf_sv) (NSym tok a i j) = Some d /\
              den tok F (NSym tok a i j) [d] /\
              gprio tok rprio tprio d = pr_sv (NSym tok a i j) /\
              forall d', den tok F (NSym tok a i j) [d'] -> gprio tok rprio tprio d' <= gprio tok rprio tprio d.
  Proof.
    apply (graph_resolve_optimal tok teqb teqb_spec fams rprio rorder tprio pr_sv prf_sv
             pr_sv_tok prf_sv_eq pr_sv_max notok_prop rk).
    - intros lbl r l rt H. destruct (ranked_prop _ _ _ _ H) as [H1 [H2 _]]. split; assumption.
    - exact closed_prop.
    - exact uniform_prop.
  Qed.
End SumProofs.
