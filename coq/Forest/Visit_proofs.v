(* ForestVisitor.visit: the recursive model terminates on every finite graph whatever the
   callbacks return, it reports a cycle exactly for the returned nodes that are on the
   current path, and the coded explicit-stack loop computes the same trace. *)
From Coq Require Import List Bool Arith Lia Permutation.
From LV Require Import Base.Prelude Forest.Visit.
Import ListNotations.

Lemma memn_in x l : memn x l = true <-> In x l.
Proof.
  induction l as [|y r IH]; cbn; [intuition discriminate|].
  rewrite orb_true_iff, IH, Nat.eqb_eq. intuition.
Qed.
Lemma memn_not_in x l : memn x l = false <-> ~ In x l.
Proof. rewrite <- memn_in. destruct (memn x l); intuition congruence. Qed.

Lemma nodup_snoc (path : list nat) n : NoDup path -> ~ In n path -> NoDup (path ++ [n]).
Proof.
  intros H1 H2. apply (Permutation_NoDup (l := n :: path)).
  - apply Permutation_cons_append.
  - constructor; assumption.
Qed.

Section Proofs.
  Variable g : vgraph.
  Variable single : bool.
  Variable sel : list event -> nat -> vret.
  Notation vrec := (visit_rec g single sel).

  Definition valid (path : list nat) : Prop := forall x, In x path -> x < List.length g.

  Lemma path_bound path : NoDup path -> valid path -> List.length path <= List.length g.
  Proof.
    intros Hnd Hv. rewrite <- (seq_length (List.length g) 0).
    apply NoDup_incl_length; [exact Hnd|]. intros x Hx. apply in_seq. specialize (Hv x Hx). lia.
  Qed.

  Lemma valid_snoc path n : valid path -> n < List.length g -> valid (path ++ [n]).
  Proof. intros Hv Hn x Hx. apply in_app_or in Hx. destruct Hx as [Hx|[<-|[]]]; auto. Qed.

  (* ---------------------------------------------------------------- termination *)
  Lemma fold_kids_no_oof (visit1 : vstate -> nat -> res vstate) path' :
    (forall st c, ~ In c path' -> visit1 st c <> OutOfFuel) ->
    forall ks st, fold_kids visit1 path' ks st <> OutOfFuel.
  Proof.
    intros H ks. induction ks as [|c r IH]; intros st; cbn [fold_kids]; [discriminate|].
    destruct (memn c path') eqn:E; [apply IH|].
    apply memn_not_in in E. specialize (H st c E).
    destruct (visit1 st c) as [st1| |]; cbn [rbind]; [apply IH|discriminate|congruence].
  Qed.

  Lemma visit_rec_fuel : forall fuel path st n,
    NoDup path -> valid path -> ~ In n path -> List.length g - List.length path < fuel ->
    vrec fuel path st n <> OutOfFuel.
  Proof.
    induction fuel as [|f IH]; intros path st n Hnd Hv Hn Hf; [lia|].
    cbn [visit_rec]. destruct (nth_error g n) as [[t|]|] eqn:E; try discriminate.
    destruct (single && memn n (snd st)); [discriminate|].
    assert (Hlt : n < List.length g) by (apply nth_error_Some; congruence).
    assert (Hnd' : NoDup (path ++ [n])) by (apply nodup_snoc; assumption).
    assert (Hv' : valid (path ++ [n])) by (apply valid_snoc; assumption).
    pose proof (path_bound _ Hnd' Hv') as Hb. rewrite app_length in Hb. cbn [List.length] in Hb.
    assert (Hk : fold_kids (vrec f (path ++ [n])) (path ++ [n]) (sel_kids (sel (fst st ++ [EIn n]) n)) (fst st ++ [EIn n], snd st)
                 <> OutOfFuel).
    { apply fold_kids_no_oof. intros st0 c Hc. apply IH; try assumption. rewrite app_length. cbn [List.length]. lia. }
    destruct (fold_kids _ _ _ _) as [st2| |]; cbn [rbind]; [discriminate|discriminate|congruence].
  Qed.

  (* C20: the walk terminates on every finite forest graph, cyclic or not, for every visitor
     (whatever its callbacks return) *)
  Theorem visit_terminates root : visit g single sel root <> OutOfFuel.
  Proof.
    unfold visit. apply visit_rec_fuel.
    - constructor.
    - intros x [].
    - intros [].
    - cbn [List.length]. lia.
  Qed.

  (* ... and completes when the callbacks return nodes of the graph *)
  Lemma fold_kids_ok (visit1 : vstate -> nat -> res vstate) path' :
    (forall st c, ~ In c path' -> c < List.length g -> exists st', visit1 st c = Ok st') ->
    forall ks st, (forall c, In c ks -> c < List.length g) -> exists st', fold_kids visit1 path' ks st = Ok st'.
  Proof.
    intros H ks. induction ks as [|c r IH]; intros st Hr; cbn [fold_kids]; [eauto|].
    assert (Hr' : forall c0, In c0 r -> c0 < List.length g) by (intros c0 H0; apply Hr; right; exact H0).
    destruct (memn c path') eqn:E; [apply IH; exact Hr'|].
    apply memn_not_in in E. destruct (H st c E (Hr c (or_introl eq_refl))) as [st1 ->]. cbn [rbind]. apply IH. exact Hr'.
  Qed.

  Lemma visit_rec_ok : (forall tr n c, In c (sel_kids (sel tr n)) -> c < List.length g) ->
    forall fuel path st n,
    NoDup path -> valid path -> ~ In n path -> n < List.length g -> List.length g - List.length path < fuel ->
    exists st', vrec fuel path st n = Ok st'.
  Proof.
    intros Hsel. induction fuel as [|f IH]; intros path st n Hnd Hv Hn Hlt Hf; [lia|].
    cbn [visit_rec]. destruct (nth_error g n) as [[t|]|] eqn:E.
    - eauto.
    - destruct (single && memn n (snd st)); [eauto|].
      assert (Hnd' : NoDup (path ++ [n])) by (apply nodup_snoc; assumption).
      assert (Hv' : valid (path ++ [n])) by (apply valid_snoc; assumption).
      pose proof (path_bound _ Hnd' Hv') as Hb. rewrite app_length in Hb. cbn [List.length] in Hb.
      destruct (fold_kids_ok (vrec f (path ++ [n])) (path ++ [n])) with
        (ks := sel_kids (sel (fst st ++ [EIn n]) n)) (st := (fst st ++ [EIn n], snd st)) as [st2 ->].
      + intros st0 c Hc Hcl. apply IH; try assumption. rewrite app_length. cbn [List.length]. lia.
      + intros c Hc. eapply Hsel. exact Hc.
      + cbn [rbind]. eauto.
    - apply nth_error_None in E. lia.
  Qed.

  Theorem visit_total root :
    (forall tr n c, In c (sel_kids (sel tr n)) -> c < List.length g) -> root < List.length g ->
    exists st, visit g single sel root = Ok st.
  Proof.
    intros Hsel Hr. unfold visit. apply visit_rec_ok; try assumption.
    - constructor.
    - intros x [].
    - intros [].
    - cbn [List.length]. lia.
  Qed.

  (* ---------------------------------------------------------------- declarative reading *)
  (* [dfs path st n st']: visiting [n] below [path] takes state [st] to [st'].
     A returned node is reported by on_cycle iff it is on the current path (K_cycle / K_visit);
     the path handed to on_cycle is the current one. *)
  Inductive dfs : list nat -> vstate -> nat -> vstate -> Prop :=
  | D_tok path st n t : nth_error g n = Some (VTok t) -> dfs path st n (fst st ++ [ETok t], snd st)
  | D_skip path st n : nth_error g n = Some VInner -> single = true -> In n (snd st) -> dfs path st n st
  | D_node path st n st2 :
      nth_error g n = Some VInner -> (single = false \/ ~ In n (snd st)) ->
      dfs_kids (path ++ [n]) (fst st ++ [EIn n], snd st) (sel_kids (sel (fst st ++ [EIn n]) n)) st2 ->
      dfs path st n (fst st2 ++ [EOut n], n :: snd st2)
  with dfs_kids : list nat -> vstate -> list nat -> vstate -> Prop :=
  | K_nil path st : dfs_kids path st [] st
  | K_cycle path st c ks st' :
      In c path -> dfs_kids path (fst st ++ [ECycle c path], snd st) ks st' -> dfs_kids path st (c :: ks) st'
  | K_visit path st c ks st1 st' :
      ~ In c path -> dfs path st c st1 -> dfs_kids path st1 ks st' -> dfs_kids path st (c :: ks) st'.

  Scheme dfs_mind := Minimality for dfs Sort Prop
    with dfs_kids_mind := Minimality for dfs_kids Sort Prop.
  Combined Scheme dfs_mutind from dfs_mind, dfs_kids_mind.

  Lemma skip_cond n (vis : list nat) :
    single && memn n vis = true <-> single = true /\ In n vis.
  Proof. rewrite andb_true_iff, memn_in. reflexivity. Qed.

  Lemma fold_kids_sound (visit1 : vstate -> nat -> res vstate) path' :
    (forall st c st', visit1 st c = Ok st' -> dfs path' st c st') ->
    forall ks st st', fold_kids visit1 path' ks st = Ok st' -> dfs_kids path' st ks st'.
  Proof.
    intros H ks. induction ks as [|c r IH]; intros st st'; cbn [fold_kids].
    - intros [= <-]. constructor.
    - destruct (memn c path') eqn:E.
      + intros Hk. apply K_cycle; [apply memn_in; exact E|]. apply IH. exact Hk.
      + destruct (visit1 st c) as [st1| |] eqn:E1; cbn [rbind]; try discriminate.
        intros Hk. eapply K_visit; [apply memn_not_in; exact E|apply H; exact E1|apply IH; exact Hk].
  Qed.

  (* the executable model satisfies the declarative reading *)
  Theorem visit_rec_sound : forall fuel path st n st', vrec fuel path st n = Ok st' -> dfs path st n st'.
  Proof.
    induction fuel as [|f IH]; intros path st n st'; cbn [visit_rec]; [discriminate|].
    destruct (nth_error g n) as [[t|]|] eqn:E; try discriminate.
    - intros [= <-]. apply D_tok. exact E.
    - destruct (single && memn n (snd st)) eqn:Es.
      + intros [= <-]. apply skip_cond in Es. destruct Es. apply D_skip; assumption.
      + destruct (fold_kids _ _ _ _) as [st2| |] eqn:Ek; cbn [rbind]; try discriminate.
        intros [= <-]. apply D_node; [exact E| |].
        * destruct single; [right|left; reflexivity]. cbn [andb] in Es. apply memn_not_in. exact Es.
        * eapply fold_kids_sound; [|exact Ek]. intros st0 c st0' H0. apply (IH _ _ _ _ H0).
  Qed.

  (* ... and conversely, with enough fuel, computes every walk the reading allows: the
     reading determines the trace *)
  Lemma dfs_complete_aux :
    (forall path st n st', dfs path st n st' ->
       forall fuel, NoDup path -> valid path -> ~ In n path -> List.length g - List.length path < fuel ->
       vrec fuel path st n = Ok st') /\
    (forall path st ks st', dfs_kids path st ks st' ->
       forall f, NoDup path -> valid path -> List.length g - List.length path < f ->
       fold_kids (vrec f path) path ks st = Ok st').
  Proof.
    apply dfs_mutind.
    - intros path st n t E fuel _ _ _ Hf. destruct fuel as [|f]; [lia|]. cbn [visit_rec]. rewrite E. reflexivity.
    - intros path st n E Hs Hin fuel _ _ _ Hf. destruct fuel as [|f]; [lia|]. cbn [visit_rec]. rewrite E.
      assert (Hc : single && memn n (snd st) = true) by (apply skip_cond; auto). rewrite Hc. reflexivity.
    - intros path st n st2 E Hs _ IH fuel Hnd Hv Hn Hf. destruct fuel as [|f]; [lia|]. cbn [visit_rec]. rewrite E.
      assert (Hc : single && memn n (snd st) = false).
      { destruct Hs as [->|Hs]; [reflexivity|]. apply memn_not_in in Hs. rewrite Hs. apply andb_false_r. }
      rewrite Hc.
      assert (Hlt : n < List.length g) by (apply nth_error_Some; congruence).
      assert (Hnd' : NoDup (path ++ [n])) by (apply nodup_snoc; assumption).
      assert (Hv' : valid (path ++ [n])) by (apply valid_snoc; assumption).
      pose proof (path_bound _ Hnd' Hv') as Hb. rewrite app_length in Hb. cbn [List.length] in Hb.
      rewrite (IH f Hnd' Hv'); [reflexivity|]. rewrite app_length. cbn [List.length]. lia.
    - intros path st f _ _ _. reflexivity.
    - intros path st c ks st' Hc _ IH f Hnd Hv Hf. cbn [fold_kids].
      apply memn_in in Hc. rewrite Hc. apply IH; assumption.
    - intros path st c ks st1 st' Hc _ IH1 _ IH2 f Hnd Hv Hf. cbn [fold_kids].
      pose proof Hc as Hc'. apply memn_not_in in Hc'. rewrite Hc'.
      rewrite (IH1 f Hnd Hv Hc Hf). cbn [rbind]. apply IH2; assumption.
  Qed.

  (* C20: on_cycle is called exactly on the returned nodes that lie on the current path, with
     that path: the walk computed by the model is the unique one allowed by [dfs] *)
  Theorem on_cycle_exact root st :
    visit g single sel root = Ok st <-> dfs [] ([], []) root st.
  Proof.
    unfold visit. split.
    - apply visit_rec_sound.
    - intros H. apply (proj1 dfs_complete_aux _ _ _ _ H).
      + constructor.
      + intros x [].
      + intros [].
      + cbn [List.length]. lia.
  Qed.

  (* cycle callbacks in the trace are sound: the node is on the path passed along, that path
     extends the path at the start of the walk, and it never contains a node twice *)
  Lemma dfs_cycles_sound :
    (forall path st n st', dfs path st n st' -> NoDup path -> ~ In n path ->
       exists evs, fst st' = fst st ++ evs /\
         forall c p, In (ECycle c p) evs -> In c p /\ NoDup p /\ exists q, p = path ++ q) /\
    (forall path st ks st', dfs_kids path st ks st' -> NoDup path ->
       exists evs, fst st' = fst st ++ evs /\
         forall c p, In (ECycle c p) evs -> In c p /\ NoDup p /\ exists q, p = path ++ q).
  Proof.
    apply dfs_mutind.
    - intros path st n t _ _ _. exists [ETok t]. split; [reflexivity|]. intros c p [H|[]]. discriminate.
    - intros path st n _ _ _ _ _. exists []. split; [rewrite app_nil_r; reflexivity|]. intros c p [].
    - intros path st n st2 _ _ _ IH Hnd Hn.
      destruct (IH (nodup_snoc _ _ Hnd Hn)) as [evs [He Hc]]. cbn [fst] in He.
      exists ([EIn n] ++ evs ++ [EOut n]). cbn [fst]. split.
      + rewrite He. rewrite <- !app_assoc. reflexivity.
      + intros c p Hin. apply in_app_or in Hin. destruct Hin as [[H|[]]|Hin]; [discriminate|].
        apply in_app_or in Hin. destruct Hin as [Hin|[H|[]]]; [|discriminate].
        destruct (Hc c p Hin) as [H1 [H2 [q ->]]]. split; [exact H1|]. split; [exact H2|].
        exists ([n] ++ q). rewrite app_assoc. reflexivity.
    - intros path st _. exists []. split; [rewrite app_nil_r; reflexivity|]. intros c p [].
    - intros path st c ks st' Hc _ IH Hnd. destruct (IH Hnd) as [evs [He Hcs]]. cbn [fst] in He.
      exists ([ECycle c path] ++ evs). split; [rewrite He, <- app_assoc; reflexivity|].
      intros c0 p Hin. apply in_app_or in Hin. destruct Hin as [[H|[]]|Hin]; [|apply Hcs; exact Hin].
      injection H as <- <-. split; [exact Hc|]. split; [exact Hnd|]. exists []. rewrite app_nil_r. reflexivity.
    - intros path st c ks st1 st' Hc _ IH1 _ IH2 Hnd.
      destruct (IH1 Hnd Hc) as [e1 [He1 Hc1]]. destruct (IH2 Hnd) as [e2 [He2 Hc2]].
      exists (e1 ++ e2). split; [rewrite He2, He1, <- app_assoc; reflexivity|].
      intros c0 p Hin. apply in_app_or in Hin. destruct Hin; [apply Hc1|apply Hc2]; assumption.
  Qed.

  Theorem cycle_events_sound root st c p :
    visit g single sel root = Ok st -> In (ECycle c p) (fst st) -> In c p /\ NoDup p.
  Proof.
    intros H Hin. apply on_cycle_exact in H.
    destruct (proj1 dfs_cycles_sound _ _ _ _ H (NoDup_nil _) (fun x => x)) as [evs [He Hc]].
    cbn [fst app] in He. rewrite He in Hin. destruct (Hc c p Hin) as [H1 [H2 _]]. auto.
  Qed.

  (* ---------------------------------------------------------------- the coded loop *)
  Inductive steps : lstate -> lstate -> Prop :=
  | steps_refl s : steps s s
  | steps_step s s1 s2 : step g single sel s = Running s1 -> steps s1 s2 -> steps s s2.

  Lemma steps_trans s1 s2 s3 : steps s1 s2 -> steps s2 s3 -> steps s1 s3.
  Proof. induction 1; intros H3; [exact H3|]. eapply steps_step; [eassumption|]. auto. Qed.

  Lemma steps_one s s1 : step g single sel s = Running s1 -> steps s s1.
  Proof. intros H. eapply steps_step; [exact H|apply steps_refl]. Qed.

  Lemma loop_simulates :
    (forall path st n st', dfs path st n st' -> ~ In n path ->
       forall stk, steps (mkL (FNode n :: stk) path (snd st) (fst st)) (mkL stk path (snd st') (fst st'))) /\
    (forall path st ks st', dfs_kids path st ks st' ->
       (* the callback returned an iterable: an iterator frame on the stack *)
       (forall stk, steps (mkL (FIter ks :: stk) path (snd st) (fst st)) (mkL stk path (snd st') (fst st'))) /\
       (* it returned a single node: checked against `visiting` at once and pushed itself *)
       (forall c, ks = [c] -> forall stk,
          steps (if memn c path then mkL stk path (snd st) (fst st ++ [ECycle c path])
                 else mkL (FNode c :: stk) path (snd st) (fst st))
                (mkL stk path (snd st') (fst st')))).
  Proof.
    apply dfs_mutind.
    - intros path st n t E _ stk. apply steps_one. unfold step. cbn [l_stack]. rewrite E. reflexivity.
    - intros path st n E Hs Hin Hn stk. apply steps_one. unfold step. cbn [l_stack l_path l_visited]. rewrite E.
      apply memn_not_in in Hn. rewrite Hn.
      assert (Hc : single && memn n (snd st) = true) by (apply skip_cond; auto). rewrite Hc. reflexivity.
    - intros path st n st2 E Hs _ IH Hn stk.
      assert (Hc : single && memn n (snd st) = false).
      { destruct Hs as [->|Hs]; [reflexivity|]. apply memn_not_in in Hs. rewrite Hs. apply andb_false_r. }
      pose proof Hn as Hn'. apply memn_not_in in Hn'.
      assert (Hout : steps (mkL (FNode n :: stk) (path ++ [n]) (snd st2) (fst st2))
                           (mkL stk path (n :: snd st2) (fst st2 ++ [EOut n]))).
      { apply steps_one. unfold step. cbn [l_stack l_path l_visited l_trace fst snd]. rewrite E.
        assert (Hm : memn n (path ++ [n]) = true) by (apply memn_in; apply in_or_app; right; left; reflexivity).
        rewrite Hm, removelast_last. reflexivity. }
      destruct (sel (fst st ++ [EIn n]) n) as [ks|c] eqn:Es; cbn [sel_kids] in IH.
      + eapply steps_step.
        { unfold step. cbn [l_stack l_path l_visited l_trace]. rewrite E, Hn', Hc. cbv zeta. rewrite Es. reflexivity. }
        eapply steps_trans; [apply (proj1 IH (FNode n :: stk))|exact Hout].
      + pose proof (proj2 IH c eq_refl (FNode n :: stk)) as H2. cbn [fst snd] in H2.
        destruct (memn c (path ++ [n])) eqn:Em.
        * eapply steps_step.
          { unfold step. cbn [l_stack l_path l_visited l_trace]. rewrite E, Hn', Hc. cbv zeta. rewrite Es, Em. reflexivity. }
          eapply steps_trans; [exact H2|exact Hout].
        * eapply steps_step.
          { unfold step. cbn [l_stack l_path l_visited l_trace]. rewrite E, Hn', Hc. cbv zeta. rewrite Es, Em. reflexivity. }
          eapply steps_trans; [exact H2|exact Hout].
    - intros path st. split.
      + intros stk. apply steps_one. reflexivity.
      + intros c E. discriminate.
    - intros path st c ks st' Hc Hk IH. split.
      + intros stk. eapply steps_step; [|apply (proj1 IH)].
        unfold step. cbn [l_stack l_path]. apply memn_in in Hc. rewrite Hc. reflexivity.
      + intros c0 E stk. injection E as <- ->. apply memn_in in Hc. rewrite Hc.
        inversion Hk; subst. cbn [fst snd]. apply steps_refl.
    - intros path st c ks st1 st' Hc Hd IH1 Hk IH2. split.
      + intros stk. eapply steps_step.
        { unfold step. cbn [l_stack l_path]. pose proof Hc as Hc'. apply memn_not_in in Hc'. rewrite Hc'. reflexivity. }
        eapply steps_trans; [apply IH1; exact Hc|apply (proj1 IH2)].
      + intros c0 E stk. injection E as <- ->. pose proof Hc as Hc'. apply memn_not_in in Hc'. rewrite Hc'.
        inversion Hk; subst. apply IH1. exact Hc.
  Qed.

  Lemma steps_run s s' : steps s s' -> l_stack s' = [] ->
    exists fuel, run_loop g single sel fuel s = Ok s'.
  Proof.
    induction 1 as [s|s s1 s2 Hs _ IH]; intros He.
    - exists 1. cbn [run_loop]. unfold step. rewrite He. reflexivity.
    - destruct (IH He) as [fuel Hf]. exists (S fuel). cbn [run_loop]. rewrite Hs. exact Hf.
  Qed.

  (* C20 (stretch): the coded explicit-stack loop (input_stack of nodes and iterators, visiting,
     visited, path) terminates with the callback trace and visited set of the recursive model *)
  Theorem loop_eq_rec root st :
    visit g single sel root = Ok st -> exists fuel, visit_loop g single sel fuel root = Ok st.
  Proof.
    intros H. apply on_cycle_exact in H.
    pose proof (proj1 loop_simulates _ _ _ _ H (fun x => x) []) as Hs. cbn [fst snd] in Hs.
    destruct (steps_run _ _ Hs eq_refl) as [fuel Hf]. exists fuel. unfold visit_loop. rewrite Hf.
    cbn [rbind l_trace l_visited]. destruct st; reflexivity.
  Qed.

  Lemma run_loop_mono fuel : forall s s', run_loop g single sel fuel s = Ok s' ->
    forall fuel', fuel <= fuel' -> run_loop g single sel fuel' s = Ok s'.
  Proof.
    induction fuel as [|f IH]; intros s s' H fuel' Hle; [discriminate|].
    destruct fuel' as [|f']; [lia|]. cbn [run_loop] in *.
    destruct (step g single sel s); try exact H. apply IH; [exact H|lia].
  Qed.
End Proofs.
