(* C04 layer A for the dynamic lexers - what a packed family must look like, locally, for the stored trees to spell the
   input, over the position graph of the text:
     tokedge t i j : terminal t matches the text between i and j (an element of Dyn.ends_of t i)
     ign i j       : some %ignore terminal matches between i and j (Dyn.scan_ignore)
   Differences to the basic parser (ExplicitBuild.fam_ok): ignored text may stand before the first child of a rule
   (ptr = 0 items are carried without a node) and after any child (carried nodes are copied to a later end position).
   Token leaves carry their span.  Definitions only; proofs in ExplicitDynBuild_proofs.v. *)
From Coq Require Import List Arith Bool.
From LV Require Import Cfg.Grammar Forest.ExplicitBuild.
Import ListNotations.

Definition span := (nat * nat)%type.

Section DynSound.
  Variable G : grammar.
  Variable tokedge : nat -> nat -> nat -> Prop.
  Variable ign : nat -> nat -> Prop.

  (* a path of ignored matches *)
  Inductive gap : nat -> nat -> Prop :=
  | gap_refl i : gap i i
  | gap_step i m j : ign i m -> gap m j -> gap i j.

  Notation lab := (nlabel span).
  Notation fami := (family span).

  Definition dchild_ok (s : symbol) (rn : lab) (m e : nat) : Prop :=
    match s with
    | T t => rn = NTok span t (m, e) m e /\ tokedge t m e
    | NT a => rn = NSym span a m e
    end.

  Inductive dfam_ok : lab -> fami -> Prop :=
  | dok_empty r k j : In r G -> rhs r = [] -> gap k j -> dfam_ok (NSym span (lhs r) k j) (r, None, None)
  | dok_first r s rn i m e j : In r G -> nth_error (rhs r) 0 = Some s -> gap i m -> dchild_ok s rn m e -> gap e j ->
      dfam_ok (ilabel span r 1 i j) (r, None, Some rn)
  | dok_next r d s rn i m e j : In r G -> 1 <= d -> nth_error (rhs r) d = Some s -> dchild_ok s rn m e -> gap e j ->
      dfam_ok (ilabel span r (S d) i j) (r, Some (NInter span r d i m), Some rn).

  (* token spans and ignore paths tile the text between i and j *)
  Inductive gtiles : nat -> nat -> list span -> Prop :=
  | gt_nil i j : gap i j -> gtiles i j []
  | gt_cons i m e j u : gap i m -> (exists t, tokedge t m e) -> gtiles e j u -> gtiles i j ((m, e) :: u).

  Inductive dwfd : dt span -> symbol -> Prop :=
  | dwfd_leaf t m e : tokedge t m e -> dwfd (DL span t (m, e)) (T t)
  | dwfd_node r ks : In r G -> Forall2 dwfd ks (rhs r) -> dwfd (DN span r ks) (NT (lhs r)).

  Definition dsound (lbl : lab) (ds : list (dt span)) : Prop :=
    match lbl with
    | NSym _ a i j => exists d, ds = [d] /\ dwfd d (NT a) /\ gtiles i j (yield span d)
    | NInter _ r d i j => In r G /\ Forall2 dwfd ds (firstn d (rhs r)) /\ gtiles i j (yields span ds)
    | NTok _ t x i j => ds = [DL span t x]
    end.
End DynSound.

(* ---- the log of the instrumented model (lexemes are numbers there) with spans at the token leaves ---- *)
Definition span_label (l : nlabel nat) : nlabel span :=
  match l with
  | NSym _ a i j => NSym span a i j
  | NInter _ r d i j => NInter span r d i j
  | NTok _ t _ i j => NTok span t (i, j) i j
  end.
Definition span_fam (f : nlabel nat * family nat) : nlabel span * family span :=
  let '(l, (r, a, b)) := f in (span_label l, (r, option_map span_label a, option_map span_label b)).

(* decidable version over finite tables: te = [(t, i, j)], ig = [(i, j)] *)
Section Check.
  Variable G : grammar.
  Variable te : list (nat * nat * nat).
  Variable ig : list (nat * nat).

  Definition tokedge_b (t i j : nat) : bool :=
    existsb (fun p => Nat.eqb (fst (fst p)) t && Nat.eqb (snd (fst p)) i && Nat.eqb (snd p) j) te.
  Definition ign_b (i j : nat) : bool := existsb (fun p => Nat.eqb (fst p) i && Nat.eqb (snd p) j) ig.
  Definition tokedge_t (t i j : nat) : Prop := tokedge_b t i j = true.
  Definition ign_t (i j : nat) : Prop := ign_b i j = true.

  (* reachability by ignore edges, fuel = number of edges *)
  Fixpoint gap_b (fuel i j : nat) : bool :=
    Nat.eqb i j ||
    match fuel with
    | 0 => false
    | S f => existsb (fun p => if Nat.eqb (fst p) i then gap_b f (snd p) j else false) ig
    end.
  Definition gapb (i j : nat) : bool := gap_b (length ig) i j.

  Definition mem_rule_b (r : rule) : bool := existsb (fun r' => if rule_eq_dec r r' then true else false) G.

  (* Some (i, j) iff lbl = ilabel r d i j *)
  Definition is_ilabel_n (lbl : nlabel nat) (r : rule) (d : nat) : option (nat * nat) :=
    match lbl with
    | NSym _ a i j => if Nat.eqb d (length (rhs r)) && Nat.eqb a (lhs r) then Some (i, j) else None
    | NInter _ r0 d0 i j =>
        if (if rule_eq_dec r0 r then true else false) && Nat.eqb d0 d && negb (Nat.eqb d (length (rhs r)))
        then Some (i, j) else None
    | NTok _ _ _ _ _ => None
    end.

  (* the child for symbol s, returning its span *)
  Definition dchild_b (s : symbol) (rn : nlabel nat) : option (nat * nat) :=
    match s, rn with
    | T t, NTok _ t' _ m e => if Nat.eqb t t' && tokedge_b t m e then Some (m, e) else None
    | NT a, NSym _ a' m e => if Nat.eqb a a' then Some (m, e) else None
    | _, _ => None
    end.

  Definition dfam_okb (f : nlabel nat * family nat) : bool :=
    let '(lbl, (r, l, rt)) := f in
    mem_rule_b r &&
    match l, rt with
    | None, None =>
        match rhs r, lbl with
        | [], NSym _ a k j => Nat.eqb a (lhs r) && gapb k j
        | _, _ => false
        end
    | None, Some rn =>
        match nth_error (rhs r) 0, is_ilabel_n lbl r 1 with
        | Some s, Some (i, j) =>
            match dchild_b s rn with Some (m, e) => gapb i m && gapb e j | None => false end
        | _, _ => false
        end
    | Some (NInter _ r' d i m), Some rn =>
        (if rule_eq_dec r' r then true else false) && Nat.leb 1 d &&
        match nth_error (rhs r) d, is_ilabel_n lbl r (S d) with
        | Some s, Some (i', j) =>
            Nat.eqb i' i &&
            match dchild_b s rn with Some (m', e) => Nat.eqb m' m && gapb e j | None => false end
        | _, _ => false
        end
    | _, _ => false
    end.
End Check.
