(* C04 layer A - soundness of the forest: if every family is locally of the form the parser's add_family calls
   produce, every derivation stored below a node is a derivation of that node's symbol over that node's span. *)
From Coq Require Import List Arith Bool Lia.
From LV Require Import Cfg.Grammar Earley.Spec Forest.ExplicitBuild.
Import ListNotations.

Section Proofs.
  Variable G : grammar.
  Variable tok : Type.
  Variable tmatch : nat -> tok -> bool.
  Variable tlen : tok -> nat.
  Variable occurs : tok -> nat -> bool.

  Notation nlabel := (nlabel tok).
  Notation family := (family tok).
  Notation fam_ok := (fam_ok G tok tmatch tlen occurs).
  Notation fam_okb := (fam_okb G tok tmatch tlen occurs).
  Notation wfd := (wfd G tok tmatch).
  Notation tiles := (tiles tok tlen occurs).
  Notation sound := (sound G tok tmatch tlen occurs).
  Notation dt := (dt tok).

  Lemma yield_DN r (ks : list dt) : yield tok (DN tok r ks) = yields tok ks.
  Proof. simpl. unfold yields. induction ks; simpl; auto. Qed.

  Lemma tiles_app i m j u v : tiles i m u -> tiles m j v -> tiles i j (u ++ v).
  Proof. induction 1; simpl; auto. intros. constructor; auto. Qed.

  Lemma yields_app (a b : list dt) : yields tok (a ++ b) = yields tok a ++ yields tok b.
  Proof. unfold yields. apply flat_map_app. Qed.

  Lemma firstn_S_nth' {A} (l : list A) d s : nth_error l d = Some s -> firstn (S d) l = firstn d l ++ [s].
  Proof.
    revert d; induction l as [|x l IH]; intros [|d] E; simpl in *; try discriminate.
    - inversion E; auto. - f_equal; auto.
  Qed.

  Lemma nth_error_lt {A} (l : list A) d s : nth_error l d = Some s -> d < length l.
  Proof. intros E. apply nth_error_Some. congruence. Qed.

  Lemma ilabel_cases r d i j :
    (d = length (rhs r) /\ ilabel tok r d i j = NSym tok (lhs r) i j) \/
    (d <> length (rhs r) /\ ilabel tok r d i j = NInter tok r d i j).
  Proof.
    unfold ilabel. destruct (Nat.eqb_spec d (length (rhs r))); [left | right]; auto.
  Qed.

  (* a right child that is sound for symbol s between m and j is one well-formed tree *)
  Lemma child_sound s rn m j ds :
    child_ok tok tmatch tlen occurs s rn m j -> sound rn ds ->
    exists d, ds = [d] /\ wfd d s /\ tiles m j (yield tok d).
  Proof.
    destruct s as [t|a]; simpl.
    - intros (x & -> & Hm & Ho & ->) ->. exists (DL tok t x). repeat split; auto. constructor; auto.
      simpl. constructor; auto. constructor.
    - intros -> (d & -> & Hw & Ht). eauto.
  Qed.

  Section Forest.
    Variable F : nlabel -> family -> Prop.
    Hypothesis F_ok : forall lbl f, F lbl f -> fam_ok lbl f.

    Notation den := (den tok F).
    Notation den_opt := (den_opt tok F).

    Scheme den_mind := Minimality for ExplicitBuild.den Sort Prop
      with den_opt_mind := Minimality for ExplicitBuild.den_opt Sort Prop.

    Definition sound_opt (o : option nlabel) (ds : list dt) : Prop :=
      match o with None => ds = [] | Some l => sound l ds end.

    Theorem A_sound_gen lbl ds : den lbl ds -> sound lbl ds.
    Proof.
      intros H.
      refine (den_mind tok F (fun l ds => sound l ds) sound_opt _ _ _ _ lbl ds H); clear lbl ds H.
      - intros t x i j. reflexivity.
      - intros lbl r l rt ds1 ds2 HF _ H1 _ H2. apply F_ok in HF.
        inversion HF as [r0 k Hin Hr|r0 s rn i j Hin Hn Hc|r0 d s rn i m j Hin Hd Hn Hc]; subst; simpl in H1, H2.
        + subst. simpl. exists (DN tok r []). repeat split; auto.
          * constructor; auto. rewrite Hr. constructor.
          * simpl. constructor.
        + subst ds1. simpl app. destruct (child_sound _ _ _ _ _ Hc H2) as (d0 & -> & Hw & Ht).
          destruct (ilabel_cases r 1 i j) as [(E & ->)|(E & ->)]; simpl.
          * exists (DN tok r [d0]). repeat split; auto.
            -- constructor; auto. destruct (rhs r) as [|s0 [|s1 l0]]; simpl in *; try discriminate. inversion Hn; subst.
               constructor; auto.
            -- rewrite yield_DN. unfold yields. simpl. rewrite app_nil_r. auto.
          * repeat split; auto.
            -- change (Forall2 wfd [d0] (firstn 1 (rhs r))). rewrite (firstn_S_nth' _ _ _ Hn). simpl. constructor; auto.
            -- rewrite app_nil_r. auto.
        + destruct H1 as (_ & HF1 & HT1). destruct (child_sound _ _ _ _ _ Hc H2) as (d0 & -> & Hw & Ht).
          assert (HF2 : Forall2 wfd (ds1 ++ [d0]) (firstn (S d) (rhs r))).
          { rewrite (firstn_S_nth' _ _ _ Hn). apply Forall2_app; auto. }
          assert (HT2 : tiles i j (yields tok (ds1 ++ [d0]))).
          { rewrite yields_app. eapply tiles_app; eauto. unfold yields. simpl. rewrite app_nil_r. auto. }
          destruct (ilabel_cases r (S d) i j) as [(E & ->)|(E & ->)]; simpl.
          * exists (DN tok r (ds1 ++ [d0])). split; [reflexivity|]. split.
            -- constructor; auto. rewrite E, firstn_all in HF2. auto.
            -- rewrite yield_DN. auto.
          * split; [auto|]. split; [exact HF2 | exact HT2].
      - reflexivity.
      - auto.
    Qed.
  End Forest.

  (* ---- well-formed trees are derivations in the sense of Cfg/Grammar ---- *)
  Section DtInd.
    Variable P : dt -> Prop.
    Hypothesis HL : forall t x, P (DL tok t x).
    Hypothesis HN : forall r ks, Forall P ks -> P (DN tok r ks).
    Fixpoint dt_ind2 (d : dt) : P d :=
      match d with
      | DL _ t x => HL t x
      | DN _ r ks => HN r ks ((fix go (ks : list dt) : Forall P ks :=
                                match ks with [] => Forall_nil _ | k :: r => Forall_cons _ (dt_ind2 k) (go r) end) ks)
      end.
  End DtInd.

  Notation derives := (derives G tok tmatch).

  Lemma wfd_derives d : forall s, wfd d s -> derives [s] (yield tok d).
  Proof.
    induction d as [t x|r ks IH] using dt_ind2; intros s H; inversion H; subst.
    - simpl. constructor; auto. constructor.
    - rewrite yield_DN. rewrite <- (app_nil_r (yields tok ks)). econstructor; eauto; [|constructor].
      match goal with Hf : Forall2 _ ks (rhs r) |- _ => revert Hf end. generalize (rhs r). clear -IH.
      induction IH as [|k ks Hk _ IHks]; intros ss Hf; inversion Hf; subst; simpl. constructor.
      change (y :: l') with ([y] ++ l'). apply derives_app; auto.
  Qed.

  (* ---- the boolean checker implies fam_ok ---- *)
  Lemma rule_eqb_eq a b : rule_eqb a b = true -> a = b.
  Proof. unfold rule_eqb. destruct (rule_eq_dec a b); auto; discriminate. Qed.

  Lemma mem_rule_In r : mem_rule G r = true -> In r G.
  Proof.
    unfold mem_rule. rewrite existsb_exists. intros (x & Hx & E). apply rule_eqb_eq in E. subst; auto.
  Qed.

  Lemma is_ilabel_eq lbl r d i j : is_ilabel tok lbl r d = Some (i, j) -> lbl = ilabel tok r d i j.
  Proof.
    unfold is_ilabel, ilabel. destruct lbl as [a i0 j0|r0 d0 i0 j0|]; try discriminate.
    - destruct (Nat.eqb_spec d (length (rhs r))); simpl; try discriminate.
      destruct (Nat.eqb_spec a (lhs r)); simpl; try discriminate. intros E; inversion E; subst; auto.
    - destruct (rule_eqb r0 r) eqn:Er; simpl; try discriminate. apply rule_eqb_eq in Er. subst.
      destruct (Nat.eqb_spec d0 d); simpl; try discriminate. subst.
      destruct (Nat.eqb d (length (rhs r))); simpl; try discriminate. intros E; inversion E; subst; auto.
  Qed.

  Lemma child_okb_ok s rn m j : child_okb tok tmatch tlen occurs s rn m j = true ->
    child_ok tok tmatch tlen occurs s rn m j.
  Proof.
    destruct s as [t|a], rn as [a' i' j'|?|t' x m' j']; simpl; try discriminate.
    - rewrite !andb_true_iff, !Nat.eqb_eq. intros (((((H1 & H2) & H3) & H4) & H5) & H6). subst. exists x. auto.
    - rewrite !andb_true_iff, !Nat.eqb_eq. intros ((H1 & H2) & H3). subst. auto.
  Qed.

  Lemma fam_okb_ok lbl f : fam_okb lbl f = true -> fam_ok lbl f.
  Proof.
    destruct f as [[r l] rt]. unfold ExplicitBuild.fam_okb. rewrite andb_true_iff. intros (Hm & H).
    apply mem_rule_In in Hm. destruct l as [ln|], rt as [rn|]; try discriminate.
    - destruct ln as [|r' d i m|]; try discriminate.
      rewrite !andb_true_iff in H. destruct H as ((Hr & Hd) & H). apply rule_eqb_eq in Hr. subst r'.
      apply Nat.leb_le in Hd.
      destruct (nth_error (rhs r) d) as [s|] eqn:En; try discriminate.
      destruct (is_ilabel tok lbl r (S d)) as [[i' j]|] eqn:El; try discriminate.
      rewrite andb_true_iff, Nat.eqb_eq in H. destruct H as (-> & Hc).
      apply is_ilabel_eq in El. subst lbl. eapply ok_next; eauto. apply child_okb_ok; auto.
    - destruct ln; discriminate.
    - destruct (nth_error (rhs r) 0) as [s|] eqn:En; try discriminate.
      destruct (is_ilabel tok lbl r 1) as [[i j]|] eqn:El; try discriminate.
      apply is_ilabel_eq in El. subst lbl. eapply ok_first; eauto. apply child_okb_ok; auto.
    - destruct (rhs r) eqn:Er; try discriminate. destruct lbl as [a i j| |]; try discriminate.
      rewrite andb_true_iff, !Nat.eqb_eq in H. destruct H as (-> & ->). apply ok_empty; auto.
  Qed.

  Notation in_forest := (in_forest tok).
  Notation forest_okb := (forest_okb G tok tmatch tlen occurs).

  Theorem A_sound fams : forest_okb fams = true ->
    forall lbl ds, den tok (in_forest fams) lbl ds -> sound lbl ds.
  Proof.
    intros H. apply A_sound_gen. intros lbl f Hin. apply fam_okb_ok.
    unfold ExplicitBuild.forest_okb in H. rewrite forallb_forall in H. apply (H (lbl, f)); auto.
  Qed.

  (* every tree stored below a symbol node (a, i, j) is a derivation of a whose yield tiles i..j *)
  Corollary A_sound_root fams a i j ds : forest_okb fams = true ->
    den tok (in_forest fams) (NSym tok a i j) ds ->
    exists d, ds = [d] /\ derives [NT a] (yield tok d) /\ tiles i j (yield tok d).
  Proof.
    intros H Hd. destruct (A_sound fams H _ _ Hd) as (d & -> & Hw & Ht). exists d. repeat split; auto.
    apply wfd_derives; auto.
  Qed.
End Proofs.

(* ---- the families the parser adds, over the chart of Earley/Spec (token positions: every lexeme has length 1) ---- *)
Section Chart.
  Variable G : grammar.
  Variable tok : Type.
  Variable tmatch : nat -> tok -> bool.
  Variable w : list tok.
  Variable start : nat.
  Variable occurs : tok -> nat -> bool.
  Hypothesis occurs_spec : forall x i, occurs x i = true <-> nth_error w i = Some x.

  Notation chart := (chart G tok tmatch w start).
  Notation nlabel := (nlabel tok).
  Notation family := (family tok).
  Definition tlen1 (x : tok) : nat := 1.

  (* item.node: None for ptr = 0, else the node labelled ((rule, ptr), start, column) *)
  Definition inode (r : rule) (d j k : nat) : option nlabel :=
    match d with 0 => None | S _ => Some (NInter tok r d j k) end.

  (* the add_family calls of earley.py, one constructor per call site:
     completer on an empty completed item; scanner; completer (and the predictor's use of a held completion,
     which is the case i = k) *)
  Inductive added : nlabel -> family -> Prop :=
  | add_empty k r : chart k (mkItem r 0 k) -> rhs r = [] -> added (NSym tok (lhs r) k k) (r, None, None)
  | add_scan k r d j t x : chart k (mkItem r d j) -> nth_error (rhs r) d = Some (T t) ->
      nth_error w k = Some x -> tmatch t x = true ->
      added (ilabel tok r (S d) j (S k)) (r, inode r d j k, Some (NTok tok t x k (S k)))
  | add_comp k r d j a r' i : chart i (mkItem r d j) -> nth_error (rhs r) d = Some (NT a) ->
      chart k (mkItem r' (length (rhs r')) i) -> lhs r' = a ->
      added (ilabel tok r (S d) j k) (r, inode r d j i, Some (NSym tok a i k)).

  Lemma chart_dot0 k it : chart k it -> dot it = 0 -> orig it = k.
  Proof. induction 1; simpl; intros; auto; discriminate. Qed.

  Theorem A_added_ok lbl f : added lbl f -> fam_ok G tok tmatch tlen1 occurs lbl f.
  Proof.
    intros H. destruct H as [k r Hc Hr|k r d j t x Hc Hn Hw Hm|k r d j a r' i Hc Hn Hc' Hl].
    - apply ok_empty; auto. apply (chart_in_G _ _ _ _ _ _ _ Hc).
    - pose proof (chart_in_G _ _ _ _ _ _ _ Hc) as Hin. simpl in Hin.
      assert (Hch : child_ok tok tmatch tlen1 occurs (T t) (NTok tok t x k (S k)) k (S k)).
      { simpl. exists x. repeat split; auto. apply occurs_spec; auto. unfold tlen1; lia. }
      destruct d as [|d']; simpl inode.
      + pose proof (chart_dot0 _ _ Hc eq_refl) as E. simpl in E. subst j. eapply ok_first; eauto.
      + eapply ok_next; eauto. lia.
    - pose proof (chart_in_G _ _ _ _ _ _ _ Hc) as Hin. simpl in Hin.
      destruct d as [|d']; simpl inode.
      + pose proof (chart_dot0 _ _ Hc eq_refl) as E. simpl in E. subst j. eapply ok_first; eauto. simpl. auto.
      + eapply ok_next; eauto. lia. simpl. auto.
  Qed.

  (* every derivation stored in the forest built over the chart - finite unfoldings, so also for cyclic
     grammars - is a derivation of its node's symbol over its node's span *)
  Theorem A_sound_chart lbl ds : den tok added lbl ds -> sound G tok tmatch tlen1 occurs lbl ds.
  Proof. apply A_sound_gen. apply A_added_ok. Qed.

  (* tiling with unit lexemes is the span of Earley/Spec *)
  Lemma span_cons_inv i j x u : nth_error w i = Some x -> span tok w (S i) j u -> span tok w i j (x :: u).
  Proof.
    intros Hn (p & s & E & L1 & L2).
    assert (Hp : p <> []) by (intros ->; simpl in L1; lia).
    pose proof (app_removelast_last x Hp) as Ep.
    assert (Hl : length (removelast p) = i).
    { rewrite Ep in L1. rewrite app_length in L1. simpl in L1. lia. }
    assert (Ex : last p x = x).
    { rewrite E in Hn. rewrite nth_error_app1 in Hn by lia. rewrite Ep in Hn.
      rewrite nth_error_app2 in Hn by lia. rewrite Hl, Nat.sub_diag in Hn. simpl in Hn. congruence. }
    exists (removelast p), s. repeat split; auto.
    - rewrite E. rewrite Ep at 1. rewrite Ex. rewrite <- app_assoc. reflexivity.
    - simpl. lia.
  Qed.

  Lemma tiles_span i j u : tiles tok tlen1 occurs i j u -> i <= length w -> span tok w i j u.
  Proof.
    induction 1 as [i|x i j u Ho Ht IH]; intros Hi.
    - apply span_nil; auto.
    - apply occurs_spec in Ho. assert (i < length w) by (apply nth_error_Some; congruence).
      apply span_cons_inv; auto. unfold tlen1 in IH. replace (S i) with (i + 1) by lia. apply IH. lia.
  Qed.

  Theorem A_sound_sentence ds : den tok added (NSym tok start 0 (length w)) ds ->
    exists d, ds = [d] /\ yield tok d = w /\ derives G tok tmatch [NT start] w.
  Proof.
    intros H. apply A_sound_chart in H. destruct H as (d & -> & Hw & Ht).
    apply tiles_span in Ht; [|lia]. destruct Ht as (p & s & E0 & L1 & L2).
    assert (E : yield tok d = w).
    { destruct p; [|discriminate]. simpl in *. rewrite E0 in L2. rewrite app_length in L2.
      destruct s; [|simpl in L2; lia]. rewrite app_nil_r in E0. auto. }
    exists d. repeat split; auto. pose proof (wfd_derives _ _ _ _ _ Hw) as Hd. rewrite E in Hd. exact Hd.
  Qed.

  (* ---- completeness of the forest built over the chart ---- *)
  Notation wfd := (wfd G tok tmatch).
  Notation tiles := (tiles tok tlen1 occurs).
  Notation den := (den tok added).
  Notation den_opt := (den_opt tok added).

  Definition expects (i a : nat) : Prop :=
    (exists r0 d0 j0, chart i (mkItem r0 d0 j0) /\ nth_error (rhs r0) d0 = Some (NT a)) \/ (a = start /\ i = 0).

  Lemma expects_pred i a r : expects i a -> In r G -> lhs r = a -> chart i (mkItem r 0 i).
  Proof.
    intros [(r0 & d0 & j0 & Hc & Hn)|(-> & ->)] Hin Hl.
    - eapply c_pred; eauto.
    - apply c_init; auto.
  Qed.

  Lemma skipn_S_cons {A} n : forall (l : list A) s r, skipn n l = s :: r -> skipn (S n) l = r.
  Proof.
    induction n as [|n IH]; intros [|x l] s r E; simpl in *; try discriminate.
    - inversion E; auto. - apply (IH l s r); auto.
  Qed.

  Lemma chart_dot_le k it : chart k it -> dot it <= length (rhs (irule it)).
  Proof.
    induction 1; simpl in *; try lia.
    - assert (d < length (rhs r)) by (apply nth_error_Some; congruence). lia.
    - assert (d < length (rhs r)) by (apply nth_error_Some; congruence). lia.
  Qed.

  Lemma tiles_split u : forall i j v, tiles i j (u ++ v) -> exists m, tiles i m u /\ tiles m j v.
  Proof.
    induction u as [|x u IH]; simpl; intros i j v H.
    - exists i; split; auto. constructor.
    - inversion H; subst. destruct (IH _ _ _ H5) as (m & H1 & H2). exists m; split; auto. constructor; auto.
  Qed.

  Lemma tiles_nil_eq i j : tiles i j [] -> i = j.
  Proof. inversion 1; auto. Qed.

  Lemma den_opt_inode r dd i m pre :
    dd < length (rhs r) -> length pre = dd ->
    (1 <= dd -> den (ilabel tok r dd i m) (pack tok (ilabel tok r dd i m) r pre)) ->
    den_opt (inode r dd i m) pre.
  Proof.
    intros Hlt Hlen H. destruct dd as [|dd']; simpl.
    - destruct pre; [constructor | discriminate].
    - constructor. specialize (H ltac:(lia)). unfold ilabel in H.
      destruct (Nat.eqb_spec (S dd') (length (rhs r))); [lia|]. simpl in H. exact H.
  Qed.

  (* what completeness says about one derivation tree *)
  Definition CT (d : dt tok) : Prop :=
    forall a i j, wfd d (NT a) -> tiles i j (yield tok d) -> expects i a ->
    exists r ks, d = DN tok r ks /\ chart j (mkItem r (length (rhs r)) i) /\ den (NSym tok a i j) [d].

  Lemma steps r i : In r G ->
    forall post pre m j,
      Forall CT post ->
      Forall2 wfd post (skipn (length pre) (rhs r)) ->
      tiles m j (yields tok post) ->
      chart m (mkItem r (length pre) i) ->
      (length pre = 0 -> m = i) ->
      (1 <= length pre -> den (ilabel tok r (length pre) i m) (pack tok (ilabel tok r (length pre) i m) r pre)) ->
      chart j (mkItem r (length (rhs r)) i) /\ den (NSym tok (lhs r) i j) [DN tok r (pre ++ post)].
  Proof.
    intros Hin post. induction post as [|k post IH]; intros pre m j HC HF Ht Hch H0 Hden.
    - (* all children consumed *)
      assert (E : skipn (length pre) (rhs r) = []) by (inversion HF; auto).
      assert (Hlen : length (rhs r) <= length pre).
      { assert (E2 : length (skipn (length pre) (rhs r)) = 0) by (rewrite E; auto). rewrite skipn_length in E2. lia. }
      pose proof (chart_dot_le _ _ Hch) as Hle. simpl in Hle.
      apply tiles_nil_eq in Ht. subst j. rewrite app_nil_r.
      assert (Eq : length pre = length (rhs r)) by lia.
      rewrite <- Eq. split; auto.
      destruct (length pre) as [|dd'] eqn:El.
      + (* empty rule *)
        destruct pre; [|discriminate]. rewrite (H0 eq_refl) in *.
        assert (Hr : rhs r = []) by (destruct (rhs r); auto; discriminate).
        change [DN tok r []] with (pack tok (NSym tok (lhs r) i i) r ([] ++ [])).
        eapply den_fam; [apply add_empty; auto | constructor | constructor].
      + specialize (Hden ltac:(lia)). unfold ilabel in Hden. rewrite Eq, Nat.eqb_refl in Hden. exact Hden.
    - (* one more child *)
      destruct (skipn (length pre) (rhs r)) as [|s srest] eqn:Es; inversion HF as [|? ? ? ? Hk HF']; subst.
      assert (Hn : nth_error (rhs r) (length pre) = Some s).
      { rewrite <- (firstn_skipn (length pre) (rhs r)). rewrite Es.
        assert (length pre <= length (rhs r)).
        { destruct (Nat.le_gt_cases (length pre) (length (rhs r))); auto.
          rewrite skipn_all2 in Es by lia. discriminate. }
        rewrite nth_error_app2; rewrite firstn_length_le by auto; auto. rewrite Nat.sub_diag. reflexivity. }
      assert (Hlt : length pre < length (rhs r)) by (apply nth_error_Some; congruence).
      assert (Es' : skipn (length (pre ++ [k])) (rhs r) = srest).
      { rewrite app_length. simpl. replace (length pre + 1) with (S (length pre)) by lia.
        eapply skipn_S_cons; eauto. }
      inversion HC as [|? ? HCk HC']; subst.
      pose proof (den_opt_inode r (length pre) i m pre Hlt eq_refl Hden) as Hleft.
      unfold yields in Ht. simpl in Ht. fold (yields tok post) in Ht.
      replace (pre ++ k :: post) with ((pre ++ [k]) ++ post) by (rewrite <- app_assoc; reflexivity).
      assert (Elen : length (pre ++ [k]) = S (length pre)) by (rewrite app_length; simpl; lia).
      destruct s as [t|b].
      + (* terminal: scanner *)
        inversion Hk as [t0 x Hm|]; subst. simpl in Ht. inversion Ht as [|? ? ? ? Ho Ht']; subst.
        unfold tlen1 in Ht'. replace (m + 1) with (S m) in Ht' by lia.
        pose proof (proj1 (occurs_spec _ _) Ho) as Hw.
        apply (IH (pre ++ [DL tok t x]) (S m) j); auto.
        * rewrite Elen. eapply c_scan; eauto.
        * rewrite Elen. discriminate.
        * intros _. rewrite Elen. eapply den_fam; [eapply add_scan; eauto | exact Hleft | constructor; constructor].
      + (* non-terminal: completer *)
        apply tiles_split in Ht. destruct Ht as (m' & Ht1 & Ht2).
        destruct (HCk b m m' Hk Ht1) as (r' & ks' & -> & Hc' & Hd').
        { left. eauto. }
        assert (Hl' : lhs r' = b) by (inversion Hk; auto).
        apply (IH (pre ++ [DN tok r' ks']) m' j); auto.
        * rewrite Elen. eapply c_comp; eauto.
        * rewrite Elen. discriminate.
        * intros _. rewrite Elen. eapply den_fam; [eapply add_comp; eauto | exact Hleft | constructor; exact Hd'].
  Qed.

  Lemma CT_all d : CT d.
  Proof.
    induction d as [t x|r ks IH] using (dt_ind2 tok); intros a i j Hw Ht Hex.
    - inversion Hw.
    - inversion Hw as [|? ? Hin HF]; subst. exists r, ks. split; auto.
      rewrite yield_DN in Ht.
      pose proof (expects_pred _ _ _ Hex Hin eq_refl) as Hc.
      apply (steps r i Hin ks [] i j); auto.
      simpl. intros; lia.
  Qed.

  Lemma tiles_suffix u : forall p, w = p ++ u -> tiles (length p) (length w) u.
  Proof.
    induction u as [|x u IH]; intros p E.
    - rewrite E, app_nil_r. constructor.
    - constructor.
      + apply occurs_spec. rewrite E. rewrite nth_error_app2 by lia. rewrite Nat.sub_diag. reflexivity.
      + unfold tlen1. specialize (IH (p ++ [x])). rewrite app_length in IH. simpl in IH. apply IH.
        rewrite E, <- app_assoc. reflexivity.
  Qed.

  (* every derivation tree of the input is stored below the root of the forest built over the chart *)
  Theorem A_complete_chart d : wfd d (NT start) -> yield tok d = w ->
    den (NSym tok start 0 (length w)) [d].
  Proof.
    intros Hw Hy. destruct (CT_all d start 0 (length w) Hw) as (r & ks & _ & _ & H); auto.
    - rewrite Hy. apply (tiles_suffix w []). reflexivity.
    - right; auto.
  Qed.

  (* den is monotone in the family set *)
  Lemma den_mono (F1 F2 : nlabel -> family -> Prop) : (forall lbl f, F1 lbl f -> F2 lbl f) ->
    forall lbl ds, ExplicitBuild.den tok F1 lbl ds -> ExplicitBuild.den tok F2 lbl ds.
  Proof.
    intros Hsub lbl ds H.
    refine (den_mind tok F1 (fun l ds => ExplicitBuild.den tok F2 l ds) (fun o ds => ExplicitBuild.den_opt tok F2 o ds)
              _ _ _ _ lbl ds H).
    - intros; constructor.
    - intros. eapply den_fam; eauto.
    - constructor.
    - intros. constructor; auto.
  Qed.

  (* exactness at the specification level: the trees below the root are exactly the derivation trees of w *)
  Theorem A_exact_chart ds :
    den (NSym tok start 0 (length w)) ds <-> exists d, ds = [d] /\ wfd d (NT start) /\ yield tok d = w.
  Proof.
    split.
    - intros H. apply A_sound_chart in H. destruct H as (d & -> & Hw & Ht).
      apply tiles_span in Ht; [|lia]. destruct Ht as (p & s & E0 & L1 & L2).
      exists d. repeat split; auto.
      destruct p; [|discriminate]. simpl in *. rewrite E0 in L2. rewrite app_length in L2.
      destruct s; [|simpl in L2; lia]. rewrite app_nil_r in E0. auto.
    - intros (d & -> & Hw & Hy). apply A_complete_chart; auto.
  Qed.

  (* any forest that contains the families added over the chart stores every derivation tree of w *)
  Theorem A_complete_superset (F : nlabel -> family -> Prop) :
    (forall lbl f, added lbl f -> F lbl f) ->
    forall d, wfd d (NT start) -> yield tok d = w -> ExplicitBuild.den tok F (NSym tok start 0 (length w)) [d].
  Proof. intros Hsub d Hw Hy. eapply den_mono; eauto. apply A_complete_chart; auto. Qed.
End Chart.
