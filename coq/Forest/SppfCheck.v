(* Comparison helpers shared by the C05 / C20 correspondence checks: the exported forest
   annotated with what was observed on lark's nodes, and observed derivations. *)
From Coq Require Import ZArith List Bool String.
From LV Require Import Forest.Sppf.
Import ListNotations.

(* forest as exported: [oprio] = node.priority after ForestSumVisitor (0 stands for -inf when
   no visitor ran), [oorder] = the order in which [children] returned the packed nodes, as
   indices into the insertion-ordered family list *)
Inductive asym : Type :=
| ASym (l : label) (oprio : Z) (oorder : list nat) (fams : list apacked)
| ATok (term text : string) (tprio : Z)
with apacked : Type :=
| APack (r : rinfo) (oprio : Z) (left right : option asym).

Fixpoint erase (a : asym) : sym :=
  match a with
  | ATok x y z => TokLeaf x y z
  | ASym l _ _ fams => Sym l (map erase_p fams)
  end
with erase_p (p : apacked) : packed :=
  match p with
  | APack r _ lft rgt => Pack r (match lft with None => None | Some s => Some (erase s) end)
                                (match rgt with None => None | Some s => Some (erase s) end)
  end.

(* observed derivation: rule ids and token leaves *)
Inductive otree : Type :=
| ONode (rid : Z) (cs : list otree)
| OLeaf (term text : string).

Fixpoint otree_eqb (a b : otree) : bool :=
  match a, b with
  | OLeaf t1 x1, OLeaf t2 x2 => String.eqb t1 t2 && String.eqb x1 x2
  | ONode r1 c1, ONode r2 c2 =>
      Z.eqb r1 r2 &&
      (fix go (l1 l2 : list otree) : bool :=
         match l1, l2 with
         | [], [] => true
         | x :: r, y :: s => otree_eqb x y && go r s
         | _, _ => false
         end) c1 c2
  | _, _ => false
  end.

Fixpoint to_otree (t : dtree) : otree :=
  match t with
  | DNode r cs => ONode (r_id r) (map to_otree cs)
  | DLeaf a b _ => OLeaf a b
  end.

Fixpoint list_eqb {A} (eqb : A -> A -> bool) (l1 l2 : list A) : bool :=
  match l1, l2 with
  | [], [] => true
  | x :: r, y :: s => eqb x y && list_eqb eqb r s
  | _, _ => false
  end.

Definition optZ_eqb (a b : option Z) : bool :=
  match a, b with
  | None, None => true
  | Some x, Some y => Z.eqb x y
  | _, _ => false
  end.

Fixpoint indexed {A} (i : nat) (l : list A) : list (nat * A) :=
  match l with [] => [] | x :: r => (i, x) :: indexed (S i) r end.

(* set-like comparison of two lists of observed derivations: mutual inclusion and equal
   length (no loss, no duplication when one side is duplicate-free) *)
Definition omem (x : otree) (l : list otree) : bool := existsb (otree_eqb x) l.
Definition oset_eqb (l1 l2 : list otree) : bool :=
  Nat.eqb (List.length l1) (List.length l2) && forallb (fun x => omem x l2) l1 && forallb (fun x => omem x l1) l2.
