(* ForestToParseTree(resolve_ambiguity=True) on the forest as lark really builds it: a label-keyed graph
   (Forest/ExplicitBuild.v: nodes are their labels (symbol | rule@ptr, start, end), a forest is a list of
   (label, family) pairs), possibly cyclic.  Definitions only; proofs in GraphResolve_proofs.v.

   The walk (earley_forest.py, ForestVisitor.visit + ForestToParseTree): a symbol node hands its packed
   children in [children] order; the first packed child whose transformation succeeds is kept
   (_successful_visits), the others are not entered.  A node that is already on the path is reported by
   on_cycle: _on_cycle_retreat is set and every packed node on the way out is discarded (_check_cycle) until a
   symbol node that has another, succeeding, packed child is reached (visit_packed_node_in resets the flag).
   Hence: a packed child succeeds iff both of its children succeed, a symbol node succeeds iff one of its packed
   children does, a node on the current path fails.  [order] is SymbolNode.children (any rearrangement of the
   packed children: the sort by PackedNode.sort_key after ForestSumVisitor, see Forest/Prio.v). *)
From Coq Require Import List Arith Bool.
From LV Require Import Cfg.Grammar Forest.ExplicitBuild.
Import ListNotations.

Section GraphResolve.
  Variable tok : Type.
  Variable teqb : tok -> tok -> bool.

  Definition rule_eqb' (a b : rule) : bool := if rule_eq_dec a b then true else false.

  Definition nlabel_eqb (a b : nlabel tok) : bool :=
    match a, b with
    | NSym _ a1 i1 j1, NSym _ a2 i2 j2 => Nat.eqb a1 a2 && Nat.eqb i1 i2 && Nat.eqb j1 j2
    | NInter _ r1 d1 i1 j1, NInter _ r2 d2 i2 j2 =>
        rule_eqb' r1 r2 && Nat.eqb d1 d2 && Nat.eqb i1 i2 && Nat.eqb j1 j2
    | NTok _ t1 x1 i1 j1, NTok _ t2 x2 i2 j2 => Nat.eqb t1 t2 && teqb x1 x2 && Nat.eqb i1 i2 && Nat.eqb j1 j2
    | _, _ => false
    end.

  Fixpoint lmem (x : nlabel tok) (l : list (nlabel tok)) : bool :=
    match l with [] => false | y :: r => nlabel_eqb x y || lmem x r end.

  Variable fams : list (nlabel tok * family tok).
  Variable order : nlabel tok -> list (family tok) -> list (family tok).

  (* the packed children of a node, in insertion order *)
  Definition fams_of (lbl : nlabel tok) : list (family tok) :=
    map snd (filter (fun lf => nlabel_eqb (fst lf) lbl) fams).

  Fixpoint first_some {A B} (f : A -> option B) (l : list A) : option B :=
    match l with
    | [] => None
    | x :: r => match f x with Some y => Some y | None => first_some f r end
    end.

  (* [path]: the symbol nodes entered and not exited (`visiting`) *)
  Fixpoint gres (fuel : nat) (path : list (nlabel tok)) (lbl : nlabel tok) : option (list (dt tok)) :=
    match fuel with
    | O => None
    | S f =>
        match lbl with
        | NTok _ t x _ _ => Some [DL tok t x]
        | _ =>
            if lmem lbl path then None                    (* on_cycle: retreat *)
            else
              let sub (o : option (nlabel tok)) : option (list (dt tok)) :=
                match o with None => Some [] | Some l => gres f (lbl :: path) l end in
              first_some (fun fm : family tok =>
                            let '(r, l, rt) := fm in
                            match sub l with
                            | None => None
                            | Some d1 => match sub rt with
                                         | None => None
                                         | Some d2 => Some (pack tok lbl r (d1 ++ d2))
                                         end
                            end) (order lbl (fams_of lbl))
        end
    end.

  (* transform(root): one tree, or None when every alternative was discarded (the code then returns None) *)
  Definition graph_resolve (root : nlabel tok) : option (dt tok) :=
    match gres (S (List.length fams)) [] root with
    | Some [d] => Some d
    | _ => None
    end.
End GraphResolve.
