(* C04 layer A for the dynamic lexers: (1) a forest whose families have the local form ExplicitDynSound.dfam_ok stores
   only trees that spell the input (token spans + ignore paths tile the node's span); the boolean checker implies the
   local form.  (2) erasing the instrumentation of ExplicitDynBuild gives back Dyn's run. *)
From Coq Require Import List Arith Bool Lia.
From LV Require Import Cfg.Grammar Cfg.Analysis Earley.Spec Earley.Alg Earley.Dyn
  Forest.ExplicitBuild Forest.ExplicitBuild_proofs Forest.ExplicitAlgBuild Forest.ExplicitAlgBuild_proofs
  Forest.ExplicitDynBuild Forest.ExplicitDynSound.
Import ListNotations.

Section Sound.
  Variable G : grammar.
  Variable tokedge : nat -> nat -> nat -> Prop.
  Variable ign : nat -> nat -> Prop.

  Notation gap := (gap ign).
  Notation gtiles := (gtiles tokedge ign).
  Notation dwfd := (dwfd G tokedge).
  Notation dsound := (dsound G tokedge ign).
  Notation dfam_ok := (dfam_ok G tokedge ign).

  Lemma gap_trans i m j : gap i m -> gap m j -> gap i j.
  Proof. induction 1; auto. intros. econstructor; eauto. Qed.

  Lemma gtiles_gap_l i m j u : gap i m -> gtiles m j u -> gtiles i j u.
  Proof.
    intros Hg H. inversion H; subst.
    - constructor. eapply gap_trans; eauto.
    - econstructor; eauto. eapply gap_trans; eauto.
  Qed.

  Lemma gtiles_gap_r i e j u : gtiles i e u -> gap e j -> gtiles i j u.
  Proof.
    induction 1; intros Hg.
    - constructor. eapply gap_trans; eauto.
    - econstructor; eauto.
  Qed.

  Lemma gtiles_app i m j u v : gtiles i m u -> gtiles m j v -> gtiles i j (u ++ v).
  Proof.
    induction 1; intros Hv; simpl.
    - eapply gtiles_gap_l; eauto.
    - econstructor; eauto.
  Qed.

  Lemma dchild_sound s rn m e ds :
    dchild_ok tokedge s rn m e -> dsound rn ds -> exists d, ds = [d] /\ dwfd d s /\ gtiles m e (yield span d).
  Proof.
    destruct s as [t|a]; simpl.
    - intros (-> & Ht) ->. exists (DL span t (m, e)). repeat split; auto. constructor; auto.
      simpl. econstructor; [apply gap_refl|eauto|constructor; apply gap_refl].
    - intros -> (d & -> & Hw & Ht). eauto.
  Qed.

  Section Forest.
    Variable F : nlabel span -> family span -> Prop.
    Hypothesis F_ok : forall lbl f, F lbl f -> dfam_ok lbl f.

    Definition dsound_opt (o : option (nlabel span)) (ds : list (dt span)) : Prop :=
      match o with None => ds = [] | Some l => dsound l ds end.

    Theorem dyn_sound_gen lbl ds : den span F lbl ds -> dsound lbl ds.
    Proof.
      intros H.
      refine (den_mind span F (fun l ds => dsound l ds) dsound_opt _ _ _ _ lbl ds H); clear lbl ds H.
      - intros t x i j. reflexivity.
      - intros lbl r l rt ds1 ds2 HF _ H1 _ H2. apply F_ok in HF.
        inversion HF as [r0 k j Hin Hr Hg|r0 s rn i m e j Hin Hn Hg Hc Hg2|r0 d s rn i m e j Hin Hd Hn Hc Hg2];
          subst; simpl in H1, H2.
        + subst. simpl. exists (DN span r []). repeat split; auto.
          * constructor; auto. rewrite Hr. constructor.
          * simpl. constructor. auto.
        + subst ds1. simpl app. destruct (dchild_sound _ _ _ _ _ Hc H2) as (d0 & -> & Hw & Ht).
          assert (Ht' : gtiles i j (yield span d0)) by (eapply gtiles_gap_l; eauto; eapply gtiles_gap_r; eauto).
          destruct (ilabel_cases span r 1 i j) as [(E & ->)|(E & ->)]; simpl.
          * exists (DN span r [d0]). repeat split; auto.
            -- constructor; auto. destruct (rhs r) as [|s0 [|s1 l0]]; simpl in *; try discriminate. inversion Hn; subst.
               constructor; auto.
            -- rewrite yield_DN. unfold yields. simpl. rewrite app_nil_r. auto.
          * repeat split; auto.
            -- change (Forall2 dwfd [d0] (firstn 1 (rhs r))). rewrite (firstn_S_nth' _ _ _ Hn). simpl. constructor; auto.
            -- unfold yields. simpl. rewrite app_nil_r. auto.
        + destruct H1 as (_ & HF1 & HT1). destruct (dchild_sound _ _ _ _ _ Hc H2) as (d0 & -> & Hw & Ht).
          assert (HF2 : Forall2 dwfd (ds1 ++ [d0]) (firstn (S d) (rhs r))).
          { rewrite (firstn_S_nth' _ _ _ Hn). apply Forall2_app; auto. }
          assert (HT2 : gtiles i j (yields span (ds1 ++ [d0]))).
          { rewrite yields_app. eapply gtiles_app; eauto. unfold yields. simpl. rewrite app_nil_r.
            eapply gtiles_gap_r; eauto. }
          destruct (ilabel_cases span r (S d) i j) as [(E & ->)|(E & ->)]; simpl.
          * exists (DN span r (ds1 ++ [d0])). split; [reflexivity|]. split.
            -- constructor; auto. rewrite E, firstn_all in HF2. auto.
            -- rewrite yield_DN. auto.
          * split; [auto|]. split; [exact HF2 | exact HT2].
      - reflexivity.
      - auto.
    Qed.
  End Forest.
End Sound.

(* ---- the boolean checker implies the local form ---- *)
Section CheckOk.
  Variable G : grammar.
  Variable te : list (nat * nat * nat).
  Variable ig : list (nat * nat).

  Notation tokedge := (tokedge_t te).
  Notation ign := (ign_t ig).
  Notation gap := (gap ign).

  Lemma gap_b_gap fuel : forall i j, gap_b ig fuel i j = true -> gap i j.
  Proof.
    induction fuel as [|f IH]; intros i j H; simpl in H; apply orb_true_iff in H; destruct H as [H|H];
      try (apply Nat.eqb_eq in H; subst; constructor); try discriminate.
    apply existsb_exists in H. destruct H as ([a b] & Hin & H). simpl in H.
    destruct (Nat.eqb_spec a i) as [H1|]; [|discriminate]. pose proof H as H2. simpl in *. subst a. apply (gap_step ign i b j); auto.
    unfold ign_t, ign_b. apply existsb_exists. exists (i, b). split; auto. simpl. rewrite !Nat.eqb_refl. auto.
  Qed.

  Lemma gapb_gap i j : gapb ig i j = true -> gap i j.
  Proof. apply gap_b_gap. Qed.

  Lemma mem_rule_b_In r : mem_rule_b G r = true -> In r G.
  Proof.
    unfold mem_rule_b. rewrite existsb_exists. intros (x & Hx & E). destruct (rule_eq_dec r x); [subst; auto|discriminate].
  Qed.

  Lemma is_ilabel_n_eq lbl r d i j : is_ilabel_n lbl r d = Some (i, j) -> span_label lbl = ilabel span r d i j.
  Proof.
    unfold is_ilabel_n, ilabel. destruct lbl as [a i0 j0|r0 d0 i0 j0|]; try discriminate.
    - destruct (Nat.eqb_spec d (length (rhs r))); simpl; try discriminate.
      destruct (Nat.eqb_spec a (lhs r)); simpl; try discriminate. intros E; inversion E; subst; auto.
    - destruct (rule_eq_dec r0 r); simpl; try discriminate. subst.
      destruct (Nat.eqb_spec d0 d); simpl; try discriminate. subst.
      destruct (Nat.eqb d (length (rhs r))); simpl; try discriminate. intros E; inversion E; subst; auto.
  Qed.

  Lemma dchild_b_ok s rn m e : dchild_b te s rn = Some (m, e) -> dchild_ok tokedge s (span_label rn) m e.
  Proof.
    destruct s as [t|a], rn as [a' i' j'|?|t' x m' j']; simpl; try discriminate.
    - destruct (Nat.eqb_spec t t'); simpl; try discriminate. destruct (tokedge_b te t m' j') eqn:E; try discriminate.
      intros H; inversion H; subst. split; auto.
    - destruct (Nat.eqb_spec a a'); simpl; try discriminate. intros H; inversion H; subst; auto.
  Qed.

  Lemma dfam_okb_ok f : dfam_okb G te ig f = true ->
    dfam_ok G tokedge ign (fst (span_fam f)) (snd (span_fam f)).
  Proof.
    destruct f as [lbl [[r l] rt]]. unfold dfam_okb. rewrite andb_true_iff. intros (Hm & H).
    apply mem_rule_b_In in Hm. simpl fst; simpl snd. destruct l as [ln|], rt as [rn|]; try discriminate.
    - destruct ln as [|r' d i m|]; try discriminate.
      rewrite !andb_true_iff in H. destruct H as ((Hr & Hd) & H).
      destruct (rule_eq_dec r' r); [subst r'|discriminate]. apply Nat.leb_le in Hd.
      destruct (nth_error (rhs r) d) as [s|] eqn:En; try discriminate.
      destruct (is_ilabel_n lbl r (S d)) as [[i' j]|] eqn:El; try discriminate.
      rewrite andb_true_iff, Nat.eqb_eq in H. destruct H as (-> & H).
      destruct (dchild_b te s rn) as [[m' e]|] eqn:Ec; try discriminate.
      rewrite andb_true_iff, Nat.eqb_eq in H. destruct H as (-> & Hg).
      apply is_ilabel_n_eq in El. rewrite El. simpl option_map.
      apply dok_next with (s := s) (e := e); auto; [apply dchild_b_ok; auto | apply gapb_gap; auto].
    - destruct ln; discriminate.
    - destruct (nth_error (rhs r) 0) as [s|] eqn:En; try discriminate.
      destruct (is_ilabel_n lbl r 1) as [[i j]|] eqn:El; try discriminate.
      destruct (dchild_b te s rn) as [[m e]|] eqn:Ec; try discriminate.
      rewrite andb_true_iff in H. destruct H as (Hg1 & Hg2).
      apply is_ilabel_n_eq in El. rewrite El. simpl option_map.
      apply dok_first with (s := s) (m := m) (e := e); auto; [apply gapb_gap; auto | apply dchild_b_ok; auto | apply gapb_gap; auto].
    - destruct (rhs r) eqn:Er; try discriminate. destruct lbl as [a i j| |]; try discriminate.
      rewrite andb_true_iff, Nat.eqb_eq in H. destruct H as (-> & Hg). simpl.
      apply dok_empty; auto. apply gapb_gap; auto.
  Qed.

  (* a log all of whose families pass the checker stores only trees that spell the text *)
  Theorem dyn_forest_sound (fams : list (nlabel nat * family nat)) :
    forallb (dfam_okb G te ig) fams = true ->
    forall lbl ds, den span (in_forest span (map span_fam fams)) lbl ds -> dsound G tokedge ign lbl ds.
  Proof.
    intros H. apply dyn_sound_gen. intros lbl f Hin. unfold in_forest in Hin.
    apply in_map_iff in Hin. destruct Hin as (f0 & E & Hf0).
    rewrite forallb_forall in H. pose proof (dfam_okb_ok f0 (H f0 Hf0)) as Hok. rewrite E in Hok. exact Hok.
  Qed.
End CheckOk.

(* ---- erasing the instrumentation of the dynamic model gives Dyn's run ---- *)
Section DErase.
  Variable G : grammar.
  Variable predictions : nat -> list rule.
  Variable start : nat.
  Variable n : nat.
  Variable rmatch : nat -> nat -> option nat.
  Variable rtrunc : nat -> nat -> nat -> option nat.
  Variable complete_lex : bool.
  Variable ignore : list nat.

  Lemma erase_extend k es dm : erase_dm (idm_extend k es dm) = dm_extend k (map erase_entry es) (erase_dm dm).
  Proof.
    induction dm as [|[k' l] dm IH]; simpl; auto.
    destruct (Nat.eqb k k'); simpl; [rewrite map_app; auto | rewrite IH; auto].
  Qed.

  Lemma erase_get k dm : map erase_entry (idm_get k dm) = dm_get k (erase_dm dm).
  Proof.
    unfold idm_get, dm_get. induction dm as [|[k' l] dm IH]; simpl; auto.
    destruct (Nat.eqb k' k); simpl; auto.
  Qed.

  Lemma erase_remove k dm : erase_dm (idm_remove k dm) = dm_remove k (erase_dm dm).
  Proof.
    unfold idm_remove, dm_remove. induction dm as [|[k' l] dm IH]; simpl; auto.
    destruct (Nat.eqb k' k); simpl; [auto | rewrite IH; auto].
  Qed.

  Lemma erase_scan_item i x dm :
    erase_dm (iscan_item rmatch rtrunc complete_lex i dm x) = scan_item rmatch rtrunc complete_lex i (erase_dm dm) x.
  Proof.
    unfold iscan_item, scan_item. destruct (expect x) as [[t|a]|]; auto.
    generalize (ends_of rmatch rtrunc complete_lex t i). intros l. revert dm.
    induction l as [|e l IH]; intros dm; simpl; auto. rewrite IH, erase_extend. reflexivity.
  Qed.

  Lemma erase_fold_scan_item i l : forall dm,
    erase_dm (fold_left (iscan_item rmatch rtrunc complete_lex i) l dm)
    = fold_left (scan_item rmatch rtrunc complete_lex i) l (erase_dm dm).
  Proof. induction l as [|x l IH]; intros dm; simpl; auto. rewrite IH, erase_scan_item. reflexivity. Qed.

  Lemma erase_scan_ignore i ts col dm x :
    erase_dm (iscan_ignore start rmatch i ts col dm x) = scan_ignore start rmatch i ts col (erase_dm dm) x.
  Proof.
    unfold iscan_ignore, scan_ignore. destruct (rmatch x i); auto.
    rewrite !erase_extend, !map_map. reflexivity.
  Qed.

  Lemma erase_fold_scan_ignore i ts col l : forall dm,
    erase_dm (fold_left (iscan_ignore start rmatch i ts col) l dm)
    = fold_left (scan_ignore start rmatch i ts col) l (erase_dm dm).
  Proof. induction l as [|x l IH]; intros dm; simpl; auto. rewrite IH, erase_scan_ignore. reflexivity. Qed.

  Lemma fold_place_map (es : list ientry) : forall acc,
    fold_left (fun a e => dplace a (realise (erase_entry e))) es acc
    = fold_left (fun a e => dplace a (realise e)) (map erase_entry es) acc.
  Proof. induction es; intros; simpl; auto. Qed.

  Lemma idscan_erase i ts col dm acc :
    let r := idscan start rmatch rtrunc complete_lex ignore i ts col dm acc in
    (fst (fst (fst r)), snd (fst (fst r)), erase_dm (snd (fst r)))
    = dscan start rmatch rtrunc complete_lex ignore i ts col (erase_dm dm).
  Proof.
    unfold idscan, dscan. cbn [fst snd].
    rewrite fold_place_map, erase_get, erase_remove, erase_fold_scan_ignore, erase_fold_scan_item. reflexivity.
  Qed.

  Lemma erase_dm_nil dm : erase_dm dm = [] <-> dm = [].
  Proof. destruct dm; simpl; split; auto; discriminate. Qed.

  Lemma erase_keys dm : map fst (erase_dm dm) = map fst dm.
  Proof. unfold erase_dm. rewrite map_map. reflexivity. Qed.

  Lemma idloop_erase : forall rem i cols scans keys col scanq dm acc,
    fst (idloop G predictions start rmatch rtrunc complete_lex ignore rem i cols scans keys col scanq dm acc)
    = dloop G predictions start rmatch rtrunc complete_lex ignore rem i cols scans keys col scanq (erase_dm dm).
  Proof.
    induction rem as [|rem IH]; intros i cols scans keys col scanq dm acc;
      cbn [ExplicitDynBuild.idloop Dyn.dloop]; unfold ipredict_and_complete, predict_and_complete;
      destruct (ipc_loop predictions nat (pc_fuel G i) i cols (mkPC col (rev col) scanq []) acc) as [[st acc1]|] eqn:E.
    - rewrite (ipc_loop_some _ _ _ _ _ _ _ _ _ E). reflexivity.
    - rewrite (ipc_loop_none _ _ _ _ _ _ _ E). reflexivity.
    - rewrite (ipc_loop_some _ _ _ _ _ _ _ _ _ E).
      pose proof (idscan_erase i (pc_scan st) (pc_col st) dm acc1) as Hs. cbn zeta in Hs.
      destruct (idscan start rmatch rtrunc complete_lex ignore i (pc_scan st) (pc_col st) dm acc1) as [[[nc nq] dm'] acc2].
      cbn [fst snd] in *. rewrite <- Hs. cbn [fst snd].
      destruct nc as [|z nc']; [destruct dm' as [|p dm'']; [destruct nq as [|z nq']|]|]; cbn [erase_dm map];
        try reflexivity; rewrite IH; cbn [erase_dm map]; rewrite ?erase_keys; reflexivity.
    - rewrite (ipc_loop_none _ _ _ _ _ _ _ E). reflexivity.
  Qed.

  Theorem dyn_erasure :
    fst (idparse G predictions start n rmatch rtrunc complete_lex ignore)
    = dparse G predictions start n rmatch rtrunc complete_lex ignore.
  Proof. unfold idparse, dparse. cbn zeta. rewrite idloop_erase. reflexivity. Qed.
End DErase.
