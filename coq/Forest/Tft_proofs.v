(* TreeForestTransformer on acyclic forests: expanding the `_ambig` nodes of the
   resolve_ambiguity=False result yields exactly the (unshaped) derivations; the
   resolve_ambiguity=True result is one of them; is_ambiguous. *)
From Coq Require Import ZArith List Bool String Lia.
From LV Require Import Forest.Sppf Forest.Sppf_proofs Gen.ForestSortKey Forest.Prio Forest.Prio_proofs Forest.Tft.
Import ListNotations.

(* ---------------------------------------------------------------- products *)
Lemma in_lprod {A} (x : list A) Ls : In x (lprod Ls) <-> Forall2 (fun xi Li => In xi Li) x Ls.
Proof.
  revert x. induction Ls as [|X r IH]; intros x; cbn [lprod].
  - split.
    + intros [<-|[]]. constructor.
    + intros H. inversion H. left. reflexivity.
  - rewrite in_flat_map. split.
    + intros [a [Ha H]]. apply in_map_iff in H. destruct H as [y [<- Hy]].
      constructor; [exact Ha|]. apply IH. exact Hy.
    + intros H. inversion H as [|a X' y r' Ha Hy]; subst. exists a. split; [exact Ha|].
      apply in_map. apply IH. exact Hy.
Qed.

(* [x] is obtained from the children list [a] by expanding each child *)
Definition ex (x a : list utree) : Prop := Forall2 (fun xi ai => In xi (expand ai)) x a.

Definition xalts (A : list (list utree)) : list (list utree) :=
  flat_map (fun a => lprod (map expand a)) A.

Lemma in_lprod_expand x a : In x (lprod (map expand a)) <-> ex x a.
Proof.
  rewrite in_lprod. unfold ex. revert x. induction a as [|t a IH]; intros x; cbn [map]; split; intros H; inversion H; subst;
    constructor; try assumption; apply IH; assumption.
Qed.

Lemma in_xalts x A : In x (xalts A) <-> exists a, In a A /\ ex x a.
Proof.
  unfold xalts. rewrite in_flat_map. split; intros [a [Ha H]]; exists a; (split; [exact Ha|]); apply in_lprod_expand; exact H.
Qed.

Lemma ex_app x1 x2 a1 a2 : ex x1 a1 -> ex x2 a2 -> ex (x1 ++ x2) (a1 ++ a2).
Proof. apply Forall2_app. Qed.
Lemma ex_app_inv x a1 a2 : ex x (a1 ++ a2) -> exists x1 x2, x = x1 ++ x2 /\ ex x1 a1 /\ ex x2 a2.
Proof. intros H. apply Forall2_app_inv_r in H. destruct H as [x1 [x2 [H1 [H2 ->]]]]. eauto. Qed.

Lemma xalts_cross x A B : In x (xalts (cross A B)) <-> In x (cross (xalts A) (xalts B)).
Proof.
  rewrite in_xalts. split.
  - intros [a [Ha He]]. apply in_cross_inv in Ha. destruct Ha as [l [r [-> [Hl Hr]]]].
    apply ex_app_inv in He. destruct He as [x1 [x2 [-> [H1 H2]]]].
    apply in_cross; apply in_xalts; eauto.
  - intros H. apply in_cross_inv in H. destruct H as [x1 [x2 [-> [H1 H2]]]].
    apply in_xalts in H1. apply in_xalts in H2. destruct H1 as [a1 [Ha1 He1]]. destruct H2 as [a2 [Ha2 He2]].
    exists (a1 ++ a2). split; [apply in_cross; assumption|apply ex_app; assumption].
Qed.

Lemma cross_equiv {A} (X1 X2 Y1 Y2 : list (list A)) :
  (forall x, In x X1 <-> In x Y1) -> (forall x, In x X2 <-> In x Y2) ->
  forall x, In x (cross X1 X2) <-> In x (cross Y1 Y2).
Proof.
  intros H1 H2 x. split; intros H; apply in_cross_inv in H; destruct H as [l [r [-> [Hl Hr]]]];
    apply in_cross; try (apply H1; exact Hl); apply H2; exact Hr.
Qed.

(* ---------------------------------------------------------------- the sorted families *)
Lemma sorted_fams_in {B} (k : packed -> key) (f : packed -> B) fams y :
  In y (map snd (ksort (map (fun p => (k p, f p)) fams))) <-> exists p, In p fams /\ y = f p.
Proof.
  rewrite in_map_iff. split.
  - intros [[kk yy] [<- H]]. apply (proj1 (ksort_in _ _)) in H. apply in_map_iff in H. destruct H as [p [E Hp]].
    exists p. split; [exact Hp|]. cbn. congruence.
  - intros [p [Hp ->]]. exists (k p, f p). split; [reflexivity|]. apply ksort_in. apply in_map_iff. eauto.
Qed.

Definition srt_of (l : label) (fams : list packed) :=
  map snd (ksort (map (fun p => (pkey (l_inter l) p, (r_name (p_rule p), talts_p p))) fams)).

Lemma talts_sym l fams :
  talts (Sym l fams) =
  if l_inter l then flat_map snd (srt_of l fams)
  else [ambig_wrap (flat_map (fun na => map (UNode (fst na)) (snd na)) (srt_of l fams))].
Proof. reflexivity. Qed.

Lemma talts_pack r lft rgt :
  talts_p (Pack r lft rgt) = cross (match lft with None => [[]] | Some s => talts s end)
                                   (match rgt with None => [[]] | Some s => talts s end).
Proof. reflexivity. Qed.

Lemma expand_wrap alts x :
  alts <> [] ->
  (In x (xalts [ambig_wrap alts]) <-> exists u t, x = [u] /\ In t alts /\ In u (expand t)).
Proof.
  intros Hne. destruct alts as [|t [|t2 r]]; [congruence| |].
  - cbn [ambig_wrap xalts flat_map map lprod]. rewrite app_nil_r, in_flat_map. split.
    + intros [u [Hu [<-|[]]]]. exists u, t. split; [reflexivity|]. split; [left; reflexivity|exact Hu].
    + intros [u [t' [-> [[<-|[]] Hu]]]]. exists u. split; [exact Hu|left; reflexivity].
  - cbn [ambig_wrap xalts flat_map map lprod]. rewrite app_nil_r, in_flat_map. split.
    + intros [u [Hu [<-|[]]]]. cbn [expand] in Hu. apply in_flat_map in Hu. destruct Hu as [t' [Ht' Hu]].
      exists u, t'. auto.
    + intros [u [t' [-> [Ht' Hu]]]]. exists u. split; [|left; reflexivity].
      cbn [expand]. apply in_flat_map. eauto.
Qed.

(* ---------------------------------------------------------------- exactness *)
Lemma tft_exact_aux :
  (forall s, wfb s = true -> forall x, In x (xalts (talts s)) <-> In x (map (map unshape) (derivs s))) /\
  (forall p, wfb_p p = true -> forall x, In x (xalts (talts_p p)) <-> In x (map (map unshape) (derivs_p p))).
Proof.
  apply sym_packed_ind.
  - intros a b c _ x. cbn. intuition.
  - intros l fams IH Hwf x. apply wfb_sym in Hwf. destruct Hwf as [Hne Hwf].
    rewrite Forall_forall in IH, Hwf. rewrite talts_sym, derivs_sym.
    destruct (l_inter l) eqn:Ei.
    + (* intermediate node: the alternatives of all families *)
      rewrite in_xalts. split.
      * intros [a [Ha He]]. apply in_flat_map in Ha. destruct Ha as [na [Hna Ha]].
        unfold srt_of in Hna. apply sorted_fams_in in Hna. destruct Hna as [p [Hp ->]]. cbn [snd] in Ha.
        assert (Hx : In x (xalts (talts_p p))) by (apply in_xalts; eauto).
        apply (IH p Hp (Hwf p Hp)) in Hx. apply in_map_iff in Hx. destruct Hx as [d [<- Hd]].
        apply in_map. apply in_flat_map. exists p. split; [exact Hp|]. apply in_map_iff. exists d. auto.
      * intros Hx. apply in_map_iff in Hx. destruct Hx as [d0 [<- Hd]]. apply in_flat_map in Hd.
        destruct Hd as [p [Hp Hd]]. apply in_map_iff in Hd. destruct Hd as [d [<- Hd]]. cbn [wrap].
        assert (Hx : In (map unshape d) (xalts (talts_p p))) by (apply (IH p Hp (Hwf p Hp)); apply in_map; exact Hd).
        apply in_xalts in Hx. destruct Hx as [a [Ha He]]. exists a. split; [|exact He].
        apply in_flat_map. exists (r_name (p_rule p), talts_p p). split; [|exact Ha].
        unfold srt_of. apply sorted_fams_in. eauto.
    + (* completed symbol: one tree per alternative, wrapped in _ambig *)
      set (alts := flat_map (fun na => map (UNode (fst na)) (snd na)) (srt_of l fams)).
      assert (Halts : forall t, In t alts <-> exists p a, In p fams /\ In a (talts_p p) /\ t = UNode (r_name (p_rule p)) a).
      { intros t. unfold alts. rewrite in_flat_map. split.
        - intros [na [Hna Ht]]. unfold srt_of in Hna. apply sorted_fams_in in Hna. destruct Hna as [p [Hp ->]].
          cbn [fst snd] in Ht. apply in_map_iff in Ht. destruct Ht as [a [<- Ha]]. eauto.
        - intros [p [a [Hp [Ha ->]]]]. exists (r_name (p_rule p), talts_p p). split.
          + unfold srt_of. apply sorted_fams_in. eauto.
          + cbn [fst snd]. apply in_map. exact Ha. }
      assert (Hnonempty : alts <> []).
      { destruct fams as [|p0 r0]; [congruence|].
        destruct (proj2 sum_visitor_good p0 (Hwf p0 (or_introl eq_refl))) as [[d [Hd _]] _].
        assert (Hx : In (map unshape d) (xalts (talts_p p0))).
        { apply (IH p0 (or_introl eq_refl) (Hwf p0 (or_introl eq_refl))). apply in_map. exact Hd. }
        apply in_xalts in Hx. destruct Hx as [a [Ha _]].
        assert (Ht : In (UNode (r_name (p_rule p0)) a) alts) by (apply Halts; exists p0, a; auto using in_eq).
        destruct alts; [destruct Ht|congruence]. }
      rewrite (expand_wrap alts x Hnonempty). split.
      * intros [u [t [-> [Ht Hu]]]]. apply Halts in Ht. destruct Ht as [p [a [Hp [Ha ->]]]].
        cbn [expand] in Hu. apply in_map_iff in Hu. destruct Hu as [cs [<- Hcs]]. apply in_lprod_expand in Hcs.
        assert (Hx : In cs (xalts (talts_p p))) by (apply in_xalts; eauto).
        apply (IH p Hp (Hwf p Hp)) in Hx. apply in_map_iff in Hx. destruct Hx as [d [<- Hd]].
        apply in_map_iff. exists [DNode (p_rule p) d]. split; [reflexivity|].
        apply in_flat_map. exists p. split; [exact Hp|]. apply in_map_iff. exists d. auto.
      * intros Hx. apply in_map_iff in Hx. destruct Hx as [d0 [<- Hd]]. apply in_flat_map in Hd.
        destruct Hd as [p [Hp Hd]]. apply in_map_iff in Hd. destruct Hd as [d [<- Hd]]. cbn [wrap map unshape].
        assert (Hx : In (map unshape d) (xalts (talts_p p))) by (apply (IH p Hp (Hwf p Hp)); apply in_map; exact Hd).
        apply in_xalts in Hx. destruct Hx as [a [Ha He]].
        exists (UNode (r_name (p_rule p)) (map unshape d)), (UNode (r_name (p_rule p)) a).
        split; [reflexivity|]. split; [apply Halts; eauto|].
        cbn [expand]. apply in_map. apply in_lprod_expand. exact He.
  - intros r lft rgt IHl IHr Hwf x. apply wfb_pack in Hwf. destruct Hwf as [Hwl Hwr].
    rewrite talts_pack, derivs_pack, xalts_cross, <- map_cross.
    apply cross_equiv.
    + intros y. destruct lft as [s|]; [apply IHl; [reflexivity|apply Hwl; reflexivity]|]. cbn. intuition.
    + intros y. destruct rgt as [s|]; [apply IHr; [reflexivity|apply Hwr; reflexivity]|]. cbn. intuition.
Qed.

(* C20: the trees obtained by expanding the `_ambig` nodes of
   TreeForestTransformer(resolve_ambiguity=False).transform(root) are exactly the unshaped
   derivation trees of the forest *)
Theorem tft_unshaped_exact s t :
  wfb s = true -> tft s = Some t ->
  forall u, In u (expand t) <-> In u (map unshape (root_derivs s)).
Proof.
  intros Hwf Ht u. unfold tft in Ht.
  destruct (talts s) as [|[|t0 [|? ?]] [|? ?]] eqn:E; try discriminate. injection Ht as <-.
  pose proof (proj1 tft_exact_aux s Hwf) as H. rewrite E in H.
  assert (Hx : forall x, In x (xalts [[t0]]) <-> exists u', x = [u'] /\ In u' (expand t0)).
  { intros x. cbn [xalts flat_map map lprod]. rewrite app_nil_r, in_flat_map. split.
    - intros [u' [Hu' [<-|[]]]]. eauto.
    - intros [u' [-> Hu']]. exists u'. split; [exact Hu'|left; reflexivity]. }
  split.
  - intros Hu.
    assert (H1 : In [u] (xalts [[t0]])) by (apply Hx; eauto).
    apply H in H1. apply in_map_iff in H1. destruct H1 as [d [Hd Hin]].
    destruct d as [|d1 [|? ?]]; try discriminate. injection Hd as <-.
    apply in_map. unfold root_derivs. apply in_concat. exists [d1]. split; [exact Hin|left; reflexivity].
  - intros Hu. apply in_map_iff in Hu. destruct Hu as [d [<- Hd]]. unfold root_derivs in Hd.
    apply in_concat in Hd. destruct Hd as [f [Hf Hd]].
    (* every element of derivs s is a singleton, because xalts (talts s) only has singletons *)
    assert (Hs : In (map unshape f) (map (map unshape) (derivs s))) by (apply in_map; exact Hf).
    apply H in Hs. apply Hx in Hs. destruct Hs as [u' [Heq Hu']].
    destruct f as [|f1 [|? ?]]; try discriminate. destruct Hd as [<-|[]]. injection Heq as <-. exact Hu'.
Qed.

(* a completed-symbol root always yields exactly one tree *)
Lemma talts_root l fams : l_inter l = false -> exists w, talts (Sym l fams) = [w].
Proof. intros H. rewrite talts_sym, H. eauto. Qed.

(* resolve_ambiguity=True returns one of the derivations (unshaped) *)
Theorem tft_resolve_in s :
  wfb s = true -> In (tft_resolve s) (map (map unshape) (derivs s)).
Proof. intros H. unfold tft_resolve. apply in_map. apply resolve_in_derivs. exact H. Qed.

(* ---------------------------------------------------------------- is_ambiguous *)
Lemma derivs_p_nonempty p : wfb_p p = true -> derivs_p p <> [].
Proof.
  intros H. destruct (proj2 sum_visitor_good p H) as [[d [Hd _]] _]. destruct (derivs_p p); [destruct Hd|congruence].
Qed.

Lemma length_flat_map_ge {A B} (f : A -> list B) l :
  (forall a, In a l -> (1 <= List.length (f a))%nat) -> (List.length l <= List.length (flat_map f l))%nat.
Proof.
  induction l as [|a r IH]; intros H; [cbn; lia|]. cbn [flat_map List.length]. rewrite app_length.
  specialize (H a (or_introl eq_refl)) as Ha.
  assert (List.length r <= List.length (flat_map f r))%nat by (apply IH; intros b Hb; apply H; right; exact Hb). lia.
Qed.

(* every family of a well-formed node contributes at least one derivation: a node with a
   single derivation has a single packed child *)
Theorem is_ambiguous_single s :
  wfb s = true -> (List.length (derivs s) <= 1)%nat -> is_ambiguous s = false.
Proof.
  destruct s as [l fams|a b c]; [|reflexivity]. intros Hwf Hlen. apply wfb_sym in Hwf. destruct Hwf as [_ Hwf].
  rewrite Forall_forall in Hwf. rewrite derivs_sym in Hlen. cbn [is_ambiguous].
  assert (List.length fams <= List.length (flat_map (fun p => map (wrap (l_inter l) p) (derivs_p p)) fams))%nat.
  { apply length_flat_map_ge. intros p Hp. rewrite map_length.
    pose proof (derivs_p_nonempty p (Hwf p Hp)). destruct (derivs_p p); [congruence|cbn; lia]. }
  apply Nat.ltb_ge. lia.
Qed.

(* Reading "a single derivation" as a SET needs the packed-dedup hypothesis: distinct
   packed children of the node stand for distinct derivations (PackedNode equality is
   (left, right) and the grammar loader rejects duplicate rules, so two packed nodes of one
   symbol node never denote the same tree). *)
Definition packed_dedup (s : sym) : Prop := NoDup (derivs s).

Theorem is_ambiguous_iff s :
  wfb s = true -> packed_dedup s ->
  (forall d1 d2, In d1 (derivs s) -> In d2 (derivs s) -> d1 = d2) -> is_ambiguous s = false.
Proof.
  intros Hwf Hnd Hone. apply is_ambiguous_single; [exact Hwf|].
  unfold packed_dedup in Hnd. destruct (derivs s) as [|d1 [|d2 r]]; cbn; try lia.
  exfalso. inversion Hnd as [|? ? Hnin _]; subst. apply Hnin.
  rewrite (Hone d1 d2 (or_introl eq_refl) (or_intror (or_introl eq_refl))). left. reflexivity.
Qed.

(* conversely an unambiguous root only says that the TOP node has one family *)
Theorem is_ambiguous_spec l fams : is_ambiguous (Sym l fams) = true <-> (2 <= List.length fams)%nat.
Proof. cbn [is_ambiguous]. rewrite Nat.ltb_lt. lia. Qed.
