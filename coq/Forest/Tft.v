(* Model of TreeForestTransformer (lark/parsers/earley_forest.py) with its default callbacks
   on acyclic forests: unshaped trees (every token kept, no rule inlined), `_ambig` nodes in
   resolve_ambiguity=False mode.  Executable definitions only; proofs in Tft_proofs.v.

   resolve_ambiguity=False: a symbol node collects the trees of all its packed children in
   [children] order (sorted by PackedNode.sort_key after the default ForestSumVisitor) and
   wraps them in `_ambig` when there are several; an intermediate node with several packed
   children becomes `_iambig`/`_inter`, which AmbiguousIntermediateExpander turns, at the
   packed node of the completed rule, into one tree per combination - modelled directly as
   the list of alternative children lists in the order the expander produces them. *)
From Coq Require Import ZArith List Bool String.
From LV Require Import Forest.Sppf Gen.ForestSortKey Forest.Prio.
Import ListNotations.

Inductive utree : Type :=
| UNode (name : string) (cs : list utree)
| UAmbig (alts : list utree)
| ULeaf (term text : string).

(* __default_ambig__: several -> _ambig, one -> itself, none -> Discard *)
Definition ambig_wrap (alts : list utree) : list utree :=
  match alts with
  | [] => []
  | [t] => [t]
  | _ => [UAmbig alts]
  end.

(* alternatives (children lists) a node hands to the packed node above it *)
Fixpoint talts (s : sym) : list (list utree) :=
  match s with
  | TokLeaf a b _ => [[ULeaf a b]]
  | Sym l fams =>
      let srt := map snd (ksort (map (fun p => (pkey (l_inter l) p, (r_name (p_rule p), talts_p p))) fams)) in
      if l_inter l then flat_map snd srt
      else [ambig_wrap (flat_map (fun na => map (UNode (fst na)) (snd na)) srt)]
  end
with talts_p (p : packed) : list (list utree) :=
  match p with
  | Pack r lft rgt =>
      cross (match lft with None => [[]] | Some s => talts s end)
            (match rgt with None => [[]] | Some s => talts s end)
  end.

(* TreeForestTransformer(resolve_ambiguity=False).transform(root) *)
Definition tft (s : sym) : option utree :=
  match talts s with
  | [[t]] => Some t
  | _ => None
  end.

(* all ways of picking one element per position *)
Fixpoint lprod {A} (ls : list (list A)) : list (list A) :=
  match ls with
  | [] => [[]]
  | X :: r => flat_map (fun x => map (cons x) (lprod r)) X
  end.

(* expansion of the `_ambig` nodes: the ambiguity-free trees a tree stands for *)
Fixpoint expand (t : utree) : list utree :=
  match t with
  | ULeaf a b => [ULeaf a b]
  | UAmbig alts => flat_map expand alts
  | UNode n cs => map (UNode n) (lprod (map expand cs))
  end.

(* a derivation as an unshaped tree: node name = alias, else template source, else origin *)
Fixpoint unshape (t : dtree) : utree :=
  match t with
  | DNode r cs => UNode (r_name r) (map unshape cs)
  | DLeaf a b _ => ULeaf a b
  end.

(* TreeForestTransformer(resolve_ambiguity=True): the resolve-mode choice, unshaped *)
Definition tft_resolve (s : sym) : list utree := map unshape (resolve s).

(* SymbolNode.is_ambiguous: len(children) > 1 *)
Definition is_ambiguous (s : sym) : bool :=
  match s with
  | Sym _ fams => Nat.ltb 1 (List.length fams)
  | TokLeaf _ _ _ => false
  end.

Fixpoint utree_eqb (a b : utree) : bool :=
  match a, b with
  | ULeaf t1 x1, ULeaf t2 x2 => String.eqb t1 t2 && String.eqb x1 x2
  | UNode n1 c1, UNode n2 c2 =>
      String.eqb n1 n2 &&
      (fix go (l1 l2 : list utree) : bool :=
         match l1, l2 with
         | [], [] => true
         | x :: r, y :: s => utree_eqb x y && go r s
         | _, _ => false
         end) c1 c2
  | UAmbig c1, UAmbig c2 =>
      (fix go (l1 l2 : list utree) : bool :=
         match l1, l2 with
         | [], [] => true
         | x :: r, y :: s => utree_eqb x y && go r s
         | _, _ => false
         end) c1 c2
  | _, _ => false
  end.
