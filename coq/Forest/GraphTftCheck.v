(* Correspondence for Forest/GraphTft.v: the coded walk [tw] and the plain function [gta] against an instrumented
   lark ForestToParseTree (rule-identity callbacks, AmbiguousIntermediateExpander in resolve_ambiguity=False mode,
   use_cache=False) on exported graph forests, cyclic ones included: EVERY callback in order - what visit_*_in handed
   back, the data transform_symbol_node / transform_intermediate_node / transform_packed_node received and what they
   returned (values as ordered alternatives, see GraphTft.v), visit_token_node, on_cycle with its path - and the result. *)
From Coq Require Import List Arith Bool.
From LV Require Import Base.Prelude Cfg.Grammar Forest.ExplicitBuild Forest.GraphResolve Forest.GraphResolveCheck
  Forest.GraphTft.
Import ListNotations.

Fixpoint atree_eqb (a b : atree nat) : bool :=
  match a, b with
  | ALeaf t1 x1, ALeaf t2 x2 => Nat.eqb t1 t2 && Nat.eqb x1 x2
  | ANode r1 k1, ANode r2 k2 =>
      rule_eqb' r1 r2 &&
      (fix go (l1 l2 : list (atree nat)) : bool :=
         match l1, l2 with [], [] => true | x :: r, y :: s => atree_eqb x y && go r s | _, _ => false end) k1 k2
  | AAmb k1, AAmb k2 =>
      (fix go (l1 l2 : list (atree nat)) : bool :=
         match l1, l2 with [], [] => true | x :: r, y :: s => atree_eqb x y && go r s | _, _ => false end) k1 k2
  | _, _ => false
  end.

Fixpoint list_eqb' {A} (e : A -> A -> bool) (a b : list A) : bool :=
  match a, b with [], [] => true | x :: r, y :: s => e x y && list_eqb' e r s | _, _ => false end.

Definition aalts_eqb : aalts nat -> aalts nat -> bool := list_eqb' (list_eqb' atree_eqb).
Definition oaalts_eqb (a b : option (aalts nat)) : bool :=
  match a, b with Some x, Some y => aalts_eqb x y | None, None => true | _, _ => false end.

Definition tnode_eqb (a b : tnode nat) : bool :=
  match a, b with
  | TS l1, TS l2 => leqbn l1 l2
  | TP l1 f1, TP l2 f2 => leqbn l1 l2 && family_eqb f1 f2
  | _, _ => false
  end.

Definition tev_eqb (a b : tev nat) : bool :=
  match a, b with
  | TIn n1 r1, TIn n2 r2 => tnode_eqb n1 n2 && list_eqb' tnode_eqb r1 r2
  | TOut n1 d1 v1, TOut n2 d2 v2 => tnode_eqb n1 n2 && list_eqb' aalts_eqb d1 d2 && oaalts_eqb v1 v2
  | TTok t1 x1, TTok t2 x2 => Nat.eqb t1 t2 && Nat.eqb x1 x2
  | TCycle c1 p1, TCycle c2 p2 => leqbn c1 c2 && list_eqb' tnode_eqb p1 p2
  | _, _ => false
  end.

(* families in insertion order, observed `children` order per symbol node, root, resolve_ambiguity, the recorded
   callbacks, the value transform() returned (as alternatives) *)
Definition gtcase : Type :=
  (list (nlabel nat * family nat) * list (nlabel nat * list (family nat)) * nlabel nat * bool
   * list (tev nat) * option (aalts nat))%type.

(* index of the first event that differs (or the shorter length) *)
Fixpoint first_diff (a b : list (tev nat)) (k : nat) : option nat :=
  match a, b with
  | [], [] => None
  | x :: r, y :: s => if tev_eqb x y then first_diff r s (S k) else Some k
  | _, _ => Some k
  end.

(* 0 = agreement; 2 = an observed children list is not a rearrangement of the packed children; 5 = the model ran out
   of fuel; 3 = result differs; 4 = the walk's result is not what gta computes; 100+k = callback k differs *)
Definition gtft_diag (c : gtcase) : nat :=
  let '(fams, tab, root, resolve, obs, ores) := c in
  if negb (forallb (fun p => let fs := fams_of nat Nat.eqb fams (fst p) in
                             incl_fam (snd p) fs && incl_fam fs (snd p)
                             && Nat.eqb (List.length fs) (List.length (snd p))) tab) then 2
  else match tft_walk nat Nat.eqb fams (order_tab tab) resolve root with
       | Ok (tr, res) =>
           match first_diff tr obs 0 with
           | Some k => 100 + k
           | None =>
               if negb (oaalts_eqb res ores) then 3
               else if negb (oaalts_eqb res (match gta nat Nat.eqb fams (order_tab tab) resolve (tw_fuel nat fams) [] root with
                                             | [] => None | v => Some v end)) then 4
               else 0
           end
       | _ => 5
       end.

Definition gtft_ok (c : gtcase) : bool := Nat.eqb (gtft_diag c) 0.
