(* C04, dynamic lexers: comparison of the add_family log of a real xearley parse with the instrumented model
   (regex answers recorded as oracle tables, as in Earley/DynCheck.v). *)
From Coq Require Import List Arith Bool NArith.
From LV Require Import Cfg.Grammar Cfg.Analysis Earley.Spec Earley.Alg Earley.AlgCheck Earley.Dyn Earley.DynCheck
  Forest.ExplicitBuild Forest.ExplicitAlgBuild Forest.ExplicitDynBuild.
Import ListNotations.

(* rules, start, ignored terminal ids, text length, complete_lex, rmatch table, rtrunc table, outcome code, lark's log *)
Definition idcase := (list (nat * list symbol) * nat * list nat * nat * bool * list N * list N * nat * list dfam)%type.

Definition idcheck (c : idcase) : bool :=
  let '(rules, start, ign, n, cl, mtab, ttab, code, log) := c in
  let G := mk_grammar rules in
  let r := idyn_parse G start n (tbl_match mtab) (tbl_trunc ttab) cl ign in
  Nat.eqb (doutcome_code (d_out (fst r))) code
  && fams_subset log (snd r) && fams_subset (snd r) log.
