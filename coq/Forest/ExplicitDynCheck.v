(* C04, dynamic lexers: comparison of the add_family log of a real xearley parse with the instrumented model
   (regex answers recorded as oracle tables, as in Earley/DynCheck.v). *)
From Coq Require Import List Arith Bool NArith.
From LV Require Import Cfg.Grammar Cfg.Analysis Earley.Spec Earley.Alg Earley.AlgCheck Earley.Dyn Earley.DynCheck
  Forest.ExplicitBuild Forest.ExplicitAlgBuild Forest.ExplicitDynBuild Forest.ExplicitDynSound.
Import ListNotations.

(* rules, start, ignored terminal ids, text length, complete_lex, rmatch table, rtrunc table, outcome code, lark's log,
   and - independent of the parser - the position graph of the text: te = every (t, i, j) such that terminal t matches
   text[i:j] entirely, ig = every (i, j) such that some %ignore terminal matches text[i:j] entirely *)
Definition idcase := (list (nat * list symbol) * nat * list nat * nat * bool * list N * list N * nat * list dfam
                      * list (nat * nat * nat) * list (nat * nat))%type.

(* the model's run has lark's outcome and lark's set of add_family calls, and every family has the local form under
   which ExplicitDynBuild_proofs.dyn_forest_sound applies: the stored trees spell the text *)
Definition idcheck (c : idcase) : bool :=
  let '(rules, start, ign, n, cl, mtab, ttab, code, log, te, ig) := c in
  let G := mk_grammar rules in
  let r := idyn_parse G start n (tbl_match mtab) (tbl_trunc ttab) cl ign in
  Nat.eqb (doutcome_code (d_out (fst r))) code
  && fams_subset log (snd r) && fams_subset (snd r) log
  && forallb (dfam_okb G te ig) (snd r).
