(* C04 - the conditions of ForestToParseTree that the hand models Forest/ExplicitToTree.v and Forest/ExplicitGraph.v
   build in, proved equal to the conditions regenerated from lark/parsers/earley_forest.py (Gen/ExplicitWalk.v, written
   by translator/gen_explicit.py, which also pins the bodies of on_cycle, _check_cycle, visit_symbol_node_in,
   visit_packed_node_in/_out, transform_symbol/intermediate/packed_node, _call_ambig_func, _collapse_ambig,
   _visit_node_out_helper, visit and PackedData.__init__ by fail-closed templates).  A change of one of these conditions in
   the source either breaks the regeneration (template mismatch) or makes this file fail to compile. *)
From Coq Require Import Bool Arith List.
From LV Require Import Gen.ExplicitWalk Forest.ExplicitToTree.
Import ListNotations.

(* the walk of Forest/ExplicitGraph.v *)
Theorem walk_conditions_are_source :
  (* a child on the path starts the retreat *)
  on_cycle_sets_retreat = true
  (* while retreating, a packed node (never the cycle node, never a successful visit) is discarded; a symbol node with a
     kept packed child ends the retreat and is kept, whichever node closed the cycle *)
  /\ retreat_stops false false = false
  /\ (forall c, retreat_stops c true = true)
  (* a symbol node entered while retreating hands back no children: the right child after a lost left child *)
  /\ (forall r, sym_in_skips r = r)
  (* explicit mode (resolve_ambiguity = False, use_cache = True): a packed node is walked iff it is not cached *)
  /\ (forall ps, packed_in_visits false ps = true)
  /\ (forall cached, packed_in_uncached true cached = negb cached)
  (* a packed node left without retreat makes its parent a successful visit: "kept iff one packed child is kept" *)
  /\ (forall r, packed_out_marks r = negb r).
Proof. repeat split; try reflexivity; intros []; reflexivity. Qed.

(* the tree construction of Forest/ExplicitToTree.v: tn builds _iambig / call_ambig builds _ambig for data of length
   other than one (the empty case cannot arise for a kept node), and a list coming from an intermediate left child is
   spliced *)
Theorem tree_conditions_are_source :
  iambig_above = 1 /\ ambig_above = 1
  /\ (forall x, call_ambig [x] = x)
  /\ (forall x y l, call_ambig (x :: y :: l) = Nd AMBIG (x :: y :: l))
  /\ (forall li ll, left_spliced li ll = li && ll).
Proof. repeat split; reflexivity. Qed.
