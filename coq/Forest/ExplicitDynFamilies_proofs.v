(* C04 layer A for the dynamic lexers: every family the instrumented model ExplicitDynBuild.idparse logs has the local
   form ExplicitDynSound.dfam_ok over the position graph of the run (token edges = Dyn.ends_of, ignore edges =
   Dyn_proofs.ign_edge), as an invariant of the run; hence the model's forest stores only trees that spell the input. *)
From Coq Require Import List Arith Bool Lia.
From LV Require Import Cfg.Grammar Cfg.Analysis Cfg.Analysis_proofs Earley.Spec Earley.Alg Earley.Alg_proofs
  Earley.Dyn Earley.Dyn_proofs
  Forest.ExplicitBuild Forest.ExplicitBuild_proofs Forest.ExplicitAlgBuild Forest.ExplicitAlgBuild_proofs
  Forest.ExplicitDynBuild Forest.ExplicitDynSound Forest.ExplicitDynBuild_proofs.
Import ListNotations.

(* ---- labels ---- *)
Lemma label_eqb_eq (a b : nlabel nat) : label_eqb a b = true -> a = b.
Proof.
  destruct a, b; simpl; try discriminate; rewrite !andb_true_iff, !Nat.eqb_eq.
  - intros ((-> & ->) & ->). reflexivity.
  - intros (((Hr & ->) & ->) & ->). apply rule_eqb_spec in Hr. subst. reflexivity.
  - intros (((-> & ->) & ->) & ->). reflexivity.
Qed.

Lemma span_label_ilabel r d i j : span_label (ilabel nat r d i j) = ilabel span r d i j.
Proof. unfold ilabel. destruct (Nat.eqb d (length (rhs r))); reflexivity. Qed.

Lemma span_inode r d j m :
  option_map span_label (ExplicitAlgBuild.inode nat r d j m)
  = match d with 0 => None | S _ => Some (NInter span r d j m) end.
Proof. destruct d; reflexivity. Qed.

(* the same node with another end position *)
Definition set_end {tok} (l : nlabel tok) (j : nat) : nlabel tok :=
  match l with
  | NSym _ a i _ => NSym tok a i j
  | NInter _ r d i _ => NInter tok r d i j
  | NTok _ t x i _ => NTok tok t x i j
  end.
Definition lend {tok} (l : nlabel tok) : nat :=
  match l with NSym _ _ _ j => j | NInter _ _ _ _ j => j | NTok _ _ _ _ j => j end.

Lemma set_end_ilabel {tok} r d i e j : set_end (ilabel tok r d i e) j = ilabel tok r d i j.
Proof. unfold ilabel. destruct (Nat.eqb d (length (rhs r))); reflexivity. Qed.
Lemma lend_ilabel {tok} r d i e : lend (ilabel tok r d i e) = e.
Proof. unfold ilabel. destruct (Nat.eqb d (length (rhs r))); reflexivity. Qed.

Section Local.
  Variable G : grammar.
  Variable tokedge : nat -> nat -> nat -> Prop.
  Variable ign : nat -> nat -> Prop.
  Notation gap := (gap ign).
  Notation dfam_ok := (dfam_ok G tokedge ign).

  Lemma gap_snoc i m j : gap i m -> ign m j -> gap i j.
  Proof. intros H E. eapply gap_trans; eauto. econstructor; eauto. constructor. Qed.

  (* copying the children of a node to the node with a later end position reached through ignored text *)
  Lemma dfam_ok_extend lbl f j : dfam_ok lbl f -> gap (lend lbl) j -> dfam_ok (set_end lbl j) f.
  Proof.
    intros H Hg. destruct H as [r k e Hin Hr Hk|r s rn i m e e' Hin Hn Hg1 Hc Hg2|r d s rn i m e e' Hin Hd Hn Hc Hg2].
    - simpl in *. apply dok_empty; auto. eapply gap_trans; eauto.
    - rewrite lend_ilabel in Hg. rewrite set_end_ilabel. eapply dok_first; eauto. eapply gap_trans; eauto.
    - rewrite lend_ilabel in Hg. rewrite set_end_ilabel. eapply dok_next; eauto. eapply gap_trans; eauto.
  Qed.
End Local.

(* ---- node.children is a sub-list of the calls with that label ---- *)
Lemma dedup_children_in l : forall seen f, In f (dedup_children l seen) -> In f l.
Proof.
  induction l as [|g l IH]; simpl; intros seen f H; auto.
  destruct (existsb (same_children g) seen).
  - right. eapply IH; eauto.
  - destruct H as [<- |H]; auto. right. eapply IH; eauto.
Qed.

Lemma node_children_in acc lbl f : In f (node_children acc lbl) -> In f acc /\ fst f = lbl.
Proof.
  unfold node_children. intros H. apply dedup_children_in in H. apply filter_In in H. destruct H as (H1 & H2).
  split; auto. apply label_eqb_eq; auto.
Qed.

Section DynFamilies.
  Variable G : grammar.
  Variable predictions : nat -> list rule.
  Variable start : nat.
  Variable n : nat.
  Variable rmatch : nat -> nat -> option nat.
  Variable rtrunc : nat -> nat -> nat -> option nat.
  Variable complete_lex : bool.
  Variable ignore : list nat.
  Hypothesis pred_sound : forall a r, In r (predictions a) -> In r G /\ lc_reach G a (lhs r).

  Notation ends := (ends_of rmatch rtrunc complete_lex).
  Notation gchart := (gchart G start rmatch rtrunc complete_lex ignore).
  Notation ign_edge := (ign_edge rmatch ignore).

  (* the position graph of the run *)
  Definition run_tokedge (t i j : nat) : Prop := In j (ends t i).
  Notation gap := (gap ign_edge).
  Notation dfam_ok := (dfam_ok G run_tokedge ign_edge).

  Definition Pf (f : dfam) : Prop := dfam_ok (fst (span_fam f)) (snd (span_fam f)).
  Definition Pall (l : list dfam) : Prop := forall f, In f l -> Pf f.

  Lemma Pall_app a b : Pall a -> Pall b -> Pall (a ++ b).
  Proof. intros Ha Hb f Hf. apply in_app_or in Hf. destruct Hf; auto. Qed.

  Lemma gchart_rule k x : gchart k x -> In (irule x) G.
  Proof. induction 1; cbn [irule advance] in *; auto. Qed.

  (* an item with the dot at the start was predicted where it starts and then only carried over ignored text *)
  Lemma gchart_dot0 k x : gchart k x -> dot x = 0 -> gap (orig x) k.
  Proof.
    induction 1 as [r Hr Hl | k x a r Hc IH He Hr Hl | i k y x a Hy IHy Hey Hx IHx Hex Ho Hl
                   | k x t j Hc IH He Hj | k x t j Hc IH He Hj | k x j Hc IH Hs Hj]; cbn [dot orig advance]; intros Hd;
      try discriminate; try constructor.
    - eapply gap_snoc; eauto.
    - eapply gap_snoc; eauto.
  Qed.

  (* one add_family call of the completer / of the predictor's shortcut: originator o in column m, symbol a over m..i *)
  Lemma comp_fam_ok i m a o :
    gchart m o -> expect o = Some (NT a) -> Pf (comp_fam nat i m a o).
  Proof.
    intros Ho He. unfold Pf, ExplicitAlgBuild.comp_fam, span_fam. cbn [fst snd].
    rewrite span_label_ilabel, span_inode. simpl option_map.
    pose proof (gchart_rule _ _ Ho) as Hin. unfold expect in He.
    destruct (dot o) as [|d'] eqn:Ed.
    - apply dok_first with (s := NT a) (m := m) (e := i); auto.
      + apply gchart_dot0; auto.
      + reflexivity.
      + constructor.
    - apply dok_next with (s := NT a) (e := i); auto; try lia.
      + reflexivity.
      + constructor.
  Qed.

  Section Column.
    Variable i : nat.
    Variable cols : list (list item).
    Hypothesis cols_sound : forall j x, In x (nth j cols []) -> gchart j x.
    Notation pc_sound := (pc_sound gchart i).

    Lemma step_fams_ok x col work scan held :
      pc_sound (mkPC col (x :: work) scan held) -> Pall (step_fams nat i cols x (mkPC col work scan held)).
    Proof.
      intros (S1 & S2 & S3 & S4). assert (Hx : gchart i x) by (apply S3; left; auto).
      cbn [pc_col pc_work pc_scan pc_held] in *.
      unfold ExplicitAlgBuild.step_fams. cbn [pc_col pc_held].
      destruct (expect x) as [[t|a]|] eqn:E.
      - intros f [].
      - destruct (nat_memP a held) as [Hin|]; [|intros f []].
        intros f [<- |[]]. apply comp_fam_ok; auto.
      - apply Pall_app.
        + destruct (dot x) eqn:Ed; [|intros f []]. intros f [<- |[]].
          unfold Pf, span_fam. cbn [fst snd span_label option_map].
          apply dok_empty.
          * apply (gchart_rule _ _ Hx).
          * unfold expect in E. rewrite Ed in E. destruct (rhs (irule x)); auto; discriminate.
          * apply gchart_dot0; auto.
        + intros f Hf. apply in_map_iff in Hf. destruct Hf as (o & <- & Ho).
          apply filter_In in Ho. destruct Ho as (Ho & He). apply expects_nt_spec in He.
          apply comp_fam_ok; auto.
          destruct (Nat.eqb (orig x) i) eqn:Eo.
          * apply Nat.eqb_eq in Eo. rewrite Eo. auto.
          * auto.
    Qed.

    Lemma ipc_loop_ok fuel : forall st acc st' acc',
      pc_sound st -> Pall acc -> ipc_loop predictions nat fuel i cols st acc = Some (st', acc') ->
      pc_sound st' /\ Pall acc'.
    Proof.
      induction fuel as [|f IH]; intros st acc st' acc' S HF H; destruct st as [col work scan held];
        cbn [ExplicitAlgBuild.ipc_loop pc_work pc_col pc_scan pc_held] in H; destruct work as [|x work].
      - inversion H; subst; auto.
      - discriminate.
      - inversion H; subst; auto.
      - eapply IH; [| |exact H].
        + apply (step_sound G predictions pred_sound gchart
                   (g_pred G start rmatch rtrunc complete_lex ignore)
                   (g_comp G start rmatch rtrunc complete_lex ignore) i cols cols_sound); auto.
        + apply Pall_app; auto. apply step_fams_ok; auto.
    Qed.
  End Column.

  (* ---- entries of delayed_matches ---- *)
  Definition entry_ok (k : nat) (e : ientry) : Prop :=
    let '(x, i0, tk) := e in
    gchart i0 x /\
    match tk with
    | Some t => expect x = Some (T t) /\ In k (ends t i0)
    | None => ign_edge i0 k /\ (is_term_item x = true \/ is_solution start x = true)
    end.

  Lemma entry_realise k e : entry_ok k e -> gchart k (realise (erase_entry e)).
  Proof.
    destruct e as [[x i0] [t|]]; unfold entry_ok, realise, erase_entry; cbn [fst snd].
    - intros (Hc & He & Hk). eapply g_scan; eauto.
    - intros (Hc & He & [Ht|Hs]).
      + unfold is_term_item in Ht. destruct (expect x) as [[t|a]|] eqn:E; try discriminate. eapply g_carry; eauto.
      + eapply g_carry_start; eauto.
  Qed.

  Lemma entry_fams_ok i acc e : entry_ok (S i) e -> Pall acc -> Pall (entry_fams i acc e).
  Proof.
    destruct e as [[x i0] [t|]]; unfold entry_ok, entry_fams.
    - intros (Hc & He & Hk) _ f [<- |[]]. unfold Pf, span_fam. cbn [fst snd].
      rewrite span_label_ilabel, span_inode. simpl option_map.
      pose proof (gchart_rule _ _ Hc) as Hin. unfold expect in He.
      destruct (dot x) as [|d'] eqn:Ed.
      + apply dok_first with (s := T t) (m := i0) (e := S i); auto.
        * apply gchart_dot0; auto.
        * split; auto.
        * constructor.
      + apply dok_next with (s := T t) (e := S i); auto; try lia.
        * split; auto.
        * constructor.
    - intros (Hc & He & _) HP.
      assert (Hcopy : Pall (map (fun f => (node_label x (S i), snd f)) (node_children acc (node_label x i0)))).
      { intros f Hf. apply in_map_iff in Hf. destruct Hf as (f0 & <- & Hf0).
        apply node_children_in in Hf0. destruct Hf0 as (Hin & Hl).
        specialize (HP f0 Hin). unfold Pf in *. destruct f0 as [l0 [[r0 a0] b0]]. cbn [fst snd span_fam] in *. subst l0.
        unfold node_label in *. rewrite span_label_ilabel in *.
        rewrite <- (set_end_ilabel (irule x) (dot x) (orig x) i0 (S i)).
        apply dfam_ok_extend; auto. rewrite lend_ilabel. econstructor; eauto. constructor. }
      destruct (dot x); [destruct (expect x)|]; auto. intros f [].
  Qed.

  (* ---- to_scan holds only items that expect a terminal ---- *)
  Definition scan_term (st : pc_state) : Prop := forall x, In x (pc_scan st) -> is_term_item x = true.

  Lemma ipc_loop_scan_term fuel i cols : forall st acc st' acc',
    scan_term st -> ipc_loop predictions nat fuel i cols st acc = Some (st', acc') -> scan_term st'.
  Proof.
    induction fuel as [|f IH]; intros st acc st' acc' S H; destruct st as [col work scan held];
      cbn [ExplicitAlgBuild.ipc_loop pc_work pc_col pc_scan pc_held] in H; destruct work as [|x work].
    - inversion H; subst; auto.
    - discriminate.
    - inversion H; subst; auto.
    - eapply IH; [|exact H]. rewrite pc_step_eq.
      set (st0 := mkPC col work scan held).
      pose proof (ext_fold (step_items predictions i cols x st0) (step_base i x st0)) as E.
      destruct (step_base_same i x st0) as (_ & _ & B3 & _).
      intros y Hy. destruct (ext_scan_inv _ _ _ E y Hy) as [Hy'|(_ & Ht)]; auto.
      rewrite B3 in Hy'. apply S. exact Hy'.
  Qed.

  (* ---- delayed_matches ---- *)
  Definition dm_ok (dm : idmap) : Prop := forall k l, In (k, l) dm -> forall e, In e l -> entry_ok k e.

  Lemma idm_extend_ok k es dm : dm_ok dm -> (forall e, In e es -> entry_ok k e) -> dm_ok (idm_extend k es dm).
  Proof.
    intros Hd He. induction dm as [|[k' l] dm IH]; simpl.
    - intros k0 l0 [E|[]] e Hin. inversion E; subst. auto.
    - assert (Hd' : dm_ok dm) by (intros k0 l0 Hin; apply (Hd k0 l0); right; auto).
      destruct (Nat.eqb k k') eqn:Ek.
      + apply Nat.eqb_eq in Ek. intros k0 l0 [E|Hin] e Hine.
        * inversion E; subst k0 l0. apply in_app_or in Hine. destruct Hine as [Hine|Hine].
          -- apply (Hd k' l); auto. left; auto.
          -- rewrite <- Ek. auto.
        * apply (Hd k0 l0); auto. right; auto.
      + intros k0 l0 [E|Hin] e Hine.
        * inversion E; subst k0 l0. apply (Hd k' l); auto. left; auto.
        * apply (IH Hd' k0 l0); auto.
  Qed.

  Lemma idm_get_ok k dm e : dm_ok dm -> In e (idm_get k dm) -> entry_ok k e.
  Proof.
    unfold idm_get. intros Hd H. destruct (find (fun p => Nat.eqb (fst p) k) dm) as [[k' l]|] eqn:E; [|destruct H].
    apply find_some in E. destruct E as (Hin & Hk). apply Nat.eqb_eq in Hk. simpl in Hk. subst k'. apply (Hd k l); auto.
  Qed.

  Lemma idm_remove_ok k dm : dm_ok dm -> dm_ok (idm_remove k dm).
  Proof. intros Hd k0 l0 Hin. apply filter_In in Hin. apply (Hd k0 l0). tauto. Qed.

  Lemma iscan_item_ok i dm x : dm_ok dm -> gchart i x -> dm_ok (iscan_item rmatch rtrunc complete_lex i dm x).
  Proof.
    intros Hd Hx. unfold iscan_item. destruct (expect x) as [[t|a]|] eqn:E; auto.
    assert (H : forall l dm0, dm_ok dm0 -> (forall e, In e l -> In e (ends t i)) ->
                dm_ok (fold_left (fun dm1 e => idm_extend e [(x, i, Some t)] dm1) l dm0)).
    { induction l as [|e l IH]; intros dm0 Hd0 Hl; simpl; auto.
      apply IH; [|intros; apply Hl; right; auto]. apply idm_extend_ok; auto.
      intros e0 [<- |[]]. simpl. repeat split; auto. apply Hl; left; auto. }
    apply H; auto.
  Qed.

  Lemma fold_iscan_item_ok i l : forall dm, dm_ok dm -> (forall x, In x l -> gchart i x) ->
    dm_ok (fold_left (iscan_item rmatch rtrunc complete_lex i) l dm).
  Proof.
    induction l as [|x l IH]; intros dm Hd Hl; simpl; auto.
    apply IH; [|intros; apply Hl; right; auto]. apply iscan_item_ok; auto. apply Hl; left; auto.
  Qed.

  Lemma iscan_ignore_ok i ts col dm x :
    dm_ok dm -> (forall y, In y ts -> gchart i y /\ is_term_item y = true) -> (forall y, In y col -> gchart i y) ->
    In x ignore -> dm_ok (iscan_ignore start rmatch i ts col dm x).
  Proof.
    intros Hd Hts Hcol Hx. unfold iscan_ignore. destruct (rmatch x i) as [e|] eqn:E; auto.
    assert (Hedge : ign_edge i e) by (exists x; auto).
    apply idm_extend_ok; [apply idm_extend_ok; auto|].
    - intros e0 He0. apply in_map_iff in He0. destruct He0 as (y & <- & Hy). simpl.
      destruct (Hts y Hy). repeat split; auto.
    - intros e0 He0. apply in_map_iff in He0. destruct He0 as (y & <- & Hy). apply filter_In in Hy. simpl.
      destruct Hy as (Hy & Hs). repeat split; auto.
  Qed.

  Lemma fold_iscan_ignore_ok i ts col l : forall dm,
    dm_ok dm -> (forall y, In y ts -> gchart i y /\ is_term_item y = true) -> (forall y, In y col -> gchart i y) ->
    incl l ignore -> dm_ok (fold_left (iscan_ignore start rmatch i ts col) l dm).
  Proof.
    induction l as [|x l IH]; intros dm Hd Hts Hcol Hl; simpl; auto.
    apply IH; auto; [|intros y Hy; apply Hl; right; auto]. apply iscan_ignore_ok; auto. apply Hl; left; auto.
  Qed.

  Lemma fold_dplace_in (f : ientry -> item) es : forall acc y,
    In y (fst (fold_left (fun a e => dplace a (f e)) es acc)) \/ In y (snd (fold_left (fun a e => dplace a (f e)) es acc)) ->
    (In y (fst acc) \/ In y (snd acc)) \/ exists e, In e es /\ y = f e.
  Proof.
    induction es as [|e es IH]; intros acc y H; simpl in H; auto.
    apply IH in H. destruct H as [H|(e0 & He0 & ->)]; [|right; exists e0; split; auto; right; auto].
    unfold dplace in H. destruct (expect (f e)) as [[t|a]|]; cbn [fst snd] in H.
    - destruct H as [H|H]; auto. apply set_add_In in H. destruct H as [H| ->]; auto. right; exists e; split; auto; left; auto.
    - destruct H as [H|H]; auto. apply set_add_In in H. destruct H as [H| ->]; auto. right; exists e; split; auto; left; auto.
    - destruct H as [H|H]; auto. apply set_add_In in H. destruct H as [H| ->]; auto. right; exists e; split; auto; left; auto.
  Qed.

  Lemma fold_dplace_term (f : ientry -> item) es : forall acc,
    (forall y, In y (snd acc) -> is_term_item y = true) ->
    forall y, In y (snd (fold_left (fun a e => dplace a (f e)) es acc)) -> is_term_item y = true.
  Proof.
    induction es as [|e es IH]; intros acc Ha y H; simpl in H; auto.
    eapply IH; [|exact H]. intros z Hz. unfold dplace in Hz. destruct (expect (f e)) as [[t|a]|] eqn:E; cbn [fst snd] in Hz; auto.
    apply set_add_In in Hz. destruct Hz as [Hz| ->]; auto. unfold is_term_item. rewrite E. reflexivity.
  Qed.

  Lemma fold_entry_fams_ok i es : forall acc,
    (forall e, In e es -> entry_ok (S i) e) -> Pall acc ->
    Pall (fold_left (fun a e => a ++ entry_fams i a e) es acc).
  Proof.
    induction es as [|e es IH]; intros acc He Ha; simpl; auto.
    apply IH; [intros; apply He; right; auto|]. apply Pall_app; auto. apply entry_fams_ok; auto. apply He; left; auto.
  Qed.

  Lemma idscan_ok i ts col dm acc :
    dm_ok dm -> (forall y, In y ts -> gchart i y /\ is_term_item y = true) -> (forall y, In y col -> gchart i y) -> Pall acc ->
    let r := idscan start rmatch rtrunc complete_lex ignore i ts col dm acc in
    (forall y, In y (fst (fst (fst r))) -> gchart (S i) y) /\
    (forall y, In y (snd (fst (fst r))) -> gchart (S i) y /\ is_term_item y = true) /\
    dm_ok (snd (fst r)) /\ Pall (snd r).
  Proof.
    intros Hd Hts Hcol Ha. unfold idscan. cbn zeta. cbn [fst snd].
    set (dm2 := fold_left (iscan_ignore start rmatch i ts col) ignore
                          (fold_left (iscan_item rmatch rtrunc complete_lex i) ts dm)).
    assert (Hd2 : dm_ok dm2).
    { apply fold_iscan_ignore_ok; auto using incl_refl. apply fold_iscan_item_ok; auto. intros x Hx. apply Hts; auto. }
    assert (He : forall e, In e (idm_get (S i) dm2) -> entry_ok (S i) e) by (intros e; apply idm_get_ok; auto).
    assert (Hin : forall y, In y (fst (fold_left (fun a e => dplace a (realise (erase_entry e))) (idm_get (S i) dm2) ([], [])))
                         \/ In y (snd (fold_left (fun a e => dplace a (realise (erase_entry e))) (idm_get (S i) dm2) ([], [])))
                         -> gchart (S i) y).
    { intros y Hy. apply fold_dplace_in in Hy. destruct Hy as [[[]|[]]|(e & Hein & ->)]. apply entry_realise; auto. }
    repeat split; auto.
    - apply (fold_dplace_term (fun e => realise (erase_entry e)) (idm_get (S i) dm2) ([], [])); [intros z [] | assumption].
    - apply idm_remove_ok; auto.
    - apply fold_entry_fams_ok; auto.
  Qed.

  (* ---- the whole run ---- *)
  Notation idloop := (idloop G predictions start rmatch rtrunc complete_lex ignore).

  Lemma idloop_ok : forall rem i cols scans keys col scanq dm acc,
    length cols = i ->
    (forall j x, In x (nth j cols []) -> gchart j x) ->
    (forall x, In x col -> gchart i x) -> (forall x, In x scanq -> gchart i x /\ is_term_item x = true) ->
    dm_ok dm -> Pall acc -> Pall (snd (idloop rem i cols scans keys col scanq dm acc)).
  Proof.
    induction rem as [|rem IH]; intros i cols scans keys col scanq dm acc Hlen Hcols Hcol Hq Hd Ha;
      cbn [ExplicitDynBuild.idloop]; unfold ipredict_and_complete;
      assert (S0 : pc_sound gchart i (mkPC col (rev col) scanq []))
        by (repeat split; cbn; auto; [intros x Hx; apply Hq; auto | intros x Hx; apply Hcol; apply in_rev; auto | intros a []]);
      assert (T0 : scan_term (mkPC col (rev col) scanq [])) by (intros x Hx; apply Hq; auto);
      destruct (ipc_loop predictions nat (pc_fuel G i) i cols (mkPC col (rev col) scanq []) acc) as [[st acc1]|] eqn:E;
      try (cbn [snd]; exact Ha);
      destruct (ipc_loop_ok i cols Hcols _ _ _ _ _ S0 Ha E) as ((S1 & S2 & _ & _) & Ha1);
      pose proof (ipc_loop_scan_term _ _ _ _ _ _ _ T0 E) as T1.
    - cbn [snd]. exact Ha1.
    - assert (Hq1 : forall y, In y (pc_scan st) -> gchart i y /\ is_term_item y = true) by (intros y Hy; split; auto).
      destruct (idscan_ok i (pc_scan st) (pc_col st) dm acc1 Hd Hq1 S1 Ha1) as (R1 & R2 & R3 & R4).
      destruct (idscan start rmatch rtrunc complete_lex ignore i (pc_scan st) (pc_col st) dm acc1) as [[[nc nq] dm'] acc2].
      cbn [fst snd] in *.
      assert (Hcols' : forall j x, In x (nth j (cols ++ [pc_col st]) []) -> gchart j x).
      { intros j x Hx. destruct (Nat.lt_ge_cases j (length cols)) as [Hlt|Hge].
        - rewrite app_nth1 in Hx by auto. auto.
        - rewrite app_nth2 in Hx by auto. destruct (j - length cols) as [|m] eqn:Em.
          + simpl in Hx. assert (j = i) by lia. subst j. auto.
          + simpl in Hx. destruct m; destruct Hx. }
      assert (Rec : Pall (snd (idloop rem (S i) (cols ++ [pc_col st]) (scans ++ [pc_scan st])
                                      (keys ++ [map fst dm']) nc nq dm' acc2))).
      { apply IH; auto. rewrite app_length. simpl. lia. }
      destruct nc as [|z nc']; [destruct dm' as [|p dm'']; [destruct nq as [|z nq']|]|]; auto.
  Qed.

  (* every family the instrumented dynamic run logs is a derivation step over the position graph *)
  Theorem dyn_families_sound :
    forall f, In f (snd (idparse G predictions start n rmatch rtrunc complete_lex ignore)) -> Pf f.
  Proof.
    unfold idparse. cbn zeta. destruct (initial predictions start) as [c0 q0] eqn:E. cbn [fst snd].
    unfold initial in E.
    destruct (places_spec init_step (fun r => Some (mkItem r 0 0)) init_step_eq _ _ _ _ _ E) as (_ & _ & _ & A4 & A5 & _).
    assert (Hsrc : forall z, (exists r, In r (predictions start) /\ Some (mkItem r 0 0) = Some z) -> gchart 0 z).
    { intros z (r & Hr & Hz). inversion Hz; subst z. destruct (pred_sound _ _ Hr) as (Hg & Hreach).
      eapply gchart_init_lc; eauto. }
    apply (idloop_ok n 0 [] [] [] c0 q0 [] []); auto.
    - intros j x Hx. destruct j; destruct Hx.
    - intros z Hz. destruct (A4 z Hz) as [[]|(_ & Hex)]. auto.
    - intros z Hz. destruct (A5 z Hz) as [[]|(Ht & Hex)]. auto.
    - intros k l [].
    - intros f [].
  Qed.

End DynFamilies.

(* ---- lark's configuration (prediction table = expand_rule) ---- *)
Section DynModel.
  Variable G : grammar.
  Variable start n : nat.
  Variable rmatch : nat -> nat -> option nat.
  Variable rtrunc : nat -> nat -> nat -> option nat.
  Variable complete_lex : bool.
  Variable ignore : list nat.

  Let ps : forall a r, In r (pred_lookup G (pred_table G) a) -> In r G /\ lc_reach G a (lhs r).
  Proof. intros a r. rewrite pred_lookup_eq. apply predictions_spec. Qed.

  Notation tokedge := (run_tokedge rmatch rtrunc complete_lex).
  Notation ign := (ign_edge rmatch ignore).
  Notation log := (snd (idyn_parse G start n rmatch rtrunc complete_lex ignore)).

  Theorem idyn_families_sound f : In f log -> dfam_ok G tokedge ign (fst (span_fam f)) (snd (span_fam f)).
  Proof. apply (dyn_families_sound G (pred_lookup G (pred_table G)) start n rmatch rtrunc complete_lex ignore ps). Qed.

  (* every tree stored below a node of the model's forest spells the text of the node's span *)
  Theorem idyn_model_sound lbl ds :
    den span (in_forest span (map span_fam log)) lbl ds -> dsound G tokedge ign lbl ds.
  Proof.
    apply dyn_sound_gen. intros l f Hin. unfold in_forest in Hin. apply in_map_iff in Hin.
    destruct Hin as (f0 & E & Hf0). pose proof (idyn_families_sound f0 Hf0) as H. rewrite E in H. exact H.
  Qed.

  Corollary idyn_model_sound_root a i j ds :
    den span (in_forest span (map span_fam log)) (NSym span a i j) ds ->
    exists d, ds = [d] /\ dwfd G tokedge d (NT a) /\ gtiles tokedge ign i j (yield span d).
  Proof. intros H. exact (idyn_model_sound _ _ H). Qed.
End DynModel.

(* ---- completeness, partial: the families of predict_and_complete.  Every completion between chart items of the
   position graph (and every empty completion) has its family in the log, for every column the run builds. ---- *)
Section DynComplete.
  Variable G : grammar.
  Variable predictions : nat -> list rule.
  Variable start : nat.
  Variable n : nat.
  Variable rmatch : nat -> nat -> option nat.
  Variable rtrunc : nat -> nat -> nat -> option nat.
  Variable complete_lex : bool.
  Variable ignore : list nat.
  Hypothesis pred_sound : forall a r, In r (predictions a) -> In r G /\ lc_reach G a (lhs r).
  Hypothesis pred_direct : forall a r, In r G -> lhs r = a -> In r (predictions a).
  Hypothesis H_fwd : fwd rmatch rtrunc.

  Notation gchart := (gchart G start rmatch rtrunc complete_lex ignore).
  Notation idloop := (idloop G predictions start rmatch rtrunc complete_lex ignore).

  Definition dcol_ok (C : nat -> list item) (fams : list dfam) (k : nat) : Prop :=
    (forall x, In x (C k) -> expect x = None -> dot x = 0 ->
               In (NSym nat (lhs (irule x)) (orig x) k, (irule x, None, None)) fams) /\
    (forall x y, In x (C k) -> expect x = None -> orig x <= k -> In y (C (orig x)) ->
               expect y = Some (NT (lhs (irule x))) -> In (comp_fam nat k (orig x) (lhs (irule x)) y) fams).

  Lemma fold_dplace_nonterm (f : ientry -> item) es : forall acc,
    (forall y, In y (fst acc) -> is_term_item y = false) ->
    forall y, In y (fst (fold_left (fun a e => dplace a (f e)) es acc)) -> is_term_item y = false.
  Proof.
    induction es as [|e es IH]; intros acc Ha y H; simpl in H; auto.
    eapply IH; [|exact H]. intros z Hz. unfold dplace in Hz. destruct (expect (f e)) as [[t|a]|] eqn:E; cbn [fst snd] in Hz; auto;
      apply set_add_In in Hz; destruct Hz as [Hz| ->]; auto; unfold is_term_item; rewrite E; reflexivity.
  Qed.

  Lemma fold_entry_incl i es : forall acc, incl acc (fold_left (fun a e => a ++ entry_fams i a e) es acc).
  Proof.
    induction es as [|e es IH]; intros acc; simpl. apply incl_refl.
    intros z Hz. apply IH. apply in_or_app; auto.
  Qed.

  Lemma idloop_complete : forall rem i cols scans keys col scanq dm acc,
    length cols = i ->
    (forall x, In x col -> is_term_item x = false) -> (forall x, In x scanq -> is_term_item x = true) ->
    let r := idloop rem i cols scans keys col scanq dm acc in
    incl acc (snd r) /\
    (exists rc, d_cols (fst r) = cols ++ rc) /\
    (forall k, i <= k < length (d_cols (fst r)) -> dcol_ok (colf (d_cols (fst r))) (snd r) k).
  Proof.
    induction rem as [|rem IH]; intros i cols scans keys col scanq dm acc Hlc Dc Dq;
      cbn [ExplicitDynBuild.idloop];
      destruct (ipredict_and_complete predictions nat (pc_fuel G i) i cols col scanq acc) as [[st acc1]|] eqn:E;
      cbn zeta.
    - destruct (icolumn_complete G predictions nat pred_direct i cols _ _ _ _ _ Dc Dq E) as (Hinc & F1 & F2 & F3).
      cbn [fst snd d_cols]. split; auto. split; [exists [pc_col st]; auto|].
      intros k Hk. rewrite app_length in Hk. simpl in Hk. assert (k = i) by lia. subst k.
      pose proof (colf_snoc_eq' cols (pc_col st) i Hlc) as Ec.
      split.
      + rewrite Ec. auto.
      + rewrite Ec. intros x y Hx He Ho Hy Hey. destruct (Nat.eq_dec (orig x) i) as [Heq|Hne].
        * rewrite Heq in *. rewrite Ec in Hy. apply F3; auto.
        * rewrite colf_snoc_lt in Hy by lia. apply F2; auto.
    - cbn [fst snd d_cols]. split; [apply incl_refl|]. split; [exists []; rewrite app_nil_r; auto|]. intros k Hk. lia.
    - destruct (icolumn_complete G predictions nat pred_direct i cols _ _ _ _ _ Dc Dq E) as (Hinc & F1 & F2 & F3).
      assert (Here : forall rc fams, incl acc1 fams -> dcol_ok (colf ((cols ++ [pc_col st]) ++ rc)) fams i).
      { intros rc fams Hf.
        assert (Ec : colf ((cols ++ [pc_col st]) ++ rc) i = pc_col st).
        { unfold colf. rewrite app_nth1 by (rewrite app_length; simpl; lia). exact (colf_snoc_eq' cols (pc_col st) i Hlc). }
        assert (Eold : forall m, m < i -> colf ((cols ++ [pc_col st]) ++ rc) m = nth m cols []).
        { intros m Hm. unfold colf. rewrite <- app_assoc. rewrite app_nth1 by lia. reflexivity. }
        split.
        - rewrite Ec. intros; apply Hf; apply F1; auto.
        - rewrite Ec. intros x y Hx He Ho Hy Hey. apply Hf. destruct (Nat.eq_dec (orig x) i) as [Heq|Hne].
          + rewrite Heq in *. rewrite Ec in Hy. apply F3; auto.
          + rewrite Eold in Hy by lia. apply F2; auto. }
      unfold idscan. cbn zeta. cbn [fst snd].
      set (dm2 := fold_left (iscan_ignore start rmatch i (pc_scan st) (pc_col st)) ignore
                            (fold_left (iscan_item rmatch rtrunc complete_lex i) (pc_scan st) dm)).
      set (es := idm_get (S i) dm2).
      set (ns := fold_left (fun a e => dplace a (realise (erase_entry e))) es ([], [])).
      set (acc2 := fold_left (fun a e => a ++ entry_fams i a e) es acc1).
      assert (Hinc2 : incl acc1 acc2) by apply fold_entry_incl.
      assert (Dc' : forall x, In x (fst ns) -> is_term_item x = false).
      { apply (fold_dplace_nonterm (fun e => realise (erase_entry e)) es ([], [])). intros z []. }
      assert (Dq' : forall x, In x (snd ns) -> is_term_item x = true).
      { apply (fold_dplace_term (fun e => realise (erase_entry e)) es ([], [])). intros z []. }
      assert (Stop : forall o,
                let r := (mkDRes o (cols ++ [pc_col st]) (scans ++ [pc_scan st]) keys, acc2) in
                incl acc (snd r) /\ (exists rc, d_cols (fst r) = cols ++ rc) /\
                (forall k, i <= k < length (d_cols (fst r)) -> dcol_ok (colf (d_cols (fst r))) (snd r) k)).
      { intros o. cbn [fst snd d_cols]. split; [intros z Hz; apply Hinc2; apply Hinc; auto|].
        split; [exists [pc_col st]; auto|].
        intros k Hk. rewrite app_length in Hk. simpl in Hk. assert (k = i) by lia. subst k.
        specialize (Here [] acc2 Hinc2). rewrite app_nil_r in Here. exact Here. }
      assert (Go : let r := idloop rem (S i) (cols ++ [pc_col st]) (scans ++ [pc_scan st])
                                   (keys ++ [map fst (idm_remove (S i) dm2)]) (fst ns) (snd ns) (idm_remove (S i) dm2) acc2 in
                incl acc (snd r) /\ (exists rc, d_cols (fst r) = cols ++ rc) /\
                (forall k, i <= k < length (d_cols (fst r)) -> dcol_ok (colf (d_cols (fst r))) (snd r) k)).
      { destruct (IH (S i) (cols ++ [pc_col st]) (scans ++ [pc_scan st]) (keys ++ [map fst (idm_remove (S i) dm2)])
                     (fst ns) (snd ns) (idm_remove (S i) dm2) acc2) as (R1 & (rc & R2) & R4); auto.
        - rewrite app_length. simpl. lia.
        - cbn zeta. split; [intros z Hz; apply R1; apply Hinc2; apply Hinc; auto|].
          split; [exists ([pc_col st] ++ rc); rewrite R2, <- app_assoc; auto|].
          intros k Hk. destruct (Nat.eq_dec k i) as [-> |Hne]; [|apply R4; lia].
          rewrite R2. apply Here. intros z Hz. apply R1. apply Hinc2. auto. }
      destruct (fst ns) as [|z nc']; [destruct (idm_remove (S i) dm2) as [|p dm'']; [destruct (snd ns) as [|z nq']|]|];
        try apply Stop; apply Go.
    - cbn [fst snd d_cols]. split; [apply incl_refl|]. split; [exists []; rewrite app_nil_r; auto|]. intros k Hk. lia.
  Qed.

  Notation ires := (idparse G predictions start n rmatch rtrunc complete_lex ignore).

  Lemma ires_gclosed : exists N, length (d_cols (fst ires)) = N /\
    gclosed G start rmatch rtrunc complete_lex ignore (colf (d_cols (fst ires))) (colf (d_scans (fst ires))) N.
  Proof.
    rewrite dyn_erasure.
    destruct (dparse_ok G predictions start n rmatch rtrunc complete_lex ignore pred_sound pred_direct H_fwd)
      as (N & L1 & _ & Cl & _). exists N; auto.
  Qed.

  Lemma ires_dcol_ok k : k < length (d_cols (fst ires)) -> dcol_ok (colf (d_cols (fst ires))) (snd ires) k.
  Proof.
    intros Hk. unfold idparse in *. cbn zeta in *. destruct (initial predictions start) as [c0 q0] eqn:E. cbn [fst snd] in *.
    unfold initial in E.
    destruct (places_spec init_step (fun r => Some (mkItem r 0 0)) init_step_eq _ _ _ _ _ E) as (_ & _ & _ & A4 & A5 & _).
    destruct (idloop_complete n 0 [] [] [] c0 q0 [] [] eq_refl) as (_ & _ & H).
    - intros z Hz. destruct (A4 z Hz) as [[]|(? & _)]. auto.
    - intros z Hz. destruct (A5 z Hz) as [[]|(? & _)]. auto.
    - apply H. lia.
  Qed.

  (* every completion between items of the chart over the position graph has its family in the log *)
  Theorem dyn_completion_families i k y x a :
    gchart i y -> expect y = Some (NT a) -> gchart k x -> expect x = None -> orig x = i -> lhs (irule x) = a ->
    k < length (d_cols (fst ires)) -> In (comp_fam nat k i a y) (snd ires).
  Proof.
    intros Hy Hey Hx Hex Ho Hl Hk. destruct ires_gclosed as (N & HN & Cl).
    assert (Hik : i <= k) by (apply gchart_wf' in Hx; auto; lia).
    assert (Hxc : In x (colf (d_cols (fst ires)) k)).
    { eapply ginT_C; eauto; [lia| |unfold is_term_item; rewrite Hex; reflexivity].
      eapply gclosed_complete; eauto. lia. }
    assert (Hyc : In y (colf (d_cols (fst ires)) i)).
    { eapply ginT_C; eauto; [lia| |unfold is_term_item; rewrite Hey; reflexivity].
      eapply gclosed_complete; eauto. lia. }
    destruct (ires_dcol_ok k Hk) as (_ & F2). specialize (F2 x y Hxc Hex). rewrite Ho, Hl in F2. apply F2; auto.
  Qed.

  Theorem dyn_empty_families k x :
    gchart k x -> expect x = None -> dot x = 0 -> k < length (d_cols (fst ires)) ->
    In (NSym nat (lhs (irule x)) (orig x) k, (irule x, None, None)) (snd ires).
  Proof.
    intros Hx Hex Hd Hk. destruct ires_gclosed as (N & HN & Cl).
    assert (Hxc : In x (colf (d_cols (fst ires)) k)).
    { eapply ginT_C; eauto; [lia| |unfold is_term_item; rewrite Hex; reflexivity].
      eapply gclosed_complete; eauto. lia. }
    destruct (ires_dcol_ok k Hk) as (F1 & _). apply F1; auto.
  Qed.
End DynComplete.

Section DynModelComplete.
  Variable G : grammar.
  Variable start n : nat.
  Variable rmatch : nat -> nat -> option nat.
  Variable rtrunc : nat -> nat -> nat -> option nat.
  Variable complete_lex : bool.
  Variable ignore : list nat.
  Hypothesis H_fwd : fwd rmatch rtrunc.

  Let ps : forall a r, In r (pred_lookup G (pred_table G) a) -> In r G /\ lc_reach G a (lhs r).
  Proof. intros a r. rewrite pred_lookup_eq. apply predictions_spec. Qed.
  Let pd : forall a r, In r G -> lhs r = a -> In r (pred_lookup G (pred_table G) a).
  Proof. intros a r. rewrite pred_lookup_eq. apply predictions_direct. Qed.

  Notation gchart := (gchart G start rmatch rtrunc complete_lex ignore).
  Notation ires := (idyn_parse G start n rmatch rtrunc complete_lex ignore).

  Theorem idyn_completion_families i k y x a :
    gchart i y -> expect y = Some (NT a) -> gchart k x -> expect x = None -> orig x = i -> lhs (irule x) = a ->
    k < length (d_cols (fst ires)) -> In (comp_fam nat k i a y) (snd ires).
  Proof. apply (dyn_completion_families G (pred_lookup G (pred_table G)) start n rmatch rtrunc complete_lex ignore ps pd H_fwd). Qed.

  Theorem idyn_empty_families k x :
    gchart k x -> expect x = None -> dot x = 0 -> k < length (d_cols (fst ires)) ->
    In (NSym nat (lhs (irule x)) (orig x) k, (irule x, None, None)) (snd ires).
  Proof. apply (dyn_empty_families G (pred_lookup G (pred_table G)) start n rmatch rtrunc complete_lex ignore ps pd H_fwd). Qed.
End DynModelComplete.
