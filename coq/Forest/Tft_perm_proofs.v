(* Multiset strengthening of tft_unshaped_exact: the expansion of the transformer's result is
   a PERMUTATION of the unshaped derivations of the forest (no loss and no duplication). *)
From Coq Require Import ZArith List Bool String Lia Permutation.
From LV Require Import Forest.Sppf Forest.Sppf_proofs Gen.ForestSortKey Forest.Prio Forest.Prio_proofs Forest.Tft
  Forest.Tft_proofs.
Import ListNotations.

(* ---------------------------------------------------------------- list algebra *)
Lemma flat_map_perm_ext {A B} (f g : A -> list B) l :
  (forall a, In a l -> Permutation (f a) (g a)) -> Permutation (flat_map f l) (flat_map g l).
Proof.
  induction l as [|a r IH]; intros H; [constructor|]. cbn [flat_map]. apply Permutation_app.
  - apply H. left. reflexivity.
  - apply IH. intros b Hb. apply H. right. exact Hb.
Qed.

Lemma flat_map_perm {A B} (f : A -> list B) l1 l2 :
  Permutation l1 l2 -> Permutation (flat_map f l1) (flat_map f l2).
Proof.
  induction 1 as [|x l l' _ IH|x y l|l l' l'' _ IH1 _ IH2]; cbn [flat_map].
  - constructor.
  - apply Permutation_app_head. exact IH.
  - rewrite !app_assoc. apply Permutation_app_tail. apply Permutation_app_comm.
  - eapply Permutation_trans; eassumption.
Qed.

Lemma flat_map_map' {A B C} (f : A -> B) (g : B -> list C) l :
  flat_map g (map f l) = flat_map (fun a => g (f a)) l.
Proof. induction l as [|a r IH]; [reflexivity|]. cbn. rewrite IH. reflexivity. Qed.

Lemma map_flat_map' {A B C} (f : B -> C) (g : A -> list B) l :
  map f (flat_map g l) = flat_map (fun a => map f (g a)) l.
Proof. induction l as [|a r IH]; [reflexivity|]. cbn. rewrite map_app, IH. reflexivity. Qed.

Lemma flat_map_flat_map {A B C} (f : B -> list C) (g : A -> list B) l :
  flat_map f (flat_map g l) = flat_map (fun a => flat_map f (g a)) l.
Proof. induction l as [|a r IH]; [reflexivity|]. cbn. rewrite flat_map_app, IH. reflexivity. Qed.

Lemma flat_map_single {A B} (f : A -> B) l : flat_map (fun x => [f x]) l = map f l.
Proof. induction l as [|a r IH]; [reflexivity|]. cbn. rewrite IH. reflexivity. Qed.

Lemma cross_app_l {A} (L1 L2 R : list (list A)) : cross (L1 ++ L2) R = cross L1 R ++ cross L2 R.
Proof. unfold cross. apply flat_map_app. Qed.

Lemma cross_app_r_perm {A} (L R1 R2 : list (list A)) :
  Permutation (cross L (R1 ++ R2)) (cross L R1 ++ cross L R2).
Proof.
  unfold cross. induction L as [|l L IH]; [constructor|]. cbn [flat_map]. rewrite map_app.
  eapply Permutation_trans; [apply Permutation_app_head; exact IH|].
  rewrite <- !app_assoc. apply Permutation_app_head.
  rewrite !app_assoc. apply Permutation_app_tail. apply Permutation_app_comm.
Qed.

Lemma cross_nil_r {A} (L : list (list A)) : cross L [] = [].
Proof. unfold cross. induction L as [|l L IH]; [reflexivity|]. cbn. exact IH. Qed.

Lemma cross_flat_map_r_perm {A B} (L : list (list A)) (F : B -> list (list A)) l :
  Permutation (flat_map (fun b => cross L (F b)) l) (cross L (flat_map F l)).
Proof.
  induction l as [|b r IH]; cbn [flat_map].
  - rewrite cross_nil_r. constructor.
  - eapply Permutation_trans; [apply Permutation_app_head; exact IH|].
    apply Permutation_sym. apply cross_app_r_perm.
Qed.

Lemma cross_perm {A} (L L' R R' : list (list A)) :
  Permutation L L' -> Permutation R R' -> Permutation (cross L R) (cross L' R').
Proof.
  intros HL HR. unfold cross.
  eapply Permutation_trans; [apply (flat_map_perm _ _ _ HL)|].
  apply flat_map_perm_ext. intros l _. apply Permutation_map. exact HR.
Qed.

Lemma cross_map_cons {A} (x : A) L R : cross (map (cons x) L) R = map (cons x) (cross L R).
Proof.
  unfold cross. induction L as [|l L IH]; [reflexivity|]. cbn [map flat_map]. rewrite map_app, IH. f_equal.
  rewrite map_map. reflexivity.
Qed.

Lemma lprod_app {A} (l1 l2 : list (list A)) : lprod (l1 ++ l2) = cross (lprod l1) (lprod l2).
Proof.
  induction l1 as [|X l1 IH]; cbn [app lprod].
  - unfold cross. cbn. rewrite app_nil_r, map_id. reflexivity.
  - rewrite IH. induction X as [|x X IHX]; [reflexivity|]. cbn [flat_map].
    rewrite cross_app_l, IHX, cross_map_cons. reflexivity.
Qed.

(* ---------------------------------------------------------------- sorting *)
Lemma kinsert_perm {A} (x : key * A) l : Permutation (kinsert x l) (x :: l).
Proof.
  induction l as [|y r IH]; cbn [kinsert]; [constructor; constructor|].
  destruct (klt (fst y) (fst x)); [|apply Permutation_refl].
  eapply Permutation_trans; [apply perm_skip; exact IH|]. apply perm_swap.
Qed.
Lemma ksort_perm {A} (l : list (key * A)) : Permutation (ksort l) l.
Proof.
  induction l as [|x r IH]; [constructor|]. unfold ksort in *. cbn [fold_right].
  eapply Permutation_trans; [apply kinsert_perm|]. apply perm_skip. exact IH.
Qed.

Lemma srt_of_perm l fams :
  Permutation (srt_of l fams) (map (fun p => (r_name (p_rule p), talts_p p)) fams).
Proof.
  unfold srt_of. eapply Permutation_trans; [apply Permutation_map; apply ksort_perm|].
  rewrite map_map. apply Permutation_refl.
Qed.

(* ---------------------------------------------------------------- xalts *)
Lemma xalts_app A B : xalts (A ++ B) = xalts A ++ xalts B.
Proof. unfold xalts. apply flat_map_app. Qed.

Lemma xalts_flat_map {T} (f : T -> list (list utree)) l :
  xalts (flat_map f l) = flat_map (fun a => xalts (f a)) l.
Proof. unfold xalts. apply flat_map_flat_map. Qed.

Lemma xalts_cross_perm A B : Permutation (xalts (cross A B)) (cross (xalts A) (xalts B)).
Proof.
  induction A as [|a A IH].
  - constructor.
  - change (cross (a :: A) B) with (map (app a) B ++ cross A B).
    rewrite xalts_app. change (xalts (a :: A)) with (lprod (map expand a) ++ xalts A).
    rewrite cross_app_l. apply Permutation_app; [|exact IH].
    unfold xalts at 1. rewrite flat_map_map'.
    eapply Permutation_trans; [|apply (cross_flat_map_r_perm (lprod (map expand a)) (fun b => lprod (map expand b)) B)].
    apply flat_map_perm_ext. intros b _. rewrite map_app, lprod_app. apply Permutation_refl.
Qed.

Lemma expand_unode_alts n A :
  flat_map expand (map (UNode n) A) = map (UNode n) (xalts A).
Proof.
  rewrite flat_map_map'. unfold xalts. rewrite map_flat_map'. reflexivity.
Qed.

Lemma xalts_wrap alts : alts <> [] -> xalts [ambig_wrap alts] = map (fun u => [u]) (flat_map expand alts).
Proof.
  intros H. destruct alts as [|t [|t2 r]]; [congruence| |].
  - cbn [ambig_wrap xalts flat_map map lprod]. rewrite !app_nil_r.
    rewrite <- flat_map_single. apply flat_map_ext. intros x. reflexivity.
  - cbn [ambig_wrap xalts flat_map map lprod]. rewrite app_nil_r.
    change (expand (UAmbig (t :: t2 :: r))) with (flat_map expand (t :: t2 :: r)).
    rewrite <- flat_map_single. apply flat_map_ext. intros x. reflexivity.
Qed.

(* ---------------------------------------------------------------- main *)
Lemma tft_perm_aux :
  (forall s, wfb s = true -> Permutation (xalts (talts s)) (map (map unshape) (derivs s))) /\
  (forall p, wfb_p p = true -> Permutation (xalts (talts_p p)) (map (map unshape) (derivs_p p))).
Proof.
  apply sym_packed_ind.
  - intros a b c _. cbn. apply Permutation_refl.
  - intros l fams IH Hwf. apply wfb_sym in Hwf. destruct Hwf as [Hne Hwf].
    rewrite Forall_forall in IH, Hwf. rewrite talts_sym, derivs_sym, map_flat_map'.
    destruct (l_inter l) eqn:Ei.
    + rewrite xalts_flat_map.
      eapply Permutation_trans; [apply (flat_map_perm _ _ _ (srt_of_perm l fams))|].
      rewrite flat_map_map'. cbn [snd]. apply flat_map_perm_ext. intros p Hp.
      eapply Permutation_trans; [apply (IH p Hp (Hwf p Hp))|].
      rewrite map_map. cbn [wrap]. apply Permutation_refl.
    + set (alts := flat_map (fun na => map (UNode (fst na)) (snd na)) (srt_of l fams)).
      assert (Hperm : Permutation (flat_map expand alts)
                        (flat_map (fun p => map (UNode (r_name (p_rule p))) (map (map unshape) (derivs_p p))) fams)).
      { unfold alts. rewrite flat_map_flat_map.
        eapply Permutation_trans; [apply (flat_map_perm _ _ _ (srt_of_perm l fams))|].
        rewrite flat_map_map'. cbn [fst snd]. apply flat_map_perm_ext. intros p Hp.
        rewrite expand_unode_alts. apply Permutation_map. apply (IH p Hp (Hwf p Hp)). }
      assert (Hnonempty : alts <> []).
      { intros E. rewrite E in Hperm. cbn in Hperm. apply Permutation_nil in Hperm.
        destruct fams as [|p0 r0]; [congruence|]. cbn [flat_map] in Hperm.
        apply app_eq_nil in Hperm. destruct Hperm as [Hp0 _].
        pose proof (derivs_p_nonempty p0 (Hwf p0 (or_introl eq_refl))) as Hd.
        destruct (derivs_p p0); [congruence|discriminate]. }
      rewrite (xalts_wrap alts Hnonempty).
      eapply Permutation_trans; [apply Permutation_map; exact Hperm|].
      rewrite map_flat_map'. apply flat_map_perm_ext. intros p Hp.
      rewrite !map_map. cbn [wrap map unshape]. apply Permutation_refl.
  - intros r lft rgt IHl IHr Hwf. apply wfb_pack in Hwf. destruct Hwf as [Hwl Hwr].
    rewrite talts_pack, derivs_pack, <- map_cross.
    eapply Permutation_trans; [apply xalts_cross_perm|]. apply cross_perm.
    + destruct lft as [s|]; [apply IHl; [reflexivity|apply Hwl; reflexivity]|]. apply Permutation_refl.
    + destruct rgt as [s|]; [apply IHr; [reflexivity|apply Hwr; reflexivity]|]. apply Permutation_refl.
Qed.

Lemma concat_singletons {A} (l : list A) : List.concat (map (fun u => [u]) l) = l.
Proof. induction l as [|a r IH]; [reflexivity|]. cbn. rewrite IH. reflexivity. Qed.

Lemma perm_concat {A} (l1 l2 : list (list A)) : Permutation l1 l2 -> Permutation (List.concat l1) (List.concat l2).
Proof.
  induction 1 as [|x l l' _ IH|x y l|l l' l'' _ IH1 _ IH2]; cbn [List.concat].
  - constructor.
  - apply Permutation_app_head. exact IH.
  - rewrite !app_assoc. apply Permutation_app_tail. apply Permutation_app_comm.
  - eapply Permutation_trans; eassumption.
Qed.

(* C20: expanding the `_ambig` nodes yields every unshaped derivation exactly once (as many
   times as it occurs in [root_derivs], which is duplicate-free under packed-dedup) *)
Theorem tft_unshaped_perm s t :
  wfb s = true -> tft s = Some t -> Permutation (expand t) (map unshape (root_derivs s)).
Proof.
  intros Hwf Ht. unfold tft in Ht.
  destruct (talts s) as [|[|t0 [|? ?]] [|? ?]] eqn:E; try discriminate. injection Ht as <-.
  pose proof (proj1 tft_perm_aux s Hwf) as H. rewrite E in H.
  cbn [xalts flat_map map lprod] in H. rewrite app_nil_r in H.
  rewrite (flat_map_single (fun u : utree => [u])) in H. apply perm_concat in H. rewrite concat_singletons in H.
  unfold root_derivs. rewrite concat_map. exact H.
Qed.
