(* C04 layer A - instantiation of Forest/ExplicitBuild.v for the correspondence harness: lexemes are numbers,
   the match / length / occurrence predicates are finite tables computed by the harness independently of lark
   (re.fullmatch on the lexeme text; slicing of the input text or indexing of the basic lexer's token list). *)
From Coq Require Import List Arith Bool.
From LV Require Import Cfg.Grammar Forest.ExplicitBuild.
Import ListNotations.

Definition pair_mem (tab : list (nat * nat)) (a b : nat) : bool :=
  existsb (fun p => Nat.eqb (fst p) a && Nat.eqb (snd p) b) tab.

Record acase := mkA {
  a_G : grammar;
  a_tm : list (nat * nat);        (* (terminal, lexeme) : terminal matches lexeme *)
  a_tl : list nat;                (* length of lexeme x, by index *)
  a_oc : list (nat * nat);        (* (lexeme, position) : lexeme occurs at position *)
  a_start : nat; a_n : nat;       (* start symbol, input length *)
  a_root : nlabel nat;
  a_fams : list (nlabel nat * family nat) }.

Definition a_tmatch (c : acase) (t x : nat) : bool := pair_mem (a_tm c) t x.
Definition a_tlen (c : acase) (x : nat) : nat := nth x (a_tl c) 0.
Definition a_occurs (c : acase) (x i : nat) : bool := pair_mem (a_oc c) x i.

Definition root_is (c : acase) : bool :=
  match a_root c with
  | NSym _ a i j => Nat.eqb a (a_start c) && Nat.eqb i 0 && Nat.eqb j (a_n c)
  | _ => false
  end.

(* every exported family is of the form the parser's add_family calls produce, and the root is (start, 0, n) *)
Definition check_forestA (c : acase) : bool :=
  forest_okb (a_G c) nat (a_tmatch c) (a_tlen c) (a_occurs c) (a_fams c) && root_is c.
