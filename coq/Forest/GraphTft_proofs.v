(* ForestToParseTree / TreeForestTransformer on graph forests (Forest/GraphTft.v), cyclic forests included:
   the coded walk [tw] terminates within its fuel, returns what the plain function [gta] computes, every tree it
   produces is a finite unfolding stored by the forest, and with resolve_ambiguity=False the trees are exactly the
   unfoldings in which no node occurs below itself. *)
From Coq Require Import List Arith Bool ZArith Lia.
From LV Require Import Base.Prelude Forest.Sppf Forest.Tft Forest.Prio_proofs Forest.Tft_proofs Cfg.Grammar
  Forest.ExplicitBuild Forest.GraphResolve Forest.GraphResolve_proofs Gen.ForestWalk Forest.GraphTft.
Import ListNotations.

Section Proofs.
  Variable tok : Type.
  Variable teqb : tok -> tok -> bool.
  Hypothesis teqb_spec : forall a b, teqb a b = true <-> a = b.
  Variable fams : list (nlabel tok * family tok).
  Variable order : nlabel tok -> list (family tok) -> list (family tok).
  Hypothesis order_perm : forall l fs f, In f (order l fs) <-> In f fs.
  Variable resolve : bool.

  Notation label := (nlabel tok).
  Notation leqb := (nlabel_eqb tok teqb).
  Notation F := (in_forest tok fams).
  Notation fams_of := (fams_of tok teqb fams).
  Notation tw := (tw tok teqb fams order resolve).
  Notation gta := (gta tok teqb fams order resolve).
  Notation on_path := (on_path tok teqb).
  Notation is_tok := (is_tok tok).

  Lemma leqb_spec (a b : label) : leqb a b = true <-> a = b.
  Proof. apply nlabel_eqb_spec. exact teqb_spec. Qed.
  Lemma leqb_refl (a : label) : leqb a a = true.
  Proof. apply leqb_spec. reflexivity. Qed.
  Lemma leqb_sym (a b : label) : leqb a b = leqb b a.
  Proof.
    destruct (leqb a b) eqn:E1, (leqb b a) eqn:E2; try reflexivity.
    - apply leqb_spec in E1. subst. rewrite leqb_refl in E2. discriminate.
    - apply leqb_spec in E2. subst. rewrite leqb_refl in E1. discriminate.
  Qed.

  (* the symbol nodes on a path *)
  Fixpoint plabels (path : list (tnode tok)) : list label :=
    match path with
    | [] => []
    | TS l :: r => l :: plabels r
    | TP _ _ :: r => plabels r
    end.

  Lemma plabels_app p q : plabels (p ++ q) = plabels p ++ plabels q.
  Proof. induction p as [|[l|l fm] p IH]; cbn; congruence. Qed.

  Lemma on_path_in c path : on_path c path = true <-> In c (plabels path).
  Proof.
    induction path as [|[l|l fm] p IH]; cbn.
    - split; [discriminate|tauto].
    - rewrite orb_true_iff, IH, leqb_spec. tauto.
    - exact IH.
  Qed.

  Lemma on_path_lmem c path : on_path c path = lmem tok teqb c (plabels path).
  Proof.
    destruct (on_path c path) eqn:E; symmetry.
    - apply (lmem_in tok teqb teqb_spec). apply on_path_in. exact E.
    - apply (lmem_not_in tok teqb teqb_spec). intros H. apply on_path_in in H. congruence.
  Qed.

  (* ---------------------------------------------------------------- termination *)
  Definition kid_labels : list label :=
    flat_map (fun lf : label * family tok => let '(_, (_, l, rt)) := lf in olist l ++ olist rt) fams.

  Lemma kid_labels_length : List.length kid_labels <= 2 * List.length fams.
  Proof.
    unfold kid_labels. induction fams as [|[lbl [[r l] rt]] fs IH]; cbn [flat_map List.length]; [lia|].
    rewrite !app_length. destruct l, rt; cbn [olist List.length]; lia.
  Qed.

  Lemma kid_in lbl r l rt c : F lbl (r, l, rt) -> In c (olist l ++ olist rt) -> In c kid_labels.
  Proof.
    intros HF Hc. unfold kid_labels. apply in_flat_map. exists (lbl, (r, l, rt)). split; [exact HF|exact Hc].
  Qed.

  Definition is_ok {A} (r : res A) : Prop := exists v, r = Ok v.

  Lemma fold_ok {A B} (f : res A -> B -> res A) l :
    (forall a b, In b l -> is_ok (f (Ok a) b)) -> forall acc, is_ok acc -> is_ok (fold_left f l acc).
  Proof.
    induction l as [|b l IH]; intros Hf acc Hacc; cbn [fold_left]; [exact Hacc|].
    apply IH; [intros a b' Hb; apply Hf; right; exact Hb|]. destruct Hacc as [a ->]. apply Hf. left. reflexivity.
  Qed.

  Lemma tw_S f path st lbl : is_tok lbl = false ->
    tw (S f) path st lbl = tw_symbol tok teqb fams order resolve (tw f) path st lbl.
  Proof. destruct lbl; cbn; [reflexivity|reflexivity|discriminate]. Qed.

  Lemma is_ok_bind {A B} (x : res A) (g : A -> res B) : is_ok x -> (forall a, is_ok (g a)) -> is_ok (rbind x g).
  Proof. intros [a ->] Hg. cbn. apply Hg. Qed.

  Lemma NoDup_snoc {A} (l : list A) x : NoDup l -> ~ In x l -> NoDup (l ++ [x]).
  Proof.
    induction l as [|y l IH]; cbn; intros Hnd Hx; [repeat constructor; intros []|].
    inversion Hnd; subst. constructor.
    - intros Hin. apply in_app_or in Hin. destruct Hin as [Hin|[<-|[]]]; tauto.
    - apply IH; tauto.
  Qed.

  Section Term.
    Variable root : label.
    Let U : list label := root :: kid_labels.

    Lemma tw_is_ok : forall fuel path st lbl,
      NoDup (plabels path) -> incl (plabels path) U -> In lbl U -> ~ In lbl (plabels path) ->
      2 * List.length fams + 3 <= fuel + List.length (plabels path) ->
      is_ok (tw fuel path st lbl).
    Proof.
      induction fuel as [|f IH]; intros path st lbl Hnd Hincl HU Hnp Hf.
      - exfalso.
        assert (List.length (plabels path) <= List.length U) by (apply NoDup_incl_length; assumption).
        pose proof kid_labels_length. subst U. cbn [List.length] in *. lia.
      - destruct (is_tok lbl) eqn:Et.
        { destruct lbl; try discriminate. cbn. eexists; reflexivity. }
        rewrite (tw_S _ _ _ _ Et). unfold tw_symbol.
        set (kids := if ftpt_sym_in_nothing (t_retreat st) then [] else order lbl (fams_of lbl)).
        assert (Hkids : forall fm, In fm kids -> F lbl fm).
        { intros fm Hfm. subst kids. destruct (ftpt_sym_in_nothing _); [destruct Hfm|].
          apply order_perm in Hfm. apply (fams_of_in tok teqb teqb_spec) in Hfm. exact Hfm. }
        assert (Hpl : forall fm, plabels ((path ++ [TS lbl]) ++ [TP lbl fm]) = plabels path ++ [lbl]).
        { intros fm. rewrite !plabels_app. cbn. rewrite app_nil_r. reflexivity. }
        assert (Hnd' : NoDup (plabels path ++ [lbl])).
        { apply NoDup_snoc; assumption. }
        assert (Hincl' : incl (plabels path ++ [lbl]) U).
        { intros x Hx. apply in_app_or in Hx. destruct Hx as [Hx|[<-|[]]]; auto. }
        apply is_ok_bind.
        + apply fold_ok; [|eexists; reflexivity].
          intros [[st1 succ] pdata] [[r l] rt] Hfm. unfold tw_packed. cbn [rbind].
          apply is_ok_bind.
          * apply fold_ok; [|eexists; reflexivity].
            intros [st2 data] c Hc. unfold tw_child. cbn [rbind].
            destruct (vl_iter_cycle _) eqn:Ecyc; [eexists; reflexivity|].
            apply is_ok_bind; [|intros [st3 v]; eexists; reflexivity].
            apply IH; rewrite ?Hpl; auto.
            -- right. apply (kid_in lbl r l rt); [apply Hkids; exact Hfm|].
               destruct (ftpt_packed_in_descends _ _ _ _); [exact Hc|destruct Hc].
            -- intros Hin. rewrite <- (Hpl (r, l, rt)) in Hin. apply on_path_in in Hin.
               unfold vl_iter_cycle in Ecyc. congruence.
            -- rewrite app_length. cbn. lia.
          * intros [st2 data]. destruct (check_cycle _ _ _ _). eexists; reflexivity.
        + intros [[st1 succ] data].
          match goal with |- is_ok (let '(_, _) := ?e in _) => destruct e end. eexists; reflexivity.
    Qed.
  End Term.

  (* the walk of transform(root) never exhausts its fuel, on any finite forest, cyclic or not, in both modes *)
  Theorem tft_walk_terminates root : exists r, tft_walk tok teqb fams order resolve root = Ok r.
  Proof.
    unfold tft_walk.
    destruct (tw_is_ok root (tw_fuel tok fams) [] (mkT ftpt_visit_retreat0 None []) root) as [[st v] ->].
    - constructor.
    - intros x [].
    - left. reflexivity.
    - intros [].
    - unfold tw_fuel. cbn. lia.
    - cbn [rbind]. eexists. reflexivity.
  Qed.
  (* ---------------------------------------------------------------- the walk computes [gta] *)
  Definition wrap1 (a : aalts tok) : list (aalts tok) := match a with [] => [] | _ => [a] end.
  Definition isnil {A} (l : list A) : bool := match l with [] => true | _ => false end.

  Lemma cross_nil_l {A} (R : list (list A)) : cross [] R = [].
  Proof. reflexivity. Qed.
  Lemma cross_unit_l {A} (R : list (list A)) : cross [[]] R = R.
  Proof. unfold cross. cbn. rewrite app_nil_r. apply map_id. Qed.
  Lemma cross_unit_r {A} (L : list (list A)) : cross L [[]] = L.
  Proof.
    unfold cross. induction L as [|l L IH]; cbn; [reflexivity|]. rewrite app_nil_r. f_equal. exact IH.
  Qed.
  Lemma isnil_cross {A} (L R : list (list A)) : isnil (cross L R) = isnil L || isnil R.
  Proof.
    destruct L as [|l L]; [reflexivity|]. destruct R as [|r R]; cbn.
    - clear l. induction L as [|l' L IH]; cbn; [reflexivity|exact IH].
    - reflexivity.
  Qed.
  Lemma isnil_map {A B} (f : A -> B) l : isnil (map f l) = isnil l.
  Proof. destruct l; reflexivity. Qed.

  Definition gsub (f : nat) (lp : list label) (o : option label) : aalts tok :=
    match o with None => [[]] | Some l => gta f lp l end.
  Definition fam_kids (f : nat) (lp : list label) (lbl : label) (fm : family tok) : aalts tok :=
    let '(r, l, rt) := fm in cross (gsub f (lbl :: lp) l) (gsub f (lbl :: lp) rt).
  Definition fam_val (f : nat) (lp : list label) (lbl : label) (fm : family tok) : aalts tok :=
    let '(r, l, rt) := fm in
    if is_inter tok lbl then fam_kids f lp lbl fm else map (fun a => [ANode r a]) (fam_kids f lp lbl fm).

  Lemma isnil_fam_val f lp lbl fm : isnil (fam_val f lp lbl fm) = isnil (fam_kids f lp lbl fm).
  Proof. destruct fm as [[r l] rt]. unfold fam_val. destruct (is_inter tok lbl); [reflexivity|apply isnil_map]. Qed.

  Lemma gta_S f lp lbl : is_tok lbl = false ->
    gta (S f) lp lbl =
    if lmem tok teqb lbl lp then []
    else let per_fam := map (fam_val f lp lbl) (order lbl (fams_of lbl)) in
         let kept := if resolve then first_nonempty per_fam else per_fam in
         if is_inter tok lbl then List.concat kept else awrap tok (List.concat (List.concat kept)).
  Proof.
    intros Et.
    assert (E : forall lbl0 : label,
      map (fun fm : family tok =>
             let '(r, l, rt) := fm in
             let kids := cross (match l with None => [[]] | Some l0 => gta f (lbl0 :: lp) l0 end)
                               (match rt with None => [[]] | Some l0 => gta f (lbl0 :: lp) l0 end) in
             if is_inter tok lbl0 then kids else map (fun a => [ANode r a]) kids) (order lbl0 (fams_of lbl0))
      = map (fam_val f lp lbl0) (order lbl0 (fams_of lbl0))).
    { intros lbl0. apply map_ext. intros [[r l] rt]. reflexivity. }
    destruct lbl; try discriminate; cbn [GraphTft.gta]; destruct (lmem _ _ _ _); try reflexivity;
      cbv zeta; rewrite E; reflexivity.
  Qed.

  (* what the loop over the packed children accumulates: membership in _successful_visits and the data list *)
  Definition step_pure (vals_of : family tok -> aalts tok) (acc : bool * list (aalts tok)) (fm : family tok)
    : bool * list (aalts tok) :=
    let '(succ, pdata) := acc in
    if resolve && succ then acc
    else if isnil (vals_of fm) then acc else (true, pdata ++ [vals_of fm]).

  Fixpoint nonempties {A} (l : list (list A)) : list (list A) :=
    match l with [] => [] | [] :: r => nonempties r | x :: r => x :: nonempties r end.

  Lemma concat_nonempties {A} (l : list (list A)) : List.concat (nonempties l) = List.concat l.
  Proof. induction l as [|[|a x] l IH]; cbn; congruence. Qed.
  Lemma first_nonempty_sub {A} (l : list (list A)) :
    first_nonempty l = match nonempties l with [] => [] | x :: _ => [x] end.
  Proof. induction l as [|[|a x] l IH]; cbn; auto. Qed.

  Lemma fold_step_pure vals_of ks : forall succ pdata,
    fold_left (step_pure vals_of) ks (succ, pdata) =
    (if resolve
     then if succ then (succ, pdata)
          else match nonempties (map vals_of ks) with [] => (false, pdata) | x :: _ => (true, pdata ++ [x]) end
     else (succ || negb (isnil (nonempties (map vals_of ks))), pdata ++ nonempties (map vals_of ks))).
  Proof.
    induction ks as [|fm ks IH]; intros succ pdata; cbn [fold_left map nonempties].
    - destruct resolve, succ; cbn; rewrite ?app_nil_r; reflexivity.
    - unfold step_pure at 2. destruct resolve eqn:Er; cbn [andb].
      + destruct succ.
        * rewrite IH. reflexivity.
        * destruct (vals_of fm) eqn:Ev; cbn [isnil].
          -- rewrite IH. reflexivity.
          -- rewrite IH. reflexivity.
      + destruct (vals_of fm) eqn:Ev; cbn [isnil].
        * rewrite IH. reflexivity.
        * rewrite IH. cbn [isnil negb]. rewrite orb_true_r, <- app_assoc. reflexivity.
  Qed.

  Hypothesis closed : forall lbl r l rt c, F lbl (r, l, rt) -> In c (olist l ++ olist rt) ->
    is_tok c = false -> fams_of c <> [].

  Definition tw_spec (fuel : nat) (lp : list label) (st : tst tok) (lbl : label) (st' : tst tok)
             (v : list (aalts tok)) : Prop :=
    match lbl with
    | NTok _ t x _ _ => v = [[[ALeaf t x]]] /\ gta fuel lp lbl = [[ALeaf t x]] /\ t_retreat st' = t_retreat st
    | _ => if t_retreat st then v = [] /\ t_retreat st' = true
           else v = wrap1 (gta fuel lp lbl) /\ t_retreat st' = isnil (gta fuel lp lbl)
    end.

  Lemma on_path_app c p q : on_path c (p ++ q) = on_path c p || on_path c q.
  Proof. induction p as [|[l|l fm] p IH]; cbn; [reflexivity| |exact IH]. rewrite IH. apply orb_assoc. Qed.

  Ltac gen_unfold :=
    cbv [ftpt_on_cycle_retreat ftpt_packed_in_retreat ftpt_check_outer ftpt_check_inner ftpt_sym_in_nothing
         ftpt_packed_in_descends ftpt_packed_out_marks ftpt_sym_out_fails ftpt_inter_out_fails
         ftpt_packed_out_skips ftpt_packed_out_cached ft_token_kept ft_out_kept vl_iter_cycle] in *.

  (* one child of a packed node *)
  Lemma child_step f path2 lp2 :
    (forall st c st' v, tw f path2 st c = Ok (st', v) -> on_path c path2 = false ->
                        (is_tok c = false -> fams_of c <> []) -> tw_spec f lp2 st c st' v) ->
    (forall c, on_path c path2 = lmem tok teqb c lp2) ->
    (forall c, is_tok c = true -> on_path c path2 = false) ->
    forall st data c st' data',
    (is_tok c = false -> fams_of c <> []) ->
    tw_child tok teqb (tw f) path2 (Ok (st, data)) c = Ok (st', data') ->
    if t_retreat st then t_retreat st' = true
    else t_retreat st' = isnil (gta f lp2 c) /\ data' = data ++ wrap1 (gta f lp2 c).
  Proof.
    intros IH Hlp Htok st data c st' data' Hc H. unfold tw_child in H. cbn [rbind] in H. gen_unfold.
    destruct (on_path c path2) eqn:Ep.
    - injection H as <- <-. cbn [t_retreat].
      destruct (t_retreat st); [reflexivity|].
      assert (Et : is_tok c = false) by (destruct (is_tok c) eqn:E; [rewrite (Htok c E) in Ep; discriminate|reflexivity]).
      assert (Eg : gta f lp2 c = []).
      { destruct f as [|f']; [reflexivity|]. rewrite (gta_S _ _ _ Et), <- Hlp, Ep. reflexivity. }
      rewrite Eg. cbn. rewrite app_nil_r. auto.
    - destruct (tw f path2 st c) as [[st1 v]| |] eqn:E; cbn [rbind] in H; try discriminate.
      injection H as <- <-. cbn [fst snd].
      pose proof (IH _ _ _ _ E Ep Hc) as Hs. unfold tw_spec in Hs.
      destruct c as [a i j|r0 d i j|t x i j].
      + destruct (t_retreat st); [tauto|]. destruct Hs as [-> ->]. auto.
      + destruct (t_retreat st); [tauto|]. destruct Hs as [-> ->]. auto.
      + destruct Hs as [-> [Eg ->]]. rewrite Eg. destruct (t_retreat st); cbn; auto.
  Qed.

  Lemma wrap1_nonempty (a : aalts tok) : isnil a = false -> wrap1 a = [a].
  Proof. destruct a; [discriminate|reflexivity]. Qed.

  (* a packed node *)
  Lemma packed_step f path1 lp lbl :
    (forall fm st c st' v, tw f (path1 ++ [TP lbl fm]) st c = Ok (st', v) -> on_path c (path1 ++ [TP lbl fm]) = false ->
                        (is_tok c = false -> fams_of c <> []) -> tw_spec f (lbl :: lp) st c st' v) ->
    (forall c, on_path c path1 = lmem tok teqb c (lbl :: lp)) ->
    (forall c, is_tok c = true -> on_path c path1 = false) ->
    forall st succ pdata fm st' succ' pdata',
    F lbl fm ->
    tw_packed tok teqb resolve (tw f) path1 lbl (Ok (st, succ, pdata)) fm = Ok (st', succ', pdata') ->
    (succ', pdata') = step_pure (fam_val f lp lbl) (succ, pdata) fm /\
    t_retreat st' = (if resolve && succ then false else isnil (fam_val f lp lbl fm)).
  Proof.
    intros IH Hlp Htok st succ pdata [[r l] rt] st' succ' pdata' HF H.
    unfold tw_packed in H. cbn [rbind] in H.
    set (me := TP lbl (r, l, rt)) in *.
    assert (Hlp2 : forall c, on_path c (path1 ++ [me]) = lmem tok teqb c (lbl :: lp)).
    { intros c. rewrite on_path_app. cbn. rewrite orb_false_r. apply Hlp. }
    assert (Htok2 : forall c, is_tok c = true -> on_path c (path1 ++ [me]) = false).
    { intros c Hc. rewrite on_path_app. cbn. rewrite orb_false_r. apply Htok. exact Hc. }
    pose proof (child_step f (path1 ++ [me]) (lbl :: lp) (IH (r, l, rt)) Hlp2 Htok2) as Hchild.
    unfold step_pure. gen_unfold. rewrite !orb_true_r, andb_true_r in H.
    replace (negb resolve || negb succ) with (negb (resolve && succ)) in H by (destruct resolve, succ; reflexivity).
    destruct (resolve && succ) eqn:Esk; cbn [negb] in H.
    - (* another alternative was kept: not entered *)
      cbn [fold_left rbind check_cycle t_retreat] in H. unfold check_cycle in H. gen_unfold. cbn [t_retreat] in H.
      cbn [is_some' negb push t_retreat] in H. injection H as <- <- <-.
      apply andb_true_iff in Esk. destruct Esk as [_ ->]. cbn. auto.
    - set (st0 := mkT false (t_cycle st) (TIn me (map TS (olist l ++ olist rt)) :: t_trace st)) in H.
      assert (Hcl : forall c, In c (olist l ++ olist rt) -> is_tok c = false -> fams_of c <> []).
      { intros c Hc. exact (closed lbl r l rt c HF Hc). }
      (* the children *)
      assert (Hkids : forall st1 data,
                fold_left (tw_child tok teqb (tw f) (path1 ++ [me])) (olist l ++ olist rt) (Ok (st0, [])) = Ok (st1, data) ->
                t_retreat st1 = isnil (fam_kids f lp lbl (r, l, rt)) /\
                (t_retreat st1 = false -> packed_kids tok (is_some' l) data = fam_kids f lp lbl (r, l, rt))).
      { intros st1 data Hf. unfold fam_kids. rewrite isnil_cross.
        destruct l as [a|], rt as [c|]; cbn [olist app fold_left gsub is_some'] in *.
        - destruct (tw_child tok teqb (tw f) (path1 ++ [me]) (Ok (st0, [])) a) as [[sta da]| |] eqn:Ea.
          2,3: (exfalso; clear - Hf; cbn in Hf; discriminate).
          pose proof (Hchild _ _ _ _ _ (Hcl a (or_introl eq_refl)) Ea) as Ha. cbn [t_retreat st0] in Ha.
          destruct Ha as [Hra ->]. cbn [app] in Hf.
          pose proof (Hchild _ _ _ _ _ (Hcl c (or_intror (or_introl eq_refl))) Hf) as Hc.
          rewrite Hra in Hc. destruct (isnil (gta f (lbl :: lp) a)) eqn:Ena.
          + split; [exact Hc|]. intros Hr. congruence.
          + destruct Hc as [Hrc ->]. split; [exact Hrc|]. intros Hr. rewrite Hrc in Hr.
            rewrite (wrap1_nonempty _ Ena), (wrap1_nonempty _ Hr). reflexivity.
        - pose proof (Hchild _ _ _ _ _ (Hcl a (or_introl eq_refl)) Hf) as Ha. cbn [t_retreat st0] in Ha.
          destruct Ha as [Hra ->]. cbn [isnil]. rewrite orb_false_r. split; [exact Hra|]. intros Hr. rewrite Hra in Hr.
          cbn [app]. rewrite (wrap1_nonempty _ Hr), cross_unit_r. reflexivity.
        - pose proof (Hchild _ _ _ _ _ (Hcl c (or_introl eq_refl)) Hf) as Hc. cbn [t_retreat st0] in Hc.
          destruct Hc as [Hrc ->]. cbn [isnil orb]. split; [exact Hrc|]. intros Hr. rewrite Hrc in Hr.
          cbn [app]. rewrite (wrap1_nonempty _ Hr), cross_unit_l. reflexivity.
        - injection Hf as <- <-. cbn. auto. }
      destruct (fold_left _ _ _) as [[st1 data]| |] eqn:Ef; cbn [rbind] in H; try discriminate.
      destruct (Hkids _ _ eq_refl) as [Hr Hk].
      unfold check_cycle in H. gen_unfold. cbn [orb] in H. rewrite isnil_fam_val.
      destruct (t_retreat st1) eqn:Er1.
      + cbn [is_some' negb push t_retreat] in H. injection H as <- <- <-. rewrite <- Hr. cbn.
        rewrite Er1, orb_false_r. auto.
      + cbn [is_some' negb push t_retreat olist] in H. injection H as <- <- <-. rewrite <- Hr.
        cbn [push t_retreat]. rewrite Er1. cbn [negb]. rewrite orb_true_r. split; [|reflexivity].
        unfold packed_value, fam_val. rewrite (Hk eq_refl). reflexivity.
  Qed.

  (* the loop over the packed children of a symbol node *)
  Lemma packed_fold f path1 lp lbl :
    (forall fm st c st' v, tw f (path1 ++ [TP lbl fm]) st c = Ok (st', v) -> on_path c (path1 ++ [TP lbl fm]) = false ->
                        (is_tok c = false -> fams_of c <> []) -> tw_spec f (lbl :: lp) st c st' v) ->
    (forall c, on_path c path1 = lmem tok teqb c (lbl :: lp)) ->
    (forall c, is_tok c = true -> on_path c path1 = false) ->
    forall ks st succ pdata st' succ' pdata',
    (forall fm, In fm ks -> F lbl fm) ->
    fold_left (tw_packed tok teqb resolve (tw f) path1 lbl) ks (Ok (st, succ, pdata)) = Ok (st', succ', pdata') ->
    (succ', pdata') = fold_left (step_pure (fam_val f lp lbl)) ks (succ, pdata) /\
    (ks <> [] -> succ' = false -> t_retreat st' = true).
  Proof.
    intros IH Hlp Htok. induction ks as [|fm ks IHk]; intros st succ pdata st' succ' pdata' HF H; cbn [fold_left] in *.
    - injection H as <- <- <-. split; [reflexivity|congruence].
    - destruct (tw_packed tok teqb resolve (tw f) path1 lbl (Ok (st, succ, pdata)) fm) as [[[st1 succ1] pdata1]| |] eqn:E.
      + destruct (packed_step f path1 lp lbl IH Hlp Htok _ _ _ _ _ _ _ (HF fm (or_introl eq_refl)) E) as [E1 Hr1].
        rewrite <- E1. destruct (IHk _ _ _ _ _ _ (fun fm' Hin => HF fm' (or_intror Hin)) H) as [E2 Hr2].
        split; [exact E2|]. intros _ Hs. destruct ks as [|fm2 ks']; [|apply Hr2; [discriminate|exact Hs]].
        cbn [fold_left] in *. injection H as <- <- <-. clear E2.
        unfold step_pure in E1. destruct (resolve && succ) eqn:Esk.
        * injection E1 as E1 _. apply andb_true_iff in Esk. destruct Esk; congruence.
        * destruct (isnil (fam_val f lp lbl fm)) eqn:En; [exact Hr1|]. injection E1 as E1 _. congruence.
      + exfalso. clear - H. induction ks as [|k ks IH]; cbn in H; [discriminate|]. apply IH. exact H.
      + exfalso. clear - H. induction ks as [|k ks IH]; cbn in H; [discriminate|]. apply IH. exact H.
  Qed.

  Lemma awrap_nil ts : isnil (awrap tok ts) = isnil ts.
  Proof. destruct ts as [|t [|t2 r]]; reflexivity. Qed.



  Lemma many_spec n : Z.gtb (Z.of_nat n) 1 = Nat.ltb 1 n.
  Proof.
    destruct (Nat.ltb_spec 1 n); destruct (Z.gtb_spec (Z.of_nat n) 1); try reflexivity; lia.
  Qed.

  Lemma symbol_value_awrap (data : list (aalts tok)) :
    olist (symbol_value tok data) = wrap1 (awrap tok (List.concat (List.concat data))).
  Proof.
    unfold symbol_value. cbv [ftpt_ambig_many]. rewrite many_spec.
    destruct (List.concat (List.concat data)) as [|t [|t2 ts]]; reflexivity.
  Qed.
  Lemma symbol_value_some (data : list (aalts tok)) :
    List.concat (List.concat data) <> [] -> is_some' (symbol_value tok data) = true.
  Proof.
    unfold symbol_value. cbv [ftpt_ambig_many]. rewrite many_spec.
    destruct (List.concat (List.concat data)) as [|t [|t2 ts]]; [congruence|reflexivity|reflexivity].
  Qed.

  Lemma inter_value_concat (data : list (aalts tok)) : inter_value tok data = List.concat data.
  Proof.
    unfold inter_value. cbv [ftpt_inter_many]. rewrite many_spec.
    destruct data as [|d [|d2 ds]]; cbn; rewrite ?app_nil_r; reflexivity.
  Qed.

  Lemma nonempties_hd {A} (l : list (list A)) x r : nonempties l = x :: r -> x <> [] /\ In x l.
  Proof.
    induction l as [|[|a y] l IH]; cbn; [discriminate| |].
    - intros H. destruct (IH H). auto.
    - intros [= <- _]. split; [discriminate|auto].
  Qed.

  Definition kept_data (vals : list (aalts tok)) : list (aalts tok) :=
    if resolve then match nonempties vals with [] => [] | x :: _ => [x] end else nonempties vals.

  Lemma kept_concat (vals : list (aalts tok)) :
    List.concat (if resolve then first_nonempty vals else vals) = List.concat (kept_data vals).
  Proof.
    unfold kept_data. destruct resolve; [rewrite first_nonempty_sub; reflexivity|rewrite concat_nonempties; reflexivity].
  Qed.

  Theorem tw_gta : forall fuel path st lbl st' v lp,
    tw fuel path st lbl = Ok (st', v) ->
    (forall c, on_path c path = lmem tok teqb c lp) ->
    (forall c, is_tok c = true -> on_path c path = false) ->
    on_path lbl path = false ->
    (is_tok lbl = false -> fams_of lbl <> []) ->
    tw_spec fuel lp st lbl st' v.
  Proof.
    induction fuel as [|f IH]; intros path st lbl st' v lp H Hlp Htok Hnp Hne; [discriminate|].
    destruct (is_tok lbl) eqn:Et.
    { destruct lbl; try discriminate. cbn in H. gen_unfold. cbn in H. injection H as <- <-. cbn. auto. }
    rewrite (tw_S _ _ _ _ Et) in H. unfold tw_symbol in H.
    assert (Hspec : tw_spec (S f) lp st lbl st' v =
                    if t_retreat st then v = [] /\ t_retreat st' = true
                    else v = wrap1 (gta (S f) lp lbl) /\ t_retreat st' = isnil (gta (S f) lp lbl)).
    { destruct lbl; try discriminate; reflexivity. }
    rewrite Hspec. clear Hspec.
    set (path1 := path ++ [TS lbl]) in *.
    assert (Hlp1 : forall c, on_path c path1 = lmem tok teqb c (lbl :: lp)).
    { intros c. unfold path1. rewrite on_path_app. cbn. rewrite orb_false_r, Hlp, leqb_sym. apply orb_comm. }
    assert (Htok1 : forall c, is_tok c = true -> on_path c path1 = false).
    { intros c Hc. unfold path1. rewrite on_path_app, (Htok c Hc). cbn. rewrite orb_false_r.
      destruct (leqb lbl c) eqn:E; [|reflexivity]. apply leqb_spec in E. congruence. }
    assert (IH1 : forall fm st c st' v, tw f (path1 ++ [TP lbl fm]) st c = Ok (st', v) ->
                    on_path c (path1 ++ [TP lbl fm]) = false ->
                    (is_tok c = false -> fams_of c <> []) -> tw_spec f (lbl :: lp) st c st' v).
    { intros fm st0 c st0' v0 H0 Hnp0 Hne0. apply (IH _ _ _ _ _ _ H0); auto.
      - intros c'. rewrite on_path_app. cbn. rewrite orb_false_r. apply Hlp1.
      - intros c' Hc'. rewrite on_path_app. cbn. rewrite orb_false_r. apply Htok1. exact Hc'. }
    pose proof (packed_fold f path1 lp lbl IH1 Hlp1 Htok1) as Hfold.
    gen_unfold.
    destruct (t_retreat st) eqn:Er.
    - (* entered while retreating: no children, Discard *)
      cbn [fold_left rbind] in H. cbn [negb] in H.
      replace (if is_inter tok lbl then true else true) with true in H by (destruct (is_inter tok lbl); reflexivity).
      cbn [is_some' negb olist push t_retreat] in H. injection H as <- <-. cbn. auto.
    - assert (Hks : order lbl (fams_of lbl) <> []).
      { specialize (Hne eq_refl). destruct (fams_of lbl) as [|f0 fs] eqn:Ef; [congruence|].
        assert (Hin : In f0 (order lbl (f0 :: fs))) by (apply order_perm; left; reflexivity).
        intros E. rewrite E in Hin. destruct Hin. }
      set (ks := order lbl (fams_of lbl)) in *.
      assert (HF : forall fm, In fm ks -> F lbl fm).
      { intros fm Hfm. apply order_perm in Hfm. apply (fams_of_in tok teqb teqb_spec) in Hfm. exact Hfm. }
      destruct (fold_left _ ks _) as [[[st1 succ] data]| |] eqn:Ef; cbn [rbind] in H; try discriminate.
      destruct (Hfold _ _ _ _ _ _ _ HF Ef) as [Ep Hr]. rewrite fold_step_pure in Ep. cbn [orb app] in Ep.
      set (vals := map (fam_val f lp lbl) ks) in *.
      assert (Esd : succ = negb (isnil (nonempties vals)) /\ data = kept_data vals).
      { unfold kept_data. destruct resolve; [destruct (nonempties vals)|]; injection Ep as -> ->; auto. }
      destruct Esd as [Es Ed]. clear Ep.
      assert (Hl : lmem tok teqb lbl lp = false) by (rewrite <- Hlp; exact Hnp).
      rewrite (gta_S _ _ _ Et), Hl. cbv zeta. fold ks. fold vals. rewrite kept_concat, <- Ed.
      replace (if is_inter tok lbl then negb succ else negb succ) with (negb succ) in H
        by (destruct (is_inter tok lbl); reflexivity).
      destruct (nonempties vals) as [|x r] eqn:En; cbn [isnil negb] in Es; subst succ; cbn [negb] in H.
      + (* every alternative was abandoned *)
        cbn [is_some' negb olist push t_retreat] in H. injection H as <- <-. cbn [push t_retreat].
        rewrite (Hr Hks eq_refl).
        assert (Hd0 : kept_data vals = []) by (unfold kept_data; rewrite En; destruct resolve; reflexivity).
        rewrite Ed, Hd0. cbn. destruct (is_inter tok lbl); auto.
      + destruct (nonempties_hd _ _ _ En) as [Hx Hxin].
        assert (Hd : exists ds, data = x :: ds).
        { rewrite Ed. unfold kept_data. rewrite En. destruct resolve; eauto. }
        destruct Hd as [ds Hd].
        assert (Hst2 : forall b, exists st2, check_cycle tok st1 b true = (false, st2) /\ t_retreat st2 = false).
        { intros b. unfold check_cycle. gen_unfold. rewrite orb_true_r.
          destruct (t_retreat st1) eqn:E1; eexists; split; try reflexivity; assumption. }
        destruct (Hst2 (olabel_eqb' tok teqb (t_cycle st1) lbl)) as [st2 [Ecc Hr2]]. rewrite Ecc in H.
        destruct (is_inter tok lbl) eqn:Ei.
        * cbn [is_some' negb olist push] in H. injection H as <- <-. cbn [push t_retreat]. rewrite Hr2.
          rewrite inter_value_concat. rewrite Hd. cbn [List.concat].
          destruct x as [|a x']; [congruence|]. cbn. auto.
        * assert (Hne2 : List.concat (List.concat data) <> []).
          { rewrite Hd. cbn [List.concat]. unfold vals in Hxin. apply in_map_iff in Hxin.
            destruct Hxin as [[[r0 l0] rt0] [Ex _]]. unfold fam_val in Ex. rewrite Ei in Ex.
            destruct (fam_kids f lp lbl (r0, l0, rt0)) as [|k ks']; cbn in Ex; [congruence|]. subst x. cbn. discriminate. }
          rewrite (symbol_value_some _ Hne2) in H. cbn [negb] in H. injection H as <- <-. cbn [push t_retreat].
          rewrite Hr2, symbol_value_awrap.
          destruct (List.concat (List.concat data)) as [|t [|t2 ts]]; [congruence| |]; cbn; auto.
  Qed.

  (* ---------------------------------------------------------------- what [gta] denotes *)
  (* the unfoldings in which no node occurs below itself ([lp]: the nodes above) *)
  Inductive sden : list label -> label -> list (dt tok) -> Prop :=
  | sden_tok lp t x i j : sden lp (NTok tok t x i j) [DL tok t x]
  | sden_fam lp lbl r l rt ds1 ds2 :
      is_tok lbl = false -> ~ In lbl lp -> F lbl (r, l, rt) ->
      sden_opt (lbl :: lp) l ds1 -> sden_opt (lbl :: lp) rt ds2 -> sden lp lbl (pack tok lbl r (ds1 ++ ds2))
  with sden_opt : list label -> option label -> list (dt tok) -> Prop :=
  | sdeno_none lp : sden_opt lp None []
  | sdeno_some lp l ds : sden lp l ds -> sden_opt lp (Some l) ds.

  Scheme sden_mind := Minimality for sden Sort Prop
    with sden_opt_mind := Minimality for sden_opt Sort Prop.
  Combined Scheme sden_mutind from sden_mind, sden_opt_mind.

  Lemma sden_den : (forall lp l ds, sden lp l ds -> den tok F l ds) /\
                   (forall lp o ds, sden_opt lp o ds -> den_opt tok F o ds).
  Proof.
    apply sden_mutind; intros.
    - constructor.
    - eapply den_fam; eassumption.
    - constructor.
    - constructor. assumption.
  Qed.

  Definition aex (x : list (dt tok)) (a : list (atree tok)) : Prop := Forall2 (fun xi ai => In xi (aexpand tok ai)) x a.

  Lemma in_lprod_aexpand x a : In x (lprod (map (aexpand tok) a)) <-> aex x a.
  Proof.
    rewrite in_lprod. unfold aex. revert x. induction a as [|t a IH]; intros x; cbn [map]; split; intros H;
      inversion H; subst; constructor; try assumption; apply IH; assumption.
  Qed.
  Lemma in_axalts x A : In x (axalts tok A) <-> exists a, In a A /\ aex x a.
  Proof.
    unfold axalts. rewrite in_flat_map. split; intros [a [Ha H]]; exists a; (split; [exact Ha|]);
      apply in_lprod_aexpand; exact H.
  Qed.
  Lemma axalts_cross x A B :
    In x (axalts tok (cross A B)) <-> exists x1 x2, x = x1 ++ x2 /\ In x1 (axalts tok A) /\ In x2 (axalts tok B).
  Proof.
    rewrite in_axalts. split.
    - intros [a [Ha He]]. apply in_cross_inv in Ha. destruct Ha as [l [r [-> [Hl Hr]]]].
      apply Forall2_app_inv_r in He. destruct He as [x1 [x2 [H1 [H2 ->]]]].
      exists x1, x2. split; [reflexivity|]. split; apply in_axalts; eauto.
    - intros [x1 [x2 [-> [H1 H2]]]]. apply in_axalts in H1. apply in_axalts in H2.
      destruct H1 as [a1 [Ha1 He1]]. destruct H2 as [a2 [Ha2 He2]].
      exists (a1 ++ a2). split; [apply in_cross; assumption|apply Forall2_app; assumption].
  Qed.
  Lemma axalts_unit x : In x (axalts tok [[]]) <-> x = [].
  Proof. cbn. intuition. Qed.
  Lemma axalts_awrap x ts :
    In x (axalts tok (awrap tok ts)) <-> exists t d, In t ts /\ In d (aexpand tok t) /\ x = [d].
  Proof.
    destruct ts as [|t [|t2 r]]; cbn [awrap axalts flat_map map lprod].
    - split; [intros []|intros [t [d [[] _]]]].
    - rewrite app_nil_r, in_flat_map. split.
      + intros [d [Hd [<-|[]]]]. exists t, d. auto using in_eq.
      + intros [t' [d [[<-|[]] [Hd ->]]]]. exists d. split; [exact Hd|left; reflexivity].
    - rewrite app_nil_r, in_flat_map. split.
      + intros [d [Hd [<-|[]]]]. cbn [aexpand] in Hd. apply in_flat_map in Hd. destruct Hd as [t' [Ht' Hd]].
        exists t', d. auto.
      + intros [t' [d [Ht' [Hd ->]]]]. exists d. split; [|left; reflexivity].
        cbn [aexpand]. apply in_flat_map. eauto.
  Qed.

  Lemma first_nonempty_incl {A} (l : list (list A)) x : In x (first_nonempty l) -> In x l.
  Proof. induction l as [|[|a y] l IH]; cbn; [tauto| |]; intros H; [right; auto|destruct H as [<-|[]]; left; reflexivity]. Qed.

  Lemma kept_incl (vals : list (aalts tok)) x :
    In x (if resolve then first_nonempty vals else vals) -> In x vals.
  Proof. destruct resolve; [apply first_nonempty_incl|auto]. Qed.

  Lemma gsub_sound f lp o :
    (forall l ds, In ds (axalts tok (gta f lp l)) -> sden lp l ds) ->
    forall ds, In ds (axalts tok (gsub f lp o)) -> sden_opt lp o ds.
  Proof.
    intros IH ds H. destruct o as [l|]; cbn [gsub] in H.
    - constructor. apply IH. exact H.
    - apply axalts_unit in H. subst. constructor.
  Qed.

  (* both modes: whatever the walk produces is an unfolding in which no node occurs below itself *)
  Theorem gta_sound : forall fuel lp lbl ds, In ds (axalts tok (gta fuel lp lbl)) -> sden lp lbl ds.
  Proof.
    induction fuel as [|f IH]; intros lp lbl ds H; [destruct H|].
    destruct (is_tok lbl) eqn:Et.
    { destruct lbl; try discriminate. cbn in H. destruct H as [<-|[]]. constructor. }
    rewrite (gta_S _ _ _ Et) in H. destruct (lmem tok teqb lbl lp) eqn:El; [destruct H|].
    apply (lmem_not_in tok teqb teqb_spec) in El. cbv zeta in H.
    set (vals := map (fam_val f lp lbl) (order lbl (fams_of lbl))) in *.
    assert (Hfam : forall v, In v (if resolve then first_nonempty vals else vals) ->
               exists r l rt, F lbl (r, l, rt) /\ v = fam_val f lp lbl (r, l, rt)).
    { intros v Hv. apply kept_incl in Hv. unfold vals in Hv. apply in_map_iff in Hv.
      destruct Hv as [[[r l] rt] [<- Hin]]. exists r, l, rt. split; [|reflexivity].
      apply order_perm in Hin. apply (fams_of_in tok teqb teqb_spec) in Hin. exact Hin. }
    assert (Hkids : forall r l rt cs, F lbl (r, l, rt) -> In cs (axalts tok (fam_kids f lp lbl (r, l, rt))) ->
               exists ds1 ds2, cs = ds1 ++ ds2 /\ sden_opt (lbl :: lp) l ds1 /\ sden_opt (lbl :: lp) rt ds2).
    { intros r l rt cs HF Hcs. unfold fam_kids in Hcs. apply axalts_cross in Hcs.
      destruct Hcs as [x1 [x2 [-> [H1 H2]]]]. exists x1, x2. split; [reflexivity|].
      split; eapply gsub_sound; eauto. }
    destruct (is_inter tok lbl) eqn:Ei.
    - apply in_axalts in H. destruct H as [a [Ha He]]. apply in_concat in Ha. destruct Ha as [v [Hv Ha]].
      assert (Hds : In ds (axalts tok v)) by (apply in_axalts; eauto).
      destruct (Hfam v Hv) as [r [l [rt [HF ->]]]]. unfold fam_val in Hds. rewrite Ei in Hds.
      destruct (Hkids _ _ _ _ HF Hds) as [ds1 [ds2 [-> [H1 H2]]]].
      replace (ds1 ++ ds2) with (pack tok lbl r (ds1 ++ ds2)) by (destruct lbl; try discriminate; reflexivity).
      apply (sden_fam lp lbl r l rt ds1 ds2); assumption.
    - apply axalts_awrap in H. destruct H as [t [d [Ht [Hd ->]]]].
      apply in_concat in Ht. destruct Ht as [w [Hw Ht]]. apply in_concat in Hw. destruct Hw as [v [Hv Hw]].
      destruct (Hfam v Hv) as [r [l [rt [HF ->]]]]. unfold fam_val in Hw. rewrite Ei in Hw.
      apply in_map_iff in Hw. destruct Hw as [a [<- Ha]]. destruct Ht as [<-|[]].
      cbn [aexpand] in Hd. apply in_map_iff in Hd. destruct Hd as [cs [<- Hcs]].
      assert (Hcs' : In cs (axalts tok (fam_kids f lp lbl (r, l, rt)))).
      { apply in_axalts. exists a. split; [exact Ha|]. apply in_lprod_aexpand. exact Hcs. }
      destruct (Hkids _ _ _ _ HF Hcs') as [ds1 [ds2 [-> [H1 H2]]]].
      replace [DN tok r (ds1 ++ ds2)] with (pack tok lbl r (ds1 ++ ds2)) by (destruct lbl; try discriminate; reflexivity).
      apply (sden_fam lp lbl r l rt ds1 ds2); assumption.
  Qed.

  Lemma axalts_concat x (L : list (aalts tok)) :
    In x (axalts tok (List.concat L)) <-> exists v, In v L /\ In x (axalts tok v).
  Proof.
    rewrite in_axalts. split.
    - intros [a [Ha He]]. apply in_concat in Ha. destruct Ha as [v [Hv Ha]]. exists v. split; [exact Hv|].
      apply in_axalts. eauto.
    - intros [v [Hv Hx]]. apply in_axalts in Hx. destruct Hx as [a [Ha He]]. exists a. split; [|exact He].
      apply in_concat. eauto.
  Qed.

  (* resolve_ambiguity=False: every such unfolding is produced *)
  Section Complete.
    Hypothesis ambig_mode : resolve = false.
    Variable root : label.
    Let U : list label := root :: kid_labels.

    Lemma gta_complete_aux :
      (forall lp lbl ds, sden lp lbl ds -> forall fuel, NoDup lp -> incl lp U -> In lbl U ->
         List.length U + 2 <= fuel + List.length lp -> In ds (axalts tok (gta fuel lp lbl))) /\
      (forall lp o ds, sden_opt lp o ds -> forall f, NoDup lp -> incl lp U -> (forall c, o = Some c -> In c U) ->
         List.length U + 2 <= f + List.length lp -> In ds (axalts tok (gsub f lp o))).
    Proof.
      apply sden_mutind.
      - intros lp t x i j fuel Hnd Hincl HU Hf.
        assert (List.length lp <= List.length U) by (apply NoDup_incl_length; assumption).
        destruct fuel as [|f]; [lia|]. cbn. auto.
      - intros lp lbl r l rt ds1 ds2 Et Hnp HF _ IH1 _ IH2 fuel Hnd Hincl HU Hf.
        assert (List.length lp <= List.length U) by (apply NoDup_incl_length; assumption).
        destruct fuel as [|f]; [lia|]. rewrite (gta_S _ _ _ Et).
        apply (lmem_not_in tok teqb teqb_spec) in Hnp. rewrite Hnp. apply (lmem_not_in tok teqb teqb_spec) in Hnp.
        cbv zeta. rewrite ambig_mode.
        assert (Hnd' : NoDup (lbl :: lp)) by (constructor; assumption).
        assert (Hincl' : incl (lbl :: lp) U) by (intros q [<-|Hq]; auto).
        assert (Hkid : forall o, (o = l \/ o = rt) -> forall c, o = Some c -> In c U).
        { intros o Ho c ->. right. apply (kid_in lbl r l rt); [exact HF|].
          destruct Ho as [<-|<-]; cbn [olist]; apply in_or_app; [left|right]; left; reflexivity. }
        assert (Hf' : List.length U + 2 <= f + List.length (lbl :: lp)) by (cbn [List.length]; lia).
        specialize (IH1 f Hnd' Hincl' (Hkid l (or_introl eq_refl)) Hf').
        specialize (IH2 f Hnd' Hincl' (Hkid rt (or_intror eq_refl)) Hf').
        assert (Hcs : In (ds1 ++ ds2) (axalts tok (fam_kids f lp lbl (r, l, rt)))).
        { unfold fam_kids. apply axalts_cross. eauto. }
        assert (Hin : In (fam_val f lp lbl (r, l, rt)) (map (fam_val f lp lbl) (order lbl (fams_of lbl)))).
        { apply in_map. apply order_perm. apply (fams_of_in tok teqb teqb_spec). exact HF. }
        destruct (is_inter tok lbl) eqn:Ei.
        + replace (pack tok lbl r (ds1 ++ ds2)) with (ds1 ++ ds2) by (destruct lbl; try discriminate; reflexivity).
          apply axalts_concat. eexists. split; [exact Hin|]. unfold fam_val. rewrite Ei. exact Hcs.
        + replace (pack tok lbl r (ds1 ++ ds2)) with [DN tok r (ds1 ++ ds2)] by (destruct lbl; try discriminate; reflexivity).
          apply in_axalts in Hcs. destruct Hcs as [a [Ha He]].
          apply axalts_awrap. exists (ANode r a), (DN tok r (ds1 ++ ds2)). split; [|split; [|reflexivity]].
          * apply in_concat. exists [ANode r a]. split; [|left; reflexivity].
            apply in_concat. eexists. split; [exact Hin|]. unfold fam_val. rewrite Ei.
            apply in_map_iff. exists a. auto.
          * cbn [aexpand]. apply in_map. apply in_lprod_aexpand. exact He.
      - intros lp f _ _ _ _. cbn. auto.
      - intros lp l ds _ IH f Hnd Hincl Hc Hf. cbn [gsub]. apply IH; auto.
    Qed.
  End Complete.

  (* TreeForestTransformer(resolve_ambiguity=False) on any graph forest, cyclic or not: the trees denoted by the
     result are exactly the unfoldings in which no node occurs below itself *)
  Theorem gta_exact root ds : resolve = false ->
    (In ds (axalts tok (gta (tw_fuel tok fams) [] root)) <-> sden [] root ds).
  Proof.
    intros Hm. split; [apply gta_sound|].
    intros H. apply (proj1 (gta_complete_aux Hm root) _ _ _ H).
    - constructor.
    - intros q [].
    - left. reflexivity.
    - pose proof kid_labels_length. unfold tw_fuel. cbn [List.length]. lia.
  Qed.

  (* the resolve walk of Forest/GraphResolve.v returns such an unfolding, hence (graph_resolve_total) one exists
     whenever the forest stores any unfolding at all *)
  Lemma gres_simple : forall fuel path lbl ds,
    gres tok teqb fams order fuel path lbl = Some ds -> sden path lbl ds.
  Proof.
    induction fuel as [|f IH]; intros path lbl ds; [discriminate|].
    destruct (is_tok lbl) eqn:Et.
    - destruct lbl; try discriminate. cbn. intros [= <-]. constructor.
    - rewrite (gres_nontok tok teqb fams order _ _ _ Et). destruct (lmem tok teqb lbl path) eqn:El; [discriminate|].
      apply (lmem_not_in tok teqb teqb_spec) in El.
      intros H. apply first_some_some in H. destruct H as [[[r l] rt] [Hin Htry]].
      apply order_perm in Hin. apply (fams_of_in tok teqb teqb_spec) in Hin. unfold try_fam in Htry.
      destruct (GraphResolve_proofs.sub tok teqb fams order f (lbl :: path) l) as [d1|] eqn:E1; [|discriminate].
      destruct (GraphResolve_proofs.sub tok teqb fams order f (lbl :: path) rt) as [d2|] eqn:E2; [|discriminate].
      injection Htry as <-.
      apply (sden_fam path lbl r l rt d1 d2); [exact Et|exact El|exact Hin| |].
      + destruct l as [l0|]; cbn [GraphResolve_proofs.sub] in E1; [constructor; apply (IH _ _ _ E1)|].
        injection E1 as <-. constructor.
      + destruct rt as [l0|]; cbn [GraphResolve_proofs.sub] in E2; [constructor; apply (IH _ _ _ E2)|].
        injection E2 as <-. constructor.
  Qed.

  Theorem den_has_simple lbl ds : den tok F lbl ds -> exists ds', sden [] lbl ds'.
  Proof.
    intros H. pose proof (gres_total tok teqb teqb_spec fams order order_perm _ _ H) as Hne.
    destruct (gres tok teqb fams order (S (List.length fams)) [] lbl) as [ds'|] eqn:E; [|congruence].
    exists ds'. exact (gres_simple _ _ _ _ E).
  Qed.

  (* on an acyclic forest every stored unfolding is of that kind *)
  Section Acyclic.
    Variable rk : label -> nat.
    Hypothesis ranked : forall lbl r l rt c, F lbl (r, l, rt) -> In c (olist l ++ olist rt) -> rk c < rk lbl.
    Hypothesis tok_no_family : forall t x i j f, ~ F (NTok tok t x i j) f.

    Lemma den_sden :
      (forall l ds, den tok F l ds -> forall lp, (forall q, In q lp -> rk l < rk q) -> sden lp l ds) /\
      (forall o ds, den_opt tok F o ds -> forall lp, (forall q c, In q lp -> o = Some c -> rk c < rk q) -> sden_opt lp o ds).
    Proof.
      apply (den_mutind tok F).
      - intros. constructor.
      - intros lbl r l rt ds1 ds2 HF _ IH1 _ IH2 lp Hlp.
        assert (Et : is_tok lbl = false).
        { destruct lbl; try reflexivity. exfalso. exact (tok_no_family _ _ _ _ _ HF). }
        assert (Hk : forall o, (o = l \/ o = rt) -> forall q c, In q (lbl :: lp) -> o = Some c -> rk c < rk q).
        { intros o Ho q c Hq ->.
          assert (Hc : rk c < rk lbl).
          { apply (ranked lbl r l rt c HF). destruct Ho as [<-|<-]; cbn [olist]; apply in_or_app; [left|right]; left; reflexivity. }
          destruct Hq as [<-|Hq]; [exact Hc|]. specialize (Hlp q Hq). lia. }
        apply (sden_fam lp lbl r l rt ds1 ds2); [exact Et| |exact HF| |].
        + intros Hin. specialize (Hlp lbl Hin). lia.
        + apply IH1. apply Hk. left. reflexivity.
        + apply IH2. apply Hk. right. reflexivity.
      - intros. constructor.
      - intros l ds _ IH lp Hlp. constructor. apply IH. intros q Hq. apply (Hlp q l Hq eq_refl).
    Qed.

    Theorem sden_iff_den lbl ds : sden [] lbl ds <-> den tok F lbl ds.
    Proof.
      split; [apply (proj1 sden_den)|]. intros H. apply (proj1 den_sden _ _ H). intros q [].
    Qed.
  End Acyclic.

  (* ---------------------------------------------------------------- transform(root) *)
  Lemma gta_sym_shape fuel a i j : gta fuel [] (NSym tok a i j) = [] \/ exists t, gta fuel [] (NSym tok a i j) = [[t]].
  Proof.
    destruct fuel as [|f]; [left; reflexivity|]. rewrite gta_S by reflexivity. cbn [lmem is_inter]. cbv zeta.
    destruct (List.concat (List.concat _)) as [|t [|t2 r]]; cbn [awrap]; eauto.
  Qed.

  Lemma axalts_single (t : atree tok) ds : In ds (axalts tok [[t]]) <-> exists d, ds = [d] /\ In d (aexpand tok t).
  Proof.
    cbn [axalts flat_map map lprod]. rewrite app_nil_r, in_flat_map. split.
    - intros [d [Hd [<-|[]]]]. eauto.
    - intros [d [-> Hd]]. exists d. split; [exact Hd|left; reflexivity].
  Qed.

  (* every alternative the walk hands on stands for at least one child sequence *)
  Lemma gta_inhabited : forall fuel lp lbl a, In a (gta fuel lp lbl) -> exists x, aex x a.
  Proof.
    induction fuel as [|f IH]; intros lp lbl a H; [destruct H|].
    destruct (is_tok lbl) eqn:Et.
    { destruct lbl; try discriminate. cbn in H. destruct H as [<-|[]]. exists [DL tok t x]. repeat constructor. }
    rewrite (gta_S _ _ _ Et) in H. destruct (lmem tok teqb lbl lp); [destruct H|]. cbv zeta in H.
    set (vals := map (fam_val f lp lbl) (order lbl (fams_of lbl))) in *.
    assert (Hkids : forall fm c, In c (fam_kids f lp lbl fm) -> exists x, aex x c).
    { intros [[r l] rt] c Hc. unfold fam_kids in Hc. apply in_cross_inv in Hc. destruct Hc as [c1 [c2 [-> [H1 H2]]]].
      assert (Hs : forall o c', In c' (gsub f (lbl :: lp) o) -> exists x, aex x c').
      { intros [l0|] c' Hc'; cbn [gsub] in Hc'; [eapply IH; eassumption|]. destruct Hc' as [<-|[]]. exists []. constructor. }
      destruct (Hs _ _ H1) as [x1 Hx1]. destruct (Hs _ _ H2) as [x2 Hx2]. exists (x1 ++ x2). apply Forall2_app; assumption. }
    destruct (is_inter tok lbl) eqn:Ei.
    - apply in_concat in H. destruct H as [v [Hv Ha]]. apply kept_incl in Hv. unfold vals in Hv.
      apply in_map_iff in Hv. destruct Hv as [[[r l] rt] [<- _]]. unfold fam_val in Ha. rewrite Ei in Ha. eapply Hkids; eassumption.
    - assert (Htrees : forall t, In t (List.concat (List.concat (if resolve then first_nonempty vals else vals))) ->
                                 exists d, In d (aexpand tok t)).
      { intros t Ht. apply in_concat in Ht. destruct Ht as [w [Hw Ht]]. apply in_concat in Hw. destruct Hw as [v [Hv Hw]].
        apply kept_incl in Hv. unfold vals in Hv. apply in_map_iff in Hv. destruct Hv as [[[r l] rt] [<- _]].
        unfold fam_val in Hw. rewrite Ei in Hw. apply in_map_iff in Hw. destruct Hw as [c [<- Hc]]. destruct Ht as [<-|[]].
        destruct (Hkids _ _ Hc) as [x Hx]. exists (DN tok r x). cbn [aexpand]. apply in_map. apply in_lprod_aexpand. exact Hx. }
      destruct (List.concat (List.concat _)) as [|t [|t2 ts]] eqn:Ec; cbn [awrap] in H; [destruct H| |]; destruct H as [<-|[]].
      + destruct (Htrees t (or_introl eq_refl)) as [d Hd]. exists [d]. repeat constructor. exact Hd.
      + destruct (Htrees t (or_introl eq_refl)) as [d Hd]. exists [d]. repeat constructor. cbn [aexpand flat_map].
        apply in_or_app. left. exact Hd.
  Qed.

  (* both modes, every forest: each tree the result stands for is a finite unfolding stored by the forest, and the
     result stands for at least one *)
  Theorem graph_tft_sound a i j t :
    graph_tft tok teqb fams order resolve (NSym tok a i j) = Some t ->
    (forall d, In d (aexpand tok t) -> den tok F (NSym tok a i j) [d]) /\ aexpand tok t <> [].
  Proof.
    unfold graph_tft. intros H. destruct (gta_sym_shape (tw_fuel tok fams) a i j) as [E|[t0 E]]; rewrite E in H;
      [discriminate|]. injection H as <-. split.
    - intros d Hd. apply (proj1 sden_den []). apply gta_sound with (fuel := tw_fuel tok fams).
      rewrite E. apply axalts_single. eauto.
    - destruct (gta_inhabited (tw_fuel tok fams) [] (NSym tok a i j) [t0]) as [x Hx]; [rewrite E; left; reflexivity|].
      inversion Hx as [|d0 t1 x' a' Hd _]; subst. intros Hnil. rewrite Hnil in Hd. destruct Hd.
  Qed.

  (* resolve_ambiguity=False: exactly the unfoldings in which no node occurs below itself, and a tree is returned
     exactly when the forest stores some finite unfolding below the root (retreating from cycles loses none) *)
  Theorem graph_tft_exact a i j : resolve = false ->
    (forall t, graph_tft tok teqb fams order resolve (NSym tok a i j) = Some t ->
               forall d, In d (aexpand tok t) <-> sden [] (NSym tok a i j) [d]) /\
    (graph_tft tok teqb fams order resolve (NSym tok a i j) <> None <-> exists d, den tok F (NSym tok a i j) [d]).
  Proof.
    intros Hm. unfold graph_tft. split.
    - intros t H d. destruct (gta_sym_shape (tw_fuel tok fams) a i j) as [E|[t0 E]]; rewrite E in H; [discriminate|].
      injection H as <-. rewrite <- (gta_exact _ _ Hm), E, axalts_single. split.
      + intros Hd. eauto.
      + intros [d' [[= <-] Hd]]. exact Hd.
    - split.
      + intros H. destruct (graph_tft tok teqb fams order resolve (NSym tok a i j)) as [t|] eqn:Eg.
        * destruct (graph_tft_sound _ _ _ _ Eg) as [Hs Hne]. destruct (aexpand tok t) as [|d r] eqn:Ed; [congruence|].
          exists d. apply Hs. left. reflexivity.
        * exfalso. apply H. exact Eg.
      + intros [d Hd]. destruct (den_has_simple _ _ Hd) as [ds' Hs].
        apply (gta_exact _ _ Hm) in Hs. destruct (gta_sym_shape (tw_fuel tok fams) a i j) as [E|[t0 E]]; rewrite E in *.
        * destruct Hs.
        * discriminate.
  Qed.

  (* the coded walk (Gen/ForestWalk.v conditions, retreat flag, cycle node, successful visits, data lists) returns what
     [gta] computes, on every closed forest *)
  Theorem tft_walk_computes root tr res :
    (is_tok root = false -> fams_of root <> []) ->
    tft_walk tok teqb fams order resolve root = Ok (tr, res) ->
    res = match gta (tw_fuel tok fams) [] root with [] => None | v => Some v end.
  Proof.
    intros Hroot H. unfold tft_walk in H.
    destruct (GraphTft.tw tok teqb fams order resolve (tw_fuel tok fams) [] _ root) as [[st v]| |] eqn:E; cbn [rbind] in H;
      try discriminate. injection H as _ <-. cbn [snd].
    pose proof (tw_gta _ _ _ _ _ _ [] E (fun c => eq_refl) (fun c _ => eq_refl) eq_refl Hroot) as Hs.
    unfold tw_spec in Hs. cbv [ftpt_visit_retreat0] in Hs. cbn [t_retreat] in Hs.
    destruct root as [a i j|r0 d i j|t x i j].
    - destruct Hs as [-> _]. destruct (gta _ _ _); reflexivity.
    - destruct Hs as [-> _]. destruct (gta _ _ _); reflexivity.
    - destruct Hs as [-> [-> _]]. reflexivity.
  Qed.
End Proofs.
