(* ForestToParseTree / TreeForestTransformer on graph forests (Forest/GraphTft.v), cyclic forests included:
   the coded walk [tw] terminates within its fuel, returns what the plain function [gta] computes, every tree it
   produces is a finite unfolding stored by the forest, and with resolve_ambiguity=False the trees are exactly the
   unfoldings in which no node occurs below itself. *)
From Coq Require Import List Arith Bool ZArith Lia.
From LV Require Import Base.Prelude Forest.Sppf Forest.Tft Forest.Prio_proofs Forest.Tft_proofs Cfg.Grammar
  Forest.ExplicitBuild Forest.GraphResolve Forest.GraphResolve_proofs Gen.ForestWalk Forest.GraphTft.
Import ListNotations.

Section Proofs.
  Variable tok : Type.
  Variable teqb : tok -> tok -> bool.
  Hypothesis teqb_spec : forall a b, teqb a b = true <-> a = b.
  Variable fams : list (nlabel tok * family tok).
  Variable order : nlabel tok -> list (family tok) -> list (family tok).
  Hypothesis order_perm : forall l fs f, In f (order l fs) <-> In f fs.
  Variable resolve : bool.

  Notation label := (nlabel tok).
  Notation leqb := (nlabel_eqb tok teqb).
  Notation F := (in_forest tok fams).
  Notation fams_of := (fams_of tok teqb fams).
  Notation tw := (tw tok teqb fams order resolve).
  Notation gta := (gta tok teqb fams order resolve).
  Notation on_path := (on_path tok teqb).
  Notation is_tok := (is_tok tok).

  Lemma leqb_spec (a b : label) : leqb a b = true <-> a = b.
  Proof. apply nlabel_eqb_spec. exact teqb_spec. Qed.
  Lemma leqb_refl (a : label) : leqb a a = true.
  Proof. apply leqb_spec. reflexivity. Qed.
  Lemma leqb_sym (a b : label) : leqb a b = leqb b a.
  Proof.
    destruct (leqb a b) eqn:E1, (leqb b a) eqn:E2; try reflexivity.
    - apply leqb_spec in E1. subst. rewrite leqb_refl in E2. discriminate.
    - apply leqb_spec in E2. subst. rewrite leqb_refl in E1. discriminate.
  Qed.

  (* the symbol nodes on a path *)
  Fixpoint plabels (path : list (tnode tok)) : list label :=
    match path with
    | [] => []
    | TS l :: r => l :: plabels r
    | TP _ _ :: r => plabels r
    end.

  Lemma plabels_app p q : plabels (p ++ q) = plabels p ++ plabels q.
  Proof. induction p as [|[l|l fm] p IH]; cbn; congruence. Qed.

  Lemma on_path_in c path : on_path c path = true <-> In c (plabels path).
  Proof.
    induction path as [|[l|l fm] p IH]; cbn.
    - split; [discriminate|tauto].
    - rewrite orb_true_iff, IH, leqb_spec. tauto.
    - exact IH.
  Qed.

  Lemma on_path_lmem c path : on_path c path = lmem tok teqb c (plabels path).
  Proof.
    destruct (on_path c path) eqn:E; symmetry.
    - apply (lmem_in tok teqb teqb_spec). apply on_path_in. exact E.
    - apply (lmem_not_in tok teqb teqb_spec). intros H. apply on_path_in in H. congruence.
  Qed.

  (* ---------------------------------------------------------------- termination *)
  Definition kid_labels : list label :=
    flat_map (fun lf : label * family tok => let '(_, (_, l, rt)) := lf in olist l ++ olist rt) fams.

  Lemma kid_labels_length : List.length kid_labels <= 2 * List.length fams.
  Proof.
    unfold kid_labels. induction fams as [|[lbl [[r l] rt]] fs IH]; cbn [flat_map List.length]; [lia|].
    rewrite !app_length. destruct l, rt; cbn [olist List.length]; lia.
  Qed.

  Lemma kid_in lbl r l rt c : F lbl (r, l, rt) -> In c (olist l ++ olist rt) -> In c kid_labels.
  Proof.
    intros HF Hc. unfold kid_labels. apply in_flat_map. exists (lbl, (r, l, rt)). split; [exact HF|exact Hc].
  Qed.

  Definition is_ok {A} (r : res A) : Prop := exists v, r = Ok v.

  Lemma fold_ok {A B} (f : res A -> B -> res A) l :
    (forall a b, In b l -> is_ok (f (Ok a) b)) -> forall acc, is_ok acc -> is_ok (fold_left f l acc).
  Proof.
    induction l as [|b l IH]; intros Hf acc Hacc; cbn [fold_left]; [exact Hacc|].
    apply IH; [intros a b' Hb; apply Hf; right; exact Hb|]. destruct Hacc as [a ->]. apply Hf. left. reflexivity.
  Qed.

  Lemma tw_S f path st lbl : is_tok lbl = false ->
    tw (S f) path st lbl = tw_symbol tok teqb fams order resolve (tw f) path st lbl.
  Proof. destruct lbl; cbn; [reflexivity|reflexivity|discriminate]. Qed.

  Lemma is_ok_bind {A B} (x : res A) (g : A -> res B) : is_ok x -> (forall a, is_ok (g a)) -> is_ok (rbind x g).
  Proof. intros [a ->] Hg. cbn. apply Hg. Qed.

  Lemma NoDup_snoc {A} (l : list A) x : NoDup l -> ~ In x l -> NoDup (l ++ [x]).
  Proof.
    induction l as [|y l IH]; cbn; intros Hnd Hx; [repeat constructor; intros []|].
    inversion Hnd; subst. constructor.
    - intros Hin. apply in_app_or in Hin. destruct Hin as [Hin|[<-|[]]]; tauto.
    - apply IH; tauto.
  Qed.

  Section Term.
    Variable root : label.
    Let U : list label := root :: kid_labels.

    Lemma tw_is_ok : forall fuel path st lbl,
      NoDup (plabels path) -> incl (plabels path) U -> In lbl U -> ~ In lbl (plabels path) ->
      2 * List.length fams + 3 <= fuel + List.length (plabels path) ->
      is_ok (tw fuel path st lbl).
    Proof.
      induction fuel as [|f IH]; intros path st lbl Hnd Hincl HU Hnp Hf.
      - exfalso.
        assert (List.length (plabels path) <= List.length U) by (apply NoDup_incl_length; assumption).
        pose proof kid_labels_length. subst U. cbn [List.length] in *. lia.
      - destruct (is_tok lbl) eqn:Et.
        { destruct lbl; try discriminate. cbn. eexists; reflexivity. }
        rewrite (tw_S _ _ _ _ Et). unfold tw_symbol.
        set (kids := if ftpt_sym_in_nothing (t_retreat st) then [] else order lbl (fams_of lbl)).
        assert (Hkids : forall fm, In fm kids -> F lbl fm).
        { intros fm Hfm. subst kids. destruct (ftpt_sym_in_nothing _); [destruct Hfm|].
          apply order_perm in Hfm. apply (fams_of_in tok teqb teqb_spec) in Hfm. exact Hfm. }
        assert (Hpl : forall fm, plabels ((path ++ [TS lbl]) ++ [TP lbl fm]) = plabels path ++ [lbl]).
        { intros fm. rewrite !plabels_app. cbn. rewrite app_nil_r. reflexivity. }
        assert (Hnd' : NoDup (plabels path ++ [lbl])).
        { apply NoDup_snoc; assumption. }
        assert (Hincl' : incl (plabels path ++ [lbl]) U).
        { intros x Hx. apply in_app_or in Hx. destruct Hx as [Hx|[<-|[]]]; auto. }
        apply is_ok_bind.
        + apply fold_ok; [|eexists; reflexivity].
          intros [[st1 succ] pdata] [[r l] rt] Hfm. unfold tw_packed. cbn [rbind].
          apply is_ok_bind.
          * apply fold_ok; [|eexists; reflexivity].
            intros [st2 data] c Hc. unfold tw_child. cbn [rbind].
            destruct (vl_iter_cycle _) eqn:Ecyc; [eexists; reflexivity|].
            apply is_ok_bind; [|intros [st3 v]; eexists; reflexivity].
            apply IH; rewrite ?Hpl; auto.
            -- right. apply (kid_in lbl r l rt); [apply Hkids; exact Hfm|].
               destruct (ftpt_packed_in_descends _ _ _ _); [exact Hc|destruct Hc].
            -- intros Hin. rewrite <- (Hpl (r, l, rt)) in Hin. apply on_path_in in Hin.
               unfold vl_iter_cycle in Ecyc. congruence.
            -- rewrite app_length. cbn. lia.
          * intros [st2 data]. destruct (check_cycle _ _ _ _). eexists; reflexivity.
        + intros [[st1 succ] data].
          match goal with |- is_ok (let '(_, _) := ?e in _) => destruct e end. eexists; reflexivity.
    Qed.
  End Term.

  (* the walk of transform(root) never exhausts its fuel, on any finite forest, cyclic or not, in both modes *)
  Theorem tft_walk_terminates root : exists r, tft_walk tok teqb fams order resolve root = Ok r.
  Proof.
    unfold tft_walk.
    destruct (tw_is_ok root (tw_fuel tok fams) [] (mkT ftpt_visit_retreat0 None []) root) as [[st v] ->].
    - constructor.
    - intros x [].
    - left. reflexivity.
    - intros [].
    - unfold tw_fuel. cbn. lia.
    - cbn [rbind]. eexists. reflexivity.
  Qed.
End Proofs.
