(* C04 layer A for the dynamic lexers, executable: the recogniser model Earley/Dyn.v (lark/parsers/xearley.py)
   instrumented with the SPPF bookkeeping.  predict_and_complete is shared with the basic parser
   (ExplicitAlgBuild.ipc_loop).  In xearley.scan an entry of delayed_matches is (item, i, token): the position i at
   which it was scanned is needed for the node labels and is kept here (Dyn drops it); when delayed_matches[i+1] is
   processed
     token entry   : new_item = item.advance(); node (new_item.s, start, i+1) gets (item.rule, item.node, TokenNode)
                     - the token node is identified by (terminal, scan position, i+1);
     carried entry : (items carried over %ignore-d text, and a completed start item with origin 0 - repair F43)
                     if item.node is not None: every packed child of item.node = node (item.s, start, scan position)
                     is copied into node (item.s, start, i+1) with child.rule / child.left / child.right.
   A node's children are a set of PackedNodes whose equality ignores the rule: node_children keeps the first call per
   (left, right).  The run returns the log of all add_family calls.  Definitions only. *)
From Coq Require Import List Arith Bool.
From LV Require Import Cfg.Grammar Cfg.Analysis Earley.Spec Earley.Alg Earley.Dyn
  Forest.ExplicitBuild Forest.ExplicitAlgBuild.
Import ListNotations.

(* (item, scan position, Some terminal for a token / None for a carried item) *)
Definition ientry := (item * nat * option nat)%type.
Definition idmap := list (nat * list ientry).
Definition erase_entry (e : ientry) : dentry :=
  (fst (fst e), match snd e with Some _ => true | None => false end).
Definition erase_dm (dm : idmap) : dmap := map (fun p => (fst p, map erase_entry (snd p))) dm.

Fixpoint idm_extend (k : nat) (es : list ientry) (dm : idmap) : idmap :=
  match dm with
  | [] => [(k, es)]
  | (k', l) :: dm' => if Nat.eqb k k' then (k', l ++ es) :: dm' else (k', l) :: idm_extend k es dm'
  end.
Definition idm_get (k : nat) (dm : idmap) : list ientry :=
  match find (fun p => Nat.eqb (fst p) k) dm with Some p => snd p | None => [] end.
Definition idm_remove (k : nat) (dm : idmap) : idmap := filter (fun p => negb (Nat.eqb (fst p) k)) dm.

Definition dfam := fam nat.

(* PackedNode.__eq__: left and right only *)
Definition same_children (a b : dfam) : bool :=
  let '(_, (_, l1, r1)) := a in let '(_, (_, l2, r2)) := b in olabel_eqb l1 l2 && olabel_eqb r1 r2.
Fixpoint dedup_children (l : list dfam) (seen : list dfam) : list dfam :=
  match l with
  | [] => []
  | f :: r => if existsb (same_children f) seen then dedup_children r seen else f :: dedup_children r (f :: seen)
  end.
(* node.children of the node with label lbl, given the calls made so far *)
Definition node_children (acc : list dfam) (lbl : nlabel nat) : list dfam :=
  dedup_children (filter (fun f => label_eqb (fst f) lbl) acc) [].

Section IDyn.
  Variable G : grammar.
  Variable predictions : nat -> list rule.
  Variable start : nat.
  Variable n : nat.
  Variable rmatch : nat -> nat -> option nat.
  Variable rtrunc : nat -> nat -> nat -> option nat.
  Variable complete_lex : bool.
  Variable ignore : list nat.

  Definition iscan_item (i : nat) (dm : idmap) (x : item) : idmap :=
    match expect x with
    | Some (T t) => fold_left (fun dm e => idm_extend e [(x, i, Some t)] dm) (ends_of rmatch rtrunc complete_lex t i) dm
    | _ => dm
    end.

  Definition iscan_ignore (i : nat) (to_scan col : list item) (dm : idmap) (x : nat) : idmap :=
    match rmatch x i with
    | Some e =>
        idm_extend e (map (fun it => (it, i, None)) (filter (is_solution start) col))
          (idm_extend e (map (fun it => (it, i, None)) to_scan) dm)
    | None => dm
    end.

  (* label of item.node for an item that carries a node; complete items are labelled by their origin symbol *)
  Definition node_label (x : item) (k : nat) : nlabel nat := ilabel nat (irule x) (dot x) (orig x) k.

  (* the add_family calls made for one entry of delayed_matches[i+1], given the log so far *)
  Definition entry_fams (i : nat) (acc : list dfam) (e : ientry) : list dfam :=
    let '(x, i0, tk) := e in
    match tk with
    | Some t =>
        [(ilabel nat (irule x) (S (dot x)) (orig x) (S i),
          (irule x, inode nat (irule x) (dot x) (orig x) i0, Some (NTok nat t t i0 (S i))))]
    | None =>
        (* item.node is None exactly for ptr = 0 items that are not complete *)
        match dot x, expect x with
        | 0, Some _ => []
        | _, _ => map (fun f => (node_label x (S i), snd f)) (node_children acc (node_label x i0))
        end
    end.

  Definition idscan (i : nat) (to_scan col : list item) (dm : idmap) (acc : list dfam)
    : list item * list item * idmap * list dfam :=
    let dm1 := fold_left (iscan_item i) to_scan dm in
    let dm2 := fold_left (iscan_ignore i to_scan col) ignore dm1 in
    let es := idm_get (S i) dm2 in
    let ns := fold_left (fun a e => dplace a (realise (erase_entry e))) es ([], []) in
    let acc' := fold_left (fun a e => a ++ entry_fams i a e) es acc in
    (fst ns, snd ns, idm_remove (S i) dm2, acc').

  Fixpoint idloop (rem i : nat) (cols scans : list (list item)) (keys : list (list nat))
           (col scanq : list item) (dm : idmap) (acc : list dfam) : dresult * list dfam :=
    match ipredict_and_complete predictions nat (pc_fuel G i) i cols col scanq acc with
    | None => (mkDRes (DOutOfFuel i) cols scans keys, acc)
    | Some (st, acc1) =>
        let cols' := cols ++ [pc_col st] in
        let scans' := scans ++ [pc_scan st] in
        match rem with
        | 0 => (mkDRes (if existsb (is_solution start) (pc_col st) then DAccept else DRejectEOF) cols' scans' keys, acc1)
        | S rem' =>
            let r := idscan i (pc_scan st) (pc_col st) dm acc1 in
            let nc := fst (fst (fst r)) in
            let nq := snd (fst (fst r)) in
            let dm' := snd (fst r) in
            let acc2 := snd r in
            match nc, dm', nq with
            | [], [], [] => (mkDRes (DRejectChar i) cols' scans' keys, acc2)
            | _, _, _ => idloop rem' (S i) cols' scans' (keys ++ [map fst dm']) nc nq dm' acc2
            end
        end
    end.

  Definition idparse : dresult * list dfam :=
    let init := initial predictions start in
    idloop n 0 [] [] [] (fst init) (snd init) [] [].
End IDyn.

Definition idyn_parse (G : grammar) (start n : nat) (rmatch : nat -> nat -> option nat)
           (rtrunc : nat -> nat -> nat -> option nat) (complete_lex : bool) (ignore : list nat) : dresult * list dfam :=
  let tbl := pred_table G in idparse G (pred_lookup G tbl) start n rmatch rtrunc complete_lex ignore.
