(* ForestToParseTree / TreeForestTransformer (lark/parsers/earley_forest.py) on the forest as lark builds it: the
   label-keyed, possibly CYCLIC graph of Forest/ExplicitBuild.v, both modes (resolve_ambiguity True / False),
   use_cache = False (TreeForestTransformer's default and what earley.py passes for ambiguity='resolve').
   Definitions only; proofs in GraphTft_proofs.v.

   * [tw]: the walk as coded, in its recursive reading (ForestVisitor.visit with single_visit = False, hence a node
     is re-entered under every path that reaches it; the callbacks of ForestTransformer and ForestToParseTree with
     their state: _on_cycle_retreat, _cycle_node, the membership of the node in _successful_visits, the data lists
     of node_stack).  Every branch condition is the function regenerated from the source (Gen/ForestWalk.v).  The
     walk records every callback: what visit_*_in handed back, what transform_symbol_node /
     transform_intermediate_node / transform_packed_node RECEIVED and returned, visit_token_node, on_cycle with its path.
   * [gta]: what the walk computes, as a plain function of (path, node): the alternatives a node hands to the packed
     node above it; a node already on the path has none, a packed node has the products of its children's, a symbol
     node those of its packed children in [children] order - all of them (resolve_ambiguity=False) or those of the
     first packed child that has any (True).

   Values.  A symbol node yields one tree (with `_ambig` nodes); an intermediate node yields a children list, or
   `_iambig`/`_inter` when there are several, which AmbiguousIntermediateExpander multiplies out at the packed node of
   the completed rule: as in Forest/Tft.v every value is kept as the list of alternative children lists, in the order
   the expander produces them ([aalts]; a tree is [[t]]). *)
From Coq Require Import List Arith Bool ZArith.
From LV Require Import Base.Prelude Forest.Sppf Forest.Tft Cfg.Grammar Forest.ExplicitBuild Forest.GraphResolve
  Gen.ForestWalk.
Import ListNotations.

Section ATree.
  Variable tok : Type.

  (* trees built with rule-identity callbacks; AAmb = Tree('_ambig', ...) *)
  Inductive atree : Type :=
  | ALeaf (t : nat) (x : tok)
  | ANode (r : rule) (ks : list atree)
  | AAmb (alts : list atree).

  Definition aalts : Type := list (list atree).

  (* the ambiguity-free trees a tree stands for *)
  Fixpoint aexpand (t : atree) : list (dt tok) :=
    match t with
    | ALeaf t x => [DL tok t x]
    | AAmb alts => flat_map aexpand alts
    | ANode r ks => map (DN tok r) (lprod (map aexpand ks))
    end.

  (* the children sequences a list of alternatives stands for *)
  Definition axalts (A : aalts) : list (list (dt tok)) := flat_map (fun a => lprod (map aexpand a)) A.

  Inductive tnode : Type :=
  | TS (l : nlabel tok)                          (* SymbolNode (completed or intermediate) *)
  | TP (l : nlabel tok) (fm : family tok).       (* PackedNode fm of the symbol node l *)

  Inductive tev : Type :=
  | TIn (n : tnode) (ret : list tnode)                            (* visit_*_in(n) handed back ret *)
  | TOut (n : tnode) (data : list aalts) (result : option aalts)  (* transform_*(n, data) = result; None = Discard *)
  | TTok (t : nat) (x : tok)                                      (* visit_token_node *)
  | TCycle (c : nlabel tok) (path : list tnode).                  (* on_cycle(c, path) *)

  Record tst : Type := mkT {
    t_retreat : bool;                      (* self._on_cycle_retreat *)
    t_cycle : option (nlabel tok);         (* self._cycle_node *)
    t_trace : list tev }.                  (* callbacks so far, newest first *)
End ATree.

Arguments ALeaf {tok}. Arguments ANode {tok}. Arguments AAmb {tok}.
Arguments TS {tok}. Arguments TP {tok}.
Arguments TIn {tok}. Arguments TOut {tok}. Arguments TTok {tok}. Arguments TCycle {tok}.
Arguments mkT {tok}. Arguments t_retreat {tok}. Arguments t_cycle {tok}. Arguments t_trace {tok}.

Section GraphTft.
  Variable tok : Type.
  Variable teqb : tok -> tok -> bool.
  Variable fams : list (nlabel tok * family tok).
  Variable order : nlabel tok -> list (family tok) -> list (family tok).     (* SymbolNode.children *)
  Variable resolve : bool.                                                    (* resolve_ambiguity *)

  Notation label := (nlabel tok).
  Notation leqb := (nlabel_eqb tok teqb).
  Notation fams_of := (fams_of tok teqb fams).

  Definition olist {A} (o : option A) : list A := match o with Some x => [x] | None => [] end.
  Definition is_some' {A} (o : option A) : bool := match o with Some _ => true | None => false end.
  Definition is_inter (l : label) : bool := match l with NInter _ _ _ _ _ => true | _ => false end.
  Definition olabel_eqb' (a : option label) (b : label) : bool :=
    match a with Some x => leqb x b | None => false end.

  (* id(node) in visiting, for a symbol node: packed nodes are children of one symbol node only, token nodes are
     never put into visiting *)
  Fixpoint on_path (c : label) (path : list (tnode tok)) : bool :=
    match path with
    | [] => false
    | TS l :: r => leqb l c || on_path c r
    | TP _ _ :: r => on_path c r
    end.

  (* PackedData(node, data) and the children list transform_packed_node builds from it *)
  Definition packed_kids (has_left : bool) (data : list (aalts tok)) : aalts tok :=
    match data with
    | [] => [[]]
    | d1 :: rest =>
        if has_left then match rest with d2 :: _ => cross d1 d2 | [] => d1 end
        else d1
    end.

  (* transform_packed_node's result once it is not discarded: the children list under an intermediate parent, the
     rule callback's trees (one per alternative: AmbiguousIntermediateExpander) under a completed symbol *)
  Definition packed_value (lbl : label) (r : rule) (has_left : bool) (data : list (aalts tok)) : aalts tok :=
    let kids := packed_kids has_left data in
    if is_inter lbl then kids else map (fun a => [ANode r a]) kids.

  (* transform_symbol_node after the guards: _collapse_ambig, then _call_ambig_func *)
  Definition symbol_value (data : list (aalts tok)) : option (aalts tok) :=
    let trees := List.concat (List.concat data) in
    if ftpt_ambig_many (Z.of_nat (List.length trees)) then Some [[AAmb trees]]
    else match trees with t :: _ => Some [[t]] | [] => None end.

  (* transform_intermediate_node after the guards *)
  Definition inter_value (data : list (aalts tok)) : aalts tok :=
    if ftpt_inter_many (Z.of_nat (List.length data)) then List.concat data
    else match data with d :: _ => d | [] => [] end.

  Definition push (st : tst tok) (e : tev tok) : tst tok := mkT (t_retreat st) (t_cycle st) (e :: t_trace st).

  (* _check_cycle(node): (Discard?, state afterwards) *)
  Definition check_cycle (st : tst tok) (is_cycle_node in_succ : bool) : bool * tst tok :=
    if ftpt_check_outer (t_retreat st) then
      if ftpt_check_inner is_cycle_node in_succ then (false, mkT false None (t_trace st))
      else (true, st)
    else (false, st).

  Section Step.
    (* the walk below a node that is not on the path *)
    Variable rec : list (tnode tok) -> tst tok -> label -> res (tst tok * list (aalts tok)).

    (* one value drawn from the iterator over a packed node's children *)
    Definition tw_child (path : list (tnode tok)) (acc : res (tst tok * list (aalts tok))) (c : label)
      : res (tst tok * list (aalts tok)) :=
      rbind acc (fun sd =>
        let '(st, data) := sd in
        if vl_iter_cycle (on_path c path)
        then Ok (mkT ftpt_on_cycle_retreat (Some c) (TCycle c path :: t_trace st), data)       (* on_cycle *)
        else rbind (rec path st c) (fun sv => Ok (fst sv, data ++ snd sv))).

    (* a packed node: visit_packed_node_in, its children, visit_packed_node_out.
       [succ]: id(node.parent) in self._successful_visits.  Returns the state, the parent's membership afterwards and
       what was appended to the parent's data. *)
    Definition tw_packed (path : list (tnode tok)) (lbl : label) (acc : res (tst tok * bool * list (aalts tok)))
               (fm : family tok) : res (tst tok * bool * list (aalts tok)) :=
      rbind acc (fun ssd =>
        let '(st, succ, pdata) := ssd in
        let '(r, l, rt) := fm in
        let me := TP lbl fm in
        let ret := if ftpt_packed_in_descends resolve succ false false then olist l ++ olist rt else [] in
        let st0 := mkT ftpt_packed_in_retreat (t_cycle st) (TIn me (map TS ret) :: t_trace st) in
        rbind (fold_left (tw_child (path ++ [me])) ret (Ok (st0, []))) (fun sd =>
          let '(st1, data) := sd in
          (* transform_packed_node: a packed node is neither the cycle node nor in _successful_visits *)
          let '(disc, st2) := check_cycle st1 false false in
          let result :=
            if disc then None
            else if ftpt_packed_out_skips resolve succ then None
            else Some (packed_value lbl r (is_some' l) data) in
          let st3 := push st2 (TOut me data result) in
          Ok (st3, succ || ftpt_packed_out_marks (t_retreat st3),
              if ft_out_kept (negb (is_some' result)) then pdata ++ olist result else pdata))).

    (* a symbol or intermediate node that is not on the path *)
    Definition tw_symbol (path : list (tnode tok)) (st : tst tok) (lbl : label)
      : res (tst tok * list (aalts tok)) :=
      let me := TS lbl in
      let kids := if ftpt_sym_in_nothing (t_retreat st) then [] else order lbl (fams_of lbl) in
      let st0 := push st (TIn me (map (TP lbl) kids)) in
      rbind (fold_left (tw_packed (path ++ [me]) lbl) kids (Ok (st0, false, []))) (fun ssd =>
        let '(st1, succ, data) := ssd in
        let fails := if is_inter lbl then ftpt_inter_out_fails succ else ftpt_sym_out_fails succ in
        let '(disc, st2) := if fails then (true, st1) else check_cycle st1 (olabel_eqb' (t_cycle st1) lbl) succ in
        let result :=
          if disc then None
          else if is_inter lbl then Some (inter_value data) else symbol_value data in
        Ok (push st2 (TOut me data result),
            if ft_out_kept (negb (is_some' result)) then olist result else [])).
  End Step.

  Fixpoint tw (fuel : nat) (path : list (tnode tok)) (st : tst tok) (lbl : label)
    : res (tst tok * list (aalts tok)) :=
    match fuel with
    | O => OutOfFuel
    | S f =>
        match lbl with
        | NTok _ t x _ _ =>
            Ok (push st (TTok t x), if ft_token_kept false then [[[ALeaf t x]]] else [])
        | _ => tw_symbol (tw f) path st lbl
        end
    end.

  (* every node on a path is a symbol node mentioned by the forest: 2|families| + 2 levels suffice *)
  Definition tw_fuel : nat := 2 * List.length fams + 3.

  (* transform(root): visit() resets the walk state (_on_cycle_retreat, _cycle_node, _successful_visits; repair of
     F50), then the callback trace in the order of the calls, and data['result'] *)
  Definition tft_walk (root : label) : res (list (tev tok) * option (aalts tok)) :=
    rbind (tw tw_fuel [] (mkT ftpt_visit_retreat0 None []) root) (fun sv =>
      Ok (rev (t_trace (fst sv)), match snd sv with v :: _ => Some v | [] => None end)).

  (* ---- what the walk computes -------------------------------------------------------------------------- *)
  Definition awrap (ts : list (atree tok)) : aalts tok :=
    match ts with
    | [] => []
    | [t] => [[t]]
    | _ => [[AAmb ts]]
    end.

  Fixpoint first_nonempty {A} (l : list (list A)) : list (list A) :=
    match l with
    | [] => []
    | [] :: r => first_nonempty r
    | x :: _ => [x]
    end.

  Fixpoint gta (fuel : nat) (path : list label) (lbl : label) : aalts tok :=
    match fuel with
    | O => []
    | S f =>
        match lbl with
        | NTok _ t x _ _ => [[ALeaf t x]]
        | _ =>
            if lmem tok teqb lbl path then []
            else
              let sub (o : option label) : aalts tok :=
                match o with None => [[]] | Some l => gta f (lbl :: path) l end in
              let per_fam := map (fun fm : family tok =>
                                    let '(r, l, rt) := fm in
                                    let kids := cross (sub l) (sub rt) in
                                    if is_inter lbl then kids else map (fun a => [ANode r a]) kids)
                                 (order lbl (fams_of lbl)) in
              let kept := if resolve then first_nonempty per_fam else per_fam in
              if is_inter lbl then List.concat kept else awrap (List.concat (List.concat kept))
        end
    end.

  (* TreeForestTransformer(...).transform(root) with rule-identity names *)
  Definition graph_tft (root : label) : option (atree tok) :=
    match gta tw_fuel [] root with
    | [[t]] => Some t
    | _ => None
    end.
End GraphTft.
