(* C04 layer B on cyclic forests - executable model of ForestToParseTree(resolve_ambiguity=False, use_cache=True) on
   the SPPF as a graph (lark/parsers/earley_forest.py: ForestVisitor.visit, ForestToParseTree.on_cycle, _check_cycle,
   visit_symbol_node_in, visit_packed_node_in / _out, transform_symbol_node / _intermediate_node / _packed_node).
   Nodes are numbered (the position in the list is the node's identity, Python's id()); a symbol or intermediate
   node lists its packed children in SymbolNode.children order; a packed child names its left / right child by number.

   What the coded walk does, read off the flags (_on_cycle_retreat, _cycle_node, _successful_visits, _cache):
   - a child that is already on the path (`visiting`) is not entered: on_cycle sets _on_cycle_retreat;
   - while the flag is set every packed node on the way out is discarded (_check_cycle) and a symbol node that is
     entered hands back no children (visit_symbol_node_in), so it is discarded as well (no successful visit);
     the flag is cleared when the next packed child of some symbol node is entered (visit_packed_node_in) or when a
     symbol node with a successful packed child is left (_check_cycle);
   - hence: a packed node is kept iff both children are kept, a symbol node is kept iff at least one packed child is,
     a node on the path is not kept; once the left child of a packed node is not kept the right child contributes
     nothing (it is entered in retreat);
   - the transformation of a kept packed node is cached by identity (_cache) and reused - without walking below it
     again - wherever the packed node is met later, also under a different path.
   The model computes the *pruned unfolding*: the acyclic forest (Forest/ExplicitToTree.node) that consists of the kept
   nodes; the explicit tree is to_tree_explicit of it, so everything proved about acyclic forests applies to the
   result.  Definitions only; proofs in ExplicitGraph_proofs.v. *)
From Coq Require Import String Ascii Bool Arith List.
From LV Require Import Base.Prelude Forest.ExplicitToTree.
Import ListNotations.
Local Open Scope list_scope.

Record gpack := mkGP { gp_rule : xrule; gp_left : option nat; gp_right : option nat }.
Inductive gnode :=
| GTok (ty v : string)
| GSym (l : label) (fams : list gpack).
Definition graph := list gnode.

Fixpoint gmem (x : nat) (l : list nat) : bool :=
  match l with [] => false | y :: r => Nat.eqb x y || gmem x r end.

(* _cache: packed node (parent id, position among the parent's children) -> its kept unfolding *)
Definition gcache := list (nat * nat * packed).
Fixpoint cache_get (n k : nat) (c : gcache) : option packed :=
  match c with
  | [] => None
  | (n', k', p) :: r => if Nat.eqb n n' && Nat.eqb k k' then Some p else cache_get n k r
  end.

(* outcome of entering a node: None = the model ran out of fuel / a dangling child number (excluded by the theorems);
   Some (None, cache) = discarded; Some (Some nd, cache) = kept, with its pruned unfolding *)
Definition gres := option (option node * gcache).

Section Walk.
  Variable g : graph.

  (* one child of a packed node; [rec] enters a node that is not on the path.
     Some (None, c) = the child is not kept (on the path, or discarded) *)
  Definition gchild (rec : gcache -> nat -> gres) (path : list nat) (c : gcache) (o : option nat)
    : option (option (option node) * gcache) :=
    match o with
    | None => Some (Some None, c)
    | Some m =>
        if gmem m path then Some (None, c)                         (* on_cycle *)
        else match rec c m with
             | None => None
             | Some (None, c') => Some (None, c')
             | Some (Some nd, c') => Some (Some (Some nd), c')
             end
    end.

  (* a packed child (number k of node n); path already contains n *)
  Definition gpacked (rec : gcache -> nat -> gres) (path : list nat) (c : gcache) (n k : nat) (p : gpack)
    : option (option packed * gcache) :=
    match cache_get n k c with
    | Some p' => Some (Some p', c)                                 (* visit_packed_node_in returns nothing; _cache hit *)
    | None =>
        match gchild rec path c (gp_left p) with
        | None => None
        | Some (None, c1) => Some (None, c1)                       (* the right child is entered in retreat: no effect *)
        | Some (Some lf, c1) =>
            match gchild rec path c1 (gp_right p) with
            | None => None
            | Some (None, c2) => Some (None, c2)
            | Some (Some rt, c2) =>
                let p' := Pack (gp_rule p) lf rt in
                Some (Some p', (n, k, p') :: c2)
            end
        end
    end.

  Fixpoint gfams (rec : gcache -> nat -> gres) (path : list nat) (n k : nat) (fs : list gpack) (c : gcache)
    : option (list packed * gcache) :=
    match fs with
    | [] => Some ([], c)
    | p :: r =>
        match gpacked rec path c n k p with
        | None => None
        | Some (o, c1) =>
            match gfams rec path n (S k) r c1 with
            | None => None
            | Some (ps, c2) => Some (match o with Some p' => p' :: ps | None => ps end, c2)
            end
        end
    end.

  (* entering node n, which is not on [path] *)
  Fixpoint gsym (fuel : nat) (path : list nat) (c : gcache) (n : nat) : gres :=
    match fuel with
    | O => None
    | S f =>
        match nth_error g n with
        | None => None
        | Some (GTok ty v) => Some (Some (TokN ty v), c)
        | Some (GSym l fams) =>
            match gfams (gsym f (n :: path)) (n :: path) n 0 fams c with
            | None => None
            | Some ([], c') => Some (None, c')                     (* no successful visit: Discard *)
            | Some (ps, c') => Some (Some (SymN l ps), c')
            end
        end
    end.

  (* the pruned unfolding below the root, as ForestToParseTree.transform walks it *)
  Definition gunfold (root : nat) : option (option node) :=
    match gsym (S (List.length g)) [] [] root with
    | None => None
    | Some (o, _) => Some o
    end.

  (* transform(root): the explicit tree; Some None = every derivation was discarded (transform returns None) *)
  Definition graph_explicit (root : nat) : option (option tree) :=
    match gunfold root with
    | None => None
    | Some o => Some (option_map to_tree_explicit o)
    end.
End Walk.
