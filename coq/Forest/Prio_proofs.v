(* Proofs about Forest/Prio.v: ForestSumVisitor computes the maximum total priority, the
   resolve-mode transformer returns a derivation that is lexicographically optimal for
   PackedNode.sort_key, hence priority-optimal where emptiness is uniform. *)
From Coq Require Import ZArith List Bool String Lia ZifyBool.
From LV Require Import Forest.Sppf Forest.Sppf_proofs Gen.ForestSortKey Forest.Prio.
Import ListNotations.
Local Open Scope Z_scope.

(* ---------------------------------------------------------------- max / min of lists *)
Lemma fold_max_spec r : forall x,
  In (fold_left Z.max r x) (x :: r) /\ forall y, In y (x :: r) -> y <= fold_left Z.max r x.
Proof.
  induction r as [|a r IH]; intros x; cbn [fold_left].
  - split; [left; reflexivity|]. intros y [->|[]]; lia.
  - destruct (IH (Z.max x a)) as [Hin Hub]. split.
    + destruct Hin as [H|H]; [|right; right; exact H].
      rewrite <- H. destruct (Z.max_spec x a) as [[_ ->]|[_ ->]]; [right; left|left]; reflexivity.
    + intros y [->|[->|Hy]].
      * specialize (Hub (Z.max y a) (or_introl eq_refl)). lia.
      * specialize (Hub (Z.max x y) (or_introl eq_refl)). lia.
      * apply Hub. right. exact Hy.
Qed.

Lemma fold_min_spec r : forall x,
  In (fold_left Z.min r x) (x :: r) /\ forall y, In y (x :: r) -> fold_left Z.min r x <= y.
Proof.
  induction r as [|a r IH]; intros x; cbn [fold_left].
  - split; [left; reflexivity|]. intros y [->|[]]; lia.
  - destruct (IH (Z.min x a)) as [Hin Hub]. split.
    + destruct Hin as [H|H]; [|right; right; exact H].
      rewrite <- H. destruct (Z.min_spec x a) as [[_ ->]|[_ ->]]; [left|right; left]; reflexivity.
    + intros y [->|[->|Hy]].
      * specialize (Hub (Z.min y a) (or_introl eq_refl)). lia.
      * specialize (Hub (Z.min x y) (or_introl eq_refl)). lia.
      * apply Hub. right. exact Hy.
Qed.

Definition is_max (m : Z) (l : list Z) : Prop := In m l /\ forall y, In y l -> y <= m.
Definition is_min (m : Z) (l : list Z) : Prop := In m l /\ forall y, In y l -> m <= y.

Lemma zmax_list_is_max l : l <> [] -> is_max (zmax_list l) l.
Proof. destruct l as [|x r]; [congruence|]. intros _. exact (fold_max_spec r x). Qed.
Lemma zmin_list_is_min l : l <> [] -> is_min (zmin_list l) l.
Proof. destruct l as [|x r]; [congruence|]. intros _. exact (fold_min_spec r x). Qed.

Lemma is_max_unique m m' l : is_max m l -> is_max m' l -> m = m'.
Proof. intros [H1 H2] [H3 H4]. specialize (H2 _ H3). specialize (H4 _ H1). lia. Qed.
Lemma is_min_unique m m' l : is_min m l -> is_min m' l -> m = m'.
Proof. intros [H1 H2] [H3 H4]. specialize (H2 _ H3). specialize (H4 _ H1). lia. Qed.

Lemma is_max_eq m l : is_max m l -> zmax_list l = m.
Proof.
  intros H. apply (is_max_unique _ _ l); [|exact H]. apply zmax_list_is_max.
  destruct H as [H _]. destruct l; [destruct H|congruence].
Qed.
Lemma is_min_eq m l : is_min m l -> zmin_list l = m.
Proof.
  intros H. apply (is_min_unique _ _ l); [|exact H]. apply zmin_list_is_min.
  destruct H as [H _]. destruct l; [destruct H|congruence].
Qed.

(* the regenerated combining function is max *)
Lemma zcombine_is_max l : zcombine_list l = zmax_list l.
Proof. reflexivity. Qed.

Lemma is_max_opp m l : is_min m l -> is_max (- m) (map Z.opp l).
Proof.
  intros [H1 H2]. split.
  - apply in_map. exact H1.
  - intros y Hy. apply in_map_iff in Hy. destruct Hy as [x [<- Hx]]. specialize (H2 _ Hx). lia.
Qed.

(* ---------------------------------------------------------------- keys *)
Definition kle (a b : key) : bool := negb (klt b a).

Lemma klt_irrefl a : klt a a = false.
Proof. destruct a as [[a1 a2] a3]. unfold klt. lia. Qed.
Lemma kle_refl a : kle a a = true.
Proof. unfold kle. rewrite klt_irrefl. reflexivity. Qed.
Lemma kle_trans a b c : kle a b = true -> kle b c = true -> kle a c = true.
Proof. destruct a as [[a1 a2] a3], b as [[b1 b2] b3], c as [[c1 c2] c3]. unfold kle, klt. lia. Qed.
Lemma klt_kle a b : klt a b = true -> kle a b = true.
Proof. destruct a as [[a1 a2] a3], b as [[b1 b2] b3]. unfold kle, klt. lia. Qed.
Lemma kle_total a b : kle a b = false -> klt b a = true.
Proof. unfold kle. destruct (klt b a); cbn; congruence. Qed.
Lemma kle_antisym a b : kle a b = true -> kle b a = true -> a = b.
Proof.
  destruct a as [[a1 a2] a3], b as [[b1 b2] b3]. unfold kle, klt. intros H1 H2.
  assert (a1 = b1 /\ a2 = b2 /\ a3 = b3) as [-> [-> ->]] by lia. reflexivity.
Qed.

(* what the regenerated tuple means: non-empty before empty, then greater priority, then
   smaller rule order *)
Lemma sort_key_lt e1 p1 o1 e2 p2 o2 :
  klt (sort_key e1 p1 o1) (sort_key e2 p2 o2) = true <->
  (e1 = false /\ e2 = true) \/ (e1 = e2 /\ (p1 > p2 \/ (p1 = p2 /\ o1 < o2))).
Proof. unfold sort_key, klt. destruct e1, e2; cbn [Z.b2z]; split; intros H; lia. Qed.

Lemma sort_key_le e1 p1 o1 e2 p2 o2 :
  kle (sort_key e1 p1 o1) (sort_key e2 p2 o2) = true <->
  (e1 = false /\ e2 = true) \/ (e1 = e2 /\ (p1 > p2 \/ (p1 = p2 /\ o1 <= o2))).
Proof. unfold sort_key, kle, klt. destruct e1, e2; cbn [Z.b2z]; split; intros H; lia. Qed.

(* ---------------------------------------------------------------- stable sort, its head *)
Fixpoint best_by {A} (k : A -> key) (l : list A) : option A :=
  match l with
  | [] => None
  | x :: r => match best_by k r with
              | None => Some x
              | Some y => if klt (k y) (k x) then Some y else Some x
              end
  end.

Lemma hd_kinsert {A} (x : key * A) l :
  hd_error (kinsert x l) =
  match hd_error l with None => Some x | Some y => if klt (fst y) (fst x) then Some y else Some x end.
Proof. destruct l as [|y r]; cbn; [reflexivity|]. destruct (klt (fst y) (fst x)); reflexivity. Qed.

Lemma hd_ksort {A} (l : list (key * A)) : hd_error (ksort l) = kbest l.
Proof.
  induction l as [|x r IH]; [reflexivity|].
  unfold ksort in *. cbn [fold_right kbest]. rewrite hd_kinsert, IH. reflexivity.
Qed.

Lemma kbest_map {A B} (k : A -> key) (f : A -> B) l :
  kbest (map (fun a => (k a, f a)) l) = option_map (fun a => (k a, f a)) (best_by k l).
Proof.
  induction l as [|x r IH]; [reflexivity|]. cbn [map kbest best_by]. rewrite IH.
  destruct (best_by k r) as [y|]; cbn; [|reflexivity]. destruct (klt (k y) (k x)); reflexivity.
Qed.

Lemma best_by_none {A} (k : A -> key) l : best_by k l = None -> l = [].
Proof.
  destruct l as [|x r]; [reflexivity|]. cbn. destruct (best_by k r); [|congruence].
  destruct (klt _ _); congruence.
Qed.

(* the chosen element: first position holding a least key *)
Lemma best_by_spec {A} (k : A -> key) l b :
  best_by k l = Some b ->
  exists l1 l2, l = l1 ++ b :: l2 /\
                (forall y, In y l1 -> klt (k b) (k y) = true) /\
                (forall y, In y l2 -> kle (k b) (k y) = true).
Proof.
  revert b. induction l as [|x r IH]; intros b; cbn [best_by]; [congruence|].
  destruct (best_by k r) as [y|] eqn:E.
  - destruct (IH y eq_refl) as [l1 [l2 [-> [H1 H2]]]].
    destruct (klt (k y) (k x)) eqn:Elt; intros [= <-].
    + exists (x :: l1), l2. split; [reflexivity|]. split; [|exact H2].
      intros z [<-|Hz]; [exact Elt|apply H1; exact Hz].
    + exists [], (l1 ++ y :: l2). split; [reflexivity|]. split; [intros z []|].
      assert (Hxy : kle (k x) (k y) = true) by (unfold kle; rewrite Elt; reflexivity).
      intros z Hz. apply in_app_or in Hz. destruct Hz as [Hz|[<-|Hz]].
      * apply (kle_trans _ (k y)); [exact Hxy|]. apply klt_kle. apply H1. exact Hz.
      * exact Hxy.
      * apply (kle_trans _ (k y)); [exact Hxy|]. apply H2. exact Hz.
  - apply best_by_none in E. subst r. intros [= <-]. exists [], []. split; [reflexivity|].
    split; intros z [].
Qed.

Lemma best_by_in {A} (k : A -> key) l b : best_by k l = Some b -> In b l.
Proof.
  intros H. destruct (best_by_spec k l b H) as [l1 [l2 [-> _]]]. apply in_or_app. right. left. reflexivity.
Qed.

Lemma best_by_least {A} (k : A -> key) l b y : best_by k l = Some b -> In y l -> kle (k b) (k y) = true.
Proof.
  intros H Hy. destruct (best_by_spec k l b H) as [l1 [l2 [-> [H1 H2]]]].
  apply in_app_or in Hy. destruct Hy as [Hy|[<-|Hy]].
  - apply klt_kle. apply H1. exact Hy.
  - apply kle_refl.
  - apply H2. exact Hy.
Qed.

Lemma best_by_map {A B} (k : B -> key) (m : A -> B) l :
  best_by k (map m l) = option_map m (best_by (fun a => k (m a)) l).
Proof.
  induction l as [|x r IH]; [reflexivity|]. cbn [map best_by]. rewrite IH.
  destruct (best_by _ r) as [y|]; cbn; [|reflexivity]. destruct (klt _ _); reflexivity.
Qed.

Lemma best_by_ext {A} (k k' : A -> key) l : (forall a, In a l -> k a = k' a) -> best_by k l = best_by k' l.
Proof.
  induction l as [|x r IH]; intros H; [reflexivity|]. cbn [best_by].
  rewrite IH by (intros a Ha; apply H; right; exact Ha).
  destruct (best_by k' r) as [y|] eqn:E; [|reflexivity].
  rewrite (H x (or_introl eq_refl)), (H y); [reflexivity|]. right. apply (best_by_in k' r). exact E.
Qed.

(* sorting permutes *)
Lemma kinsert_in {A} (x y : key * A) l : In y (kinsert x l) <-> y = x \/ In y l.
Proof.
  induction l as [|z r IH]; cbn; [intuition congruence|].
  destruct (klt (fst z) (fst x)); cbn; rewrite ?IH; intuition congruence.
Qed.
Lemma ksort_in {A} (y : key * A) l : In y (ksort l) <-> In y l.
Proof.
  induction l as [|x r IH]; [reflexivity|]. unfold ksort in *. cbn [fold_right].
  rewrite kinsert_in, IH. cbn. intuition congruence.
Qed.
Lemma kinsert_length {A} (x : key * A) l : List.length (kinsert x l) = S (List.length l).
Proof. induction l as [|z r IH]; cbn; [reflexivity|]. destruct (klt _ _); cbn; rewrite ?IH; reflexivity. Qed.
Lemma ksort_length {A} (l : list (key * A)) : List.length (ksort l) = List.length l.
Proof. induction l as [|x r IH]; [reflexivity|]. unfold ksort in *. cbn [fold_right]. rewrite kinsert_length, IH. reflexivity. Qed.

(* ---------------------------------------------------------------- derivations *)
Lemma fprio_app a b : fprio (a ++ b) = fprio a + fprio b.
Proof. unfold fprio. induction a as [|x a IH]; cbn [app fold_right]; [lia|]. rewrite IH. lia. Qed.

Lemma in_cross {A} (l r : list A) L R : In l L -> In r R -> In (l ++ r) (cross L R).
Proof.
  intros Hl Hr. unfold cross. apply in_flat_map. exists l. split; [exact Hl|]. apply in_map. exact Hr.
Qed.
Lemma in_cross_inv {A} (x : list A) L R :
  In x (cross L R) -> exists l r, x = l ++ r /\ In l L /\ In r R.
Proof.
  unfold cross. intros H. apply in_flat_map in H. destruct H as [l [Hl H]].
  apply in_map_iff in H. destruct H as [r [<- Hr]]. exists l, r. auto.
Qed.

(* what a family contributes to its parent: the children list below an intermediate
   parent, a tree for the family's rule below a completed symbol *)
Definition wrap (inter : bool) (p : packed) (d : dforest) : dforest :=
  if inter then d else [DNode (p_rule p) d].

Lemma derivs_sym l fams :
  derivs (Sym l fams) = flat_map (fun p => map (wrap (l_inter l) p) (derivs_p p)) fams.
Proof.
  cbn [derivs]. unfold wrap. destruct (l_inter l); [|reflexivity].
  induction fams as [|p r IH]; [reflexivity|]. cbn [flat_map]. rewrite IH, map_id. reflexivity.
Qed.

Lemma derivs_pack r lft rgt : derivs_p (Pack r lft rgt) = cross (derivs_o lft) (derivs_o rgt).
Proof. reflexivity. Qed.

Definition rule_part (inter : bool) (p : packed) : Z := if inter then 0 else rp (p_rule p).

Lemma fprio_wrap inter p d : fprio (wrap inter p d) = rule_part inter p + fprio d.
Proof.
  unfold wrap, rule_part. destruct inter; cbv beta iota; [lia|]. unfold fprio. cbn [fold_right prio]. lia.
Qed.

Definition sv_o (o : option sym) : Z := match o with None => 0 | Some s => sv s end.

Lemma sv_p_eq inter p : sv_p inter p = rule_part inter p + (sv_o (p_right p) + sv_o (p_left p)).
Proof.
  destruct p as [r lft rgt]. cbn [sv_p p_right p_left p_rule].
  change (match rgt with Some s => sv s | None => 0 end) with (sv_o rgt).
  change (match lft with Some s => sv s | None => 0 end) with (sv_o lft).
  generalize (sv_o rgt) (sv_o lft). intros a b.
  unfold rule_part, rule_prio_counts. cbn [p_rule].
  destruct inter; cbn [negb andb]; [lia|].
  unfold truthy, rp. destruct (r_prio r) as [z|]; [|lia].
  destruct (z =? 0) eqn:E; cbn [negb]; lia.
Qed.

Lemma sv_sym l fams : sv (Sym l fams) = zmax_list (map (sv_p (l_inter l)) fams).
Proof. reflexivity. Qed.

(* [m] is attained by a derivation in [D] and bounds them all *)
Definition good (D : list dforest) (m : Z) : Prop :=
  (exists d, In d D /\ fprio d = m) /\ (forall d, In d D -> fprio d <= m).

Lemma good_is_max D m : good D m -> is_max m (map fprio D).
Proof.
  intros [[d [Hd <-]] Hub]. split; [apply in_map; exact Hd|].
  intros y Hy. apply in_map_iff in Hy. destruct Hy as [x [<- Hx]]. apply Hub. exact Hx.
Qed.

Lemma wfb_sym l fams : wfb (Sym l fams) = true -> fams <> [] /\ Forall (fun p => wfb_p p = true) fams.
Proof.
  cbn [wfb]. intros H. apply andb_true_iff in H. destruct H as [H1 H2]. split.
  - destruct fams; [discriminate|congruence].
  - apply Forall_forall. apply forallb_forall. exact H2.
Qed.

Lemma wfb_pack r lft rgt : wfb_p (Pack r lft rgt) = true ->
  (forall s, lft = Some s -> wfb s = true) /\ (forall s, rgt = Some s -> wfb s = true).
Proof.
  cbn [wfb_p]. intros H. apply andb_true_iff in H. destruct H as [H1 H2].
  split; intros s ->; assumption.
Qed.

Lemma good_opt o : (forall s, o = Some s -> wfb s = true -> good (derivs s) (sv s)) ->
  (forall s, o = Some s -> wfb s = true) -> good (derivs_o o) (sv_o o).
Proof.
  intros IH Hwf. destruct o as [s|]; cbn [derivs_o sv_o].
  - apply IH; [reflexivity|]. apply Hwf. reflexivity.
  - split; [exists []; split; [left; reflexivity|reflexivity]|]. intros d [<-|[]]. cbn. lia.
Qed.

Lemma good_cross L R a b : good L a -> good R b -> good (cross L R) (b + a).
Proof.
  intros [[dl [Hdl Hal]] HL] [[dr [Hdr Hbr]] HR]. split.
  - exists (dl ++ dr). split; [apply in_cross; assumption|]. rewrite fprio_app. lia.
  - intros d Hd. apply in_cross_inv in Hd. destruct Hd as [l [r [-> [Hl Hr]]]].
    rewrite fprio_app. specialize (HL _ Hl). specialize (HR _ Hr). lia.
Qed.

(* Under a symbol node the best family gives the node's value *)
Lemma good_sym inter fams :
  fams <> [] ->
  Forall (fun p => good (derivs_p p) (sv_o (p_right p) + sv_o (p_left p))) fams ->
  good (flat_map (fun p => map (wrap inter p) (derivs_p p)) fams) (zmax_list (map (sv_p inter) fams)).
Proof.
  intros Hne Hall. rewrite Forall_forall in Hall.
  destruct (zmax_list_is_max (map (sv_p inter) fams)) as [Hin Hub].
  { destruct fams; [congruence|discriminate]. }
  split.
  - apply in_map_iff in Hin. destruct Hin as [p [Hp Hpin]].
    destruct (Hall p Hpin) as [[d [Hd Hdv]] _].
    exists (wrap inter p d). split.
    + apply in_flat_map. exists p. split; [exact Hpin|]. apply in_map. exact Hd.
    + rewrite fprio_wrap, Hdv, <- Hp, sv_p_eq. reflexivity.
  - intros d Hd. apply in_flat_map in Hd. destruct Hd as [p [Hpin Hd]].
    apply in_map_iff in Hd. destruct Hd as [d0 [<- Hd0]].
    destruct (Hall p Hpin) as [_ Hb]. specialize (Hb _ Hd0).
    specialize (Hub (sv_p inter p) (in_map _ _ _ Hpin)).
    rewrite fprio_wrap. rewrite sv_p_eq in Hub. lia.
Qed.

Lemma sum_visitor_good :
  (forall s, wfb s = true -> good (derivs s) (sv s)) /\
  (forall p, wfb_p p = true -> good (derivs_p p) (sv_o (p_right p) + sv_o (p_left p))).
Proof.
  apply sym_packed_ind.
  - intros a b c _. cbn [derivs sv]. split.
    + exists [DLeaf a b c]. split; [left; reflexivity|]. cbn. lia.
    + intros d [<-|[]]. cbn. lia.
  - intros l fams IH Hwf. apply wfb_sym in Hwf. destruct Hwf as [Hne Hwf].
    rewrite derivs_sym, sv_sym. apply good_sym; [exact Hne|].
    rewrite Forall_forall in *. intros p Hp. apply IH; [exact Hp|]. apply Hwf. exact Hp.
  - intros r lft rgt IHl IHr Hwf. apply wfb_pack in Hwf. destruct Hwf as [Hwl Hwr].
    rewrite derivs_pack. cbn [p_right p_left]. apply good_cross; apply good_opt; assumption.
Qed.

(* ForestSumVisitor: the priority of a node is the maximum total priority of its derivations *)
Theorem sum_visitor_is_max s :
  wfb s = true -> derivs s <> [] /\ sv s = zmax_list (map fprio (derivs s)).
Proof.
  intros Hwf. destruct sum_visitor_good as [H _]. specialize (H s Hwf). split.
  - destruct H as [[d [Hd _]] _]. destruct (derivs s); [destruct Hd|congruence].
  - symmetry. apply is_max_eq. apply good_is_max. exact H.
Qed.

Theorem sum_visitor_packed inter p :
  wfb_p p = true ->
  sv_p inter p = rule_part inter p + zmax_list (map fprio (derivs_p p)).
Proof.
  intros Hwf. destruct sum_visitor_good as [_ H]. specialize (H p Hwf).
  rewrite sv_p_eq. f_equal. symmetry. apply is_max_eq. apply good_is_max. exact H.
Qed.

(* ---------------------------------------------------------------- resolve *)
Lemma hd_error_map {A B} (f : A -> B) l : hd_error (map f l) = option_map f (hd_error l).
Proof. destruct l; reflexivity. Qed.

Lemma resolve_with_sym keyf l fams :
  resolve_with keyf (Sym l fams) =
  match best_by (keyf (l_inter l)) fams with
  | None => []
  | Some p => wrap (l_inter l) p (resolve_with_p keyf p)
  end.
Proof.
  set (F := fun p : packed => wrap (l_inter l) p (resolve_with_p keyf p)).
  change (resolve_with keyf (Sym l fams)) with
    (match ksort (map (fun p => (keyf (l_inter l) p, F p)) fams) with [] => [] | (_, t) :: _ => t end).
  set (L := ksort (map (fun p => (keyf (l_inter l) p, F p)) fams)).
  assert (H : hd_error L = option_map (fun a => (keyf (l_inter l) a, F a)) (best_by (keyf (l_inter l)) fams)).
  { unfold L. rewrite hd_ksort, kbest_map. reflexivity. }
  destruct (best_by (keyf (l_inter l)) fams) as [p|]; cbn [option_map] in H.
  - destruct L as [|[k t] L']; [discriminate|]. cbn in H. injection H as _ ->. reflexivity.
  - destruct L as [|[k t] L']; [reflexivity|discriminate].
Qed.

Lemma resolve_with_pack keyf r lft rgt :
  resolve_with_p keyf (Pack r lft rgt) =
  (match lft with None => [] | Some s => resolve_with keyf s end)
  ++ (match rgt with None => [] | Some s => resolve_with keyf s end).
Proof. reflexivity. Qed.

Lemma chosen_sym l fams : chosen (Sym l fams) = best_by (pkey (l_inter l)) fams.
Proof.
  cbn [chosen]. unfold children_sorted. rewrite hd_error_map, hd_ksort.
  rewrite (kbest_map (pkey (l_inter l)) (fun p => p)).
  destruct (best_by _ fams); reflexivity.
Qed.

(* the resolve-mode result is assembled from the chosen family of every symbol node *)
Theorem resolve_unfold l fams :
  resolve (Sym l fams) =
  match chosen (Sym l fams) with
  | None => []
  | Some p => wrap (l_inter l) p (resolve_p p)
  end.
Proof. rewrite chosen_sym. apply resolve_with_sym. Qed.

Theorem resolve_p_unfold r lft rgt :
  resolve_p (Pack r lft rgt) =
  (match lft with None => [] | Some s => resolve s end) ++ (match rgt with None => [] | Some s => resolve s end).
Proof. reflexivity. Qed.

(* At every symbol node the family kept is the least for sort_key, and the first such in
   insertion order. *)
Theorem resolve_lex_optimal l fams p :
  chosen (Sym l fams) = Some p ->
  exists before after, fams = before ++ p :: after /\
    (forall q, In q before -> klt (pkey (l_inter l) p) (pkey (l_inter l) q) = true) /\
    (forall q, In q after -> kle (pkey (l_inter l) p) (pkey (l_inter l) q) = true).
Proof. rewrite chosen_sym. apply best_by_spec. Qed.

Lemma chosen_some l fams : fams <> [] -> exists p, chosen (Sym l fams) = Some p.
Proof.
  intros H. rewrite chosen_sym. destruct (best_by _ fams) eqn:E; [eauto|].
  apply best_by_none in E. congruence.
Qed.

(* membership: whatever the keys, the result is one of the derivations *)
Lemma resolve_with_in keyf :
  (forall s, wfb s = true -> In (resolve_with keyf s) (derivs s)) /\
  (forall p, wfb_p p = true -> In (resolve_with_p keyf p) (derivs_p p)).
Proof.
  apply sym_packed_ind.
  - intros a b c _. left. reflexivity.
  - intros l fams IH Hwf. apply wfb_sym in Hwf. destruct Hwf as [Hne Hwf].
    rewrite resolve_with_sym, derivs_sym.
    destruct (best_by (keyf (l_inter l)) fams) as [p|] eqn:E.
    + pose proof (best_by_in _ _ _ E) as Hp. apply in_flat_map. exists p. split; [exact Hp|].
      apply in_map. rewrite Forall_forall in *. apply IH; [exact Hp|]. apply Hwf. exact Hp.
    + apply best_by_none in E. congruence.
  - intros r lft rgt IHl IHr Hwf. apply wfb_pack in Hwf. destruct Hwf as [Hwl Hwr].
    rewrite resolve_with_pack, derivs_pack. apply in_cross.
    + destruct lft as [s|]; [|left; reflexivity]. apply IHl; [reflexivity|]. apply Hwl. reflexivity.
    + destruct rgt as [s|]; [|left; reflexivity]. apply IHr; [reflexivity|]. apply Hwr. reflexivity.
Qed.

Theorem resolve_in_derivs s : wfb s = true -> In (resolve s) (derivs s).
Proof. apply (proj1 (resolve_with_in pkey)). Qed.
Theorem resolve_none_in_derivs s : wfb s = true -> In (resolve_none s) (derivs s).
Proof. apply (proj1 (resolve_with_in (fun _ => pkey_none))). Qed.

(* ---------------------------------------------------------------- optimality *)
Lemma uniformb_eq fams p q : uniformb fams = true -> In p fams -> In q fams -> is_empty p = is_empty q.
Proof.
  unfold uniformb. intros H Hp Hq. apply orb_true_iff in H. destruct H as [H|H];
    rewrite forallb_forall in H; pose proof (H _ Hp) as H1; pose proof (H _ Hq) as H2.
  - destruct (is_empty p), (is_empty q); cbn in *; congruence.
  - congruence.
Qed.

Lemma uniform_sym l fams : uniform_emptyb (Sym l fams) = true ->
  uniformb fams = true /\ Forall (fun p => uniform_emptyb_p p = true) fams.
Proof.
  cbn [uniform_emptyb]. intros H. apply andb_true_iff in H. destruct H as [H1 H2]. split; [exact H1|].
  apply Forall_forall. apply forallb_forall. exact H2.
Qed.

Lemma uniform_pack r lft rgt : uniform_emptyb_p (Pack r lft rgt) = true ->
  (forall s, lft = Some s -> uniform_emptyb s = true) /\ (forall s, rgt = Some s -> uniform_emptyb s = true).
Proof.
  cbn [uniform_emptyb_p]. intros H. apply andb_true_iff in H. destruct H as [H1 H2].
  split; intros s ->; assumption.
Qed.

(* with uniform emptiness the chosen family has the greatest priority *)
Lemma chosen_max inter fams p :
  uniformb fams = true -> best_by (pkey inter) fams = Some p ->
  is_max (sv_p inter p) (map (sv_p inter) fams).
Proof.
  intros Hu Hb. pose proof (best_by_in _ _ _ Hb) as Hp. split; [apply in_map; exact Hp|].
  intros y Hy. apply in_map_iff in Hy. destruct Hy as [q [<- Hq]].
  pose proof (best_by_least _ _ _ q Hb Hq) as Hle. unfold pkey in Hle.
  apply sort_key_le in Hle. rewrite (uniformb_eq fams p q Hu Hp Hq) in Hle.
  destruct Hle as [[H1 H2]|[_ H]]; [congruence|lia].
Qed.

Lemma resolve_optimal_aux :
  (forall s, wfb s = true -> uniform_emptyb s = true -> fprio (resolve s) = sv s) /\
  (forall p, wfb_p p = true -> uniform_emptyb_p p = true ->
             fprio (resolve_p p) = sv_o (p_right p) + sv_o (p_left p)).
Proof.
  apply sym_packed_ind.
  - intros a b c _ _. cbn. lia.
  - intros l fams IH Hwf Hu. apply wfb_sym in Hwf. destruct Hwf as [Hne Hwf].
    apply uniform_sym in Hu. destruct Hu as [Hu Hus].
    unfold resolve. rewrite resolve_with_sym, sv_sym.
    destruct (best_by (pkey (l_inter l)) fams) as [p|] eqn:E.
    + pose proof (best_by_in _ _ _ E) as Hp.
      rewrite (is_max_eq _ _ (chosen_max _ _ _ Hu E)).
      rewrite fprio_wrap, sv_p_eq. f_equal.
      rewrite Forall_forall in *. apply IH; [exact Hp|apply Hwf; exact Hp|apply Hus; exact Hp].
    + apply best_by_none in E. congruence.
  - intros r lft rgt IHl IHr Hwf Hu. apply wfb_pack in Hwf. destruct Hwf as [Hwl Hwr].
    apply uniform_pack in Hu. destruct Hu as [Hul Hur].
    unfold resolve_p. rewrite resolve_with_pack, fprio_app. cbn [p_right p_left].
    transitivity (sv_o lft + sv_o rgt); [|lia]. f_equal.
    + destruct lft as [s|]; [|reflexivity]. apply IHl; [reflexivity|apply Hwl; reflexivity|apply Hul; reflexivity].
    + destruct rgt as [s|]; [|reflexivity]. apply IHr; [reflexivity|apply Hwr; reflexivity|apply Hur; reflexivity].
Qed.

(* Where emptiness is uniform in every symbol node, the resolved derivation has the
   greatest total priority among all derivations. *)
Theorem resolve_optimal_uniform s :
  wfb s = true -> uniform_emptyb s = true ->
  In (resolve s) (derivs s) /\ fprio (resolve s) = zmax_list (map fprio (derivs s)).
Proof.
  intros Hwf Hu. split; [apply resolve_in_derivs; exact Hwf|].
  rewrite (proj1 resolve_optimal_aux s Hwf Hu). apply sum_visitor_is_max. exact Hwf.
Qed.

Lemma no_empty_uniform :
  (forall s, no_emptyb s = true -> uniform_emptyb s = true) /\
  (forall p, no_emptyb_p p = true -> uniform_emptyb_p p = true).
Proof.
  apply sym_packed_ind.
  - reflexivity.
  - intros l fams IH H. cbn [no_emptyb] in H. cbn [uniform_emptyb].
    rewrite forallb_forall in H. rewrite Forall_forall in IH. apply andb_true_iff. split.
    + unfold uniformb. apply orb_true_iff. left. apply forallb_forall. intros p Hp.
      specialize (H p Hp). destruct p as [r lft rgt]. cbn [no_emptyb_p] in H.
      apply andb_true_iff in H. destruct H as [H _]. apply andb_true_iff in H. destruct H as [H _]. exact H.
    + apply forallb_forall. intros p Hp. apply IH; [exact Hp|]. apply H. exact Hp.
  - intros r lft rgt IHl IHr H. cbn [no_emptyb_p] in H. cbn [uniform_emptyb_p].
    apply andb_true_iff in H. destruct H as [H Hr]. apply andb_true_iff in H. destruct H as [_ Hl].
    apply andb_true_iff. split.
    + destruct lft as [s|]; [|reflexivity]. apply IHl; [reflexivity|exact Hl].
    + destruct rgt as [s|]; [|reflexivity]. apply IHr; [reflexivity|exact Hr].
Qed.

(* C05, exact optimum for forests without directly empty families *)
Theorem resolve_optimal s :
  wfb s = true -> no_emptyb s = true ->
  In (resolve s) (derivs s) /\ fprio (resolve s) = zmax_list (map fprio (derivs s)).
Proof. intros Hwf Hn. apply resolve_optimal_uniform; [exact Hwf|]. apply no_empty_uniform. exact Hn. Qed.

(* the built-in precedence: an empty family is kept only when every family of its node is
   empty (and then, families being distinct in (left, right), it is the only one) *)
Theorem empty_precedence l fams p :
  chosen (Sym l fams) = Some p -> is_empty p = true -> forall q, In q fams -> is_empty q = true.
Proof.
  rewrite chosen_sym. intros Hb He q Hq.
  pose proof (best_by_least _ _ _ q Hb Hq) as Hle. unfold pkey in Hle. apply sort_key_le in Hle.
  rewrite He in Hle. destruct Hle as [[H _]|[H _]]; congruence.
Qed.

(* ... and conversely a non-empty family is preferred whatever the priorities are *)
Theorem nonempty_preferred l fams p q :
  chosen (Sym l fams) = Some p -> In q fams -> is_empty q = false -> is_empty p = false.
Proof.
  intros Hc Hq Hqe. destruct (is_empty p) eqn:E; [|reflexivity].
  rewrite (empty_precedence l fams p Hc E q Hq) in Hqe. discriminate.
Qed.

(* ---------------------------------------------------------------- changing priorities *)
Lemma map_cross {A B} (h : A -> B) L R :
  cross (map (map h) L) (map (map h) R) = map (map h) (cross L R).
Proof.
  unfold cross. induction L as [|l L IH]; [reflexivity|].
  cbn [map flat_map]. rewrite map_app, IH. f_equal.
  rewrite !map_map. apply map_ext. intros r. rewrite map_app. reflexivity.
Qed.

Lemma p_rule_map f g p : p_rule (map_prio_p f g p) = map_rinfo f (p_rule p).
Proof. destruct p; reflexivity. Qed.
Lemma is_empty_map f g p : is_empty (map_prio_p f g p) = is_empty p.
Proof. destruct p as [r [l|] [rt|]]; reflexivity. Qed.

Lemma wrap_map f g inter p d :
  wrap inter (map_prio_p f g p) (map (map_prio_t f g) d) = map (map_prio_t f g) (wrap inter p d).
Proof. unfold wrap. destruct inter; [reflexivity|]. rewrite p_rule_map. reflexivity. Qed.

Lemma derivs_map_prio f g :
  (forall s, derivs (map_prio f g s) = map (map (map_prio_t f g)) (derivs s)) /\
  (forall p, derivs_p (map_prio_p f g p) = map (map (map_prio_t f g)) (derivs_p p)).
Proof.
  apply sym_packed_ind.
  - reflexivity.
  - intros l fams IH. cbn [map_prio]. rewrite !derivs_sym.
    induction IH as [|p r Hp _ IHr]; [reflexivity|].
    cbn [map flat_map]. rewrite map_app, IHr. f_equal.
    rewrite Hp, !map_map. apply map_ext. intros d. apply wrap_map.
  - intros r lft rgt IHl IHr. cbn [map_prio_p]. rewrite !derivs_pack, <- map_cross. f_equal.
    + destruct lft as [s|]; [|reflexivity]. apply IHl. reflexivity.
    + destruct rgt as [s|]; [|reflexivity]. apply IHr. reflexivity.
Qed.

Lemma forallb_map_ext {A} (m : A -> A) (f h : A -> bool) l :
  Forall (fun a => f (m a) = h a) l -> forallb f (map m l) = forallb h l.
Proof. induction 1 as [|a r Ha _ IH]; [reflexivity|]. cbn. rewrite Ha, IH. reflexivity. Qed.

Lemma wfb_map_prio f g :
  (forall s, wfb (map_prio f g s) = wfb s) /\ (forall p, wfb_p (map_prio_p f g p) = wfb_p p).
Proof.
  apply sym_packed_ind.
  - reflexivity.
  - intros l fams IH. cbn [map_prio wfb]. rewrite (forallb_map_ext _ _ wfb_p _ IH).
    destruct fams; reflexivity.
  - intros r lft rgt IHl IHr. cbn [map_prio_p wfb_p]. f_equal.
    + destruct lft as [s|]; [|reflexivity]. apply IHl. reflexivity.
    + destruct rgt as [s|]; [|reflexivity]. apply IHr. reflexivity.
Qed.

Lemma uniform_map_prio f g :
  (forall s, uniform_emptyb (map_prio f g s) = uniform_emptyb s) /\
  (forall p, uniform_emptyb_p (map_prio_p f g p) = uniform_emptyb_p p).
Proof.
  apply sym_packed_ind.
  - reflexivity.
  - intros l fams IH. cbn [map_prio uniform_emptyb]. rewrite (forallb_map_ext _ _ uniform_emptyb_p _ IH).
    f_equal. unfold uniformb. f_equal; apply forallb_map_ext; apply Forall_forall; intros p _;
      rewrite is_empty_map; reflexivity.
  - intros r lft rgt IHl IHr. cbn [map_prio_p uniform_emptyb_p]. f_equal.
    + destruct lft as [s|]; [|reflexivity]. apply IHl. reflexivity.
    + destruct rgt as [s|]; [|reflexivity]. apply IHr. reflexivity.
Qed.


(* negation of every priority *)
Definition neg : sym -> sym := map_prio (option_map Z.opp) Z.opp.
Definition neg_t : dtree -> dtree := map_prio_t (option_map Z.opp) Z.opp.

Lemma rp_neg r : rp (map_rinfo (option_map Z.opp) r) = - rp r.
Proof. unfold rp, map_rinfo. cbn. destruct (r_prio r); cbn; lia. Qed.

Lemma prio_neg : forall t, prio (neg_t t) = - prio t.
Proof.
  fix IH 1. intros [r cs|a b c]; [|reflexivity].
  unfold neg_t in *. cbn [map_prio_t prio]. rewrite rp_neg.
  assert (H : fold_right (fun c acc => prio c + acc) 0 (map (map_prio_t (option_map Z.opp) Z.opp) cs)
              = - fold_right (fun c acc => prio c + acc) 0 cs).
  { induction cs as [|c cs IHcs]; [reflexivity|]. cbn [map fold_right]. rewrite IH, IHcs. lia. }
  rewrite H. lia.
Qed.

Lemma fprio_neg d : fprio (map neg_t d) = - fprio d.
Proof. unfold fprio. induction d as [|t d IH]; [reflexivity|]. cbn [map fold_right]. rewrite prio_neg, IH. lia. Qed.

(* C05, priority='invert': resolving the forest with all priorities negated yields (the
   negated copy of) a derivation whose total priority is the MINIMUM *)
Theorem resolve_invert_uniform s :
  wfb s = true -> uniform_emptyb s = true ->
  exists d, In d (derivs s) /\ resolve (neg s) = map neg_t d /\
            fprio d = zmin_list (map fprio (derivs s)).
Proof.
  intros Hwf Hu.
  assert (Hwf' : wfb (neg s) = true) by (unfold neg; rewrite (proj1 (wfb_map_prio _ _)); exact Hwf).
  assert (Hu' : uniform_emptyb (neg s) = true) by (unfold neg; rewrite (proj1 (uniform_map_prio _ _)); exact Hu).
  destruct (resolve_optimal_uniform (neg s) Hwf' Hu') as [Hin Hmax].
  unfold neg in Hin, Hmax. rewrite (proj1 (derivs_map_prio _ _)) in Hin, Hmax.
  apply in_map_iff in Hin. destruct Hin as [d [Hd Hdin]].
  exists d. split; [exact Hdin|]. split; [symmetry; exact Hd|].
  fold neg in Hmax, Hd. rewrite <- Hd in Hmax. fold neg_t in Hmax. rewrite fprio_neg in Hmax.
  rewrite map_map in Hmax.
  assert (Hne : map fprio (derivs s) <> []).
  { destruct (derivs s); [destruct Hdin|discriminate]. }
  pose proof (is_max_opp _ _ (zmin_list_is_min _ Hne)) as Hm.
  rewrite map_map in Hm.
  assert (E : map (fun x => fprio (map neg_t x)) (derivs s)
              = map (fun x => - fprio x) (derivs s)).
  { apply map_ext. intros x. apply fprio_neg. }
  rewrite E in Hmax. rewrite (is_max_eq _ _ Hm) in Hmax. lia.
Qed.

(* ---------------------------------------------------------------- priority = None *)
Lemma zmax_list_zero l : (forall x, In x l -> x = 0) -> zmax_list l = 0.
Proof.
  intros H. destruct l as [|a r] eqn:E; [reflexivity|]. rewrite <- E in *. apply is_max_eq. split.
  - rewrite E. left. apply H. rewrite E. left. reflexivity.
  - intros y Hy. rewrite (H y Hy). lia.
Qed.

Lemma all_zero_pack r lft rgt : all_zerob_p (Pack r lft rgt) = true ->
  truthy (r_prio r) = false /\ (forall s, lft = Some s -> all_zerob s = true) /\
  (forall s, rgt = Some s -> all_zerob s = true).
Proof.
  cbn [all_zerob_p]. intros H. apply andb_true_iff in H. destruct H as [H Hr].
  apply andb_true_iff in H. destruct H as [Ht Hl]. split; [destruct (truthy (r_prio r)); [discriminate|reflexivity]|].
  split; intros s ->; assumption.
Qed.

Lemma rp_not_truthy r : truthy (r_prio r) = false -> rp r = 0.
Proof. unfold truthy, rp. destruct (r_prio r) as [z|]; [|reflexivity]. intros H. lia. Qed.

Lemma all_zero_sv :
  (forall s, all_zerob s = true -> sv s = 0) /\
  (forall p, all_zerob_p p = true -> forall inter, sv_p inter p = 0).
Proof.
  apply sym_packed_ind.
  - intros a b c H. cbn in *. lia.
  - intros l fams IH H. cbn [all_zerob] in H. rewrite forallb_forall in H. rewrite Forall_forall in IH.
    rewrite sv_sym. apply zmax_list_zero. intros x Hx. apply in_map_iff in Hx.
    destruct Hx as [p [<- Hp]]. apply IH; [exact Hp|]. apply H. exact Hp.
  - intros r lft rgt IHl IHr H inter. apply all_zero_pack in H. destruct H as [Ht [Hl Hr]].
    rewrite sv_p_eq. cbn [p_right p_left]. unfold rule_part. cbn [p_rule]. rewrite (rp_not_truthy r Ht).
    assert (sv_o lft = 0) as -> by (destruct lft as [s|]; [apply IHl; [reflexivity|apply Hl; reflexivity]|reflexivity]).
    assert (sv_o rgt = 0) as -> by (destruct rgt as [s|]; [apply IHr; [reflexivity|apply Hr; reflexivity]|reflexivity]).
    destruct inter; reflexivity.
Qed.

(* when every priority is absent or zero the walk is superfluous: the keys with and
   without it order the families in the same way *)
Lemma all_zero_resolve :
  (forall s, all_zerob s = true -> resolve_none s = resolve s) /\
  (forall p, all_zerob_p p = true -> resolve_with_p (fun _ => pkey_none) p = resolve_p p).
Proof.
  apply sym_packed_ind.
  - reflexivity.
  - intros l fams IH H. cbn [all_zerob] in H. rewrite forallb_forall in H. rewrite Forall_forall in IH.
    unfold resolve_none, resolve. rewrite !resolve_with_sym. cbv beta.
    rewrite (best_by_ext pkey_none (pkey (l_inter l)) fams).
    + destruct (best_by (pkey (l_inter l)) fams) as [p|] eqn:E; [|reflexivity].
      pose proof (best_by_in _ _ _ E) as Hp. f_equal. apply IH; [exact Hp|]. apply H. exact Hp.
    + intros p Hp. unfold pkey, pkey_none. rewrite (proj2 all_zero_sv p (H p Hp)). reflexivity.
  - intros r lft rgt IHl IHr H. apply all_zero_pack in H. destruct H as [_ [Hl Hr]].
    unfold resolve_p. rewrite !resolve_with_pack. f_equal.
    + destruct lft as [s|]; [|reflexivity]. apply IHl; [reflexivity|apply Hl; reflexivity].
    + destruct rgt as [s|]; [|reflexivity]. apply IHr; [reflexivity|apply Hr; reflexivity].
Qed.

(* without the walk the choice does not look at priorities at all *)
Lemma resolve_none_map_prio f g :
  (forall s, resolve_none (map_prio f g s) = map (map_prio_t f g) (resolve_none s)) /\
  (forall p, resolve_with_p (fun _ => pkey_none) (map_prio_p f g p)
             = map (map_prio_t f g) (resolve_with_p (fun _ => pkey_none) p)).
Proof.
  apply sym_packed_ind.
  - reflexivity.
  - intros l fams IH. rewrite Forall_forall in IH. cbn [map_prio]. unfold resolve_none.
    rewrite !resolve_with_sym. cbv beta. rewrite best_by_map.
    rewrite (best_by_ext (fun a => pkey_none (map_prio_p f g a)) pkey_none fams).
    + destruct (best_by pkey_none fams) as [p|] eqn:E; cbn [option_map]; [|reflexivity].
      rewrite (IH p (best_by_in _ _ _ E)). apply wrap_map.
    + intros p _. unfold pkey_none. rewrite is_empty_map, p_rule_map. reflexivity.
  - intros r lft rgt IHl IHr. cbn [map_prio_p]. rewrite !resolve_with_pack, map_app. f_equal.
    + destruct lft as [s|]; [|reflexivity]. apply IHl. reflexivity.
    + destruct rgt as [s|]; [|reflexivity]. apply IHr. reflexivity.
Qed.

Definition strip : sym -> sym := map_prio (fun _ => None) (fun _ => 0).
Definition strip_t : dtree -> dtree := map_prio_t (fun _ => None) (fun _ => 0).

Lemma all_zero_strip :
  (forall s, all_zerob (strip s) = true) /\
  (forall p, all_zerob_p (map_prio_p (fun _ => None) (fun _ => 0) p) = true).
Proof.
  apply sym_packed_ind.
  - reflexivity.
  - intros l fams IH. unfold strip. cbn [map_prio all_zerob]. rewrite Forall_forall in IH.
    apply forallb_forall. intros p Hp. apply in_map_iff in Hp. destruct Hp as [q [<- Hq]]. apply IH. exact Hq.
  - intros r lft rgt IHl IHr. cbn [map_prio_p all_zerob_p map_rinfo r_prio truthy negb andb].
    apply andb_true_iff. split.
    + destruct lft as [s|]; [|reflexivity]. apply IHl. reflexivity.
    + destruct rgt as [s|]; [|reflexivity]. apply IHr. reflexivity.
Qed.

(* C05, priority=None: the result is the one the all-zero assignment gives, and it is the
   same derivation (up to the stripped annotations) whatever priorities were written *)
Theorem resolve_stripped s :
  resolve_none (strip s) = resolve (strip s) /\
  resolve_none (strip s) = map strip_t (resolve_none s).
Proof.
  split.
  - apply (proj1 all_zero_resolve). apply all_zero_strip.
  - apply (proj1 (resolve_none_map_prio _ _)).
Qed.

(* ---------------------------------------------------------------- the Lark-level function *)
Lemma map_rinfo_id r : map_rinfo (fun p => p) r = r.
Proof. destruct r; reflexivity. Qed.

Lemma map_prio_id :
  (forall s, map_prio (fun p => p) (fun p => p) s = s) /\
  (forall p, map_prio_p (fun p => p) (fun p => p) p = p).
Proof.
  apply sym_packed_ind.
  - reflexivity.
  - intros l fams IH. cbn [map_prio]. f_equal. induction IH as [|p r Hp _ IHr]; [reflexivity|].
    cbn [map]. rewrite Hp, IHr. reflexivity.
  - intros r lft rgt IHl IHr. cbn [map_prio_p]. rewrite map_rinfo_id. f_equal.
    + destruct lft as [s|]; [|reflexivity]. f_equal. apply IHl. reflexivity.
    + destruct rgt as [s|]; [|reflexivity]. f_equal. apply IHr. reflexivity.
Qed.

Lemma apply_normal s : apply_mode PNormal s = s.
Proof. apply (proj1 map_prio_id). Qed.
Lemma apply_invert s : apply_mode PInvert s = neg s.
Proof. reflexivity. Qed.
Lemma apply_none s : apply_mode PNone s = strip s.
Proof. reflexivity. Qed.

Lemma all_zero_neg :
  (forall s, all_zerob (neg s) = all_zerob s) /\
  (forall p, all_zerob_p (map_prio_p (option_map Z.opp) Z.opp p) = all_zerob_p p).
Proof.
  apply sym_packed_ind.
  - intros a b c. cbn. lia.
  - intros l fams IH. unfold neg. cbn [map_prio all_zerob]. apply forallb_map_ext. exact IH.
  - intros r lft rgt IHl IHr. cbn [map_prio_p all_zerob_p map_rinfo r_prio]. f_equal; [f_equal|].
    + unfold truthy. destruct (r_prio r) as [z|]; cbn [option_map]; [|reflexivity]. f_equal. lia.
    + destruct lft as [s|]; [|reflexivity]. apply IHl. reflexivity.
    + destruct rgt as [s|]; [|reflexivity]. apply IHr. reflexivity.
Qed.

Lemma uses_visitor_none basic rps tps : uses_visitor PNone basic rps tps = false.
Proof.
  unfold uses_visitor. apply orb_false_iff. split.
  - induction rps as [|a r IH]; [reflexivity|]. cbn. exact IH.
  - destruct basic; [reflexivity|]. cbn [negb andb].
    induction tps as [|a r IH]; [reflexivity|]. cbn. exact IH.
Qed.

Theorem lark_optimal basic rps tps s :
  wfb s = true -> no_emptyb s = true ->
  (uses_visitor PNormal basic rps tps = false -> all_zerob s = true) ->
  In (lark_resolve PNormal basic rps tps s) (derivs s) /\
  fprio (lark_resolve PNormal basic rps tps s) = zmax_list (map fprio (derivs s)).
Proof.
  intros Hwf Hn Hz. unfold lark_resolve. rewrite apply_normal.
  destruct (uses_visitor PNormal basic rps tps).
  - apply resolve_optimal; assumption.
  - rewrite (proj1 all_zero_resolve s (Hz eq_refl)). apply resolve_optimal; assumption.
Qed.

Theorem lark_invert basic rps tps s :
  wfb s = true -> no_emptyb s = true ->
  (uses_visitor PInvert basic rps tps = false -> all_zerob s = true) ->
  exists d, In d (derivs s) /\ lark_resolve PInvert basic rps tps s = map neg_t d /\
            fprio d = zmin_list (map fprio (derivs s)).
Proof.
  intros Hwf Hn Hz. unfold lark_resolve. rewrite apply_invert.
  assert (Hu : uniform_emptyb s = true) by (apply no_empty_uniform; exact Hn).
  destruct (uses_visitor PInvert basic rps tps).
  - apply resolve_invert_uniform; assumption.
  - rewrite (proj1 all_zero_resolve (neg s)).
    + apply resolve_invert_uniform; assumption.
    + rewrite (proj1 all_zero_neg). apply Hz. reflexivity.
Qed.

Theorem lark_none basic rps tps s :
  uses_visitor PNone basic rps tps = false /\
  lark_resolve PNone basic rps tps s = resolve (strip s) /\
  lark_resolve PNone basic rps tps s = map strip_t (resolve_none s).
Proof.
  unfold lark_resolve. rewrite uses_visitor_none, apply_none. split; [reflexivity|].
  destruct (resolve_stripped s) as [H1 H2]. rewrite <- H1. split; [reflexivity|exact H2].
Qed.

(* the model is a function of the forest (ordered families), the mode and the tables *)
Theorem lark_resolve_deterministic m basic rps tps s1 s2 :
  s1 = s2 -> lark_resolve m basic rps tps s1 = lark_resolve m basic rps tps s2.
Proof. intros ->. reflexivity. Qed.
