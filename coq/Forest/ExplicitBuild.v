(* C04 layer A - the SPPF as the Earley parser builds it (lark/parsers/earley.py: the three add_family call
   sites of predict_and_complete / scan, node cache keyed by (s, start, end)), as a graph: nodes are their
   labels, a forest is a set of (label, family) pairs.  Definitions only; proofs in ExplicitBuild_proofs.v.
   Positions are abstract units (token indices under the basic lexer, character offsets under the dynamic
   lexers); a lexeme x has a length [tlen x] and [occurs x i] says that it is found at position i of the input. *)
From Coq Require Import List Arith Bool.
From LV Require Import Cfg.Grammar.
Import ListNotations.

Section Build.
  Variable G : grammar.
  Variable tok : Type.
  Variable tmatch : nat -> tok -> bool.     (* terminal t matches the lexeme *)
  Variable tlen : tok -> nat.
  Variable occurs : tok -> nat -> bool.

  (* SymbolNode(s, start, end) with s a non-terminal or (rule, ptr); TokenNode *)
  Inductive nlabel :=
  | NSym (a i j : nat)
  | NInter (r : rule) (d i j : nat)
  | NTok (t : nat) (x : tok) (i j : nat).

  (* PackedNode(rule, left, right) *)
  Definition family : Type := rule * option nlabel * option nlabel.

  (* label of the node of an item (rule, ptr = d, start = i) in column j: item.s is the origin when the item is
     complete, else (rule, ptr) *)
  Definition ilabel (r : rule) (d i j : nat) : nlabel :=
    if Nat.eqb d (length (rhs r)) then NSym (lhs r) i j else NInter r d i j.

  (* the right child for symbol s between positions m and j *)
  Definition child_ok (s : symbol) (rn : nlabel) (m j : nat) : Prop :=
    match s with
    | T t => exists x, rn = NTok t x m j /\ tmatch t x = true /\ occurs x m = true /\ j = m + tlen x
    | NT a => rn = NSym a m j
    end.

  (* what every add_family call guarantees, locally:
     - completer on an empty rule: (origin, k, k) gets (rule, None, None);
     - scanner / completer / predictor-with-held-completion advancing an item with ptr = 0: the new node
       (label of (rule, 1, i) in column j) gets (rule, None, child);
     - the same advancing an item with ptr = d >= 1 whose node is ((rule, d), i, m): (rule, that node, child) *)
  Inductive fam_ok : nlabel -> family -> Prop :=
  | ok_empty r k : In r G -> rhs r = [] -> fam_ok (NSym (lhs r) k k) (r, None, None)
  | ok_first r s rn i j : In r G -> nth_error (rhs r) 0 = Some s -> child_ok s rn i j ->
      fam_ok (ilabel r 1 i j) (r, None, Some rn)
  | ok_next r d s rn i m j : In r G -> 1 <= d -> nth_error (rhs r) d = Some s -> child_ok s rn m j ->
      fam_ok (ilabel r (S d) i j) (r, Some (NInter r d i m), Some rn).

  (* derivation trees of G *)
  Inductive dt := DL (t : nat) (x : tok) | DN (r : rule) (ks : list dt).

  Fixpoint yield (d : dt) : list tok :=
    match d with
    | DL _ x => [x]
    | DN _ ks => (fix go (ks : list dt) := match ks with [] => [] | k :: r => yield k ++ go r end) ks
    end.
  Definition yields (ds : list dt) : list tok := flat_map yield ds.

  Inductive wfd : dt -> symbol -> Prop :=
  | wfd_leaf t x : tmatch t x = true -> wfd (DL t x) (T t)
  | wfd_node r ks : In r G -> Forall2 wfd ks (rhs r) -> wfd (DN r ks) (NT (lhs r)).

  (* the lexemes u tile the input between positions i and j *)
  Inductive tiles : nat -> nat -> list tok -> Prop :=
  | tiles_nil i : tiles i i []
  | tiles_cons x i j u : occurs x i = true -> tiles (i + tlen x) j u -> tiles i j (x :: u).

  (* the derivations (children sequences) a forest F stores below a node; inductive, so for a cyclic forest
     these are the finite unfoldings *)
  Variable F : nlabel -> family -> Prop.

  Definition pack (lbl : nlabel) (r : rule) (ds : list dt) : list dt :=
    match lbl with NSym _ _ _ => [DN r ds] | _ => ds end.

  Inductive den : nlabel -> list dt -> Prop :=
  | den_tok t x i j : den (NTok t x i j) [DL t x]
  | den_fam lbl r l rt ds1 ds2 :
      F lbl (r, l, rt) -> den_opt l ds1 -> den_opt rt ds2 -> den lbl (pack lbl r (ds1 ++ ds2))
  with den_opt : option nlabel -> list dt -> Prop :=
  | deno_none : den_opt None []
  | deno_some l ds : den l ds -> den_opt (Some l) ds.

  (* what a node label promises about the derivations below it *)
  Definition sound (lbl : nlabel) (ds : list dt) : Prop :=
    match lbl with
    | NSym a i j => exists d, ds = [d] /\ wfd d (NT a) /\ tiles i j (yield d)
    | NInter r d i j => In r G /\ Forall2 wfd ds (firstn d (rhs r)) /\ tiles i j (yields ds)
    | NTok t x i j => ds = [DL t x]     (* match and position are vouched for by the family that uses it *)
    end.

  (* ---- decidable version of fam_ok, evaluated by the harness on every exported family ---- *)
  Definition rule_eqb (a b : rule) : bool := if rule_eq_dec a b then true else false.
  Definition mem_rule (r : rule) : bool := existsb (rule_eqb r) G.

  (* Some (i, j) iff lbl = ilabel r d i j *)
  Definition is_ilabel (lbl : nlabel) (r : rule) (d : nat) : option (nat * nat) :=
    match lbl with
    | NSym a i j => if Nat.eqb d (length (rhs r)) && Nat.eqb a (lhs r) then Some (i, j) else None
    | NInter r0 d0 i j =>
        if rule_eqb r0 r && Nat.eqb d0 d && negb (Nat.eqb d (length (rhs r))) then Some (i, j) else None
    | NTok _ _ _ _ => None
    end.

  Definition child_okb (s : symbol) (rn : nlabel) (m j : nat) : bool :=
    match s, rn with
    | T t, NTok t' x m' j' =>
        Nat.eqb t t' && tmatch t x && occurs x m && Nat.eqb m' m && Nat.eqb j' j && Nat.eqb j (m + tlen x)
    | NT a, NSym a' m' j' => Nat.eqb a a' && Nat.eqb m' m && Nat.eqb j' j
    | _, _ => false
    end.

  Definition fam_okb (lbl : nlabel) (f : family) : bool :=
    let '(r, l, rt) := f in
    mem_rule r &&
    match l, rt with
    | None, None =>
        match rhs r, lbl with
        | [], NSym a i j => Nat.eqb a (lhs r) && Nat.eqb i j
        | _, _ => false
        end
    | None, Some rn =>
        match nth_error (rhs r) 0, is_ilabel lbl r 1 with
        | Some s, Some (i, j) => child_okb s rn i j
        | _, _ => false
        end
    | Some (NInter r' d i m), Some rn =>
        rule_eqb r' r && Nat.leb 1 d &&
        match nth_error (rhs r) d, is_ilabel lbl r (S d) with
        | Some s, Some (i', j) => Nat.eqb i' i && child_okb s rn m j
        | _, _ => false
        end
    | _, _ => false
    end.

  (* forests given as lists of (label, family), as exported by the harness *)
  Definition in_forest (fams : list (nlabel * family)) (lbl : nlabel) (f : family) : Prop := In (lbl, f) fams.
  Definition forest_okb (fams : list (nlabel * family)) : bool :=
    forallb (fun lf => fam_okb (fst lf) (snd lf)) fams.
End Build.
