(* Model of ForestSumVisitor and of ForestToParseTree(resolve_ambiguity=True) on acyclic
   forests, and of the priority block of Lark.__init__ (lark/lark.py: invert / None).
   Executable definitions only; proofs in Prio_proofs.v.  The sort-key tuple, the combining
   function of symbol nodes and the condition for counting a rule priority come from
   Gen/ForestSortKey.v (regenerated from lark/parsers/earley_forest.py on every run). *)
From Coq Require Import ZArith List Bool String.
From LV Require Import Forest.Sppf Gen.ForestSortKey.
Import ListNotations.
Local Open Scope Z_scope.

(* ---- keys and Python's stable sort -------------------------------------------------- *)
Definition key := (Z * Z * Z)%type.

(* tuple comparison a < b *)
Definition klt (a b : key) : bool :=
  let '(a1, a2, a3) := a in let '(b1, b2, b3) := b in
  (a1 <? b1) || ((a1 =? b1) && ((a2 <? b2) || ((a2 =? b2) && (a3 <? b3)))).

(* sorted(l, key=...) : insertion of each element before the first later element whose key
   is not smaller - elements with equal keys keep their relative order *)
Fixpoint kinsert {A} (x : key * A) (l : list (key * A)) : list (key * A) :=
  match l with
  | [] => [x]
  | y :: r => if klt (fst y) (fst x) then y :: kinsert x r else x :: y :: r
  end.
Definition ksort {A} (l : list (key * A)) : list (key * A) := fold_right kinsert [] l.

(* the first element of a stable sort: the leftmost element with a least key *)
Fixpoint kbest {A} (l : list (key * A)) : option (key * A) :=
  match l with
  | [] => None
  | x :: r => match kbest r with
              | None => Some x
              | Some y => if klt (fst y) (fst x) then Some y else Some x
              end
  end.

(* max(...) over a non-empty sequence (Python raises on an empty one: excluded by [wfb]) *)
Definition zcombine_list (l : list Z) : Z :=
  match l with [] => 0 | x :: r => fold_left sym_combine r x end.
Definition zmax_list (l : list Z) : Z :=
  match l with [] => 0 | x :: r => fold_left Z.max r x end.
Definition zmin_list (l : list Z) : Z :=
  match l with [] => 0 | x :: r => fold_left Z.min r x end.

Definition truthy (o : option Z) : bool := match o with Some z => negb (z =? 0) | None => false end.

(* ---- ForestSumVisitor ---------------------------------------------------------------- *)
(* visit_packed_node_out:  (rule priority if counted else 0) + right.priority + left.priority
   visit_symbol_node_out:  max of the packed children
   TokenNode: its own priority *)
Fixpoint sv (s : sym) : Z :=
  match s with
  | TokLeaf _ _ p => p
  | Sym l fams => zcombine_list (map (sv_p (l_inter l)) fams)
  end
with sv_p (inter : bool) (p : packed) {struct p} : Z :=
  match p with
  | Pack r lft rgt =>
      (if rule_prio_counts inter (truthy (r_prio r)) then rp r else 0)
      + (match rgt with None => 0 | Some s => sv s end)
      + (match lft with None => 0 | Some s => sv s end)
  end.

(* PackedNode.sort_key after the visitor ran *)
Definition pkey (inter : bool) (p : packed) : key :=
  sort_key (is_empty p) (sv_p inter p) (r_order (p_rule p)).
(* ... and when no visitor ran: every priority is float('-inf'), the same in every key *)
Definition pkey_none (p : packed) : key :=
  sort_key (is_empty p) 0 (r_order (p_rule p)).

(* SymbolNode.children : the packed children sorted by sort_key *)
Definition children_sorted (inter : bool) (fams : list packed) : list packed :=
  map snd (ksort (map (fun p => (pkey inter p, p)) fams)).
(* the family ForestToParseTree keeps in resolve mode: the first of [children] *)
Definition chosen (s : sym) : option packed :=
  match s with
  | Sym l fams => hd_error (children_sorted (l_inter l) fams)
  | TokLeaf _ _ _ => None
  end.

(* ---- ForestToParseTree(resolve_ambiguity=True) with rule-identity callbacks ------------
   The first packed child (in [children] order) of every symbol node is transformed, the
   others are discarded; an intermediate node hands its children list to the packed node
   above, a completed symbol builds a tree for its rule. *)
Section Resolve.
  Variable keyf : bool -> packed -> key.

  Fixpoint resolve_with (s : sym) : dforest :=
    match s with
    | TokLeaf a b c => [DLeaf a b c]
    | Sym l fams =>
        match ksort (map (fun p => (keyf (l_inter l) p,
                                    if l_inter l then resolve_with_p p
                                    else [DNode (p_rule p) (resolve_with_p p)])) fams) with
        | [] => []
        | (_, t) :: _ => t
        end
    end
  with resolve_with_p (p : packed) : dforest :=
    match p with
    | Pack r lft rgt => (match lft with None => [] | Some s => resolve_with s end)
                        ++ (match rgt with None => [] | Some s => resolve_with s end)
    end.
End Resolve.

Definition resolve : sym -> dforest := resolve_with pkey.
Definition resolve_p : packed -> dforest := resolve_with_p pkey.
Definition resolve_none : sym -> dforest := resolve_with (fun _ => pkey_none).

(* ---- Lark.__init__: priority = 'normal' | 'invert' | None ---------------------------- *)
Inductive pmode := PNormal | PInvert | PNone.

Definition load_rprio (m : pmode) (p : option Z) : option Z :=
  match m with PNormal => p | PInvert => option_map Z.opp p | PNone => None end.
Definition load_tprio (m : pmode) (p : Z) : Z :=
  match m with PNormal => p | PInvert => - p | PNone => 0 end.

Definition map_rinfo (f : option Z -> option Z) (r : rinfo) : rinfo :=
  mkRule (r_id r) (r_name r) (f (r_prio r)) (r_order r).

(* the same forest with other priorities *)
Fixpoint map_prio (f : option Z -> option Z) (g : Z -> Z) (s : sym) : sym :=
  match s with
  | TokLeaf a b c => TokLeaf a b (g c)
  | Sym l fams => Sym l (map (map_prio_p f g) fams)
  end
with map_prio_p (f : option Z -> option Z) (g : Z -> Z) (p : packed) : packed :=
  match p with
  | Pack r lft rgt => Pack (map_rinfo f r)
                           (match lft with None => None | Some s => Some (map_prio f g s) end)
                           (match rgt with None => None | Some s => Some (map_prio f g s) end)
  end.

Fixpoint map_prio_t (f : option Z -> option Z) (g : Z -> Z) (t : dtree) : dtree :=
  match t with
  | DNode r cs => DNode (map_rinfo f r) (map (map_prio_t f g) cs)
  | DLeaf a b c => DLeaf a b (g c)
  end.

(* [s] is the forest with the priorities as priority='normal' loads them (token nodes have
   priority 0 under the basic lexer); under mode [m] the engine builds the same forest with
   the loaded priorities *)
Definition apply_mode (m : pmode) : sym -> sym := map_prio (load_rprio m) (load_tprio m).
Definition apply_mode_t (m : pmode) : dtree -> dtree := map_prio_t (load_rprio m) (load_tprio m).

Definition is_some {A} (o : option A) : bool := match o with Some _ => true | None => false end.

(* earley.Parser.__init__: the forest walk is requested iff some rule has a priority, or the
   lexer is dynamic and some terminal has a non-zero priority *)
Definition uses_visitor (m : pmode) (basic : bool) (rule_prios : list (option Z)) (term_prios : list Z) : bool :=
  existsb (fun p => is_some (load_rprio m p)) rule_prios
  || (negb basic && existsb (fun p => negb (load_tprio m p =? 0)) term_prios).

(* what Lark(ambiguity='resolve', priority=m).parse returns, as a derivation, given the
   forest with the priorities of priority='normal' *)
Definition lark_resolve (m : pmode) (basic : bool) (rule_prios : list (option Z)) (term_prios : list Z)
           (s : sym) : dforest :=
  if uses_visitor m basic rule_prios term_prios then resolve (apply_mode m s)
  else resolve_none (apply_mode m s).

(* all priorities are absent / zero *)
Fixpoint all_zerob (s : sym) : bool :=
  match s with
  | TokLeaf _ _ p => p =? 0
  | Sym l fams => forallb all_zerob_p fams
  end
with all_zerob_p (p : packed) : bool :=
  match p with
  | Pack r lft rgt => negb (truthy (r_prio r))
                      && (match lft with None => true | Some s => all_zerob s end)
                      && (match rgt with None => true | Some s => all_zerob s end)
  end.
