(* ForestSumVisitor on the forest as a label-keyed graph (Forest/ExplicitBuild.v, GraphResolve.v).
   Definitions only; proofs in GraphSum_proofs.v.

   * [svw]: the visitor's computation as coded - ForestVisitor.visit with single_visit=True, depth first;
     visit_symbol_node_in hands iter(node.children) (at that moment every packed child still has priority -inf, so
     the order is the stable sort by (is_empty, rule.order)); visit_packed_node_in yields left then right;
     visit_packed_node_out: priority = rule priority (only below a completed symbol) + right.priority +
     left.priority with whatever the children carry at that moment (-inf for a symbol node not finished yet);
     visit_symbol_node_out: max of the packed children.  A node already visited or on the path is not entered.
     -inf is [None].
   * [gsv]: the equations the walk solves on an acyclic forest, as a plain recursive function. *)
From Coq Require Import ZArith List Arith Bool.
From LV Require Import Cfg.Grammar Forest.ExplicitBuild Forest.GraphResolve Gen.ForestSortKey Forest.Prio.
Import ListNotations.
Local Open Scope Z_scope.

Section GraphSum.
  Variable tok : Type.
  Variable teqb : tok -> tok -> bool.
  Variable fams : list (nlabel tok * family tok).
  Variable rprio : rule -> Z.          (* rule.options.priority or 0 *)
  Variable rorder : rule -> Z.         (* rule.order *)
  Variable tprio : nat -> tok -> Z.    (* TokenNode.priority *)

  Notation label := (nlabel tok).
  Notation leqb := (nlabel_eqb tok teqb).
  Notation fams_of := (fams_of tok teqb fams).

  Definition is_symb (l : label) : bool := match l with NSym _ _ _ _ => true | _ => false end.
  Definition is_tokb (l : label) : bool := match l with NTok _ _ _ _ _ => true | _ => false end.
  Definition rule_part (lbl : label) (r : rule) : Z := if is_symb lbl then rprio r else 0.

  (* ---- the equations, recursively ------------------------------------------------------------------ *)
  Definition gsvf_with (g : label -> Z) (lbl : label) (fm : family tok) : Z :=
    let '(r, l, rt) := fm in
    rule_part lbl r + (match rt with None => 0 | Some c => g c end) + (match l with None => 0 | Some c => g c end).

  Fixpoint gsv (fuel : nat) (lbl : label) : Z :=
    match fuel with
    | O => 0
    | S f => match lbl with
             | NTok _ t x _ _ => tprio t x
             | _ => zmax_list (map (gsvf_with (gsv f) lbl) (fams_of lbl))
             end
    end.

  (* ---- the walk --------------------------------------------------------------------------------------- *)
  Definition zinf := option Z.                      (* None = float('-inf') *)
  Definition zi_add (a b : zinf) : zinf := match a, b with Some x, Some y => Some (x + y) | _, _ => None end.
  Definition zi_max (a b : zinf) : zinf :=
    match a, b with Some x, Some y => Some (sym_combine x y) | Some x, None => Some x | None, o => o end.

  Definition famb (a b : family tok) : bool :=
    let '(r1, l1, t1) := a in let '(r2, l2, t2) := b in
    rule_eqb' r1 r2
    && (match l1, l2 with None, None => true | Some x, Some y => leqb x y | _, _ => false end)
    && (match t1, t2 with None, None => true | Some x, Some y => leqb x y | _, _ => false end).

  Record svstate := mkSV {
    sv_sym : list (label * zinf);                     (* visited symbol nodes with node.priority *)
    sv_pk : list (label * family tok * zinf) }.       (* packed nodes with their priority *)

  Fixpoint look_sym (l : list (label * zinf)) (x : label) : option zinf :=
    match l with [] => None | (k, v) :: r => if leqb k x then Some v else look_sym r x end.
  Fixpoint look_pk (l : list (label * family tok * zinf)) (x : label) (fm : family tok) : option zinf :=
    match l with
    | [] => None
    | (k, f, v) :: r => if leqb k x && famb f fm then Some v else look_pk r x fm
    end.

  (* the priority a child carries right now *)
  Definition child_prio (st : svstate) (o : option label) : zinf :=
    match o with
    | None => Some 0                                   (* getattr(None, 'priority', 0) *)
    | Some (NTok _ t x _ _) => Some (tprio t x)
    | Some c => match look_sym (sv_sym st) c with Some v => v | None => None end
    end.

  Definition fam_is_empty (fm : family tok) : bool := match fm with (_, None, None) => true | _ => false end.
  (* iter(node.children) at visit_symbol_node_in: every packed priority is still -inf *)
  Definition in_order (fs : list (family tok)) : list (family tok) :=
    map snd (ksort (map (fun fm => (sort_key (fam_is_empty fm) 0 (rorder (fst (fst fm))), fm)) fs)).

  Fixpoint svw (fuel : nat) (path : list label) (st : svstate) (lbl : label) : svstate :=
    match fuel with
    | O => st
    | S f =>
        if is_tokb lbl then st
        else if lmem tok teqb lbl path then st                              (* on_cycle: nothing *)
        else match look_sym (sv_sym st) lbl with
             | Some _ => st                                                 (* single_visit: already visited *)
             | None =>
                 let fs := fams_of lbl in
                 let visit_o (st : svstate) (o : option label) : svstate :=
                   match o with None => st | Some c => svw f (lbl :: path) st c end in
                 let st1 :=
                   fold_left (fun st fm =>
                                let '(r, l, rt) := fm in
                                let st := visit_o (visit_o st l) rt in
                                let p := zi_add (zi_add (Some (rule_part lbl r)) (child_prio st rt)) (child_prio st l) in
                                mkSV (sv_sym st) ((lbl, fm, p) :: sv_pk st))
                             (in_order fs) st in
                 let prios := map (fun fm => match look_pk (sv_pk st1) lbl fm with Some v => v | None => None end) fs in
                 let m := match prios with [] => None | x :: r => fold_left zi_max r x end in
                 mkSV ((lbl, m) :: sv_sym st1) (sv_pk st1)
             end
    end.

  Definition sum_walk (root : label) : svstate := svw (S (List.length fams)) [] (mkSV [] []) root.

  (* the annotation the walk leaves, with -inf read as 0 where a number is needed *)
  Definition walk_pr (st : svstate) (lbl : label) : Z :=
    match lbl with
    | NTok _ t x _ _ => tprio t x
    | _ => match look_sym (sv_sym st) lbl with Some (Some v) => v | _ => 0 end
    end.
  Definition walk_prf (st : svstate) (lbl : label) (fm : family tok) : Z :=
    match look_pk (sv_pk st) lbl fm with Some (Some v) => v | _ => 0 end.
End GraphSum.
