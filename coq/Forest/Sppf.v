(* Shared packed parse forests (lark/parsers/earley_forest.py): data and the derivations
   they denote.  Model file: executable definitions only (proofs in Sppf_proofs.v).

   Two forms.
   * [sym]/[packed]: the forest with sharing unfolded, hence acyclic by construction.
     A [Sym] is a SymbolNode (completed symbol or intermediate LR0 node), its families are
     its PackedNodes in INSERTION order (iteration order of [SymbolNode._children], an
     OrderedSet); a [TokLeaf] is a TokenNode.  [Pack r left right]: PackedNode with its rule.
   * [graph]: nodes with ids and adjacency, possibly cyclic (Forest/Visit.v). *)
From Coq Require Import ZArith List Bool String.
Import ListNotations.

Record label := mkLabel {
  l_name : string;     (* non-terminal name, or a rendering of (rule, ptr) for intermediate nodes *)
  l_inter : bool;      (* SymbolNode.is_intermediate *)
  l_start : Z;
  l_end : Z }.

Record rinfo := mkRule {
  r_id : Z;                 (* index of the rule in the compiled grammar *)
  r_name : string;          (* alias or template source or origin name (TreeForestTransformer node name) *)
  r_prio : option Z;        (* rule.options.priority *)
  r_order : Z }.            (* rule.order *)

Inductive sym : Type :=
| Sym (l : label) (fams : list packed)
| TokLeaf (term text : string) (tprio : Z)     (* TokenNode: terminal name, matched text, node priority *)
with packed : Type :=
| Pack (r : rinfo) (left right : option sym).

Definition p_rule (p : packed) : rinfo := match p with Pack r _ _ => r end.
Definition p_left (p : packed) : option sym := match p with Pack _ l _ => l end.
Definition p_right (p : packed) : option sym := match p with Pack _ _ r => r end.

(* PackedNode.is_empty *)
Definition is_empty (p : packed) : bool :=
  match p with Pack _ None None => true | _ => false end.

(* rule.options.priority or 0 *)
Definition rp (r : rinfo) : Z := match r_prio r with Some z => z | None => 0%Z end.

(* ---- derivation trees ------------------------------------------------------------- *)
Inductive dtree : Type :=
| DNode (r : rinfo) (cs : list dtree)
| DLeaf (term text : string) (tprio : Z).

Definition dforest := list dtree.     (* a sequence of sibling trees *)

(* every way of putting a left part before a right part *)
Definition cross {A} (ls rs : list (list A)) : list (list A) :=
  flat_map (fun l => map (fun r => l ++ r) rs) ls.

(* All derivations below a node, as sibling sequences: one tree for a completed symbol or a
   token, the children matched so far for an intermediate node. *)
Fixpoint derivs (s : sym) : list dforest :=
  match s with
  | TokLeaf a b c => [[DLeaf a b c]]
  | Sym l fams =>
      if l_inter l then flat_map derivs_p fams
      else flat_map (fun p => map (fun cs => [DNode (p_rule p) cs]) (derivs_p p)) fams
  end
with derivs_p (p : packed) : list dforest :=
  match p with
  | Pack r lft rgt =>
      cross (match lft with None => [[]] | Some s => derivs s end)
            (match rgt with None => [[]] | Some s => derivs s end)
  end.

Definition derivs_o (o : option sym) : list dforest :=
  match o with None => [[]] | Some s => derivs s end.

(* derivation trees of a completed-symbol root *)
Definition root_derivs (s : sym) : list dtree := List.concat (derivs s).

(* total priority of a derivation: sum of the priorities of the rules applied plus the
   priorities carried by the token leaves *)
Fixpoint prio (t : dtree) : Z :=
  match t with
  | DNode r cs => (rp r + fold_right (fun c acc => prio c + acc) 0 cs)%Z
  | DLeaf _ _ p => p
  end.
Definition fprio (f : dforest) : Z := fold_right (fun c acc => (prio c + acc)%Z) 0%Z f.

(* ---- well-formedness: every symbol node has at least one family -------------------- *)
Fixpoint wfb (s : sym) : bool :=
  match s with
  | TokLeaf _ _ _ => true
  | Sym l fams => negb (match fams with [] => true | _ => false end) && forallb wfb_p fams
  end
with wfb_p (p : packed) : bool :=
  match p with
  | Pack r lft rgt => (match lft with None => true | Some s => wfb s end)
                      && (match rgt with None => true | Some s => wfb s end)
  end.

(* no directly empty family anywhere *)
Fixpoint no_emptyb (s : sym) : bool :=
  match s with
  | TokLeaf _ _ _ => true
  | Sym l fams => forallb no_emptyb_p fams
  end
with no_emptyb_p (p : packed) : bool :=
  match p with
  | Pack r lft rgt => negb (is_empty p)
                      && (match lft with None => true | Some s => no_emptyb s end)
                      && (match rgt with None => true | Some s => no_emptyb s end)
  end.

(* emptiness is uniform inside every symbol node: either no family is empty or all are *)
Definition uniformb (fams : list packed) : bool :=
  forallb (fun p => negb (is_empty p)) fams || forallb is_empty fams.
Fixpoint uniform_emptyb (s : sym) : bool :=
  match s with
  | TokLeaf _ _ _ => true
  | Sym l fams => uniformb fams && forallb uniform_emptyb_p fams
  end
with uniform_emptyb_p (p : packed) : bool :=
  match p with
  | Pack r lft rgt => (match lft with None => true | Some s => uniform_emptyb s end)
                      && (match rgt with None => true | Some s => uniform_emptyb s end)
  end.

(* number of nodes of the unfolded forest *)
Fixpoint size (s : sym) : nat :=
  match s with
  | TokLeaf _ _ _ => 1
  | Sym l fams => S (fold_right (fun p acc => size_p p + acc) 0 fams)
  end
with size_p (p : packed) : nat :=
  match p with
  | Pack r lft rgt => S ((match lft with None => 0 | Some s => size s end)
                         + (match rgt with None => 0 | Some s => size s end))
  end.

(* ---- graph form (possibly cyclic) -------------------------------------------------- *)
Inductive gnode : Type :=
| GSym (inter : bool) (kids : list nat)          (* packed children, in the order [children] returns them *)
| GPack (left right : option nat)
| GTok.
Definition graph := list gnode.

Definition gkids (nd : gnode) : list nat :=
  match nd with
  | GSym _ ks => ks
  | GPack l r => (match l with Some x => [x] | None => [] end) ++ (match r with Some x => [x] | None => [] end)
  | GTok => []
  end.
