(* C20 correspondence for TreeForestTransformer and the forest itself. *)
From Coq Require Import ZArith List Bool String.
From LV Require Import Forest.Sppf Forest.Prio Forest.SppfCheck Forest.PrioCheck Forest.Tft.
Import ListNotations.

(* forest (annotated after TreeForestTransformer's own ForestSumVisitor ran), observed
   transform() with resolve_ambiguity=False and =True, observed root.is_ambiguous, the
   derivations of the input enumerated from the compiled grammar *)
Definition tcase : Type := (asym * utree * utree * bool * list otree)%type.

Definition tft_diag (c : tcase) : nat :=
  let '(a, obs, obs_res, amb, oracle) := c in
  let s := erase a in
  if negb (wfb s) then 1%nat
  else if negb (chk_nodes true a) then 2%nat
  else if negb (match tft s with Some t => utree_eqb t obs | None => false end) then 3%nat
  else if negb (match tft_resolve s with [t] => utree_eqb t obs_res | _ => false end) then 4%nat
  else if negb (Bool.eqb (is_ambiguous s) amb) then 5%nat
  else if negb (oset_eqb (map to_otree (root_derivs s)) oracle) then 6%nat
  else 0%nat.

Definition tft_ok (c : tcase) : bool := Nat.eqb (tft_diag c) 0.
