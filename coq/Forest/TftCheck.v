(* C20 correspondence for TreeForestTransformer and the forest itself. *)
From Coq Require Import ZArith List Bool String.
From LV Require Import Forest.Sppf Forest.Prio Forest.SppfCheck Forest.PrioCheck Forest.Tft.
Import ListNotations.

(* forest (annotated after TreeForestTransformer's own ForestSumVisitor ran), observed
   transform() with resolve_ambiguity=False and =True, observed root.is_ambiguous, the
   derivations of the input enumerated from the compiled grammar *)
Definition tcase : Type := (asym * utree * utree * bool * list otree)%type.

Definition tft_diag (c : tcase) : nat :=
  let '(a, obs, obs_res, amb, oracle) := c in
  let s := erase a in
  if negb (wfb s) then 1%nat
  else if negb (chk_nodes true a) then 2%nat
  else if negb (match tft s with Some t => utree_eqb t obs | None => false end) then 3%nat
  else if negb (match tft_resolve s with [t] => utree_eqb t obs_res | _ => false end) then 4%nat
  else if negb (Bool.eqb (is_ambiguous s) amb) then 5%nat
  else if negb (oset_eqb (map to_otree (root_derivs s)) oracle) then 6%nat
  else 0%nat.

Definition tft_ok (c : tcase) : bool := Nat.eqb (tft_diag c) 0.

(* The same for forests of the dynamic lexers with %ignore, position-aware (token texts carry
   their start position): every derivation read off the forest must be one of the tilings of
   the input enumerated at character level (tokens in order, non-overlapping, ignored matches
   only between them).  The other direction (every tiling is in the forest, up to positions)
   is compared in the Python stream: lark's TokenNode/PackedNode equality identifies tokens
   of equal type and text at different positions. *)
Definition tft_sub_diag (c : tcase) : nat :=
  let '(a, obs, obs_res, amb, oracle) := c in
  let s := erase a in
  if negb (wfb s) then 1%nat
  else if negb (chk_nodes true a) then 2%nat
  else if negb (match tft s with Some t => utree_eqb t obs | None => false end) then 3%nat
  else if negb (match tft_resolve s with [t] => utree_eqb t obs_res | _ => false end) then 4%nat
  else if negb (Bool.eqb (is_ambiguous s) amb) then 5%nat
  else if negb (forallb (fun x => omem x oracle) (map to_otree (root_derivs s))) then 6%nat
  else 0%nat.

Definition tft_sub_ok (c : tcase) : bool := Nat.eqb (tft_sub_diag c) 0.
