(* C05 correspondence: the model evaluated on the forest lark built, against what lark's
   ForestSumVisitor / SymbolNode.children / ForestToParseTree produced on it. *)
From Coq Require Import ZArith List Bool String.
From LV Require Import Forest.Sppf Gen.ForestSortKey Forest.Prio Forest.SppfCheck.
Import ListNotations.
Local Open Scope Z_scope.

(* model of [children] as a permutation of family indices *)
Definition sorted_idx (keyf : packed -> key) (fams : list packed) : list nat :=
  map snd (ksort (map (fun ip => (keyf (snd ip), fst ip)) (indexed 0 fams))).

(* every recorded priority and every recorded children order is the model's *)
Fixpoint chk_nodes (summed : bool) (a : asym) : bool :=
  match a with
  | ATok _ _ _ => true
  | ASym l op oo fams =>
      let inter := l_inter l in
      (if summed then sv (erase a) =? op else true)
      && list_eqb Nat.eqb oo (sorted_idx (if summed then pkey inter else pkey_none) (map erase_p fams))
      && forallb (chk_nodes_p summed inter) fams
  end
with chk_nodes_p (summed inter : bool) (p : apacked) {struct p} : bool :=
  match p with
  | APack r op lft rgt =>
      (if summed then sv_p inter (erase_p p) =? op else true)
      && (match lft with None => true | Some s => chk_nodes summed s end)
      && (match rgt with None => true | Some s => chk_nodes summed s end)
  end.

Fixpoint lookup (k : string) (l : list (string * Z)) : Z :=
  match l with [] => 0 | (k', v) :: r => if String.eqb k k' then v else lookup k r end.

(* the priorities on the forest are the grammar's, loaded as Lark.__init__ does under the
   mode; token nodes carry 0 under the basic lexer *)
Fixpoint chk_tables (m : pmode) (basic : bool) (rps : list (option Z)) (tps : list (string * Z)) (s : sym) : bool :=
  match s with
  | TokLeaf t _ p => p =? (if basic then 0 else load_tprio m (lookup t tps))
  | Sym _ fams => forallb (chk_tables_p m basic rps tps) fams
  end
with chk_tables_p (m : pmode) (basic : bool) (rps : list (option Z)) (tps : list (string * Z)) (p : packed) : bool :=
  match p with
  | Pack r lft rgt =>
      optZ_eqb (r_prio r) (load_rprio m (nth (Z.to_nat (r_id r)) rps None))
      && (match lft with None => true | Some s => chk_tables m basic rps tps s end)
      && (match rgt with None => true | Some s => chk_tables m basic rps tps s end)
  end.

Definition c05case : Type :=
  (pmode * bool * list (option Z) * list (string * Z) * bool * asym * otree)%type.

(* 0 = the model reproduces every observation; otherwise the first check that fails *)
Definition c05_diag (c : c05case) : nat :=
  let '(m, basic, rps, tps, summed, a, obs) := c in
  let s := erase a in
  if negb (wfb s) then 1%nat
  else if negb (Bool.eqb (uses_visitor m basic rps (map snd tps)) summed) then 2%nat
  else if negb (chk_tables m basic rps tps s) then 3%nat
  else if negb (chk_nodes summed a) then 4%nat
  else if negb summed && negb (all_zerob s) then 5%nat
  else match (if summed then resolve s else resolve_none s) with
       | [t] => if otree_eqb (to_otree t) obs then 0%nat else 6%nat
       | _ => 7%nat
       end.

Definition c05_ok (c : c05case) : bool := Nat.eqb (c05_diag c) 0.

(* The whole loaded tables (every compiled rule and terminal, whether or not it occurs in a
   forest) against the model of the invert / None block of Lark.__init__: in particular every
   RuleOptions object of a rule definition - alternatives with an absent [x] placeholder own a
   copy - carries the loaded priority. *)
Definition c05tables : Type := (pmode * list (option Z) * list (option Z) * list Z * list Z)%type.
Definition c05_tables_ok (c : c05tables) : bool :=
  let '(m, rps, rps_loaded, tps, tps_loaded) := c in
  list_eqb optZ_eqb (map (load_rprio m) rps) rps_loaded
  && list_eqb Z.eqb (map (load_tprio m) tps) tps_loaded.
