(* C04 layer A for the dynamic lexers - tree-level exactness of the instrumented model ExplicitDynBuild.idyn_parse:
   every derivation tree of the start symbol over the run's position graph (leaves = token edges, leaf spans joined by
   ignore paths tile 0..n) is stored below the root (start, 0, n), and nothing else is.
   Assembly of the family-level facts:
     idyn_families_sound        every logged family has the local form            (soundness, ExplicitDynFamilies_proofs)
     idyn_completion_families / idyn_empty_families                               (ExplicitDynFamilies_proofs)
     idyn_token_families / idyn_carry_copies                                      (ExplicitDynComplete_proofs)
   plus packed_dedup_safe: two families of one node with equal (left, right) have the same rule, so the copy the
   carry-over makes of "the first family per (left, right)" (PackedNode equality ignores the rule) loses nothing.
   A tree is walked left to right along the chart: an item waiting for a terminal is carried along the ignore path in
   front of the token (g_carry; the node's families are copied at every step), the token family advances it; a
   non-terminal child is predicted where the item stands, built recursively and completed; the finished start item is
   carried over the trailing ignore path (g_carry_start). *)
From Coq Require Import List Arith Bool Lia.
From LV Require Import Cfg.Grammar Cfg.Analysis Cfg.Analysis_proofs Earley.Spec Earley.Alg Earley.Alg_proofs
  Earley.Dyn Earley.Dyn_proofs
  Forest.ExplicitBuild Forest.ExplicitBuild_proofs Forest.ExplicitAlgBuild Forest.ExplicitAlgBuild_proofs
  Forest.ExplicitDynBuild Forest.ExplicitDynSound Forest.ExplicitDynBuild_proofs Forest.ExplicitDynFamilies_proofs
  Forest.ExplicitDynComplete_proofs.
Import ListNotations.

(* ---- labels ---- *)
Lemma olabel_eqb_eq (a b : option (nlabel nat)) : olabel_eqb a b = true -> a = b.
Proof.
  destruct a as [x|], b as [y|]; simpl; try discriminate; auto.
  intros H. apply label_eqb_eq in H. subst. reflexivity.
Qed.

Lemma span_label_ilabel_inv l r d i k : span_label l = ilabel span r d i k -> l = ilabel nat r d i k.
Proof.
  unfold ilabel. destruct l as [a i0 j0|r0 d0 i0 j0|t x i0 j0]; destruct (Nat.eqb d (length (rhs r))); simpl;
    intros E; inversion E; subst; reflexivity.
Qed.

Lemma pack_ilabel {tok} r d i k j r' (ds : list (dt tok)) :
  pack tok (ilabel tok r d i k) r' ds = pack tok (ilabel tok r d i j) r' ds.
Proof. unfold ilabel. destruct (Nat.eqb d (length (rhs r))); reflexivity. Qed.

Lemma rule_ext (r1 r2 : rule) : lhs r1 = lhs r2 -> rhs r1 = rhs r2 -> r1 = r2.
Proof. destruct r1, r2; simpl; intros -> ->; reflexivity. Qed.

(* ---- inversion of dwfd ---- *)
Lemma dwfd_node_inv G te r ks s : dwfd G te (DN span r ks) s -> s = NT (lhs r) /\ In r G /\ Forall2 (dwfd G te) ks (rhs r).
Proof. inversion 1; auto. Qed.
Lemma dwfd_leaf_inv G te t x s : dwfd G te (DL span t x) s -> s = T t /\ te t (fst x) (snd x).
Proof. inversion 1; auto. Qed.

(* ---- packed_dedup_safe: (label, left, right) determine the rule ---- *)
Section Unique.
  Variable G : grammar.
  Variable tokedge : nat -> nat -> nat -> Prop.
  Variable ign : nat -> nat -> Prop.
  Notation dfam_ok := (dfam_ok G tokedge ign).

  Lemma dchild_sym s1 s2 rn m1 e1 m2 e2 :
    dchild_ok tokedge s1 rn m1 e1 -> dchild_ok tokedge s2 rn m2 e2 -> s1 = s2.
  Proof.
    destruct s1 as [t1|a1], s2 as [t2|a2]; simpl.
    - intros (-> & _) (E & _). inversion E; reflexivity.
    - intros (-> & _) E. discriminate.
    - intros -> (E & _). discriminate.
    - intros -> E. inversion E; reflexivity.
  Qed.

  Lemma ilabel_first_inj r1 r2 s i j i' j' :
    nth_error (rhs r1) 0 = Some s -> nth_error (rhs r2) 0 = Some s ->
    ilabel span r1 1 i j = ilabel span r2 1 i' j' -> r1 = r2.
  Proof.
    intros H1 H2. unfold ilabel.
    destruct (Nat.eqb_spec 1 (length (rhs r1))) as [L1|L1], (Nat.eqb_spec 1 (length (rhs r2))) as [L2|L2];
      intros E; inversion E; auto.
    apply rule_ext; auto.
    destruct (rhs r1) as [|x1 [|y1 l1]], (rhs r2) as [|x2 [|y2 l2]]; simpl in *; try discriminate. congruence.
  Qed.

  Theorem packed_dedup_safe lbl r1 r2 l rt : dfam_ok lbl (r1, l, rt) -> dfam_ok lbl (r2, l, rt) -> r1 = r2.
  Proof.
    intros H1 H2.
    inversion H1 as [ra ka ja Hina Hra Hga|ra sa rna ia ma ea ja Hina Hna Hga Hca Hga2|ra da sa rna ia ma ea ja Hina Hda Hna Hca Hga2];
      inversion H2 as [rb kb jb Hinb Hrb Hgb|rb sb rnb ib mb eb jb Hinb Hnb Hgb Hcb Hgb2|rb db sb rnb ib mb eb jb Hinb Hdb Hnb Hcb Hgb2];
      subst; try discriminate.
    - match goal with E : NSym _ _ _ _ = NSym _ _ _ _ |- _ => inversion E end. apply rule_ext; congruence.
    - match goal with E : Some _ = Some _ |- _ => inversion E; subst end.
      assert (sa = sb) by (eapply dchild_sym; eauto). subst sb.
      eapply ilabel_first_inj; eauto.
    - match goal with E : Some (NInter _ _ _ _ _) = Some _ |- _ => inversion E; subst end. reflexivity.
  Qed.
End Unique.

Section DynExact.
  Variable G : grammar.
  Variable start n : nat.
  Variable rmatch : nat -> nat -> option nat.
  Variable rtrunc : nat -> nat -> nat -> option nat.
  Variable complete_lex : bool.
  Variable ignore : list nat.
  Hypothesis H_fwd : fwd rmatch rtrunc.

  Let ps : forall a r, In r (pred_lookup G (pred_table G) a) -> In r G /\ lc_reach G a (lhs r).
  Proof. intros a r. rewrite pred_lookup_eq. apply predictions_spec. Qed.
  Let pd : forall a r, In r G -> lhs r = a -> In r (pred_lookup G (pred_table G) a).
  Proof. intros a r. rewrite pred_lookup_eq. apply predictions_direct. Qed.

  Notation tokedge := (run_tokedge rmatch rtrunc complete_lex).
  Notation ign := (ign_edge rmatch ignore).
  Notation gap := (gap ign).
  Notation gtiles := (gtiles tokedge ign).
  Notation dwfd := (dwfd G tokedge).
  Notation gchart := (gchart G start rmatch rtrunc complete_lex ignore).
  Notation ires := (idyn_parse G start n rmatch rtrunc complete_lex ignore).
  Notation log := (snd ires).
  Notation F := (in_forest span (map span_fam log)).
  Notation den := (den span F).
  Notation den_opt := (den_opt span F).

  Lemma F_in l r a b : In (l, (r, a, b)) log -> F (span_label l) (r, option_map span_label a, option_map span_label b).
  Proof. intros H. unfold in_forest. apply in_map_iff. exists (l, (r, a, b)). split; auto. Qed.

  (* ---- positions only grow ---- *)
  Lemma gap_le i j : gap i j -> i <= j.
  Proof.
    induction 1 as [i|i m j He Hg IH]; auto.
    pose proof (ign_edge_fwd _ _ _ H_fwd _ _ He). lia.
  Qed.

  Lemma gtiles_le u : forall i j, gtiles i j u -> i <= j.
  Proof.
    induction u as [|[p e] u IH]; intros i j H; inversion H; subst.
    - apply gap_le; auto.
    - match goal with Hg : gap i p, He : exists t, tokedge t p e, Ht : gtiles e j u |- _ =>
        apply gap_le in Hg; apply IH in Ht; destruct He as (t & He); pose proof (ends_fwd _ _ _ H_fwd _ _ _ He) end.
      lia.
  Qed.

  (* ---- the carry-over ---- *)
  Definition slabel (x : item) (k : nat) : nlabel span := ilabel span (irule x) (dot x) (orig x) k.

  Lemma slabel_node x k : span_label (node_label x k) = slabel x k.
  Proof. unfold node_label, slabel. apply span_label_ilabel. Qed.

  Section Built.
    (* the run built all n+1 columns *)
    Hypothesis Hcols : length (d_cols (fst ires)) = S n.

    Lemma F_carry x k j r l rt :
      gchart k x -> is_term_item x = true \/ is_solution start x = true -> ign k j -> j <= n -> has_node x ->
      F (slabel x k) (r, l, rt) -> F (slabel x j) (r, l, rt).
    Proof.
      intros Hx Hkind He Hj Hn HF. unfold in_forest in HF. apply in_map_iff in HF.
      destruct HF as ([l0 [[r0 a0] b0]] & E & Hf0). cbn [span_fam] in E. inversion E as [[E1 E2 E3 E4]]. subst r0.
      rewrite <- slabel_node in E1. unfold node_label in E1. rewrite span_label_ilabel in E1.
      apply span_label_ilabel_inv in E1. fold (node_label x k) in E1. subst l0.
      destruct (idyn_carry_copies G start n rmatch rtrunc complete_lex ignore H_fwd k x j _ Hx Hkind He
                  ltac:(rewrite Hcols; lia) Hn Hf0 eq_refl) as ([lg [[rg ag] bg]] & Hlg & Hsame & Hcopy).
      cbn [fst snd] in Hlg, Hcopy. subst lg.
      unfold same_children in Hsame. apply andb_true_iff in Hsame. destruct Hsame as (Sa & Sb).
      apply olabel_eqb_eq in Sa. apply olabel_eqb_eq in Sb. subst ag bg.
      assert (Er : rg = r).
      { pose proof (idyn_families_sound G start n rmatch rtrunc complete_lex ignore _ Hcopy) as Hok1.
        pose proof (idyn_families_sound G start n rmatch rtrunc complete_lex ignore _ Hf0) as Hok0.
        cbn [span_fam fst snd] in Hok0, Hok1. rewrite slabel_node in Hok0, Hok1.
        apply (dfam_ok_extend G tokedge ign _ _ j) in Hok0.
        - unfold slabel in Hok0. rewrite set_end_ilabel in Hok0.
          eapply packed_dedup_safe; [exact Hok1|exact Hok0].
        - unfold slabel. rewrite lend_ilabel. econstructor; [exact He|constructor]. }
      subst rg.
      apply F_in in Hcopy. rewrite slabel_node in Hcopy. exact Hcopy.
    Qed.

    (* the trees stored below the carried node are stored below the node with the later end position *)
    Lemma den_carry x k j ds :
      gchart k x -> is_term_item x = true \/ is_solution start x = true -> ign k j -> j <= n -> has_node x ->
      den (slabel x k) ds -> den (slabel x j) ds.
    Proof.
      intros Hx Hkind He Hj Hn Hd. remember (slabel x k) as lbl eqn:El.
      destruct Hd as [t y i0 j0|lbl r l rt ds1 ds2 HF H1 H2].
      - exfalso. unfold slabel, ilabel in El. destruct (Nat.eqb (dot x) (length (rhs (irule x)))); discriminate.
      - subst lbl. unfold slabel at 2. rewrite (pack_ilabel _ _ _ k j). fold (slabel x j).
        eapply den_fam; eauto. eapply F_carry; eauto.
    Qed.

    Lemma carry_term_path : forall k p, gap k p -> forall x t, p <= n ->
      gchart k x -> expect x = Some (T t) ->
      gchart p x /\ (1 <= dot x -> forall ds, den (slabel x k) ds -> den (slabel x p) ds).
    Proof.
      intros k0 p0 Hg0. induction Hg0 as [k|k m p He Hg IH]; intros x t Hp Hx Hex; [split; auto|].
      assert (Hm : m <= n) by (apply gap_le in Hg; lia).
      assert (Hxm : gchart m x) by (eapply g_carry; eauto).
      destruct (IH x t Hp Hxm Hex) as (Hxp & Hden). split; auto.
      intros Hd ds H. apply Hden; auto. apply (den_carry x k m ds); auto.
      - left. unfold is_term_item. rewrite Hex. reflexivity.
      - unfold has_node. lia.
    Qed.

    Lemma carry_start_path : forall k p, gap k p -> forall x, p <= n ->
      gchart k x -> is_solution start x = true ->
      gchart p x /\ (forall ds, den (slabel x k) ds -> den (slabel x p) ds).
    Proof.
      intros k0 p0 Hg0. induction Hg0 as [k|k m p He Hg IH]; intros x Hp Hx Hs; [split; auto|].
      assert (Hm : m <= n) by (apply gap_le in Hg; lia).
      assert (Hxm : gchart m x) by (eapply g_carry_start; eauto).
      destruct (IH x Hp Hxm Hs) as (Hxp & Hden). split; auto.
      intros ds H. apply Hden; auto. apply (den_carry x k m ds); auto.
      unfold has_node. apply is_solution_spec in Hs. destruct Hs as (E & _). rewrite E. intros (_ & F0). congruence.
    Qed.
  End Built.

  (* ---- walking a derivation tree along the chart ---- *)
  Definition expects (i a : nat) : Prop :=
    (exists y, gchart i y /\ expect y = Some (NT a)) \/ (a = start /\ i = 0).

  Lemma expects_pred i a r : expects i a -> In r G -> lhs r = a -> gchart i (mkItem r 0 i).
  Proof.
    intros [(y & Hy & He)|(-> & ->)] Hin Hl.
    - eapply g_pred; eauto.
    - apply g_init; auto.
  Qed.

  Definition built : Prop := length (d_cols (fst ires)) = S n.

  Lemma den_opt_inode r dd i m pre :
    dd < length (rhs r) -> length pre = dd ->
    (1 <= dd -> den (ilabel span r dd i m) pre) ->
    den_opt (match dd with 0 => None | S _ => Some (NInter span r dd i m) end) pre.
  Proof.
    intros Hlt Hlen H. destruct dd as [|dd'].
    - destruct pre; [constructor | discriminate].
    - constructor. specialize (H ltac:(lia)). unfold ilabel in H.
      destruct (Nat.eqb_spec (S dd') (length (rhs r))); [lia|]. exact H.
  Qed.

  Lemma expect_mk r d i : expect (mkItem r d i) = nth_error (rhs r) d.
  Proof. reflexivity. Qed.

  (* what completeness says about one derivation tree: it occupies a prefix of the tiling *)
  Definition CT (j : nat) (d : dt span) : Prop :=
    forall a i v, dwfd d (NT a) -> gtiles i j (yield span d ++ v) -> expects i a ->
    exists r ks m, d = DN span r ks /\ gchart m (mkItem r (length (rhs r)) i) /\ gtiles m j v /\
                   (built -> den (NSym span a i m) [d]).

  Lemma steps j r i : j <= n -> In r G ->
    forall post pre m v,
      Forall (CT j) post ->
      Forall2 dwfd post (skipn (length pre) (rhs r)) ->
      gtiles m j (yields span post ++ v) ->
      gchart m (mkItem r (length pre) i) ->
      (length pre = 0 -> m = i) ->
      (built -> 1 <= length pre -> den (ilabel span r (length pre) i m) (pack span (ilabel span r (length pre) i m) r pre)) ->
      exists m', gchart m' (mkItem r (length (rhs r)) i) /\ gtiles m' j v /\
                 (built -> den (NSym span (lhs r) i m') [DN span r (pre ++ post)]).
  Proof.
    intros Hjn Hin post. induction post as [|k post IH]; intros pre m v HC HF Ht Hch H0 Hden.
    - (* all children consumed *)
      assert (E : skipn (length pre) (rhs r) = []) by (inversion HF; auto).
      assert (Hlen : length (rhs r) <= length pre).
      { assert (E2 : length (skipn (length pre) (rhs r)) = 0) by (rewrite E; auto). rewrite skipn_length in E2. lia. }
      pose proof (gchart_wf _ _ _ _ _ _ H_fwd _ _ Hch) as (_ & Hle & _). cbn [irule dot] in Hle.
      assert (Eq : length pre = length (rhs r)) by lia.
      exists m. rewrite <- Eq. split; auto. split; [exact Ht|]. intros Hb. rewrite app_nil_r.
      assert (Hmn : m <= n) by (apply gtiles_le in Ht; lia).
      destruct (length pre) as [|dd'] eqn:El.
      + destruct pre; [|discriminate]. rewrite (H0 eq_refl) in *.
        assert (Hr : rhs r = []) by (destruct (rhs r); auto; discriminate).
        pose proof (idyn_empty_families G start n rmatch rtrunc complete_lex ignore H_fwd i (mkItem r 0 i) Hch) as Hf.
        cbn [irule orig dot] in Hf. rewrite expect_mk, Hr in Hf. specialize (Hf eq_refl eq_refl).
        unfold built in Hb. rewrite Hb in Hf. specialize (Hf ltac:(lia)).
        apply F_in in Hf. cbn [span_label option_map] in Hf.
        change [DN span r []] with (pack span (NSym span (lhs r) i i) r ([] ++ [])).
        eapply den_fam; [exact Hf | constructor | constructor].
      + specialize (Hden Hb ltac:(lia)). unfold ilabel in Hden. rewrite Eq, Nat.eqb_refl in Hden. exact Hden.
    - (* one more child *)
      destruct (skipn (length pre) (rhs r)) as [|s srest] eqn:Es; inversion HF as [|? ? ? ? Hk HF']; subst.
      assert (Hn : nth_error (rhs r) (length pre) = Some s).
      { rewrite <- (firstn_skipn (length pre) (rhs r)). rewrite Es.
        assert (length pre <= length (rhs r)).
        { destruct (Nat.le_gt_cases (length pre) (length (rhs r))); auto.
          rewrite skipn_all2 in Es by lia. discriminate. }
        rewrite nth_error_app2; rewrite firstn_length_le by auto; auto. rewrite Nat.sub_diag. reflexivity. }
      assert (Hlt : length pre < length (rhs r)) by (apply nth_error_Some; congruence).
      assert (Es' : skipn (length (pre ++ [k])) (rhs r) = srest).
      { rewrite app_length. simpl. replace (length pre + 1) with (S (length pre)) by lia.
        eapply skipn_S_cons; eauto. }
      inversion HC as [|? ? HCk HC']; subst.
      assert (Hne : Nat.eqb (length pre) (length (rhs r)) = false) by (apply Nat.eqb_neq; lia).
      assert (Hden' : built -> 1 <= length pre -> den (ilabel span r (length pre) i m) pre).
      { intros Hb H1. specialize (Hden Hb H1). unfold ilabel in Hden |- *. rewrite Hne in Hden |- *. exact Hden. }
      unfold yields in Ht. simpl in Ht. fold (yields span post) in Ht. rewrite <- app_assoc in Ht.
      replace (pre ++ k :: post) with ((pre ++ [k]) ++ post) by (rewrite <- app_assoc; reflexivity).
      assert (Elen : length (pre ++ [k]) = S (length pre)) by (rewrite app_length; simpl; lia).
      assert (Hex : expect (mkItem r (length pre) i) = Some s) by (rewrite expect_mk; auto).
      destruct s as [t|b].
      + (* terminal: carried along the ignore path in front of the token, then the scanner *)
        inversion Hk as [t0 p e Hte|]; subst. simpl in Ht.
        inversion Ht as [|? ? ? ? ? Hg _ Ht']; subst.
        assert (Hen : e <= n) by (apply gtiles_le in Ht'; lia).
        assert (Hpe : p < e) by (eapply ends_fwd; eauto).
        assert (Hchp : gchart p (mkItem r (length pre) i)).
        { clear -Hg Hch Hex H_fwd. induction Hg as [k|k m0 p0 He Hg IHg]; auto. apply IHg. eapply g_carry; eauto. }
        apply (IH (pre ++ [DL span t (p, e)]) e v); auto.
        * rewrite Elen. exact (g_scan _ _ _ _ _ _ _ _ _ _ Hchp Hex Hte).
        * rewrite Elen. discriminate.
        * intros Hb _. rewrite Elen.
          assert (Hleft : 1 <= length pre -> den (ilabel span r (length pre) i p) pre).
          { intros H1. destruct (carry_term_path Hb m p Hg (mkItem r (length pre) i) t ltac:(lia) Hch Hex) as (_ & Hc).
            cbn [dot] in Hc. specialize (Hc H1 pre). unfold slabel in Hc. cbn [irule dot orig] in Hc.
            apply Hc. apply Hden'; auto. }
          pose proof (idyn_token_families G start n rmatch rtrunc complete_lex ignore H_fwd p _ t e Hchp Hex Hte) as Hf.
          unfold built in Hb. rewrite Hb in Hf. specialize (Hf ltac:(lia)).
          unfold tok_fam in Hf. cbn [irule dot orig] in Hf. apply F_in in Hf.
          rewrite span_label_ilabel, span_inode in Hf. cbn [option_map span_label] in Hf.
          eapply den_fam; [exact Hf | apply den_opt_inode; auto | constructor; constructor].
      + (* non-terminal: predicted where the item stands, built recursively, completed *)
        inversion Hk as [|r' ks' Hin' HF'k]; subst.
        destruct (HCk (lhs r') m (yields span post ++ v) Hk Ht) as (r2 & ks2 & m' & E2 & Hc' & Ht2 & Hd').
        { left. eauto. }
        inversion E2; subst r2 ks2.
        assert (Hm'n : m' <= n) by (apply gtiles_le in Ht2; lia).
        assert (Hex' : expect (mkItem r' (length (rhs r')) m) = None).
        { rewrite expect_mk. apply nth_error_None. lia. }
        apply (IH (pre ++ [DN span r' ks']) m' v); auto.
        * rewrite Elen. exact (g_comp _ _ _ _ _ _ _ _ _ _ _ Hch Hex Hc' Hex' eq_refl eq_refl).
        * rewrite Elen. discriminate.
        * intros Hb _. rewrite Elen.
          pose proof (idyn_completion_families G start n rmatch rtrunc complete_lex ignore H_fwd m m' _ _ (lhs r')
                        Hch Hex Hc' Hex' eq_refl eq_refl) as Hf.
          unfold built in Hb. rewrite Hb in Hf. specialize (Hf ltac:(lia)).
          unfold comp_fam in Hf. cbn [irule dot orig] in Hf. apply F_in in Hf.
          rewrite span_label_ilabel, span_inode in Hf. cbn [option_map span_label] in Hf.
          eapply den_fam; [exact Hf | apply den_opt_inode; auto | constructor; apply Hd'; auto].
  Qed.

  Lemma CT_all j d : j <= n -> CT j d.
  Proof.
    intros Hj. induction d as [t x|r ks IH] using (dt_ind2 span); intros a i v Hw Ht Hex.
    - inversion Hw.
    - inversion Hw as [|? ? Hin HF]; subst. exists r, ks.
      rewrite yield_DN in Ht.
      pose proof (expects_pred _ _ _ Hex Hin eq_refl) as Hc.
      destruct (steps j r i Hj Hin ks [] i v IH) as (m' & A & B & C); auto.
      + simpl. intros; lia.
      + exists m'. auto.
  Qed.

  (* a derivation tree over the position graph that tiles 0..n drives the chart to acceptance, and - when the run
     built all columns - is stored below the root *)
  Lemma tree_walk d : dwfd d (NT start) -> gtiles 0 n (yield span d) ->
    gaccepts G start n rmatch rtrunc complete_lex ignore /\ (built -> den (NSym span start 0 n) [d]).
  Proof.
    intros Hw Ht. rewrite <- (app_nil_r (yield span d)) in Ht.
    destruct (CT_all n d (le_n n) start 0 [] Hw Ht) as (r & ks & m & -> & Hc & Hg & Hd); [right; auto|].
    inversion Hg as [? ? Hgap|]; subst.
    assert (Hl : lhs r = start) by (inversion Hw; auto).
    assert (Hs : is_solution start (mkItem r (length (rhs r)) 0) = true).
    { apply is_solution_spec. rewrite expect_mk. cbn [irule orig]. repeat split; auto. apply nth_error_None. lia. }
    split.
    - exists (mkItem r (length (rhs r)) 0). split; auto.
      clear -Hgap Hc Hs. induction Hgap as [k|k m0 p0 He Hg IHg]; auto. apply IHg. eapply g_carry_start; eauto.
    - intros Hb. destruct (carry_start_path Hb m n Hgap _ (le_n n) Hc Hs) as (_ & Hcarry).
      specialize (Hcarry [DN span r ks]). unfold slabel, ilabel in Hcarry. cbn [irule dot orig] in Hcarry.
      rewrite Nat.eqb_refl, Hl in Hcarry. apply Hcarry. apply Hd; auto.
  Qed.

  (* an accepting run built all columns *)
  Lemma accept_built : d_out (fst ires) = DAccept -> built.
  Proof.
    intros Ha. unfold built, idyn_parse in *. rewrite dyn_erasure in *.
    destruct (dparse_ok G _ start n rmatch rtrunc complete_lex ignore ps pd H_fwd) as (N & L1 & _ & _ & Hout).
    rewrite Ha in Hout. destruct Hout as (-> & _). exact L1.
  Qed.

  Lemma gaccepts_accept : gaccepts G start n rmatch rtrunc complete_lex ignore -> d_out (fst ires) = DAccept.
  Proof.
    intros Hg. apply (daccepts_iff_gaccepts G _ start n rmatch rtrunc complete_lex ignore ps pd H_fwd) in Hg.
    unfold daccepts in Hg. unfold idyn_parse. rewrite dyn_erasure.
    destruct (d_out (dparse G (pred_lookup G (pred_table G)) start n rmatch rtrunc complete_lex ignore)); try discriminate.
    reflexivity.
  Qed.

  (* completeness: every derivation tree over the position graph makes the model accept and is stored below the root *)
  Theorem idyn_forest_complete d : dwfd d (NT start) -> gtiles 0 n (yield span d) ->
    d_out (fst ires) = DAccept /\ den (NSym span start 0 n) [d].
  Proof.
    intros Hw Ht. destruct (tree_walk d Hw Ht) as (Hacc & Hden).
    pose proof (gaccepts_accept Hacc) as Ha. split; auto. apply Hden. apply accept_built; auto.
  Qed.

  (* exactness, unconditionally in the outcome of the run *)
  Theorem idyn_forest_exact ds :
    den (NSym span start 0 n) ds
    <-> exists d, ds = [d] /\ dwfd d (NT start) /\ gtiles 0 n (yield span d).
  Proof.
    split.
    - apply idyn_model_sound_root.
    - intros (d & -> & Hw & Ht). apply idyn_forest_complete; auto.
  Qed.
End DynExact.

(* ---- the hypothesis fwd is needed: with a zero-width match the position graph has a token edge i -> i that the
   scanner never follows (delayed_matches[i] is never read once column i exists), so a derivation over the graph is
   missing from the forest of an accepting run.
     start: E A | A        E matches the empty string at 0, A matches 0..1, text of length 1
   lark refuses zero-width terminals for the dynamic lexers when the parser is built. ---- *)
Definition fx_r1 : rule := mkRule 0 [T 1; T 0].
Definition fx_r2 : rule := mkRule 0 [T 0].
Definition fx_rm (t i : nat) : option nat :=
  match t, i with 1, 0 => Some 0 | 0, 0 => Some 1 | _, _ => None end.
Definition fx_d : dt span := DN span fx_r1 [DL span 1 (0, 0); DL span 0 (0, 1)].

Theorem dyn_exact_fwd_refuted :
  let G := [fx_r1; fx_r2] in
  let rt := fun _ _ _ : nat => @None nat in
  let run := idyn_parse G 0 1 fx_rm rt false [] in
  ~ fwd fx_rm rt
  /\ d_out (fst run) = DAccept
  /\ dwfd G (run_tokedge fx_rm rt false) fx_d (NT 0)
  /\ gtiles (run_tokedge fx_rm rt false) (ign_edge fx_rm []) 0 1 (yield span fx_d)
  /\ ~ den span (in_forest span (map span_fam (snd run))) (NSym span 0 0 1) [fx_d].
Proof.
  cbv zeta. refine (conj _ (conj _ (conj _ (conj _ _)))).
  - intros (H & _). specialize (H 1 0 0 eq_refl). lia.
  - vm_compute. reflexivity.
  - apply (dwfd_node [fx_r1; fx_r2] _ fx_r1); [left; reflexivity|].
    repeat constructor; unfold run_tokedge; vm_compute; auto.
  - simpl. apply gt_cons with (m := 0) (e := 0); [constructor|exists 1; unfold run_tokedge; vm_compute; auto|].
    apply gt_cons with (m := 0) (e := 1); [constructor|exists 0; unfold run_tokedge; vm_compute; auto|].
    constructor. constructor.
  - intros H. inversion H as [|lbl r l rt0 ds1 ds2 HF H1 H2 E1 E2]; subst.
    unfold in_forest in HF. vm_compute in HF. destruct HF as [HF|[]].
    inversion HF.
Qed.
