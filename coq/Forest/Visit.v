(* Model of ForestVisitor.visit (lark/parsers/earley_forest.py) on finite, possibly cyclic
   forest graphs.  Executable definitions only; proofs in Visit_proofs.v.

   The walk is generic in what the visit_*_in callbacks return - an iterable of nodes ([RNodes], None/empty =
   [RNodes []]) or a single node ([ROne], the `else` branch of visit() that tests id(next_node) in visiting and
   pushes the node itself instead of an iterator): [sel history node] is that return value, [sel_kids] the list
   of nodes a callback hands back for [node], as a function of the events so far (this covers
   stateful visitors such as ForestToParseTree).  Events are the callbacks made.

   * [visit_rec]: the recursive reading of the walk (recursion on the nodes not on the path).
   * [visit_loop]: the coded loop with its explicit stack of nodes and iterators. *)
From Coq Require Import List Bool Arith.
From LV Require Import Base.Prelude.
Import ListNotations.

Inductive vnode : Type :=
| VTok (tid : nat)        (* TokenNode; visit_token_node receives the token: [tid] identifies it *)
| VInner.                 (* SymbolNode (completed or intermediate) or PackedNode *)
Definition vgraph := list vnode.

Inductive event : Type :=
| EIn (n : nat)                        (* visit_symbol/intermediate/packed_node_in *)
| EOut (n : nat)                       (* visit_..._node_out *)
| ETok (tid : nat)                     (* visit_token_node *)
| ECycle (n : nat) (path : list nat).  (* on_cycle(node, path) *)

Fixpoint memn (x : nat) (l : list nat) : bool :=
  match l with [] => false | y :: r => Nat.eqb x y || memn x r end.

Definition vstate := (list event * list nat)%type.     (* events so far, visited *)

(* what a visit_*_in callback handed back *)
Inductive vret : Type :=
| RNodes (ks : list nat)     (* an iterable of nodes (None entries dropped); None / nothing = RNodes [] *)
| ROne (c : nat).            (* a single ForestNode *)
Definition sel_kids (r : vret) : list nat := match r with RNodes ks => ks | ROne c => [c] end.

Section Visit.
  Variable g : vgraph.
  Variable single : bool.                               (* ForestVisitor.single_visit *)
  Variable sel : list event -> nat -> vret.

  (* ---- recursive model ------------------------------------------------------------ *)
  (* the nodes a callback returned, in order: a node already on the path is reported through
     on_cycle and not entered, any other node is visited *)
  Fixpoint fold_kids (visit1 : vstate -> nat -> res vstate) (path' : list nat) (ks : list nat) (st : vstate)
    : res vstate :=
    match ks with
    | [] => Ok st
    | c :: r =>
        if memn c path' then fold_kids visit1 path' r (fst st ++ [ECycle c path'], snd st)
        else rbind (visit1 st c) (fold_kids visit1 path' r)
    end.

  Fixpoint visit_rec (fuel : nat) (path : list nat) (st : vstate) (n : nat) : res vstate :=
    match fuel with
    | O => OutOfFuel
    | S f =>
        match nth_error g n with
        | None => AssertFail
        | Some (VTok t) => Ok (fst st ++ [ETok t], snd st)
        | Some VInner =>
            if single && memn n (snd st) then Ok st
            else
              let path' := path ++ [n] in
              let tr1 := fst st ++ [EIn n] in
              rbind (fold_kids (visit_rec f path') path' (sel_kids (sel tr1 n)) (tr1, snd st))
                    (fun st2 => Ok (fst st2 ++ [EOut n], n :: snd st2))
        end
    end.

  Definition visit (root : nat) : res vstate := visit_rec (S (List.length g)) [] ([], []) root.

  (* ---- the coded loop -------------------------------------------------------------------
     input_stack holds nodes and iterators; `visiting` is the set of ids on `path`. *)
  Inductive frame : Type := FNode (n : nat) | FIter (ks : list nat).
  Record lstate := mkL { l_stack : list frame; l_path : list nat; l_visited : list nat; l_trace : list event }.

  Inductive outcome : Type := Running (s : lstate) | Finished (s : lstate) | Stuck.

  Definition step (s : lstate) : outcome :=
    match l_stack s with
    | [] => Finished s
    | FIter [] :: stk =>                                    (* StopIteration: input_stack.pop() *)
        Running (mkL stk (l_path s) (l_visited s) (l_trace s))
    | FIter (c :: ks) :: stk =>
        if memn c (l_path s)                                (* id(next_node) in visiting: on_cycle *)
        then Running (mkL (FIter ks :: stk) (l_path s) (l_visited s) (l_trace s ++ [ECycle c (l_path s)]))
        else Running (mkL (FNode c :: FIter ks :: stk) (l_path s) (l_visited s) (l_trace s))
    | FNode n :: stk =>
        match nth_error g n with
        | None => Stuck
        | Some (VTok t) => Running (mkL stk (l_path s) (l_visited s) (l_trace s ++ [ETok t]))
        | Some VInner =>
            if memn n (l_path s)                            (* current_id in visiting: the way out *)
            then Running (mkL stk (removelast (l_path s)) (n :: l_visited s) (l_trace s ++ [EOut n]))
            else if single && memn n (l_visited s)
            then Running (mkL stk (l_path s) (l_visited s) (l_trace s))
            else let tr1 := l_trace s ++ [EIn n] in
                 let path' := l_path s ++ [n] in
                 match sel tr1 n with
                 | RNodes ks => Running (mkL (FIter ks :: FNode n :: stk) path' (l_visited s) tr1)
                 | ROne c =>                                  (* elif id(next_node) in visiting: oc(...); continue *)
                     if memn c path'
                     then Running (mkL (FNode n :: stk) path' (l_visited s) (tr1 ++ [ECycle c path']))
                     else Running (mkL (FNode c :: FNode n :: stk) path' (l_visited s) tr1)
                 end
        end
    end.

  Fixpoint run_loop (fuel : nat) (s : lstate) : res lstate :=
    match fuel with
    | O => OutOfFuel
    | S f => match step s with
             | Finished s' => Ok s'
             | Stuck => AssertFail
             | Running s' => run_loop f s'
             end
    end.

  Definition visit_loop (fuel : nat) (root : nat) : res vstate :=
    rbind (run_loop fuel (mkL [FNode root] [] [] [])) (fun s => Ok (l_trace s, l_visited s)).
End Visit.
