(* C04 layer B - proofs about Forest/ExplicitToTree.v: expanding the explicit tree of an acyclic, well-formed
   forest gives exactly the shaped derivations of the forest. *)
From Coq Require Import String Ascii Bool Arith List Lia.
From LV Require Import Base.Prelude Forest.ExplicitToTree Forest.ExplicitCheck.
Import ListNotations.
Local Open Scope string_scope.
Local Open Scope list_scope.

(* ------------------------------------------------------------------ lists *)
Lemma In_product {A} (ls : list (list A)) (x : list A) :
  In x (product ls) <-> Forall2 (fun a l => In a l) x ls.
Proof.
  revert x; induction ls as [|l ls IH]; intros x; simpl.
  - split; [intros [<-|[]]; constructor | intros H; inversion H; auto].
  - rewrite in_flat_map. split.
    + intros (a & Ha & Hx). apply in_map_iff in Hx. destruct Hx as (y & <- & Hy).
      constructor; auto. apply IH; auto.
    + intros H; inversion H; subst. eexists; split; eauto. apply in_map. apply IH; auto.
Qed.

Lemma In_app_product {A} (xs ys : list (list A)) z :
  In z (app_product xs ys) <-> exists x y, z = x ++ y /\ In x xs /\ In y ys.
Proof.
  unfold app_product. rewrite in_flat_map. split.
  - intros (x & Hx & Hz). apply in_map_iff in Hz. destruct Hz as (y & <- & Hy). eauto.
  - intros (x & y & -> & Hx & Hy). exists x; split; auto. apply in_map_iff; eauto.
Qed.

Lemma Forall2_app_inv_l' {A B} (R : A -> B -> Prop) l1 l2 l' :
  Forall2 R (l1 ++ l2) l' -> exists a b, l' = a ++ b /\ Forall2 R l1 a /\ Forall2 R l2 b.
Proof. intros H. apply Forall2_app_inv_l in H. destruct H as (a & b & ? & ? & ?); eauto. Qed.

Lemma F2_length {A B} (R : A -> B -> Prop) l l' : Forall2 R l l' -> length l = length l'.
Proof. induction 1; simpl; auto. Qed.

Lemma Forall2_nth {A B} (R : A -> B -> Prop) l l' da db i :
  Forall2 R l l' -> R da db -> R (nth i l da) (nth i l' db).
Proof.
  intros H Hd; revert i; induction H; intros [|i]; simpl; auto.
Qed.

Lemma Forall2_refl_on {A} (R : A -> A -> Prop) l : (forall x, In x l -> R x x) -> Forall2 R l l.
Proof. induction l; simpl; constructor; auto. Qed.

(* ------------------------------------------------------------------ tree induction *)
Section TreeInd.
  Variable P : tree -> Prop.
  Hypothesis HTk : forall ty v, P (Tk ty v).
  Hypothesis HNn : P Nn.
  Hypothesis HNd : forall d ks, Forall P ks -> P (Nd d ks).
  Fixpoint tree_ind2 (t : tree) : P t :=
    match t with
    | Tk ty v => HTk ty v
    | Nn => HNn
    | Nd d ks => HNd d ks ((fix go (ks : list tree) : Forall P ks :=
                              match ks with [] => Forall_nil _ | k :: r => Forall_cons _ (tree_ind2 k) (go r) end) ks)
    end.
End TreeInd.

(* ------------------------------------------------------------------ expansion as a relation *)
Lemma expand_Nd d ks :
  expand (Nd d ks) = if String.eqb d AMBIG then List.concat (map expand ks) else map (Nd d) (product (map expand ks)).
Proof.
  simpl. replace ((fix go (ks0 : list tree) : list (list tree) :=
                     match ks0 with [] => [] | k :: r => expand k :: go r end) ks) with (map expand ks); auto.
Qed.

Definition X (t t' : tree) : Prop := In t' (expand t).
Definition XL := Forall2 X.

Lemma X_Tk ty v t' : X (Tk ty v) t' <-> t' = Tk ty v.
Proof. unfold X; simpl. intuition. Qed.
Lemma X_Nn t' : X Nn t' <-> t' = Nn.
Proof. unfold X; simpl. intuition. Qed.

Lemma In_product_expand ks ks' : In ks' (product (map expand ks)) <-> XL ks ks'.
Proof.
  rewrite In_product. unfold XL. split; intros H.
  - remember (map expand ks) as m. revert ks Heqm. induction H; intros [|k ks] E; simpl in *; try discriminate; constructor.
    + inversion E; subst; auto. + apply IHForall2. inversion E; auto.
  - induction H; simpl; constructor; auto.
Qed.

Lemma X_node d ks t' : String.eqb d AMBIG = false ->
  (X (Nd d ks) t' <-> exists ks', t' = Nd d ks' /\ XL ks ks').
Proof.
  intros Hd. unfold X. rewrite expand_Nd, Hd, in_map_iff. split.
  - intros (ks' & <- & H). exists ks'; split; auto. apply In_product_expand; auto.
  - intros (ks' & -> & H). exists ks'; split; auto. apply In_product_expand; auto.
Qed.

Lemma X_ambig ks t' : X (Nd AMBIG ks) t' <-> exists k, In k ks /\ X k t'.
Proof.
  unfold X. rewrite expand_Nd. simpl. rewrite in_concat. split.
  - intros (l & Hl & Ht). apply in_map_iff in Hl. destruct Hl as (k & <- & Hk). eauto.
  - intros (k & Hk & Ht). exists (expand k); split; auto. apply in_map; auto.
Qed.

Lemma is_ambig_Nd d ks : is_ambig (Nd d ks) = String.eqb d AMBIG.
Proof. reflexivity. Qed.

Lemma is_ambig_true t : is_ambig t = true -> exists ks, t = Nd AMBIG ks.
Proof.
  destruct t; simpl; try discriminate. unfold is_ambig; simpl. intros H. apply String.eqb_eq in H. subst. eauto.
Qed.

(* a non-_ambig tree expands to trees with the same root and pointwise expanded children *)
Lemma X_kids c c' : is_ambig c = false -> X c c' -> XL (kids c) (kids c') /\ is_ambig c' = false
                                                   /\ length (kids c') = length (kids c).
Proof.
  destruct c as [ty v| |d ks]; intros Ha H.
  - apply X_Tk in H; subst; simpl; repeat split; constructor.
  - apply X_Nn in H; subst; simpl; repeat split; constructor.
  - rewrite is_ambig_Nd in Ha. apply X_node in H; auto. destruct H as (ks' & -> & H). simpl. repeat split; auto.
    symmetry; eapply F2_length; eauto.
Qed.

Definition inh (t : tree) : Prop := exists t', X t t'.

Lemma XL_inh cs : Forall inh cs -> exists cs', XL cs cs'.
Proof.
  induction 1 as [|c cs (c' & Hc) _ (cs' & IH)]. exists []; constructor. exists (c' :: cs'); constructor; auto.
Qed.

(* ------------------------------------------------------------------ ChildFilter commutes with expansion *)
Lemma XL_repeat_Nn n l : XL (repeat Nn n) l <-> l = repeat Nn n.
Proof.
  revert l; induction n; simpl; intros l; split; intros H.
  - inversion H; auto. - subst; constructor.
  - inversion H; subst. apply X_Nn in H2. subst. f_equal. apply IHn; auto.
  - subst. constructor. apply X_Nn; auto. apply IHn; auto.
Qed.

Lemma XL_nth cs cs' i : XL cs cs' -> X (nth i cs Nn) (nth i cs' Nn).
Proof. intros H. apply Forall2_nth; auto. apply X_Nn; auto. Qed.

Definition inl_ok (ti : list (nat * bool * nat)) (cs : list tree) : Prop :=
  forall i n, In (i, true, n) ti -> is_ambig (nth i cs Nn) = false.

Lemma cf_piece_fwd cs cs' i ex nn :
  XL cs cs' -> (ex = true -> is_ambig (nth i cs Nn) = false) -> XL (cf_piece cs (i, ex, nn)) (cf_piece cs' (i, ex, nn)).
Proof.
  intros H Hex. unfold cf_piece. apply Forall2_app. apply XL_repeat_Nn; auto.
  destruct ex.
  - apply X_kids; auto. apply XL_nth; auto.
  - constructor; [apply XL_nth; auto | constructor].
Qed.

Lemma child_filter_fwd ti an cs cs' :
  XL cs cs' -> inl_ok ti cs -> XL (child_filter ti an cs) (child_filter ti an cs').
Proof.
  intros H Hok. unfold child_filter. apply Forall2_app; [|apply XL_repeat_Nn; auto].
  induction ti as [|[[i ex] nn] ti IH]; simpl. constructor.
  apply Forall2_app.
  - apply cf_piece_fwd; auto. intros ->. eapply Hok; left; eauto.
  - apply IH. intros j n Hj. eapply Hok; right; eauto.
Qed.

Fixpoint upd {A} (i : nat) (x : A) (l : list A) : list A :=
  match l, i with
  | [], _ => []
  | _ :: r, 0 => x :: r
  | y :: r, S i' => y :: upd i' x r
  end.

Lemma nth_upd_eq {A} i (x d : A) l : i < length l \/ x = d -> nth i (upd i x l) d = x.
Proof.
  revert i; induction l; intros [|i] H; simpl in *; try (destruct H; [lia|auto]); auto.
  apply IHl. destruct H; [left; lia | auto].
Qed.

Lemma nth_upd_neq {A} i j (x d : A) l : i <> j -> nth j (upd i x l) d = nth j l d.
Proof.
  revert i j; induction l; intros [|i] [|j] H; simpl; auto; try lia.
Qed.

Lemma F2_upd {A B} (R : A -> B -> Prop) l l' i x da :
  Forall2 R l l' -> R (nth i l da) x -> Forall2 R l (upd i x l').
Proof.
  intros H; revert i; induction H; intros [|i] Hx; simpl in *; constructor; auto.
Qed.

Definition idxs (ti : list (nat * bool * nat)) : list nat := map (fun x => fst (fst x)) ti.

Lemma cf_piece_upd cs i c' j ex nn : i <> j -> cf_piece (upd i c' cs) (j, ex, nn) = cf_piece cs (j, ex, nn).
Proof. intros H. unfold cf_piece. rewrite nth_upd_neq; auto. Qed.

Lemma flat_map_cf_upd ti cs i c' : ~ In i (idxs ti) ->
  flat_map (cf_piece (upd i c' cs)) ti = flat_map (cf_piece cs) ti.
Proof.
  induction ti as [|[[j ex] nn] ti IH]; simpl; intros H; auto.
  rewrite IH by tauto. f_equal. apply cf_piece_upd. intros ->; tauto.
Qed.

Lemma X_refl_leaf c : (forall d ks, c <> Nd d ks) -> X c c.
Proof. destruct c; intros H; [apply X_Tk | apply X_Nn | exfalso; eapply H]; eauto. Qed.

Lemma child_filter_bwd ti an cs F' :
  NoDup (idxs ti) -> inl_ok ti cs -> Forall inh cs -> XL (child_filter ti an cs) F' ->
  exists cs', XL cs cs' /\ child_filter ti an cs' = F'.
Proof.
  unfold child_filter. revert F'. induction ti as [|[[i ex] nn] ti IH]; simpl; intros F' Hnd Hok Hinh H.
  - apply XL_repeat_Nn in H. subst. destruct (XL_inh cs Hinh) as (cs' & Hcs). exists cs'; auto.
  - rewrite <- app_assoc in H. apply Forall2_app_inv_l' in H. destruct H as (P' & R' & -> & HP & HR).
    inversion Hnd as [|? ? Hni Hnd']; subst.
    destruct (IH R' Hnd') as (cs'' & Hcs'' & Eq); auto.
    { intros j n Hj. eapply Hok; right; eauto. }
    unfold cf_piece in HP. apply Forall2_app_inv_l' in HP. destruct HP as (N' & Q' & -> & HN & HQ).
    apply XL_repeat_Nn in HN. subst N'.
    assert (Hlen : length cs'' = length cs) by (symmetry; eapply F2_length; eauto).
    assert (exists c', X (nth i cs Nn) c' /\ (if ex then kids c' else [c']) = Q' /\ (i < length cs \/ c' = Nn)) as (c' & Hc' & Hq & Hr).
    { destruct (Nat.lt_ge_cases i (length cs)) as [Hlt|Hge].
      - destruct ex.
        + assert (Ha : is_ambig (nth i cs Nn) = false) by (eapply Hok; left; eauto).
          destruct (nth i cs Nn) as [ty v| |d ks] eqn:E; simpl in HQ.
          * inversion HQ; subst. exists (Tk ty v). repeat split; auto. apply X_Tk; auto.
          * inversion HQ; subst. exists Nn. repeat split; auto. apply X_Nn; auto.
          * exists (Nd d Q'). repeat split; auto. apply X_node; eauto.
        + inversion HQ as [|? c' ? ? Hc HQ']; subst. inversion HQ'; subst. exists c'; auto.
      - rewrite nth_overflow in * by lia. exists Nn. split; [apply X_Nn; auto|]. split; auto.
        destruct ex; simpl in HQ.
        + inversion HQ; auto.
        + inversion HQ as [|? c' ? ? Hc HQ']; subst. inversion HQ'; subst. apply X_Nn in Hc. subst; auto. }
    exists (upd i c' cs''). split.
    + eapply F2_upd; eauto.
    + rewrite <- app_assoc. simpl. rewrite flat_map_cf_upd by auto. rewrite Eq.
      unfold cf_piece. rewrite nth_upd_eq by (rewrite Hlen; auto). rewrite Hq. rewrite <- app_assoc. reflexivity.
Qed.

(* ------------------------------------------------------------------ facts about maybe_create_child_filter *)
Lemma to_include_props exp : forall i0 ei nones keep l a,
  to_include i0 exp ei nones keep = (l, a) ->
  (forall i ex n, In (i, ex, n) l ->
     i0 <= i < i0 + length exp /\ ex = should_expand (nth (i - i0) exp dummy_sym)
     /\ (ex = true -> memn i (amb_indices i0 exp keep) = true))
  /\ NoDup (idxs l).
Proof.
  induction exp as [|s exp IH]; simpl; intros i0 ei nones keep l a H.
  - inversion H; subst. split. intros ? ? ? []. constructor.
  - destruct (keep || negb (e_term s && e_filter s)) eqn:Hk.
    + destruct (to_include (S i0) exp (tl ei) 0 keep) as [l' a'] eqn:E. inversion H; subst. clear H.
      destruct (IH _ _ _ _ _ _ E) as (H1 & H2). split.
      * intros i ex n [Hin|Hin].
        -- inversion Hin; subst. rewrite Nat.sub_diag. simpl. repeat split; try lia.
           intros Hex. rewrite Hex.
           replace (keep || negb (e_term s && e_filter s) && true) with true.
           simpl. rewrite Nat.eqb_refl; auto.
           destruct keep; simpl in *; auto. rewrite Hk; auto.
        -- destruct (H1 _ _ _ Hin) as (Hb & He & Hm). replace (i - i0) with (S (i - S i0)) by lia. simpl.
           repeat split; try lia; auto. intros Hex.
           destruct (keep || negb (e_term s && e_filter s) && should_expand s); simpl; auto.
           rewrite Hm; auto. apply orb_true_r.
      * simpl. constructor; auto. intros Hin. unfold idxs in Hin. apply in_map_iff in Hin.
        destruct Hin as ([[j ex] n] & Hj & Hin). simpl in Hj. subst. apply H1 in Hin. lia.
    + destruct (IH _ _ _ _ _ _ H) as (H1 & H2). split; auto.
      intros i ex n Hin. destruct (H1 _ _ _ Hin) as (Hb & He & Hm). replace (i - i0) with (S (i - S i0)) by lia. simpl.
      repeat split; try lia; auto. intros Hex.
      destruct (keep || negb (e_term s && e_filter s) && should_expand s); simpl; auto.
      rewrite Hm; auto. apply orb_true_r.
Qed.

Lemma cf_spec_props r :
  (forall i ex n, In (i, ex, n) (fst (cf_spec r)) ->
     i < length (x_exp r) /\ ex = should_expand (nth i (x_exp r) dummy_sym)
     /\ (ex = true -> memn i (ae_spec r) = true))
  /\ NoDup (idxs (fst (cf_spec r))).
Proof.
  unfold cf_spec, ae_spec. destruct (to_include 0 (x_exp r) (empty_counts r) 0 (x_keep r)) as [l a] eqn:E.
  destruct (to_include_props _ _ _ _ _ _ _ E) as (H1 & H2). split; auto.
  intros i ex n Hin. destruct (H1 _ _ _ Hin) as (Hb & He & Hm). rewrite Nat.sub_0_r in He. repeat split; auto; lia.
Qed.

(* the indices whose child is spliced by ChildFilter *)
Definition inlined (r : xrule) (i : nat) : Prop :=
  has_filter r = true /\ exists n, In (i, true, n) (fst (cf_spec r)).

Lemma inlined_props r i : inlined r i ->
  i < length (x_exp r) /\ should_expand (nth i (x_exp r) dummy_sym) = true /\ memn i (ae_spec r) = true.
Proof.
  intros (_ & n & Hin). destruct (cf_spec_props r) as (H & _). destruct (H _ _ _ Hin) as (? & ? & ?). auto.
Qed.

(* ------------------------------------------------------------------ the plain chain commutes with expansion *)
Definition name_ok (r : xrule) : Prop := String.eqb (x_name r) AMBIG = false.

Lemma filtered_fwd r cs cs' :
  XL cs cs' -> (forall i, inlined r i -> is_ambig (nth i cs Nn) = false) -> XL (filtered r cs) (filtered r cs').
Proof.
  intros H Hin. unfold filtered. destruct (has_filter r) eqn:Hf; auto.
  apply child_filter_fwd; auto. intros i n Hi. apply Hin. split; eauto.
Qed.

Lemma filtered_bwd r cs F' :
  (forall i, inlined r i -> is_ambig (nth i cs Nn) = false) -> Forall inh cs -> XL (filtered r cs) F' ->
  exists cs', XL cs cs' /\ filtered r cs' = F'.
Proof.
  intros Hin Hinh H. unfold filtered in *. destruct (has_filter r) eqn:Hf; eauto.
  apply child_filter_bwd; auto. apply cf_spec_props. intros i n Hi. apply Hin. split; eauto.
Qed.

Lemma plain_X r cs t' :
  name_ok r -> (forall i, inlined r i -> is_ambig (nth i cs Nn) = false) -> Forall inh cs ->
  (X (plain r cs) t' <-> exists cs', XL cs cs' /\ t' = plain r cs').
Proof.
  intros Hn Hin Hinh. unfold plain. split.
  - intros H.
    assert (Hnode : X (Nd (x_name r) (filtered r cs)) t' -> exists cs', XL cs cs' /\ t' = Nd (x_name r) (filtered r cs')).
    { intros H'. apply X_node in H'; auto. destruct H' as (F' & -> & HF).
      destruct (filtered_bwd r cs F' Hin Hinh HF) as (cs' & Hcs & <-). eauto. }
    destruct (esc_on r); [|destruct (Hnode H) as (cs' & ? & ->); eauto].
    destruct (filtered r cs) as [|f [|f2 F]] eqn:E.
    + destruct (Hnode H) as (cs' & Hcs & ->). exists cs'; split; auto.
      pose proof (filtered_fwd r cs cs' Hcs Hin) as HF. rewrite E in HF. inversion HF; auto.
    + assert (HX : XL (filtered r cs) [t']) by (rewrite E; apply Forall2_cons; [exact H | apply Forall2_nil]).
      destruct (filtered_bwd r cs [t'] Hin Hinh HX) as (cs' & Hcs & E').
      exists cs'; split; auto. rewrite E'; auto.
    + destruct (Hnode H) as (cs' & Hcs & ->). exists cs'; split; auto.
      pose proof (filtered_fwd r cs cs' Hcs Hin) as HF. rewrite E in HF. inversion HF; subst. inversion H4; subst. auto.
  - intros (cs' & Hcs & ->). pose proof (filtered_fwd r cs cs' Hcs Hin) as HF.
    assert (Hnode : X (Nd (x_name r) (filtered r cs)) (Nd (x_name r) (filtered r cs'))) by (apply X_node; eauto).
    destruct (esc_on r); auto.
    destruct (filtered r cs) as [|f [|f2 F]]; inversion HF as [|? y ? l' Hy Hl' E1 E2]; subst.
    + rewrite <- H in Hnode. exact Hnode.
    + inversion Hl'; subst. exact Hy.
    + inversion Hl'; subst. rewrite <- E2 in Hnode. exact Hnode.
Qed.

(* ------------------------------------------------------------------ inhabitedness *)
Definition ne (t : tree) : Prop := noempty t = true.

Lemma noempty_Nd d ks :
  noempty (Nd d ks) = forallb noempty ks && (if String.eqb d AMBIG then nonnil ks else true).
Proof.
  simpl. f_equal.
Qed.

Lemma ne_kids d ks : ne (Nd d ks) -> Forall ne ks.
Proof.
  unfold ne. rewrite noempty_Nd. intros H. apply andb_true_iff in H. destruct H as (H & _).
  rewrite forallb_forall in H. apply Forall_forall; auto.
Qed.

Lemma ne_Nd d ks : Forall ne ks -> (String.eqb d AMBIG = true -> ks <> []) -> ne (Nd d ks).
Proof.
  intros H Hn. unfold ne. rewrite noempty_Nd. apply andb_true_iff. split.
  - apply forallb_forall. rewrite Forall_forall in H. auto.
  - destruct (String.eqb d AMBIG); auto. destruct ks; auto. exfalso; apply Hn; auto.
Qed.

Lemma ne_inh t : ne t -> inh t.
Proof.
  induction t as [ty v| |d ks IH] using tree_ind2; intros H.
  - exists (Tk ty v); apply X_Tk; auto.
  - exists Nn; apply X_Nn; auto.
  - pose proof (ne_kids _ _ H) as Hk.
    assert (Hi : Forall inh ks).
    { clear H. induction IH; inversion Hk; subst; constructor; auto. }
    destruct (String.eqb d AMBIG) eqn:Hd.
    + apply String.eqb_eq in Hd. subst d. unfold ne in H. rewrite noempty_Nd in H. apply andb_true_iff in H.
      destruct H as (_ & H). simpl in H. destruct ks as [|k ks]; [discriminate|].
      inversion Hi as [|? ? (t' & Ht) _]; subst. exists t'. apply X_ambig. exists k; split; simpl; auto.
    + destruct (XL_inh ks Hi) as (ks' & Hks). exists (Nd d ks'). apply X_node; eauto.
Qed.

Lemma Forall_ne_inh cs : Forall ne cs -> Forall inh cs.
Proof. intros H. eapply Forall_impl; [|exact H]. apply ne_inh. Qed.

(* ------------------------------------------------------------------ AmbiguousExpander *)
Definition A0 (t : tree) : Prop := is_ambig t = false.
Definition A1 (t : tree) : Prop := is_ambig t = true -> Forall A0 (kids t).
Definition A2 (t : tree) : Prop := is_ambig t = true -> Forall A1 (kids t).

Lemma A0_A1 t : A0 t -> A1 t.
Proof. unfold A0, A1. intros -> ?; discriminate. Qed.
Lemma A1_A2 t : A1 t -> A2 t.
Proof. unfold A1, A2. intros H Ha. eapply Forall_impl; [|apply H; auto]. apply A0_A1. Qed.

Lemma flatten_not_ambig c : is_ambig c = false -> flatten_ambig c = c.
Proof. destruct c; simpl; auto. unfold is_ambig; simpl. intros ->; auto. Qed.

Lemma is_ambig_flatten c : is_ambig (flatten_ambig c) = is_ambig c.
Proof.
  destruct c; simpl; auto. destruct (String.eqb d AMBIG) eqn:E; auto.
Qed.

Lemma kids_flatten_ambig ks :
  kids (flatten_ambig (Nd AMBIG ks)) = flat_map (fun k => if is_ambig k then kids k else [k]) ks.
Proof. reflexivity. Qed.

Lemma X_flatten c t' : X (flatten_ambig c) t' <-> X c t'.
Proof.
  destruct (is_ambig c) eqn:Ha.
  - apply is_ambig_true in Ha. destruct Ha as (ks & ->).
    change (flatten_ambig (Nd AMBIG ks)) with (Nd AMBIG (flat_map (fun k => if is_ambig k then kids k else [k]) ks)).
    rewrite !X_ambig. split.
    + intros (k' & Hin & Hx). apply in_flat_map in Hin. destruct Hin as (k & Hk & Hin). exists k; split; auto.
      destruct (is_ambig k) eqn:Hak.
      * apply is_ambig_true in Hak. destruct Hak as (ks2 & ->). apply X_ambig. simpl in Hin. eauto.
      * destruct Hin as [<-|[]]; auto.
    + intros (k & Hk & Hx). destruct (is_ambig k) eqn:Hak.
      * pose proof Hak as Hak'. apply is_ambig_true in Hak. destruct Hak as (ks2 & ->). apply X_ambig in Hx. destruct Hx as (k' & Hk' & Hx).
        exists k'; split; auto. apply in_flat_map. exists (Nd AMBIG ks2); split; auto.
      * exists k; split; auto. apply in_flat_map. exists k; split; auto. rewrite Hak; simpl; auto.
  - rewrite flatten_not_ambig; tauto.
Qed.

Lemma XL_flatten cs cs' : XL (map flatten_ambig cs) cs' <-> XL cs cs'.
Proof.
  revert cs'; induction cs; simpl; intros cs'; split; intros H; inversion H; subst; constructor;
    try (apply X_flatten; auto); try (apply IHcs; auto); auto.
Qed.

Lemma ne_flatten c : ne c -> ne (flatten_ambig c).
Proof.
  intros H. destruct (is_ambig c) eqn:Ha; [|rewrite flatten_not_ambig; auto].
  apply is_ambig_true in Ha. destruct Ha as (ks & ->).
  change (flatten_ambig (Nd AMBIG ks)) with (Nd AMBIG (flat_map (fun k => if is_ambig k then kids k else [k]) ks)).
  pose proof (ne_kids _ _ H) as Hk.
  apply ne_Nd.
  - apply Forall_forall. intros k' Hin. apply in_flat_map in Hin. destruct Hin as (k & Hk1 & Hin).
    rewrite Forall_forall in Hk. specialize (Hk _ Hk1).
    destruct (is_ambig k) eqn:Hak.
    + destruct k; simpl in Hin; try contradiction. apply ne_kids in Hk. rewrite Forall_forall in Hk; auto.
    + destruct Hin as [<-|[]]; auto.
  - intros _ E. unfold ne in H. rewrite noempty_Nd in H. apply andb_true_iff in H. destruct H as (_ & H). simpl in H.
    destruct ks as [|k ks]; [discriminate|]. simpl in E. apply app_eq_nil in E. destruct E as (E & _).
    inversion Hk; subst. destruct (is_ambig k) eqn:Hak; [|discriminate].
    apply is_ambig_true in Hak. destruct Hak as (ks2 & ->). simpl in E. subst.
    unfold ne in H2. rewrite noempty_Nd in H2. simpl in H2. discriminate.
Qed.

(* after the one-level flattening, an A2 child is _ambig only over non-_ambig alternatives *)
Lemma A2_flatten c : A2 c -> A1 (flatten_ambig c).
Proof.
  intros H Ha. rewrite is_ambig_flatten in Ha. specialize (H Ha).
  apply is_ambig_true in Ha. destruct Ha as (ks & ->). rewrite kids_flatten_ambig. simpl in H.
  apply Forall_forall. intros k' Hin. apply in_flat_map in Hin. destruct Hin as (k & Hk & Hin).
  rewrite Forall_forall in H. specialize (H _ Hk).
  destruct (is_ambig k) eqn:Hak.
  - specialize (H Hak). rewrite Forall_forall in H; auto.
  - destruct Hin as [<-|[]]. exact Hak.
Qed.

Definition lifted (te : list nat) (i : nat) (c : tree) : bool := is_ambig c && memn i te.

Lemma ae_any_false te cs : forall i0, ae_any te i0 cs = false ->
  forall j, lifted te (i0 + j) (nth j cs Nn) = false.
Proof.
  induction cs as [|c cs IH]; simpl; intros i0 H j.
  - destruct j; reflexivity.
  - apply orb_false_iff in H. destruct H as (H1 & H2). destruct j; simpl.
    + rewrite Nat.add_0_r; auto.
    + replace (i0 + S j) with (S i0 + j) by lia. apply IH; auto.
Qed.

Lemma ae_alts_sel te cs : forall i0 f,
  Forall2 (fun a l => In a l) f (ae_alts te i0 cs) ->
  (forall f', XL f f' -> XL cs f') /\
  (forall j, (lifted te (i0 + j) (nth j cs Nn) = true -> In (nth j f Nn) (kids (nth j cs Nn)))
             /\ (lifted te (i0 + j) (nth j cs Nn) = false -> nth j f Nn = nth j cs Nn)) /\
  (Forall ne cs -> Forall ne f).
Proof.
  induction cs as [|c cs IH]; simpl; intros i0 f H.
  - inversion H; subst. repeat split; auto; destruct j; simpl; auto; discriminate.
  - inversion H as [|a ? f0 ? Ha Hf]; subst. destruct (IH _ _ Hf) as (I1 & I2 & I3). repeat split.
    + intros f' Hf'. inversion Hf'; subst. constructor; [|apply I1; auto].
      unfold lifted in *. destruct (is_ambig c && memn i0 te) eqn:E.
      * apply andb_true_iff in E. destruct E as (E & _). apply is_ambig_true in E. destruct E as (ks & ->).
        apply X_ambig. eauto.
      * destruct Ha as [<-|[]]; auto.
    + destruct j; simpl.
      * rewrite Nat.add_0_r. unfold lifted. intros E. rewrite E in Ha. auto.
      * replace (i0 + S j) with (S i0 + j) by lia. apply I2.
    + destruct j; simpl.
      * rewrite Nat.add_0_r. unfold lifted. intros E. rewrite E in Ha. destruct Ha as [<-|[]]; auto.
      * replace (i0 + S j) with (S i0 + j) by lia. apply I2.
    + intros Hne. inversion Hne; subst. constructor; auto.
      destruct (is_ambig c && memn i0 te) eqn:E.
      * apply andb_true_iff in E. destruct E as (E & _). apply is_ambig_true in E. destruct E as (ks & ->).
        apply ne_kids in H2. rewrite Forall_forall in H2; auto.
      * destruct Ha as [<-|[]]; auto.
Qed.

Lemma ae_alts_pick te cs : forall i0 f', XL cs f' ->
  exists f, Forall2 (fun a l => In a l) f (ae_alts te i0 cs) /\ XL f f'.
Proof.
  induction cs as [|c cs IH]; simpl; intros i0 f' H.
  - inversion H; subst. exists []; split; constructor.
  - inversion H as [|? c' ? fr Hc Hr]; subst. destruct (IH (S i0) _ Hr) as (f & Hf & Hx).
    destruct (is_ambig c && memn i0 te) eqn:E.
    + apply andb_true_iff in E. destruct E as (E & _). apply is_ambig_true in E. destruct E as (ks & ->).
      apply X_ambig in Hc. destruct Hc as (k & Hk & Hc). exists (k :: f). split; constructor; auto.
    + exists (c :: f). split; constructor; simpl; auto.
Qed.

Lemma nth_map_flatten cs i : nth i (map flatten_ambig cs) Nn = flatten_ambig (nth i cs Nn).
Proof. change Nn with (flatten_ambig Nn) at 1. apply map_nth. Qed.

Lemma ae_X r te cs t' :
  name_ok r -> (forall i, inlined r i -> memn i te = true) ->
  (forall i, inlined r i -> A2 (nth i cs Nn)) -> Forall ne cs ->
  (X (ae te (plain r) cs) t' <-> exists cs', XL cs cs' /\ t' = plain r cs').
Proof.
  intros Hn Hte HA2 Hne. unfold ae.
  set (cs1 := map flatten_ambig cs).
  assert (Hne1 : Forall ne cs1).
  { unfold cs1. clear -Hne. induction Hne; simpl; constructor; auto. apply ne_flatten; auto. }
  assert (HA1 : forall i, inlined r i -> A1 (nth i cs1 Nn)).
  { intros i Hi. unfold cs1. rewrite nth_map_flatten. apply A2_flatten; auto. }
  assert (HXL : forall cs', XL cs1 cs' <-> XL cs cs') by (intros; apply XL_flatten).
  destruct (ae_any te 0 cs1) eqn:Hany.
  - rewrite X_ambig. split.
    + intros (k & Hk & Hx). apply in_map_iff in Hk. destruct Hk as (f & <- & Hf). apply In_product in Hf.
      destruct (ae_alts_sel _ _ _ _ Hf) as (S1 & S2 & S3).
      apply plain_X in Hx; auto.
      * destruct Hx as (f' & Hf' & ->). exists f'; split; auto. apply HXL. auto.
      * intros i Hi. destruct (S2 i) as (Sa & Sb). simpl in Sa, Sb.
        destruct (lifted te i (nth i cs1 Nn)) eqn:E.
        -- specialize (Sa eq_refl). unfold lifted in E. apply andb_true_iff in E. destruct E as (E & _).
           specialize (HA1 i Hi E). rewrite Forall_forall in HA1. apply HA1; auto.
        -- rewrite (Sb eq_refl). unfold lifted in E. rewrite (Hte i Hi), andb_true_r in E. auto.
      * apply Forall_ne_inh. auto.
    + intros (cs' & Hcs & ->). apply HXL in Hcs. destruct (ae_alts_pick te cs1 0 cs' Hcs) as (f & Hf & Hx).
      exists (plain r f). split. apply in_map. apply In_product; auto.
      destruct (ae_alts_sel _ _ _ _ Hf) as (S1 & S2 & S3).
      apply plain_X; eauto.
      * intros i Hi. destruct (S2 i) as (Sa & Sb). simpl in Sa, Sb.
        destruct (lifted te i (nth i cs1 Nn)) eqn:E.
        -- specialize (Sa eq_refl). unfold lifted in E. apply andb_true_iff in E. destruct E as (E & _).
           specialize (HA1 i Hi E). rewrite Forall_forall in HA1. apply HA1; auto.
        -- rewrite (Sb eq_refl). unfold lifted in E. rewrite (Hte i Hi), andb_true_r in E. auto.
      * apply Forall_ne_inh. auto.
  - pose proof (ae_any_false _ _ _ Hany) as Hf. simpl in Hf.
    rewrite plain_X; auto.
    + split; intros (cs' & H1 & H2); exists cs'; split; auto; apply HXL; auto.
    + intros i Hi. specialize (Hf i). unfold lifted in Hf. rewrite (Hte i Hi), andb_true_r in Hf. auto.
    + apply Forall_ne_inh; auto.
Qed.

(* ------------------------------------------------------------------ AmbiguousIntermediateExpander *)
(* the alternatives of a children list whose first element may be an '_iambig' node *)
Definition cil (ks : list tree) : list (list tree) :=
  match ks with
  | k0 :: rest =>
      if is_iambig k0
      then match ci k0 with [] => [ks] | col => map (fun l => l ++ rest) col end
      else [ks]
  | [] => [[]]
  end.

Lemma ci_Nd d gcs : ci (Nd d gcs) = flat_map (fun gc => cil (kids gc)) gcs.
Proof.
  induction gcs as [|gc gcs IH]; [reflexivity|].
  simpl flat_map. rewrite <- IH. destruct gc as [| |d' [|k0 rest]]; reflexivity.
Qed.

Lemma cil_nonempty ks : cil ks <> [].
Proof.
  destruct ks as [|k0 rest]; simpl; try discriminate.
  destruct (is_iambig k0); try discriminate. destruct (ci k0); simpl; discriminate.
Qed.

Lemma aie_X nb cs t' : X (aie nb cs) t' <-> exists l, In l (cil cs) /\ X (nb l) t'.
Proof.
  destruct cs as [|c0 rest]; simpl.
  - split; [intros H; exists []; auto | intros (l & [<-|[]] & H); auto].
  - destruct (is_iambig c0).
    + destruct (ci c0) as [|l0 col] eqn:E.
      * split; [intros H; eexists; split; [left; reflexivity|auto] | intros (l & [<-|[]] & H); auto].
      * rewrite X_ambig. split.
        -- intros (k & Hk & Hx). change (In k (map (fun l => nb (l ++ rest)) (l0 :: col))) in Hk.
           apply in_map_iff in Hk. destruct Hk as (l & <- & Hl).
           exists (l ++ rest); split; auto. apply (in_map (fun l => l ++ rest)) in Hl. exact Hl.
        -- intros (l & Hl & Hx). change (In l (map (fun l => l ++ rest) (l0 :: col))) in Hl.
           apply in_map_iff in Hl. destruct Hl as (l1 & <- & Hl1).
           exists (nb (l1 ++ rest)); split; auto. apply (in_map (fun l => nb (l ++ rest))) in Hl1. exact Hl1.
    + split; [intros H; eexists; split; [left; reflexivity|auto] | intros (l & [<-|[]] & H); auto].
Qed.

Lemma amb_cb_X r cs t' :
  name_ok r ->
  (forall l, In l (cil cs) -> Forall ne l /\ forall i, inlined r i -> A2 (nth i l Nn)) ->
  (X (amb_cb r cs) t' <-> exists l l', In l (cil cs) /\ XL l l' /\ t' = plain r l').
Proof.
  intros Hn Hl. unfold amb_cb. rewrite aie_X.
  assert (H : forall l, In l (cil cs) ->
            (X (match ae_spec r with [] => plain r | n :: l0 => ae (n :: l0) (plain r) end l) t'
             <-> exists l', XL l l' /\ t' = plain r l')).
  { intros l Hin. destruct (Hl l Hin) as (Hne & HA).
    destruct (ae_spec r) as [|i0 te] eqn:E.
    - apply plain_X; auto. intros i Hi. apply inlined_props in Hi. rewrite E in Hi. simpl in Hi. destruct Hi as (_ & _ & Hi); discriminate.
      apply Forall_ne_inh; auto.
    - apply ae_X; auto. intros i Hi. apply inlined_props in Hi. rewrite E in Hi. tauto. }
  split.
  - intros (l & Hin & Hx). apply H in Hx; auto. destruct Hx as (l' & ? & ?). eauto.
  - intros (l & l' & Hin & Hx & ->). exists l; split; auto. apply H; eauto.
Qed.

(* ------------------------------------------------------------------ result trees are tidy *)
(* no '_iambig' node and no '_ambig' without alternatives, at any depth *)
Fixpoint gdb (t : tree) : bool :=
  match t with
  | Nd d ks =>
      (fix go (ks : list tree) : bool := match ks with [] => true | k :: r => gdb k && go r end) ks
      && negb (String.eqb d IAMBIG) && (if String.eqb d AMBIG then nonnil ks else true)
  | _ => true
  end.
Definition gd (t : tree) : Prop := gdb t = true.

Lemma gdb_Nd d ks :
  gdb (Nd d ks) = forallb gdb ks && negb (String.eqb d IAMBIG) && (if String.eqb d AMBIG then nonnil ks else true).
Proof. reflexivity. Qed.

Lemma gd_Nd d ks : gd (Nd d ks) <->
  Forall gd ks /\ String.eqb d IAMBIG = false /\ (String.eqb d AMBIG = true -> ks <> []).
Proof.
  unfold gd. rewrite gdb_Nd, !andb_true_iff, forallb_forall, Forall_forall, negb_true_iff.
  split; intros ((H1 & H2) & H3) || intros (H1 & H2 & H3); repeat split; auto.
  - intros E. rewrite E in H3. destruct ks; [discriminate | discriminate].
  - destruct (String.eqb d AMBIG); auto. destruct ks; auto. exfalso; apply H3; auto.
Qed.

Lemma gd_ne t : gd t -> ne t.
Proof.
  induction t as [| |d ks IH] using tree_ind2; intros H; try reflexivity.
  apply gd_Nd in H. destruct H as (H1 & _ & H3). apply ne_Nd; auto.
  clear H3. induction IH; inversion H1; subst; constructor; auto.
Qed.

Lemma Forall_gd_ne l : Forall gd l -> Forall ne l.
Proof. intros H; eapply Forall_impl; [|exact H]. apply gd_ne. Qed.

Lemma gd_not_iambig t : gd t -> is_iambig t = false.
Proof. destruct t; auto. intros H. apply gd_Nd in H. unfold is_iambig; simpl. tauto. Qed.

Lemma gd_kids t : gd t -> Forall gd (kids t).
Proof. destruct t; simpl; auto. intros H. apply gd_Nd in H. tauto. Qed.

Lemma gd_leaf_Nn : gd Nn. Proof. reflexivity. Qed.

Lemma gd_nth l i : Forall gd l -> gd (nth i l Nn).
Proof.
  intros H. destruct (Nat.lt_ge_cases i (length l)).
  - rewrite Forall_forall in H. apply H. apply nth_In; auto.
  - rewrite nth_overflow; auto. reflexivity.
Qed.

Lemma Forall_repeat {A} (P : A -> Prop) a n : P a -> Forall P (repeat a n).
Proof. intros H; induction n; simpl; constructor; auto. Qed.

Lemma gd_child_filter ti an cs : Forall gd cs -> Forall gd (child_filter ti an cs).
Proof.
  intros H. unfold child_filter. apply Forall_app. split; [|apply Forall_repeat; reflexivity].
  induction ti as [|[[i ex] nn] ti IH]; simpl; auto. apply Forall_app. split; auto.
  unfold cf_piece. apply Forall_app. split. apply Forall_repeat; reflexivity.
  destruct ex. apply gd_kids. apply gd_nth; auto. constructor; auto. apply gd_nth; auto.
Qed.

Definition names_ok (r : xrule) : Prop :=
  String.eqb (x_name r) AMBIG = false /\ String.eqb (x_name r) IAMBIG = false.

Lemma gd_plain r cs : names_ok r -> Forall gd cs -> gd (plain r cs).
Proof.
  intros (Hn1 & Hn2) H. unfold plain.
  assert (HF : Forall gd (filtered r cs)).
  { unfold filtered. destruct (has_filter r); auto. apply gd_child_filter; auto. }
  assert (HN : gd (Nd (x_name r) (filtered r cs))).
  { apply gd_Nd. repeat split; auto. rewrite Hn1; discriminate. }
  destruct (esc_on r); auto. destruct (filtered r cs) as [|f [|? ?]]; auto. inversion HF; auto.
Qed.

Lemma gd_flatten c : gd c -> gd (flatten_ambig c).
Proof.
  intros H. destruct (is_ambig c) eqn:Ha; [|rewrite flatten_not_ambig; auto].
  apply is_ambig_true in Ha. destruct Ha as (ks & ->).
  change (flatten_ambig (Nd AMBIG ks)) with (Nd AMBIG (flat_map (fun k => if is_ambig k then kids k else [k]) ks)).
  apply gd_Nd in H. destruct H as (Hk & _ & Hne). apply gd_Nd. repeat split; auto.
  - apply Forall_forall. intros k' Hin. apply in_flat_map in Hin. destruct Hin as (k & Hk1 & Hin).
    rewrite Forall_forall in Hk. specialize (Hk _ Hk1).
    destruct (is_ambig k). apply gd_kids in Hk. rewrite Forall_forall in Hk; auto.
    destruct Hin as [<-|[]]; auto.
  - intros _ E. destruct ks as [|k ks]; [apply Hne; auto|]. simpl in E. apply app_eq_nil in E. destruct E as (E & _).
    inversion Hk; subst. destruct (is_ambig k) eqn:Hak; [|discriminate].
    apply is_ambig_true in Hak. destruct Hak as (ks2 & ->). simpl in E. subst.
    apply gd_Nd in H1. destruct H1 as (_ & _ & H1). apply H1; reflexivity.
Qed.

Lemma product_nonempty {A} (ls : list (list A)) : Forall (fun l => l <> []) ls -> product ls <> [].
Proof.
  induction 1 as [|l ls Hl _ IH]; simpl. discriminate.
  destruct l as [|x l]; [congruence|]. simpl. destruct (product ls); [congruence|]. simpl. discriminate.
Qed.

Lemma gd_ae r te cs : names_ok r -> Forall gd cs -> gd (ae te (plain r) cs).
Proof.
  intros Hn H. unfold ae. set (cs1 := map flatten_ambig cs).
  assert (H1 : Forall gd cs1).
  { unfold cs1. clear -H. induction H; simpl; constructor; auto. apply gd_flatten; auto. }
  destruct (ae_any te 0 cs1); [|apply gd_plain; auto].
  apply gd_Nd. repeat split; auto.
  - apply Forall_forall. intros k Hk. apply in_map_iff in Hk. destruct Hk as (f & <- & Hf).
    apply In_product in Hf. apply gd_plain; auto.
    clear -Hf H1. revert Hf. generalize 0. revert f. induction cs1 as [|c cs1 IH]; simpl; intros f i0 Hf;
      inversion Hf as [|a ? f0 ? Ha Hf0]; subst; constructor; inversion H1 as [|? ? Hc Hcs]; subst.
    + destruct (is_ambig c && memn i0 te).
      * apply gd_kids in Hc. rewrite Forall_forall in Hc; auto.
      * destruct Ha as [<-|[]]; auto.
    + eapply IH; eauto.
  - intros _ E. apply map_eq_nil in E. revert E. apply product_nonempty.
    clear -H1. generalize 0. induction H1 as [|c cs1 Hc _ IH]; simpl; intros i0; constructor; auto.
    destruct (is_ambig c && memn i0 te) eqn:Ea; [|discriminate].
    apply andb_true_iff in Ea. destruct Ea as (Ea & _). apply is_ambig_true in Ea. destruct Ea as (ks & ->).
    apply gd_Nd in Hc. simpl. apply Hc. reflexivity.
Qed.

Lemma gd_amb_cb r cs : names_ok r -> (forall l, In l (cil cs) -> Forall gd l) -> gd (amb_cb r cs).
Proof.
  intros Hn H. unfold amb_cb.
  set (f1 := match ae_spec r with [] => plain r | n :: l0 => ae (n :: l0) (plain r) end).
  assert (Hf1 : forall l, Forall gd l -> gd (f1 l)).
  { intros l Hl. unfold f1. destruct (ae_spec r). apply gd_plain; auto. apply gd_ae; auto. }
  destruct cs as [|c0 rest]; simpl. apply Hf1; constructor.
  simpl in H. destruct (is_iambig c0).
  - destruct (ci c0) as [|l0 col]. apply Hf1. apply H; left; auto.
    apply gd_Nd. repeat split; auto; try discriminate.
    apply Forall_forall. intros k Hk. change (In k (map (fun l => f1 (l ++ rest)) (l0 :: col))) in Hk.
    apply in_map_iff in Hk. destruct Hk as (l & <- & Hl). apply Hf1. apply H.
    apply (in_map (fun l => l ++ rest)) in Hl. exact Hl.
  - apply Hf1. apply H; left; auto.
Qed.

Lemma X_call_collapse ts t' :
  X (call_ambig (collapse_ambig ts)) t' <-> exists t, In t ts /\ X t t'.
Proof.
  assert (H : forall data, X (call_ambig data) t' <-> exists k, In k data /\ X k t').
  { intros data. unfold call_ambig. destruct data as [|x [|y data]]; try apply X_ambig.
    split. intros H; exists x; simpl; auto. intros (k & [<-|[]] & H); auto. }
  rewrite H. unfold collapse_ambig. split.
  - intros (k & Hk & Hx). apply in_flat_map in Hk. destruct Hk as (t & Ht & Hk). exists t; split; auto.
    destruct (is_ambig t) eqn:Ha.
    + apply is_ambig_true in Ha. destruct Ha as (ks & ->). apply X_ambig. eauto.
    + destruct Hk as [<-|[]]; auto.
  - intros (t & Ht & Hx). destruct (is_ambig t) eqn:Ha.
    + pose proof Ha as Ha'. apply is_ambig_true in Ha. destruct Ha as (ks & ->). apply X_ambig in Hx. destruct Hx as (k & Hk & Hx).
      exists k; split; auto. apply in_flat_map. exists (Nd AMBIG ks). split; auto.
    + exists t; split; auto. apply in_flat_map. exists t; split; auto. rewrite Ha; simpl; auto.
Qed.

Lemma gd_call_collapse ts : ts <> [] -> Forall gd ts -> gd (call_ambig (collapse_ambig ts)).
Proof.
  intros Hne H.
  assert (H1 : Forall gd (collapse_ambig ts)).
  { unfold collapse_ambig. apply Forall_forall. intros k Hk. apply in_flat_map in Hk. destruct Hk as (t & Ht & Hk).
    rewrite Forall_forall in H. specialize (H _ Ht). destruct (is_ambig t).
    apply gd_kids in H. rewrite Forall_forall in H; auto. destruct Hk as [<-|[]]; auto. }
  assert (H2 : collapse_ambig ts <> []).
  { destruct ts as [|t ts]; [congruence|]. unfold collapse_ambig. simpl. intros E. apply app_eq_nil in E. destruct E as (E & _).
    inversion H as [|? ? Ht Hts]; subst. destruct (is_ambig t) eqn:Ha; [|discriminate].
    apply is_ambig_true in Ha. destruct Ha as (ks & ->). apply gd_Nd in Ht. simpl in E. apply Ht; auto. }
  unfold call_ambig. destruct (collapse_ambig ts) as [|x [|y l]]; try congruence.
  - inversion H1; auto.
  - apply gd_Nd. repeat split; auto; discriminate.
Qed.

(* ------------------------------------------------------------------ forests: induction, unfolding *)
Definition optP (P : node -> Prop) (o : option node) : Prop := match o with Some n => P n | None => True end.

Section NodeInd.
  Variables (P : node -> Prop) (Q : packed -> Prop).
  Hypothesis HT : forall ty v, P (TokN ty v).
  Hypothesis HS : forall l fams, Forall Q fams -> P (SymN l fams).
  Hypothesis HP : forall r lf rt, optP P lf -> optP P rt -> Q (Pack r lf rt).
  Fixpoint node_ind2 (n : node) : P n :=
    match n with
    | TokN ty v => HT ty v
    | SymN l fams =>
        HS l fams ((fix go (fs : list packed) : Forall Q fs :=
                      match fs with [] => Forall_nil _ | p :: r => Forall_cons _ (packed_ind2 p) (go r) end) fams)
    end
  with packed_ind2 (p : packed) : Q p :=
    match p with
    | Pack r lf rt =>
        HP r lf rt
           (match lf as o return optP P o with Some n => node_ind2 n | None => I end)
           (match rt as o return optP P o with Some n => node_ind2 n | None => I end)
    end.
End NodeInd.

Definition prule (p : packed) : xrule := match p with Pack r _ _ => r end.

(* the children list handed to the rule callback / kept as a list under an intermediate parent *)
Definition pchildren (p : packed) : list tree :=
  match p with
  | Pack _ l rt =>
      (match l with Some ln => val_items (tn ln) | None => [] end) ++
      (match rt with Some rn => [val_tree (tn rn)] | None => [] end)
  end.

Lemma tp_eq b p : tp b p = if b then VL (pchildren p) else VT (amb_cb (prule p) (pchildren p)).
Proof. destruct p; reflexivity. Qed.

Lemma tn_SymN l fams :
  tn (SymN l fams) =
    let data := map (tp (lbl_inter l)) fams in
    if lbl_inter l
    then match data with [d] => d | _ => VT (Nd IAMBIG (map (fun c => Nd INTER (val_items c)) data)) end
    else VT (call_ambig (collapse_ambig (map val_tree data))).
Proof. reflexivity. Qed.

Lemma dn_SymN l fams :
  dn (SymN l fams) =
    flat_map (fun p => match l with
                       | LSym _ => map (fun ks => [DNode (prule p) ks]) (dp p)
                       | LInter _ _ => dp p
                       end) fams.
Proof.
  simpl. induction fams as [|p fams IH]; simpl; auto.
Qed.

Lemma dp_eq r l rt :
  dp (Pack r l rt) = app_product (match l with Some ln => dn ln | None => [[]] end)
                                 (match rt with Some rn => dn rn | None => [[]] end).
Proof. reflexivity. Qed.

Lemma wfnb_SymN l fams : wfnb (SymN l fams) = nonnil fams && forallb (wfpb l) fams.
Proof. reflexivity. Qed.

Lemma shape_DNode r ks : shape (DNode r ks) = plain r (map shape ks).
Proof. reflexivity. Qed.

(* boolean equalities *)
Lemma list_eqb_eq {A} (f : A -> A -> bool) : (forall a b, f a b = true -> a = b) ->
  forall a b, list_eqb f a b = true -> a = b.
Proof.
  intros Hf a; induction a as [|x a IH]; intros [|y b] H; simpl in H; try discriminate; auto.
  apply andb_true_iff in H. destruct H as (H1 & H2). f_equal; auto.
Qed.

Lemma esym_eqb_eq a b : esym_eqb a b = true -> a = b.
Proof.
  destruct a, b; unfold esym_eqb; simpl. rewrite !andb_true_iff. intros ((H1 & H2) & H3).
  apply String.eqb_eq in H1. apply Bool.eqb_prop in H2. apply Bool.eqb_prop in H3. congruence.
Qed.

Lemma xrule_eqb_eq a b : xrule_eqb a b = true -> a = b.
Proof.
  destruct a, b; unfold xrule_eqb; simpl. rewrite !andb_true_iff. intros ((((((H1 & H2) & H3) & H4) & H5) & H6) & H7).
  apply String.eqb_eq in H1. apply String.eqb_eq in H2. apply Bool.eqb_prop in H3. apply Bool.eqb_prop in H4.
  apply Bool.eqb_prop in H5. apply (list_eqb_eq _ esym_eqb_eq) in H6. apply (list_eqb_eq _ Bool.eqb_prop) in H7.
  congruence.
Qed.

Lemma rule_okb_names r : rule_okb r = true ->
  names_ok r /\ (starts_us (x_origin r) = true -> esc_on r = false).
Proof.
  unfold rule_okb, names_ok. rewrite !andb_true_iff, !negb_true_iff, orb_true_iff, !negb_true_iff.
  intros ((H1 & H2) & H3). repeat split; auto. intros E. destruct H3; congruence.
Qed.

(* ------------------------------------------------------------------ the invariant *)
Definition POS (r : xrule) (l : list tree) : Prop :=
  forall i, i < length l -> should_expand (nth i (x_exp r) dummy_sym) = true -> A2 (nth i l Nn).

(* a tree tr standing for the derivations dr (each a singleton sequence) *)
Definition TF (tr : tree) (dr : list (list dtree)) : Prop :=
  gd tr /\ (forall t', X tr t' <-> exists d, In [d] dr /\ t' = shape d)
  /\ dr <> [] /\ (forall ds, In ds dr -> exists d, ds = [d]).

(* a children list cs of arity k under rule r standing for the derivation sequences dl *)
Definition LF (r : xrule) (k : nat) (cs : list tree) (dl : list (list dtree)) : Prop :=
  (forall l, In l (cil cs) -> Forall gd l /\ length l = k /\ POS r l) /\
  (forall cs', (exists l, In l (cil cs) /\ XL l cs') <-> exists ds, In ds dl /\ cs' = map shape ds) /\
  dl <> [].

Lemma cil_snoc xs t : xs <> [] -> cil (xs ++ [t]) = map (fun l => l ++ [t]) (cil xs).
Proof.
  destruct xs as [|k0 rest]; [congruence|]. intros _. simpl.
  destruct (is_iambig k0); auto. destruct (ci k0) as [|l0 col]; auto.
  simpl. rewrite map_map, <- app_assoc. f_equal. apply map_ext. intros l. rewrite app_assoc. reflexivity.
Qed.

Lemma cil_single t : is_iambig t = false -> cil [t] = [[t]].
Proof. intros H; simpl; rewrite H; auto. Qed.

Lemma XL_snoc l t cs' : XL (l ++ [t]) cs' <-> exists a b, cs' = a ++ [b] /\ XL l a /\ X t b.
Proof.
  split.
  - intros H. apply Forall2_app_inv_l' in H. destruct H as (a & b & -> & Ha & Hb).
    inversion Hb as [|? y ? ? Hy Hn]; subst. inversion Hn; subst. eauto.
  - intros (a & b & -> & Ha & Hb). apply Forall2_app; auto.
Qed.

Lemma app_product_nonempty {A} (xs ys : list (list A)) : xs <> [] -> ys <> [] -> app_product xs ys <> [].
Proof.
  destruct xs as [|x xs]; [congruence|]. destruct ys as [|y ys]; [congruence|]. intros _ _. simpl. discriminate.
Qed.

Lemma LF_single r tr dr :
  TF tr dr -> (should_expand (nth 0 (x_exp r) dummy_sym) = true -> A2 tr) -> LF r 1 [tr] (app_product [[]] dr).
Proof.
  intros (Hgd & HX & Hne & Hs) HA. unfold LF. rewrite cil_single by (apply gd_not_iambig; auto). repeat split.
  - destruct H as [<-|[]]. constructor; auto.
  - destruct H as [<-|[]]. reflexivity.
  - destruct H as [<-|[]]. intros i Hi Hse. simpl in Hi. assert (i = 0) by lia. subst. simpl. auto.
  - intros (l & [<-|[]] & H). inversion H as [|? t' ? ? Ht Hn]; subst. inversion Hn; subst.
    apply HX in Ht. destruct Ht as (d & Hd & ->). exists [d]. split; auto.
    apply In_app_product. exists [], [d]. simpl; auto.
  - intros (ds & Hds & ->). apply In_app_product in Hds. destruct Hds as (x & y & -> & [<-|[]] & Hy).
    destruct (Hs _ Hy) as (d & ->). exists [tr]. split; [left; auto|]. simpl. constructor; [|constructor].
    apply HX. eauto.
  - apply app_product_nonempty; auto. discriminate.
Qed.

Lemma LF_snoc r k xs dl tr dr :
  LF r k xs dl -> 1 <= k -> TF tr dr -> (should_expand (nth k (x_exp r) dummy_sym) = true -> A2 tr) ->
  LF r (S k) (xs ++ [tr]) (app_product dl dr).
Proof.
  intros (L1 & L2 & L3) Hk (Hgd & HX & Hne & Hs) HA.
  assert (Hxs : xs <> []).
  { intros ->. destruct (L1 [] (or_introl eq_refl)) as (_ & Hl & _). simpl in Hl. lia. }
  unfold LF. rewrite cil_snoc by auto. repeat split.
  - apply in_map_iff in H. destruct H as (l0 & <- & Hl0). apply Forall_app. split. apply L1; auto. constructor; auto.
  - apply in_map_iff in H. destruct H as (l0 & <- & Hl0). rewrite app_length. simpl.
    destruct (L1 _ Hl0) as (_ & -> & _). lia.
  - apply in_map_iff in H. destruct H as (l0 & <- & Hl0). destruct (L1 _ Hl0) as (_ & Hlen & Hpos).
    intros i Hi Hse. rewrite app_length in Hi. simpl in Hi.
    destruct (Nat.lt_ge_cases i (length l0)).
    + rewrite app_nth1 by auto. apply Hpos; auto.
    + assert (i = k) by lia. subst i. rewrite app_nth2 by lia. rewrite Hlen, Nat.sub_diag. simpl. auto.
  - intros (l & Hl & Hx). apply in_map_iff in Hl. destruct Hl as (l0 & <- & Hl0).
    apply XL_snoc in Hx. destruct Hx as (a & b & -> & Ha & Hb).
    destruct (proj1 (L2 a)) as (ds & Hds & ->); eauto.
    apply HX in Hb. destruct Hb as (d & Hd & ->).
    exists (ds ++ [d]). split. apply In_app_product. eauto. rewrite map_app. reflexivity.
  - intros (ds & Hds & ->). apply In_app_product in Hds. destruct Hds as (x & y & -> & Hx & Hy).
    destruct (Hs _ Hy) as (d & ->).
    destruct (proj2 (L2 (map shape x))) as (l0 & Hl0 & Hxl); eauto.
    exists (l0 ++ [tr]). split. apply in_map_iff; eauto.
    rewrite map_app. apply XL_snoc. exists (map shape x), (shape d). repeat split; auto. apply HX; eauto.
  - apply app_product_nonempty; auto.
Qed.

Lemma LF_nil r : LF r 0 [] (app_product [[]] [[]]).
Proof.
  unfold LF. simpl. repeat split.
  - destruct H as [<-|[]]; constructor.
  - destruct H as [<-|[]]; reflexivity.
  - destruct H as [<-|[]]. intros i Hi; simpl in Hi; lia.
  - intros (l & [<-|[]] & H). inversion H; subst. exists []; simpl; auto.
  - intros (ds & [<-|[]] & ->). exists []; split; simpl; auto. constructor.
  - discriminate.
Qed.

(* facts about a node in right-child position *)
Definition NIF (n : node) : Prop := tn n = VT (val_tree (tn n)) /\ TF (val_tree (tn n)) (dn n).

Definition Pn (n : node) : Prop :=
  wfnb n = true ->
  match n with
  | TokN _ _ => NIF n
  | SymN (LSym a) _ => NIF n /\ (starts_us a = true -> A2 (val_tree (tn n)))
  | SymN (LInter r k) _ => LF r k (val_items (tn n)) (dn n)
  end.

Definition arity (l : label) (r : xrule) : nat :=
  match l with LSym _ => length (x_exp r) | LInter _ k => k end.

Definition Qp (p : packed) : Prop :=
  forall l, wfpb l p = true -> LF (prule p) (arity l (prule p)) (pchildren p) (dp p).

Lemma Pn_TokN ty v : Pn (TokN ty v).
Proof.
  intros _. unfold NIF, TF. simpl. repeat split; try discriminate.
  - intros H. apply X_Tk in H. subst. exists (DTok ty v). simpl; auto.
  - intros (d & [E|[]] & ->). inversion E; subst. apply X_Tk; auto.
  - intros ds [<-|[]]. eauto.
Qed.

Lemma right_child_facts s rn :
  Pn rn -> wfnb rn = true -> sym_matches s rn = true ->
  NIF rn /\ (should_expand s = true -> A2 (val_tree (tn rn))).
Proof.
  intros HP Hwf Hm. specialize (HP Hwf). destruct rn as [ty v|[a|r k] fams]; simpl in Hm.
  - split; auto. intros _ Ha. discriminate.
  - destruct HP as (H1 & H2). split; auto. intros Hse. apply H2.
    apply andb_true_iff in Hm. destruct Hm as (_ & Hm). apply String.eqb_eq in Hm. subst.
    unfold should_expand in Hse. apply andb_true_iff in Hse. tauto.
  - discriminate.
Qed.

Lemma Qp_Pack r lf rt : optP Pn lf -> optP Pn rt -> Qp (Pack r lf rt).
Proof.
  intros Hl Hr l Hwf. simpl prule. unfold arity.
  simpl in Hwf. apply andb_true_iff in Hwf. destruct Hwf as (Hwf0 & Hwf).
  apply andb_true_iff in Hwf0. destruct Hwf0 as (Hok & Hlab).
  set (k := match l with LSym _ => length (x_exp r) | LInter _ k0 => k0 end) in *.
  destruct k as [|k'].
  - destruct lf; [discriminate|]. destruct rt; [discriminate|]. simpl pchildren. rewrite dp_eq. apply LF_nil.
  - apply andb_true_iff in Hwf. destruct Hwf as (Hrt & Hlf).
    destruct rt as [rn|]; [|discriminate]. apply andb_true_iff in Hrt. destruct Hrt as (Hm & Hwr).
    simpl in Hr. destruct (right_child_facts _ _ Hr Hwr Hm) as ((Htn & HTF) & HA).
    rewrite dp_eq. destruct k' as [|k''].
    + destruct lf; [discriminate|]. simpl pchildren. apply LF_single; auto.
    + destruct lf as [ln|]; [|discriminate]. apply andb_true_iff in Hlf. destruct Hlf as (Hlab2 & Hwl).
      destruct ln as [|[|r2 k2] fs]; try discriminate.
      apply andb_true_iff in Hlab2. destruct Hlab2 as (Hr2 & Hk2).
      apply xrule_eqb_eq in Hr2. apply Nat.eqb_eq in Hk2. subst r2 k2.
      simpl in Hl. specialize (Hl Hwl). simpl pchildren.
      apply LF_snoc; auto. lia.
Qed.

(* ------------------------------------------------------------------ symbol / intermediate nodes *)
Lemma wfpb_inter_rule r k p : wfpb (LInter r k) p = true -> prule p = r.
Proof.
  destruct p as [r0 lf rt]. simpl. intros H. apply andb_true_iff in H. destruct H as (H1 & _).
  apply andb_true_iff in H1. destruct H1 as (_ & H2). apply andb_true_iff in H2. destruct H2 as (H3 & _).
  apply andb_true_iff in H3. destruct H3 as (H4 & _). apply xrule_eqb_eq in H4. auto.
Qed.

Lemma wfpb_rule_ok l p : wfpb l p = true -> rule_okb (prule p) = true.
Proof.
  destruct p as [r0 lf rt]. simpl. intros H. apply andb_true_iff in H. destruct H as (H1 & _).
  apply andb_true_iff in H1. tauto.
Qed.

Lemma wfpb_sym_origin a p : wfpb (LSym a) p = true -> x_origin (prule p) = a.
Proof.
  destruct p as [r0 lf rt]. simpl. intros H. apply andb_true_iff in H. destruct H as (H1 & _).
  apply andb_true_iff in H1. destruct H1 as (_ & H2). apply String.eqb_eq in H2. auto.
Qed.

Lemma val_items_tp_true p : val_items (tp true p) = pchildren p.
Proof. rewrite tp_eq. reflexivity. Qed.

Lemma cil_iambig_items (xss : list (list tree)) l : xss <> [] ->
  (In l (cil [Nd IAMBIG (map (Nd INTER) xss)]) <-> exists xs, In xs xss /\ In l (cil xs)).
Proof.
  intros Hne.
  assert (Hia : forall x, is_iambig (Nd IAMBIG x) = true) by reflexivity.
  assert (Hci : ci (Nd IAMBIG (map (Nd INTER) xss)) = flat_map cil xss).
  { rewrite ci_Nd. clear. induction xss as [|xs xss IH]; simpl; auto. rewrite IH. reflexivity. }
  unfold cil at 1. rewrite Hia, Hci.
  destruct (flat_map cil xss) as [|l0 col] eqn:E.
  - exfalso. destruct xss as [|xs xss]; [congruence|]. simpl in E. apply app_eq_nil in E. destruct E as (E & _).
    eapply cil_nonempty; eauto.
  - rewrite <- E. rewrite in_map_iff. split.
    + intros (x & <- & Hx). rewrite app_nil_r. apply in_flat_map in Hx. exact Hx.
    + intros Hx. exists l. rewrite app_nil_r. split; auto. apply in_flat_map. exact Hx.
Qed.

Lemma tn_inter_multi lb p1 p2 fams : lbl_inter lb = true ->
  val_items (tn (SymN lb (p1 :: p2 :: fams))) = [Nd IAMBIG (map (Nd INTER) (map pchildren (p1 :: p2 :: fams)))].
Proof.
  intros Hi. rewrite tn_SymN. cbv zeta. rewrite Hi. simpl. rewrite !val_items_tp_true. do 4 f_equal.
  rewrite !map_map. apply map_ext. intros p. rewrite val_items_tp_true. reflexivity.
Qed.

Lemma cil_inter_items lb fams l : lbl_inter lb = true -> fams <> [] ->
  (In l (cil (val_items (tn (SymN lb fams)))) <-> exists p, In p fams /\ In l (cil (pchildren p))).
Proof.
  intros Hi Hne.
  destruct fams as [|p1 [|p2 fams]]; [congruence| |].
  - rewrite tn_SymN. cbv zeta. rewrite Hi. simpl map. cbv iota. rewrite val_items_tp_true. split.
    + intros H; exists p1; split; simpl; auto.
    + intros (p & [<-|[]] & H); auto.
  - rewrite tn_inter_multi by auto. rewrite cil_iambig_items by discriminate. split.
    + intros (xs & Hxs & Hl). apply in_map_iff in Hxs. destruct Hxs as (p & <- & Hp). eauto.
    + intros (p & Hp & Hl). exists (pchildren p). split; auto. apply in_map; auto.
Qed.

Lemma Pn_SymN l fams : Forall Qp fams -> Pn (SymN l fams).
Proof.
  intros HQ Hwf. rewrite wfnb_SymN in Hwf. apply andb_true_iff in Hwf. destruct Hwf as (Hnn & Hwf).
  rewrite forallb_forall in Hwf. rewrite Forall_forall in HQ.
  assert (Hne : fams <> []) by (destruct fams; [discriminate | congruence]).
  destruct l as [a|r k].
  - (* symbol node *)
    assert (Htn : tn (SymN (LSym a) fams)
                  = VT (call_ambig (collapse_ambig (map (fun p => amb_cb (prule p) (pchildren p)) fams)))).
    { rewrite tn_SymN. cbv zeta. simpl lbl_inter. cbv iota. rewrite map_map. do 3 f_equal.
      apply map_ext. intros p. rewrite tp_eq. reflexivity. }
    set (ts := map (fun p => amb_cb (prule p) (pchildren p)) fams) in *.
    assert (HLF : forall p, In p fams -> LF (prule p) (length (x_exp (prule p))) (pchildren p) (dp p)).
    { intros p Hp. apply (HQ p Hp (LSym a)). auto. }
    assert (Hnames : forall p, In p fams -> names_ok (prule p) /\ (starts_us a = true -> esc_on (prule p) = false)).
    { intros p Hp. pose proof (wfpb_rule_ok _ _ (Hwf p Hp)) as Hok. apply rule_okb_names in Hok.
      rewrite (wfpb_sym_origin _ _ (Hwf p Hp)) in Hok. auto. }
    assert (Hgd : Forall gd ts).
    { apply Forall_forall. intros t Ht. apply in_map_iff in Ht. destruct Ht as (p & <- & Hp).
      apply gd_amb_cb. apply Hnames; auto. intros l0 Hl0. apply (HLF p Hp); auto. }
    assert (HX : forall p t', In p fams ->
              (X (amb_cb (prule p) (pchildren p)) t' <-> exists ds, In ds (dp p) /\ t' = shape (DNode (prule p) ds))).
    { intros p t' Hp. destruct (HLF p Hp) as (L1 & L2 & L3).
      rewrite amb_cb_X.
      - split.
        + intros (l0 & l' & Hl0 & Hxl & ->). destruct (proj1 (L2 l')) as (ds & Hds & ->); eauto.
        + intros (ds & Hds & ->). destruct (proj2 (L2 (map shape ds))) as (l0 & Hl0 & Hxl); eauto.
      - apply Hnames; auto.
      - intros l0 Hl0. destruct (L1 _ Hl0) as (G & Hlen & Hpos). split. apply Forall_gd_ne; auto.
        intros i Hi. apply inlined_props in Hi. destruct Hi as (Hi1 & Hi2 & _). apply Hpos; auto. lia. }
    split.
    + unfold NIF. rewrite Htn. simpl val_tree. split; auto. unfold TF. repeat split.
      * apply gd_call_collapse; auto. unfold ts. destruct fams; [congruence|discriminate].
      * intros H. apply X_call_collapse in H. destruct H as (t & Ht & Hx). apply in_map_iff in Ht.
        destruct Ht as (p & <- & Hp). apply HX in Hx; auto. destruct Hx as (ds & Hds & ->).
        exists (DNode (prule p) ds). split; auto. rewrite dn_SymN. apply in_flat_map. exists p; split; auto.
        apply in_map_iff. eauto.
      * intros (d & Hd & ->). rewrite dn_SymN in Hd. apply in_flat_map in Hd. destruct Hd as (p & Hp & Hd).
        apply in_map_iff in Hd. destruct Hd as (ds & E & Hds). inversion E; subst.
        apply X_call_collapse. exists (amb_cb (prule p) (pchildren p)). split. apply in_map_iff; eauto.
        apply HX; eauto.
      * rewrite dn_SymN. destruct fams as [|p fams]; [congruence|]. simpl. intros E. apply app_eq_nil in E. destruct E as (E & _).
        apply map_eq_nil in E. destruct (HLF p (or_introl eq_refl)) as (_ & _ & L3). auto.
      * intros ds Hds. rewrite dn_SymN in Hds. apply in_flat_map in Hds. destruct Hds as (p & Hp & Hd).
        apply in_map_iff in Hd. destruct Hd as (ks & <- & _). eauto.
    + (* depth of nested _ambig for inlined symbols *)
      intros Hus. rewrite Htn. simpl val_tree.
      assert (HA2 : Forall A2 ts).
      { apply Forall_forall. intros t Ht. apply in_map_iff in Ht. destruct Ht as (p & <- & Hp).
        destruct (Hnames p Hp) as ((Hn1 & _) & Hesc). specialize (Hesc Hus).
        assert (Hplain : forall l0, A0 (plain (prule p) l0)).
        { intros l0. unfold plain. rewrite Hesc. unfold A0. rewrite is_ambig_Nd. auto. }
        assert (Hf1 : forall l0, A1 (match ae_spec (prule p) with [] => plain (prule p) | n :: l1 => ae (n :: l1) (plain (prule p)) end l0)).
        { intros l0. destruct (ae_spec (prule p)). apply A0_A1; auto.
          unfold ae. destruct (ae_any _ _ _). intros _. simpl. apply Forall_forall. intros x Hx.
          apply in_map_iff in Hx. destruct Hx as (f & <- & _). auto. apply A0_A1; auto. }
        unfold amb_cb, aie. destruct (pchildren p) as [|c0 rest]. apply A1_A2; auto.
        destruct (is_iambig c0); [|apply A1_A2; auto].
        destruct (ci c0) as [|l0 col]; [apply A1_A2; auto|].
        intros _. simpl. constructor; auto. apply Forall_forall. intros x Hx. apply in_map_iff in Hx.
        destruct Hx as (f & <- & _). auto. }
      assert (HA1 : Forall A1 (collapse_ambig ts)).
      { unfold collapse_ambig. apply Forall_forall. intros x Hx. apply in_flat_map in Hx. destruct Hx as (t & Ht & Hx).
        rewrite Forall_forall in HA2. specialize (HA2 _ Ht). destruct (is_ambig t) eqn:Ha.
        - specialize (HA2 Ha). rewrite Forall_forall in HA2; auto.
        - destruct Hx as [<-|[]]. apply A0_A1; auto. }
      unfold call_ambig. destruct (collapse_ambig ts) as [|x [|y rest]].
      * intros _; constructor.
      * inversion HA1; subst. apply A1_A2; auto.
      * intros _. simpl. auto.
  - (* intermediate node *)
    assert (HLF : forall p, In p fams -> LF r k (pchildren p) (dp p)).
    { intros p Hp. pose proof (HQ p Hp (LInter r k) (Hwf p Hp)) as H.
      rewrite (wfpb_inter_rule _ _ _ (Hwf p Hp)) in H. exact H. }
    assert (Hcil : forall l0, In l0 (cil (val_items (tn (SymN (LInter r k) fams))))
                              <-> exists p, In p fams /\ In l0 (cil (pchildren p))).
    { intros l0. apply cil_inter_items; auto. }
    unfold LF. repeat split.
    + apply Hcil in H. destruct H as (p & Hp & Hl). apply (HLF p Hp); auto.
    + apply Hcil in H. destruct H as (p & Hp & Hl). apply (HLF p Hp); auto.
    + apply Hcil in H. destruct H as (p & Hp & Hl). apply (HLF p Hp); auto.
    + intros (l0 & Hl0 & Hx). apply Hcil in Hl0. destruct Hl0 as (p & Hp & Hl).
      destruct (HLF p Hp) as (_ & L2 & _). destruct (proj1 (L2 cs')) as (ds & Hds & ->); eauto.
      exists ds; split; auto. rewrite dn_SymN. apply in_flat_map. eauto.
    + intros (ds & Hds & ->). rewrite dn_SymN in Hds. apply in_flat_map in Hds. destruct Hds as (p & Hp & Hds).
      destruct (HLF p Hp) as (_ & L2 & _). destruct (proj2 (L2 (map shape ds))) as (l0 & Hl0 & Hx); eauto.
      exists l0; split; auto. apply Hcil. eauto.
    + rewrite dn_SymN. destruct fams as [|p fams]; [congruence|]. simpl. intros E. apply app_eq_nil in E. destruct E as (E & _).
      destruct (HLF p (or_introl eq_refl)) as (_ & _ & L3). auto.
Qed.

Theorem Pn_all n : Pn n.
Proof.
  apply (node_ind2 Pn Qp). apply Pn_TokN. apply Pn_SymN. apply Qp_Pack.
Qed.

(* ------------------------------------------------------------------ layer B: the theorems *)
Lemma root_okb_sym n : root_okb n = true -> exists a fams, n = SymN (LSym a) fams /\ wfnb n = true.
Proof. destruct n as [|[a|] fams]; simpl; try discriminate. eauto. Qed.

Lemma root_NIF n : root_okb n = true -> NIF n.
Proof.
  intros H. destruct (root_okb_sym n H) as (a & fams & -> & Hwf). apply (Pn_all _ Hwf).
Qed.

Lemma In_derivs n d : (forall ds, In ds (dn n) -> exists d0, ds = [d0]) -> (In d (derivs n) <-> In [d] (dn n)).
Proof.
  intros Hs. unfold derivs. rewrite in_concat. split.
  - intros (ds & Hds & Hd). destruct (Hs _ Hds) as (d0 & ->). destruct Hd as [<-|[]]. auto.
  - intros H. exists [d]; simpl; auto.
Qed.

Theorem B_expand_exact n : root_okb n = true ->
  forall t, In t (expand (to_tree_explicit n)) <-> In t (map shape (derivs n)).
Proof.
  intros H t. destruct (root_NIF n H) as (_ & (_ & HX & _ & Hs)). unfold to_tree_explicit.
  change (In t (expand (val_tree (tn n)))) with (X (val_tree (tn n)) t). rewrite HX, in_map_iff. split.
  - intros (d & Hd & ->). exists d; split; auto. apply In_derivs; auto.
  - intros (d & <- & Hd). exists d; split; auto. apply In_derivs; auto.
Qed.

(* the explicit tree has no '_iambig' left and no '_ambig' without alternatives; the forest has a derivation *)
Theorem B_tree_tidy n : root_okb n = true -> gdb (to_tree_explicit n) = true /\ derivs n <> [].
Proof.
  intros H. destruct (root_NIF n H) as (_ & (Hgd & _ & Hne & Hs)). split. exact Hgd.
  destruct (dn n) as [|ds dl] eqn:E; [congruence|]. destruct (Hs ds (or_introl eq_refl)) as (d & ->).
  unfold derivs. rewrite E. simpl. discriminate.
Qed.

(* CollapseAmbiguities *)
Fixpoint cl (isamb : bool) (rs : list (res (list tree))) : res (list (list tree)) :=
  match rs with
  | [] => Ok []
  | r :: rest =>
      rbind r (fun a =>
        match a with
        | [] => if isamb then rbind (cl isamb rest) (fun b => Ok (a :: b)) else AssertFail
        | _ => rbind (cl isamb rest) (fun b => Ok (a :: b))
        end)
  end.

Lemma collapse_Nd d ks :
  collapse (Nd d ks) =
    rbind (cl (String.eqb d AMBIG) (map collapse ks))
          (fun ls => if String.eqb d AMBIG then Ok (List.concat ls) else Ok (map (Nd d) (product ls))).
Proof.
  simpl. f_equal. induction ks as [|k ks IH]; simpl; auto. rewrite IH. reflexivity.
Qed.

Lemma cl_ok isamb ks ls :
  Forall (fun k => forall l, collapse k = Ok l -> l = expand k) ks ->
  cl isamb (map collapse ks) = Ok ls -> ls = map expand ks.
Proof.
  intros H; revert ls; induction H as [|k ks Hk _ IH]; simpl; intros ls E.
  - inversion E; auto.
  - destruct (collapse k) as [a| |] eqn:Ek; simpl in E; try discriminate.
    rewrite (Hk a eq_refl) in *.
    assert (E' : rbind (cl isamb (map collapse ks)) (fun b => Ok (expand k :: b)) = Ok ls).
    { destruct (expand k); auto. destruct isamb; auto. discriminate. }
    destruct (cl isamb (map collapse ks)) as [b| |]; simpl in E'; try discriminate.
    inversion E'; subst. f_equal. apply IH; auto.
Qed.

Theorem collapse_ok_is_expand t l : collapse t = Ok l -> l = expand t.
Proof.
  revert l. induction t as [ty v| |d ks IH] using tree_ind2; intros l E.
  - inversion E; auto. - inversion E; auto.
  - rewrite collapse_Nd in E. destruct (cl (String.eqb d AMBIG) (map collapse ks)) as [ls| |] eqn:Ec; simpl in E; try discriminate.
    apply cl_ok in Ec; auto. subst ls. rewrite expand_Nd. destruct (String.eqb d AMBIG); inversion E; auto.
Qed.

Lemma inh_expand_nonempty t : inh t -> expand t <> [].
Proof. intros (t' & H) E. unfold X in H. rewrite E in H. destruct H. Qed.

Theorem collapse_total t : noempty t = true -> collapse t = Ok (expand t).
Proof.
  induction t as [ty v| |d ks IH] using tree_ind2; intros Hne; auto.
  rewrite collapse_Nd, expand_Nd. pose proof (ne_kids _ _ Hne) as Hk.
  assert (E : cl (String.eqb d AMBIG) (map collapse ks) = Ok (map expand ks)).
  { clear Hne. induction IH as [|k ks Hk1 _ IH2]; simpl; auto. inversion Hk; subst.
    rewrite (Hk1 H1). simpl. rewrite (IH2 H2). simpl.
    destruct (expand k) eqn:Ek; auto. exfalso. apply (inh_expand_nonempty k); auto. apply ne_inh; auto. }
  rewrite E. simpl. destruct (String.eqb d AMBIG); auto.
Qed.

Theorem collapse_explicit n : root_okb n = true ->
  collapse (to_tree_explicit n) = Ok (expand (to_tree_explicit n)).
Proof.
  intros H. apply collapse_total. apply gd_ne. apply B_tree_tidy; auto.
Qed.

(* F6 / F6b: the utility as it was in the snapshot fails on None placeholders (witness trees are the explicit
   trees of  start: [A] b / b: A? "c"  on "ac"  and of  start: q A / ?q: [A] | b / b: B*  on "a") *)
Definition f6_tree : tree :=
  Nd AMBIG [Nd "start" [Tk "A" "a"; Nd "b" []]; Nd "start" [Nn; Nd "b" [Tk "A" "a"]]].
Definition f6b_tree : tree :=
  Nd "start" [Nd AMBIG [Nd "b" []; Nn]; Tk "A" "a"].

Theorem collapse_none_refuted :
  collapse_old false false f6_tree = AssertFail
  /\ expand f6_tree = [Nd "start" [Tk "A" "a"; Nd "b" []]; Nd "start" [Nn; Nd "b" [Tk "A" "a"]]]
  /\ collapse_old true false f6b_tree = AssertFail
  /\ expand f6b_tree = [Nd "start" [Nd "b" []; Tk "A" "a"]; Nd "start" [Nn; Tk "A" "a"]]
  /\ collapse f6_tree = Ok (expand f6_tree) /\ collapse f6b_tree = Ok (expand f6b_tree).
Proof. repeat split; vm_compute; reflexivity. Qed.
