(* Re/Lang.v - meaning of the regular expressions of Re/Syntax.v.

   lang r w        declarative: the word w (a list of code points) is in the language of r.
   bt r s k        executable backtracking matcher in continuation-passing style, in the order of
                   Python's `re` (sre): the left alternative first, quantifiers greedy, and on failure
                   of the continuation the most recent choice is revised first.
   bt_match r s    = the end offset of THE match `re.compile(show r).match(s)` returns (None: no match)
   bt_fullmatch    = `re.fullmatch` (the continuation accepts only the end of the input, so the
                     engine backtracks into shorter/other alternatives until the whole input is used).

   Quantifier loop (sre MAX_UNTIL / REPEAT_ONE): the first `qmin` iterations are mandatory and may be
   empty; every further iteration is tried before the tail ("greedy") and must consume at least one
   character (sre's zero-width protection: an empty extra iteration leads to the same tail call as no
   iteration at all, so it is dropped here).  Hence structural recursion suffices: the mandatory part
   recurses on the count, the optional part on a bound (m - n for {n,m}, the length of the remaining
   input for * and +).

   Model file: definitions only.  Stdlib only, no global scopes. *)
From Coq Require Import List Bool Arith.
From LV Require Import Re.Syntax.
Import ListNotations.

(* ------------------------------------------------------------------ declarative semantics *)
Fixpoint rpow (L : list nat -> Prop) (k : nat) (w : list nat) : Prop :=
  match k with
  | 0 => w = []
  | S k' => exists u v, w = u ++ v /\ L u /\ rpow L k' v
  end.

Definition quant_ok (q : quant) (k : nat) : Prop :=
  qmin q <= k /\ match qextra q with None => True | Some e => k <= qmin q + e end.

Fixpoint lang (r : re) (w : list nat) : Prop :=
  match r with
  | Eps => w = []
  | Chr c => w = [c]
  | Cls neg rs => exists c, w = [c] /\ cls_mem neg rs c = true
  | Dot => exists c, w = [c] /\ c <> NEWLINE
  | Cat a b => exists u v, w = u ++ v /\ lang a u /\ lang b v
  | Alt a b => lang a w \/ lang b w
  | Grp a => lang a w
  | Quant a q => exists k, quant_ok q k /\ rpow (lang a) k w
  end.

(* ------------------------------------------------------------------ backtracking matcher *)
Definition orelse {A} (a b : option A) : option A :=
  match a with Some x => Some x | None => b end.

Section Matcher.
Context {A : Type}.

Section Loops.
  (* step s k: match one iteration of the body at s and continue with k *)
  Variable step : list nat -> (list nat -> option A) -> option A.

  Fixpoint mand (n : nat) (s : list nat) (k : list nat -> option A) : option A :=
    match n with
    | 0 => k s
    | S n' => step s (fun s' => mand n' s' k)
    end.

  Fixpoint oloop (n : nat) (s : list nat) (k : list nat -> option A) : option A :=
    match n with
    | 0 => k s
    | S n' =>
        orelse (step s (fun s' => if length s' <? length s then oloop n' s' k else None))
               (k s)
    end.
End Loops.

Fixpoint bt (r : re) (s : list nat) (k : list nat -> option A) {struct r} : option A :=
  match r with
  | Eps => k s
  | Chr c => match s with x :: s' => if x =? c then k s' else None | [] => None end
  | Cls neg rs => match s with x :: s' => if cls_mem neg rs x then k s' else None | [] => None end
  | Dot => match s with x :: s' => if x =? NEWLINE then None else k s' | [] => None end
  | Cat a b => bt a s (fun s' => bt b s' k)
  | Alt a b => orelse (bt a s k) (bt b s k)
  | Grp a => bt a s k
  | Quant a q =>
      mand (bt a) (qmin q) s
           (fun s' => oloop (bt a) (match qextra q with None => length s' | Some e => e end) s' k)
  end.
End Matcher.

(* re.match: offset of the end of the match *)
Definition bt_match (r : re) (s : list nat) : option nat :=
  bt r s (fun rest => Some (length s - length rest)).

(* re.fullmatch *)
Definition bt_fullmatch (r : re) (s : list nat) : bool :=
  match bt r s (fun rest => match rest with [] => Some tt | _ => None end) with
  | Some _ => true
  | None => false
  end.
