(* Re/Syntax.v - abstract syntax of the regular expressions that lark itself produces from terminal
   definitions (lark/load_grammar.py TerminalTreeToPattern, lark/lexer.py PatternStr/PatternRE.to_regexp),
   and the printer that gives their concrete Python `re` syntax.

   Characters are code points (nat).  The class is what TerminalTreeToPattern can build out of
     - string literals               re.escape(s): a concatenation of (escaped) characters
     - "a".."z" ranges and the small class of user regexps that is self-delimiting:
       [a-z0-9], [^...], .          Cls / Dot
     - expansion                     concatenation of the item strings
     - expansions                    (?:a|b|c)          Grp (Alt a (Alt b c))
     - expr                          (?:x)? (?:x)* (?:x)+ (?:x){n} (?:x){n,m}     Quant (Grp x) q
   Grp is the non-capturing group "(?:" ... ")": it has no meaning of its own, it only records where
   lark puts brackets, so that `show` can reproduce lark's string exactly.

   Model file: definitions only (proofs in *_proofs.v).  Stdlib only, no global scopes. *)
From Coq Require Import List Bool Arith String Ascii NArith DecimalString.
Import ListNotations.

(* greedy quantifiers; QExact n is "{n}", QRange n m is "{n,m}" *)
Inductive quant :=
| QOpt | QStar | QPlus
| QExact (n : nat)
| QRange (n m : nat).

Inductive re :=
| Eps                                       (* the empty regexp *)
| Chr (c : nat)                             (* one literal character (printed escaped if special) *)
| Cls (neg : bool) (rs : list (nat * nat))  (* [a-bc-d] / [^a-bc-d] : inclusive code point ranges *)
| Dot                                       (* . : any character but newline (no DOTALL) *)
| Cat (a b : re)
| Alt (a b : re)                            (* a|b : a is tried first *)
| Grp (a : re)                              (* (?:a) *)
| Quant (a : re) (q : quant).               (* a? a* a+ a{n} a{n,m}, greedy *)

(* least number of iterations, and how many more are allowed (None = unbounded).
   {n,m} with m < n never reaches a regexp (lark raises GrammarError first); here it counts as {n}. *)
Definition qmin (q : quant) : nat :=
  match q with QOpt => 0 | QStar => 0 | QPlus => 1 | QExact n => n | QRange n _ => n end.

Definition qextra (q : quant) : option nat :=
  match q with
  | QOpt => Some 1 | QStar => None | QPlus => None
  | QExact _ => Some 0 | QRange n m => Some (m - n)
  end.

Definition in_range (c : nat) (p : nat * nat) : bool := (fst p <=? c) && (c <=? snd p).

Definition cls_mem (neg : bool) (rs : list (nat * nat)) (c : nat) : bool :=
  xorb neg (existsb (in_range c) rs).

Definition NEWLINE : nat := 10.

(* ------------------------------------------------------------------ builders *)
Definition seq_re (l : list re) : re := fold_right Cat Eps l.

(* a|b|c, first alternative first; '|'.join([]) is the empty regexp *)
Fixpoint alt_re (l : list re) : re :=
  match l with
  | [] => Eps
  | [a] => a
  | a :: l' => Alt a (alt_re l')
  end.

Fixpoint codes (s : string) : list nat :=
  match s with
  | EmptyString => []
  | String a s' => nat_of_ascii a :: codes s'
  end.

(* the regexp of a string literal: its characters one after the other *)
Definition lit_re (s : string) : re := seq_re (map Chr (codes s)).

(* ------------------------------------------------------------------ printer *)
(* Python's re.escape: re._special_chars_map = ()[]{}?*+-|^$\.&~# \t\n\r\v\f *)
Definition special_codes : list nat :=
  [40; 41; 91; 93; 123; 125; 63; 42; 43; 45; 124; 94; 36; 92; 46; 38; 126; 35; 32; 9; 10; 13; 11; 12].

Definition is_special (c : nat) : bool := existsb (Nat.eqb c) special_codes.

Definition chr_string (c : nat) : string := String (ascii_of_nat c) EmptyString.

Definition esc_char (c : nat) : string :=
  if is_special c then String "\"%char (chr_string c) else chr_string c.

Fixpoint re_escape (s : string) : string :=
  match s with
  | EmptyString => EmptyString
  | String a s' => append (esc_char (nat_of_ascii a)) (re_escape s')
  end.

Definition dec (n : nat) : string := NilEmpty.string_of_uint (Nat.to_uint n).

Definition show_quant (q : quant) : string :=
  match q with
  | QOpt => "?" | QStar => "*" | QPlus => "+"
  | QExact n => append "{" (append (dec n) "}")
  | QRange n m => append "{" (append (dec n) (append "," (append (dec m) "}")))
  end.

Definition show_range (p : nat * nat) : string :=
  append (chr_string (fst p)) (append "-" (chr_string (snd p))).

Definition show_cls (neg : bool) (rs : list (nat * nat)) : string :=
  append "[" (append (if neg then "^" else "") (append (String.concat "" (map show_range rs)) "]")).

Fixpoint show (r : re) : string :=
  match r with
  | Eps => ""
  | Chr c => esc_char c
  | Cls neg rs => show_cls neg rs
  | Dot => "."
  | Cat a b => append (show a) (show b)
  | Alt a b => append (show a) (append "|" (show b))
  | Grp a => append "(?:" (append (show a) ")")
  | Quant a q => append (show a) (show_quant q)
  end.

(* `show r` reads back as r in regexp syntax when brackets are where precedence needs them:
   no bare alternation under a concatenation or a quantifier, quantifiers on a single atom. *)
Definition is_atom (r : re) : bool :=
  match r with Chr _ | Cls _ _ | Dot | Grp _ => true | _ => false end.

Definition no_bare_alt (r : re) : bool :=
  match r with Alt _ _ => false | _ => true end.

Fixpoint bracketed (r : re) : bool :=
  match r with
  | Eps | Chr _ | Dot => true
  | Cls _ rs => true
  | Cat a b => no_bare_alt a && no_bare_alt b && bracketed a && bracketed b
  | Alt a b => bracketed a && bracketed b
  | Grp a => bracketed a
  | Quant a q => is_atom a && bracketed a
  end.
