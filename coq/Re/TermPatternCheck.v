(* Re/TermPatternCheck.v - comparison helpers for the harness (C09 stream terminal-model).
   A case records, for one terminal definition of a grammar lark compiled:
     the terminal tree (as load_grammar delivers it, literals evaluated),
     the kind / value / to_regexp() / min_width / max_width of the Pattern lark built,
     and for some inputs the end of re.match and the verdict of re.fullmatch on that regexp.
   The check functions say whether the model reproduces each group of observations. *)
From Coq Require Import List Bool Arith String Ascii NArith.
From LV Require Import Re.Syntax Re.Lang Re.Width Re.TermPattern.
Import ListNotations.

Definition onat_eqb (a b : option nat) : bool :=
  match a, b with
  | Some x, Some y => Nat.eqb x y
  | None, None => true
  | _, _ => false
  end.

Definition obs : Type := (bool * string * string * N * N)%type.       (* is PatternStr, value, regexp, min, max *)
Definition probe : Type := (string * option nat * bool)%type.          (* input, re.match end, re.fullmatch *)
Definition tcase : Type := (ttree * obs * list probe)%type.

(* kind, value and regexp string; and the string is the printed AST *)
Definition check_string (c : tcase) : bool :=
  let '(t, (isstr, value, rx, _, _), _) := c in
  let p := compile t in
  ranges_ok t && Bool.eqb (p_str p) isstr && String.eqb (p_value p) value && String.eqb (to_regexp p) rx
  && String.eqb (show (p_re p)) rx && bracketed (p_re p).

Definition check_width (c : tcase) : bool :=
  let '(t, (_, _, _, mn, mx), _) := c in
  let w := p_width (compile t) in
  N.eqb (fst w) mn && N.eqb (snd w) mx.

Definition check_probe (r : re) (p : probe) : bool :=
  let '(s, e, f) := p in
  onat_eqb (bt_match r (codes s)) e && Bool.eqb (bt_fullmatch r (codes s)) f.

Definition check_match (c : tcase) : bool :=
  let '(t, _, probes) := c in
  forallb (check_probe (p_re (compile t))) probes.

Definition check_all (c : tcase) : bool := check_string c && check_width c && check_match c.

(* a definition with a bad range: lark raises GrammarError *)
Definition check_bad_range (t : ttree) : bool := negb (ranges_ok t).
