(* Re/TermPattern.v - model of lark/load_grammar.py TerminalTreeToPattern (after PrepareLiterals):
   from the tree of a terminal definition to the Pattern object lark builds, i.e. its kind
   (PatternStr / PatternRE), its `value`, the string `to_regexp()` returns - and, next to it, the regexp
   AST (Re/Syntax.v) that string denotes.  Flags are outside the model (all patterns flag-free), user
   regexps are the self-delimiting class [..] / [^..] / . only.

   The format strings, separators and the sort key of the alternatives come from Gen/RegexHoles.v
   (regenerated from the source on every run).  Model file: definitions only. *)
From Coq Require Import List Bool Arith String Ascii ZArith NArith.
From LV Require Import Re.Syntax Re.Lang Re.Width Gen.RegexHoles.
Import ListNotations.

(* operator of an `expr` node: OP token ? * +, or ~ n, or ~ n..m  (`maybe` = [x] is expr with ?) *)
Inductive top := OpOpt | OpStar | OpPlus | OpExact (n : nat) | OpRange (n m : nat).

Inductive ttree :=
| TStr (s : string)                               (* pattern[PatternStr(s)] : a string literal *)
| TRange (a b : ascii)                            (* "a".."b"  ->  PatternRE('[a-b]') *)
| TCls (neg : bool) (rs : list (ascii * ascii))   (* user regexp /[a-bc-d]/ or /[^a-bc-d]/ *)
| TDot                                            (* user regexp /./ *)
| TSeq (l : list ttree)                           (* expansion *)
| TAlt (l : list ttree)                           (* expansions *)
| TOp (t : ttree) (op : top).                     (* expr / maybe *)

(* a compiled Pattern, with the AST of its regexp next to it *)
Record pat := mkPat {
  p_str : bool;        (* PatternStr (true) or PatternRE (false) *)
  p_value : string;    (* Pattern.value *)
  p_re : re }.

(* PatternStr.to_regexp = re.escape(value); PatternRE.to_regexp = value   (no flags) *)
Definition to_regexp (p : pat) : string :=
  if p_str p then re_escape (p_value p) else p_value p.

(* min_width / max_width: len(value) for PatternStr, get_regexp_width(to_regexp()) for PatternRE *)
Definition p_width (p : pat) : N * N :=
  if p_str p then (N.of_nat (String.length (p_value p)), N.of_nat (String.length (p_value p)))
  else width (p_re p).

(* Python's `fmt % args` for a format split at its conversions *)
Fixpoint fmt (pieces : list string) (args : list string) : string :=
  match pieces with
  | [] => EmptyString
  | p :: ps => match args with
               | [] => append p (fmt ps [])
               | a :: args' => append p (append a (fmt ps args'))
               end
  end.

(* sep.join(l) *)
Fixpoint join (sep : string) (l : list string) : string :=
  match l with
  | [] => EmptyString
  | [x] => x
  | x :: l' => append x (append sep (join sep l'))
  end.

(* ---- expansions: exps.sort(key=...) is a stable sort on the regenerated key ---- *)
Definition pat_key (p : pat) : list Z :=
  alt_sort_key (Z.of_N (snd (p_width p))) (Z.of_N (fst (p_width p))) (Z.of_nat (String.length (p_value p))).

Fixpoint zlist_ltb (a b : list Z) : bool :=     (* tuple comparison a < b *)
  match a, b with
  | [], [] => false
  | [], _ :: _ => true
  | _ :: _, [] => false
  | x :: a', y :: b' => if Z.ltb x y then true else if Z.eqb x y then zlist_ltb a' b' else false
  end.

(* x was before every element of l: it stays before the first element whose key is not smaller *)
Fixpoint insert_stable (x : pat) (l : list pat) : list pat :=
  match l with
  | [] => [x]
  | y :: l' => if zlist_ltb (pat_key y) (pat_key x) then y :: insert_stable x l' else x :: l
  end.

Definition sort_alts (l : list pat) : list pat := fold_right insert_stable [] l.

(* ---- the callbacks ---- *)
Definition t_expansion (items : list pat) : pat :=
  match items with
  | [] => mkPat true "" Eps
  | [p] => p
  | _ => mkPat false (join cat_sep (map to_regexp items)) (seq_re (map p_re items))
  end.

Definition t_expansions (exps : list pat) : pat :=
  match exps with
  | [p] => p
  | _ => let s := sort_alts exps in
         mkPat false (fmt alt_fmt [join alt_sep (map to_regexp s)]) (Grp (alt_re (map p_re s)))
  end.

Definition op_string (op : top) : string :=
  match op with
  | OpOpt => maybe_op | OpStar => "*" | OpPlus => "+"
  | OpExact n => fmt exact_fmt [dec n]
  | OpRange n m => fmt range_fmt [dec n; dec m]
  end.

Definition op_quant (op : top) : quant :=
  match op with
  | OpOpt => QOpt | OpStar => QStar | OpPlus => QPlus
  | OpExact n => QExact n | OpRange n m => QRange n m
  end.

Definition t_expr (inner : pat) (op : top) : pat :=
  mkPat false (fmt expr_fmt [to_regexp inner; op_string op]) (Quant (Grp (p_re inner)) (op_quant op)).

Definition arange (p : ascii * ascii) : nat * nat := (nat_of_ascii (fst p), nat_of_ascii (snd p)).
Definition a_string (a : ascii) : string := String a EmptyString.

Definition cls_string (neg : bool) (rs : list (ascii * ascii)) : string :=
  show_cls neg (map arange rs).

Fixpoint compile (t : ttree) : pat :=
  match t with
  | TStr s => mkPat true s (lit_re s)
  | TRange a b => mkPat false (fmt chr_range_fmt [a_string a; a_string b]) (Cls false [arange (a, b)])
  | TCls neg rs => mkPat false (cls_string neg rs) (Cls neg (map arange rs))
  | TDot => mkPat false "." Dot
  | TSeq l => t_expansion (map compile l)
  | TAlt l => t_expansions (map compile l)
  | TOp t' op => t_expr (compile t') op
  end.

(* expr raises GrammarError("Bad Range") when mx < mn *)
Definition op_ok (op : top) : bool :=
  match op with OpRange n m => n <=? m | _ => true end.

Fixpoint ranges_ok (t : ttree) : bool :=
  match t with
  | TSeq l | TAlt l => forallb ranges_ok l
  | TOp t' op => op_ok op && ranges_ok t'
  | _ => true
  end.

(* what a terminal definition denotes by the documented meaning of the operators: juxtaposition =
   concatenation, | = union, ? * + ~n ~n..m = that many consecutive occurrences *)
Definition top_ok (op : top) (k : nat) : Prop :=
  match op with
  | OpOpt => k <= 1 | OpStar => True | OpPlus => 1 <= k
  | OpExact n => k = n | OpRange n m => n <= k <= m
  end.

(* concatenation of one word from each language of the list *)
Fixpoint lcat (Ls : list (list nat -> Prop)) (w : list nat) : Prop :=
  match Ls with
  | [] => w = []
  | L :: Ls' => exists u v, w = u ++ v /\ L u /\ lcat Ls' v
  end.


(* the documented meaning of a terminal definition *)
Fixpoint tden (t : ttree) (w : list nat) : Prop :=
  match t with
  | TStr s => w = codes s
  | TRange a b => exists c, w = [c] /\ nat_of_ascii a <= c <= nat_of_ascii b
  | TCls neg rs => exists c, w = [c] /\ cls_mem neg (map arange rs) c = true
  | TDot => exists c, w = [c] /\ c <> NEWLINE
  | TSeq l => lcat (map tden l) w
  | TAlt l => (fix any (l : list ttree) : Prop := match l with [] => False | x :: l' => tden x w \/ any l' end) l
  | TOp t' op => exists k, top_ok op k /\ rpow (tden t') k w
  end.

Fixpoint tt_ok (t : ttree) : bool :=
  match t with
  | TSeq l => forallb tt_ok l
  | TAlt l => negb (match l with [] => true | _ => false end) && forallb tt_ok l
  | TOp t' op => op_ok op && tt_ok t'
  | _ => true
  end.

