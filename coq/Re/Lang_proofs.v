(* Re/Lang_proofs.v - the backtracking matcher of Re/Lang.v decides the declarative language:
   bt_sound / bt_complete (continuation-passing form), and the corollaries for match / fullmatch. *)
From Coq Require Import List Bool Arith Lia.
From LV Require Import Re.Syntax Re.Lang.
Import ListNotations.

(* ------------------------------------------------------------------ powers of a language *)
Lemma rpow_app L i j u v : rpow L i u -> rpow L j v -> rpow L (i + j) (u ++ v).
Proof.
  revert u. induction i as [|i IH]; intros u Hu Hv; cbn in *.
  - subst u. exact Hv.
  - destruct Hu as (a & b & -> & Ha & Hb). exists a, (b ++ v). rewrite app_assoc. auto.
Qed.

Lemma rpow_split L i j w : rpow L (i + j) w -> exists u v, w = u ++ v /\ rpow L i u /\ rpow L j v.
Proof.
  revert w. induction i as [|i IH]; intros w H; cbn in *.
  - exists [], w. auto.
  - destruct H as (a & b & -> & Ha & Hb). destruct (IH _ Hb) as (u & v & -> & Hu & Hv).
    exists (a ++ u), v. rewrite app_assoc. split; auto. split; auto. exists a, u. auto.
Qed.

Lemma rpow_1 (L : list nat -> Prop) w : L w <-> rpow L 1 w.
Proof.
  cbn. split.
  - intros H. exists w, []. rewrite app_nil_r. auto.
  - intros (u & v & -> & Hu & ->). rewrite app_nil_r. auto.
Qed.

Lemma rpow_ext (L L' : list nat -> Prop) : (forall w, L w <-> L' w) -> forall k w, rpow L k w <-> rpow L' k w.
Proof.
  intros H k. induction k as [|k IH]; intros w; cbn; [tauto|].
  split; intros (u & v & -> & Hu & Hv); exists u, v; (split; [reflexivity|]); split;
    try (apply H; assumption); apply IH; assumption.
Qed.

(* iterations that consume something *)
Definition nonempty (L : list nat -> Prop) (w : list nat) : Prop := L w /\ w <> [].

Lemma rpow_nonempty_weaken L k w : rpow (nonempty L) k w -> rpow L k w.
Proof.
  revert w. induction k as [|k IH]; intros w; cbn; auto.
  intros (u & v & -> & (Hu & _) & Hv). exists u, v. auto.
Qed.

Lemma rpow_nonempty_length L k w : rpow (nonempty L) k w -> k <= length w.
Proof.
  revert w. induction k as [|k IH]; intros w; cbn; [lia|].
  intros (u & v & -> & (_ & Hu) & Hv). apply IH in Hv. rewrite app_length.
  destruct u; [congruence|cbn; lia].
Qed.

(* empty iterations can be left out *)
Lemma rpow_drop_empty L k w : rpow L k w -> exists j, j <= k /\ rpow (nonempty L) j w.
Proof.
  revert w. induction k as [|k IH]; intros w; cbn.
  - intros ->. exists 0. split; [lia|reflexivity].
  - intros (u & v & -> & Hu & Hv). destruct (IH _ Hv) as (j & Hj & Hp).
    destruct u as [|c u].
    + exists j. split; [lia|exact Hp].
    + exists (S j). split; [lia|]. exists (c :: u), v. split; [reflexivity|]. split; [|exact Hp].
      split; [exact Hu|discriminate].
Qed.

(* ------------------------------------------------------------------ the two loops *)
Section LoopSpec.
  Context {A : Type}.
  Variable step : list nat -> (list nat -> option A) -> option A.
  Variable L : list nat -> Prop.
  Hypothesis step_sound : forall s k x, step s k = Some x -> exists u v, s = u ++ v /\ L u /\ k v = Some x.
  Hypothesis step_complete : forall s k, step s k = None -> forall u v, s = u ++ v -> L u -> k v = None.

  Lemma mand_sound n : forall s k x, mand step n s k = Some x ->
    exists u v, s = u ++ v /\ rpow L n u /\ k v = Some x.
  Proof.
    induction n as [|n IH]; intros s k x H; cbn in H.
    - exists [], s. cbn. auto.
    - apply step_sound in H. destruct H as (u & v & -> & Hu & H).
      apply IH in H. destruct H as (u' & v' & -> & Hu' & H).
      exists (u ++ u'), v'. rewrite app_assoc. split; auto. split; auto. exists u, u'. auto.
  Qed.

  Lemma mand_complete n : forall s k, mand step n s k = None ->
    forall u v, s = u ++ v -> rpow L n u -> k v = None.
  Proof.
    induction n as [|n IH]; intros s k H u v -> Hu; cbn in *.
    - subst u. exact H.
    - destruct Hu as (a & b & -> & Ha & Hb).
      pose proof (step_complete _ _ H a (b ++ v)) as H1. rewrite <- app_assoc in H1.
      specialize (H1 eq_refl Ha). eapply IH; eauto.
  Qed.

  Lemma oloop_sound n : forall s k x, oloop step n s k = Some x ->
    exists j u v, j <= n /\ s = u ++ v /\ rpow L j u /\ k v = Some x.
  Proof.
    induction n as [|n IH]; intros s k x H; cbn [oloop] in H.
    - exists 0, [], s. cbn. auto.
    - unfold orelse in H.
      destruct (step s (fun s' => if length s' <? length s then oloop step n s' k else None)) as [y|] eqn:E.
      + cbn in H. injection H as ->. apply step_sound in E. destruct E as (u & v & -> & Hu & E).
        destruct (length v <? length (u ++ v)); [|discriminate].
        apply IH in E. destruct E as (j & u' & v' & Hj & -> & Hu' & E).
        exists (S j), (u ++ u'), v'. rewrite app_assoc. split; [lia|]. split; auto. split; auto.
        exists u, u'. auto.
      + cbn in H. exists 0, [], s. cbn. split; [lia|]. auto.
  Qed.

  Lemma oloop_complete n : forall s k, oloop step n s k = None ->
    forall j u v, j <= n -> s = u ++ v -> rpow (nonempty L) j u -> k v = None.
  Proof.
    induction n as [|n IH]; intros s k H j u v Hj Hs Hu; cbn [oloop] in H.
    - assert (j = 0) by lia. subst j. cbn in Hu. subst u. subst s. exact H.
    - unfold orelse in H.
      destruct (step s (fun s' => if length s' <? length s then oloop step n s' k else None)) as [y|] eqn:E;
        [discriminate|].
      destruct j as [|j]; cbn in Hu.
      + subst u. subst s. exact H.
      + destruct Hu as (a & b & -> & (Ha & Hne) & Hb).
        rewrite <- app_assoc in Hs.
        pose proof (step_complete _ _ E a (b ++ v) Hs Ha) as H1. cbn beta in H1.
        assert (Hlt : (length (b ++ v) <? length s) = true).
        { apply Nat.ltb_lt. subst s. rewrite (app_length a). destruct a; [congruence|cbn; lia]. }
        rewrite Hlt in H1.
        eapply IH; [exact H1| |reflexivity|exact Hb]. lia.
  Qed.
End LoopSpec.

(* ------------------------------------------------------------------ the matcher *)
Section BT.
  Context {A : Type}.

  Theorem bt_sound r : forall s (k : list nat -> option A) x, bt r s k = Some x ->
    exists u v, s = u ++ v /\ lang r u /\ k v = Some x.
  Proof.
    induction r as [|c|neg rs| |a IHa b IHb|a IHa b IHb|a IHa|a IHa q]; intros s k x H; cbn in H.
    - exists [], s. cbn. auto.
    - destruct s as [|y s]; [discriminate|]. destruct (Nat.eqb_spec y c); [|discriminate]. subst y.
      exists [c], s. cbn. auto.
    - destruct s as [|y s]; [discriminate|]. destruct (cls_mem neg rs y) eqn:E; [|discriminate].
      exists [y], s. cbn. split; auto. split; auto. exists y. auto.
    - destruct s as [|y s]; [discriminate|]. destruct (Nat.eqb_spec y NEWLINE); [discriminate|].
      exists [y], s. cbn. split; auto. split; auto. exists y. auto.
    - apply IHa in H. destruct H as (u & v & -> & Hu & H). apply IHb in H.
      destruct H as (u' & v' & -> & Hu' & H). exists (u ++ u'), v'. rewrite app_assoc.
      split; auto. split; auto. cbn. exists u, u'. auto.
    - unfold orelse in H. destruct (bt a s k) as [y|] eqn:E.
      + cbn in H. injection H as ->. apply IHa in E. destruct E as (u & v & -> & Hu & E). exists u, v. cbn. auto.
      + cbn in H. apply IHb in H. destruct H as (u & v & -> & Hu & E'). exists u, v. cbn. auto.
    - apply IHa in H. exact H.
    - apply (mand_sound (bt a) (lang a) IHa) in H. destruct H as (u & v & -> & Hu & H).
      apply (oloop_sound (bt a) (lang a) IHa) in H. destruct H as (j & u' & v' & Hj & -> & Hu' & H).
      exists (u ++ u'), v'. rewrite app_assoc. split; auto. split; auto.
      cbn. exists (qmin q + j). split; [|apply rpow_app; assumption].
      unfold quant_ok. split; [lia|]. destruct (qextra q); [lia|exact I].
  Qed.

  Theorem bt_complete r : forall s (k : list nat -> option A), bt r s k = None ->
    forall u v, s = u ++ v -> lang r u -> k v = None.
  Proof.
    induction r as [|c|neg rs| |a IHa b IHb|a IHa b IHb|a IHa|a IHa q]; intros s k H u v -> Hu; cbn in H, Hu.
    - subst u. exact H.
    - subst u. cbn in H. rewrite Nat.eqb_refl in H. exact H.
    - destruct Hu as (c & -> & Hc). cbn in H. rewrite Hc in H. exact H.
    - destruct Hu as (c & -> & Hc). cbn in H. destruct (Nat.eqb_spec c NEWLINE); [contradiction|exact H].
    - destruct Hu as (u1 & u2 & -> & H1 & H2).
      pose proof (IHa _ _ H u1 (u2 ++ v)) as H3. rewrite <- app_assoc in H3. specialize (H3 eq_refl H1).
      eapply IHb; eauto.
    - unfold orelse in H. destruct (bt a (u ++ v) k) as [y|] eqn:E; [discriminate|].
      destruct Hu as [Hu|Hu]; [eapply IHa|eapply IHb]; eauto.
    - eapply IHa; eauto.
    - destruct Hu as (n & (Hmin & Hmax) & Hp).
      replace n with (qmin q + (n - qmin q)) in Hp by lia.
      apply rpow_split in Hp. destruct Hp as (u1 & u2 & -> & H1 & H2).
      pose proof (mand_complete (bt a) (lang a) IHa _ _ _ H u1 (u2 ++ v)) as H3.
      rewrite <- app_assoc in H3. specialize (H3 eq_refl H1). cbn beta in H3.
      apply rpow_drop_empty in H2. destruct H2 as (j & Hj & H2).
      eapply (oloop_complete (bt a) (lang a) IHa); [exact H3| |reflexivity|exact H2].
      destruct (qextra q) as [e|].
      + lia.
      + apply rpow_nonempty_length in H2. rewrite app_length. lia.
  Qed.
End BT.

(* ------------------------------------------------------------------ re.match / re.fullmatch *)
Lemma firstn_app_length {X} (u v : list X) : firstn (length u) (u ++ v) = u.
Proof. rewrite firstn_app, Nat.sub_diag, firstn_all. cbn. apply app_nil_r. Qed.

(* a reported match is a word of the language, and it is a prefix of the input *)
Theorem bt_match_sound r s n : bt_match r s = Some n -> n <= length s /\ lang r (firstn n s).
Proof.
  unfold bt_match. intros H. apply bt_sound in H. destruct H as (u & v & -> & Hu & H).
  injection H as <-. rewrite app_length. replace (length u + length v - length v) with (length u) by lia.
  rewrite firstn_app_length. split; [lia|exact Hu].
Qed.

(* no match reported: no prefix of the input is in the language *)
Theorem bt_match_none r s : bt_match r s = None -> forall n, ~ lang r (firstn n s).
Proof.
  unfold bt_match. intros H n Hn.
  pose proof (bt_complete r _ _ H (firstn n s) (skipn n s) (eq_sym (firstn_skipn n s)) Hn). discriminate.
Qed.

Corollary bt_match_some_iff r s : (exists n, bt_match r s = Some n) <-> (exists n, lang r (firstn n s)).
Proof.
  split.
  - intros (n & H). exists n. apply (bt_match_sound r s n H).
  - intros (n & H). destruct (bt_match r s) as [m|] eqn:E; [exists m; reflexivity|].
    exfalso. exact (bt_match_none r s E n H).
Qed.

(* re.fullmatch decides the language *)
Theorem bt_fullmatch_iff r s : bt_fullmatch r s = true <-> lang r s.
Proof.
  unfold bt_fullmatch.
  destruct (bt r s (fun rest => match rest with [] => Some tt | _ :: _ => None end)) as [[]|] eqn:E.
  - split; [intros _|reflexivity]. apply bt_sound in E. destruct E as (u & v & -> & Hu & E).
    destruct v; [|discriminate]. rewrite app_nil_r. exact Hu.
  - split; [discriminate|]. intros H.
    pose proof (bt_complete r _ _ E s [] (eq_sym (app_nil_r s)) H). discriminate.
Qed.

(* a match exists whenever the whole input matches, and it is then at most... nothing more can be said
   in general about WHICH prefix is reported (that is Python's priority order, which bt mirrors);
   what is certain: some prefix in the language is reported *)
Corollary bt_fullmatch_match r s : bt_fullmatch r s = true -> exists n, bt_match r s = Some n.
Proof.
  intros H. apply bt_fullmatch_iff in H. apply bt_match_some_iff. exists (length s). rewrite firstn_all. exact H.
Qed.

(* groups are transparent, quantifier languages are the stated counts *)
Lemma lang_grp a w : lang (Grp a) w <-> lang a w.
Proof. reflexivity. Qed.

Lemma lang_quant a q w : lang (Quant a q) w <-> exists k, quant_ok q k /\ rpow (lang a) k w.
Proof. reflexivity. Qed.

Lemma lang_seq_re l w : lang (seq_re l) w <->
  (fix go (l : list re) (w : list nat) : Prop :=
     match l with [] => w = [] | a :: l' => exists u v, w = u ++ v /\ lang a u /\ go l' v end) l w.
Proof. revert w. induction l as [|a l IH]; intros w; cbn; [tauto|]. 
  split; intros (u & v & -> & Hu & Hv); exists u, v; (split; [reflexivity|]); split; auto; apply IH; auto.
Qed.

Lemma lang_alt_re l w : l <> [] -> (lang (alt_re l) w <-> exists a, In a l /\ lang a w).
Proof.
  induction l as [|a l IH]; [congruence|]. intros _. destruct l as [|b l].
  - cbn. split; [intros H; exists a; auto|intros (x & [<-|[]] & H); exact H].
  - change (alt_re (a :: b :: l)) with (Alt a (alt_re (b :: l))). cbn [lang].
    rewrite IH by discriminate. split.
    + intros [H|(x & Hx & H)]; [exists a; cbn; auto|exists x; cbn in *; tauto].
    + intros (x & [<-|Hx] & H); [left; exact H|right; exists x; auto].
Qed.

Lemma lang_lit_re s w : lang (lit_re s) w <-> w = codes s.
Proof.
  unfold lit_re. revert w. induction (codes s) as [|c l IH]; intros w; cbn; [tauto|].
  split.
  - intros (u & v & -> & -> & Hv). apply IH in Hv. subst v. reflexivity.
  - intros ->. exists [c], l. split; [reflexivity|]. split; [reflexivity|]. apply IH. reflexivity.
Qed.
