(* Re/Width.v - sre_parse.SubPattern.getwidth (CPython 3.12 Lib/re/_parser.py) on the AST of Re/Syntax.v:
   the (min, max) number of characters a match can have, which lark reads through
   lark/utils.py get_regexp_width for PatternRE.min_width / max_width (sort key of the alternatives of a
   terminal, sort key of the lexer's terminals, zero-width check).  Every sub-pattern's pair is capped at
   MAXWIDTH = 2^64; an unbounded repeat of something that can be non-empty has max = MAXWIDTH.
   Model file: definitions only. *)
From Coq Require Import List Bool NArith.
From LV Require Import Re.Syntax.
Import ListNotations.
Local Open Scope N_scope.

Definition MAXWIDTH : N := 18446744073709551616.

Definition capw (p : N * N) : N * N := (N.min (fst p) MAXWIDTH, N.min (snd p) MAXWIDTH).

Fixpoint width (r : re) : N * N :=
  match r with
  | Eps => (0, 0)
  | Chr _ | Cls _ _ | Dot => (1, 1)
  | Cat a b => let (i, j) := width a in let (i', j') := width b in capw (i + i', j + j')
  | Alt a b => let (i, j) := width a in let (i', j') := width b in (N.min i i', N.max j j')
  | Grp a => width a
  | Quant a q =>
      let (i, j) := width a in
      capw (i * N.of_nat (qmin q),
            match qextra q with
            | None => if j =? 0 then 0 else MAXWIDTH
            | Some e => j * N.of_nat (qmin q + e)
            end)
  end.

(* the uncapped notion: least length, and greatest length if there is one *)
Fixpoint wmin (r : re) : nat :=
  match r with
  | Eps => 0
  | Chr _ | Cls _ _ | Dot => 1
  | Cat a b => wmin a + wmin b
  | Alt a b => Nat.min (wmin a) (wmin b)
  | Grp a => wmin a
  | Quant a q => (wmin a * qmin q)%nat
  end.

Fixpoint wmax (r : re) : option nat :=
  match r with
  | Eps => Some 0%nat
  | Chr _ | Cls _ _ | Dot => Some 1%nat
  | Cat a b => match wmax a, wmax b with Some x, Some y => Some (x + y)%nat | _, _ => None end
  | Alt a b => match wmax a, wmax b with Some x, Some y => Some (Nat.max x y) | _, _ => None end
  | Grp a => wmax a
  | Quant a q =>
      match qextra q with
      | None => match wmax a with Some 0%nat => Some 0%nat | _ => None end
      | Some e => match wmax a with
                  | Some x => Some (x * (qmin q + e))%nat
                  | None => if Nat.eqb (qmin q + e) 0 then Some 0%nat else None
                  end
      end
  end.

(* classes that contain at least one character (an empty class [^\x00-\U0010ffff] has no word at all) *)
Fixpoint inhabited (r : re) : Prop :=
  match r with
  | Cls neg rs => exists c, cls_mem neg rs c = true
  | Cat a b | Alt a b => inhabited a /\ inhabited b
  | Grp a | Quant a _ => inhabited a
  | _ => True
  end.
