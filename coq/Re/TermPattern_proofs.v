(* Re/TermPattern_proofs.v - facts about the model of TerminalTreeToPattern (Re/TermPattern.v):
   * show_compile: the string lark builds (to_regexp) is the concrete syntax `show` of the AST built
     next to it, and that AST is bracketed where regexp precedence needs it;
   * the language of the compiled pattern is the documented meaning of the terminal definition:
     juxtaposition = concatenation, | = union (the sort of the alternatives only reorders them),
     ? * + ~n ~n..m = exactly the stated numbers of consecutive occurrences of the operand. *)
From Coq Require Import List Bool Arith String Ascii ZArith NArith Lia Permutation.
From LV Require Import Re.Syntax Re.Lang Re.Lang_proofs Re.Width Re.TermPattern Gen.RegexHoles.
Import ListNotations.

(* ------------------------------------------------------------------ induction over terminal trees *)
Section TtreeInd.
  Variable P : ttree -> Prop.
  Hypothesis hStr : forall s, P (TStr s).
  Hypothesis hRange : forall a b, P (TRange a b).
  Hypothesis hCls : forall neg rs, P (TCls neg rs).
  Hypothesis hDot : P TDot.
  Hypothesis hSeq : forall l, Forall P l -> P (TSeq l).
  Hypothesis hAlt : forall l, Forall P l -> P (TAlt l).
  Hypothesis hOp : forall t op, P t -> P (TOp t op).

  Fixpoint ttree_rect' (t : ttree) : P t :=
    match t with
    | TStr s => hStr s
    | TRange a b => hRange a b
    | TCls neg rs => hCls neg rs
    | TDot => hDot
    | TSeq l => hSeq l ((fix go (l : list ttree) : Forall P l :=
                           match l with [] => Forall_nil P | x :: l' => Forall_cons x (ttree_rect' x) (go l') end) l)
    | TAlt l => hAlt l ((fix go (l : list ttree) : Forall P l :=
                           match l with [] => Forall_nil P | x :: l' => Forall_cons x (ttree_rect' x) (go l') end) l)
    | TOp t' op => hOp t' op (ttree_rect' t')
    end.
End TtreeInd.

(* ------------------------------------------------------------------ strings *)
Lemma sapp_nil_r s : append s "" = s.
Proof. induction s as [|a s IH]; cbn; [reflexivity|now rewrite IH]. Qed.

Lemma sapp_assoc a b c : append (append a b) c = append a (append b c).
Proof. induction a as [|x a IH]; cbn; [reflexivity|now rewrite IH]. Qed.

Lemma chr_string_ascii a : chr_string (nat_of_ascii a) = a_string a.
Proof. unfold chr_string, a_string. now rewrite ascii_nat_embedding. Qed.

(* ------------------------------------------------------------------ the sort is a permutation *)
Lemma insert_stable_perm x l : Permutation (insert_stable x l) (x :: l).
Proof.
  induction l as [|y l IH]; cbn [insert_stable]; [reflexivity|].
  destruct (zlist_ltb (pat_key y) (pat_key x)); [|reflexivity].
  rewrite IH. apply perm_swap.
Qed.

Lemma sort_alts_perm l : Permutation (sort_alts l) l.
Proof.
  induction l as [|x l IH]; cbn [sort_alts fold_right]; [reflexivity|].
  fold (sort_alts l). rewrite insert_stable_perm. now apply perm_skip.
Qed.

Lemma sort_alts_in l x : In x (sort_alts l) <-> In x l.
Proof. split; apply Permutation_in; [|symmetry]; apply sort_alts_perm. Qed.

Lemma sort_alts_length l : List.length (sort_alts l) = List.length l.
Proof. apply Permutation_length, sort_alts_perm. Qed.

Lemma sort_alts_nonempty l : l <> [] -> sort_alts l <> [].
Proof.
  intros H E. apply H. apply length_zero_iff_nil. rewrite <- sort_alts_length, E. reflexivity.
Qed.

(* ------------------------------------------------------------------ printing *)
Lemma show_lit_re s : show (lit_re s) = re_escape s.
Proof.
  induction s as [|a s IH]; [reflexivity|].
  change (lit_re (String a s)) with (Cat (Chr (nat_of_ascii a)) (lit_re s)).
  cbn [show re_escape]. now rewrite IH.
Qed.

Lemma show_seq_re rs : show (seq_re rs) = join "" (map show rs).
Proof.
  induction rs as [|r rs IH]; cbn; [reflexivity|]. unfold seq_re in IH. rewrite IH.
  destruct rs as [|r' rs]; cbn; [apply sapp_nil_r|reflexivity].
Qed.

Lemma show_alt_re rs : show (alt_re rs) = join "|" (map show rs).
Proof.
  induction rs as [|r rs IH]; [reflexivity|]. destruct rs as [|r' rs]; [reflexivity|].
  change (alt_re (r :: r' :: rs)) with (Alt r (alt_re (r' :: rs))). cbn [show]. rewrite IH. reflexivity.
Qed.

Lemma op_string_quant op : op_string op = show_quant (op_quant op).
Proof.
  destruct op; cbn; try reflexivity.
Qed.

Definition shown (p : pat) : Prop := show (p_re p) = to_regexp p.

Lemma map_shown l : Forall shown l -> map show (map p_re l) = map to_regexp l.
Proof. induction 1 as [|p l Hp _ IH]; cbn; [reflexivity|]. now rewrite Hp, IH. Qed.

Lemma shown_expansion l : Forall shown l -> shown (t_expansion l).
Proof.
  intros H. destruct l as [|p [|q l]].
  - reflexivity.
  - now inversion H.
  - unfold shown, t_expansion, to_regexp. cbn [p_str p_value p_re].
    rewrite show_seq_re, map_shown by exact H. reflexivity.
Qed.

Lemma shown_expansions l : Forall shown l -> shown (t_expansions l).
Proof.
  intros H.
  assert (Hs : Forall shown (sort_alts l)).
  { apply Forall_forall. intros x Hx. apply (proj1 (sort_alts_in _ _)) in Hx. rewrite Forall_forall in H. now apply H. }
  assert (G : forall l', l' = l -> shown (mkPat false (fmt alt_fmt [join alt_sep (map to_regexp (sort_alts l'))])
                                               (Grp (alt_re (map p_re (sort_alts l')))))).
  { intros l' ->. unfold shown, to_regexp. cbn [p_str p_value p_re show].
    rewrite show_alt_re, map_shown by exact Hs. reflexivity. }
  destruct l as [|p [|q l]]; [apply (G _ eq_refl)|now inversion H|apply (G _ eq_refl)].
Qed.

Lemma shown_expr p op : shown p -> shown (t_expr p op).
Proof.
  intros H. unfold shown, t_expr, to_regexp. cbn [p_str p_value p_re show]. rewrite H, op_string_quant.
  cbn. rewrite sapp_nil_r, !sapp_assoc. reflexivity.
Qed.

(* the string lark compiles is the concrete syntax of the AST *)
Theorem show_compile t : show (p_re (compile t)) = to_regexp (compile t).
Proof.
  change (shown (compile t)). induction t as [s|a b|neg rs| |l IH|l IH|t op IH] using ttree_rect'; cbn [compile].
  - apply show_lit_re.
  - unfold shown, to_regexp. cbn [p_str p_value p_re show]. unfold show_cls, show_range, arange.
    cbn [map fst snd String.concat]. rewrite !chr_string_ascii. reflexivity.
  - reflexivity.
  - reflexivity.
  - apply shown_expansion. apply Forall_map. exact IH.
  - apply shown_expansions. apply Forall_map. exact IH.
  - apply shown_expr. exact IH.
Qed.

(* ... and brackets are where precedence needs them, so that the string reads back as this AST *)
Lemma bracketed_lit_re s : bracketed (lit_re s) = true /\ no_bare_alt (lit_re s) = true.
Proof.
  unfold lit_re. induction (codes s) as [|c l [IH1 IH2]]; cbn; [auto|].
  fold (seq_re (map Chr l)). rewrite IH1, IH2. auto.
Qed.

Definition brk (p : pat) : Prop := bracketed (p_re p) = true /\ no_bare_alt (p_re p) = true.

Lemma brk_seq l : Forall brk l -> bracketed (seq_re (map p_re l)) = true /\ no_bare_alt (seq_re (map p_re l)) = true.
Proof.
  induction 1 as [|p l [H1 H2] _ [IH1 IH2]]; cbn; [auto|]. fold (seq_re (map p_re l)).
  rewrite H1, H2, IH1, IH2. auto.
Qed.

Lemma brk_alt l : Forall brk l -> bracketed (alt_re (map p_re l)) = true.
Proof.
  induction 1 as [|p l [H1 H2] Hl IH]; [reflexivity|]. destruct l as [|q l]; [exact H1|].
  change (bracketed (Alt (p_re p) (alt_re (map p_re (q :: l)))) = true). cbn [bracketed]. now rewrite H1, IH.
Qed.

Theorem bracketed_compile t : bracketed (p_re (compile t)) = true.
Proof.
  enough (brk (compile t)) by (now destruct H).
  induction t as [s|a b|neg rs| |l IH|l IH|t op IH] using ttree_rect'; cbn [compile].
  - apply bracketed_lit_re.
  - split; reflexivity.
  - split; reflexivity.
  - split; reflexivity.
  - assert (H : Forall brk (map compile l)) by (apply Forall_map; exact IH).
    unfold t_expansion. destruct (map compile l) as [|p [|q l']] eqn:E.
    + split; reflexivity.
    + now inversion H.
    + cbn [p_re]. apply (brk_seq _ H).
  - assert (H : Forall brk (map compile l)) by (apply Forall_map; exact IH).
    assert (Hs : Forall brk (sort_alts (map compile l))).
    { apply Forall_forall. intros x Hx. apply (proj1 (sort_alts_in _ _)) in Hx. rewrite Forall_forall in H. now apply H. }
    unfold t_expansions. destruct (map compile l) as [|p [|q l']] eqn:E.
    + split; reflexivity.
    + now inversion H.
    + split; [|reflexivity]. cbn [p_re bracketed]. apply brk_alt. exact Hs.
  - destruct IH as [H1 H2]. split; [|reflexivity]. unfold t_expr. cbn. exact H1.
Qed.

(* ------------------------------------------------------------------ languages *)
Definition planguage (t : ttree) : list nat -> Prop := lang (p_re (compile t)).

Lemma lang_seq_map ps w : lang (seq_re (map p_re ps)) w <-> lcat (map (fun p => lang (p_re p)) ps) w.
Proof.
  revert w. induction ps as [|p ps IH]; intros w; cbn; [tauto|]. fold (seq_re (map p_re ps)).
  split; intros (u & v & -> & Hu & Hv); exists u, v; (split; [reflexivity|]); split; auto; apply IH; auto.
Qed.

Lemma lcat_single (L : list nat -> Prop) w : lcat [L] w <-> L w.
Proof.
  cbn. split.
  - intros (u & v & -> & Hu & ->). now rewrite app_nil_r.
  - intros H. exists w, []. now rewrite app_nil_r.
Qed.

(* expansion: juxtaposition is concatenation *)
Theorem lang_expansion ps w : lang (p_re (t_expansion ps)) w <-> lcat (map (fun p => lang (p_re p)) ps) w.
Proof.
  destruct ps as [|p [|q ps]].
  - reflexivity.
  - symmetry. apply lcat_single.
  - unfold t_expansion. cbn [p_re]. apply lang_seq_map.
Qed.

(* expansions: union, in whatever order the sort puts the alternatives *)
Theorem lang_expansions ps w : ps <> [] -> (lang (p_re (t_expansions ps)) w <-> exists p, In p ps /\ lang (p_re p) w).
Proof.
  intros Hne.
  assert (G : lang (Grp (alt_re (map p_re (sort_alts ps)))) w <-> exists p, In p ps /\ lang (p_re p) w).
  { cbn [lang]. rewrite lang_alt_re.
    - split.
      + intros (a & Ha & H). apply in_map_iff in Ha. destruct Ha as (p & <- & Hp). exists p.
        split; [now apply (proj1 (sort_alts_in _ _))|exact H].
      + intros (p & Hp & H). exists (p_re p). split; [|exact H]. apply in_map. now apply (proj2 (sort_alts_in _ _)).
    - intros E. apply map_eq_nil in E. revert E. now apply sort_alts_nonempty. }
  destruct ps as [|p [|q ps]]; [congruence| |exact G].
  cbn. split; [intros H; exists p; auto|intros (x & [<-|[]] & H); exact H].
Qed.

Lemma quant_ok_top op k : op_ok op = true -> (quant_ok (op_quant op) k <-> top_ok op k).
Proof.
  unfold quant_ok. destruct op as [| | |n|n m]; cbn; intros H; try lia.
  apply Nat.leb_le in H. lia.
Qed.

(* expr: exactly the stated numbers of consecutive occurrences of the operand's language *)
Theorem lang_expr p op w : op_ok op = true ->
  (lang (p_re (t_expr p op)) w <-> exists k, top_ok op k /\ rpow (lang (p_re p)) k w).
Proof.
  intros Hok. unfold t_expr. cbn [p_re lang].
  split; intros (k & Hk & H); exists k; (split; [apply (quant_ok_top op k Hok); exact Hk|exact H]).
Qed.

Lemma lcat_ext Ls Ls' : Forall2 (fun L L' => forall w, L w <-> L' w) Ls Ls' -> forall w, lcat Ls w <-> lcat Ls' w.
Proof.
  induction 1 as [|L L' Ls Ls' H _ IH]; intros w; cbn; [tauto|].
  split; intros (u & v & -> & Hu & Hv); exists u, v; (split; [reflexivity|]); split;
    try (apply H; assumption); apply IH; assumption.
Qed.

Lemma cls_mem_single a b c : cls_mem false [(a, b)] c = true <-> a <= c <= b.
Proof.
  unfold cls_mem, in_range. cbn [existsb fst snd].
  destruct (Nat.leb_spec a c), (Nat.leb_spec c b); cbn; split; intros; try lia; try discriminate; reflexivity.
Qed.

Theorem compile_lang t : tt_ok t = true -> forall w, lang (p_re (compile t)) w <-> tden t w.
Proof.
  induction t as [s|a b|neg rs| |l IH|l IH|t op IH] using ttree_rect'; intros Hok w; cbn [compile tden].
  - cbn [p_re]. apply lang_lit_re.
  - cbn [p_re lang arange fst snd]. 
    split; intros (c & -> & H); exists c; (split; [reflexivity|]); apply cls_mem_single; exact H.
  - reflexivity.
  - reflexivity.
  - rewrite lang_expansion, map_map. apply lcat_ext. cbn [tt_ok] in Hok. rewrite forallb_forall in Hok.
    clear w. induction l as [|x l IHl]; cbn; constructor.
    + inversion IH; subst. apply H1. apply Hok. now left.
    + inversion IH; subst. apply IHl; [assumption|]. intros y Hy. apply Hok. now right.
  - cbn [tt_ok] in Hok. apply andb_true_iff in Hok. destruct Hok as [Hne Hok]. rewrite forallb_forall in Hok.
    rewrite lang_expansions by (destruct l; [discriminate|discriminate]).
    clear Hne. induction l as [|x l IHl].
    + cbn. split; [intros (p & [] & _)|intros []].
    + inversion IH as [|? ? Hx Hl]; subst. cbn [map]. split.
      * intros (p & [<-|Hp] & H).
        -- left. apply Hx; [apply Hok; now left|exact H].
        -- right. apply IHl; [exact Hl|intros y Hy; apply Hok; now right|]. exists p. auto.
      * intros [H|H].
        -- exists (compile x). split; [now left|]. apply Hx; [apply Hok; now left|exact H].
        -- apply IHl in H; [|exact Hl|intros y Hy; apply Hok; now right].
           destruct H as (p & Hp & H). exists p. split; [now right|exact H].
  - cbn [tt_ok] in Hok. apply andb_true_iff in Hok. destruct Hok as [Hop Hok].
    rewrite lang_expr by exact Hop.
    split; intros (k & Hk & H); exists k; (split; [exact Hk|]).
    + exact (proj1 (rpow_ext _ _ (IH Hok) k w) H).
    + exact (proj2 (rpow_ext _ _ (IH Hok) k w) H).
Qed.

(* Python-order matcher against the documented meaning *)
Corollary compile_fullmatch t w : tt_ok t = true -> (bt_fullmatch (p_re (compile t)) w = true <-> tden t w).
Proof. intros H. rewrite bt_fullmatch_iff. now apply compile_lang. Qed.

Corollary compile_match_sound t s n : tt_ok t = true ->
  bt_match (p_re (compile t)) s = Some n -> tden t (firstn n s).
Proof. intros H E. apply compile_lang; [exact H|]. now apply bt_match_sound. Qed.

Corollary compile_match_none t s : tt_ok t = true ->
  bt_match (p_re (compile t)) s = None -> forall n, ~ tden t (firstn n s).
Proof. intros H E n Hn. apply (bt_match_none _ _ E n). now apply compile_lang. Qed.

(* the operators inside a terminal, stated on the executable Python-order matcher *)
Theorem compile_op_fullmatch x op w : op_ok op = true ->
  (bt_fullmatch (p_re (compile (TOp x op))) w = true <->
   exists k, top_ok op k /\ rpow (fun u => bt_fullmatch (p_re (compile x)) u = true) k w).
Proof.
  intros Hok. rewrite bt_fullmatch_iff. cbn [compile]. rewrite lang_expr by exact Hok.
  split; intros (k & Hk & H); exists k; (split; [exact Hk|]).
  - exact (proj1 (rpow_ext _ _ (fun u => iff_sym (bt_fullmatch_iff (p_re (compile x)) u)) k w) H).
  - exact (proj2 (rpow_ext _ _ (fun u => iff_sym (bt_fullmatch_iff (p_re (compile x)) u)) k w) H).
Qed.
