(* C07, contextual part, on the model parse table: the abstract parser of
   Contextual_proofs.contextual_refines_basic is instantiated with LR/Driver.v. *)
From Coq Require Import ZArith List Bool String Ascii Arith Lia Sorted Permutation.
From LV Require Import Base.Prelude Cfg.Grammar LR.Driver Lex.LexerBase Gen.LexerSortKey Lex.Lexer
     Lex.LexerOrder_proofs Lex.Lexer_proofs Lex.Unless_proofs Lex.Contextual_proofs Lex.ContextualLR.
Import ListNotations.

Lemma index_of_nth nm l :
  (index_of nm l < List.length l)%nat -> nth_error l (index_of nm l) = Some nm.
Proof.
  induction l as [|x r IH]; cbn; [lia|].
  destruct (String.eqb nm x) eqn:E; cbn.
  - intros _. apply String.eqb_eq in E. now subst.
  - intros H. apply IH. lia.
Qed.

Lemma index_of_le nm l : (index_of nm l <= List.length l)%nat.
Proof. induction l as [|x r IH]; cbn; [lia|]. destruct (String.eqb nm x); cbn; lia. Qed.

Lemma assoc_sym_in X row a : assoc_sym X row = Some a -> In X (map fst row).
Proof.
  induction row as [|[Y b] r IH]; cbn; [discriminate|].
  destruct (symbol_eqb_spec X Y) as [->|_]; [now left|]. intros H. right. now apply IH.
Qed.

Lemma rows_action_choices Rw q X a : rows_action Rw q X = Some a -> In X (choices Rw q).
Proof.
  unfold rows_action, choices. destruct (row_of Rw q) as [row|]; [|discriminate]. apply assoc_sym_in.
Qed.

Lemma row_of_in Rw q row : row_of Rw q = Some row -> In (q, row) Rw.
Proof.
  induction Rw as [|[q' r'] Rw IH]; cbn; [discriminate|].
  destruct (Nat.eqb_spec q q') as [->|_].
  - intros H; injection H as ->. now left.
  - intros H. right. now apply IH.
Qed.

Section Inst.

Variable fold : ascii -> ascii.
Variable m : term -> string -> nat -> option nat.
Variable cok : list term -> bool.
Variable text : string.
Variable terms : list term.
Variable ign always : list string.
Variable R : rows.
Variable q0 qe : state.
Variable dfuel : nat.

Notation ttype := (ContextualLR.ttype terms).
Notation P := (ContextualLR.P R q0 qe).
Notation lr_accepts := (ContextualLR.lr_accepts terms R).
Notation lr_step := (ContextualLR.lr_step terms R q0 qe dfuel).
Notation run_cfg := (ContextualLR.run_cfg terms R q0 qe dfuel).
Notation cfg := (config tok).

Hypothesis Hknown : rows_known terms R = true.

Lemma known_key q k : In (T k) (choices R q) -> k <> List.length terms.
Proof.
  unfold choices. destruct (row_of R q) as [row|] eqn:E; [|intros []].
  intros Hin. apply row_of_in in E. unfold rows_known in Hknown.
  rewrite forallb_forall in Hknown. specialize (Hknown _ E). cbn in Hknown.
  rewrite forallb_forall in Hknown. apply in_map_iff in Hin. destruct Hin as ([X a] & HX & Hin).
  cbn in HX. subst X. specialize (Hknown _ Hin). cbn in Hknown.
  apply negb_true_iff, Nat.eqb_neq in Hknown. exact Hknown.
Qed.

(* a fed token is shifted only if its type keys the row of the top state *)
Lemma lr_acc (c : cfg) t c' : lr_step c t = Some c' -> In (ktype t) (lr_accepts c).
Proof.
  unfold ContextualLR.lr_step, ContextualLR.lr_accepts. destruct dfuel as [|f]; [discriminate|]. cbn [feed].
  destruct (sstack c) as [|q ss]; [discriminate|].
  destruct (pt_action P q (T (ttype t))) as [a|] eqn:Ea; [|discriminate].
  intros _. cbn in Ea. apply rows_action_choices in Ea.
  unfold ContextualLR.row_accepts. apply in_flat_map. exists (T (ttype t)). split; [assumption|].
  cbn [sym_names]. pose proof (known_key _ _ Ea) as Hne.
  unfold ContextualLR.ttype, tnum in *.
  destruct (String.eqb (ktype t) end_name) eqn:Ee.
  - rewrite Nat.eqb_refl. apply String.eqb_eq in Ee. rewrite Ee. now left.
  - pose proof (index_of_le (ktype t) (map tname terms)) as Hle. rewrite map_length in Hle.
    assert (Hlt : (index_of (ktype t) (map tname terms) < List.length (map tname terms))%nat)
      by (rewrite map_length; lia).
    destruct (Nat.eqb_spec (index_of (ktype t) (map tname terms)) (S (List.length terms))) as [E|_]; [lia|].
    pose proof (index_of_nth _ _ Hlt) as Hn. rewrite nth_error_map in Hn.
    destruct (nth_error terms (index_of (ktype t) (map tname terms))) as [t0|]; [|discriminate].
    cbn in Hn. injection Hn as <-. now left.
Qed.

(* the abstract run of the contextual theorem is the driver's token loop *)
Lemma run_is_run_cfg (c : cfg) ts : run cfg lr_step c ts = run_cfg c ts.
Proof. revert c. induction ts as [|t r IH]; intros c; cbn; [reflexivity|]. destruct (lr_step c t); auto. Qed.

Lemma run_cfg_feed_all (c : cfg) ts c' :
  run_cfg c ts = Some c' <-> feed_all tok ttype P dfuel c ts = Shifted c'.
Proof.
  revert c. induction ts as [|t r IH]; intros c; cbn.
  - split; intros H; injection H as <-; reflexivity.
  - unfold ContextualLR.lr_step. destruct (feed tok ttype P dfuel c t false) as [c1| | | | |]; try (split; discriminate).
    apply IH.
Qed.

Lemma feed_false_not_accepted f (c : cfg) k t : feed tok ttype P f c k false <> Accepted t.
Proof.
  revert c. induction f as [|f IH]; intros c; cbn [feed]; [discriminate|].
  destruct (sstack c) as [|q ss] eqn:Es; [discriminate|].
  destruct (pt_action P q (T (ttype k))) as [[q'|r]|]; try discriminate.
  - destruct (Nat.eqb q' (pt_end P)); discriminate.
  - match goal with |- context [match ?x with [] => _ | _ :: _ => _ end] => destruct x as [|q2 ss2] end;
      [discriminate|].
    destruct (pt_action P q2 (NT (lhs r))) as [[q3|r3]|]; try discriminate.
    cbn [andb]. apply IH.
Qed.

Lemma feed_all_not_accepted (c : cfg) ts t : feed_all tok ttype P dfuel c ts <> Accepted t.
Proof.
  revert c. induction ts as [|k r IH]; intros c; cbn; [discriminate|].
  destruct (feed tok ttype P dfuel c k false) eqn:E; try discriminate; [apply IH|].
  now apply feed_false_not_accepted in E.
Qed.

(* the tokens ctx_lex returns have been fed, one after the other, from the start configuration *)
Lemma ctx_lex_fed root : forall fuel (c : cfg) p ts,
  ctx_lex fold m cok text cfg lr_accepts lr_step fuel terms ign always root c p = (ts, CEOF) ->
  exists cf, run_cfg c ts = Some cf.
Proof.
  induction fuel as [|f IH]; intros c p ts; cbn [ctx_lex]; [discriminate|].
  destruct (sub_lexer m cok cfg lr_accepts terms ign always c) as [L|]; [|discriminate].
  destruct (next_token m text (S (String.length text - p)) L p) as [r| |q|].
  - destruct (lr_step c (tok_of fold m text (lx_terms L) r)) as [c'|] eqn:Es; [|discriminate].
    destruct (ctx_lex fold m cok text cfg lr_accepts lr_step f terms ign always root c' (rstart r + rlen r))
      as [ts' e] eqn:Er.
    intros H; injection H as <- ->. destruct (IH _ _ _ Er) as (cf & Hcf).
    exists cf. cbn. now rewrite Es.
  - intros H; injection H as <-. exists c. reflexivity.
  - destruct (next_token m text (S (String.length text - q)) root q); discriminate.
  - discriminate.
Qed.

Notation st := (sort_terms terms).

Hypothesis Hcok : forall l, cok l = true.
Hypothesis Hun : uniq_names terms.
Hypothesis Hstr : str_oracle fold m text st.
Hypothesis Hbound : bounded_oracle m text st.
Hypothesis Hpos : forall t p n, In t st -> m t text p = Some n -> (0 < n)%nat.
Hypothesis Hsem : embedding_semantic m text st.
Hypothesis Hdisj : regexps_disjoint m text st.
Hypothesis Hign : ignore_agrees m st ign.
(* in every row of the table, keywords are isolated among the row's same-priority strings *)
Hypothesis Hiso : forall c : cfg,
  keywords_isolated m text st (sort_terms (sub_terms cfg lr_accepts terms ign always c)).

(* whenever the basic lexer + the LALR driver on table R produce a tree, the contextual lexer
   driven by the same table yields the same tokens, and the run returns the same tree *)
Theorem contextual_refines_basic_lr root ts tree end_tok :
  make_lexer m cok terms ign = Some root ->
  lex_from fold m text root 0 = (ts, AtEOF) ->
  parse tok ttype P dfuel ts end_tok = Accepted tree ->
  forall fuel, (List.length ts < fuel)%nat ->
  ctx_lex fold m cok text cfg lr_accepts lr_step fuel terms ign always root (init_config P) 0 = (ts, CEOF) /\
  ctx_parse fold m cok text terms ign always R q0 qe dfuel fuel root end_tok = CxTree tree.
Proof.
  intros Hroot Hlex Hparse fuel Hf.
  unfold parse in Hparse.
  destruct (feed_all tok ttype P dfuel (init_config P) ts) as [cf| | | | |] eqn:Efa;
    try discriminate.
  2:{ now apply feed_all_not_accepted in Efa. }
  apply run_cfg_feed_all in Efa.
  assert (Hctx : ctx_lex fold m cok text cfg lr_accepts lr_step fuel terms ign always root (init_config P) 0 = (ts, CEOF)).
  { apply (contextual_refines_basic fold m cok text Hcok cfg lr_accepts lr_step terms ign always
             Hun Hstr Hbound Hpos Hsem Hdisj Hign Hiso lr_acc root ts cf (init_config P) Hroot Hlex);
      [now rewrite run_is_run_cfg|assumption]. }
  split; [exact Hctx|].
  unfold ctx_parse. rewrite Hctx, Efa, Hparse. reflexivity.
Qed.

End Inst.

(* ---------------------------------------------------------------- lexer_by_tokens *)
Section Shared.

Variable m : term -> string -> nat -> option nat.
Variable cok : list term -> bool.
Variable terms : list term.
Variable ign always : list string.

Notation lexer_for := (ContextualLR.lexer_for m cok terms ign always).
Notation build_lexers := (ContextualLR.build_lexers m cok terms ign always).

Lemma set_eqb_mem a b x : set_eqb a b = true -> mem_string x a = mem_string x b.
Proof.
  unfold set_eqb. rewrite andb_true_iff, !forallb_forall. intros [Hab Hba].
  destruct (mem_string x a) eqn:Ea, (mem_string x b) eqn:Eb; try reflexivity.
  - apply mem_string_In in Ea. apply Hab in Ea. congruence.
  - apply mem_string_In in Eb. apply Hba in Eb. congruence.
Qed.

(* the lexer depends on the accept SET only: sharing by frozenset(accepts) is sound *)
Lemma lexer_for_set a b : set_eqb a b = true -> lexer_for a = lexer_for b.
Proof.
  intros H. unfold ContextualLR.lexer_for. f_equal. apply filter_ext. intros t.
  now rewrite (set_eqb_mem a b _ H).
Qed.

Definition cache_sound (cache : list (list string * option blexer)) : Prop :=
  forall k L, In (k, L) cache -> L = lexer_for k.

Lemma cache_find_sound cache k L : cache_sound cache -> cache_find k cache = Some L -> L = lexer_for k.
Proof.
  induction cache as [|[k' L'] r IH]; cbn; [discriminate|]. intros Hs.
  destruct (set_eqb k k') eqn:E.
  - intros H; injection H as <-. rewrite (lexer_for_set _ _ E). apply Hs. now left.
  - apply IH. intros k0 L0 H0. apply Hs. now right.
Qed.

(* every state gets the lexer it would build by itself, whatever was shared *)
Theorem build_lexers_spec states : forall cache, cache_sound cache ->
  map (fun x => (fst (fst x), snd (fst x))) (build_lexers states cache) =
  map (fun qa : state * list string => (fst qa, lexer_for (snd qa))) states.
Proof.
  induction states as [|[q acc] r IH]; intros cache Hs; cbn; [reflexivity|].
  destruct (cache_find acc cache) as [L|] eqn:E; cbn.
  - rewrite (cache_find_sound _ _ _ Hs E). f_equal. now apply IH.
  - f_equal. apply IH. intros k L [H|H]; [injection H as <- <-; reflexivity|now apply Hs].
Qed.

(* a lexer is built anew exactly for the first state of each accept set *)
Theorem build_lexers_fresh states : forall cache,
  map snd (build_lexers states cache) =
  (fix go (l : list (state * list string)) (seen : list (list string)) : list bool :=
     match l with
     | [] => []
     | (q, acc) :: r => if existsb (set_eqb acc) seen then false :: go r seen else true :: go r (acc :: seen)
     end) states (map fst cache).
Proof.
  induction states as [|[q acc] r IH]; intros cache; cbn; [reflexivity|].
  assert (E : cache_find acc cache = None <-> existsb (set_eqb acc) (map fst cache) = false).
  { induction cache as [|[k L] c IHc]; cbn; [tauto|]. destruct (set_eqb acc k); cbn; [split; discriminate|apply IHc]. }
  destruct (cache_find acc cache) as [L|] eqn:Ec.
  - destruct (existsb (set_eqb acc) (map fst cache)) eqn:Ee; [|destruct E as [_ E]; now specialize (E eq_refl)].
    cbn. f_equal. apply IH.
  - destruct E as [E _]. rewrite (E eq_refl). cbn. f_equal. apply (IH ((acc, lexer_for acc) :: cache)).
Qed.

(* sub_lexer of the contextual model is lexer_for of the state's accept set *)
Lemma sub_lexer_is_lexer_for (pstate : Type) (accepts : pstate -> list string) s :
  sub_lexer m cok pstate accepts terms ign always s = lexer_for (accepts s).
Proof. reflexivity. Qed.

End Shared.
