(* Executable model of lark/lexer.py (BasicLexer, _create_unless, UnlessCallback, Scanner,
   next_token / lex, ContextualLexer).  No proofs here.

   The regex engine is an oracle  m : term -> text -> pos -> option nat  (length of the match
   of the terminal's pattern at a position of a text; None = no match).  Everything else is
   computed: the sort, the keyword ("unless") analysis, the grouping of terminals into
   alternations, the first-alternative-wins scan, the token loop, the per-state sub-lexers. *)
From Coq Require Import ZArith List Bool String Ascii Arith.
From LV Require Import Base.Prelude Lex.LexerBase Gen.LexerSortKey.
Import ListNotations.

(* ---------------------------------------------------------------- strings *)

(* ASCII lower-casing: what the (?i:...) flag means for bytes patterns (and for str patterns on
   the ASCII alphabet) *)
Definition lower (c : ascii) : ascii :=
  let n := nat_of_ascii c in
  if (65 <=? n) && (n <=? 90) then ascii_of_nat (n + 32) else c.

Definition has_flag (f : ascii) (fl : list ascii) : bool := existsb (Ascii.eqb f) fl.
Definition flags_sub (a b : list ascii) : bool := forallb (fun f => has_flag f b) a.
Definition ci_of (t : term) : bool := has_flag "i"%char (tflags t).

Section Fold.

(* What the flag i means for one character: two characters are equal under (?i:...) iff their
   canonical case representatives are.  For bytes patterns this is ASCII lower-casing (lower);
   for str patterns Python's sre compares simple lower-case mappings up to a few extra
   equivalences (k K KELVIN SIGN, s S LONG S, i I DOTTED/DOTLESS I, ...): an equivalence
   relation, so it has a canonical representative too.  The model is parametric in it. *)
Variable fold : ascii -> ascii.

Definition ch_eqb (ci : bool) (a b : ascii) : bool :=
  if ci then Ascii.eqb (fold a) (fold b) else Ascii.eqb a b.

Fixpoint str_eqb (ci : bool) (a b : string) : bool :=
  match a, b with
  | EmptyString, EmptyString => true
  | String x a', String y b' => ch_eqb ci x y && str_eqb ci a' b'
  | _, _ => false
  end.

(* a string terminal matches [text] at [p]: the prefix test (case-folded iff flag i) *)
Definition str_match_at (t : term) (text : string) (p : nat) : option nat :=
  let n := String.length (tvalue t) in
  if str_eqb (ci_of t) (tvalue t) (substring p n text) then Some n else None.

(* UnlessCallback's scanner: fullmatch of a string terminal on a token value *)
Definition str_full (t : term) (v : string) : bool := str_eqb (ci_of t) (tvalue t) v.

(* ---------------------------------------------------------------- the sort *)

Definition term_leb (a b : term) : bool := key_leb (sort_key a) (sort_key b).

Fixpoint insert_term (x : term) (l : list term) : list term :=
  match l with
  | [] => [x]
  | y :: r => if term_leb x y then x :: l else y :: insert_term x r
  end.

(* list.sort(key=...) : stable *)
Definition sort_terms (l : list term) : list term := fold_right insert_term [] l.

(* ---------------------------------------------------------------- generic helpers *)

Fixpoint first_some {A B} (f : A -> option B) (l : list A) : option (A * B) :=
  match l with
  | [] => None
  | x :: r => match f x with Some b => Some (x, b) | None => first_some f r end
  end.

Section Lexer.

Variable m : term -> string -> nat -> option nat.

(* ---------------------------------------------------------------- _create_unless *)

(* strtok.priority == retok.priority and s == re.match(retok, s).group(0) *)
Definition is_unless (R K : term) : bool :=
  Z.eqb (tprio K) (tprio R) &&
  match m R (tvalue K) 0 with
  | Some n => Nat.eqb n (String.length (tvalue K))
  | None => false
  end.

Definition unless_of (terms : list term) (R : term) : list term :=
  filter (fun K => negb (tre K) && is_unless R K) terms.

Definition embedded_of (terms : list term) (R : term) : list term :=
  filter (fun K => flags_sub (tflags K) (tflags R)) (unless_of terms R).

Definition embedded (terms : list term) : list string :=
  flat_map (fun R => map tname (embedded_of terms R)) (filter tre terms).

(* new_terminals *)
Definition scanner_terms (terms : list term) : list term :=
  let e := embedded terms in
  filter (fun t => negb (mem_string (tname t) e)) terms.

(* keys of the callback dict, in the order of the regexp terminals *)
Definition callback_keys (terms : list term) : list string :=
  map tname (filter (fun R => tre R && match unless_of terms R with [] => false | _ => true end) terms).

(* the type reported for terminal X matched on value v:  callback[X.name](token).type *)
Definition report (terms : list term) (X : term) (v : string) : string :=
  if tre X then
    match find (fun K => str_full K v) (unless_of terms X) with
    | Some K => tname K
    | None => tname X
    end
  else tname X.

(* ---------------------------------------------------------------- Scanner._build_mres *)

Variable cok : list term -> bool.     (* does re.compile accept this alternation? *)

Inductive loop_res := LDone (mres : list (list term)) | LRetry (rest : list term) | LFuel.

(* the while loop for one value of max_size *)
Fixpoint build_loop (n k : nat) (ts : list term) (acc : list (list term)) : loop_res :=
  match ts with
  | [] => LDone (rev acc)
  | _ =>
      match n with
      | O => LFuel
      | S n' =>
          let c := firstn k ts in
          if cok c then build_loop n' k (skipn k ts) (c :: acc) else LRetry ts
      end
  end.

(* on a compile failure: return self._build_mres(terminals, max_size // 2) - with the
   terminals that were left at that moment (what had been accumulated is dropped) *)
Fixpoint build_mres (fuel k : nat) (ts : list term) : option (list (list term)) :=
  match fuel with
  | O => None
  | S f =>
      match build_loop (S (List.length ts)) k ts [] with
      | LDone mres => Some mres
      | LRetry rest => build_mres f (Nat.div2 k) rest
      | LFuel => None
      end
  end.

(* Scanner.__init__ : max_size = len(terminals) *)
Definition scanner_mres (ts : list term) : option (list (list term)) :=
  build_mres (S (S (List.length ts))) (List.length ts) ts.

(* ---------------------------------------------------------------- Scanner.match *)

Variable text : string.

Definition chunk_match (c : list term) (p : nat) : option (term * nat) :=
  first_some (fun t => m t text p) c.

Fixpoint scan (mres : list (list term)) (p : nat) : option (term * nat) :=
  match mres with
  | [] => None
  | c :: r => match chunk_match c p with Some x => Some x | None => scan r p end
  end.

(* ---------------------------------------------------------------- the token loop *)

Record rawtok := mkRaw { rterm : term; rstart : nat; rlen : nat }.

Inductive lex_end := AtEOF | ErrAt (p : nat) | NoFuel.

(* every scanner match from p to the end of the text, ignored ones included *)
Fixpoint lex_raw (fuel : nat) (mres : list (list term)) (p : nat) : list rawtok * lex_end :=
  if String.length text <=? p then ([], AtEOF) else
  match fuel with
  | O => ([], NoFuel)
  | S f =>
      match scan mres p with
      | None => ([], ErrAt p)
      | Some (t, n) =>
          let '(ts, e) := lex_raw f mres (p + n) in (mkRaw t p n :: ts, e)
      end
  end.

Record tok := mkTok { ktype : string; kstart : nat; klen : nat }.

Definition tok_of (terms : list term) (r : rawtok) : tok :=
  mkTok (report terms (rterm r) (substring (rstart r) (rlen r) text)) (rstart r) (rlen r).

Definition ignored (ign : list string) (r : rawtok) : bool := mem_string (tname (rterm r)) ign.

(* tokens yielded by BasicLexer.lex: ignored terminals dropped (by their pre-callback type),
   callback applied to the others *)
Definition emit (terms : list term) (ign : list string) (rs : list rawtok) : list tok :=
  map (tok_of terms) (filter (fun r => negb (ignored ign r)) rs).

(* a built BasicLexer: sorted terminals, scanner groups *)
Record blexer := mkLexer { lx_terms : list term; lx_mres : list (list term); lx_ign : list string }.

Definition make_lexer (terms : list term) (ign : list string) : option blexer :=
  let st := sort_terms terms in
  match scanner_mres (scanner_terms st) with
  | Some mres => Some (mkLexer st mres ign)
  | None => None
  end.

Definition lex_from (L : blexer) (p : nat) : list tok * lex_end :=
  let '(rs, e) := lex_raw (S (String.length text - p)) (lx_mres L) p in
  (emit (lx_terms L) (lx_ign L) rs, e).

Definition lex (terms : list term) (ign : list string) : option (list tok * lex_end) :=
  match make_lexer terms ign with
  | Some L => Some (lex_from L 0)
  | None => None
  end.

(* ---------------------------------------------------------------- next_token *)

Inductive nt_res := NTok (r : rawtok) | NEOF | NErr (p : nat) | NFuel.

(* BasicLexer.next_token from char_pos p: skips ignored matches *)
Fixpoint next_token (fuel : nat) (L : blexer) (p : nat) : nt_res :=
  if String.length text <=? p then NEOF else
  match fuel with
  | O => NFuel
  | S f =>
      match scan (lx_mres L) p with
      | None => NErr p
      | Some (t, n) =>
          let r := mkRaw t p n in
          if ignored (lx_ign L) r then next_token f L (p + n) else NTok r
      end
  end.

(* ---------------------------------------------------------------- ContextualLexer *)

Variable pstate : Type.
Variable accepts : pstate -> list string.            (* parse_table.states[state].keys() *)
Variable step : pstate -> tok -> option pstate.      (* the parser consumes one token *)

(* accepts = set(accepts) | set(conf.ignore) | set(always_accept);
   terminals = [terminals_by_name[n] for n in accepts if n in terminals_by_name] *)
Definition sub_terms (terms : list term) (ign always : list string) (s : pstate) : list term :=
  filter (fun t => mem_string (tname t) (accepts s) || mem_string (tname t) ign
                   || mem_string (tname t) always) terms.

Definition sub_lexer (terms : list term) (ign always : list string) (s : pstate) : option blexer :=
  make_lexer (sub_terms terms ign always s) ign.

Inductive ctx_end :=
| CEOF                         (* lexer exhausted the text *)
| CChars (p : nat)             (* UnexpectedCharacters at p (the original one) *)
| CToken (t : tok)             (* UnexpectedToken: the root lexer found a token at the error position *)
| CParse (t : tok)             (* the parser rejected token t *)
| CFuel | CBuild.

Fixpoint ctx_lex (fuel : nat) (terms : list term) (ign always : list string) (root : blexer)
         (s : pstate) (p : nat) : list tok * ctx_end :=
  match fuel with
  | O => ([], CFuel)
  | S f =>
      match sub_lexer terms ign always s with
      | None => ([], CBuild)
      | Some L =>
          match next_token (S (String.length text - p)) L p with
          | NEOF => ([], CEOF)
          | NFuel => ([], CFuel)
          | NErr q =>
              match next_token (S (String.length text - q)) root q with
              | NTok r => ([], CToken (tok_of (lx_terms root) r))
              | NEOF => ([], CChars q)       (* not reachable: q < len *)
              | _ => ([], CChars q)
              end
          | NTok r =>
              let t := tok_of (lx_terms L) r in
              match step s t with
              | None => ([t], CParse t)
              | Some s' =>
                  let '(ts, e) := ctx_lex f terms ign always root s' (rstart r + rlen r) in
                  (t :: ts, e)
              end
          end
      end
  end.

End Lexer.

End Fold.
