(* ContextualLexer: if the parser accepts the token types produced by the basic lexer, the
   per-state sub-lexers produce exactly the same tokens. *)
From Coq Require Import ZArith List Bool String Ascii Arith Lia Sorted Permutation.
From LV Require Import Base.Prelude Lex.LexerBase Gen.LexerSortKey Lex.Lexer
     Lex.LexerOrder_proofs Lex.Lexer_proofs Lex.Unless_proofs.
Import ListNotations.

Section Contextual.

Variable fold : ascii -> ascii.
Variable m : term -> string -> nat -> option nat.
Variable cok : list term -> bool.
Variable text : string.

Notation unless_of := (Lexer.unless_of m).
Notation embedded_of := (Lexer.embedded_of m).
Notation embedded := (Lexer.embedded m).
Notation scanner_terms := (Lexer.scanner_terms m).
Notation report := (Lexer.report fold m).
Notation str_full := (Lexer.str_full fold).
Notation str_match_at := (Lexer.str_match_at fold).
Notation tok_of := (Lexer.tok_of fold).
Notation emit := (Lexer.emit fold).
Notation lex_from := (Lexer.lex_from fold).
Notation ctx_lex := (Lexer.ctx_lex fold).
Notation str_oracle := (str_oracle fold).
Notation removal_step := (removal_step fold).
Notation fmatch p := (first_some (fun t => m t text p)).

Ltac uniqH H := eapply (uniq_names_inj _ _ _ H); eauto; try congruence; try (symmetry; eauto; congruence).

(* ---------------------------------------------------------------- sorted-list facts *)

Lemma embedded_incl Ls st x :
  incl Ls st -> In x (embedded Ls) -> In x (embedded st).
Proof.
  intros Hi H. apply embedded_in in H. destruct H as (R & K & HR & Hre & HK & ->).
  apply embedded_in. exists R, K. repeat split; auto.
  apply embedded_of_in in HK. apply embedded_of_in. destruct HK as [HK Hf]. split; [|assumption].
  eapply keyword_of_mono; eauto. apply Hi. now destruct HK.
Qed.

Lemma report_self_no_kw L X v :
  uniq_names L -> In X L -> tre X = true -> report L X v = tname X ->
  forall K, keyword_of m L X K -> str_full K v = false.
Proof.
  intros Hu HX Hre. unfold Lexer.report. rewrite Hre.
  destruct (find (fun K => str_full K v) (unless_of L X)) as [K0|] eqn:E.
  - intros En. exfalso. apply find_some in E. destruct E as [Hin _].
    apply unless_of_in in Hin. destruct Hin as (HK0 & Hs & _).
    assert (K0 = X) by uniqH Hu. congruence.
  - intros _ K HK. eapply find_none in E; [exact E|]. now apply unless_of_in.
Qed.

(* the re-typing keyword is the first, in the documented order, among those that fit *)
Lemma report_inv_sorted L X v :
  StronglySorted doc_le L ->
  report L X v = tname X \/
  (tre X = true /\ exists K, report L X v = tname K /\ keyword_of m L X K /\ str_full K v = true /\
     forall K2, keyword_of m L X K2 -> str_full K2 v = true -> doc_le K K2).
Proof.
  intros Hs. unfold Lexer.report. destruct (tre X); [|now left].
  destruct (find (fun K => str_full K v) (unless_of L X)) as [K|] eqn:E; [|now left].
  right. split; [reflexivity|]. exists K. pose proof E as E'. apply find_some in E'. destruct E' as [Hin Hf].
  apply unless_of_in in Hin. split; [reflexivity|]. split; [assumption|]. split; [assumption|].
  intros K2 HK2 Hf2. apply find_split in E. destruct E as (pre & post & EL & _ & Hpre).
  apply unless_of_in in HK2. rewrite EL in HK2. apply in_app_or in HK2.
  destruct HK2 as [H|[<-|H]].
  - rewrite Hpre in Hf2 by assumption. discriminate.
  - apply doc_le_refl.
  - eapply sorted_split_le; [|exact EL|exact H]. unfold Lexer.unless_of. now apply filter_sorted.
Qed.

(* ---------------------------------------------------------------- one position *)

Section Step.

Variable st : list term.            (* all terminals, sorted *)
Variable Ls : list term.            (* the terminals of one parser state's sub-lexer, sorted *)
Variable ign : list string.
Variable keep : term -> bool.

Hypothesis Huniq : uniq_names st.
Hypothesis Hsorted : StronglySorted doc_le st.
Hypothesis HLs : forall t, In t Ls <-> In t st /\ keep t = true.
Hypothesis HLsorted : StronglySorted doc_le Ls.
Hypothesis HLuniq : uniq_names Ls.
Hypothesis Hkeep_ign : forall t, mem_string (tname t) ign = true -> keep t = true.
Hypothesis Hstr : str_oracle m text st.
Hypothesis Hbound : bounded_oracle m text st.
Hypothesis Hsem : embedding_semantic m text st.
Hypothesis Hdisj : regexps_disjoint m text st.
Hypothesis Hiso : keywords_isolated m text st Ls.
Hypothesis Hign : ignore_agrees m st ign.

Lemma Ls_incl : incl Ls st.
Proof. intros t H. apply HLs in H. tauto. Qed.

Lemma scF_sorted : StronglySorted doc_le (scanner_terms st).
Proof. now apply filter_sorted. Qed.

Lemma scL_sorted : StronglySorted doc_le (scanner_terms Ls).
Proof. now apply filter_sorted. Qed.

(* an embedded string of the full set that matches drags its regexp along *)
Lemma embedded_regexp_matches Y p k :
  In Y st -> In (tname Y) (embedded st) -> m Y text p = Some k ->
  exists R, In R st /\ tre R = true /\ In Y (embedded_of st R) /\ m R text p <> None.
Proof.
  intros HY He Hm. apply embedded_in in He. destruct He as (R & K & HR & Hre & HK & E).
  pose proof HK as HK'. apply embedded_of_in in HK'. destruct HK' as [(HKin & _) _].
  assert (K = Y) by uniqH Huniq. subst K.
  destruct (Hsem R Y p k HR Hre HK Hm) as (n & HmR & _).
  exists R. repeat split; auto. congruence.
Qed.

(* the full lexer's winner, when it belongs to the sub-lexer, is the sub-lexer's winner *)
Lemma sub_first_same p X n :
  fmatch p (scanner_terms st) = Some (X, n) -> In X Ls ->
  fmatch p (scanner_terms Ls) = Some (X, n).
Proof.
  intros EF HXL.
  destruct (first_in_sorted m text _ _ _ _ scF_sorted EF) as (HXsc & HmX & HfirstF).
  pose proof HXsc as HX'. apply scanner_terms_in in HX'. destruct HX' as [HXst HXne].
  assert (HXscL : In X (scanner_terms Ls)).
  { apply scanner_terms_in. split; [assumption|]. intros H. apply HXne. eapply embedded_incl; eauto. apply Ls_incl. }
  destruct (first_some_exists m text (scanner_terms Ls) p X HXscL) as (Y & k & EL); [congruence|].
  destruct (first_in_sorted m text _ _ _ _ scL_sorted EL) as (HYsc & HmY & HfirstL).
  pose proof HYsc as HY'. apply scanner_terms_in in HY'. destruct HY' as [HYL HYne].
  assert (HYst : In Y st) by now apply Ls_incl.
  assert (HYX : doc_le Y X) by (apply HfirstL; [assumption|congruence]).
  assert (Y = X).
  { destruct (in_dec string_dec (tname Y) (embedded st)) as [He|Hne].
    - destruct (embedded_regexp_matches Y p k HYst He HmY) as (R & HR & Hre & HYR & HmR).
      assert (HRsc : In R (scanner_terms st)) by now apply regexp_in_scanner.
      assert (HXR : doc_le X R) by now apply HfirstF.
      pose proof HYR as HYR'. apply embedded_of_in in HYR'. destruct HYR' as [HYkw Hfl].
      destruct (tre X) eqn:HXre.
      + assert (X = R) by (apply (Hdisj X R p); auto; congruence). subst R.
        exfalso. apply HYne. apply embedded_in. exists X, Y. repeat split; auto.
        apply embedded_of_in. split; [|assumption]. eapply keyword_of_mono; eauto.
      + exfalso. apply (Hiso Y X p); auto.
        * exists R. tauto.
        * destruct HYkw as (_ & _ & Hp & _).
          pose proof (doc_le_prio _ _ HYX). pose proof (doc_le_prio _ _ HXR). lia.
        * intros ->. apply HXne. exact He.
        * congruence.
        * congruence.
    - assert (HYscF : In Y (scanner_terms st)) by (apply scanner_terms_in; tauto).
      assert (HXY : doc_le X Y) by (apply HfirstF; [assumption|congruence]).
      apply (uniq_names_inj _ _ _ Huniq); auto. now apply doc_le_antisym_name. }
  subst Y. rewrite EL. congruence.
Qed.

(* what the sub-lexer shows at p agrees with the full lexer, provided the full lexer's token
   is ignored or its (re-typed) terminal belongs to the sub-lexer *)
Theorem ctx_step p X n :
  fmatch p (scanner_terms st) = Some (X, n) ->
  let v := substring p n text in
  (mem_string (tname X) ign = false ->
     exists T, In T st /\ tname T = report st X v /\ keep T = true) ->
  exists X', fmatch p (scanner_terms Ls) = Some (X', n) /\
             mem_string (tname X') ign = mem_string (tname X) ign /\
             (mem_string (tname X) ign = false -> report Ls X' v = report st X v).
Proof.
  intros EF v Hacc.
  destruct (first_in_sorted m text _ _ _ _ scF_sorted EF) as (HXsc & HmX & HfirstF).
  pose proof HXsc as HX'. apply scanner_terms_in in HX'. destruct HX' as [HXst HXne].
  destruct (Hbound _ _ _ HXst HmX) as [Hb _].
  destruct (mem_string (tname X) ign) eqn:Hig.
  { exists X. split; [|split; [assumption|discriminate]].
    apply sub_first_same; [assumption|]. apply HLs. split; [assumption|]. now apply Hkeep_ign. }
  destruct (Hacc eq_refl) as (T & HTst & HTn & HTk). clear Hacc.
  destruct (report_inv_sorted st X v Hsorted) as [Hself|(HXre & K & HrK & HKw & HKf & HKfirst)].
  - (* not re-typed *)
    assert (T = X) by uniqH Huniq. subst T.
    assert (HXL : In X Ls) by (apply HLs; tauto).
    exists X. split; [now apply sub_first_same|]. split; [assumption|]. intros _. rewrite Hself.
    destruct (tre X) eqn:HXre; [|now apply report_string].
    apply report_no_keyword. intros K HK.
    eapply (report_self_no_kw st); eauto. eapply keyword_of_mono; eauto.
    apply Ls_incl. now destruct HK.
  - (* re-typed to the keyword K *)
    pose proof HKw as (HKst & HKs & HKp & HKm).
    assert (T = K) by uniqH Huniq. subst T.
    assert (HKL : In K Ls) by (apply HLs; tauto).
    assert (HmK : m K text p = Some n) by (eapply str_full_match; eauto).
    destruct (keep X) eqn:HkX.
    + (* the regexp is in the sub-lexer too *)
      assert (HXL : In X Ls) by (apply HLs; tauto).
      exists X. split; [now apply sub_first_same|]. split; [assumption|]. intros _. rewrite HrK.
      assert (HKwL : keyword_of m Ls X K) by (eapply keyword_of_mono; eauto).
      destruct (report_inv_sorted Ls X v HLsorted) as [Hself|(_ & K' & HrK' & HK'w & HK'f & HK'first)].
      * exfalso. pose proof (report_self_no_kw Ls X v HLuniq HXL HXre Hself K HKwL). congruence.
      * rewrite HrK'. f_equal.
        assert (HK'st : keyword_of m st X K') by (eapply keyword_of_mono; eauto; apply Ls_incl; now destruct HK'w).
        apply (uniq_names_inj _ _ _ Huniq); auto; [now destruct HK'st|].
        apply doc_le_antisym_name; auto.
    + (* only the keyword is: it must win by itself *)
      assert (HXnL : ~ In X Ls) by (intros H; apply HLs in H; destruct H; congruence).
      assert (HKscL : In K (scanner_terms Ls)).
      { apply scanner_terms_in. split; [assumption|]. intros He.
        apply embedded_in in He. destruct He as (R2 & K2 & HR2 & HR2re & HK2 & E2).
        pose proof HK2 as HK2'. apply embedded_of_in in HK2'. destruct HK2' as [(HK2L & HK2s & HK2p & HK2m) Hfl2].
        assert (K2 = K) by uniqH HLuniq. subst K2.
        assert (HR2st : In R2 st) by now apply Ls_incl.
        assert (HK2st : In K (embedded_of st R2)).
        { apply embedded_of_in. split; [|assumption]. repeat split; auto. }
        destruct (Hsem R2 K p n HR2st HR2re HK2st HmK) as (n2 & HmR2 & _).
        assert (R2 = X) by (apply (Hdisj R2 X p); auto; congruence). subst R2. tauto. }
      destruct (first_some_exists m text (scanner_terms Ls) p K HKscL) as (Y & k & EL); [congruence|].
      destruct (first_in_sorted m text _ _ _ _ scL_sorted EL) as (HYsc & HmY & HfirstL).
      pose proof HYsc as HY'. apply scanner_terms_in in HY'. destruct HY' as [HYL HYne].
      assert (HYst : In Y st) by now apply Ls_incl.
      assert (HYK : doc_le Y K) by (apply HfirstL; [assumption|congruence]).
      assert (Y = K).
      { destruct (tre Y) eqn:HYre.
        - exfalso. assert (Y = X) by (apply (Hdisj Y X p); auto; congruence). subst Y. tauto.
        - destruct (string_dec (tname Y) (tname K)) as [En|Hn]; [now apply (uniq_names_inj _ _ _ Huniq)|].
          exfalso. apply (Hiso K Y p); auto.
          + exists X. tauto.
          + destruct (in_dec string_dec (tname Y) (embedded st)) as [He|Hne].
            * destruct (embedded_regexp_matches Y p k HYst He HmY) as (R & HR & Hre & HYR & HmR).
              assert (R = X) by (apply (Hdisj R X p); auto; congruence). subst R.
              apply embedded_of_in in HYR. destruct HYR as [(_ & _ & Hp & _) _]. lia.
            * assert (HYscF : In Y (scanner_terms st)) by (apply scanner_terms_in; tauto).
              assert (HXY : doc_le X Y) by (apply HfirstF; [assumption|congruence]).
              pose proof (doc_le_prio _ _ HXY). pose proof (doc_le_prio _ _ HYK). lia.
          + intros ->. now apply Hn.
          + congruence.
          + congruence. }
      subst Y. assert (k = n) by congruence. subst k.
      exists K. split; [assumption|]. split.
      * rewrite (Hign X K HXst HXre HKw). assumption.
      * intros _. rewrite HrK. now apply report_string.
Qed.

End Step.


(* ---------------------------------------------------------------- building lexers *)

Hypothesis Hcok : forall l, cok l = true.    (* re.compile never refuses (this interpreter) *)

Lemma scanner_mres_total ts : exists mres, scanner_mres cok ts = Some mres /\ List.concat mres = ts.
Proof.
  unfold scanner_mres. destruct ts as [|t ts].
  - exists []. split; reflexivity.
  - exists [t :: ts]. split; [|cbn; now rewrite app_nil_r].
    cbn [build_mres build_loop List.length]. rewrite Hcok.
    change (firstn (S (List.length ts)) (t :: ts)) with (t :: firstn (List.length ts) ts).
    change (skipn (S (List.length ts)) (t :: ts)) with (skipn (List.length ts) ts).
    rewrite firstn_all, skipn_all. destruct (List.length ts); reflexivity.
Qed.

Lemma make_lexer_total ts ign :
  exists L, make_lexer m cok ts ign = Some L /\ lx_terms L = sort_terms ts /\ lx_ign L = ign /\
            List.concat (lx_mres L) = scanner_terms (sort_terms ts).
Proof.
  unfold make_lexer.
  destruct (scanner_mres_total (scanner_terms (sort_terms ts))) as (mres & E & Hc).
  rewrite E. eexists. split; [reflexivity|]. cbn. auto.
Qed.

(* ---------------------------------------------------------------- the whole run *)

Section Run.

Variable pstate : Type.
Variable accepts : pstate -> list string.
Variable step : pstate -> tok -> option pstate.
Variable terms : list term.
Variable ign always : list string.

Let st := sort_terms terms.
Let keep_of (s : pstate) (t : term) : bool :=
  (mem_string (tname t) (accepts s) || mem_string (tname t) ign || mem_string (tname t) always)%bool.
Let Lsub (s : pstate) := sort_terms (sub_terms pstate accepts terms ign always s).
Let SF := scanner_terms st.

Hypothesis Hun : uniq_names terms.
Hypothesis Hstr : str_oracle m text st.
Hypothesis Hbound : bounded_oracle m text st.
Hypothesis Hpos : forall t p n, In t st -> m t text p = Some n -> (0 < n)%nat.
Hypothesis Hsem : embedding_semantic m text st.
Hypothesis Hdisj : regexps_disjoint m text st.
Hypothesis Hign : ignore_agrees m st ign.
Hypothesis Hiso : forall s, keywords_isolated m text st (Lsub s).
(* the parser only consumes a token type that its current state accepts *)
Hypothesis Hacc : forall s t s', step s t = Some s' -> In (ktype t) (accepts s).

Fixpoint run (s : pstate) (l : list tok) : option pstate :=
  match l with
  | [] => Some s
  | a :: r => match step s a with Some s' => run s' r | None => None end
  end.

Lemma st_uniq : uniq_names st.
Proof. eapply uniq_names_perm; [apply sort_perm|assumption]. Qed.

Lemma st_sorted : StronglySorted doc_le st.
Proof. apply sort_sorted. Qed.

Lemma Lsub_in s t : In t (Lsub s) <-> In t st /\ keep_of s t = true.
Proof.
  unfold Lsub, st, sub_terms, keep_of. rewrite !sort_in, filter_In. tauto.
Qed.

Lemma Lsub_uniq s : uniq_names (Lsub s).
Proof.
  eapply uniq_names_perm; [apply sort_perm|]. unfold sub_terms. now apply uniq_names_filter.
Qed.

Lemma keep_ign s t : mem_string (tname t) ign = true -> keep_of s t = true.
Proof. unfold keep_of. intros ->. now rewrite orb_true_r. Qed.

(* the matches of the full scanner from p to the end of the text *)
Inductive raw_run : nat -> list rawtok -> Prop :=
| rr_eof p : (String.length text <= p)%nat -> raw_run p []
| rr_tok p X n rs :
    (p < String.length text)%nat -> fmatch p SF = Some (X, n) -> raw_run (p + n) rs ->
    raw_run p (mkRaw X p n :: rs).

Lemma lex_raw_run mres : List.concat mres = SF -> forall fuel p rs,
  Lexer.lex_raw m text fuel mres p = (rs, AtEOF) -> raw_run p rs.
Proof.
  intros Hc. induction fuel as [|f IH]; intros p rs; cbn [Lexer.lex_raw].
  - destruct (String.length text <=? p)%nat eqn:El; [|discriminate].
    intros H; injection H as <-. constructor. now apply Nat.leb_le.
  - destruct (String.length text <=? p)%nat eqn:El.
    + intros H; injection H as <-. constructor. now apply Nat.leb_le.
    + apply Nat.leb_gt in El. rewrite scan_concat, Hc.
      destruct (fmatch p SF) as [[X n]|] eqn:Es; [|discriminate].
      destruct (Lexer.lex_raw m text f mres (p + n)) as [ts e] eqn:Er.
      intros H; injection H as <- ->. constructor; auto.
Qed.

Definition live (r : rawtok) : bool := negb (ignored ign r).

Lemma raw_run_after p rs : raw_run p rs -> forall r frs,
  filter live rs = r :: frs ->
  exists rs', raw_run (rstart r + rlen r) rs' /\ filter live rs' = frs.
Proof.
  induction 1 as [|p X n rs Hp Hm Hr IH]; intros r frs; cbn [filter]; [discriminate|].
  destruct (live (mkRaw X p n)).
  - intros H; injection H as <- <-. cbn. eauto.
  - apply IH.
Qed.

Lemma SF_in_st t : In t SF -> In t st.
Proof. intros H. apply scanner_terms_in in H. tauto. Qed.

Lemma fmatch_in p X n : fmatch p SF = Some (X, n) -> In X st /\ m X text p = Some n.
Proof.
  intros H. apply (first_some_spec (fun t => m t text p)) in H.
  destruct H as (pre & post & E & Hm & _). split; [|assumption].
  apply SF_in_st. rewrite E. apply in_or_app. right. now left.
Qed.

(* the reported type names a terminal of the grammar *)
Lemma report_names_term X v : In X st -> exists T, In T st /\ tname T = report st X v.
Proof.
  intros HX. destruct (report_inv fold m st X v) as [E|(_ & K & E & (HK & _) & _)].
  - exists X. auto.
  - exists K. auto.
Qed.

Section State.

Variable s : pstate.
Variable L : blexer.
Hypothesis HLt : lx_terms L = Lsub s.
Hypothesis HLi : lx_ign L = ign.
Hypothesis HLm : List.concat (lx_mres L) = scanner_terms (Lsub s).

Lemma step_here p X n :
  fmatch p SF = Some (X, n) ->
  let v := substring p n text in
  (mem_string (tname X) ign = false -> In (report st X v) (accepts s)) ->
  exists X', fmatch p (scanner_terms (Lsub s)) = Some (X', n) /\
             mem_string (tname X') ign = mem_string (tname X) ign /\
             (mem_string (tname X) ign = false -> report (Lsub s) X' v = report st X v).
Proof.
  intros EF v Ha.
  apply (ctx_step st (Lsub s) ign (keep_of s)); auto.
  - apply st_uniq.
  - apply st_sorted.
  - apply Lsub_in.
  - apply sort_sorted.
  - apply Lsub_uniq.
  - apply keep_ign.
  - intros Hi. destruct (fmatch_in _ _ _ EF) as [HX _].
    destruct (report_names_term X v HX) as (T & HT & En). exists T. repeat split; auto.
    unfold keep_of. fold v in En. rewrite En.
    rewrite (proj2 (mem_string_In _ _) (Ha Hi)). reflexivity.
Qed.

(* next_token of the state's sub-lexer follows the full lexer's matches *)
Lemma nt_follow p rs : raw_run p rs -> forall fuel, (String.length text - p < fuel)%nat ->
  match filter live rs with
  | [] => next_token m text fuel L p = NEOF
  | r :: _ =>
      In (ktype (tok_of m text st r)) (accepts s) ->
      exists X', next_token m text fuel L p = NTok (mkRaw X' (rstart r) (rlen r)) /\
                 tok_of m text (Lsub s) (mkRaw X' (rstart r) (rlen r)) = tok_of m text st r
  end.
Proof.
  induction 1 as [p Hp|p X n rs Hp Hm Hr IH]; intros fuel Hf.
  - cbn [filter]. destruct fuel; cbn [next_token]; apply Nat.leb_le in Hp; now rewrite Hp.
  - destruct fuel as [|f]; [lia|].
    destruct (fmatch_in _ _ _ Hm) as [HX HmX]. pose proof (Hpos _ _ _ HX HmX) as Hn.
    cbn [filter next_token]. apply Nat.leb_gt in Hp. rewrite Hp. apply Nat.leb_gt in Hp.
    rewrite scan_concat, HLm. unfold live at 1, ignored at 1. cbn [rterm].
    destruct (mem_string (tname X) ign) eqn:Hig; cbn [negb].
    + destruct (step_here p X n Hm) as (X' & EL & Hi' & _); [rewrite Hig; discriminate|].
      rewrite EL. unfold ignored. cbn [rterm]. rewrite HLi, Hi', Hig.
      apply IH. lia.
    + intros Hin. unfold Lexer.tok_of in Hin. cbn [ktype rterm rstart rlen] in Hin.
      destruct (step_here p X n Hm) as (X' & EL & Hi' & Hrep); [intros _; exact Hin|].
      rewrite EL. unfold ignored. cbn [rterm]. rewrite HLi, Hi', Hig.
      exists X'. cbn [rstart rlen]. split; [reflexivity|].
      unfold Lexer.tok_of. cbn [rterm rstart rlen]. now rewrite Hrep.
Qed.

End State.

Lemma sub_lexer_total s :
  exists L, sub_lexer m cok pstate accepts terms ign always s = Some L /\
            lx_terms L = Lsub s /\ lx_ign L = ign /\ List.concat (lx_mres L) = scanner_terms (Lsub s).
Proof. unfold sub_lexer. apply make_lexer_total. Qed.

(* the contextual lexer reproduces the basic tokens as long as the parser accepts them *)
Lemma ctx_follow root ts : forall p rs s sf fuel,
  raw_run p rs -> map (tok_of m text st) (filter live rs) = ts ->
  run s ts = Some sf -> (List.length ts < fuel)%nat ->
  ctx_lex m cok text pstate accepts step fuel terms ign always root s p = (ts, CEOF).
Proof.
  induction ts as [|t ts IH]; intros p rs s sf fuel Hr Hts Hrun Hf;
    (destruct fuel as [|f]; [cbn in Hf; lia|]); cbn [ctx_lex];
    destruct (sub_lexer_total s) as (L & EL & HLt & HLi & HLm); rewrite EL;
    pose proof (nt_follow s L HLi HLm p rs Hr (S (String.length text - p))) as Hnt.
  - destruct (filter live rs) as [|r frs]; [|discriminate].
    rewrite Hnt by lia. reflexivity.
  - destruct (filter live rs) as [|r frs] eqn:Ef; [discriminate|].
    cbn [map] in Hts. injection Hts as Ht Hts'.
    cbn [map run] in Hrun. destruct (step s t) as [s'|] eqn:Est; [|discriminate].
    destruct Hnt as (X' & Ent & Etok); [lia|rewrite Ht; eapply Hacc; eauto|].
    rewrite Ent, HLt, Etok, Ht, Est. cbn [rstart rlen].
    destruct (raw_run_after p rs Hr r frs Ef) as (rs' & Hr' & Ef').
    rewrite (IH (rstart r + rlen r)%nat rs' s' sf f); auto.
    + now rewrite Ef'.
    + cbn in Hf. lia.
Qed.

(* C07, contextual part *)
Theorem contextual_refines_basic root ts sf s0 :
  make_lexer m cok terms ign = Some root ->
  lex_from m text root 0 = (ts, AtEOF) ->
  run s0 ts = Some sf ->
  forall fuel, (List.length ts < fuel)%nat ->
  ctx_lex m cok text pstate accepts step fuel terms ign always root s0 0 = (ts, CEOF).
Proof.
  intros Hroot Hlex Hrun fuel Hf.
  destruct (make_lexer_total terms ign) as (root' & E & HRt & HRi & HRm).
  rewrite Hroot in E. injection E as <-.
  unfold Lexer.lex_from in Hlex.
  destruct (Lexer.lex_raw m text (S (String.length text - 0)) (lx_mres root) 0) as [rs e] eqn:Er.
  injection Hlex as Hts ->.
  eapply ctx_follow; eauto.
  - eapply lex_raw_run; eauto.
  - rewrite <- Hts, HRt, HRi. reflexivity.
Qed.

End Run.

End Contextual.
