(* ContextualLexer driven by the LALR driver of LR/Driver.v on a concrete parse table
   (lark/lexer.py: ContextualLexer.__init__ / lex; lark/parsers/lalr_parser.py:
   parse_from_state pulling tokens from lexer.lex(state) and feeding them).  No proofs here.

   The parser state of Lex/Lexer.ctx_lex is the driver's configuration (state stack + value
   stack); the accept set of a configuration is the set of keys of the table row of its top
   state (ParseTable.states[parser_state.position].keys()); one parser step is one
   feed_token call.  ContextualLexer.__init__'s dictionary of per-state lexers, shared through
   lexer_by_tokens[frozenset(accepts)], is build_lexers. *)
From Coq Require Import List Bool String Ascii Arith.
From LV Require Import Base.Prelude Cfg.Grammar LR.Driver Lex.LexerBase Gen.LexerSortKey Lex.Lexer.
Import ListNotations.

Fixpoint index_of (nm : string) (l : list string) : nat :=
  match l with
  | [] => 0
  | x :: r => if String.eqb nm x then 0 else S (index_of nm r)
  end.

Section CtxLR.

Variable fold : ascii -> ascii.
Variable m : term -> string -> nat -> option nat.
Variable cok : list term -> bool.
Variable text : string.
Variable terms : list term.            (* conf.terminals *)
Variable ign always : list string.
Variable R : rows.                     (* ParseTable.states, terminals numbered by their index in conf.terminals *)
Variable q0 qe : state.
Variable dfuel : nat.                  (* fuel of one feed_token call *)

(* token.type as the terminal number the table is keyed by: the index in conf.terminals;
   "$END" is numbered len(terminals)+1; a type that names no terminal gets the number
   len(terminals), which keys no row (rows_known) *)
Definition end_name : string := "$END".
Definition tnum (nm : string) : nat :=
  if String.eqb nm end_name then S (List.length terms) else index_of nm (map tname terms).
Definition ttype (t : tok) : nat := tnum (ktype t).

Definition P : ptable := ptable_of_rows R q0 qe.

Definition sym_names (X : symbol) : list string :=
  match X with
  | T k => if Nat.eqb k (S (List.length terms)) then [end_name]
           else match nth_error terms k with Some t => [tname t] | None => [] end
  | NT _ => []
  end.

(* the keys of the row of state q that name terminals of the lexer
   ([n for n in states[q].keys() if n in terminals_by_name]) *)
Definition row_accepts (q : state) : list string := flat_map sym_names (choices R q).

Definition lr_accepts (c : config tok) : list string :=
  match sstack c with q :: _ => row_accepts q | [] => [] end.

Definition lr_step (c : config tok) (t : tok) : option (config tok) :=
  match feed tok ttype P dfuel c t false with Shifted c' => Some c' | _ => None end.

Definition rows_known : bool :=
  forallb (fun qr : state * list (symbol * action) =>
             forallb (fun e : symbol * action =>
                        match fst e with T k => negb (Nat.eqb k (List.length terms)) | NT _ => true end)
                     (snd qr)) R.

(* Lark(parser='lalr', lexer='contextual').parse(text): tokens pulled from ContextualLexer.lex
   one by one, each fed to the driver; at the end of the text the $END token is fed *)
Inductive ctx_outcome :=
| CxTree (t : dtree tok)                 (* the parse result *)
| CxLex (ts : list tok) (e : ctx_end)    (* the lexer (or the parser, e = CParse) stopped the run *)
| CxEnd (ts : list tok).                 (* $END was not accepted *)

Fixpoint run_cfg (c : config tok) (ts : list tok) : option (config tok) :=
  match ts with
  | [] => Some c
  | t :: r => match lr_step c t with Some c' => run_cfg c' r | None => None end
  end.

Definition ctx_parse (fuel : nat) (root : blexer) (end_tok : tok) : ctx_outcome :=
  match ctx_lex fold m cok text (config tok) lr_accepts lr_step fuel terms ign always root (init_config P) 0 with
  | (ts, CEOF) =>
      match run_cfg (init_config P) ts with       (* the configuration the loop has reached *)
      | Some cf => match feed tok ttype P dfuel cf end_tok true with
                   | Accepted t => CxTree t
                   | _ => CxEnd ts
                   end
      | None => CxEnd ts
      end
  | (ts, e) => CxLex ts e
  end.

(* ---------------------------------------------------------------- ContextualLexer.__init__ *)

Definition set_eqb (a b : list string) : bool :=
  forallb (fun x => mem_string x b) a && forallb (fun x => mem_string x a) b.

(* BasicLexer(lexer_conf) for accepts = set(accepts) | set(conf.ignore) | set(always_accept) *)
Definition lexer_for (acc : list string) : option blexer :=
  make_lexer m cok (filter (fun t => mem_string (tname t) acc || mem_string (tname t) ign
                                     || mem_string (tname t) always) terms) ign.

Fixpoint cache_find (k : list string) (cache : list (list string * option blexer)) : option (option blexer) :=
  match cache with
  | [] => None
  | (k', L) :: r => if set_eqb k k' then Some L else cache_find k r
  end.

(* for state, accepts in states.items(): key = frozenset(accepts); try: lexer = lexer_by_tokens[key]
   except KeyError: ... lexer_by_tokens[key] = lexer;  self.lexers[state] = lexer.
   Result: (state, lexer, built-now?) in the order of the states *)
Fixpoint build_lexers (states : list (state * list string)) (cache : list (list string * option blexer))
  : list (state * option blexer * bool) :=
  match states with
  | [] => []
  | (q, acc) :: r =>
      match cache_find acc cache with
      | Some L => (q, L, false) :: build_lexers r cache
      | None => let L := lexer_for acc in (q, L, true) :: build_lexers r ((acc, L) :: cache)
      end
  end.

End CtxLR.
