(* The compiled alternation  (?P<n1>r1)|...|(?P<nk>rk)  of Scanner._build_mres, and the Scanner
   object (lark/lexer.py: Scanner.__init__ / _build_mres / match / fullmatch) over it.
   No proofs here (see Alt_proofs.v).

   Two levels.

   (1) ORACLE LEVEL.  The compiled alternation is an opaque object of the regex engine:
         amatch c text p  =  (m.lastgroup, len(m.group(0)))  of  mre.match(text, p)
         afull  c v       =  m.lastgroup                      of  mre.fullmatch(v)
       where c is the list of terminals joined into that alternation.  The scanner tries its
       alternations in order (sc_match / sc_fullmatch).  What the lexer theorems need from the
       engine is ONE assumption per entry point (alt_first_assumption, alt_full_assumption):
       the alternation reports the first alternative, in order, that matches by itself - with
       that alternative's own match.

   (2) BACKTRACKING LEVEL.  A backtracking engine knows, for one pattern at (text, p), the
       candidate match lengths in the order it tries them (cand); matching the pattern alone
       takes the first candidate; matching an alternation followed by a continuation k tries
       alternative after alternative, candidate after candidate, and takes the first
       candidate k accepts (alt_bt).  Nothing follows the alternation in Scanner.match
       (k = accept everything); the end anchor follows it in Scanner.fullmatch. *)
From Coq Require Import List Bool String Ascii Arith.
From LV Require Import Base.Prelude Lex.LexerBase Gen.LexerSortKey Lex.Lexer.
Import ListNotations.

(* ---------------------------------------------------------------- (2) backtracking level *)
Section Backtracking.

Variable cand : term -> string -> nat -> list nat.

(* re.compile(t.pattern.to_regexp()).match(text, p) : the pattern alone *)
Definition m_of (t : term) (text : string) (p : nat) : option nat := hd_error (cand t text p).

Fixpoint alt_bt (k : nat -> bool) (alts : list term) (text : string) (p : nat) : option (term * nat) :=
  match alts with
  | [] => None
  | t :: r =>
      match find k (cand t text p) with
      | Some n => Some (t, n)
      | None => alt_bt k r text p
      end
  end.

(* mre.match(text, p): nothing follows the alternation *)
Definition alt_match_bt (alts : list term) (text : string) (p : nat) : option (term * nat) :=
  alt_bt (fun _ => true) alts text p.

(* mre.fullmatch(v): the end of v follows the alternation *)
Definition alt_full_bt (alts : list term) (v : string) : option (term * nat) :=
  alt_bt (fun n => Nat.eqb n (String.length v)) alts v 0.

End Backtracking.

(* ---------------------------------------------------------------- (1) oracle level *)
Section ScannerObject.

Variable fold : ascii -> ascii.     (* the meaning of flag i on one character (see Lexer.v) *)
Variable m : term -> string -> nat -> option nat.
Variable amatch : list term -> string -> nat -> option (string * nat).
Variable afull : list term -> string -> option string.
Variable cok : list term -> bool.

Record scanner := mkScanner {
  sc_terminals : list term;       (* self.terminals *)
  sc_allowed : list string;       (* self.allowed_types *)
  sc_mres : list (list term) }.   (* self._mres : one entry per compiled alternation *)

(* Scanner.__init__ *)
Definition scanner_init (ts : list term) : option scanner :=
  match scanner_mres cok ts with
  | Some mres => Some (mkScanner ts (map tname ts) mres)
  | None => None
  end.

(* Scanner.match: for mre in self._mres: m = mre.match(...); if m: return m.group(0), m.lastgroup *)
Fixpoint sc_match (mres : list (list term)) (text : string) (p : nat) : option (string * nat) :=
  match mres with
  | [] => None
  | c :: r => match amatch c text p with Some x => Some x | None => sc_match r text p end
  end.

(* Scanner.fullmatch: for mre in self._mres: m = mre.fullmatch(text); if m: return m.lastgroup *)
Fixpoint sc_fullmatch (mres : list (list term)) (v : string) : option string :=
  match mres with
  | [] => None
  | c :: r => match afull c v with Some x => Some x | None => sc_fullmatch r v end
  end.

Definition named (x : option (term * nat)) : option (string * nat) :=
  match x with Some (t, n) => Some (tname t, n) | None => None end.

(* THE assumption about Scanner.match's alternations: an alternation of named groups matches
   iff some alternative matches by itself, and then reports the first such alternative (in
   order) with that alternative's own match end. *)
Definition alt_first_assumption : Prop :=
  forall c text p, amatch c text p = named (first_some (fun t => m t text p) c).

(* ... and about UnlessCallback's scanner (string terminals only): fullmatch reports the first
   string that equals the value (case-folded iff flag i). *)
Definition alt_full_assumption : Prop :=
  forall c v, forallb (fun K => negb (tre K)) c = true ->
              afull c v = option_map tname (find (fun K => str_full fold K v) c).

(* _create_unless: callback[retok.name] = UnlessCallback(Scanner(unless, ...)) and
   UnlessCallback.__call__: res = self.scanner.fullmatch(t.value); if res is not None: t.type = res *)
Definition report_o (terms : list term) (X : term) (v : string) : option string :=
  if tre X then
    match unless_of m terms X with
    | [] => Some (tname X)                       (* no callback for this type *)
    | u =>
        match scanner_init u with
        | None => None                           (* the callback's scanner could not be built *)
        | Some sc =>
            match sc_fullmatch (sc_mres sc) v with
            | Some nm => Some nm
            | None => Some (tname X)
            end
        end
    end
  else Some (tname X).

End ScannerObject.
