(* Types shared by the regenerated lexer sort key (Gen/LexerSortKey.v) and the lexer model.
   No proofs here. *)
From Coq Require Import ZArith List Bool String Ascii.
Import ListNotations.

(* A TerminalDef as the lexer sees it: name, priority, pattern kind (PatternRE / PatternStr),
   pattern.value, pattern.flags, pattern.max_width. *)
Record term := mkTerm {
  tname : string;
  tprio : Z;
  tre : bool;
  tvalue : string;
  tflags : list ascii;
  tmaxw : Z }.

(* len(x.pattern.value) *)
Definition tvlen (x : term) : Z := Z.of_nat (String.length (tvalue x)).

(* Components of a Python sort-key tuple: an int or a str.  Tuples compare lexicographically;
   ints by value, strs by code point (String.compare). *)
Inductive keyc := KZ (z : Z) | KS (s : string).

Definition keyc_compare (a b : keyc) : comparison :=
  match a, b with
  | KZ x, KZ y => Z.compare x y
  | KS x, KS y => String.compare x y
  | KZ _, KS _ => Lt
  | KS _, KZ _ => Gt
  end.

Fixpoint key_compare (a b : list keyc) : comparison :=
  match a, b with
  | [], [] => Eq
  | [], _ :: _ => Lt
  | _ :: _, [] => Gt
  | x :: a', y :: b' =>
      match keyc_compare x y with
      | Eq => key_compare a' b'
      | c => c
      end
  end.

Definition key_leb (a b : list keyc) : bool :=
  match key_compare a b with Gt => false | _ => true end.
