(* Proofs about the scanner and the token loop of Lex/Lexer.v:
   first-alternative-wins over chunked alternations, chunking, tiling. *)
From Coq Require Import ZArith List Bool String Ascii Arith Lia Sorted Permutation.
From LV Require Import Base.Prelude Lex.LexerBase Gen.LexerSortKey Lex.Lexer Lex.LexerOrder_proofs.
Import ListNotations.

(* ---------------------------------------------------------------- first_some *)

Lemma first_some_spec {A B} (f : A -> option B) l x b :
  first_some f l = Some (x, b) ->
  exists pre post, l = pre ++ x :: post /\ f x = Some b /\ forall u, In u pre -> f u = None.
Proof.
  induction l as [|y r IH]; cbn; [discriminate|].
  destruct (f y) eqn:E.
  - intros H; injection H as <- <-. exists [], r. repeat split; auto. intros u [].
  - intros H. destruct (IH H) as (pre & post & -> & Hx & Hpre).
    exists (y :: pre), post. repeat split; auto.
    intros u [<-|Hu]; auto.
Qed.

Lemma first_some_none {A B} (f : A -> option B) l :
  first_some f l = None <-> forall u, In u l -> f u = None.
Proof.
  induction l as [|y r IH]; cbn.
  - split; [intros _ u []|reflexivity].
  - destruct (f y) eqn:E.
    + split; [discriminate|]. intros H. specialize (H y (or_introl eq_refl)). congruence.
    + rewrite IH. split.
      * intros H u [<-|Hu]; auto.
      * intros H u Hu. apply H. now right.
Qed.

Lemma first_some_app {A B} (f : A -> option B) l1 l2 :
  first_some f (l1 ++ l2) = match first_some f l1 with Some x => Some x | None => first_some f l2 end.
Proof.
  induction l1 as [|y r IH]; cbn; [reflexivity|].
  destruct (f y); [reflexivity|apply IH].
Qed.

(* the converse: a split with nothing matching before x determines the result *)
Lemma first_some_intro {A B} (f : A -> option B) pre x post b :
  (forall u, In u pre -> f u = None) -> f x = Some b ->
  first_some f (pre ++ x :: post) = Some (x, b).
Proof.
  intros Hpre Hx. rewrite first_some_app.
  destruct (first_some f pre) as [[y c]|] eqn:E.
  - apply first_some_spec in E. destruct E as (p1 & p2 & -> & Hy & _).
    rewrite Hpre in Hy; [discriminate|]. apply in_or_app. right. now left.
  - cbn. now rewrite Hx.
Qed.

(* first match in a sub-list that still contains the winner *)
Lemma first_some_filter {A B} (f : A -> option B) (keep : A -> bool) l x b :
  first_some f l = Some (x, b) -> keep x = true -> first_some f (filter keep l) = Some (x, b).
Proof.
  intros H K. apply first_some_spec in H. destruct H as (pre & post & -> & Hx & Hpre).
  rewrite filter_app. cbn. rewrite K. apply first_some_intro; auto.
  intros u Hu. apply filter_In in Hu. now apply Hpre.
Qed.

Section Proofs.

Variable m : term -> string -> nat -> option nat.
Variable cok : list term -> bool.
Variable text : string.

Notation scan := (Lexer.scan m text).
Notation lex_raw := (Lexer.lex_raw m text).

(* ---------------------------------------------------------------- scanning chunked alternations *)

(* trying the compiled alternations in order = one scan over their concatenation *)
Lemma scan_concat mres p : scan mres p = first_some (fun t => m t text p) (List.concat mres).
Proof.
  induction mres as [|c r IH]; cbn; [reflexivity|].
  rewrite first_some_app. unfold chunk_match.
  destruct (first_some (fun t => m t text p) c); [reflexivity|apply IH].
Qed.

Theorem scanner_first mres p t n :
  scan mres p = Some (t, n) ->
  exists pre post, List.concat mres = pre ++ t :: post /\ m t text p = Some n /\
                   forall u, In u pre -> m u text p = None.
Proof. rewrite scan_concat. apply (first_some_spec (fun t => m t text p)). Qed.

Lemma scan_none mres p :
  scan mres p = None <-> forall u, In u (List.concat mres) -> m u text p = None.
Proof. rewrite scan_concat. apply (first_some_none (fun t => m t text p)). Qed.

(* with a strongly sorted scanner list the winner precedes, in the documented order, every
   other terminal of the scanner that matches at p *)
Theorem scanner_first_documented mres p t n :
  StronglySorted doc_le (List.concat mres) ->
  scan mres p = Some (t, n) ->
  In t (List.concat mres) /\ m t text p = Some n /\
  forall u, In u (List.concat mres) -> m u text p <> None -> doc_le t u.
Proof.
  intros Hs H. destruct (scanner_first _ _ _ _ H) as (pre & post & E & Hm & Hpre).
  split; [rewrite E; apply in_or_app; right; now left|]. split; [assumption|].
  intros u Hu Hmu. rewrite E in Hu. apply in_app_or in Hu. destruct Hu as [Hu|[<-|Hu]].
  - now apply Hpre in Hu.
  - apply doc_le_refl.
  - eapply sorted_split_le; eauto.
Qed.

(* ---------------------------------------------------------------- _build_mres *)

Lemma build_loop_done n k : forall ts acc mres,
  build_loop cok n k ts acc = LDone mres -> List.concat mres = List.concat (rev acc) ++ ts.
Proof.
  induction n as [|n IH]; intros ts acc mres; destruct ts as [|t ts]; cbn [build_loop].
  - intros H; injection H as <-. now rewrite app_nil_r.
  - discriminate.
  - intros H; injection H as <-. now rewrite app_nil_r.
  - destruct (cok (firstn k (t :: ts))); [|discriminate].
    intros H. apply IH in H. rewrite H. cbn [rev]. rewrite concat_app. cbn [List.concat].
    rewrite app_nil_r, <- app_assoc. f_equal. apply firstn_skipn.
Qed.

Lemma build_loop_retry n k : forall ts acc rest,
  build_loop cok n k ts acc = LRetry rest -> exists pre, ts = pre ++ rest.
Proof.
  induction n as [|n IH]; intros ts acc rest; destruct ts as [|t ts]; cbn [build_loop]; try discriminate.
  destruct (cok (firstn k (t :: ts))).
  - intros H. apply IH in H. destruct H as (pre & H).
    exists (firstn k (t :: ts) ++ pre). rewrite <- app_assoc, <- H. symmetry. apply firstn_skipn.
  - intros H; injection H as <-. now exists [].
Qed.

(* whatever the compile oracle does, the alternations are consecutive slices of a suffix of
   the terminal list (what had been accumulated before a failure is dropped by the code) *)
Theorem build_mres_suffix fuel : forall k ts mres,
  build_mres cok fuel k ts = Some mres -> exists dropped, ts = dropped ++ List.concat mres.
Proof.
  induction fuel as [|f IH]; intros k ts mres; cbn [build_mres]; [discriminate|].
  destruct (build_loop cok (S (List.length ts)) k ts []) as [mr|rest|] eqn:E; try discriminate.
  - intros H; injection H as <-. apply build_loop_done in E. exists []. now rewrite E.
  - intros H. apply IH in H. destruct H as (d & H).
    apply build_loop_retry in E. destruct E as (pre & E).
    exists (pre ++ d). now rewrite <- app_assoc, <- H.
Qed.

(* a compile oracle that only depends on the number of alternatives (the group limit of old
   Pythons; never failing is the special case of this interpreter) *)
Definition cok_monotone : Prop :=
  forall l l', cok l = true -> (List.length l' <= List.length l)%nat -> cok l' = true.

Lemma build_loop_no_retry (Hmono : cok_monotone) n k : forall ts acc rest,
  cok (firstn k ts) = true -> build_loop cok n k ts acc <> LRetry rest.
Proof.
  induction n as [|n IH]; intros ts acc rest Hc; destruct ts as [|t ts]; cbn [build_loop]; try discriminate.
  rewrite Hc. apply IH. eapply Hmono; [exact Hc|].
  rewrite !firstn_length, skipn_length. lia.
Qed.

Lemma build_loop_retry_all (Hmono : cok_monotone) n k ts rest :
  build_loop cok n k ts [] = LRetry rest -> rest = ts.
Proof.
  destruct n as [|n]; destruct ts as [|t ts]; cbn [build_loop]; try discriminate.
  destruct (cok (firstn k (t :: ts))) eqn:Hc.
  - intros H. exfalso. revert H. apply build_loop_no_retry; [assumption|].
    eapply Hmono; [exact Hc|]. rewrite !firstn_length, skipn_length. lia.
  - intros H; now injection H as <-.
Qed.

(* chunking loses nothing and keeps the order *)
Theorem build_mres_concat (Hmono : cok_monotone) fuel : forall k ts mres,
  build_mres cok fuel k ts = Some mres -> List.concat mres = ts.
Proof.
  induction fuel as [|f IH]; intros k ts mres; cbn [build_mres]; [discriminate|].
  destruct (build_loop cok (S (List.length ts)) k ts []) as [mr|rest|] eqn:E; try discriminate.
  - intros H; injection H as <-. apply build_loop_done in E. now rewrite E.
  - apply build_loop_retry_all in E; [|assumption]. subst rest. apply IH.
Qed.

(* ---------------------------------------------------------------- tiling *)

Inductive tiled : nat -> list rawtok -> nat -> Prop :=
| tiled_nil a : tiled a [] a
| tiled_cons a r rs b :
    rstart r = a -> (0 < rlen r)%nat -> tiled (a + rlen r) rs b -> tiled a (r :: rs) b.

Lemma tiled_le a rs b : tiled a rs b -> (a <= b)%nat.
Proof. induction 1; lia. Qed.

(* each raw token is what the scanner answered at its start *)
Definition scanned (mres : list (list term)) (r : rawtok) : Prop :=
  scan mres (rstart r) = Some (rterm r, rlen r).

Hypothesis H_pos : forall t p n, m t text p = Some n -> (0 < n)%nat.
Hypothesis H_bound : forall t p n, m t text p = Some n -> (p + n <= String.length text)%nat.

Theorem lex_raw_tiling mres fuel : forall p rs e,
  (p <= String.length text)%nat -> (String.length text - p < fuel)%nat ->
  lex_raw fuel mres p = (rs, e) ->
  Forall (scanned mres) rs /\
  match e with
  | AtEOF => tiled p rs (String.length text)
  | ErrAt q => tiled p rs q /\ (q < String.length text)%nat /\
               forall t, In t (List.concat mres) -> m t text q = None
  | NoFuel => False
  end.
Proof.
  induction fuel as [|f IH]; intros p rs e Hp Hf; [lia|].
  cbn [Lexer.lex_raw].
  destruct (String.length text <=? p)%nat eqn:El.
  - apply Nat.leb_le in El. intros H; injection H as <- <-.
    split; [constructor|]. replace p with (String.length text) by lia. constructor.
  - apply Nat.leb_gt in El.
    destruct (scan mres p) as [[t n]|] eqn:Es.
    + destruct (Lexer.lex_raw m text f mres (p + n)) as [ts e'] eqn:Er.
      intros H; injection H as <- <-.
      destruct (scanner_first _ _ _ _ Es) as (_ & _ & _ & Hm & _).
      pose proof (H_pos _ _ _ Hm). pose proof (H_bound _ _ _ Hm).
      destruct (IH (p + n)%nat ts e') as [Hall He]; [lia|lia|assumption|].
      split; [constructor; [exact Es|assumption]|].
      destruct e'.
      * constructor; auto.
      * destruct He as (Ht & Hq & Hn). repeat split; auto. constructor; auto.
      * assumption.
    + intros H; injection H as <- <-. split; [constructor|].
      repeat split; [constructor|assumption|]. now apply scan_none.
Qed.

End Proofs.
