(* _create_unless / UnlessCallback: the keyword rule, and when removing the embedded string
   terminals from the scanner changes no token. *)
From Coq Require Import ZArith List Bool String Ascii Arith Lia Sorted Permutation.
From LV Require Import Base.Prelude Lex.LexerBase Gen.LexerSortKey Lex.Lexer
     Lex.LexerOrder_proofs Lex.Lexer_proofs.
Import ListNotations.

(* ---------------------------------------------------------------- small facts *)

Lemma mem_string_In x l : mem_string x l = true <-> In x l.
Proof.
  induction l as [|y r IH]; cbn; [split; [discriminate|tauto]|].
  destruct (String.eqb x y) eqn:E.
  - apply String.eqb_eq in E. subst. tauto.
  - apply String.eqb_neq in E. rewrite IH. split; [tauto|]. intros [H|H]; congruence.
Qed.

Lemma mem_string_false x l : mem_string x l = false <-> ~ In x l.
Proof. rewrite <- mem_string_In. destruct (mem_string x l); split; congruence. Qed.

Definition uniq_names (L : list term) : Prop := NoDup (map tname L).

Lemma uniq_names_inj L a b : uniq_names L -> In a L -> In b L -> tname a = tname b -> a = b.
Proof.
  unfold uniq_names. induction L as [|x L IH]; cbn; [tauto|].
  intros Hn. inversion Hn as [|? ? Hx Hn']; subst.
  intros [<-|Ha] [<-|Hb] E; auto.
  - exfalso. apply Hx. rewrite E. now apply in_map.
  - exfalso. apply Hx. rewrite <- E. now apply in_map.
Qed.

Lemma uniq_names_perm L L' : Permutation L L' -> uniq_names L -> uniq_names L'.
Proof. unfold uniq_names. intros P. apply Permutation_NoDup. now apply Permutation_map. Qed.

Lemma uniq_names_filter f L : uniq_names L -> uniq_names (filter f L).
Proof.
  unfold uniq_names. induction L as [|x L IH]; cbn; [auto|].
  intros Hn. inversion Hn as [|? ? Hx Hn']; subst.
  destruct (f x); cbn; auto. constructor; auto.
  intros Hi. apply Hx. apply in_map_iff in Hi. destruct Hi as (y & E & Hy).
  apply filter_In in Hy. apply in_map_iff. exists y. tauto.
Qed.

Lemma find_split {A} (f : A -> bool) l x :
  find f l = Some x ->
  exists pre post, l = pre ++ x :: post /\ f x = true /\ forall u, In u pre -> f u = false.
Proof.
  induction l as [|y r IH]; cbn; [discriminate|].
  destruct (f y) eqn:E.
  - intros H; injection H as <-. exists [], r. repeat split; auto. intros u [].
  - intros H. destruct (IH H) as (pre & post & -> & Hx & Hp).
    exists (y :: pre), post. repeat split; auto. intros u [<-|Hu]; auto.
Qed.

Lemma find_intro {A} (f : A -> bool) pre x post :
  (forall u, In u pre -> f u = false) -> f x = true -> find f (pre ++ x :: post) = Some x.
Proof.
  induction pre as [|y pre IH]; cbn; intros Hp Hx.
  - now rewrite Hx.
  - rewrite (Hp y (or_introl eq_refl)). apply IH; auto.
Qed.

Lemma find_none_iff {A} (f : A -> bool) l : find f l = None <-> forall u, In u l -> f u = false.
Proof.
  split; [apply find_none|].
  induction l as [|y r IH]; cbn; [reflexivity|]. intros H.
  rewrite (H y (or_introl eq_refl)). apply IH. intros u Hu. apply H. now right.
Qed.

(* ---------------------------------------------------------------- strings *)

Section FoldStr.

Variable fold : ascii -> ascii.
Notation str_eqb := (Lexer.str_eqb fold).

Lemma str_eqb_length ci a : forall b, str_eqb ci a b = true -> String.length a = String.length b.
Proof.
  induction a as [|x a IH]; intros [|y b]; cbn; try discriminate; auto.
  intros H. apply andb_true_iff in H. destruct H as [_ H]. f_equal. now apply IH.
Qed.

End FoldStr.

Lemma substring_length s : forall p n,
  (p + n <= String.length s)%nat -> String.length (substring p n s) = n.
Proof.
  induction s as [|c s IH]; intros p n H; cbn in H.
  - assert (p = 0 /\ n = 0)%nat as [-> ->] by lia. reflexivity.
  - destruct p as [|p]; cbn.
    + destruct n as [|n]; cbn; [reflexivity|]. f_equal. apply IH. lia.
    + apply IH. lia.
Qed.

Section FoldStr2.

Variable fold : ascii -> ascii.
Notation str_eqb := (Lexer.str_eqb fold).

(* the case-folded comparison, spelled out *)
Fixpoint fold_str (s : string) : string :=
  match s with EmptyString => EmptyString | String c r => String (fold c) (fold_str r) end.

Lemma str_eqb_exact a : forall b, str_eqb false a b = true <-> a = b.
Proof.
  induction a as [|x a IH]; intros [|y b]; cbn; split; try discriminate; auto.
  - intros H. apply andb_true_iff in H. destruct H as [H1 H2].
    apply Ascii.eqb_eq in H1. apply IH in H2. now subst.
  - intros H; injection H as <- <-. rewrite Ascii.eqb_refl. cbn. now apply IH.
Qed.

Lemma str_eqb_folded a : forall b, str_eqb true a b = true <-> fold_str a = fold_str b.
Proof.
  induction a as [|x a IH]; intros [|y b]; cbn; split; try discriminate; auto.
  - intros H. apply andb_true_iff in H. destruct H as [H1 H2].
    apply Ascii.eqb_eq in H1. apply IH in H2. now rewrite H1, H2.
  - intros H; injection H as H1 H2. rewrite H1, Ascii.eqb_refl. cbn. now apply IH.
Qed.

End FoldStr2.

Section Unless.

Variable fold : ascii -> ascii.
Variable m : term -> string -> nat -> option nat.
Variable text : string.

Notation str_eqb := (Lexer.str_eqb fold).
Notation str_full := (Lexer.str_full fold).
Notation str_match_at := (Lexer.str_match_at fold).
Notation fold_str := (fold_str fold).
Notation emit := (Lexer.emit fold).
Notation tok_of := (Lexer.tok_of fold).

Notation unless_of := (Lexer.unless_of m).
Notation embedded_of := (Lexer.embedded_of m).
Notation embedded := (Lexer.embedded m).
Notation scanner_terms := (Lexer.scanner_terms m).
Notation report := (Lexer.report fold m).
Notation is_unless := (Lexer.is_unless m).

(* K is a keyword of the regexp R: same priority and R's match on K's text is all of it *)
Definition keyword_of (L : list term) (R K : term) : Prop :=
  In K L /\ tre K = false /\ tprio K = tprio R /\
  m R (tvalue K) 0 = Some (String.length (tvalue K)).

Lemma is_unless_spec R K :
  is_unless R K = true <-> tprio K = tprio R /\ m R (tvalue K) 0 = Some (String.length (tvalue K)).
Proof.
  unfold Lexer.is_unless. rewrite andb_true_iff, Z.eqb_eq.
  destruct (m R (tvalue K) 0) as [n|]; [|split; intros [? ?]; discriminate].
  split; intros [H1 H2]; split; auto.
  - apply Nat.eqb_eq in H2. now subst.
  - injection H2 as ->. apply Nat.eqb_refl.
Qed.

Lemma unless_of_in L R K : In K (unless_of L R) <-> keyword_of L R K.
Proof.
  unfold Lexer.unless_of, keyword_of. rewrite filter_In, andb_true_iff, negb_true_iff, is_unless_spec. tauto.
Qed.

Lemma embedded_of_in L R K :
  In K (embedded_of L R) <-> keyword_of L R K /\ flags_sub (tflags K) (tflags R) = true.
Proof. unfold Lexer.embedded_of. now rewrite filter_In, unless_of_in. Qed.

Lemma embedded_in L x :
  In x (embedded L) <-> exists R K, In R L /\ tre R = true /\ In K (embedded_of L R) /\ x = tname K.
Proof.
  unfold Lexer.embedded. rewrite in_flat_map. split.
  - intros (R & HR & Hx). apply filter_In in HR. apply in_map_iff in Hx.
    destruct Hx as (K & <- & HK). exists R, K. tauto.
  - intros (R & K & HR & Hre & HK & ->). exists R. split; [apply filter_In; tauto|].
    now apply in_map.
Qed.

Lemma scanner_terms_in L t :
  In t (scanner_terms L) <-> In t L /\ ~ In (tname t) (embedded L).
Proof. unfold Lexer.scanner_terms. cbv zeta. now rewrite filter_In, negb_true_iff, mem_string_false. Qed.

(* regexp terminals stay in the scanner *)
Lemma regexp_in_scanner L R : uniq_names L -> In R L -> tre R = true -> In R (scanner_terms L).
Proof.
  intros Hu HR Hre. apply scanner_terms_in. split; [assumption|].
  intros Hi. apply embedded_in in Hi. destruct Hi as (R' & K & _ & _ & HK & E).
  apply embedded_of_in in HK. destruct HK as [(HKin & HKs & _) _].
  assert (R = K) by (eapply uniq_names_inj; eauto). congruence.
Qed.

(* keywords and embedding only depend on the pair: they transfer between terminal lists *)
Lemma keyword_of_mono L L' R K : keyword_of L R K -> In K L' -> keyword_of L' R K.
Proof. unfold keyword_of. tauto. Qed.

(* ---------------------------------------------------------------- the keyword rule *)

(* UnlessCallback's fullmatch on a string terminal: equality, case-folded iff flag i *)
Lemma str_full_spec K v :
  str_full K v = true <->
  (if ci_of K then fold_str (tvalue K) = fold_str v else tvalue K = v).
Proof.
  unfold Lexer.str_full. destruct (ci_of K); [apply str_eqb_folded|apply str_eqb_exact].
Qed.

Theorem report_string L X v : tre X = false -> report L X v = tname X.
Proof. unfold Lexer.report. now intros ->. Qed.

Theorem report_no_keyword L X v :
  (forall K, keyword_of L X K -> str_full K v = false) -> report L X v = tname X.
Proof.
  intros H. unfold Lexer.report. destruct (tre X); [|reflexivity].
  destruct (find (fun K => str_full K v) (unless_of L X)) as [K|] eqn:E; [|reflexivity].
  apply find_some in E. destruct E as [Hin Hf]. apply unless_of_in in Hin.
  rewrite H in Hf; [discriminate|assumption].
Qed.

Theorem report_keyword L X v pre K post :
  tre X = true -> L = pre ++ K :: post -> keyword_of L X K -> str_full K v = true ->
  (forall K', In K' pre -> keyword_of L X K' -> str_full K' v = false) ->
  report L X v = tname K.
Proof.
  intros Hre -> HK Hf Hpre. unfold Lexer.report. rewrite Hre.
  unfold Lexer.unless_of. rewrite filter_app. cbn [filter].
  assert (Hk : (negb (tre K) && is_unless X K)%bool = true).
  { destruct HK as (_ & Hs & Hp & Hm). rewrite Hs. cbn. apply is_unless_spec. tauto. }
  rewrite Hk. rewrite find_intro; auto.
  intros u Hu. apply filter_In in Hu. destruct Hu as [Hu1 Hu2].
  apply Hpre; [assumption|]. apply unless_of_in. unfold Lexer.unless_of. apply filter_In.
  split; [|assumption]. apply in_or_app. now left.
Qed.

(* conversely: a re-typed token names a keyword of the chosen regexp that equals the value *)
Theorem report_inv L X v :
  report L X v = tname X \/
  (tre X = true /\ exists K, report L X v = tname K /\ keyword_of L X K /\ str_full K v = true).
Proof.
  unfold Lexer.report. destruct (tre X); [|now left].
  destruct (find (fun K => str_full K v) (unless_of L X)) as [K|] eqn:E; [|now left].
  right. split; [reflexivity|]. exists K. apply find_some in E. destruct E as [Hin Hf].
  apply unless_of_in in Hin. auto.
Qed.

(* ---------------------------------------------------------------- hypotheses about the oracle *)

(* string terminals: m is the prefix test; max_width is len(value) *)
Definition str_oracle (L : list term) : Prop :=
  forall K, In K L -> tre K = false ->
    tmaxw K = tvlen K /\ forall p, m K text p = str_match_at K text p.

(* matches lie inside the text and are not longer than max_width *)
Definition bounded_oracle (L : list term) : Prop :=
  forall t p n, In t L -> m t text p = Some n ->
    (p + n <= String.length text)%nat /\ (Z.of_nat n <= tmaxw t)%Z.

(* embedding is semantic: where an embedded keyword stands in the text, its regexp matches at
   least that much (true of regexps without look-around and anchors) *)
Definition embedding_semantic (L : list term) : Prop :=
  forall R K p k, In R L -> tre R = true -> In K (embedded_of L R) ->
    m K text p = Some k -> exists n, m R text p = Some n /\ (k <= n)%nat.

(* regexp terminals do not overlap one another *)
Definition regexps_disjoint (L : list term) : Prop :=
  forall R1 R2 p, In R1 L -> In R2 L -> tre R1 = true -> tre R2 = true ->
    m R1 text p <> None -> m R2 text p <> None -> R1 = R2.

Definition is_keyword (st : list term) (K : term) : Prop :=
  exists R, In R st /\ tre R = true /\ keyword_of st R K.

(* a keyword and another string terminal of the same priority (both in L) never match at the
   same position: no string terminal extends, or is a case variant of, a keyword *)
Definition keywords_isolated (st L : list term) : Prop :=
  forall K Y p, In K L -> In Y L -> tre Y = false -> is_keyword st K -> tprio Y = tprio K ->
    K <> Y -> m K text p <> None -> m Y text p <> None -> False.

(* a keyword is ignored iff its regexp is *)
Definition ignore_agrees (st : list term) (ign : list string) : Prop :=
  forall R K, In R st -> tre R = true -> keyword_of st R K ->
    mem_string (tname K) ign = mem_string (tname R) ign.

Lemma str_match_full L K p k :
  str_oracle L -> bounded_oracle L -> In K L -> tre K = false -> m K text p = Some k ->
  k = String.length (tvalue K) /\ str_full K (substring p k text) = true.
Proof.
  intros Hs Hb Hin Hk Hm. destruct (Hs K Hin Hk) as [_ Hp]. rewrite Hp in Hm.
  unfold Lexer.str_match_at in Hm.
  destruct (str_eqb (ci_of K) (tvalue K) (substring p (String.length (tvalue K)) text)) eqn:E; [|discriminate].
  injection Hm as <-. split; [reflexivity|exact E].
Qed.

Lemma str_full_match L K p n :
  str_oracle L -> In K L -> tre K = false -> (p + n <= String.length text)%nat ->
  str_full K (substring p n text) = true -> m K text p = Some n.
Proof.
  intros Hs Hin Hk Hb Hf. destruct (Hs K Hin Hk) as [_ Hp]. rewrite Hp.
  unfold Lexer.str_match_at. unfold Lexer.str_full in Hf.
  pose proof (str_eqb_length _ _ _ _ Hf) as Hl. rewrite substring_length in Hl by assumption.
  rewrite Hl, Hf. reflexivity.
Qed.

(* ---------------------------------------------------------------- what one scan step shows *)

(* the observable part of a scan at p with scanner list S and callbacks computed on L:
   reported type, length, ignored? *)
Definition obs_at (L S : list term) (ign : list string) (p : nat) : option (string * nat * bool) :=
  match first_some (fun t => m t text p) S with
  | Some (X, n) => Some (report L X (substring p n text), n, mem_string (tname X) ign)
  | None => None
  end.

Lemma first_in_sorted S p X n :
  StronglySorted doc_le S -> first_some (fun t => m t text p) S = Some (X, n) ->
  In X S /\ m X text p = Some n /\ forall u, In u S -> m u text p <> None -> doc_le X u.
Proof.
  intros Hs H. apply (first_some_spec (fun t => m t text p)) in H.
  destruct H as (pre & post & E & Hm & Hpre).
  split; [rewrite E; apply in_or_app; right; now left|]. split; [assumption|].
  intros u Hu Hmu. rewrite E in Hu. apply in_app_or in Hu. destruct Hu as [Hu|[<-|Hu]].
  - now apply Hpre in Hu.
  - apply doc_le_refl.
  - eapply sorted_split_le; eauto.
Qed.

Lemma first_some_exists S p u :
  In u S -> m u text p <> None -> exists X n, first_some (fun t => m t text p) S = Some (X, n).
Proof.
  intros Hu Hm. destruct (first_some (fun t => m t text p) S) as [[X n]|] eqn:E; [eauto|].
  exfalso. apply Hm. eapply (first_some_none (fun t => m t text p)); eauto.
Qed.

(* in a strongly sorted list with unique names, "first match" is determined by the order *)
Lemma first_unique S p X n Y :
  uniq_names S -> StronglySorted doc_le S ->
  first_some (fun t => m t text p) S = Some (X, n) ->
  In Y S -> m Y text p <> None -> doc_le Y X -> Y = X.
Proof.
  intros Hu Hs H HY HmY Hle. destruct (first_in_sorted _ _ _ _ Hs H) as (HX & _ & Hfirst).
  eapply uniq_names_inj; eauto. apply doc_le_antisym_name; auto.
Qed.

Lemma doc_le_prio a b : doc_le a b -> (tprio b <= tprio a)%Z.
Proof. unfold doc_le. lia. Qed.

Lemma doc_le_maxw a b : doc_le a b -> tprio a = tprio b -> (tmaxw b <= tmaxw a)%Z.
Proof. unfold doc_le. lia. Qed.

Section Removal.

Variable st : list term.
Variable ign : list string.
Hypothesis Huniq : uniq_names st.
Hypothesis Hsorted : StronglySorted doc_le st.
Hypothesis Hstr : str_oracle st.
Hypothesis Hbound : bounded_oracle st.
Hypothesis Hsem : embedding_semantic st.
Hypothesis Hdisj : regexps_disjoint st.
Hypothesis Hiso : keywords_isolated st st.
Hypothesis Hign : ignore_agrees st ign.

(* removing the embedded strings from the scanner does not change what a scan step shows *)
Theorem removal_step p : obs_at st (scanner_terms st) ign p = obs_at st st ign p.
Proof.
  unfold obs_at.
  destruct (first_some (fun t => m t text p) st) as [[X n]|] eqn:EA.
  2:{ destruct (first_some (fun t => m t text p) (scanner_terms st)) as [[Y k]|] eqn:EB; [|reflexivity].
      exfalso. apply (first_some_spec (fun t => m t text p)) in EB.
      destruct EB as (pre & post & E & Hm & _).
      assert (HY : In Y (scanner_terms st)) by (rewrite E; apply in_or_app; right; now left).
      apply scanner_terms_in in HY.
      rewrite (proj1 (first_some_none (fun t => m t text p) st) EA Y) in Hm by tauto. discriminate. }
  destruct (first_in_sorted _ _ _ _ Hsorted EA) as (HX & HmX & HfirstA).
  destruct (in_dec string_dec (tname X) (embedded st)) as [Hemb|Hnot].
  2:{ (* the winner stays in the scanner *)
      unfold Lexer.scanner_terms. cbv zeta.
      rewrite (first_some_filter _ _ _ _ _ EA); [reflexivity|].
      apply negb_true_iff. now apply mem_string_false. }
  (* the winner K := X is an embedded keyword of some regexp R *)
  apply embedded_in in Hemb. destruct Hemb as (R & K & HR & HRre & HK & EK).
  pose proof HK as HK'. apply embedded_of_in in HK'. destruct HK' as [HKw Hfl].
  pose proof HKw as (HKin & HKs & HKp & HKm).
  assert (K = X) by (eapply uniq_names_inj; eauto). subst K.
  destruct (Hsem R X p n HR HRre HK HmX) as (nR & HmR & Hle).
  assert (HRX : doc_le X R) by (apply HfirstA; [assumption|congruence]).
  destruct (Hbound _ _ _ HR HmR) as [HbR HwR].
  destruct (str_match_full _ _ _ _ Hstr Hbound HX HKs HmX) as [Hn HfullX].
  destruct (Hstr X HX HKs) as [HwX _].
  assert (nR = n).
  { pose proof (doc_le_maxw _ _ HRX HKp). unfold tvlen in HwX. lia. }
  subst nR.
  assert (HRsc : In R (scanner_terms st)) by now apply regexp_in_scanner.
  destruct (first_some_exists (scanner_terms st) p R HRsc) as (Y & k & EB); [congruence|].
  assert (HsB : StronglySorted doc_le (scanner_terms st)) by now apply filter_sorted.
  destruct (first_in_sorted _ _ _ _ HsB EB) as (HY & HmY & HfirstB).
  pose proof HY as HY'. apply scanner_terms_in in HY'. destruct HY' as [HYst HYne].
  assert (HXY : doc_le X Y) by (apply HfirstA; [assumption|congruence]).
  assert (HYR : doc_le Y R) by (apply HfirstB; [assumption|congruence]).
  assert (Y = R).
  { destruct (tre Y) eqn:HYre.
    - apply (Hdisj Y R p); auto; congruence.
    - exfalso. apply (Hiso X Y p); auto.
      + exists R. tauto.
      + pose proof (doc_le_prio _ _ HXY). pose proof (doc_le_prio _ _ HYR). lia.
      + intros ->. apply HYne. apply embedded_in. exists R, Y. tauto.
      + congruence.
      + congruence. }
  subst Y. rewrite EB. assert (k = n) by congruence. subst k.
  f_equal. f_equal; [f_equal|].
  - (* the callback of R re-types to X *)
    rewrite (report_string st X) by assumption.
    apply (first_some_spec (fun t => m t text p)) in EA.
    destruct EA as (pre & post & E & _ & Hpre).
    eapply report_keyword; eauto.
    intros K' HK'pre (HK'in & HK's & _) .
    destruct (str_full K' (substring p n text)) eqn:Ef; [|reflexivity].
    exfalso. destruct (Hbound _ _ _ HX HmX) as [Hb _].
    pose proof (str_full_match st K' p n Hstr HK'in HK's Hb Ef) as Hm'.
    rewrite Hpre in Hm' by assumption. discriminate.
  - symmetry. now apply Hign.
Qed.

End Removal.


Lemma emit_cons L ign r rs :
  emit m text L ign (r :: rs) =
  if mem_string (tname (rterm r)) ign then emit m text L ign rs
  else tok_of m text L r :: emit m text L ign rs.
Proof. unfold Lexer.emit, ignored. cbn [filter]. now destruct (mem_string (tname (rterm r)) ign). Qed.

(* two scanners that show the same thing at every position produce the same token stream *)
Lemma lex_raw_obs_ext L ign mres1 mres2 :
  (forall p, obs_at L (List.concat mres1) ign p = obs_at L (List.concat mres2) ign p) ->
  forall fuel p rs1 e1 rs2 e2,
    Lexer.lex_raw m text fuel mres1 p = (rs1, e1) ->
    Lexer.lex_raw m text fuel mres2 p = (rs2, e2) ->
    emit m text L ign rs1 = emit m text L ign rs2 /\ e1 = e2.
Proof.
  intros Hobs. induction fuel as [|f IH]; intros p rs1 e1 rs2 e2; cbn [Lexer.lex_raw].
  - destruct (String.length text <=? p)%nat; intros H1 H2;
      injection H1 as <- <-; injection H2 as <- <-; auto.
  - destruct (String.length text <=? p)%nat.
    { intros H1 H2; injection H1 as <- <-; injection H2 as <- <-; auto. }
    specialize (Hobs p). unfold obs_at in Hobs. rewrite <- !scan_concat in Hobs.
    destruct (Lexer.scan m text mres1 p) as [[X1 n1]|]; destruct (Lexer.scan m text mres2 p) as [[X2 n2]|];
      try discriminate.
    + injection Hobs as Hr Hn Hi. subst n2.
      destruct (Lexer.lex_raw m text f mres1 (p + n1)) as [ts1 e1'] eqn:E1.
      destruct (Lexer.lex_raw m text f mres2 (p + n1)) as [ts2 e2'] eqn:E2.
      intros H1 H2; injection H1 as <- <-; injection H2 as <- <-.
      destruct (IH _ _ _ _ _ E1 E2) as [Hts He]. split; [|assumption].
      rewrite !emit_cons. cbn [rterm]. rewrite Hi.
      destruct (mem_string (tname X2) ign); [assumption|].
      f_equal; [|assumption]. unfold Lexer.tok_of. cbn [rterm rstart rlen]. now rewrite Hr.
    + intros H1 H2; injection H1 as <- <-; injection H2 as <- <-; auto.
Qed.

Section RemovalLex.

Variable st : list term.
Variable ign : list string.
Hypothesis Huniq : uniq_names st.
Hypothesis Hsorted : StronglySorted doc_le st.
Hypothesis Hstr : str_oracle st.
Hypothesis Hbound : bounded_oracle st.
Hypothesis Hsem : embedding_semantic st.
Hypothesis Hdisj : regexps_disjoint st.
Hypothesis Hiso : keywords_isolated st st.
Hypothesis Hign : ignore_agrees st ign.

(* the lexer whose scanner keeps every terminal and the real one (embedded strings removed)
   yield the same tokens and end the same way *)
Theorem removal_lex mresA mresB fuel p rsA eA rsB eB :
  List.concat mresA = st -> List.concat mresB = scanner_terms st ->
  Lexer.lex_raw m text fuel mresA p = (rsA, eA) ->
  Lexer.lex_raw m text fuel mresB p = (rsB, eB) ->
  emit m text st ign rsB = emit m text st ign rsA /\ eB = eA.
Proof.
  intros EA EB HA HB.
  apply (lex_raw_obs_ext st ign mresB mresA) with (fuel := fuel) (p := p); auto.
  intros q. rewrite EA, EB. now apply removal_step.
Qed.

End RemovalLex.

End Unless.
