(* Proofs about Lex/Alt.v: the Scanner object over opaque alternations equals the scan of
   Lex/Lexer.v under ONE assumption per entry point; the assumption holds for a backtracking
   engine when nothing follows the alternation (Scanner.match) and for single-candidate
   alternatives when the end anchor follows it (Scanner.fullmatch on string terminals); it is
   false in general when something follows the alternation. *)
From Coq Require Import ZArith List Bool String Ascii Arith Lia Sorted Permutation.
From LV Require Import Base.Prelude Lex.LexerBase Gen.LexerSortKey Lex.Lexer Lex.LexerOrder_proofs
     Lex.Lexer_proofs Lex.Unless_proofs Lex.LexerTop_proofs Lex.Alt.
Import ListNotations.

(* ---------------------------------------------------------------- backtracking level *)
Section BT.

Variable cand : term -> string -> nat -> list nat.

Lemma find_true {A} (l : list A) : find (fun _ => true) l = hd_error l.
Proof. now destruct l. Qed.

(* nothing follows the alternation: first alternative that matches by itself, its own match *)
Theorem alt_match_bt_first alts text p :
  alt_match_bt cand alts text p = first_some (fun t => m_of cand t text p) alts.
Proof.
  unfold alt_match_bt, m_of. induction alts as [|t r IH]; cbn; [reflexivity|].
  rewrite find_true. destruct (hd_error (cand t text p)); [reflexivity|apply IH].
Qed.

(* in general: the first alternative one of whose candidates the continuation accepts *)
Theorem alt_bt_spec k alts text p t n :
  alt_bt cand k alts text p = Some (t, n) ->
  exists pre post, alts = pre ++ t :: post /\ In n (cand t text p) /\ k n = true /\
                   (forall u j, In u pre -> In j (cand u text p) -> k j = false).
Proof.
  induction alts as [|a r IH]; cbn; [discriminate|].
  destruct (find k (cand a text p)) as [j|] eqn:E.
  - intros H; injection H as <- <-. apply find_some in E. destruct E as [E1 E2].
    exists [], r. repeat split; auto. intros u j' [].
  - intros H. destruct (IH H) as (pre & post & -> & Hin & Hk & Hpre).
    exists (a :: pre), post. repeat split; auto.
    intros u j [<-|Hu] Hj; [|eauto]. eapply find_none in E; eauto.
Qed.

Theorem alt_bt_none k alts text p :
  alt_bt cand k alts text p = None <-> forall u j, In u alts -> In j (cand u text p) -> k j = false.
Proof.
  induction alts as [|a r IH]; cbn.
  - split; [intros _ u j []|reflexivity].
  - destruct (find k (cand a text p)) as [j|] eqn:E.
    + split; [discriminate|]. intros H. apply find_some in E. destruct E as [E1 E2].
      rewrite (H a j (or_introl eq_refl) E1) in E2. discriminate.
    + rewrite IH. split.
      * intros H u j [<-|Hu] Hj; [eapply find_none in E; eauto|eauto].
      * intros H u j Hu Hj. eapply H; eauto.
Qed.

End BT.

(* a string terminal as a backtracking pattern: one candidate, its own length, iff the prefix
   test succeeds *)
Definition cand_str (fold : ascii -> ascii) (t : term) (text : string) (p : nat) : list nat :=
  match str_match_at fold t text p with Some n => [n] | None => [] end.

Lemma substring_0_all s : substring 0 (String.length s) s = s.
Proof. induction s as [|c s IH]; cbn; [reflexivity|]. now rewrite IH. Qed.

Lemma cand_str_full fold K v :
  find (fun n => Nat.eqb n (String.length v)) (cand_str fold K v 0) =
  if str_full fold K v then Some (String.length v) else None.
Proof.
  unfold cand_str, str_match_at, str_full.
  destruct (str_eqb fold (ci_of K) (tvalue K) (substring 0 (String.length (tvalue K)) v)) eqn:E; cbn.
  - destruct (Nat.eqb (String.length (tvalue K)) (String.length v)) eqn:El.
    + apply Nat.eqb_eq in El. rewrite El in *. rewrite substring_0_all in E. now rewrite E.
    + destruct (str_eqb fold (ci_of K) (tvalue K) v) eqn:Ef; [|reflexivity].
      apply str_eqb_length in Ef. rewrite Ef, Nat.eqb_refl in El. discriminate.
  - destruct (str_eqb fold (ci_of K) (tvalue K) v) eqn:Ef; [|reflexivity].
    pose proof (str_eqb_length _ _ _ _ Ef) as Hl. rewrite Hl, substring_0_all in E. congruence.
Qed.

(* the end anchor follows the alternation, every alternative is a string: the first string that
   equals the value *)
Theorem alt_full_bt_strings fold cand c v :
  (forall K, In K c -> cand K v 0 = cand_str fold K v 0) ->
  option_map (fun x : term * nat => tname (fst x)) (alt_full_bt cand c v) =
  option_map tname (find (fun K => str_full fold K v) c).
Proof.
  unfold alt_full_bt. induction c as [|K r IH]; intros Hc; cbn; [reflexivity|].
  rewrite (Hc K (or_introl eq_refl)), cand_str_full.
  destruct (str_full fold K v); [reflexivity|]. apply IH. intros K' HK'. apply Hc. now right.
Qed.

(* ... but "the first alternative that matches by itself" is NOT what an alternation followed by
   something reports: A: "a", B: "ab" on "ab" - A matches by itself at 0, fullmatch reports B *)
Definition altA := mkTerm "A" 0 false "a" [] 1.
Definition altB := mkTerm "B" 0 false "ab" [] 2.

Theorem alt_first_with_continuation_refuted :
  let cand := cand_str lower in
  first_some (fun t => m_of cand t "ab" 0) [altA; altB] = Some (altA, 1) /\
  alt_full_bt cand [altA; altB] "ab" = Some (altB, 2).
Proof. vm_compute. split; reflexivity. Qed.

(* ---------------------------------------------------------------- oracle level *)
Section Oracle.

Variable fold : ascii -> ascii.
Variable m : term -> string -> nat -> option nat.
Variable amatch : list term -> string -> nat -> option (string * nat).
Variable afull : list term -> string -> option string.
Variable cok : list term -> bool.

Hypothesis H_alt : alt_first_assumption m amatch.

(* Scanner.match over opaque alternations = the model's scan *)
Theorem sc_match_scan mres text p :
  sc_match amatch mres text p = named (scan m text mres p).
Proof.
  induction mres as [|c r IH]; cbn; [reflexivity|].
  rewrite H_alt. unfold chunk_match.
  destruct (first_some (fun t => m t text p) c) as [[t n]|]; [reflexivity|apply IH].
Qed.

(* first in the documented order, stated on the Scanner object *)
Theorem scanner_object_first terms ign L text p nm n :
  cok_monotone cok -> make_lexer m cok terms ign = Some L ->
  sc_match amatch (lx_mres L) text p = Some (nm, n) ->
  exists t, tname t = nm /\
    In t (scanner_terms m (sort_terms terms)) /\ m t text p = Some n /\
    forall u, In u (scanner_terms m (sort_terms terms)) -> m u text p <> None -> doc_le t u.
Proof.
  intros Hmono HL Hs. rewrite sc_match_scan in Hs.
  destruct (scan m text (lx_mres L) p) as [[t k]|] eqn:E; [|discriminate].
  cbn in Hs. injection Hs as <- <-. exists t. split; [reflexivity|].
  eapply lexer_first_documented; eauto.
Qed.

Theorem scanner_object_none terms ign L text p :
  cok_monotone cok -> make_lexer m cok terms ign = Some L ->
  (sc_match amatch (lx_mres L) text p = None <->
   forall u, In u (scanner_terms m (sort_terms terms)) -> m u text p = None).
Proof.
  intros Hmono HL. rewrite sc_match_scan.
  destruct (make_lexer_spec _ _ _ _ _ Hmono HL) as (_ & _ & Hc). rewrite <- Hc.
  destruct (scan m text (lx_mres L) p) as [[t k]|] eqn:E.
  - split; [discriminate|]. intros H. apply scan_none in H. congruence.
  - split; [|reflexivity]. intros _. now apply scan_none.
Qed.

(* UnlessCallback over its own Scanner object = the model's report *)
Hypothesis H_full : alt_full_assumption fold afull.

Lemma find_app_opt {A} (f : A -> bool) l1 l2 :
  find f (l1 ++ l2) = match find f l1 with Some x => Some x | None => find f l2 end.
Proof. induction l1 as [|a r IH]; cbn; [reflexivity|]. destruct (f a); [reflexivity|apply IH]. Qed.

Lemma sc_fullmatch_find mres v :
  forallb (fun K => negb (tre K)) (List.concat mres) = true ->
  sc_fullmatch afull mres v = option_map tname (find (fun K => str_full fold K v) (List.concat mres)).
Proof.
  induction mres as [|c r IH]; cbn [sc_fullmatch List.concat]; [reflexivity|].
  rewrite forallb_app, andb_true_iff. intros [Hc Hr].
  rewrite H_full by assumption. rewrite find_app_opt.
  destruct (find (fun K => str_full fold K v) c); [reflexivity|]. cbn. now apply IH.
Qed.

Lemma unless_of_strings terms X :
  forallb (fun K => negb (tre K)) (unless_of m terms X) = true.
Proof.
  apply forallb_forall. intros K HK. unfold unless_of in HK. apply filter_In in HK.
  destruct HK as [_ HK]. apply andb_true_iff in HK. tauto.
Qed.

Theorem report_object terms X v :
  cok_monotone cok ->
  match report_o m afull cok terms X v with
  | Some r => r = report fold m terms X v
  | None => scanner_mres cok (unless_of m terms X) = None
  end.
Proof.
  intros Hmono. unfold report_o, report. destruct (tre X); [|reflexivity].
  destruct (unless_of m terms X) as [|K0 u0] eqn:Eu; [reflexivity|].
  unfold scanner_init. destruct (scanner_mres cok (K0 :: u0)) as [mres|] eqn:Em; [|reflexivity].
  cbn [sc_mres]. unfold scanner_mres in Em. apply build_mres_concat in Em; [|assumption].
  rewrite sc_fullmatch_find by (rewrite Em, <- Eu; apply unless_of_strings).
  rewrite Em. destruct (find (fun K => str_full fold K v) (K0 :: u0)); reflexivity.
Qed.

End Oracle.

(* the two assumptions hold of a backtracking engine *)
Theorem alt_assumptions_backtracking fold cand :
  alt_first_assumption (m_of cand) (fun c text p => named (alt_match_bt cand c text p)) /\
  ((forall K v, tre K = false -> cand K v 0 = cand_str fold K v 0) ->
   alt_full_assumption fold (fun c v => option_map (fun x : term * nat => tname (fst x)) (alt_full_bt cand c v))).
Proof.
  split.
  - intros c text p. now rewrite alt_match_bt_first.
  - intros Hs c v Hc. apply alt_full_bt_strings. intros K HK. apply Hs.
    rewrite forallb_forall in Hc. specialize (Hc K HK). now apply negb_true_iff in Hc.
Qed.
