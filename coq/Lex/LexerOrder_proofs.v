(* The documented terminal order and the sort of BasicLexer.__init__:
   the regenerated key (Gen/LexerSortKey.v) orders terminals by higher priority, then longer
   maximal width, then longer pattern, then name; sort_terms returns a permutation that is
   strongly sorted for it. *)
From Coq Require Import ZArith List Bool String Ascii Arith Lia Sorted Permutation.
From LV Require Import Base.Prelude Lex.LexerBase Gen.LexerSortKey Lex.Lexer.
Import ListNotations.
Local Open Scope Z_scope.

(* the documented order, stated independently of the code's key tuple *)
Definition doc_le (a b : term) : Prop :=
  tprio a > tprio b \/ (tprio a = tprio b /\
   (tmaxw a > tmaxw b \/ (tmaxw a = tmaxw b /\
    (tvlen a > tvlen b \/ (tvlen a = tvlen b /\ String.compare (tname a) (tname b) <> Gt))))).

Lemma term_leb_doc a b : term_leb a b = true <-> doc_le a b.
Proof.
  unfold term_leb, key_leb, sort_key, doc_le. cbn [key_compare keyc_compare].
  rewrite !Z.compare_opp.
  destruct (Z.compare_spec (tprio b) (tprio a)) as [E1|L1|G1].
  2:{ split; intros; [lia| reflexivity]. }
  2:{ split; intros H; [discriminate| lia]. }
  destruct (Z.compare_spec (tmaxw b) (tmaxw a)) as [E2|L2|G2].
  2:{ split; intros; [lia| reflexivity]. }
  2:{ split; intros H; [discriminate| lia]. }
  destruct (Z.compare_spec (tvlen b) (tvlen a)) as [E3|L3|G3].
  2:{ split; intros; [lia| reflexivity]. }
  2:{ split; intros H; [discriminate| lia]. }
  destruct (String.compare (tname a) (tname b)) eqn:C; split; intros H; try reflexivity; try discriminate.
  - right; split; [lia|]. right; split; [lia|]. right; split; [lia|]. discriminate.
  - right; split; [lia|]. right; split; [lia|]. right; split; [lia|]. discriminate.
  - exfalso. destruct H as [H|[_ [H|[_ [H|[_ H]]]]]]; try lia. now apply H.
Qed.

Lemma ascii_compare_trans a b c :
  Ascii.compare a b = Lt -> Ascii.compare b c = Lt -> Ascii.compare a c = Lt.
Proof.
  unfold Ascii.compare. rewrite !N.compare_lt_iff. lia.
Qed.

Lemma str_compare_refl a : String.compare a a = Eq.
Proof.
  induction a as [|x a IH]; cbn; [reflexivity|].
  unfold Ascii.compare. now rewrite N.compare_refl.
Qed.

Lemma str_compare_lt_trans a : forall b c,
  String.compare a b = Lt -> String.compare b c = Lt -> String.compare a c = Lt.
Proof.
  induction a as [|x a IH]; intros [|y b] [|z c]; cbn; try discriminate; try reflexivity.
  destruct (Ascii.compare x y) eqn:Cxy; try discriminate.
  - apply Ascii.compare_eq_iff in Cxy; subst y.
    destruct (Ascii.compare x z) eqn:Cxz; try discriminate; try reflexivity.
    intros H1 H2. eauto.
  - intros _. destruct (Ascii.compare y z) eqn:Cyz; try discriminate.
    + apply Ascii.compare_eq_iff in Cyz; subst z. now rewrite Cxy.
    + intros _. now rewrite (ascii_compare_trans _ _ _ Cxy Cyz).
Qed.

Lemma str_compare_le_trans a b c :
  String.compare a b <> Gt -> String.compare b c <> Gt -> String.compare a c <> Gt.
Proof.
  intros H1 H2.
  destruct (String.compare a b) eqn:C1; [| |congruence].
  - apply String.compare_eq_iff in C1; now subst.
  - destruct (String.compare b c) eqn:C2; [| |congruence].
    + apply String.compare_eq_iff in C2; subst. now rewrite C1.
    + now rewrite (str_compare_lt_trans _ _ _ C1 C2).
Qed.

Lemma doc_le_trans a b c : doc_le a b -> doc_le b c -> doc_le a c.
Proof.
  unfold doc_le. intros H1 H2.
  destruct H1 as [H1|[E1 H1]]; destruct H2 as [H2|[E2 H2]]; try (left; lia).
  right; split; [lia|].
  destruct H1 as [H1|[E1' H1]]; destruct H2 as [H2|[E2' H2]]; try (left; lia).
  right; split; [lia|].
  destruct H1 as [H1|[E1'' H1]]; destruct H2 as [H2|[E2'' H2]]; try (left; lia).
  right; split; [lia|]. eapply str_compare_le_trans; eauto.
Qed.

Lemma doc_le_total a b : doc_le a b \/ doc_le b a.
Proof.
  unfold doc_le.
  destruct (Z.lt_trichotomy (tprio a) (tprio b)) as [?|[?|?]]; try (right; left; lia); try (left; left; lia).
  destruct (Z.lt_trichotomy (tmaxw a) (tmaxw b)) as [?|[?|?]];
    try (right; right; split; [lia|]; left; lia); try (left; right; split; [lia|]; left; lia).
  destruct (Z.lt_trichotomy (tvlen a) (tvlen b)) as [?|[?|?]];
    try (right; right; split; [lia|]; right; split; [lia|]; left; lia);
    try (left; right; split; [lia|]; right; split; [lia|]; left; lia).
  destruct (String.compare (tname a) (tname b)) eqn:C.
  - left; right; split; [lia|]; right; split; [lia|]; right; split; [lia|]. congruence.
  - left; right; split; [lia|]; right; split; [lia|]; right; split; [lia|]. congruence.
  - right; right; split; [lia|]; right; split; [lia|]; right; split; [lia|].
    rewrite String.compare_antisym, C. discriminate.
Qed.

Lemma doc_le_refl a : doc_le a a.
Proof. destruct (doc_le_total a a); assumption. Qed.

(* two terminals that precede each other have the same name *)
Lemma doc_le_antisym_name a b : doc_le a b -> doc_le b a -> tname a = tname b.
Proof.
  unfold doc_le. intros H1 H2.
  destruct H1 as [H1|[E1 H1]]; destruct H2 as [H2|[E2 H2]]; try lia.
  destruct H1 as [H1|[E1' H1]]; destruct H2 as [H2|[E2' H2]]; try lia.
  destruct H1 as [H1|[E1'' H1]]; destruct H2 as [H2|[E2'' H2]]; try lia.
  rewrite String.compare_antisym in H2.
  destruct (String.compare (tname a) (tname b)) eqn:C; cbn in *; try congruence.
  now apply String.compare_eq_iff.
Qed.

(* ---------------------------------------------------------------- the sort *)

Lemma insert_perm x l : Permutation (x :: l) (insert_term x l).
Proof.
  induction l as [|y r IH]; cbn; [reflexivity|].
  destruct (term_leb x y); [reflexivity|].
  rewrite perm_swap. now constructor.
Qed.

Lemma sort_perm l : Permutation l (sort_terms l).
Proof.
  induction l as [|x l IH]; cbn; [constructor|].
  etransitivity; [|apply insert_perm]. now constructor.
Qed.

Lemma insert_sorted x l :
  StronglySorted doc_le l -> StronglySorted doc_le (insert_term x l).
Proof.
  induction 1 as [|y r Hs IH Hall]; cbn.
  - constructor; constructor.
  - destruct (term_leb x y) eqn:E.
    + apply term_leb_doc in E. constructor.
      * now constructor.
      * constructor; [assumption|].
        eapply Forall_impl; [|exact Hall]. intros z Hz. eapply doc_le_trans; eauto.
    + constructor; [assumption|].
      assert (Hyx : doc_le y x).
      { destruct (doc_le_total x y) as [H|H]; [|assumption].
        apply term_leb_doc in H. congruence. }
      eapply Permutation_Forall; [apply insert_perm|]. now constructor.
Qed.

Lemma sort_sorted l : StronglySorted doc_le (sort_terms l).
Proof.
  induction l as [|x l IH]; cbn; [constructor|]. now apply insert_sorted.
Qed.

Lemma sort_in x l : In x (sort_terms l) <-> In x l.
Proof.
  split; intros H.
  - eapply Permutation_in; [symmetry; apply sort_perm|exact H].
  - eapply Permutation_in; [apply sort_perm|exact H].
Qed.

(* a sub-list of a strongly sorted list is strongly sorted: filtering keeps the order *)
Lemma filter_sorted (f : term -> bool) l :
  StronglySorted doc_le l -> StronglySorted doc_le (filter f l).
Proof.
  induction 1 as [|y r Hs IH Hall]; cbn; [constructor|].
  destruct (f y); [|assumption].
  constructor; [assumption|].
  rewrite Forall_forall in *. intros z Hz. apply filter_In in Hz. now apply Hall.
Qed.

(* in a strongly sorted list everything after a split point is >= the pivot *)
Lemma sorted_split_le l : forall pre t post,
  StronglySorted doc_le l -> l = pre ++ t :: post -> forall u, In u post -> doc_le t u.
Proof.
  induction l as [|y r IH]; intros pre t post Hs E u Hu.
  - destruct pre; discriminate.
  - inversion Hs as [|? ? Hs' Hall]; subst.
    destruct pre as [|z pre]; cbn in E; injection E as -> ->.
    + rewrite Forall_forall in Hall. now apply Hall.
    + eapply IH; eauto.
Qed.
