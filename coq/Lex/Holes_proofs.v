(* The conditions and sizes regenerated from lark/lexer.py (Gen/LexerHoles.v) are the ones the
   model Lex/Lexer.v uses.  A changed condition in the source changes the generated definition
   and breaks the corresponding lemma here. *)
From Coq Require Import ZArith List Bool String Ascii Arith Lia.
From LV Require Import Base.Prelude Lex.LexerBase Lex.FlagsBase Gen.LexerSortKey Gen.LexerHoles Lex.Lexer.
Import ListNotations.

(* _create_unless: strtok.priority != retok.priority -> continue; the model's is_unless starts
   with the negation of that test *)
Lemma hole_unless_prio m R K :
  is_unless m R K =
  negb (h_unless_skip (tprio K) (tprio R)) &&
  match m R (tvalue K) 0 with Some n => Nat.eqb n (String.length (tvalue K)) | None => false end.
Proof. unfold is_unless, h_unless_skip. now rewrite negb_involutive. Qed.

(* _create_unless: strtok.pattern.flags <= retok.pattern.flags *)
Lemma hole_embed_flags sf rf : h_embed_flags sf rf = flags_sub sf rf.
Proof. reflexivity. Qed.

Lemma hole_embedded_of m terms R :
  embedded_of m terms R = filter (fun K => h_embed_flags (tflags K) (tflags R)) (unless_of m terms R).
Proof. reflexivity. Qed.

(* Scanner.__init__ / _build_mres: max_size = len(terminals); slices of max_size; retry with
   max_size // 2 *)
Lemma hole_init_size n : h_init_size n = n.
Proof. reflexivity. Qed.

Lemma hole_chunk k : h_chunk_take k = k /\ h_chunk_drop k = k.
Proof. split; reflexivity. Qed.

Lemma div2_half k : Nat.div2 k = Z.to_nat (Z.of_nat k / 2).
Proof.
  rewrite Nat.div2_div. change 2%Z with (Z.of_nat 2). rewrite <- Nat2Z.inj_div. now rewrite Nat2Z.id.
Qed.

Lemma hole_retry k : Z.to_nat (h_retry_size (Z.of_nat k)) = Nat.div2 k.
Proof. unfold h_retry_size. now rewrite div2_half. Qed.

Lemma hole_scanner_mres cok ts :
  scanner_mres cok ts =
  build_mres cok (S (S (List.length ts))) (Z.to_nat (h_init_size (Z.of_nat (List.length ts)))) ts.
Proof. unfold scanner_mres, h_init_size. now rewrite Nat2Z.id. Qed.

Lemma hole_build_mres cok f k ts :
  build_mres cok (S f) k ts =
  match build_loop cok (S (List.length ts)) (Z.to_nat (h_chunk_take (Z.of_nat k))) ts [] with
  | LDone mres => Some mres
  | LRetry rest => build_mres cok f (Z.to_nat (h_retry_size (Z.of_nat k))) rest
  | LFuel => None
  end.
Proof. rewrite hole_retry. unfold h_chunk_take. rewrite Nat2Z.id. reflexivity. Qed.

(* PatternStr.min_width = max_width = len(value); zero-width terminals are rejected *)
Lemma hole_str_width K : h_str_max_width (tvlen K) = tvlen K /\ h_str_min_width (tvlen K) = tvlen K.
Proof. split; reflexivity. Qed.

Lemma hole_zero_width w : h_zero_width w = true <-> w = 0%Z.
Proof. unfold h_zero_width. apply Z.eqb_eq. Qed.

(* next_token: while char_pos < text.end; a token object is made when it will be emitted or a
   callback has to see it; it is returned iff it is not ignored *)
Lemma hole_more p text : h_lx_more (Z.of_nat p) (Z.of_nat (String.length text)) = negb (String.length text <=? p).
Proof.
  unfold h_lx_more. destruct (Nat.leb_spec (String.length text) p).
  - cbn. apply Z.ltb_ge. lia.
  - cbn. apply Z.ltb_lt. lia.
Qed.

Lemma hole_emit ign r : h_emit (ignored ign r) = negb (ignored ign r).
Proof. reflexivity. Qed.

Lemma hole_make_token i cb : h_emit i = true -> h_make_token i cb = true.
Proof. unfold h_emit, h_make_token. now intros ->. Qed.

Lemma hole_next_token m text fuel L p :
  next_token m text (S fuel) L p =
  if negb (h_lx_more (Z.of_nat p) (Z.of_nat (String.length text))) then NEOF else
  match scan m text (lx_mres L) p with
  | None => NErr p
  | Some (t, n) =>
      let r := mkRaw t p n in
      if h_emit (ignored (lx_ign L) r) then NTok r else next_token m text fuel L (p + n)
  end.
Proof.
  rewrite hole_more, negb_involutive. cbn [next_token].
  destruct (String.length text <=? p); [reflexivity|].
  destruct (scan m text (lx_mres L) p) as [[t n]|]; [|reflexivity].
  cbv zeta. unfold h_emit. now destruct (ignored (lx_ign L) (mkRaw t p n)).
Qed.

(* ContextualLexer.__init__: accepts = set(accepts) | set(conf.ignore) | set(always_accept) *)
Lemma hole_sub_terms (pstate : Type) (accepts : pstate -> list string) terms ign always s :
  sub_terms pstate accepts terms ign always s =
  filter (fun t => h_sub_keep (mem_string (tname t) (accepts s)) (mem_string (tname t) ign)
                              (mem_string (tname t) always)) terms.
Proof.
  unfold sub_terms, h_sub_keep. apply filter_ext. intros t.
  now rewrite orb_false_r, orb_assoc.
Qed.
