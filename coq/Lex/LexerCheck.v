(* Comparison functions for the generated C07 correspondence cases (no proofs).
   The regex oracle is instantiated by tables recorded from Python's re on the very case:
   - tab  : for every position p of the input, the (terminal name, match length) pairs of all
            terminals whose own pattern matches at p  (absent = no match);
   - unl  : the (regexp terminal name, string value) pairs with re.match(R, s).group(0) == s. *)
From Coq Require Import ZArith List Bool String Ascii Arith.
From LV Require Import Base.Prelude Lex.LexerBase Gen.LexerSortKey Lex.Lexer.
Import ListNotations.

(* cheap spellings of integer literals for the generated case files *)
Definition zn (n : nat) : Z := Z.of_nat n.
Definition zm (n : nat) : Z := Z.opp (Z.of_nat n).

Fixpoint assoc_nat (k : string) (l : list (string * nat)) : option nat :=
  match l with
  | [] => None
  | (k', v) :: r => if String.eqb k k' then Some v else assoc_nat k r
  end.

Fixpoint mem_pair (a b : string) (l : list (string * string)) : bool :=
  match l with
  | [] => false
  | (x, y) :: r => (String.eqb a x && String.eqb b y) || mem_pair a b r
  end.

(* the case-fold representative of every character of the case (absent = itself): ASCII
   lower-casing for bytes patterns, sre's equivalence classes for str patterns; whether it is
   the engine's is checked by table_str_ok on the recorded answers of the string terminals *)
Fixpoint assoc_ascii (c : ascii) (l : list (ascii * ascii)) : ascii :=
  match l with
  | [] => c
  | (a, b) :: r => if Ascii.eqb c a then b else assoc_ascii c r
  end.
Definition fold_tab (l : list (ascii * ascii)) : ascii -> ascii := fun c => assoc_ascii c l.
Definition ch (n : nat) : ascii := ascii_of_nat n.

Definition m_tab (input : string) (tab : list (list (string * nat))) (unl : list (string * string))
  : term -> string -> nat -> option nat :=
  fun t txt p =>
    if String.eqb txt input then assoc_nat (tname t) (nth p tab [])
    else if Nat.eqb p 0 && mem_pair (tname t) txt unl then Some (String.length txt) else None.

(* the fake regex module of the harness refuses alternations of more than K named groups
   (K = 0: no limit, the behaviour of this interpreter) *)
Definition cok_limit (K : nat) (l : list term) : bool :=
  match K with O => true | _ => List.length l <=? K end.

Fixpoint strs_eqb (a b : list string) : bool :=
  match a, b with
  | [], [] => true
  | x :: a', y :: b' => String.eqb x y && strs_eqb a' b'
  | _, _ => false
  end.

Fixpoint strss_eqb (a b : list (list string)) : bool :=
  match a, b with
  | [], [] => true
  | x :: a', y :: b' => strs_eqb x y && strss_eqb a' b'
  | _, _ => false
  end.

Definition otok := (string * nat * nat)%type.     (* type, start_pos, length *)

Definition tok_eqb (t : tok) (o : otok) : bool :=
  let '(ty, s, n) := o in String.eqb (ktype t) ty && Nat.eqb (kstart t) s && Nat.eqb (klen t) n.

Fixpoint toks_eqb (a : list tok) (b : list otok) : bool :=
  match a, b with
  | [], [] => true
  | x :: a', y :: b' => tok_eqb x y && toks_eqb a' b'
  | _, _ => false
  end.

(* observed tokens are a prefix of the model's (the consumer stopped pulling) *)
Fixpoint toks_prefix (obs : list otok) (a : list tok) : bool :=
  match obs, a with
  | [], _ => true
  | y :: b', x :: a' => tok_eqb x y && toks_prefix b' a'
  | _, [] => false
  end.

(* end codes: 0 = end of text, 1 p = UnexpectedCharacters at p, 2 = the consumer stopped early *)
Definition end_ok (e : lex_end) (code p : nat) : bool :=
  match e, code with
  | AtEOF, 0 => true
  | ErrAt q, 1 => Nat.eqb p q
  | _, _ => false
  end.

(* the hypotheses "for string terminals m is the prefix test and max_width = len(value)",
   checked on the recorded table *)
Definition table_str_ok (fold : ascii -> ascii) (terms : list term) (text : string) (tab : list (list (string * nat))) : bool :=
  forallb (fun t =>
    tre t ||
    Z.eqb (tmaxw t) (tvlen t) &&
    forallb (fun p =>
      match assoc_nat (tname t) (nth p tab []), str_match_at fold t text p with
      | Some a, Some b => Nat.eqb a b
      | None, None => true
      | _, _ => false
      end) (seq 0 (S (String.length text)))) terms.

Record bcase := mkB {
  b_fold : list (ascii * ascii);
  b_terms : list term;                       (* conf.terminals, original order *)
  b_ign : list string;                       (* conf.ignore *)
  b_text : string;
  b_tab : list (list (string * nat));
  b_unl : list (string * string);
  b_limit : nat;
  (* observations of the built BasicLexer and of its token stream *)
  o_sorted : list string;                    (* [t.name for t in lexer.terminals] *)
  o_cbkeys : list string;                    (* list(lexer.callback) *)
  o_mres : list (list string);               (* group names of each compiled alternation *)
  o_toks : list otok;
  o_code : nat;
  o_pos : nat }.

Definition check_basic (c : bcase) : bool :=
  let m := m_tab (b_text c) (b_tab c) (b_unl c) in
  let st := sort_terms (b_terms c) in
  table_str_ok (fold_tab (b_fold c)) (b_terms c) (b_text c) (b_tab c) &&
  strs_eqb (map tname st) (o_sorted c) &&
  strs_eqb (callback_keys m st) (o_cbkeys c) &&
  match make_lexer m (cok_limit (b_limit c)) (b_terms c) (b_ign c) with
  | None => false
  | Some L =>
      strss_eqb (map (map tname) (lx_mres L)) (o_mres c) &&
      let '(ts, e) := lex_from (fold_tab (b_fold c)) m (b_text c) L 0 in
      match o_code c with
      | 2 => toks_prefix (o_toks c) ts
      | code => toks_eqb ts (o_toks c) && end_ok e code (o_pos c)
      end
  end.

(* ---------------------------------------------------------------- contextual *)

Record ccase := mkC {
  c_fold : list (ascii * ascii);
  c_terms : list term;
  c_ign : list string;
  c_always : list string;
  c_text : string;
  c_tab : list (list (string * nat));
  c_unl : list (string * string);
  c_accepts : list (list string);            (* accept set of the parser state at the i-th next_token call *)
  c_subterms : list (list string);           (* [t.name for t in lexers[state].terminals] at the i-th call *)
  c_toks : list otok;                        (* tokens yielded to the parser *)
  c_code : nat;   (* 0 EOF, 1 UnexpectedCharacters, 2 UnexpectedToken by the lexer's fallback, 3 parser rejected the last token *)
  c_pos : nat;
  c_errtok : otok }.

Definition cend_ok (e : ctx_end) (c : ccase) : bool :=
  match e, c_code c with
  | CEOF, 0 => true
  | CChars p, 1 => Nat.eqb p (c_pos c)
  | CToken t, 2 => tok_eqb t (c_errtok c)
  | CParse t, 3 => tok_eqb t (c_errtok c)
  | _, _ => false
  end.

Definition check_ctx (c : ccase) : bool :=
  let m := m_tab (c_text c) (c_tab c) (c_unl c) in
  let cok := cok_limit 0 in
  let acc := fun i : nat => nth i (c_accepts c) [] in
  let types := map (fun o : otok => fst (fst o)) (c_toks c) in
  let n := List.length (c_accepts c) in
  let step := fun (i : nat) (t : tok) =>
                if String.eqb (ktype t) (nth i types EmptyString) && (S i <? n) then Some (S i) else None in
  table_str_ok (fold_tab (c_fold c)) (c_terms c) (c_text c) (c_tab c) &&
  (* the sub-lexers' terminal lists *)
  forallb (fun i => match sub_lexer m cok nat acc (c_terms c) (c_ign c) (c_always c) i with
                    | Some L => strs_eqb (map tname (lx_terms L)) (nth i (c_subterms c) [])
                    | None => false end) (seq 0 n) &&
  match make_lexer m cok (c_terms c) (c_ign c) with
  | None => false
  | Some root =>
      let '(ts, e) := ctx_lex (fold_tab (c_fold c)) m cok (c_text c) nat acc step (S (S (String.length (c_text c))))
                              (c_terms c) (c_ign c) (c_always c) root 0 0 in
      toks_eqb ts (c_toks c) && cend_ok e c
  end.

(* ---------------------------------------------------------------- round 12: the Scanner object *)
From LV Require Import Lex.Alt.

Definition oans := option (string * nat).     (* Scanner.match(text, p): (lastgroup, len(value)) *)

Definition oans_eqb (a b : oans) : bool :=
  match a, b with
  | None, None => true
  | Some (x, n), Some (y, k) => String.eqb x y && Nat.eqb n k
  | _, _ => false
  end.

Fixpoint oanss_eqb (a b : list oans) : bool :=
  match a, b with
  | [], [] => true
  | x :: a', y :: b' => oans_eqb x y && oanss_eqb a' b'
  | _, _ => false
  end.

(* a Scanner built directly from a terminal list (in the given order) under a group limit:
   its alternations' group names and its answer at every position; for a strings-only list also
   Scanner.fullmatch on a list of values *)
Record acase := mkA {
  a_fold : list (ascii * ascii);
  a_terms : list term;
  a_text : string;
  a_tab : list (list (string * nat));
  a_limit : nat;
  a_mres : list (list string);
  a_ans : list oans;                          (* Scanner.match at p = 0 .. len(text) *)
  a_vals : list string;                       (* values given to Scanner.fullmatch *)
  a_full : list (option string) }.

Definition ostr_eqb (a b : option string) : bool :=
  match a, b with None, None => true | Some x, Some y => String.eqb x y | _, _ => false end.

Definition check_alt (c : acase) : bool :=
  let m := m_tab (a_text c) (a_tab c) [] in
  table_str_ok (fold_tab (a_fold c)) (a_terms c) (a_text c) (a_tab c) &&
  match scanner_mres (cok_limit (a_limit c)) (a_terms c) with
  | None => false
  | Some mres =>
      strss_eqb (map (map tname) mres) (a_mres c) &&
      oanss_eqb (map (fun p => named (scan m (a_text c) mres p)) (seq 0 (S (String.length (a_text c))))) (a_ans c) &&
      (fix go (vs : list string) (os : list (option string)) : bool :=
         match vs, os with
         | [], [] => true
         | v :: vs', o :: os' =>
             ostr_eqb (option_map tname (find (fun K => str_full (fold_tab (a_fold c)) K v) (List.concat mres))) o && go vs' os'
         | _, _ => false
         end) (a_vals c) (a_full c)
  end.

(* ---------------------------------------------------------------- round 12: contextual on lark's parse table *)
From LV Require Import Cfg.Grammar LR.Driver Lex.ContextualLR.

Record lcase := mkLC {
  l_fold : list (ascii * ascii);
  l_terms : list term;
  l_ign : list string;
  l_always : list string;
  l_text : string;
  l_tab : list (list (string * nat));
  l_unl : list (string * string);
  l_rows : rows;                              (* ParseTable.states *)
  l_q0 : nat;
  l_qe : nat;
  l_states : list (nat * list string);        (* states.items(): state, list(row.keys()) *)
  l_fresh : list bool;                        (* per state: lexers[state] is an object not seen at an earlier state *)
  l_lexterms : list (list string);            (* per state: [t.name for t in lexers[state].terminals] *)
  l_tops : list nat;                          (* parser_state.position at the i-th sub-lexer next_token call *)
  l_toks : list otok;
  l_code : nat;
  l_pos : nat;
  l_errtok : otok;
  l_accepted : bool }.

Definition dfuel_check : nat := 400.

Fixpoint tops_of (terms : list term) (R : rows) (q0 qe : nat) (c : config tok) (ts : list tok) : list nat :=
  hd 0 (sstack c) ::
  match ts with
  | [] => []
  | t :: r => match lr_step terms R q0 qe dfuel_check c t with
              | Some c' => tops_of terms R q0 qe c' r
              | None => []
              end
  end.

Fixpoint nats_prefix (a b : list nat) : bool :=
  match a, b with
  | [], _ => true
  | x :: a', y :: b' => Nat.eqb x y && nats_prefix a' b'
  | _, [] => false
  end.

Fixpoint bools_eqb (a b : list bool) : bool :=
  match a, b with
  | [], [] => true
  | x :: a', y :: b' => Bool.eqb x y && bools_eqb a' b'
  | _, _ => false
  end.

Definition lcend_ok (e : ctx_end) (c : lcase) : bool :=
  match e, l_code c with
  | CEOF, 0 => true
  | CChars p, 1 => Nat.eqb p (l_pos c)
  | CToken t, 2 => tok_eqb t (l_errtok c)
  | CParse t, 3 => tok_eqb t (l_errtok c)
  | _, _ => false
  end.

Definition check_lr (c : lcase) : bool :=
  let fold := fold_tab (l_fold c) in
  let m := m_tab (l_text c) (l_tab c) (l_unl c) in
  let cok := cok_limit 0 in
  let terms := l_terms c in
  let R := l_rows c in
  table_str_ok fold terms (l_text c) (l_tab c) &&
  rows_known terms R &&
  (* the row keys that name terminals are the accept sets the lexers were built from *)
  forallb (fun qa : nat * list string =>
             set_eqb (filter (fun n => mem_string n (map tname terms)) (snd qa))
                     (filter (fun n => mem_string n (map tname terms)) (row_accepts terms R (fst qa))))
          (l_states c) &&
  (* ContextualLexer.__init__: which lexers are shared, and each one's sorted terminal list *)
  let built := build_lexers m cok terms (l_ign c) (l_always c) (l_states c) [] in
  bools_eqb (map snd built) (l_fresh c) &&
  strss_eqb (map (fun x => match snd (fst x) with Some L => map tname (lx_terms L) | None => [] end) built)
            (l_lexterms c) &&
  match make_lexer m cok terms (l_ign c) with
  | None => false
  | Some root =>
      let P := ContextualLR.P R (l_q0 c) (l_qe c) in
      let '(ts, e) := ctx_lex fold m cok (l_text c) (config tok) (lr_accepts terms R)
                              (lr_step terms R (l_q0 c) (l_qe c) dfuel_check)
                              (S (S (String.length (l_text c)))) terms (l_ign c) (l_always c) root (init_config P) 0 in
      toks_eqb ts (l_toks c) && lcend_ok e c &&
      nats_prefix (l_tops c) (tops_of terms R (l_q0 c) (l_qe c) (init_config P) ts) &&
      Nat.eqb (List.length (l_tops c)) (match e with CParse _ => List.length ts | _ => S (List.length ts) end) &&
      match ctx_parse fold m cok (l_text c) terms (l_ign c) (l_always c) R (l_q0 c) (l_qe c) dfuel_check
                      (S (S (String.length (l_text c)))) root (mkTok end_name (String.length (l_text c)) 0) with
      | CxTree _ => l_accepted c
      | _ => negb (l_accepted c)
      end
  end.
