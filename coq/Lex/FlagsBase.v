(* Flag-set tests used by the regenerated conditions of Gen/LexerHoles.v (no proofs).
   A flag set (frozenset of one-letter strings) is a list of characters. *)
From Coq Require Import List Bool Ascii.
Import ListNotations.

Definition fl_mem (f : ascii) (fl : list ascii) : bool := existsb (Ascii.eqb f) fl.
(* a <= b on frozensets *)
Definition fl_sub (a b : list ascii) : bool := forallb (fun f => fl_mem f b) a.
