(* Assembly of the C07 statements about the lexer as it is built (make_lexer):
   sorted terminals, scanner = the non-embedded ones in that order, whatever the chunking. *)
From Coq Require Import ZArith List Bool String Ascii Arith Lia Sorted Permutation.
From LV Require Import Base.Prelude Lex.LexerBase Gen.LexerSortKey Lex.Lexer
     Lex.LexerOrder_proofs Lex.Lexer_proofs Lex.Unless_proofs.
Import ListNotations.

Section Top.

Variable fold : ascii -> ascii.
Variable m : term -> string -> nat -> option nat.
Variable cok : list term -> bool.
Variable text : string.

Lemma make_lexer_spec terms ign L :
  cok_monotone cok -> make_lexer m cok terms ign = Some L ->
  lx_terms L = sort_terms terms /\ lx_ign L = ign /\
  List.concat (lx_mres L) = scanner_terms m (sort_terms terms).
Proof.
  intros Hmono. unfold make_lexer, scanner_mres.
  destruct (build_mres cok _ _ _) as [mres|] eqn:E; [|discriminate].
  intros H; injection H as <-. cbn. repeat split.
  eapply build_mres_concat; eauto.
Qed.

Lemma scanner_terms_sorted terms :
  StronglySorted doc_le (scanner_terms m (sort_terms terms)).
Proof. unfold scanner_terms. cbv zeta. apply filter_sorted. apply sort_sorted. Qed.

(* the terminal chosen at p is the first, in the documented order, of the scanner's
   terminals that match at p - however the alternation was split into chunks *)
Theorem lexer_first_documented terms ign L p t n :
  cok_monotone cok -> make_lexer m cok terms ign = Some L ->
  scan m text (lx_mres L) p = Some (t, n) ->
  In t (scanner_terms m (sort_terms terms)) /\ m t text p = Some n /\
  forall u, In u (scanner_terms m (sort_terms terms)) -> m u text p <> None -> doc_le t u.
Proof.
  intros Hmono HL Hs. destruct (make_lexer_spec _ _ _ Hmono HL) as (_ & _ & Hc).
  rewrite <- Hc. apply scanner_first_documented; [|assumption].
  rewrite Hc. apply scanner_terms_sorted.
Qed.

(* the keyword rule, gathered *)
Theorem unless_keyword L X v :
  (tre X = false -> report fold m L X v = tname X) /\
  ((forall K, keyword_of m L X K -> str_full fold K v = false) -> report fold m L X v = tname X) /\
  (forall pre K post, tre X = true -> L = pre ++ K :: post -> keyword_of m L X K ->
     str_full fold K v = true ->
     (forall K', In K' pre -> keyword_of m L X K' -> str_full fold K' v = false) ->
     report fold m L X v = tname K) /\
  (report fold m L X v <> tname X ->
     exists K, report fold m L X v = tname K /\ tre X = true /\ keyword_of m L X K /\ str_full fold K v = true) /\
  (forall K, str_full fold K v = true <->
     if ci_of K then fold_str fold (tvalue K) = fold_str fold v else tvalue K = v).
Proof.
  split; [apply report_string|]. split; [apply report_no_keyword|].
  split; [intros; eapply report_keyword; eauto|]. split; [|intros; apply str_full_spec].
  intros Hne. destruct (report_inv fold m L X v) as [E|(Hre & K & E & Hk & Hf)]; [congruence|].
  exists K. auto.
Qed.

(* tiling for the lexer as built *)
Theorem lexer_tiling terms ign L rs e :
  (forall t p n, m t text p = Some n -> (0 < n)%nat) ->
  (forall t p n, m t text p = Some n -> (p + n <= String.length text)%nat) ->
  make_lexer m cok terms ign = Some L ->
  lex_raw m text (S (String.length text)) (lx_mres L) 0 = (rs, e) ->
  Forall (scanned m text (lx_mres L)) rs /\
  match e with
  | AtEOF => tiled 0 rs (String.length text)
  | ErrAt q => tiled 0 rs q /\ (q < String.length text)%nat /\
               forall t, In t (List.concat (lx_mres L)) -> m t text q = None
  | NoFuel => False
  end.
Proof.
  intros Hpos Hb _ H.
  apply (lex_raw_tiling m text Hpos Hb (lx_mres L) (S (String.length text)) 0 rs e); [lia|lia|assumption].
Qed.

End Top.
