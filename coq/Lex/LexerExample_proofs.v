(* A concrete instance that meets every hypothesis of the C07 theorems (non-vacuity):
   NAME: /[a-z]+/   IF: "if"   WS: / +/ (ignored), text "if x", a parser whose first state
   accepts only the keyword.  The oracle is a real function here (character-class spans). *)
From Coq Require Import ZArith List Bool String Ascii Arith Lia Sorted Permutation.
From LV Require Import Base.Prelude Lex.LexerBase Gen.LexerSortKey Lex.Lexer
     Lex.LexerOrder_proofs Lex.Lexer_proofs Lex.Unless_proofs Lex.Contextual_proofs.
Import ListNotations.
Local Open Scope string_scope.

Definition is_lower (c : ascii) : bool := let n := nat_of_ascii c in ((97 <=? n)%nat && (n <=? 122)%nat)%bool.
Definition is_space (c : ascii) : bool := Ascii.eqb c " "%char.

Fixpoint count_pref (pred : ascii -> bool) (s : string) : nat :=
  match s with
  | String c r => if pred c then S (count_pref pred r) else 0
  | EmptyString => 0
  end.

Fixpoint drop (p : nat) (s : string) : string :=
  match s with
  | EmptyString => EmptyString
  | String c r => match p with O => s | S p' => drop p' r end
  end.

Definition span (pred : ascii -> bool) (s : string) (p : nat) : option nat :=
  match count_pref pred (drop p s) with O => None | n => Some n end.

Definition ex_m (t : term) (txt : string) (p : nat) : option nat :=
  if tre t then
    if String.eqb (tvalue t) "[a-z]+" then span is_lower txt p
    else if String.eqb (tvalue t) " +" then span is_space txt p else None
  else str_match_at lower t txt p.

Definition NAME := mkTerm "NAME" 0 true "[a-z]+" [] 4294967295.
Definition IF := mkTerm "IF" 0 false "if" [] 2.
Definition WS := mkTerm "WS" 0 true " +" [] 4294967295.
Definition ex_terms := [IF; WS; NAME].
Definition ex_ign := ["WS"].
Definition ex_text := "if x".
Definition ex_cok (l : list term) : bool := true.

Definition ex_accepts (s : nat) : list string :=
  match s with 0 => ["IF"] | 1 => ["NAME"] | _ => [] end.
Definition ex_step (s : nat) (t : tok) : option nat :=
  if mem_string (ktype t) (ex_accepts s) then Some (S s) else None.

Definition ex_st := sort_terms ex_terms.

Lemma ex_st_eq : ex_st = [NAME; WS; IF].
Proof. reflexivity. Qed.

Ltac in_st H := rewrite ex_st_eq in H; cbn [In] in H; destruct H as [H|[H|[H|[]]]]; subst.
Ltac pcases p := destruct p as [|[|[|[|[|p]]]]].

Lemma ex_uniq : uniq_names ex_terms.
Proof. unfold uniq_names. cbn. repeat constructor; cbn; intuition discriminate. Qed.

Lemma ex_str : str_oracle lower ex_m ex_text ex_st.
Proof. intros K HK Hs. in_st HK; try discriminate. split; reflexivity. Qed.

Lemma ex_bound : bounded_oracle ex_m ex_text ex_st.
Proof.
  intros t p n Ht Hm. in_st Ht; pcases p; vm_compute in Hm; try discriminate;
    injection Hm as <-; split; cbn; lia.
Qed.

Lemma ex_pos : forall t p n, In t ex_st -> ex_m t ex_text p = Some n -> (0 < n)%nat.
Proof.
  intros t p n Ht Hm. in_st Ht; pcases p; vm_compute in Hm; try discriminate;
    injection Hm as <-; lia.
Qed.

Lemma ex_sem : embedding_semantic ex_m ex_text ex_st.
Proof.
  intros R K p k HR Hre HK Hm. in_st HR; try discriminate; vm_compute in HK.
  - destruct HK as [<-|[]]. pcases p; vm_compute in Hm; try discriminate.
    injection Hm as <-. exists 2. split; [reflexivity|lia].
  - destruct HK.
Qed.

Lemma ex_disj : regexps_disjoint ex_m ex_text ex_st.
Proof.
  intros R1 R2 p H1 H2 Hr1 Hr2 Hm1 Hm2.
  in_st H1; in_st H2; try discriminate; try reflexivity; exfalso;
    pcases p; vm_compute in Hm1, Hm2; congruence.
Qed.

Lemma ex_kw R K : keyword_of ex_m ex_st R K -> In R ex_st -> tre R = true -> R = NAME /\ K = IF.
Proof.
  intros (HK & Hs & Hp & Hm) HR Hre.
  in_st HK; try discriminate. in_st HR; try discriminate. tauto.
Qed.

Lemma ex_ign_agrees : ignore_agrees ex_m ex_st ex_ign.
Proof.
  intros R K HR Hre Hk. destruct (ex_kw R K Hk HR Hre) as [-> ->]. reflexivity.
Qed.

Lemma ex_iso s :
  keywords_isolated ex_m ex_text ex_st (sort_terms (sub_terms nat ex_accepts ex_terms ex_ign [] s)).
Proof.
  intros K Y p HK HY HYs (R & HR & Hre & Hk) _ Hne _ _.
  destruct (ex_kw R K Hk HR Hre) as [_ ->].
  apply (proj1 (sort_in _ _)) in HY. unfold sub_terms in HY. apply filter_In in HY. destruct HY as [HY _].
  cbn [ex_terms In] in HY. destruct HY as [H|[H|[H|[]]]]; subst; try discriminate. now apply Hne.
Qed.

Lemma ex_acc : forall s t s', ex_step s t = Some s' -> In (ktype t) (ex_accepts s).
Proof.
  intros s a s'. unfold ex_step. destruct (mem_string (ktype a) (ex_accepts s)) eqn:E; [|discriminate].
  intros _. now apply mem_string_In.
Qed.

(* the basic lexer's answer on the instance; the contextual theorem then applies *)
Definition ex_root : blexer :=
  match make_lexer ex_m ex_cok ex_terms ex_ign with Some L => L | None => mkLexer [] [] [] end.

Lemma ex_root_eq : make_lexer ex_m ex_cok ex_terms ex_ign = Some ex_root.
Proof. reflexivity. Qed.

Definition ex_tokens : list tok := [mkTok "IF" 0 2; mkTok "NAME" 3 1].

Lemma ex_basic : lex_from lower ex_m ex_text ex_root 0 = (ex_tokens, AtEOF).
Proof. vm_compute. reflexivity. Qed.

Lemma ex_parse : run nat ex_step 0 ex_tokens = Some 2.
Proof. reflexivity. Qed.

Lemma ex_contextual_by_theorem :
  ctx_lex lower ex_m ex_cok ex_text nat ex_accepts ex_step 3 ex_terms ex_ign [] ex_root 0 0 = (ex_tokens, CEOF).
Proof.
  apply (contextual_refines_basic lower ex_m ex_cok ex_text (fun _ => eq_refl) nat ex_accepts ex_step
           ex_terms ex_ign [] ex_uniq ex_str ex_bound ex_pos ex_sem ex_disj ex_ign_agrees ex_iso ex_acc
           ex_root ex_tokens 2 0 ex_root_eq ex_basic ex_parse).
  cbn. lia.
Qed.

(* the same instance meets the hypotheses of the removal theorem *)
Lemma ex_iso_st : keywords_isolated ex_m ex_text ex_st ex_st.
Proof.
  intros K Y p HK HY HYs (R & HR & Hre & Hk) _ Hne _ _.
  destruct (ex_kw R K Hk HR Hre) as [_ ->].
  in_st HY; try discriminate. now apply Hne.
Qed.

Lemma ex_removal mresA mresB fuel p rsA eA rsB eB :
  List.concat mresA = ex_st -> List.concat mresB = scanner_terms ex_m ex_st ->
  lex_raw ex_m ex_text fuel mresA p = (rsA, eA) ->
  lex_raw ex_m ex_text fuel mresB p = (rsB, eB) ->
  emit lower ex_m ex_text ex_st ex_ign rsB = emit lower ex_m ex_text ex_st ex_ign rsA /\ eB = eA.
Proof.
  apply removal_lex.
  - eapply uniq_names_perm; [apply sort_perm|apply ex_uniq].
  - apply sort_sorted.
  - apply ex_str.
  - apply ex_bound.
  - apply ex_sem.
  - apply ex_disj.
  - apply ex_iso_st.
  - apply ex_ign_agrees.
Qed.

(* ---------------------------------------------------------------- the hypotheses are needed *)
From LV Require Import Lex.LexerCheck.

(* F14: A: "if"  B: "if"i  C: /../ on "if" - the isolation hypothesis fails (A and B are case
   variants) and removing the embedded A from the scanner changes the reported type *)
Definition f14_terms :=
  [mkTerm "A" 0 false "if" [] 2; mkTerm "B" 0 false "if" ["i"%char] 2; mkTerm "C" 0 true ".." [] 2].
Definition f14_m := m_tab "if" [[("A", 2); ("B", 2); ("C", 2)]; []; []] [("C", "if")].

Lemma removal_without_isolation_refuted :
  let st := sort_terms f14_terms in
  obs_at lower f14_m "if" st st [] 0 = Some ("A", 2, false) /\
  obs_at lower f14_m "if" st (scanner_terms f14_m st) [] 0 = Some ("B", 2, false).
Proof. vm_compute. split; reflexivity. Qed.

(* F15: IF: "if"  IFP: "if("  NAME: /[a-z]+/ ... on "if(x)" with a first state that accepts IF and
   IFP but not NAME: the basic lexer says IF, the contextual one IFP *)
Definition f15_terms :=
  [mkTerm "IF" 0 false "if" [] 2; mkTerm "IFP" 0 false "if(" [] 3; mkTerm "NAME" 0 true "[a-z]+" [] 4294967295;
   mkTerm "LP" 0 false "(" [] 1; mkTerm "RP" 0 false ")" [] 1].
Definition f15_text := "if(x)".
Definition f15_m := m_tab f15_text
  [[("IF", 2); ("IFP", 3); ("NAME", 2)]; [("NAME", 1)]; [("LP", 1)]; [("NAME", 1)]; [("RP", 1)]; []] [("NAME", "if")].
Definition f15_accepts (s : nat) : list string :=
  match s with 0 => ["IF"; "IFP"] | 1 => ["LP"] | 2 => ["NAME"] | 3 => ["RP"] | _ => [] end.
Definition f15_step (s : nat) (t : tok) : option nat :=
  if mem_string (ktype t) (f15_accepts s) then Some (S s) else None.

Lemma contextual_without_isolation_refuted :
  exists root ts,
    make_lexer f15_m ex_cok f15_terms [] = Some root /\
    lex_from lower f15_m f15_text root 0 = (ts, AtEOF) /\
    run nat f15_step 0 ts = Some 4 /\
    map ktype ts = ["IF"; "LP"; "NAME"; "RP"] /\
    map ktype (fst (ctx_lex lower f15_m ex_cok f15_text nat f15_accepts f15_step 6 f15_terms [] [] root 0 0))
      = ["IFP"].
Proof. eexists. eexists. split; [reflexivity|]. vm_compute. repeat split; reflexivity. Qed.

(* ---------------------------------------------------------------- round 12: the model parse table *)
From LV Require Import Cfg.Grammar LR.Driver Lex.ContextualLR Lex.ContextualLR_proofs Lex.Alt Lex.Alt_proofs.

(* start: IF NAME  with IF = T 0, WS = T 1, NAME = T 2 (indices in ex_terms), $END = T 4;
   lark's table: 0: {IF: shift 1, start: shift 3}  1: {NAME: shift 2}  2: {$END: reduce start -> IF NAME} *)
Definition ex_rule : rule := mkRule 0 [T 0; T 2].
Definition ex_rows : rows :=
  [(0, [(T 0, Shift 1); (NT 0, Shift 3)]); (1, [(T 2, Shift 2)]); (2, [(T 4, Reduce ex_rule)])].
Definition ex_end : tok := mkTok "$END" 4 0.
Definition ex_tree : dtree tok := Node ex_rule [Leaf (mkTok "IF" 0 2); Leaf (mkTok "NAME" 3 1)].

Lemma ex_rows_known : rows_known ex_terms ex_rows = true.
Proof. reflexivity. Qed.

Lemma ex_lr_parse :
  parse tok (ContextualLR.ttype ex_terms) (ContextualLR.P ex_rows 0 3) 5 ex_tokens ex_end = Accepted ex_tree.
Proof. vm_compute. reflexivity. Qed.

Lemma ex_iso_lr (c : config tok) :
  keywords_isolated ex_m ex_text ex_st
    (sort_terms (sub_terms (config tok) (lr_accepts ex_terms ex_rows) ex_terms ex_ign [] c)).
Proof.
  intros K Y p HK HY HYs (R & HR & Hre & Hk) _ Hne _ _.
  destruct (ex_kw R K Hk HR Hre) as [_ ->].
  apply (proj1 (sort_in _ _)) in HY. unfold sub_terms in HY. apply filter_In in HY. destruct HY as [HY _].
  cbn [ex_terms In] in HY. destruct HY as [H|[H|[H|[]]]]; subst; try discriminate. now apply Hne.
Qed.

(* the instantiated theorem applies: same tokens, same tree *)
Lemma ex_contextual_lr_by_theorem :
  ctx_lex lower ex_m ex_cok ex_text (config tok) (lr_accepts ex_terms ex_rows) (lr_step ex_terms ex_rows 0 3 5)
          3 ex_terms ex_ign [] ex_root (init_config (ContextualLR.P ex_rows 0 3)) 0 = (ex_tokens, CEOF) /\
  ctx_parse lower ex_m ex_cok ex_text ex_terms ex_ign [] ex_rows 0 3 5 3 ex_root ex_end = CxTree ex_tree.
Proof.
  apply (contextual_refines_basic_lr lower ex_m ex_cok ex_text ex_terms ex_ign [] ex_rows 0 3 5
           ex_rows_known (fun _ => eq_refl) ex_uniq ex_str ex_bound ex_pos ex_sem ex_disj ex_ign_agrees
           ex_iso_lr ex_root ex_tokens ex_tree ex_end ex_root_eq ex_basic ex_lr_parse).
  cbn. lia.
Qed.

(* the first row accepts IF only: its sub-lexer has no NAME, the second no IF *)
Lemma ex_lr_rows_differ :
  row_accepts ex_terms ex_rows 0 = ["IF"] /\ row_accepts ex_terms ex_rows 1 = ["NAME"] /\
  row_accepts ex_terms ex_rows 2 = ["$END"].
Proof. vm_compute. repeat split; reflexivity. Qed.

(* the Scanner object on the example: alternations answered by a backtracking engine built from
   ex_m (one candidate per pattern) satisfy both assumptions *)
Definition ex_cand (t : term) (txt : string) (p : nat) : list nat :=
  match ex_m t txt p with Some n => [n] | None => [] end.

Lemma ex_m_of : forall t txt p, m_of ex_cand t txt p = ex_m t txt p.
Proof. intros t txt p. unfold m_of, ex_cand. now destruct (ex_m t txt p). Qed.

Lemma ex_scanner_object :
  sc_match (fun c txt p => named (alt_match_bt ex_cand c txt p)) (lx_mres ex_root) ex_text 0 = Some ("NAME", 2) /\
  report_o ex_m (fun c v => option_map (fun x : term * nat => tname (fst x)) (alt_full_bt ex_cand c v)) ex_cok
           ex_st NAME "if" = Some "IF".
Proof. vm_compute. split; reflexivity. Qed.
