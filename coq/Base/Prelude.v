(* Shared small definitions used by the generated files and the models. No proofs here. *)
From Coq Require Import ZArith List Bool String Ascii.
Import ListNotations.

(* results of fuelled / partial Python functions *)
Inductive res (A : Type) : Type :=
| Ok (a : A)
| AssertFail          (* a Python assert failed / an exception the model names explicitly *)
| OutOfFuel.          (* the model ran out of fuel: excluded by a proved bound in every theorem *)
Arguments Ok {A} a.
Arguments AssertFail {A}.
Arguments OutOfFuel {A}.

Definition rbind {A B} (r : res A) (f : A -> res B) : res B :=
  match r with Ok a => f a | AssertFail => AssertFail | OutOfFuel => OutOfFuel end.

(* for a in range(hi, hi-k, -1): first body that returns wins; else default *)
Fixpoint for_desc {A} (k : nat) (a : Z) (body : Z -> option A) (default : A) : A :=
  match k with
  | O => default
  | S k' => match body a with
            | Some r => r
            | None => for_desc k' (a - 1)%Z body default
            end
  end.

Fixpoint count_char (c : ascii) (s : string) : nat :=
  match s with
  | EmptyString => 0
  | String d r => (if Ascii.eqb c d then 1 else 0) + count_char c r
  end.

(* text after the last newline, i.e. s.rsplit('\n', 1)[1]; None when s has no newline
   (Python: IndexError) *)
Definition nl : ascii := "010"%char.
Fixpoint after_last_nl (s : string) : option string :=
  match s with
  | EmptyString => None
  | String d r =>
      match after_last_nl r with
      | Some t => Some t
      | None => if Ascii.eqb d nl then Some r else None
      end
  end.

Fixpoint mem_string (x : string) (l : list string) : bool :=
  match l with [] => false | y :: r => if String.eqb x y then true else mem_string x r end.
