(* C08 for the dynamic Earley lexers: the expected set carried by UnexpectedCharacters / UnexpectedEOF is exactly the
   set of terminals that can legally come next over the position graph, and an UnexpectedCharacters is never raised
   while a viable reading still reaches beyond its position.  The position graph (Earley/Dyn_proofs.v: terminal edges
   = the ends the scanner explores, ignore edges) is read as tilings of the text by token types, which links it to the
   token-level notions of Earley/Prefix.v (viable, productive_bodies). *)
From Coq Require Import List Arith Bool Lia ZArith.
From LV Require Import Cfg.Grammar Cfg.Analysis Cfg.Analysis_proofs Earley.Spec Earley.Prefix Earley.Alg Earley.Alg_proofs
  Earley.Dyn Earley.Dyn_proofs Earley.DynReport.
Import ListNotations.

Section Tiles.
  Variable G : grammar.
  Variable start : nat.
  Variable n : nat.
  Variable rmatch : nat -> nat -> option nat.
  Variable rtrunc : nat -> nat -> nat -> option nat.
  Variable complete_lex : bool.
  Variable ignore : list nat.

  Notation ends := (ends_of rmatch rtrunc complete_lex).
  Notation ign_path := (ign_path rmatch ignore).
  Notation ign_edge := (ign_edge rmatch ignore).
  Notation gderives := (gderives G rmatch rtrunc complete_lex ignore).
  Notation gchart := (gchart G start rmatch rtrunc complete_lex ignore).
  Notation derives := (derives G nat Nat.eqb).
  Notation viable := (viable G nat Nat.eqb start).

  (* the token-type string u tiles the text from i to k: every token is a lexeme the scanner explores (ends_of),
     ignored matches may precede each token *)
  Inductive tile_exact : list nat -> nat -> nat -> Prop :=
  | te_nil i : tile_exact [] i i
  | te_cons t u i i' j k : ign_path i i' -> In j (ends t i') -> tile_exact u j k -> tile_exact (t :: u) i k.

  (* ... and ignored matches may follow the last token *)
  Definition tiles (u : list nat) (i k : nat) : Prop := exists j, tile_exact u i j /\ ign_path j k.

  Lemma te_nil_inv i j : tile_exact [] i j -> i = j.
  Proof. inversion 1; auto. Qed.

  Lemma te_cons_inv t u i k :
    tile_exact (t :: u) i k -> exists i' j, ign_path i i' /\ In j (ends t i') /\ tile_exact u j k.
  Proof. inversion 1; subst; eauto. Qed.

  Lemma te_app u v i j k : tile_exact u i j -> tile_exact v j k -> tile_exact (u ++ v) i k.
  Proof. induction 1; simpl; auto. intros. econstructor; eauto. Qed.

  Lemma te_split u v : forall i k, tile_exact (u ++ v) i k -> exists j, tile_exact u i j /\ tile_exact v j k.
  Proof.
    induction u as [|t u IH]; simpl; intros i k H.
    - exists i. split; auto. constructor.
    - inversion H as [|t' u' i0 i' j k0 Hp He Hr]; subst.
      destruct (IH _ _ Hr) as (m & H1 & H2). exists m. split; auto. econstructor; eauto.
  Qed.

  (* ignored matches in front of a tiling are absorbed by its first token, or stay behind when there is none *)
  Lemma tiles_shift u i' i k : ign_path i' i -> tiles u i k -> tiles u i' k.
  Proof.
    intros Hp (j & Ht & Hk). destruct Ht as [i|t u i i1 j' k' Hp1 He Hr].
    - exists i'. split; [constructor|]. eapply ign_path_trans; eauto.
    - exists k'. split; auto. apply (te_cons t u i' i1 j' k'); auto. eapply ign_path_trans; eauto.
  Qed.

  Lemma tiles_app u v i j k : tiles u i j -> tiles v j k -> tiles (u ++ v) i k.
  Proof.
    intros (j1 & H1 & P1) H2. apply (tiles_shift v j1 j k P1) in H2. destruct H2 as (j2 & H2 & P2).
    exists j2. split; auto. eapply te_app; eauto.
  Qed.

  Lemma tiles_snoc_path u i j k : tiles u i j -> ign_path j k -> tiles u i k.
  Proof. intros (m & H & P) Q. exists m. split; auto. eapply ign_path_trans; eauto. Qed.

  (* derivations over the position graph = token-level derivations of a tiling *)
  Lemma gderives_tiles ss i k : gderives ss i k -> exists u, derives ss u /\ tile_exact u i k.
  Proof.
    induction 1 as [i | t ss i i1 j k Hp He Hd IH | a r ss i j k Hr Hl Hd1 IH1 Hd2 IH2].
    - exists []. split; constructor.
    - destruct IH as (u & D & Tl). exists (t :: u). split.
      + constructor; auto. apply Nat.eqb_refl.
      + econstructor; eauto.
    - destruct IH1 as (u1 & D1 & T1). destruct IH2 as (u2 & D2 & T2). exists (u1 ++ u2). split.
      + econstructor; eauto.
      + eapply te_app; eauto.
  Qed.

  Lemma tiles_gderives ss u : derives ss u -> forall i k, tile_exact u i k -> gderives ss i k.
  Proof.
    induction 1 as [| t x ss w Hm Hd IH | a r ss w1 w2 Hr Hl Hd1 IH1 Hd2 IH2]; intros i k Ht.
    - inversion Ht; subst. constructor.
    - apply Nat.eqb_eq in Hm. subst x. inversion Ht as [|t' u' i0 i' j k0 Hp He Hrr]; subst.
      econstructor; eauto.
    - destruct (te_split _ _ _ _ Ht) as (j & T1 & T2). econstructor; eauto.
  Qed.

  (* the dynamic language, at token level: some tiling of the whole text is a sentence *)
  Theorem gsentence_tiles :
    gsentence G start n rmatch rtrunc complete_lex ignore <-> exists u, derives [NT start] u /\ tiles u 0 n.
  Proof.
    split.
    - intros (j & D & P). destruct (gderives_tiles _ _ _ D) as (u & Du & Tu). exists u. split; auto. exists j; auto.
    - intros (u & D & j & Tl & P). exists j. split; auto. eapply tiles_gderives; eauto.
  Qed.

  Hypothesis H_fwd : fwd rmatch rtrunc.

  (* ---- soundness: an item at k is reached by a tiling of 0..k that what is left of the item completes to a sentence *)
  Lemma skipn_expect x s :
    expect x = Some s -> skipn (dot x) (rhs (irule x)) = s :: skipn (S (dot x)) (rhs (irule x)).
  Proof. unfold expect. apply skipn_nth. Qed.

  Lemma skipn_advance x : skipn (dot (advance x)) (rhs (irule (advance x))) = skipn (S (dot x)) (rhs (irule x)).
  Proof. reflexivity. Qed.

  Theorem gchart_item_viable k x :
    productive_bodies G nat Nat.eqb -> gchart k x ->
    forall v, derives (skipn (dot x) (rhs (irule x))) v -> exists u, tiles u 0 k /\ viable (u ++ v).
  Proof.
    intros Hprod H.
    induction H as [r Hr Hl | k x a r Hc IH He Hr Hl | i k y x a Hy IHy Hey Hx IHx Hex Ho Hl
                   | k x t j Hc IH He Hj | k x t j Hc IH He Hj | k x j Hc IH Hs Hj]; intros v Hv.
    - cbn [dot irule skipn] in Hv. exists []. split.
      + exists 0. split; constructor.
      + exists []. simpl. rewrite app_nil_r. rewrite <- (app_nil_r v). eapply d_nt; eauto. constructor.
    - cbn [dot irule skipn] in Hv.
      destruct (Hprod (irule x) (S (dot x)) (proj1 (gchart_wf G start rmatch rtrunc complete_lex ignore H_fwd _ _ Hc)))
        as (u2 & Hu2).
      assert (Hd : derives (skipn (dot x) (rhs (irule x))) (v ++ u2)).
      { rewrite (skipn_expect _ _ He). eapply d_nt; eauto. }
      destruct (IH _ Hd) as (u & Tu & w & Hw). exists u. split; auto. exists (u2 ++ w).
      rewrite !app_assoc in *. exact Hw.
    - rewrite skipn_advance in Hv.
      destruct (gchart_sound G start rmatch rtrunc complete_lex ignore H_fwd _ _ Hx) as (k' & Dx & Px).
      rewrite firstn_all2 in Dx by (unfold expect in Hex; apply nth_error_None in Hex; lia).
      rewrite Ho in Dx. destruct (gderives_tiles _ _ _ Dx) as (u1 & Du1 & Tu1).
      assert (Hd : derives (skipn (dot y) (rhs (irule y))) (u1 ++ v)).
      { rewrite (skipn_expect _ _ Hey). eapply d_nt; eauto.
        apply (gchart_wf G start rmatch rtrunc complete_lex ignore H_fwd _ _ Hx). }
      destruct (IHy _ Hd) as (u0 & Tu0 & Hvi). exists (u0 ++ u1). split.
      + apply (tiles_app u0 u1 0 i k); auto. exists k'. auto.
      + rewrite <- app_assoc. exact Hvi.
    - rewrite skipn_advance in Hv.
      assert (Hd : derives (skipn (dot x) (rhs (irule x))) (t :: v)).
      { rewrite (skipn_expect _ _ He). constructor; auto. apply Nat.eqb_refl. }
      destruct (IH _ Hd) as (u & Tu & Hvi). exists (u ++ [t]). split.
      + apply (tiles_app u [t] 0 k j); auto. exists j. split; [|constructor].
        econstructor; [constructor|eauto|constructor].
      + rewrite <- app_assoc. exact Hvi.
    - destruct (IH _ Hv) as (u & Tu & Hvi). exists u. split; auto.
      eapply tiles_snoc_path; eauto. econstructor; eauto. constructor.
    - destruct (IH _ Hv) as (u & Tu & Hvi). exists u. split; auto.
      eapply tiles_snoc_path; eauto. econstructor; eauto. constructor.
  Qed.

  (* every terminal an item at k expects can legally come next after some tiling of 0..k *)
  Theorem gexpected_sound k x t :
    productive_bodies G nat Nat.eqb -> gchart k x -> expect x = Some (T t) ->
    exists u, tiles u 0 k /\ viable (u ++ [t]).
  Proof.
    intros Hprod Hc He.
    destruct (Hprod (irule x) (S (dot x)) (proj1 (gchart_wf G start rmatch rtrunc complete_lex ignore H_fwd _ _ Hc)))
      as (u2 & Hu2).
    assert (Hd : derives (skipn (dot x) (rhs (irule x))) (t :: u2)).
    { rewrite (skipn_expect _ _ He). constructor; auto. apply Nat.eqb_refl. }
    destruct (gchart_item_viable k x Hprod Hc _ Hd) as (u & Tu & w & Hw).
    exists u. split; auto. exists (u2 ++ w). rewrite <- app_assoc in *. exact Hw.
  Qed.

  (* ---- completeness: every terminal that can legally come next after a tiling of 0..k is expected at k ---- *)
  Lemma list_split_le {A} (w1 w2 u1 : list A) x u2 :
    w1 ++ w2 = u1 ++ x :: u2 -> length w1 <= length u1 -> exists u1b, u1 = w1 ++ u1b /\ w2 = u1b ++ x :: u2.
  Proof.
    revert u1. induction w1 as [|a w1 IH]; intros u1 E L; simpl in *.
    - exists u1. auto.
    - destruct u1 as [|b u1]; simpl in *; [lia|]. inversion E; subst.
      destruct (IH u1 H1 ltac:(lia)) as (u1b & -> & ->). exists u1b. auto.
  Qed.

  Lemma list_split_gt {A} (w1 w2 u1 : list A) x u2 :
    w1 ++ w2 = u1 ++ x :: u2 -> length u1 < length w1 -> exists w1b, w1 = u1 ++ x :: w1b.
  Proof.
    revert u1. induction w1 as [|a w1 IH]; intros u1 E L; simpl in *; [lia|].
    destruct u1 as [|b u1]; simpl in *.
    - inversion E; subst. exists w1. auto.
    - inversion E; subst. destruct (IH u1 H1 ltac:(lia)) as (w1b & ->). exists w1b. auto.
  Qed.

  Lemma gchart_prefix_gen b w : derives b w ->
    forall r d o i a c u1 t u2 j k,
      gchart i (mkItem r d o) -> rhs r = a ++ b ++ c -> length a = d ->
      w = u1 ++ t :: u2 -> tile_exact u1 i j -> ign_path j k ->
      exists x, gchart k x /\ expect x = Some (T t).
  Proof.
    induction 1 as [| t0 y ss w' Hm Hd IH | a0 r0 ss w1 w2 Hr Hl Hd1 IH1 Hd2 IH2];
      intros r d o i a c u1 t u2 j k Hc E L Eu Ht Hp.
    - destruct u1; discriminate.
    - assert (Hx : expect (mkItem r d o) = Some (T t0)).
      { unfold expect; cbn [irule dot]. rewrite E, nth_error_app2 by lia. rewrite L, Nat.sub_diag. reflexivity. }
      apply Nat.eqb_eq in Hm. subst y.
      destruct u1 as [|y1 u1'].
      + simpl in Eu. inversion Eu as [[E1 E2]]. apply te_nil_inv in Ht. rewrite <- E1. subst j.
        exists (mkItem r d o). split; auto.
        apply (gchart_carry_path G start rmatch rtrunc complete_lex ignore i k (mkItem r d o) t0 Hp Hc Hx).
      + simpl in Eu. inversion Eu as [[E1 E2]]. rewrite <- E1 in Ht.
        destruct (te_cons_inv _ _ _ _ Ht) as (i' & j' & Hp1 & He & Hrr).
        pose proof (gchart_carry_path G start rmatch rtrunc complete_lex ignore _ _ _ _ Hp1 Hc Hx) as Hc1.
        pose proof (g_scan G start rmatch rtrunc complete_lex ignore _ _ _ _ Hc1 Hx He) as Hc2.
        unfold advance in Hc2; cbn [irule dot orig] in Hc2.
        eapply (IH r (S d) o j' (a ++ [T t0]) c u1' t u2 j k); eauto.
        * rewrite E, <- app_assoc. reflexivity.
        * rewrite app_length; simpl; lia.
    - assert (Hx : expect (mkItem r d o) = Some (NT a0)).
      { unfold expect; cbn [irule dot]. rewrite E, nth_error_app2 by lia. rewrite L, Nat.sub_diag. reflexivity. }
      pose proof (g_pred G start rmatch rtrunc complete_lex ignore _ _ _ _ Hc Hx Hr Hl) as Hpred.
      destruct (le_lt_dec (length w1) (length u1)) as [Hle|Hgt].
      + destruct (list_split_le _ _ _ _ _ Eu Hle) as (u1b & -> & Ew2).
        destruct (te_split _ _ _ _ Ht) as (m & T1 & T2).
        pose proof (tiles_gderives _ _ Hd1 _ _ T1) as Gd1.
        pose proof (gchart_complete_gen G start rmatch rtrunc complete_lex ignore _ _ _ Gd1 r0 0 i [] [] Hpred) as Hq.
        simpl in Hq. rewrite app_nil_r in Hq. specialize (Hq eq_refl eq_refl).
        assert (Hc' : gchart m (mkItem r (S d) o)).
        { apply (g_comp G start rmatch rtrunc complete_lex ignore i m (mkItem r d o)
                   (mkItem r0 (length (rhs r0)) i) a0); auto.
          unfold expect; cbn [irule dot]. apply nth_error_None. lia. }
        eapply (IH2 r (S d) o m (a ++ [NT a0]) c u1b t u2 j k); eauto.
        * rewrite E, <- app_assoc. reflexivity.
        * rewrite app_length; simpl; lia.
      + destruct (list_split_gt _ _ _ _ _ Eu Hgt) as (w1b & Ew1).
        eapply (IH1 r0 0 i i [] [] u1 t w1b j k); eauto.
        rewrite app_nil_r. reflexivity.
  Qed.

  Theorem gexpected_complete u k t :
    tiles u 0 k -> viable (u ++ [t]) -> exists x, gchart k x /\ expect x = Some (T t).
  Proof.
    intros (j & Tu & Pj) (v & Hv). rewrite <- app_assoc in Hv. simpl in Hv.
    remember [NT start] as ss0 eqn:Es. remember (u ++ t :: v) as s eqn:Eseq.
    destruct Hv as [| |a r ss w1 w2 Hr Hl Hd1 Hd2]; try discriminate.
    inversion Es; subst a ss. inversion Hd2; subst w2. rewrite app_nil_r in Eseq.
    assert (Hc : gchart 0 (mkItem r 0 0)) by (constructor; auto).
    eapply (gchart_prefix_gen _ _ Hd1 r 0 0 0 [] [] u t v j k); eauto.
    rewrite app_nil_r. reflexivity.
  Qed.

  (* a tiling of 0..k that is a whole sentence leaves a completed start item at k *)
  Theorem gsentence_prefix_item u k :
    tiles u 0 k -> derives [NT start] u -> exists x, gchart k x /\ is_solution start x = true.
  Proof.
    intros (j & Tu & Pj) D.
    pose proof (tiles_gderives _ _ D _ _ Tu) as Gd.
    inversion Gd as [| |a r ss i j' k0 Hr Hl Hd1 Hd2 Ea Ei Ek]. subst a ss i k0.
    assert (Ej : j' = j) by (inversion Hd2; auto). subst j'.
    assert (Hsol : is_solution start (mkItem r (length (rhs r)) 0) = true).
    { apply is_solution_spec. unfold expect; cbn [irule dot orig]. repeat split; auto. apply nth_error_None. lia. }
    exists (mkItem r (length (rhs r)) 0). split; auto.
    eapply (gchart_carry_start_path G start rmatch rtrunc complete_lex ignore); eauto.
    apply (gchart_complete_gen G start rmatch rtrunc complete_lex ignore _ _ _ Hd1 r 0 0 [] []); auto.
    - constructor; auto.
    - rewrite app_nil_r; auto.
  Qed.

  (* a viable tiling of 0..k leaves an item at k *)
  Corollary gviable_item u k : tiles u 0 k -> viable u -> exists x, gchart k x.
  Proof.
    intros Tu (v & Hv). destruct v as [|t v].
    - rewrite app_nil_r in Hv. destruct (gsentence_prefix_item u k Tu Hv) as (x & Hx & _). eauto.
    - destruct (gexpected_complete u k t Tu) as (x & Hx & _); eauto.
      exists v. rewrite <- app_assoc. exact Hv.
  Qed.
End Tiles.

(* ---------------------------------------------------------------------------------------- *)
(* lark's configuration (the prediction table of Earley/Alg.v): what a run reports *)
From LV Require Import Pos.PosBase Pos.Coord Pos.LexCoords Pos.Current.

Lemma last_nth {A} (l : list A) d : forall m, length l = S m -> last l d = nth m l d.
Proof.
  induction l as [|a l IH]; intros m H; simpl in H; [discriminate|].
  destruct l as [|b l']; [destruct m; [reflexivity|discriminate]|].
  destruct m as [|m']; [discriminate|]. change (last (a :: b :: l') d) with (last (b :: l') d).
  rewrite (IH m') by (simpl in *; lia). reflexivity.
Qed.

Section ReportTop.
  Variable G : grammar.
  Variable start n : nat.
  Variable rmatch : nat -> nat -> option nat.
  Variable rtrunc : nat -> nat -> nat -> option nat.
  Variable complete_lex : bool.
  Variable ignore : list nat.
  Hypothesis H_fwd : fwd rmatch rtrunc.

  Let ps : forall a r, In r (pred_lookup G (pred_table G) a) -> In r G /\ lc_reach G a (lhs r).
  Proof. intros a r. rewrite pred_lookup_eq. apply predictions_spec. Qed.
  Let pd : forall a r, In r G -> lhs r = a -> In r (pred_lookup G (pred_table G) a).
  Proof. intros a r. rewrite pred_lookup_eq. apply predictions_direct. Qed.

  Notation res := (dyn_parse G start n rmatch rtrunc complete_lex ignore).
  Notation gchart := (gchart G start rmatch rtrunc complete_lex ignore).
  Notation tiles := (tiles rmatch rtrunc complete_lex ignore).
  Notation viable := (viable G nat Nat.eqb start).

  Lemma res_ok : dout_ok G start n rmatch rtrunc complete_lex ignore res.
  Proof. apply (dparse_ok G _ start n rmatch rtrunc complete_lex ignore ps pd H_fwd). Qed.

  Lemma scan_expected_In q t : In t (scan_expected q) <-> exists x, In x q /\ expect x = Some (T t).
  Proof.
    unfold scan_expected. rewrite in_flat_map. split.
    - intros (x & Hx & Ht). exists x. split; auto.
      destruct (expect x) as [[t'|a]|]; simpl in Ht; try contradiction. destruct Ht as [->|[]]. reflexivity.
    - intros (x & Hx & He). exists x. split; auto. rewrite He. left; reflexivity.
  Qed.

  (* the scan buffer at k holds exactly the chart items at k that expect a terminal *)
  Theorem dyn_scans_are_chart k x :
    k < length (d_cols res) ->
    (In x (colf (d_scans res) k) <-> gchart k x /\ is_term_item x = true).
  Proof.
    destruct res_ok as (N & L1 & L2 & Cl & _). intros Hk. rewrite L1 in Hk. split.
    - intros Hx. split.
      + apply (gcl_sound _ _ _ _ _ _ _ _ _ Cl k x Hk). right; exact Hx.
      + apply (gcl_scan_t _ _ _ _ _ _ _ _ _ Cl k x Hk Hx).
    - intros (Hc & Ht).
      apply (ginT_Q G start rmatch rtrunc complete_lex ignore (colf (d_cols res)) (colf (d_scans res)) N); auto.
      apply (gclosed_complete G start rmatch rtrunc complete_lex ignore H_fwd _ _ N Cl); auto.
  Qed.

  Theorem dyn_expected_is_chart k t :
    k < length (d_cols res) ->
    (In t (scan_expected (colf (d_scans res) k)) <-> exists x, gchart k x /\ expect x = Some (T t)).
  Proof.
    intros Hk. rewrite scan_expected_In. split.
    - intros (x & Hx & He). apply (dyn_scans_are_chart k x Hk) in Hx. exists x. tauto.
    - intros (x & Hc & He). exists x. split; auto. apply (dyn_scans_are_chart k x Hk). split; auto.
      unfold is_term_item. rewrite He. reflexivity.
  Qed.

  (* the expected set at position k = the terminals that can legally come next after a tiling of 0..k *)
  Theorem dyn_expected_sound k t :
    productive_bodies G nat Nat.eqb -> k < length (d_cols res) ->
    In t (scan_expected (colf (d_scans res) k)) -> exists u, tiles u 0 k /\ viable (u ++ [t]).
  Proof.
    intros Hprod Hk Ht. apply (dyn_expected_is_chart k t Hk) in Ht. destruct Ht as (x & Hc & He).
    eapply gexpected_sound; eauto.
  Qed.

  Theorem dyn_expected_complete k t u :
    k < length (d_cols res) -> tiles u 0 k -> viable (u ++ [t]) ->
    In t (scan_expected (colf (d_scans res) k)).
  Proof.
    intros Hk Tu Hv. apply (dyn_expected_is_chart k t Hk).
    eapply gexpected_complete; eauto.
  Qed.

  (* UnexpectedCharacters at i: the run stopped there and no chart item lies beyond i *)
  Theorem dyn_reject_char_spec i :
    d_out res = DRejectChar i ->
    i < n /\ length (d_cols res) = S i /\ length (d_scans res) = S i /\ forall j x, i < j -> ~ gchart j x.
  Proof.
    intros Eo. destruct res_ok as (N & L1 & L2 & Cl & Hout). rewrite Eo in Hout.
    destruct Hout as (HN & Hi & Hno). rewrite HN in *. split; auto. split; auto. split; auto.
    intros j x Hj Hc.
    assert (Cl2 : gclosed G start rmatch rtrunc complete_lex ignore (colf (d_cols res)) (colf (d_scans res)) (S j)).
    { apply (gclosed_pad G start rmatch rtrunc complete_lex ignore H_fwd _ _ i Cl); [|exact Hno|lia].
      intros k Hk. split; apply colf_overflow; lia. }
    destruct (gclosed_complete G start rmatch rtrunc complete_lex ignore H_fwd _ _ (S j) Cl2 j x Hc) as [F|F]; [lia| |];
      rewrite colf_overflow in F by lia; destruct F.
  Qed.

  (* ... hence no viable reading of the text reaches beyond i: the error is not raised early *)
  Theorem dyn_error_not_early i j u :
    d_out res = DRejectChar i -> i < j -> tiles u 0 j -> ~ viable u.
  Proof.
    intros Eo Hj Tu Hv. destruct (dyn_reject_char_spec i Eo) as (_ & _ & _ & Hno).
    destruct (gviable_item G start rmatch rtrunc complete_lex ignore u j Tu Hv) as (x & Hx).
    exact (Hno j x Hj Hx).
  Qed.

  (* UnexpectedEOF: the whole text was read, no tiling of it is a sentence *)
  Theorem dyn_reject_eof_spec :
    d_out res = DRejectEOF ->
    length (d_cols res) = S n /\ length (d_scans res) = S n /\
    ~ gsentence G start n rmatch rtrunc complete_lex ignore.
  Proof.
    intros Eo. destruct res_ok as (N & L1 & L2 & Cl & Hout). rewrite Eo in Hout. destruct Hout as (HN & Hex).
    rewrite HN in *. split; auto. split; auto. intros Hs.
    apply (dyn_accepts_iff_gsentence G start n rmatch rtrunc complete_lex ignore H_fwd) in Hs.
    unfold dyn_accepts, daccepts in Hs. fold res in Hs.
    change (dparse G (pred_lookup G (pred_table G)) start n rmatch rtrunc complete_lex ignore) with res in Hs.
    rewrite Eo in Hs. discriminate.
  Qed.

  (* ---- the report ---- *)
  Theorem dyn_report_chars (text : list nat) pos line col allowed considered state :
    n = length text ->
    dyn_report text res = Some (RepChars pos line col allowed considered state) ->
    d_out res = DRejectChar pos /\ pos < n /\
    (line, col) = coord Nat.eqb 10 text pos /\
    (forall x, In x considered <-> gchart pos x /\ is_term_item x = true) /\
    allowed = scan_expected considered /\ state = map item_state considered /\
    (forall t u, tiles u 0 pos -> viable (u ++ [t]) -> In t allowed) /\
    (productive_bodies G nat Nat.eqb -> forall t, In t allowed -> exists u, tiles u 0 pos /\ viable (u ++ [t])) /\
    (forall j u, pos < j -> tiles u 0 j -> ~ viable u).
  Proof.
    intros Hn Hr. unfold dyn_report in Hr. destruct (d_out res) as [| |i|i] eqn:Eo; try discriminate.
    inversion Hr; subst pos line col allowed considered state. clear Hr.
    destruct (dyn_reject_char_spec i Eo) as (Hi & L1 & L2 & Hno).
    assert (Hk : i < length (d_cols res)) by lia.
    split; auto. split; auto. split.
    { rewrite <- surjective_pairing. apply dyn_coords_str. lia. }
    split. { intros x. apply (dyn_scans_are_chart i x Hk). }
    split; auto. split; auto. split.
    { intros t u Tu Hv. apply (dyn_expected_complete i t u Hk Tu Hv). }
    split.
    { intros Hprod t Ht. apply (dyn_expected_sound i t Hprod Hk Ht). }
    intros j u Hj Tu. apply (dyn_error_not_early i j u Eo Hj Tu).
  Qed.

  Theorem dyn_report_eof (text : list nat) expected state :
    dyn_report text res = Some (RepEOF expected state) ->
    d_out res = DRejectEOF /\
    ~ gsentence G start n rmatch rtrunc complete_lex ignore /\
    (forall t u, tiles u 0 n -> viable (u ++ [t]) -> In t expected) /\
    (productive_bodies G nat Nat.eqb -> forall t, In t expected -> exists u, tiles u 0 n /\ viable (u ++ [t])) /\
    exists q, (forall x, In x q <-> gchart n x /\ is_term_item x = true) /\
              expected = scan_expected q /\ state = map item_state q.
  Proof.
    intros Hr. unfold dyn_report in Hr. destruct (d_out res) as [| |i|i] eqn:Eo; try discriminate.
    inversion Hr; subst expected state. clear Hr.
    destruct (dyn_reject_eof_spec Eo) as (L1 & L2 & Hns).
    assert (Hk : n < length (d_cols res)) by lia.
    assert (El : last (d_scans res) [] = colf (d_scans res) n) by (apply last_nth; exact L2).
    rewrite El. split; auto. split; auto. split.
    { intros t u Tu Hv. apply (dyn_expected_complete n t u Hk Tu Hv). }
    split.
    { intros Hprod t Ht. apply (dyn_expected_sound n t Hprod Hk Ht). }
    exists (colf (d_scans res) n). split; auto. intros x. apply (dyn_scans_are_chart n x Hk).
  Qed.
End ReportTop.
