(* Comparison functions used by the generated correspondence cases of C01 for the dynamic lexers (no proofs). *)
From Coq Require Import List Arith Bool NArith.
From LV Require Import Cfg.Grammar Cfg.Analysis Earley.Spec Earley.Alg Earley.AlgCheck Earley.Dyn.
Import ListNotations.

(* the recorded answers of the regex engine, packed:  rmatch: (t * 64 + i) * 64 + e ;
   rtrunc: ((t * 64 + i) * 64 + lim) * 64 + e.  An absent entry means "no match". *)
Definition tbl_find (key : N) (tbl : list N) : option nat :=
  match find (fun c => N.eqb (N.div c 64) key) tbl with
  | Some c => Some (N.to_nat (N.modulo c 64))
  | None => None
  end.
Definition tbl_match (tbl : list N) (t i : nat) : option nat :=
  tbl_find (N.of_nat t * 64 + N.of_nat i)%N tbl.
Definition tbl_trunc (tbl : list N) (t i lim : nat) : option nat :=
  tbl_find ((N.of_nat t * 64 + N.of_nat i) * 64 + N.of_nat lim)%N tbl.

(* 0 accept, 1 UnexpectedEOF, 2+i UnexpectedCharacters raised by scan(i), 4999 out of fuel *)
Definition doutcome_code (o : doutcome) : nat :=
  match o with DAccept => 0 | DRejectEOF => 1 | DRejectChar i => 2 + i | DOutOfFuel _ => 4999 end.

(* one observed run: text length, complete_lex, the two oracle tables, outcome code, column item sets and to_scan
   item sets after each predict_and_complete call, the keys of delayed_matches after each scan that went on *)
Definition drun := (nat * bool * list N * list N * nat * list (list N) * list (list N) * list (list N))%type.

Definition drun_check (G : grammar) (start : nat) (ignore : list nat) (c : drun) : bool :=
  let '(n, cl, mtab, ttab, code, cols, scans, keys) := c in
  let r := dyn_parse G start n (tbl_match mtab) (tbl_trunc ttab) cl ignore in
  Nat.eqb (doutcome_code (d_out r)) code
  && sets_eqb (map (map (item_code G)) (d_cols r)) cols
  && sets_eqb (map (map (item_code G)) (d_scans r)) scans
  && sets_eqb (map (map N.of_nat) (d_keys r)) keys.

(* one case: lark's compiled BNF, start symbol, ids of the ignored terminals, the runs observed with it *)
Definition dcase := (list (nat * list symbol) * nat * list nat * list drun)%type.

Definition dyn_check (c : dcase) : bool :=
  let '(rules, start, ignore, runs) := c in
  let G := mk_grammar rules in
  forallb (drun_check G start ignore) runs.
