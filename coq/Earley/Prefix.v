(* Valid-prefix property of the Earley chart and exactness of the expected-terminal set
   (C08, Earley half).  Everything is about the specification chart of Earley/Spec.v;
   the executable model of lark/parsers/earley.py is tied to that chart by C01. *)
From Coq Require Import List Arith Lia Bool.
From LV Require Import Cfg.Grammar Earley.Spec.
Import ListNotations.

Section Prefix.
  Variable G : grammar.
  Variable tok : Type.
  Variable tmatch : nat -> tok -> bool.
  Variable start : nat.

  Notation derives := (derives G tok tmatch).
  Notation chart := (chart G tok tmatch).

  (* p is a viable prefix: it can be extended to a sentence *)
  Definition viable (p : list tok) : Prop := exists v, derives [NT start] (p ++ v).

  (* every symbol used in a rule body is productive *)
  Definition productive_bodies : Prop :=
    forall r d, In r G -> exists u, derives (skipn d (rhs r)) u.

  (* what is left of an item's rule can still be completed to a sentence *)
  Definition item_viable (w : list tok) (k : nat) (it : item) : Prop :=
    forall u, derives (skipn (dot it) (rhs (irule it))) u -> viable (firstn k w ++ u).

  Lemma skipn_nth {A} (l : list A) d x : nth_error l d = Some x -> skipn d l = x :: skipn (S d) l.
  Proof.
    revert d. induction l as [|y l IH]; intros [|d] E; simpl in *; try discriminate.
    - inversion E; auto.
    - rewrite (IH d E). reflexivity.
  Qed.

  Lemma firstn_S_snoc {A} (l : list A) k x : nth_error l k = Some x -> firstn (S k) l = firstn k l ++ [x].
  Proof.
    revert k. induction l as [|y l IH]; intros [|k] E; simpl in *; try discriminate.
    - inversion E; auto.
    - f_equal; auto.
  Qed.

  Lemma span_firstn w i k u : span tok w i k u -> firstn k w = firstn i w ++ u.
  Proof.
    intros (p & s & E & L1 & L2). subst w.
    rewrite firstn_app. rewrite firstn_all2 by lia.
    rewrite firstn_app. rewrite firstn_all2 by lia.
    replace (k - length p - length u) with 0 by lia. simpl. rewrite app_nil_r.
    rewrite firstn_app. replace (i - length p) with 0 by lia. simpl. rewrite app_nil_r.
    rewrite firstn_all2 by lia. reflexivity.
  Qed.

  (* Valid prefix property: the chart never holds an item after a non-viable prefix. *)
  Theorem chart_item_viable w k it :
    productive_bodies -> chart w start k it -> item_viable w k it.
  Proof.
    intros Hprod H.
    induction H as [r Hin Hl | k r d j a r' Hc IH Hn Hin Hl | k r d j t x Hc IH Hn Hw Hm
                   | k r d j a r' i Hc1 IH1 Hn Hc2 IH2 Hl]; unfold item_viable in *; cbn [dot irule] in *.
    - intros u Hu. exists []. simpl. rewrite app_nil_r.
      rewrite <- (app_nil_r u). eapply d_nt with (r := r); eauto. constructor.
    - intros u Hu.
      destruct (Hprod r (S d) (chart_in_G _ _ _ _ _ _ _ Hc)) as (u2 & Hu2).
      assert (Hd : derives (skipn d (rhs r)) (u ++ u2)).
      { rewrite (skipn_nth _ _ _ Hn). eapply d_nt with (r := r'); eauto. }
      destruct (IH _ Hd) as (v & Hv). exists (u2 ++ v).
      rewrite !app_assoc in *. exact Hv.
    - intros u Hu.
      assert (Hd : derives (skipn d (rhs r)) (x :: u)).
      { rewrite (skipn_nth _ _ _ Hn). constructor; auto. }
      destruct (IH _ Hd) as (v & Hv). exists v.
      rewrite (firstn_S_snoc _ _ _ Hw). rewrite <- !app_assoc. simpl. rewrite <- app_assoc in Hv. exact Hv.
    - intros u Hu.
      destruct (chart_sound _ _ _ _ _ _ _ Hc2) as (u1 & Hs & Hd1). cbn [orig dot irule] in *.
      rewrite firstn_all in Hd1.
      assert (Hd : derives (skipn d (rhs r)) (u1 ++ u)).
      { rewrite (skipn_nth _ _ _ Hn). eapply d_nt with (r := r'); eauto.
        apply (chart_in_G _ _ _ _ _ _ _ Hc2). }
      destruct (IH1 _ Hd) as (v & Hv). exists v.
      rewrite (span_firstn _ _ _ _ Hs). rewrite <- !app_assoc in *. exact Hv.
  Qed.

  Definition expects (w : list tok) (k : nat) (t : nat) : Prop :=
    exists r d j, chart w start k (mkItem r d j) /\ nth_error (rhs r) d = Some (T t).

  (* every expected terminal can legally come next *)
  Theorem expected_sound w k t x :
    productive_bodies -> expects w k t -> tmatch t x = true -> k <= length w ->
    viable (firstn k w ++ [x]).
  Proof.
    intros Hprod (r & d & j & Hc & Hn) Hm Hk.
    destruct (Hprod r (S d) (chart_in_G _ _ _ _ _ _ _ Hc)) as (u2 & Hu2).
    assert (Hd : derives (skipn d (rhs r)) (x :: u2)).
    { rewrite (skipn_nth _ _ _ Hn). constructor; auto. }
    destruct (chart_item_viable _ _ _ Hprod Hc _ Hd) as (v & Hv). cbn [dot irule] in *.
    exists (u2 ++ v). rewrite <- app_assoc. simpl. rewrite <- app_assoc in Hv. exact Hv.
  Qed.

  (* ---- completeness on prefixes: every terminal that can legally come next is expected ---- *)
  Lemma chart_prefix_gen b u : derives b u ->
    forall w r d j i a c u1 x u2,
      chart w start i (mkItem r d j) -> rhs r = a ++ b ++ c -> length a = d ->
      u = u1 ++ x :: u2 -> span tok w i (i + length u1) u1 ->
      exists t, expects w (i + length u1) t /\ tmatch t x = true.
  Proof.
    induction 1 as [| t y ss w' Hm Hd IH | a0 r0 ss w1 w2 Hin Hl Hd1 IH1 Hd2 IH2];
      intros w r d j i a c u1 x u2 Hc E L Eu Hs.
    - destruct u1; discriminate.
    - assert (Hn : nth_error (rhs r) d = Some (T t)).
      { rewrite E, nth_error_app2 by lia. rewrite L, Nat.sub_diag. reflexivity. }
      destruct u1 as [|y1 u1'].
      + simpl in Eu. inversion Eu; subst y w'. exists t. split; auto.
        exists r, d, j. rewrite Nat.add_0_r. auto.
      + simpl in Eu. inversion Eu; subst y1 w'.
        apply span_cons in Hs. destruct Hs as (Hnth & Hs).
        assert (Hc' : chart w start (S i) (mkItem r (S d) j)) by (eapply c_scan; eauto).
        simpl length. replace (i + S (length u1')) with (S i + length u1') by lia.
        eapply (IH w r (S d) j (S i) (a ++ [T t]) c u1' x u2); eauto.
        * rewrite E, <- app_assoc. reflexivity.
        * rewrite app_length; simpl; lia.
        * replace (S i + length u1') with (i + S (length u1')) by lia. exact Hs.
    - assert (Hn : nth_error (rhs r) d = Some (NT a0)).
      { rewrite E, nth_error_app2 by lia. rewrite L, Nat.sub_diag. reflexivity. }
      assert (Hp : chart w start i (mkItem r0 0 i)) by (eapply c_pred; eauto).
      destruct (le_lt_dec (length w1) (length u1)) as [Hle|Hgt].
      + (* w1 lies inside the consumed input: complete r0 and continue in ss *)
        assert (Esplit : exists u1b, u1 = w1 ++ u1b /\ w2 = u1b ++ x :: u2).
        { exists (skipn (length w1) u1).
          assert (E1 : firstn (length w1) (w1 ++ w2) = firstn (length w1) (u1 ++ x :: u2)) by (rewrite Eu; reflexivity).
          rewrite firstn_app, Nat.sub_diag, firstn_all in E1. simpl in E1. rewrite app_nil_r in E1.
          rewrite firstn_app in E1. replace (length w1 - length u1) with 0 in E1 by lia.
          simpl in E1. rewrite app_nil_r in E1.
          split.
          - rewrite E1 at 1. symmetry. apply firstn_skipn.
          - assert (E2 : skipn (length w1) (w1 ++ w2) = skipn (length w1) (u1 ++ x :: u2)) by (rewrite Eu; reflexivity).
            rewrite skipn_app, Nat.sub_diag, skipn_all in E2. simpl in E2.
            rewrite skipn_app in E2. replace (length w1 - length u1) with 0 in E2 by lia. simpl in E2. exact E2. }
        destruct Esplit as (u1b & -> & Ew2).
        destruct Hs as (p & s & Ew & Lp & Lk). rewrite app_length in *.
        assert (Hs1 : span tok w i (i + length w1) w1).
        { exists p, (u1b ++ s). rewrite Ew, <- app_assoc. repeat split; auto. }
        assert (Hs2 : span tok w (i + length w1) (i + length w1 + length u1b) u1b).
        { exists (p ++ w1), s. rewrite Ew, <- !app_assoc. rewrite app_length. repeat split; lia. }
        assert (Hr : chart w start (i + length w1) (mkItem r0 (0 + length (rhs r0)) i)).
        { eapply (chart_complete_gen G tok tmatch w start _ _ Hd1 r0 0 i i _ [] []); eauto.
          rewrite app_nil_r; reflexivity. }
        simpl in Hr.
        assert (Hc' : chart w start (i + length w1) (mkItem r (S d) j)) by (eapply c_comp; eauto).
        replace (i + (length w1 + length u1b)) with (i + length w1 + length u1b) by lia.
        eapply (IH2 w r (S d) j (i + length w1) (a ++ [NT a0]) c u1b x u2); eauto.
        * rewrite E, <- app_assoc. reflexivity.
        * rewrite app_length; simpl; lia.
      + (* the next token x is inside w1: descend into r0 *)
        assert (Esplit : exists w1b, w1 = u1 ++ x :: w1b).
        { exists (skipn (S (length u1)) w1).
          assert (E1 : firstn (length w1) (w1 ++ w2) = firstn (length w1) (u1 ++ x :: u2)) by (rewrite Eu; reflexivity).
          rewrite firstn_app, Nat.sub_diag, firstn_all in E1. simpl in E1. rewrite app_nil_r in E1.
          rewrite firstn_app in E1. rewrite firstn_all2 in E1 by lia.
          destruct (length w1 - length u1) as [|m] eqn:Em; [lia|]. simpl in E1.
          rewrite E1 at 1.
          assert (Hsk : skipn (S (length u1)) w1 = firstn m u2).
          { rewrite E1. rewrite skipn_app. rewrite skipn_all2 by lia.
            replace (S (length u1) - length u1) with 1 by lia. reflexivity. }
          rewrite Hsk. reflexivity. }
        destruct Esplit as (w1b & Ew1).
        eapply (IH1 w r0 0 i i [] [] u1 x w1b); eauto.
        rewrite app_nil_r. reflexivity.
  Qed.

  Theorem expected_complete w k x :
    k <= length w -> viable (firstn k w ++ [x]) ->
    exists t, expects w k t /\ tmatch t x = true.
  Proof.
    intros Hk (v & Hv). rewrite <- app_assoc in Hv. simpl in Hv.
    remember [NT start] as ss0 eqn:Es. remember (firstn k w ++ x :: v) as s eqn:Eseq.
    destruct Hv as [| |a r ss w1 w2 Hin Hl Hd1 Hd2]; try discriminate.
    inversion Es; subst a ss. inversion Hd2; subst w2. rewrite app_nil_r in Eseq.
    assert (Hc : chart w start 0 (mkItem r 0 0)) by (constructor; auto).
    assert (Hs : span tok w 0 (0 + length (firstn k w)) (firstn k w)).
    { exists [], (skipn k w). simpl. rewrite firstn_skipn. repeat split; auto. }
    destruct (chart_prefix_gen _ _ Hd1 w r 0 0 0 [] [] (firstn k w) x v Hc ltac:(rewrite app_nil_r; reflexivity)
                eq_refl Eseq Hs) as (t & He & Hm).
    simpl in He. rewrite firstn_length, Nat.min_l in He by lia. exists t. auto.
  Qed.

  (* The position at which scanning fails is exactly the first offending token: the scan of
     w[k] succeeds (some expected terminal matches it) iff w[0..k] is still a viable prefix. *)
  Theorem first_offending_token w k x :
    productive_bodies -> nth_error w k = Some x ->
    ((exists t, expects w k t /\ tmatch t x = true) <-> viable (firstn (S k) w)).
  Proof.
    intros Hprod Hx.
    assert (Hk : k <= length w).
    { assert (nth_error w k <> None) by congruence. apply nth_error_Some in H. lia. }
    rewrite (firstn_S_snoc _ _ _ Hx). split.
    - intros (t & He & Hm). eapply expected_sound; eauto.
    - intros Hv. apply expected_complete; auto.
  Qed.
End Prefix.
