(* The hand-written Earley models take their decisions by the conditions regenerated from the source:
   every function of Earley/Alg.v, Earley/Dyn.v and Cfg/Analysis.v that mirrors a branch of earley.py / xearley.py /
   grammar_analysis.py / utils.bfs is equal to its counterpart of Earley/Steps.v, which is written over Gen/EarleySteps.v. *)
From Coq Require Import List Arith Bool Lia.
From LV Require Import Cfg.Grammar Cfg.Analysis Earley.Spec Earley.Alg Earley.Dyn Gen.EarleySteps Earley.Steps.
Import ListNotations.

Lemma fold_left_ext {A B} (f g : A -> B -> A) :
  (forall a b, f a b = g a b) -> forall l a, fold_left f l a = fold_left g l a.
Proof. intros H l. induction l as [|x l IH]; intros a; simpl; auto. rewrite H. apply IH. Qed.

Lemma filter_ext' {A} (f g : A -> bool) : (forall a, f a = g a) -> forall l, filter f l = filter g l.
Proof. intros H l. induction l as [|x l IH]; simpl; auto. rewrite H, IH. reflexivity. Qed.

Lemma existsb_ext' {A} (f g : A -> bool) : (forall a, f a = g a) -> forall l, existsb f l = existsb g l.
Proof. intros H l. induction l as [|x l IH]; simpl; auto. rewrite H, IH. reflexivity. Qed.

Lemma flat_map_ext' {A B} (f g : A -> list B) : (forall a, f a = g a) -> forall l, flat_map f l = flat_map g l.
Proof. intros H l. induction l as [|x l IH]; simpl; auto. rewrite H, IH. reflexivity. Qed.

(* ------------------------------------------------------------------ predict_and_complete *)
Lemma add_new_gen st x : add_new st x = g_add_new st x.
Proof.
  unfold add_new, g_add_new, src_pc_toscan, src_pc_newcol, expect_in_terminals.
  destruct (expect x) as [[t|a]|]; simpl; destruct (mem x (pc_col st)); reflexivity.
Qed.

Lemma originator_gen a o : expects_nt a o = src_pc_originator (is_complete o) (expects_nt a o).
Proof.
  unfold src_pc_originator, is_complete, expects_nt. destruct (expect o) as [[t|b]|]; simpl; auto.
Qed.

Lemma pc_step_gen predictions i cols x st :
  pc_step predictions i cols x st = g_pc_step predictions i cols x st.
Proof.
  unfold pc_step, g_pc_step, src_pc_completer, src_pc_leo, src_pc_predictor, src_pc_is_empty, src_pc_held,
    is_complete, expect_in_nonterminals, expected_nt.
  destruct (expect x) as [[t|a]|] eqn:E; simpl.
  - reflexivity.
  - apply fold_left_ext. apply add_new_gen.
  - rewrite (filter_ext' _ _ (originator_gen (lhs (irule x)))).
    apply fold_left_ext. apply add_new_gen.
Qed.

Lemma pc_loop_gen predictions fuel i cols st :
  pc_loop predictions fuel i cols st = g_pc_loop predictions fuel i cols st.
Proof.
  revert st. induction fuel as [|f IH]; intros st; simpl; destruct (pc_work st) as [|x w]; auto.
  rewrite pc_step_gen. apply IH.
Qed.

Lemma predict_and_complete_gen predictions fuel i cols col scanq :
  predict_and_complete predictions fuel i cols col scanq = g_predict_and_complete predictions fuel i cols col scanq.
Proof. apply pc_loop_gen. Qed.

(* ------------------------------------------------------------------ scan, parse *)
Lemma scan_step_gen tok tmatch tk acc x : scan_step tok tmatch tk acc x = g_scan_step tok tmatch tk acc x.
Proof.
  unfold scan_step, g_scan_step, src_scan_match, src_scan_toscan, expect_in_terminals.
  destruct (expect x) as [[t|a]|]; auto.
  destruct (tmatch t tk); auto. destruct (expect (advance x)) as [[t'|a']|]; reflexivity.
Qed.

Lemma scan_gen tok tmatch tk q : scan tok tmatch tk q = g_scan tok tmatch tk q.
Proof. apply fold_left_ext. apply scan_step_gen. Qed.

Lemma is_solution_gen start x : is_solution start x = g_is_solution start x.
Proof.
  unfold is_solution, g_is_solution, src_solution_test, is_complete. destruct (expect x); reflexivity.
Qed.

Lemma init_step_gen acc r : init_step acc r = g_init_step acc r.
Proof.
  unfold init_step, g_init_step, src_init_toscan, expect_in_terminals.
  destruct (expect (mkItem r 0 0)) as [[t|a]|]; reflexivity.
Qed.

Lemma initial_gen predictions start : initial predictions start = g_initial predictions start.
Proof. apply fold_left_ext. apply init_step_gen. Qed.

Lemma parse_loop_gen G predictions tok tmatch start toks : forall i cols scans col scanq,
  parse_loop G predictions tok tmatch start toks i cols scans col scanq =
  g_parse_loop G predictions tok tmatch start toks i cols scans col scanq.
Proof.
  induction toks as [|tk rest IH]; intros i cols scans col scanq; simpl;
    rewrite predict_and_complete_gen;
    destruct (g_predict_and_complete predictions (pc_fuel G i) i cols col scanq) as [st|]; auto.
  - rewrite (existsb_ext' _ _ (is_solution_gen start)). unfold src_eof_test.
    destruct (existsb (g_is_solution start) (pc_col st)); reflexivity.
  - rewrite scan_gen. unfold src_scan_fail.
    destruct (fst (g_scan tok tmatch tk (pc_scan st))) as [|a l], (snd (g_scan tok tmatch tk (pc_scan st))) as [|b l'];
      simpl; auto.
Qed.

Theorem parse_gen G predictions tok tmatch start toks :
  parse G predictions tok tmatch start toks = g_parse G predictions tok tmatch start toks.
Proof. unfold parse, g_parse. rewrite initial_gen. apply parse_loop_gen. Qed.

(* ------------------------------------------------------------------ xearley *)
Section DynGen.
  Variable G : grammar.
  Variable predictions : nat -> list rule.
  Variable start : nat.
  Variable rmatch : nat -> nat -> option nat.
  Variable rtrunc_rel : nat -> nat -> nat -> option nat.
  Variable complete_lex : bool.
  Variable ignore : list nat.

  (* the oracle of Earley/Dyn.v reports absolute ends: i + m.end() *)
  Definition rtrunc_abs (t i lim : nat) : option nat := option_map (Nat.add i) (rtrunc_rel t i lim).

  Lemma ends_of_gen t i : ends_of rmatch rtrunc_abs complete_lex t i = g_ends_of rmatch rtrunc_rel complete_lex t i.
  Proof.
    unfold ends_of, g_ends_of, src_x_matched, src_x_end1, src_x_complete_lex, src_x_j_lo, src_x_j_hi, src_x_trunc_drop,
      src_x_end2, rtrunc_abs.
    destruct (rmatch t i) as [e|]; simpl; auto. f_equal. destruct complete_lex; auto.
    apply flat_map_ext'. intros j. destruct (rtrunc_rel t i (e - j)); reflexivity.
  Qed.

  Lemma scan_item_gen i dm x :
    scan_item rmatch rtrunc_abs complete_lex i dm x = g_scan_item rmatch rtrunc_rel complete_lex i dm x.
  Proof. unfold scan_item, g_scan_item. destruct (expect x) as [[t|a]|]; auto. rewrite ends_of_gen. reflexivity. Qed.

  Lemma carry_start_gen it :
    is_solution start it = src_x_carry_start (is_complete it) (Nat.eqb (lhs (irule it)) start) (orig it).
  Proof. unfold is_solution, src_x_carry_start, is_complete. destruct (expect it); reflexivity. Qed.

  Lemma scan_ignore_gen i to_scan col dm x :
    scan_ignore start rmatch i to_scan col dm x = g_scan_ignore start rmatch i to_scan col dm x.
  Proof.
    unfold scan_ignore, g_scan_ignore, src_x_matched, src_x_end1. destruct (rmatch x i) as [e|]; simpl; auto.
    rewrite (filter_ext' _ _ carry_start_gen). reflexivity.
  Qed.

  Lemma realise_gen e : realise e = g_realise e.
  Proof. unfold realise, g_realise, src_x_is_token. destruct (snd e); reflexivity. Qed.

  Lemma dplace_gen acc y : dplace acc y = g_dplace acc y.
  Proof. unfold dplace, g_dplace, src_x_toscan, expect_in_terminals. destruct (expect y) as [[t|a]|]; reflexivity. Qed.

  Lemma dscan_gen i to_scan col dm :
    dscan start rmatch rtrunc_abs complete_lex ignore i to_scan col dm =
    g_dscan start rmatch rtrunc_rel complete_lex ignore i to_scan col dm.
  Proof.
    unfold dscan, g_dscan, src_x_due. rewrite Nat.add_1_r.
    rewrite (fold_left_ext _ _ (scan_item_gen i)).
    rewrite (fold_left_ext _ _ (scan_ignore_gen i to_scan col)).
    rewrite (fold_left_ext (fun acc e => dplace acc (realise e)) (fun acc e => g_dplace acc (g_realise e))).
    - reflexivity.
    - intros a b. rewrite realise_gen. apply dplace_gen.
  Qed.

  Lemma dloop_gen : forall rem i cols scans keys col scanq dm,
    dloop G predictions start rmatch rtrunc_abs complete_lex ignore rem i cols scans keys col scanq dm =
    g_dloop G predictions start rmatch rtrunc_rel complete_lex ignore rem i cols scans keys col scanq dm.
  Proof.
    induction rem as [|rem IH]; intros i cols scans keys col scanq dm; cbn [dloop g_dloop];
      rewrite predict_and_complete_gen;
      destruct (g_predict_and_complete predictions (pc_fuel G i) i cols col scanq) as [st|]; auto.
    - rewrite (existsb_ext' _ _ (is_solution_gen start)). unfold src_eof_test.
      destruct (existsb (g_is_solution start) (pc_col st)); reflexivity.
    - rewrite dscan_gen. unfold src_x_fail, src_x_uc_pos.
      destruct (g_dscan start rmatch rtrunc_rel complete_lex ignore i (pc_scan st) (pc_col st) dm) as [[nc nq] dm'].
      cbn [fst snd]. destruct nc, dm', nq; simpl; auto.
  Qed.

  Theorem dparse_gen n :
    dparse G predictions start n rmatch rtrunc_abs complete_lex ignore =
    g_dparse G predictions start n rmatch rtrunc_rel complete_lex ignore.
  Proof. unfold dparse, g_dparse. rewrite initial_gen. apply dloop_gen. Qed.
End DynGen.

(* ------------------------------------------------------------------ update_set / NULLABLE with the `changed` flag *)
Lemma nat_mem_In a l : nat_mem a l = true <-> In a l.
Proof.
  unfold nat_mem. rewrite existsb_exists. split.
  - intros (x & Hx & E). apply Nat.eqb_eq in E. subst. auto.
  - intros H. exists a. split; auto. apply Nat.eqb_refl.
Qed.

Lemma nat_subset_refl l : nat_subset l l = true.
Proof. unfold nat_subset. apply forallb_forall. intros x Hx. apply nat_mem_In. auto. Qed.

(* update_set(S, {a}): a is added when missing; the result says whether it was missing *)
Lemma update_set_single N a :
  g_update_set N [a] = (if nat_mem a N then N else N ++ [a], negb (nat_mem a N)).
Proof.
  pose proof (nat_subset_refl N) as R.
  unfold g_update_set, src_us_early, src_us_result, nat_subset in *. cbn [nonempty negb orb forallb fold_left].
  unfold nat_add. destruct (nat_mem a N) eqn:E; cbn [andb].
  - destruct (forallb (fun x => nat_mem x [a]) N) eqn:F; cbn [negb]; auto.
    rewrite R. reflexivity.
  - cbn [negb]. rewrite forallb_app. cbn [forallb]. rewrite E, andb_false_r. reflexivity.
Qed.

Definition null_step (N : list nat) (r : rule) : list nat :=
  if forallb (sym_nullable N) (rhs r) then (if in_dec Nat.eq_dec (lhs r) N then N else N ++ [lhs r]) else N.

Lemma nullable_sweep_fold G N : nullable_sweep G N = fold_left null_step G N.
Proof. reflexivity. Qed.

Lemma null_step_cases N r : null_step N r = N \/ (null_step N r = N ++ [lhs r]).
Proof. unfold null_step. destruct (forallb _ _); auto. destruct (in_dec _ _ _); auto. Qed.

Lemma null_step_len N r : length N <= length (null_step N r).
Proof. destruct (null_step_cases N r) as [-> | ->]; auto. rewrite app_length. simpl. lia. Qed.

Lemma null_fold_len G : forall N, length N <= length (fold_left null_step G N).
Proof.
  induction G as [|r G IH]; intros N; simpl; auto.
  pose proof (null_step_len N r). pose proof (IH (null_step N r)). lia.
Qed.

Lemma null_fold_same G : forall N, length (fold_left null_step G N) = length N -> fold_left null_step G N = N.
Proof.
  induction G as [|r G IH]; intros N H; simpl in *; auto.
  pose proof (null_fold_len G (null_step N r)) as L.
  destruct (null_step_cases N r) as [E | E]; rewrite E in *.
  - auto.
  - rewrite app_length in L. simpl in L. lia.
Qed.

Lemma g_null_rule_spec N c r :
  g_null_rule (N, c) r = (null_step N r, c || negb (Nat.eqb (length (null_step N r)) (length N))).
Proof.
  unfold g_null_rule, null_step, src_cs_null. cbn [fst snd].
  destruct (forallb (sym_nullable N) (rhs r)).
  - rewrite update_set_single. cbn [fst snd].
    destruct (in_dec Nat.eq_dec (lhs r) N) as [Hin|Hnin].
    + apply nat_mem_In in Hin. rewrite Hin. cbn [negb]. rewrite Nat.eqb_refl. destruct c; reflexivity.
    + destruct (nat_mem (lhs r) N) eqn:E; [apply nat_mem_In in E; contradiction|].
      cbn [negb]. rewrite app_length. simpl.
      replace (Nat.eqb (length N + 1) (length N)) with false by (symmetry; apply Nat.eqb_neq; lia).
      destruct c; reflexivity.
  - rewrite Nat.eqb_refl. destruct c; reflexivity.
Qed.

Lemma g_null_fold_spec G : forall N c,
  fold_left g_null_rule G (N, c) =
  (fold_left null_step G N, c || negb (Nat.eqb (length (fold_left null_step G N)) (length N))).
Proof.
  induction G as [|r G IH]; intros N c; simpl.
  - rewrite Nat.eqb_refl. destruct c; reflexivity.
  - rewrite g_null_rule_spec, IH. f_equal.
    pose proof (null_step_len N r) as L1. pose proof (null_fold_len G (null_step N r)) as L2.
    destruct c; simpl; auto.
    destruct (Nat.eqb (length (null_step N r)) (length N)) eqn:E1; simpl.
    + apply Nat.eqb_eq in E1. rewrite E1. reflexivity.
    + apply Nat.eqb_neq in E1. symmetry. apply negb_true_iff. apply Nat.eqb_neq. lia.
Qed.

Lemma nullable_iter_gen G fuel : forall N, nullable_iter G fuel N = g_nullable_iter G fuel N.
Proof.
  induction fuel as [|f IH]; intros N; simpl; auto.
  rewrite g_null_fold_spec, nullable_sweep_fold. cbn [fst snd orb].
  destruct (Nat.eqb (length (fold_left null_step G N)) (length N)) eqn:E; cbn [negb].
  - apply Nat.eqb_eq in E. symmetry. apply null_fold_same. exact E.
  - apply IH.
Qed.

Theorem nullable_set_gen G : nullable_set G = g_nullable_set G.
Proof. apply nullable_iter_gen. Qed.

(* ------------------------------------------------------------------ expand_rule / bfs *)
Lemma first_nt_gen r : first_nt r = g_first_nt r.
Proof.
  unfold first_nt, g_first_nt, src_er_nonempty, src_er_follow. destruct (rhs r) as [|[t|b] l]; reflexivity.
Qed.

Lemma bfs_visit_gen ov b : bfs_visit ov b = g_bfs_visit ov b.
Proof. unfold bfs_visit, g_bfs_visit, src_bfs_new. destruct (in_dec Nat.eq_dec b (snd ov)); reflexivity. Qed.

Lemma bfs_gen G fuel : forall open visited acc, bfs G fuel open visited acc = g_bfs G fuel open visited acc.
Proof.
  induction fuel as [|f IH]; intros open visited acc; destruct open as [|a open']; simpl; auto.
  rewrite (flat_map_ext' _ _ first_nt_gen). rewrite (fold_left_ext _ _ bfs_visit_gen). apply IH.
Qed.

Theorem expand_rule_gen G a : expand_rule G a = g_expand_rule G a.
Proof. apply bfs_gen. Qed.
