(* Comparison functions used by the generated correspondence cases of C01 (no proofs). *)
From Coq Require Import List Arith Bool NArith.
From LV Require Import Cfg.Grammar Cfg.Analysis Earley.Spec Earley.Alg.
Import ListNotations.

Definition mk_grammar (l : list (nat * list symbol)) : grammar := map (fun p => mkRule (fst p) (snd p)) l.

Fixpoint index_of (G : grammar) (r : rule) : nat :=
  match G with
  | [] => 0
  | r' :: G' => if rule_eqb r r' then 0 else S (index_of G' r)
  end.

(* an item (rule index, ptr, start) packed into one binary number: (rule * 64 + ptr) * 64 + start
   (the harness refuses cases with ptr or start >= 64) *)
Definition item_code (G : grammar) (x : item) : N :=
  ((N.of_nat (index_of G (irule x)) * 64 + N.of_nat (dot x)) * 64 + N.of_nat (orig x))%N.

Definition subset (a b : list N) : bool := forallb (fun x => existsb (N.eqb x) b) a.
Definition set_eqb (a b : list N) : bool := subset a b && subset b a.
Fixpoint sets_eqb (a b : list (list N)) : bool :=
  match a, b with
  | [], [] => true
  | x :: a', y :: b' => set_eqb x y && sets_eqb a' b'
  | _, _ => false
  end.

(* 0 accept, 1 UnexpectedEOF, 2+i nothing scanned for token i, 4999 out of fuel *)
Definition outcome_code (o : outcome) : nat :=
  match o with Accept => 0 | RejectEOF => 1 | RejectTok i => 2 + i | OutOfFuel _ => 4999 end.

(* lark did not compute the last `drop` columns of the model (basic lexer failing on a foreign character) *)
Definition drop_last {A} (drop : nat) (l : list A) : list A := firstn (length l - drop) l.

(* one observed run: token ids, what lark did (outcome code, number of trailing model columns lark did not
   compute), column item sets and to_scan item sets after each predict_and_complete call *)
Definition erun := (list nat * nat * nat * list (list N) * list (list N))%type.

Definition run_check (G : grammar) (start : nat) (c : erun) : bool :=
  let '(toks, code, drop, cols, scans) := c in
  let r := earley_parse G start toks in
  Nat.eqb (outcome_code (r_out r)) code
  && sets_eqb (map (map (item_code G)) (drop_last drop (r_cols r))) cols
  && sets_eqb (map (map (item_code G)) (drop_last drop (r_scans r))) scans.

(* one case: lark's compiled BNF (parser_conf.rules order), start symbol, the runs observed with it *)
Definition ecase := (list (nat * list symbol) * nat * list erun)%type.

Definition earley_check (c : ecase) : bool :=
  let '(rules, start, runs) := c in
  let G := mk_grammar rules in
  forallb (run_check G start) runs.

(* Parser.predictions[a] as the ordered list of rule indices *)
Definition pcase := (list (nat * list symbol) * nat * list nat)%type.
Definition predictions_check (c : pcase) : bool :=
  let '(rules, a, idx) := c in
  let G := mk_grammar rules in
  match expand_rule G a with
  | Some l => if list_eq_dec Nat.eq_dec (map (index_of G) l) idx then true else false
  | None => false
  end.

(* NULLABLE restricted to non-terminals, as a set *)
Definition ncase := (list (nat * list symbol) * list nat)%type.
Definition nullable_check (c : ncase) : bool :=
  let '(rules, ns) := c in
  let N := nullable_set (mk_grammar rules) in
  forallb (fun a => existsb (Nat.eqb a) ns) N && forallb (fun a => existsb (Nat.eqb a) N) ns.
