(* Comparison functions used by the generated correspondence cases of C01 (no proofs). *)
From Coq Require Import List Arith Bool.
From LV Require Import Cfg.Grammar Cfg.Analysis Earley.Spec Earley.Alg.
Import ListNotations.

Definition mk_grammar (l : list (nat * list symbol)) : grammar := map (fun p => mkRule (fst p) (snd p)) l.

Fixpoint index_of (G : grammar) (r : rule) : nat :=
  match G with
  | [] => 0
  | r' :: G' => if rule_eq_dec r r' then 0 else S (index_of G' r)
  end.

Definition triple := (nat * nat * nat)%type.
Definition triple_eqb (a b : triple) : bool :=
  let '(a1, a2, a3) := a in let '(b1, b2, b3) := b in Nat.eqb a1 b1 && Nat.eqb a2 b2 && Nat.eqb a3 b3.
Definition item_triple (G : grammar) (x : item) : triple := (index_of G (irule x), dot x, orig x).

Definition subset (a b : list triple) : bool := forallb (fun x => existsb (triple_eqb x) b) a.
Definition set_eqb (a b : list triple) : bool := subset a b && subset b a.
Fixpoint sets_eqb (a b : list (list triple)) : bool :=
  match a, b with
  | [], [] => true
  | x :: a', y :: b' => set_eqb x y && sets_eqb a' b'
  | _, _ => false
  end.

(* 0 accept, 1 UnexpectedEOF, 2+i nothing scanned for token i, 4999 out of fuel *)
Definition outcome_code (o : outcome) : nat :=
  match o with Accept => 0 | RejectEOF => 1 | RejectTok i => 2 + i | OutOfFuel _ => 4999 end.

(* one case: rules (lark's compiled BNF, in parser_conf.rules order), start, token ids, and what lark did:
   outcome code, column item sets and to_scan item sets after each predict_and_complete call *)
Definition ecase := (list (nat * list symbol) * nat * list nat * nat * nat * list (list triple) * list (list triple))%type.

(* lark did not compute the last `drop` columns of the model (basic lexer failing on a foreign character) *)
Definition drop_last {A} (drop : nat) (l : list A) : list A := firstn (length l - drop) l.

Definition earley_check (c : ecase) : bool :=
  let '(rules, start, toks, code, drop, cols, scans) := c in
  let G := mk_grammar rules in
  let r := earley_parse G start toks in
  Nat.eqb (outcome_code (r_out r)) code
  && sets_eqb (map (map (item_triple G)) (drop_last drop (r_cols r))) cols
  && sets_eqb (map (map (item_triple G)) (drop_last drop (r_scans r))) scans.

(* Parser.predictions[a] as the ordered list of rule indices *)
Definition pcase := (list (nat * list symbol) * nat * list nat)%type.
Definition predictions_check (c : pcase) : bool :=
  let '(rules, a, idx) := c in
  let G := mk_grammar rules in
  match expand_rule G a with
  | Some l => if list_eq_dec Nat.eq_dec (map (index_of G) l) idx then true else false
  | None => false
  end.

(* NULLABLE restricted to non-terminals, as a set *)
Definition ncase := (list (nat * list symbol) * list nat)%type.
Definition nullable_check (c : ncase) : bool :=
  let '(rules, ns) := c in
  let N := nullable_set (mk_grammar rules) in
  forallb (fun a => existsb (Nat.eqb a) ns) N && forallb (fun a => existsb (Nat.eqb a) N) ns.
