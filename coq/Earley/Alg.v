(* Executable mirror of lark/parsers/earley.py for a token-list input (lexer='basic'; also the dynamic
   lexers when every terminal is a single character, see harness/props/C01.py):
     Parser.predict_and_complete  -> pc_step / pc_loop / predict_and_complete
     scan (inside Parser._parse)  -> scan
     Parser._parse main loop      -> parse_loop
     Parser.parse (initial items, `solutions` test, UnexpectedEOF) -> parse
   SPPF nodes, Leo transitives (dead code: `transitives` is never populated) and the tree builder are left
   out; they do not influence which items are created.  Columns and to_scan are duplicate-free lists in
   insertion order (lark: OrderedSet), the work list is LIFO (deque.pop), held_completions is the key set of
   the dict.  Definitions only; proofs are in Earley/Alg_proofs.v. *)
From Coq Require Import List Arith Bool.
From LV Require Import Cfg.Grammar Cfg.Analysis Earley.Spec.
Import ListNotations.

(* Item.__eq__ (rule, ptr, start) and set membership, as boolean functions (fast under vm_compute) *)
Fixpoint syms_eqb (a b : list symbol) : bool :=
  match a, b with
  | [], [] => true
  | x :: a', y :: b' => symbol_eqb x y && syms_eqb a' b'
  | _, _ => false
  end.
Definition rule_eqb (r1 r2 : rule) : bool := Nat.eqb (lhs r1) (lhs r2) && syms_eqb (rhs r1) (rhs r2).
Definition item_eqb (x y : item) : bool :=
  Nat.eqb (dot x) (dot y) && Nat.eqb (orig x) (orig y) && rule_eqb (irule x) (irule y).
Definition mem (x : item) (s : list item) : bool := existsb (item_eqb x) s.
Definition nat_mem (a : nat) (s : list nat) : bool := existsb (Nat.eqb a) s.

(* Item.expect: the symbol after the dot; None = is_complete (ptr == len(expansion); ptr never exceeds it) *)
Definition expect (x : item) : option symbol := nth_error (rhs (irule x)) (dot x).
(* Item.advance *)
Definition advance (x : item) : item := mkItem (irule x) (S (dot x)) (orig x).
(* Set.add *)
Definition set_add (x : item) (s : list item) : list item :=
  if mem x s then s else s ++ [x].
Definition nat_add (a : nat) (s : list nat) : list nat :=
  if nat_mem a s then s else s ++ [a].

Definition expects_nt (a : nat) (x : item) : bool :=
  match expect x with Some (NT b) => Nat.eqb a b | _ => false end.

(* state of one predict_and_complete call: column, `items` (top of the stack first), to_scan, held_completions *)
Record pc_state := mkPC { pc_col : list item; pc_work : list item; pc_scan : list item; pc_held : list nat }.

(* if new_item.expect in self.TERMINALS: to_scan.add(new_item)
   elif new_item not in column: column.add(new_item); items.append(new_item) *)
Definition add_new (st : pc_state) (x : item) : pc_state :=
  match expect x with
  | Some (T _) => mkPC (pc_col st) (pc_work st) (set_add x (pc_scan st)) (pc_held st)
  | _ => if mem x (pc_col st) then st
         else mkPC (pc_col st ++ [x]) (x :: pc_work st) (pc_scan st) (pc_held st)
  end.

Section Alg.
  Variable G : grammar.
  Variable predictions : nat -> list rule.     (* Parser.predictions *)
  Variable tok : Type.
  Variable tmatch : nat -> tok -> bool.        (* term_matcher *)
  Variable start : nat.

  (* body of `while items:` after `item = items.pop()`; st already has the item popped *)
  Definition pc_step (i : nat) (cols : list (list item)) (x : item) (st : pc_state) : pc_state :=
    match expect x with
    | None =>                                           (* the completer *)
        let a := lhs (irule x) in
        let here := Nat.eqb (orig x) i in               (* is_empty_item *)
        let st1 := if here then mkPC (pc_col st) (pc_work st) (pc_scan st) (nat_add a (pc_held st)) else st in
        let src := if here then pc_col st else nth (orig x) cols [] in      (* columns[item.start] *)
        let originators := filter (expects_nt a) src in
        fold_left add_new (map advance originators) st1
    | Some (NT a) =>                                    (* the predictor *)
        let new_items := map (fun r => mkItem r 0 i) (predictions a)
                         ++ (if nat_mem a (pc_held st) then [advance x] else []) in
        fold_left add_new new_items st
    | Some (T _) => st                                  (* neither branch applies *)
    end.

  Fixpoint pc_loop (fuel : nat) (i : nat) (cols : list (list item)) (st : pc_state) : option pc_state :=
    match pc_work st with
    | [] => Some st
    | x :: work' =>
        match fuel with
        | 0 => None
        | S f => pc_loop f i cols (pc_step i cols x (mkPC (pc_col st) work' (pc_scan st) (pc_held st)))
        end
    end.

  (* items = deque(column); pop() takes from the right end *)
  Definition predict_and_complete (fuel i : nat) (cols : list (list item)) (col scanq : list item) :=
    pc_loop fuel i cols (mkPC col (rev col) scanq []).

  (* scan(i, token, to_scan): returns (next_set, next_to_scan) *)
  Definition scan_step (tk : tok) (acc : list item * list item) (x : item) : list item * list item :=
    match expect x with
    | Some (T t) =>
        if tmatch t tk then
          let y := advance x in
          match expect y with
          | Some (T _) => (fst acc, set_add y (snd acc))
          | _ => (set_add y (fst acc), snd acc)
          end
        else acc
    | _ => acc
    end.
  Definition scan (tk : tok) (scanq : list item) : list item * list item :=
    fold_left (scan_step tk) scanq ([], []).

  (* number of distinct items a column i can hold: the worklist pops each at most once *)
  Definition item_space (i : nat) : nat := S i * list_sum (map (fun r => S (length (rhs r))) G).
  Definition pc_fuel (i : nat) : nat := S (item_space i).

  (* n.is_complete and n.s == start_symbol and n.start == 0 *)
  Definition is_solution (x : item) : bool :=
    match expect x with None => Nat.eqb (lhs (irule x)) start && Nat.eqb (orig x) 0 | Some _ => false end.

  Inductive outcome :=
  | Accept                       (* a solution exists: parse() returns *)
  | RejectEOF                    (* UnexpectedEOF *)
  | RejectTok (i : nat)          (* scan of token i produced nothing: UnexpectedToken (UnexpectedCharacters in xearley) *)
  | OutOfFuel (i : nat).         (* excluded by Alg_proofs.fuel_suffices *)

  (* r_cols[i], r_scans[i]: column i and to_scan after predict_and_complete(i) *)
  Record result := mkRes { r_out : outcome; r_cols : list (list item); r_scans : list (list item) }.

  Fixpoint parse_loop (toks : list tok) (i : nat) (cols scans : list (list item)) (col scanq : list item) : result :=
    match predict_and_complete (pc_fuel i) i cols col scanq with
    | None => mkRes (OutOfFuel i) cols scans
    | Some st =>
        let cols' := cols ++ [pc_col st] in
        let scans' := scans ++ [pc_scan st] in
        match toks with
        | [] => mkRes (if existsb is_solution (pc_col st) then Accept else RejectEOF) cols' scans'
        | tk :: rest =>
            let ns := scan tk (pc_scan st) in
            match fst ns, snd ns with
            | [], [] => mkRes (RejectTok i) cols' scans'
            | _, _ => parse_loop rest (S i) cols' scans' (fst ns) (snd ns)
            end
        end
    end.

  (* for rule in self.predictions[start_symbol]: to_scan.add(item) / columns[0].add(item) *)
  Definition init_step (acc : list item * list item) (r : rule) : list item * list item :=
    let x := mkItem r 0 0 in
    match expect x with
    | Some (T _) => (fst acc, set_add x (snd acc))
    | _ => (set_add x (fst acc), snd acc)
    end.
  Definition initial : list item * list item := fold_left init_step (predictions start) ([], []).

  Definition parse (toks : list tok) : result :=
    parse_loop toks 0 [] [] (fst initial) (snd initial).

  Definition accepts (toks : list tok) : bool :=
    match r_out (parse toks) with Accept => true | _ => false end.

  (* to_scan of the last column reached: what the parser expects next (used for C08) *)
  Definition last_to_scan (r : result) : list item := last (r_scans r) [].
  Definition expected_terminals (r : result) : list nat :=
    flat_map (fun x => match expect x with Some (T t) => [t] | _ => [] end) (last_to_scan r).
End Alg.

(* Parser.__init__:  for rule in parser_conf.rules: if rule.origin not in self.predictions:
     self.predictions[rule.origin] = [x.rule for x in analysis.expand_rule(rule.origin)]
   The table is computed once per grammar; a key without rules cannot occur in lark (GrammarError "Using an
   undefined rule"), the model then computes the closure on the fly. *)
Definition pred_table (G : grammar) : list (nat * list rule) :=
  fold_left (fun tbl r => if existsb (fun p => Nat.eqb (fst p) (lhs r)) tbl then tbl
                          else tbl ++ [(lhs r, Analysis.predictions G (lhs r))]) G [].
Definition pred_lookup (G : grammar) (tbl : list (nat * list rule)) (a : nat) : list rule :=
  match find (fun p => Nat.eqb (fst p) a) tbl with
  | Some p => snd p
  | None => Analysis.predictions G a
  end.

(* lark's basic-lexer configuration: tokens are terminal ids, term_matcher compares names, the prediction
   table is GrammarAnalyzer.expand_rule *)
Definition earley_parse (G : grammar) (start : nat) (toks : list nat) : result :=
  let tbl := pred_table G in parse G (pred_lookup G tbl) nat Nat.eqb start toks.
Definition earley_accepts (G : grammar) (start : nat) (toks : list nat) : bool :=
  let tbl := pred_table G in accepts G (pred_lookup G tbl) nat Nat.eqb start toks.
