(* What the errors of the dynamic Earley lexers carry (C08): executable, read off a run of Earley/Dyn.v.
     xearley scan(i):   raise UnexpectedCharacters(stream, i, text_line, text_column, {item.expect.name for item in to_scan},
                              set(to_scan), state=frozenset(i.s for i in to_scan), considered_rules=sorted(to_scan, ...))
     earley.parse:      raise UnexpectedEOF([t.expect.name for t in to_scan], state=frozenset(i.s for i in to_scan))
   where to_scan is the scan buffer after predict_and_complete(i) (resp. after the last call).  An item of to_scan is never
   complete, so item.s = (rule, ptr).  (text_line, text_column) are the coordinates kept by the main loop of
   xearley._parse, modelled by Pos/LexCoords.dyn_at over the regenerated Gen/DynStep.v.
   The raise sites are pinned verbatim by translator/gen_earley.py.  Definitions only. *)
From Coq Require Import List Arith Bool ZArith.
From LV Require Import Cfg.Grammar Cfg.Analysis Earley.Spec Earley.Alg Earley.Dyn Gen.DynStep Pos.LexCoords.
Import ListNotations.

(* {item.expect.name for item in to_scan} *)
Definition scan_expected (q : list item) : list nat :=
  flat_map (fun x => match expect x with Some (T t) => [t] | _ => [] end) q.
(* item.s of an item that is not complete *)
Definition item_state (x : item) : rule * nat := (irule x, dot x).

Inductive dreport :=
| RepChars (pos : nat) (line col : Z) (allowed : list nat) (considered : list item) (state : list (rule * nat))
| RepEOF (expected : list nat) (state : list (rule * nat)).

(* the text as character codes; "\n" is 10 *)
Definition dyn_report (text : list nat) (res : dresult) : option dreport :=
  match d_out res with
  | DRejectChar i =>
      let q := nth i (d_scans res) [] in
      let lc := dyn_at (isnl_str Nat.eqb 10) text i in
      Some (RepChars i (fst lc) (snd lc) (scan_expected q) q (map item_state q))
  | DRejectEOF =>
      let q := last (d_scans res) [] in
      Some (RepEOF (scan_expected q) (map item_state q))
  | _ => None
  end.

