(* Earley's chart as an inductive specification, sound and complete for derivability.
   (The executable worklist model of lark/parsers/earley.py refers to this.) *)
From Coq Require Import List Arith Lia Bool.
From LV Require Import Cfg.Grammar.
Import ListNotations.

Record item := mkItem { irule : rule; dot : nat; orig : nat }.

Section Chart.
  Variable G : grammar.
  Variable tok : Type.
  Variable tmatch : nat -> tok -> bool.
  Variable w : list tok.
  Variable start : nat.

  Notation derives := (derives G tok tmatch).

  Inductive chart : nat -> item -> Prop :=
  | c_init r : In r G -> lhs r = start -> chart 0 (mkItem r 0 0)
  | c_pred k r d j a r' : chart k (mkItem r d j) -> nth_error (rhs r) d = Some (NT a) ->
      In r' G -> lhs r' = a -> chart k (mkItem r' 0 k)
  | c_scan k r d j t x : chart k (mkItem r d j) -> nth_error (rhs r) d = Some (T t) ->
      nth_error w k = Some x -> tmatch t x = true -> chart (S k) (mkItem r (S d) j)
  | c_comp k r d j a r' i : chart i (mkItem r d j) -> nth_error (rhs r) d = Some (NT a) ->
      chart k (mkItem r' (length (rhs r')) i) -> lhs r' = a -> chart k (mkItem r (S d) j).

  Definition span i k (u : list tok) :=
    exists p s, w = p ++ u ++ s /\ length p = i /\ i + length u = k.

  Lemma span_nil i : i <= length w -> span i i [].
  Proof.
    intros. exists (firstn i w), (skipn i w). simpl.
    rewrite firstn_skipn, firstn_length. repeat split; lia.
  Qed.

  Lemma span_app i j k u v : span i j u -> span j k v -> span i k (u ++ v).
  Proof.
    intros (p & s & E & L1 & L2) (p' & s' & E' & L1' & L2').
    exists p, s'. rewrite app_length. repeat split; try lia.
    assert (p' = p ++ u).
    { rewrite E in E'. rewrite app_assoc in E'.
      apply (f_equal (firstn (length p'))) in E'.
      rewrite firstn_app, firstn_all2 in E' by (rewrite app_length; lia).
      replace (length p' - length (p ++ u)) with 0 in E' by (rewrite app_length; lia).
      simpl in E'. rewrite app_nil_r in E'. rewrite firstn_app, Nat.sub_diag, firstn_all in E'.
      simpl in E'. rewrite app_nil_r in E'. auto. }
    subst p'. rewrite E'. rewrite <- !app_assoc. reflexivity.
  Qed.

  Lemma span_cons i k x u : span i k (x :: u) -> nth_error w i = Some x /\ span (S i) k u.
  Proof.
    intros (p & s & E & L1 & L2). split.
    - rewrite E, nth_error_app2 by lia. rewrite L1, Nat.sub_diag. reflexivity.
    - exists (p ++ [x]), s. rewrite <- app_assoc. simpl in *. rewrite app_length. simpl.
      repeat split; auto; lia.
  Qed.

  Lemma span_snoc i k u x : span i k u -> nth_error w k = Some x -> span i (S k) (u ++ [x]).
  Proof.
    intros (p & s & E & L1 & L2) H.
    destruct s as [|y s].
    - rewrite E, app_nil_r in H. assert (Hn : nth_error (p ++ u) k <> None) by congruence.
      apply nth_error_Some in Hn. rewrite app_length in Hn. lia.
    - rewrite E in H. rewrite app_assoc, nth_error_app2 in H by (rewrite app_length; lia).
      rewrite app_length in H. replace (k - (length p + length u)) with 0 in H by lia.
      simpl in H. inversion H; subst y.
      exists p, s. rewrite app_length; simpl. repeat split; try lia.
      rewrite <- app_assoc. simpl. exact E.
  Qed.

  Lemma span_le i k u : span i k u -> i <= k /\ k <= length w.
  Proof. intros (p & s & E & L1 & L2). rewrite E, !app_length. lia. Qed.

  Lemma chart_in_G k it : chart k it -> In (irule it) G.
  Proof. induction 1; cbn [irule] in *; auto. Qed.

  Lemma firstn_S_nth {A} (l : list A) d x :
    nth_error l d = Some x -> firstn (S d) l = firstn d l ++ [x].
  Proof.
    revert d. induction l as [|y l IH]; intros [|d] E; simpl in *; try discriminate.
    - inversion E; auto.
    - f_equal; auto.
  Qed.

  Theorem chart_sound k it :
    chart k it ->
    exists u, span (orig it) k u /\ derives (firstn (dot it) (rhs (irule it))) u.
  Proof.
    induction 1 as [r Hin Hl | k r d j a r' Hc IH Hn Hin Hl | k r d j t x Hc IH Hn Hw Hm
                   | k r d j a r' i Hc1 IH1 Hn Hc2 IH2 Hl]; cbn [orig dot irule] in *.
    - exists []. split. apply span_nil; lia. constructor.
    - destruct IH as (u & Hs & _). exists []. split.
      + apply span_nil. apply span_le in Hs; lia.
      + constructor.
    - destruct IH as (u & Hs & Hd). exists (u ++ [x]). split.
      + eapply span_snoc; eauto.
      + rewrite (firstn_S_nth _ _ _ Hn). apply derives_app; auto. repeat constructor; auto.
    - destruct IH1 as (u & Hs & Hd). destruct IH2 as (v & Hs' & Hd').
      exists (u ++ v). split.
      + eapply span_app; eauto.
      + rewrite (firstn_S_nth _ _ _ Hn). apply derives_app; auto. rewrite firstn_all in Hd'.
        rewrite <- (app_nil_r v). eapply d_nt with (r := r'); eauto.
        * apply (chart_in_G _ _ Hc2).
        * constructor.
  Qed.

  Lemma chart_complete_gen b u : derives b u ->
    forall r d j i k a c, chart i (mkItem r d j) -> rhs r = a ++ b ++ c -> length a = d ->
      span i k u -> chart k (mkItem r (d + length b) j).
  Proof.
    induction 1 as [| t x ss w' Hm Hd IH | a r ss w1 w2 Hin Hl Hd1 IH1 Hd2 IH2];
      intros r0 d j i k0 a0 c Hc E L Hs.
    - destruct Hs as (p & s & _ & L1 & L2). simpl in *. replace k0 with i by lia.
      rewrite Nat.add_0_r. auto.
    - apply span_cons in Hs. destruct Hs as (Hn & Hs).
      assert (Hc' : chart (S i) (mkItem r0 (S d) j)).
      { eapply c_scan; eauto. rewrite E, nth_error_app2 by lia. rewrite L, Nat.sub_diag. reflexivity. }
      simpl. replace (d + S (length ss)) with (S d + length ss) by lia.
      eapply (IH r0 (S d) j (S i) k0 (a0 ++ [T t]) c); eauto.
      + rewrite E. rewrite <- app_assoc. reflexivity.
      + rewrite app_length; simpl; lia.
    - destruct Hs as (p & s & Ew & L1 & L2).
      assert (Hs1 : span i (i + length w1) w1).
      { exists p, (w2 ++ s). rewrite Ew, <- app_assoc. repeat split; auto. }
      assert (Hs2 : span (i + length w1) k0 w2).
      { exists (p ++ w1), s. rewrite Ew, <- !app_assoc. rewrite !app_length in *. repeat split; lia. }
      assert (Hp : chart i (mkItem r 0 i)).
      { eapply c_pred; eauto. rewrite E, nth_error_app2 by lia. rewrite L, Nat.sub_diag. reflexivity. }
      assert (Hr : chart (i + length w1) (mkItem r (0 + length (rhs r)) i)).
      { eapply (IH1 r 0 i i _ [] []); eauto. rewrite app_nil_r; reflexivity. }
      simpl in Hr.
      assert (Hc' : chart (i + length w1) (mkItem r0 (S d) j)).
      { eapply c_comp; eauto. rewrite E, nth_error_app2 by lia. rewrite L, Nat.sub_diag. reflexivity. }
      simpl. replace (d + S (length ss)) with (S d + length ss) by lia.
      eapply (IH2 r0 (S d) j _ k0 (a0 ++ [NT a]) c); eauto.
      + rewrite E. rewrite <- app_assoc. reflexivity.
      + rewrite app_length; simpl; lia.
  Qed.

  Theorem chart_complete :
    derives [NT start] w ->
    exists r, In r G /\ lhs r = start /\ chart (length w) (mkItem r (length (rhs r)) 0).
  Proof.
    intros H. remember [NT start] as ss0 eqn:Es. remember w as w0 eqn:Ew0.
    destruct H as [| |a r ss w1 w2 Hin Hl Hd1 Hd2]; try discriminate.
    inversion Es; subst a ss. inversion Hd2; subst w2. rewrite app_nil_r in *.
    exists r. repeat split; auto.
    change (length (rhs r)) with (0 + length (rhs r)).
    apply (chart_complete_gen _ _ Hd1 r 0 0 0 (length w1) [] []); auto.
    - constructor; auto.
    - rewrite app_nil_r; auto.
    - exists [], []. rewrite app_nil_r. simpl. repeat split; auto.
  Qed.

  (* acceptance: a completed start rule spanning the whole input *)
  Definition accepts_spec : Prop :=
    exists r, In r G /\ lhs r = start /\ chart (length w) (mkItem r (length (rhs r)) 0).

  Theorem accepts_iff_sentence : accepts_spec <-> derives [NT start] w.
  Proof.
    split.
    - intros (r & Hin & Hl & Hc). destruct (chart_sound _ _ Hc) as (u & Hs & Hd).
      cbn [orig dot irule] in *. rewrite firstn_all in Hd.
      destruct Hs as (p & s & E & L1 & L2). destruct p; [|discriminate]. simpl in *.
      assert (s = []).
      { apply (f_equal (@length tok)) in E. rewrite app_length in E. destruct s; auto. simpl in E. lia. }
      subst s. rewrite app_nil_r in E. subst u.
      rewrite <- (app_nil_r w). econstructor; eauto. constructor.
    - apply chart_complete.
  Qed.
End Chart.
