(* Proofs about Earley/Alg.v: the worklist algorithm computes exactly the chart of Earley/Spec.v
   (column i  U  to_scan i = chart i), never runs out of fuel, and therefore accepts exactly the
   sentences of the grammar. *)
From Coq Require Import List Arith Bool Lia.
From LV Require Import Cfg.Grammar Cfg.Analysis Cfg.Analysis_proofs Earley.Spec Earley.Alg.
Import ListNotations.

Lemma syms_eqb_spec a : forall b, syms_eqb a b = true <-> a = b.
Proof.
  induction a as [|x a IH]; intros [|y b]; simpl; split; try discriminate; auto.
  - rewrite andb_true_iff. intros [H1 H2]. apply IH in H2. destruct (symbol_eqb_spec x y); try discriminate.
    subst; auto.
  - intros H. inversion H; subst. rewrite andb_true_iff. split; [|apply IH; auto].
    destruct (symbol_eqb_spec y y); auto.
Qed.

Lemma rule_eqb_spec r1 r2 : rule_eqb r1 r2 = true <-> r1 = r2.
Proof.
  unfold rule_eqb. rewrite andb_true_iff, Nat.eqb_eq, syms_eqb_spec.
  destruct r1, r2; simpl. split; [intros [-> ->]; auto|intros H; inversion H; auto].
Qed.

Lemma item_eqb_spec x y : item_eqb x y = true <-> x = y.
Proof.
  unfold item_eqb. rewrite !andb_true_iff, !Nat.eqb_eq, rule_eqb_spec.
  destruct x, y; simpl. split; [intros [[-> ->] ->]; auto|intros H; inversion H; auto].
Qed.

Lemma memP x s : reflect (In x s) (mem x s).
Proof.
  unfold mem. destruct (existsb (item_eqb x) s) eqn:E; constructor.
  - apply existsb_exists in E. destruct E as (y & Hy & He). apply item_eqb_spec in He. subst; auto.
  - intros H. assert (existsb (item_eqb x) s = true); [|congruence].
    apply existsb_exists. exists x. split; auto. apply item_eqb_spec; auto.
Qed.

Lemma nat_memP a s : reflect (In a s) (nat_mem a s).
Proof.
  unfold nat_mem. destruct (existsb (Nat.eqb a) s) eqn:E; constructor.
  - apply existsb_exists in E. destruct E as (y & Hy & He). apply Nat.eqb_eq in He. subst; auto.
  - intros H. assert (existsb (Nat.eqb a) s = true); [|congruence].
    apply existsb_exists. exists a. split; auto. apply Nat.eqb_refl.
Qed.

Definition is_term_item (x : item) : bool :=
  match expect x with Some (T _) => true | _ => false end.

(* ---------------------------------------------------------------------------------------- *)
(* add_new and folds of it: what one batch of new items does to (column, work, to_scan) *)
Record ext (l : list item) (st st' : pc_state) : Prop := mkExt {
  ext_held : pc_held st' = pc_held st;
  ext_col : incl (pc_col st) (pc_col st');
  ext_work : incl (pc_work st) (pc_work st');
  ext_scan : incl (pc_scan st) (pc_scan st');
  ext_new_t : forall x, In x l -> is_term_item x = true -> In x (pc_scan st');
  ext_new_n : forall x, In x l -> is_term_item x = false -> In x (pc_col st');
  ext_col_inv : forall y, In y (pc_col st') ->
      In y (pc_col st) \/ (In y l /\ is_term_item y = false /\ In y (pc_work st'));
  ext_scan_inv : forall y, In y (pc_scan st') -> In y (pc_scan st) \/ (In y l /\ is_term_item y = true);
  ext_work_inv : forall y, In y (pc_work st') -> In y (pc_work st) \/ (In y l /\ is_term_item y = false);
  ext_nodup : NoDup (pc_col st) -> NoDup (pc_col st');
  ext_len : length (pc_col st') + length (pc_work st) = length (pc_col st) + length (pc_work st')
}.

Lemma ext_refl st : ext [] st st.
Proof. constructor; auto using incl_refl; try (intros ? []). Qed.

Lemma set_add_In x y s : In y (set_add x s) <-> In y s \/ y = x.
Proof.
  unfold set_add. destruct (memP x s).
  - split; auto. intros [?| ->]; auto.
  - rewrite in_app_iff. simpl. split; intros [?|?]; auto. destruct H; auto; tauto.
Qed.

Lemma nat_add_In a b s : In b (nat_add a s) <-> In b s \/ b = a.
Proof.
  unfold nat_add. destruct (nat_memP a s).
  - split; auto. intros [?| ->]; auto.
  - rewrite in_app_iff. simpl. split; intros [?|?]; auto. destruct H; auto; tauto.
Qed.

Lemma set_add_nodup x s : NoDup s -> NoDup (set_add x s).
Proof. unfold set_add. destruct (memP x s); auto. intros. apply NoDup_snoc; auto. Qed.

Lemma ext_one st x : ext [x] st (add_new st x).
Proof.
  unfold add_new. case_eq (is_term_item x); intros Ht.
  - assert (E : exists t, expect x = Some (T t)).
    { unfold is_term_item in Ht. destruct (expect x) as [[t|a]|]; try discriminate; eauto. }
    destruct E as (t & E). rewrite E.
    constructor; cbn [pc_col pc_work pc_scan pc_held]; auto using incl_refl.
    + intros y Hy. apply set_add_In; auto.
    + intros y [<- |[]] _. apply set_add_In; auto.
    + intros y [<- |[]] H. congruence.
    + intros y Hy. apply set_add_In in Hy. destruct Hy as [?| ->]; auto.
      right; split; [left; auto|auto].
  - assert (E : match expect x with
                | Some (T _) => mkPC (pc_col st) (pc_work st) (set_add x (pc_scan st)) (pc_held st)
                | _ => if mem x (pc_col st) then st
                       else mkPC (pc_col st ++ [x]) (x :: pc_work st) (pc_scan st) (pc_held st)
                end = if mem x (pc_col st) then st
                      else mkPC (pc_col st ++ [x]) (x :: pc_work st) (pc_scan st) (pc_held st)).
    { unfold is_term_item in Ht. destruct (expect x) as [[?|?]|]; auto; discriminate. }
    rewrite E. clear E.
    destruct (memP x (pc_col st)) as [Hin|Hnin].
    + constructor; auto using incl_refl.
      * intros y [<- |[]] H. congruence.
      * intros y [<- |[]] _. auto.
    + constructor; cbn [pc_col pc_work pc_scan pc_held]; auto using incl_refl.
      * intros y Hy. apply in_or_app; auto.
      * intros y Hy. right; auto.
      * intros y [<- |[]] H. congruence.
      * intros y [<- |[]] _. apply in_or_app; right; left; auto.
      * intros y Hy. apply in_app_or in Hy. destruct Hy as [?|[<- |[]]]; auto.
        right. repeat split; auto; left; auto.
      * intros y [<- |Hy]; auto. right; split; auto. left; auto.
      * intros. apply NoDup_snoc; auto.
      * rewrite app_length. simpl. lia.
Qed.

Lemma ext_trans l1 l2 st st1 st2 : ext l1 st st1 -> ext l2 st1 st2 -> ext (l1 ++ l2) st st2.
Proof.
  intros A B. constructor.
  - rewrite (ext_held _ _ _ B). apply A.
  - eapply incl_tran; [apply A|apply B].
  - eapply incl_tran; [apply A|apply B].
  - eapply incl_tran; [apply A|apply B].
  - intros x Hx Ht. apply in_app_or in Hx. destruct Hx as [Hx|Hx].
    + apply (ext_scan _ _ _ B). apply (ext_new_t _ _ _ A); auto.
    + apply (ext_new_t _ _ _ B); auto.
  - intros x Hx Ht. apply in_app_or in Hx. destruct Hx as [Hx|Hx].
    + apply (ext_col _ _ _ B). apply (ext_new_n _ _ _ A); auto.
    + apply (ext_new_n _ _ _ B); auto.
  - intros y Hy. destruct (ext_col_inv _ _ _ B y Hy) as [H1|(H1 & H2 & H3)].
    + destruct (ext_col_inv _ _ _ A y H1) as [?|(H2 & H3 & H4)]; auto.
      right. repeat split; auto. apply in_or_app; auto. apply (ext_work _ _ _ B); auto.
    + right. repeat split; auto. apply in_or_app; auto.
  - intros y Hy. destruct (ext_scan_inv _ _ _ B y Hy) as [H1|(H1 & H2)].
    + destruct (ext_scan_inv _ _ _ A y H1) as [?|(H2 & H3)]; auto.
      right. split; auto. apply in_or_app; auto.
    + right. split; auto. apply in_or_app; auto.
  - intros y Hy. destruct (ext_work_inv _ _ _ B y Hy) as [H1|(H1 & H2)].
    + destruct (ext_work_inv _ _ _ A y H1) as [?|(H2 & H3)]; auto.
      right. split; auto. apply in_or_app; auto.
    + right. split; auto. apply in_or_app; auto.
  - intros. apply (ext_nodup _ _ _ B), (ext_nodup _ _ _ A); auto.
  - pose proof (ext_len _ _ _ A). pose proof (ext_len _ _ _ B). lia.
Qed.

Lemma ext_fold l : forall st, ext l st (fold_left add_new l st).
Proof.
  induction l as [|x l IH]; intros st; simpl.
  - apply ext_refl.
  - change (x :: l) with ([x] ++ l). eapply ext_trans; [apply ext_one|apply IH].
Qed.

(* ---------------------------------------------------------------------------------------- *)
Section Proofs.
  Variable G : grammar.
  Variable predictions : nat -> list rule.
  Variable tok : Type.
  Variable tmatch : nat -> tok -> bool.
  Variable start : nat.
  Variable w : list tok.
  (* what the proofs need from the prediction table (both hold for Analysis.predictions) *)
  Hypothesis pred_sound : forall a r, In r (predictions a) -> In r G /\ lc_reach G a (lhs r).
  Hypothesis pred_direct : forall a r, In r G -> lhs r = a -> In r (predictions a).

  Notation chart := (chart G tok tmatch w start).
  Notation pc_step := (pc_step predictions).
  Notation pc_loop := (pc_loop predictions).

  (* ---- the chart rules in terms of expect / advance ---- *)
  Lemma chart_wf k x : chart k x ->
    In (irule x) G /\ dot x <= length (rhs (irule x)) /\ orig x <= k.
  Proof.
    induction 1 as [r Hin Hl | k r d j a r' Hc IH Hn Hin Hl | k r d j t x Hc IH Hn Hw Hm
                   | k r d j a r' i Hc1 IH1 Hn Hc2 IH2 Hl]; cbn [orig dot irule] in *.
    - repeat split; auto; lia.
    - repeat split; auto; lia.
    - destruct IH as (A & B & C). repeat split; auto.
      assert (d < length (rhs r)) by (apply nth_error_Some; congruence). lia.
    - destruct IH1 as (A & B & C). destruct IH2 as (A' & B' & C'). repeat split; auto.
      + assert (d < length (rhs r)) by (apply nth_error_Some; congruence). lia.
      + lia.
  Qed.

  Lemma chart_pred' k x a r :
    chart k x -> expect x = Some (NT a) -> In r G -> lhs r = a -> chart k (mkItem r 0 k).
  Proof. destruct x as [r0 d j]. unfold expect; cbn [irule dot]. intros. eapply c_pred; eauto. Qed.

  Lemma chart_pred_lc k x a : chart k x -> expect x = Some (NT a) ->
    forall b, lc_reach G a b -> forall r, In r G -> lhs r = b -> chart k (mkItem r 0 k).
  Proof.
    intros Hc He. induction 1 as [|b r' c rest Hb IH Hr' Hl Hrhs]; intros r Hr Hlr.
    - eapply chart_pred'; eauto.
    - eapply (chart_pred' k (mkItem r' 0 k) c); eauto.
      unfold expect; cbn [irule dot]. rewrite Hrhs. reflexivity.
  Qed.

  Lemma chart_init_lc : forall b, lc_reach G start b -> forall r, In r G -> lhs r = b -> chart 0 (mkItem r 0 0).
  Proof.
    induction 1 as [|b r' c rest Hb IH Hr' Hl Hrhs]; intros r Hr Hlr.
    - constructor; auto.
    - eapply (chart_pred' 0 (mkItem r' 0 0) c); eauto.
      unfold expect; cbn [irule dot]. rewrite Hrhs. reflexivity.
  Qed.

  Lemma chart_scan' k x t tk :
    chart k x -> expect x = Some (T t) -> nth_error w k = Some tk -> tmatch t tk = true ->
    chart (S k) (advance x).
  Proof. destruct x as [r d j]. unfold expect, advance; cbn [irule dot orig]. intros. eapply c_scan; eauto. Qed.

  Lemma expect_none_complete k x : chart k x -> expect x = None -> dot x = length (rhs (irule x)).
  Proof.
    intros Hc He. apply chart_wf in Hc. destruct Hc as (_ & Hd & _).
    unfold expect in He. apply nth_error_None in He. lia.
  Qed.

  Lemma chart_comp' i k y x a :
    chart i y -> expect y = Some (NT a) -> chart k x -> expect x = None -> orig x = i ->
    lhs (irule x) = a -> chart k (advance y).
  Proof.
    intros Hy Hey Hx Hex Ho Hl. pose proof (expect_none_complete _ _ Hx Hex) as Hd.
    destruct y as [r d j]. destruct x as [r' d' i']. unfold expect, advance in *; cbn [irule dot orig] in *.
    subst. eapply c_comp; eauto.
  Qed.

  (* ---------------------------------------------------------------------------------------- *)
  (* one predict_and_complete call at column i, given the finished earlier columns *)
  Section Column.
    (* ch: the ch the columns are compared with; only its closure under prediction and completion and the
       well-formedness of its items are used (instantiated with Spec.ch here and with the position-graph
       ch of the dynamic lexer in Dyn_proofs.v) *)
    Variable ch : nat -> item -> Prop.
    Hypothesis ch_wf : forall k x, ch k x ->
      In (irule x) G /\ dot x <= length (rhs (irule x)) /\ orig x <= k.
    Hypothesis ch_pred : forall k x a r,
      ch k x -> expect x = Some (NT a) -> In r G -> lhs r = a -> ch k (mkItem r 0 k).
    Hypothesis ch_comp : forall i k y x a,
      ch i y -> expect y = Some (NT a) -> ch k x -> expect x = None -> orig x = i ->
      lhs (irule x) = a -> ch k (advance y).
    Variable i : nat.
    Variable cols : list (list item).
    Hypothesis cols_sound : forall j x, In x (nth j cols []) -> ch j x.

    Lemma ch_pred_lc k x a : ch k x -> expect x = Some (NT a) ->
      forall b, lc_reach G a b -> forall r, In r G -> lhs r = b -> ch k (mkItem r 0 k).
    Proof.
      intros Hc He. induction 1 as [|b r' c rest Hb IH Hr' Hl Hrhs]; intros r Hr Hlr.
      - eapply ch_pred; eauto.
      - eapply (ch_pred k (mkItem r' 0 k) c); eauto.
        unfold expect; cbn [irule dot]. rewrite Hrhs. reflexivity.
    Qed.

    Definition inq (st : pc_state) (z : item) : Prop := In z (pc_col st) \/ In z (pc_scan st).

    Lemma inq_ext l st st' z : ext l st st' -> inq st z -> inq st' z.
    Proof. intros E [H|H]; [left; apply (ext_col _ _ _ E)|right; apply (ext_scan _ _ _ E)]; auto. Qed.

    Lemma inq_new l st st' z : ext l st st' -> In z l -> inq st' z.
    Proof.
      intros E H. case_eq (is_term_item z); intros Ht.
      - right. apply (ext_new_t _ _ _ E); auto.
      - left. apply (ext_new_n _ _ _ E); auto.
    Qed.

    (* the items a step offers to add_new, and the state they are added to *)
    Definition step_items (x : item) (st : pc_state) : list item :=
      match expect x with
      | None => map advance (filter (expects_nt (lhs (irule x)))
                               (if Nat.eqb (orig x) i then pc_col st else nth (orig x) cols []))
      | Some (NT a) => map (fun r => mkItem r 0 i) (predictions a)
                       ++ (if nat_mem a (pc_held st) then [advance x] else [])
      | Some (T _) => []
      end.
    Definition step_base (x : item) (st : pc_state) : pc_state :=
      match expect x with
      | None => if Nat.eqb (orig x) i
                then mkPC (pc_col st) (pc_work st) (pc_scan st) (nat_add (lhs (irule x)) (pc_held st)) else st
      | _ => st
      end.

    Lemma pc_step_eq x st : pc_step i cols x st = fold_left add_new (step_items x st) (step_base x st).
    Proof.
      unfold pc_step, step_items, step_base. destruct (expect x) as [[t|a]|]; auto.
    Qed.

    Lemma step_base_same x st :
      pc_col (step_base x st) = pc_col st /\ pc_work (step_base x st) = pc_work st /\
      pc_scan (step_base x st) = pc_scan st /\ incl (pc_held st) (pc_held (step_base x st)).
    Proof.
      unfold step_base. destruct (expect x) as [[t|a]|]; auto using incl_refl.
      destruct (Nat.eqb (orig x) i); cbn; auto using incl_refl.
      repeat split; auto. intros b Hb. apply nat_add_In; auto.
    Qed.

    Lemma expects_nt_spec a y : expects_nt a y = true <-> expect y = Some (NT a).
    Proof.
      unfold expects_nt. destruct (expect y) as [[t|b]|]; split; try discriminate.
      - intros H. apply Nat.eqb_eq in H. subst; auto.
      - intros H. inversion H. apply Nat.eqb_refl.
    Qed.

    (* ---- soundness invariant ---- *)
    Definition pc_sound (st : pc_state) : Prop :=
      (forall x, In x (pc_col st) -> ch i x) /\
      (forall x, In x (pc_scan st) -> ch i x) /\
      (forall x, In x (pc_work st) -> ch i x) /\
      (forall a, In a (pc_held st) ->
                 exists x, ch i x /\ expect x = None /\ orig x = i /\ lhs (irule x) = a).

    Lemma step_items_sound x st :
      pc_sound st -> ch i x -> forall y, In y (step_items x st) -> ch i y.
    Proof.
      intros (S1 & S2 & S3 & S4) Hx y Hy. unfold step_items in Hy.
      destruct (expect x) as [[t|a]|] eqn:E.
      - destruct Hy.
      - apply in_app_or in Hy. destruct Hy as [Hy|Hy].
        + apply in_map_iff in Hy. destruct Hy as (r & <- & Hr).
          destruct (pred_sound _ _ Hr) as (Hg & Hreach).
          eapply ch_pred_lc; eauto.
        + destruct (nat_memP a (pc_held st)) as [Hin|]; [|destruct Hy].
          destruct Hy as [<- |[]]. destruct (S4 a Hin) as (z & Hz & Hez & Hoz & Hlz).
          eapply ch_comp; eauto.
      - apply in_map_iff in Hy. destruct Hy as (o & <- & Ho).
        apply filter_In in Ho. destruct Ho as (Ho & He). apply expects_nt_spec in He.
        destruct (Nat.eqb (orig x) i) eqn:Eo.
        + apply Nat.eqb_eq in Eo. eapply ch_comp; eauto.
        + eapply (ch_comp (orig x)); eauto.
    Qed.

    Lemma pc_sound_ext l st st' :
      pc_sound st -> (forall y, In y l -> ch i y) -> ext l st st' -> pc_sound st'.
    Proof.
      intros (S1 & S2 & S3 & S4) Hl E. repeat split.
      - intros x Hx. destruct (ext_col_inv _ _ _ E x Hx) as [?|(? & _)]; auto.
      - intros x Hx. destruct (ext_scan_inv _ _ _ E x Hx) as [?|(? & _)]; auto.
      - intros x Hx. destruct (ext_work_inv _ _ _ E x Hx) as [?|(? & _)]; auto.
      - rewrite (ext_held _ _ _ E). auto.
    Qed.

    Lemma step_sound x col work scan held :
      pc_sound (mkPC col (x :: work) scan held) ->
      pc_sound (pc_step i cols x (mkPC col work scan held)).
    Proof.
      intros S. assert (Hx : ch i x) by (apply S; left; auto).
      assert (S' : pc_sound (mkPC col work scan held)).
      { destruct S as (S1 & S2 & S3 & S4). repeat split; auto. intros y Hy. apply S3; right; auto. }
      rewrite pc_step_eq.
      eapply (pc_sound_ext (step_items x (mkPC col work scan held))); [| |apply ext_fold].
      - destruct S' as (S1 & S2 & S3 & S4). unfold step_base.
        destruct (expect x) as [[t|a]|] eqn:E; try (repeat split; auto; fail).
        destruct (Nat.eqb (orig x) i) eqn:Eo; [|repeat split; auto].
        apply Nat.eqb_eq in Eo. repeat split; auto. cbn [pc_held]. intros a Ha.
        apply nat_add_In in Ha. destruct Ha as [Ha| ->]; auto. exists x; auto.
      - apply step_items_sound; auto.
    Qed.
  
    (* ---- completeness invariant; P = the items already popped from the work list ---- *)
    Record pc_inv (P : list item) (st : pc_state) : Prop := mkInv {
      inv_col_n : forall x, In x (pc_col st) -> is_term_item x = false;
      inv_scan_t : forall x, In x (pc_scan st) -> is_term_item x = true;
      inv_P_col : incl P (pc_col st);
      inv_col_P : forall x, In x (pc_col st) -> In x P \/ In x (pc_work st);
      inv_work_col : incl (pc_work st) (pc_col st);
      inv_pred : forall x a r, In x P -> expect x = Some (NT a) -> In r G -> lhs r = a ->
                   inq st (mkItem r 0 i);
      inv_held : forall x, In x P -> expect x = None -> orig x = i -> In (lhs (irule x)) (pc_held st);
      inv_comp_old : forall x y, In x P -> expect x = None -> orig x <> i ->
                   In y (nth (orig x) cols []) -> expect y = Some (NT (lhs (irule x))) ->
                   inq st (advance y);
      inv_comp_here : forall x y, In x P -> In y P -> expect x = None -> orig x = i ->
                   expect y = Some (NT (lhs (irule x))) -> inq st (advance y)
    }.

    Lemma step_inv P x col work scan held :
      pc_inv P (mkPC col (x :: work) scan held) ->
      pc_inv (x :: P) (pc_step i cols x (mkPC col work scan held)).
    Proof.
      intros I. set (st := mkPC col work scan held).
      rewrite pc_step_eq.
      pose proof (ext_fold (step_items x st) (step_base x st)) as E.
      destruct (step_base_same x st) as (B1 & B2 & B3 & B4).
      set (st' := fold_left add_new (step_items x st) (step_base x st)) in *.
      assert (Hcol : incl col (pc_col st')).
      { intros y Hy. apply (ext_col _ _ _ E). rewrite B1. exact Hy. }
      assert (Hmono : forall z, inq (mkPC col (x :: work) scan held) z -> inq st' z).
      { intros z [Hz|Hz]; [left; apply (ext_col _ _ _ E); rewrite B1|right; apply (ext_scan _ _ _ E); rewrite B3]; exact Hz. }
      assert (Hxcol : In x col) by (apply (inv_work_col _ _ I); left; auto).
      assert (Hterm : forall y, In y (step_items x st) -> is_term_item y = false -> In y (pc_col st')).
      { intros; apply (ext_new_n _ _ _ E); auto. }
      constructor.
      - intros y Hy. destruct (ext_col_inv _ _ _ E y Hy) as [Hy'|(_ & ? & _)]; auto.
        rewrite B1 in Hy'. apply (inv_col_n _ _ I y Hy').
      - intros y Hy. destruct (ext_scan_inv _ _ _ E y Hy) as [Hy'|(_ & ?)]; auto.
        rewrite B3 in Hy'. apply (inv_scan_t _ _ I y Hy').
      - intros y [<- |Hy]; apply Hcol; auto. apply (inv_P_col _ _ I); auto.
      - intros y Hy. destruct (ext_col_inv _ _ _ E y Hy) as [Hy'|(_ & _ & ?)]; auto.
        rewrite B1 in Hy'. destruct (inv_col_P _ _ I y Hy') as [?|[<- |Hw]].
        + left; right; auto.
        + left; left; auto.
        + right. apply (ext_work _ _ _ E). rewrite B2. exact Hw.
      - intros y Hy. destruct (ext_work_inv _ _ _ E y Hy) as [Hy'|(Hl & Ht)].
        + rewrite B2 in Hy'. apply Hcol. apply (inv_work_col _ _ I). right; exact Hy'.
        + apply Hterm; auto.
      - (* predictions *)
        intros z a r [<- |Hz] He Hr Hl.
        + eapply inq_new; [exact E|]. unfold step_items. rewrite He.
          apply in_or_app. left. apply in_map_iff. exists r. split; auto.
        + apply Hmono. eapply (inv_pred _ _ I); eauto.
      - (* held completions *)
        intros z [<- |Hz] He Ho.
        + rewrite (ext_held _ _ _ E). unfold step_base. rewrite He.
          rewrite (proj2 (Nat.eqb_eq _ _) Ho). cbn [pc_held]. apply nat_add_In; auto.
        + rewrite (ext_held _ _ _ E). apply B4. apply (inv_held _ _ I z Hz He Ho).
      - (* completions from earlier columns *)
        intros z y [<- |Hz] He Ho Hy Hey.
        + eapply inq_new; [exact E|]. unfold step_items. rewrite He.
          rewrite (proj2 (Nat.eqb_neq _ _) Ho).
          apply in_map. apply filter_In. split; auto. apply expects_nt_spec; auto.
        + apply Hmono. eapply (inv_comp_old _ _ I); eauto.
      - (* completions inside this column: whichever of the two is popped second finds the other *)
        intros z y [<- |Hz] [<- |Hy] He Ho Hey.
        + congruence.
        + eapply inq_new; [exact E|]. unfold step_items. rewrite He.
          rewrite (proj2 (Nat.eqb_eq _ _) Ho).
          apply in_map. apply filter_In. split; [|apply expects_nt_spec; auto].
          unfold st; cbn [pc_col]. apply (inv_P_col _ _ I); auto.
        + eapply inq_new; [exact E|]. unfold step_items. rewrite Hey.
          apply in_or_app. right.
          pose proof (inv_held _ _ I z Hz He Ho) as Hh. cbn [pc_held] in Hh.
          unfold st; cbn [pc_held].
          destruct (nat_memP (lhs (irule z)) held); [left; auto|contradiction].
        + apply Hmono. eapply (inv_comp_here _ _ I z y); eauto.
    Qed.

    Lemma pc_loop_spec fuel : forall P st st',
      pc_inv P st -> pc_sound st -> pc_loop fuel i cols st = Some st' ->
      pc_work st' = [] /\ incl (pc_col st) (pc_col st') /\ incl (pc_scan st) (pc_scan st') /\
      pc_sound st' /\ (NoDup (pc_col st) -> NoDup (pc_col st')) /\ exists P', pc_inv P' st'.
    Proof.
      induction fuel as [|f IH]; intros P st st' I S H; destruct st as [col work scan held];
        cbn [Alg.pc_loop pc_work pc_col pc_scan pc_held] in H; destruct work as [|x work].
      - inversion H; subst. repeat split; auto using incl_refl; try apply S. exists P; auto.
      - discriminate.
      - inversion H; subst. repeat split; auto using incl_refl; try apply S. exists P; auto.
      - pose proof (step_inv _ _ _ _ _ _ I) as I'. pose proof (step_sound _ _ _ _ _ S) as S'.
        destruct (IH _ _ _ I' S' H) as (A & B & C & D & N & E).
        assert (X : ext (step_items x (mkPC col work scan held)) (step_base x (mkPC col work scan held))
                        (pc_step i cols x (mkPC col work scan held))).
        { rewrite pc_step_eq. apply ext_fold. }
        destruct (step_base_same x (mkPC col work scan held)) as (B1 & B2 & B3 & B4).
        cbn [pc_col pc_scan] in *.
        repeat split; auto.
        + intros y Hy. apply B. apply (ext_col _ _ _ X). rewrite B1. exact Hy.
        + intros y Hy. apply C. apply (ext_scan _ _ _ X). rewrite B3. exact Hy.
        + apply D.
        + apply D.
        + apply D.
        + apply D.
        + intros ND. apply N. apply (ext_nodup _ _ _ X). rewrite B1. exact ND.
    Qed.
  
    (* ---- fuel: every pop is of a distinct item of the column, and the column lives in a finite space ---- *)
    Definition all_items : list item :=
      flat_map (fun r => flat_map (fun d => map (fun j => mkItem r d j) (seq 0 (S i)))
                                  (seq 0 (S (length (rhs r))))) G.

    Lemma all_items_In x : ch i x -> In x all_items.
    Proof.
      intros H. apply ch_wf in H. destruct H as (A & B & C). destruct x as [r d j]. cbn [irule dot orig] in *.
      unfold all_items. apply in_flat_map. exists r. split; auto.
      apply in_flat_map. exists d. split; [apply in_seq; lia|].
      apply in_map_iff. exists j. split; auto. apply in_seq; lia.
    Qed.

    Lemma flat_map_length {A B} (f : A -> list B) l :
      length (flat_map f l) = list_sum (map (fun x => length (f x)) l).
    Proof. induction l; simpl; auto. rewrite app_length, IHl. auto. Qed.

    Lemma list_sum_const {A} (l : list A) c : list_sum (map (fun _ => c) l) = length l * c.
    Proof. induction l; simpl; auto. Qed.

    Lemma list_sum_scale {A} (f : A -> nat) (l : list A) c :
      list_sum (map (fun x => f x * c) l) = c * list_sum (map f l).
    Proof. induction l; simpl; auto. rewrite IHl. lia. Qed.

    Lemma all_items_length : length all_items = item_space G i.
    Proof.
      unfold all_items, item_space. rewrite flat_map_length.
      erewrite map_ext.
      2: { intros r. rewrite flat_map_length. erewrite map_ext.
           2: { intros d. rewrite map_length, seq_length. reflexivity. }
           rewrite list_sum_const, seq_length. reflexivity. }
      apply (list_sum_scale (fun r => S (length (rhs r))) G (S i)).
    Qed.

    Lemma pc_loop_total fuel : forall st,
      pc_sound st -> NoDup (pc_col st) ->
      item_space G i + length (pc_work st) <= fuel + length (pc_col st) ->
      exists st', pc_loop fuel i cols st = Some st'.
    Proof.
      induction fuel as [|f IH]; intros st Sd ND Hlen;
        assert (Hb : length (pc_col st) <= item_space G i)
          by (rewrite <- all_items_length; apply NoDup_incl_length; auto;
              intros y Hy; apply all_items_In; apply (proj1 Sd); auto);
        destruct st as [col work scan held]; cbn [Alg.pc_loop pc_work pc_col pc_scan pc_held] in *;
        destruct work as [|x work]; eauto.
      - simpl in Hlen. lia.
      - pose proof (step_sound _ _ _ _ _ Sd) as S'.
        assert (X : ext (step_items x (mkPC col work scan held)) (step_base x (mkPC col work scan held))
                        (pc_step i cols x (mkPC col work scan held))).
        { rewrite pc_step_eq. apply ext_fold. }
        destruct (step_base_same x (mkPC col work scan held)) as (B1 & B2 & B3 & B4).
        apply IH; auto.
        + apply (ext_nodup _ _ _ X). rewrite B1. exact ND.
        + pose proof (ext_len _ _ _ X) as L. rewrite B1, B2 in L. cbn [pc_col pc_work] in L.
          simpl in Hlen. lia.
    Qed.

    (* ---- the whole call ---- *)
    Record pc_result (col0 scan0 : list item) (st : pc_state) : Prop := mkPR {
      pr_col0 : incl col0 (pc_col st);
      pr_scan0 : incl scan0 (pc_scan st);
      pr_sound_c : forall x, In x (pc_col st) -> ch i x;
      pr_sound_q : forall x, In x (pc_scan st) -> ch i x;
      pr_col_n : forall x, In x (pc_col st) -> is_term_item x = false;
      pr_scan_t : forall x, In x (pc_scan st) -> is_term_item x = true;
      pr_pred : forall x a r, In x (pc_col st) -> expect x = Some (NT a) -> In r G -> lhs r = a ->
                   inq st (mkItem r 0 i);
      pr_comp_old : forall x y, In x (pc_col st) -> expect x = None -> orig x <> i ->
                   In y (nth (orig x) cols []) -> expect y = Some (NT (lhs (irule x))) -> inq st (advance y);
      pr_comp_here : forall x y, In x (pc_col st) -> In y (pc_col st) -> expect x = None -> orig x = i ->
                   expect y = Some (NT (lhs (irule x))) -> inq st (advance y)
    }.

    Lemma pc_spec col0 scan0 :
      NoDup col0 ->
      (forall x, In x col0 -> ch i x) -> (forall x, In x scan0 -> ch i x) ->
      (forall x, In x col0 -> is_term_item x = false) -> (forall x, In x scan0 -> is_term_item x = true) ->
      exists st, predict_and_complete predictions (pc_fuel G i) i cols col0 scan0 = Some st /\
                 pc_result col0 scan0 st.
    Proof.
      intros ND Sc Sq Dc Dq. unfold predict_and_complete.
      set (st0 := mkPC col0 (rev col0) scan0 []).
      assert (S0 : pc_sound st0).
      { repeat split; cbn; auto. intros x Hx. apply Sc. apply in_rev; auto. intros a []. }
      assert (I0 : pc_inv [] st0).
      { constructor; cbn; auto; try (intros; contradiction).
        - intros x F; destruct F.
        - intros x Hx. right. apply in_rev in Hx. exact Hx.
        - intros x Hx. apply in_rev; auto. }
      destruct (pc_loop_total (pc_fuel G i) st0 S0 ND) as (st & Hst).
      { cbn. rewrite rev_length. unfold pc_fuel. lia. }
      exists st. split; auto.
      destruct (pc_loop_spec _ _ _ _ I0 S0 Hst) as (W & A & B & (Sd1 & Sd2 & _) & _ & (P & I)).
      assert (HP : forall x, In x (pc_col st) -> In x P).
      { intros x Hx. destruct (inv_col_P _ _ I x Hx) as [?|Hw]; auto. rewrite W in Hw. destruct Hw. }
      constructor; auto.
      - apply (inv_col_n _ _ I).
      - apply (inv_scan_t _ _ I).
      - intros. eapply (inv_pred _ _ I); eauto.
      - intros. eapply (inv_comp_old _ _ I); eauto.
      - intros x y Hx Hy. apply (inv_comp_here _ _ I x y); auto.
    Qed.
  End Column.

  (* ---------------------------------------------------------------------------------------- *)
  (* scan and the initial items: both distribute new items over (next column, next to_scan) *)
  Definition place (y : item) (acc : list item * list item) : list item * list item :=
    match expect y with
    | Some (T _) => (fst acc, set_add y (snd acc))
    | _ => (set_add y (fst acc), snd acc)
    end.
  Definition opt_place (o : option item) (acc : list item * list item) :=
    match o with Some y => place y acc | None => acc end.

  Lemma places_spec {A} (step : list item * list item -> A -> list item * list item) (f : A -> option item) :
    (forall acc x, step acc x = opt_place (f x) acc) ->
    forall l c q c' q', fold_left step l (c, q) = (c', q') ->
      incl c c' /\ incl q q' /\
      (forall x y, In x l -> f x = Some y -> In y c' \/ In y q') /\
      (forall z, In z c' -> In z c \/ (is_term_item z = false /\ exists x, In x l /\ f x = Some z)) /\
      (forall z, In z q' -> In z q \/ (is_term_item z = true /\ exists x, In x l /\ f x = Some z)) /\
      (NoDup c -> NoDup c').
  Proof.
    intros Hstep. induction l as [|x l IH]; intros c q c' q' H; simpl in H.
    - inversion H; subst. repeat split; auto using incl_refl. intros x y [].
    - rewrite Hstep in H. destruct (f x) as [y|] eqn:Ef; cbn [opt_place] in H.
      + unfold place in H. case_eq (is_term_item y); intros Ht.
        * assert (E : exists t, expect y = Some (T t)).
          { unfold is_term_item in Ht. destruct (expect y) as [[t|a]|]; try discriminate; eauto. }
          destruct E as (t & E). rewrite E in H. cbn [fst snd] in H.
          destruct (IH _ _ _ _ H) as (A1 & A2 & A3 & A4 & A5 & A6). repeat split; auto.
          -- intros z Hz. apply A2, set_add_In; auto.
          -- intros x0 y0 [<- |Hx] Hf; eauto. rewrite Ef in Hf. inversion Hf; subst.
             right. apply A2, set_add_In; auto.
          -- intros z Hz. destruct (A4 z Hz) as [?|(? & x0 & ? & ?)]; auto.
             right; split; auto. exists x0; split; auto. right; auto.
          -- intros z Hz. destruct (A5 z Hz) as [Hq|(? & x0 & ? & ?)].
             ++ apply set_add_In in Hq. destruct Hq as [?| ->]; auto.
                right; split; auto. exists x; split; auto. left; auto.
             ++ right; split; auto. exists x0; split; auto. right; auto.
        * assert (E : match expect y with
                      | Some (T _) => (fst (c, q), set_add y (snd (c, q)))
                      | _ => (set_add y (fst (c, q)), snd (c, q)) end = (set_add y c, q)).
          { unfold is_term_item in Ht. destruct (expect y) as [[?|?]|]; auto; discriminate. }
          rewrite E in H. clear E.
          destruct (IH _ _ _ _ H) as (A1 & A2 & A3 & A4 & A5 & A6). repeat split; auto.
          -- intros z Hz. apply A1, set_add_In; auto.
          -- intros x0 y0 [<- |Hx] Hf; eauto. rewrite Ef in Hf. inversion Hf; subst.
             left. apply A1, set_add_In; auto.
          -- intros z Hz. destruct (A4 z Hz) as [Hc|(? & x0 & ? & ?)].
             ++ apply set_add_In in Hc. destruct Hc as [?| ->]; auto.
                right; split; auto. exists x; split; auto. left; auto.
             ++ right; split; auto. exists x0; split; auto. right; auto.
          -- intros z Hz. destruct (A5 z Hz) as [?|(? & x0 & ? & ?)]; auto.
             right; split; auto. exists x0; split; auto. right; auto.
          -- intros ND. apply A6, set_add_nodup; auto.
      + destruct (IH _ _ _ _ H) as (A1 & A2 & A3 & A4 & A5 & A6). repeat split; auto.
        * intros x0 y0 [<- |Hx] Hf; eauto. congruence.
        * intros z Hz. destruct (A4 z Hz) as [?|(? & x0 & ? & ?)]; auto.
          right; split; auto. exists x0; split; auto. right; auto.
        * intros z Hz. destruct (A5 z Hz) as [?|(? & x0 & ? & ?)]; auto.
          right; split; auto. exists x0; split; auto. right; auto.
  Qed.

  Definition scan_pick (tk : tok) (x : item) : option item :=
    match expect x with
    | Some (T t) => if tmatch t tk then Some (advance x) else None
    | _ => None
    end.

  Lemma scan_step_eq tk acc x : scan_step tok tmatch tk acc x = opt_place (scan_pick tk x) acc.
  Proof.
    unfold scan_step, scan_pick. destruct (expect x) as [[t|a]|]; auto.
    destruct (tmatch t tk); auto.
  Qed.

  Lemma init_step_eq acc r : init_step acc r = opt_place (Some (mkItem r 0 0)) acc.
  Proof. reflexivity. Qed.

  Lemma scan_pick_spec tk x y :
    scan_pick tk x = Some y <-> exists t, expect x = Some (T t) /\ tmatch t tk = true /\ y = advance x.
  Proof.
    unfold scan_pick. destruct (expect x) as [[t|a]|].
    - destruct (tmatch t tk) eqn:M; split.
      + intros H; inversion H. eauto.
      + intros (t' & H1 & H2 & ->). auto.
      + discriminate.
      + intros (t' & H1 & H2 & ->). inversion H1; subst. congruence.
    - split; [discriminate|]. intros (t' & H1 & _). discriminate.
    - split; [discriminate|]. intros (t' & H1 & _). discriminate.
  Qed.

  (* ---------------------------------------------------------------------------------------- *)
  (* the trace: columns and to_scan sets indexed by position *)
  Definition colf (l : list (list item)) (k : nat) : list item := nth k l [].

  Lemma colf_snoc_lt l c k : k < length l -> colf (l ++ [c]) k = colf l k.
  Proof. intros. unfold colf. apply app_nth1; auto. Qed.
  Lemma colf_snoc_eq l c : colf (l ++ [c]) (length l) = c.
  Proof. unfold colf. rewrite app_nth2, Nat.sub_diag; auto. Qed.
  Lemma colf_overflow l k : length l <= k -> colf l k = [].
  Proof. intros. unfold colf. apply nth_overflow; auto. Qed.

  Section Closed.
    Variables (C Q : nat -> list item).
    Definition inT (k : nat) (z : item) : Prop := In z (C k) \/ In z (Q k).

    (* the first n columns are sound and closed under the chart rules that stay inside them *)
    Record closed (n : nat) : Prop := mkClosed {
      cl_col_n : forall k x, k < n -> In x (C k) -> is_term_item x = false;
      cl_scan_t : forall k x, k < n -> In x (Q k) -> is_term_item x = true;
      cl_sound : forall k x, k < n -> inT k x -> chart k x;
      cl_init : forall r, 0 < n -> In r G -> lhs r = start -> inT 0 (mkItem r 0 0);
      cl_pred : forall k x a r, k < n -> In x (C k) -> expect x = Some (NT a) -> In r G -> lhs r = a ->
                  inT k (mkItem r 0 k);
      cl_scan : forall k x t tk, S k < n -> In x (Q k) -> expect x = Some (T t) ->
                  nth_error w k = Some tk -> tmatch t tk = true -> inT (S k) (advance x);
      cl_comp : forall k x y, k < n -> In x (C k) -> expect x = None -> In y (C (orig x)) ->
                  expect y = Some (NT (lhs (irule x))) -> inT k (advance y)
    }.

    Lemma term_item_T x t : expect x = Some (T t) -> is_term_item x = true.
    Proof. unfold is_term_item. intros ->. auto. Qed.
    Lemma term_item_NT x a : expect x = Some (NT a) -> is_term_item x = false.
    Proof. unfold is_term_item. intros ->. auto. Qed.
    Lemma term_item_None x : expect x = None -> is_term_item x = false.
    Proof. unfold is_term_item. intros ->. auto. Qed.

    Lemma inT_C n k x : closed n -> k < n -> inT k x -> is_term_item x = false -> In x (C k).
    Proof. intros Cl Hk [H|H] Ht; auto. rewrite (cl_scan_t _ Cl k x Hk H) in Ht. discriminate. Qed.
    Lemma inT_Q n k x : closed n -> k < n -> inT k x -> is_term_item x = true -> In x (Q k).
    Proof. intros Cl Hk [H|H] Ht; auto. rewrite (cl_col_n _ Cl k x Hk H) in Ht. discriminate. Qed.

    (* alg_complete: a closed trace contains the whole chart *)
    Theorem closed_complete n : closed n -> forall k x, chart k x -> k < n -> inT k x.
    Proof.
      intros Cl. induction 1 as [r Hin Hl | k r d j a r' Hc IH Hn Hin Hl | k r d j t x Hc IH Hn Hw Hm
                                | k r d j a r' i Hc1 IH1 Hn Hc2 IH2 Hl]; intros Hk.
      - apply (cl_init _ Cl); auto.
      - eapply (cl_pred _ Cl k (mkItem r d j)); eauto.
        eapply inT_C; eauto. apply (term_item_NT _ a). exact Hn.
      - apply (cl_scan _ Cl k (mkItem r d j) t x); auto.
        eapply inT_Q; eauto; [lia|apply IH; lia|]. apply (term_item_T _ t). exact Hn.
      - assert (Hik : i <= k) by (apply chart_wf in Hc2; cbn [orig] in Hc2; lia).
        assert (Hx : In (mkItem r' (length (rhs r')) i) (C k)).
        { eapply inT_C; eauto. apply term_item_None. unfold expect; cbn [irule dot].
          apply nth_error_None. lia. }
        assert (Hy : In (mkItem r d j) (C i)).
        { eapply (inT_C n); eauto; [lia|apply IH1; lia|]. apply (term_item_NT _ a). exact Hn. }
        apply (cl_comp _ Cl k _ (mkItem r d j) Hk Hx); cbn [orig irule]; auto.
        + unfold expect; cbn [irule dot]. apply nth_error_None. lia.
        + rewrite Hl. exact Hn.
    Qed.
  End Closed.

  Lemma closed_extend n C Q C' Q' :
    closed C Q n ->
    (forall k, k < n -> C' k = C k /\ Q' k = Q k) ->
    (forall x, In x (C' n) -> is_term_item x = false) ->
    (forall x, In x (Q' n) -> is_term_item x = true) ->
    (forall x, inT C' Q' n x -> chart n x) ->
    (n = 0 -> forall r, In r G -> lhs r = start -> inT C' Q' n (mkItem r 0 0)) ->
    (forall x a r, In x (C' n) -> expect x = Some (NT a) -> In r G -> lhs r = a -> inT C' Q' n (mkItem r 0 n)) ->
    (forall m x t tk, n = S m -> In x (Q m) -> expect x = Some (T t) -> nth_error w m = Some tk ->
                      tmatch t tk = true -> inT C' Q' n (advance x)) ->
    (forall x y, In x (C' n) -> expect x = None -> In y (C' (orig x)) ->
                 expect y = Some (NT (lhs (irule x))) -> inT C' Q' n (advance y)) ->
    closed C' Q' (S n).
  Proof.
    intros Cl Ag Dn Dt Sd Hi Hp Hs Hc.
    assert (AgT : forall k z, k < n -> inT C Q k z <-> inT C' Q' k z).
    { intros k z Hk. unfold inT. destruct (Ag k Hk) as [-> ->]. tauto. }
    assert (Cases : forall k, k < S n -> k < n \/ k = n) by (intros; lia).
    constructor.
    - intros k x Hk Hx. destruct (Cases k Hk) as [Hlt| ->]; auto.
      destruct (Ag k Hlt) as [E _]. rewrite E in Hx. apply (cl_col_n _ _ _ Cl k x Hlt Hx).
    - intros k x Hk Hx. destruct (Cases k Hk) as [Hlt| ->]; auto.
      destruct (Ag k Hlt) as [_ E]. rewrite E in Hx. apply (cl_scan_t _ _ _ Cl k x Hlt Hx).
    - intros k x Hk Hx. destruct (Cases k Hk) as [Hlt| ->]; auto.
      apply (cl_sound _ _ _ Cl k x Hlt). apply AgT; auto.
    - intros r _ Hr Hl. destruct n as [|n']; [apply Hi; auto|].
      apply AgT; [lia|]. apply (cl_init _ _ _ Cl); auto; lia.
    - intros k x a r Hk Hx He Hr Hl. destruct (Cases k Hk) as [Hlt| ->]; [|eapply Hp; eauto].
      apply AgT; auto. destruct (Ag k Hlt) as [E _]. rewrite E in Hx.
      eapply (cl_pred _ _ _ Cl); eauto.
    - intros k x t tk Hk Hx He Hw Hm. assert (Hlt : k < n) by lia.
      destruct (Ag k Hlt) as [_ E]. rewrite E in Hx.
      assert (Hc' : S k < n \/ S k = n) by lia. destruct Hc' as [Hlt'|Heq].
      + apply AgT; auto. eapply (cl_scan _ _ _ Cl); eauto.
      + rewrite Heq. eapply Hs; eauto.
    - intros k x y Hk Hx He Hy Hey. destruct (Cases k Hk) as [Hlt| ->]; [|eapply Hc; eauto].
      destruct (Ag k Hlt) as [E _]. rewrite E in Hx.
      assert (Ho : orig x <= k).
      { assert (Hch : chart k x) by (apply (cl_sound _ _ _ Cl k x Hlt); left; auto).
        apply chart_wf in Hch. lia. }
      destruct (Ag (orig x)) as [E' _]; [lia|]. rewrite E' in Hy.
      apply AgT; auto. eapply (cl_comp _ _ _ Cl); eauto.
  Qed.

  (* ---------------------------------------------------------------------------------------- *)
  (* the main loop *)
  Lemma colf_snoc_eq' l c k : length l = k -> colf (l ++ [c]) k = c.
  Proof. intros <-. apply colf_snoc_eq. Qed.

  (* what a finished run looks like *)
  Definition out_ok (res : result) : Prop :=
    exists n, length (r_cols res) = n /\ length (r_scans res) = n /\
      closed (colf (r_cols res)) (colf (r_scans res)) n /\
      match r_out res with
      | Accept => n = S (length w) /\ existsb (is_solution start) (colf (r_cols res) (length w)) = true
      | RejectEOF => n = S (length w) /\ existsb (is_solution start) (colf (r_cols res) (length w)) = false
      | RejectTok k => n = S k /\ exists tk, nth_error w k = Some tk /\
                                              scan tok tmatch tk (colf (r_scans res) k) = ([], [])
      | OutOfFuel _ => False
      end.

  Lemma column_step i cols scans col scanq :
    length cols = i -> length scans = i ->
    closed (colf cols) (colf scans) i ->
    NoDup col -> (forall x, In x col -> chart i x) -> (forall x, In x scanq -> chart i x) ->
    (forall x, In x col -> is_term_item x = false) -> (forall x, In x scanq -> is_term_item x = true) ->
    (i = 0 -> forall r, In r G -> lhs r = start -> In (mkItem r 0 0) col \/ In (mkItem r 0 0) scanq) ->
    (forall m x t tk, i = S m -> In x (colf scans m) -> expect x = Some (T t) -> nth_error w m = Some tk ->
        tmatch t tk = true -> In (advance x) col \/ In (advance x) scanq) ->
    exists st, predict_and_complete predictions (pc_fuel G i) i cols col scanq = Some st /\
               closed (colf (cols ++ [pc_col st])) (colf (scans ++ [pc_scan st])) (S i) /\
               (forall x, In x (pc_scan st) -> chart i x).
  Proof.
    intros Hlc Hls Cl ND Sc Sq Dc Dq Hi Hs.
    assert (cols_sound : forall j x, In x (nth j cols []) -> chart j x).
    { intros j x Hx; destruct (Nat.lt_ge_cases j i) as [Hlt|Hge].
      - apply (cl_sound _ _ _ Cl j x Hlt); left; exact Hx.
      - rewrite nth_overflow in Hx by lia; destruct Hx. }
    destruct (pc_spec chart chart_wf chart_pred' chart_comp' i cols cols_sound col scanq ND Sc Sq Dc Dq) as (st & Est & R).
    pose proof (colf_snoc_eq' cols (pc_col st) i Hlc) as Ec.
    pose proof (colf_snoc_eq' scans (pc_scan st) i Hls) as Eq.
    exists st. split; auto. split; [|apply (pr_sound_q _ _ _ _ _ _ R)].
    apply (closed_extend i (colf cols) (colf scans)); auto; unfold inT; try rewrite Ec; try rewrite Eq.
    - intros k Hk; split; apply colf_snoc_lt; lia.
    - apply (pr_col_n _ _ _ _ _ _ R).
    - apply (pr_scan_t _ _ _ _ _ _ R).
    - intros x [Hx|Hx]; [apply (pr_sound_c _ _ _ _ _ _ R)|apply (pr_sound_q _ _ _ _ _ _ R)]; auto.
    - intros Hi0 r Hr Hl; destruct (Hi Hi0 r Hr Hl);
        [left; apply (pr_col0 _ _ _ _ _ _ R)|right; apply (pr_scan0 _ _ _ _ _ _ R)]; auto.
    - intros x a r Hx He Hr Hl; apply (pr_pred _ _ _ _ _ _ R x a r); auto.
    - intros m x t tk0 Hm Hx He Hn Hmt; destruct (Hs m x t tk0 Hm Hx He Hn Hmt);
        [left; apply (pr_col0 _ _ _ _ _ _ R)|right; apply (pr_scan0 _ _ _ _ _ _ R)]; auto.
    - intros x y Hx He Hy Hey.
      assert (Ho : orig x <= i) by (apply (pr_sound_c _ _ _ _ _ _ R), chart_wf in Hx; lia).
      destruct (Nat.eq_dec (orig x) i) as [Heq|Hne].
      + rewrite Heq, Ec in Hy. apply (pr_comp_here _ _ _ _ _ _ R x y); auto.
      + rewrite colf_snoc_lt in Hy by lia. apply (pr_comp_old _ _ _ _ _ _ R x y); auto.
  Qed.

  Lemma parse_loop_spec : forall toks i cols scans col scanq pre,
    w = pre ++ toks -> length pre = i -> length cols = i -> length scans = i ->
    closed (colf cols) (colf scans) i ->
    NoDup col -> (forall x, In x col -> chart i x) -> (forall x, In x scanq -> chart i x) ->
    (forall x, In x col -> is_term_item x = false) -> (forall x, In x scanq -> is_term_item x = true) ->
    (i = 0 -> forall r, In r G -> lhs r = start -> In (mkItem r 0 0) col \/ In (mkItem r 0 0) scanq) ->
    (forall m x t tk, i = S m -> In x (colf scans m) -> expect x = Some (T t) -> nth_error w m = Some tk ->
        tmatch t tk = true -> In (advance x) col \/ In (advance x) scanq) ->
    out_ok (parse_loop G predictions tok tmatch start toks i cols scans col scanq).
  Proof.
    induction toks as [|tk rest IH]; intros i cols scans col scanq pre Hw Hpre Hlc Hls Cl ND Sc Sq Dc Dq Hi Hs;
      destruct (column_step i cols scans col scanq Hlc Hls Cl ND Sc Sq Dc Dq Hi Hs) as (st & Est & Cl' & Sq');
      pose proof (colf_snoc_eq' cols (pc_col st) i Hlc) as Ec;
      pose proof (colf_snoc_eq' scans (pc_scan st) i Hls) as Eq.
    - (* end of input *)
      cbn [Alg.parse_loop]. rewrite Est.
      assert (Hlen : length w = i) by (rewrite Hw, app_nil_r; auto).
      exists (S i). cbn [r_cols r_scans r_out]. rewrite !app_length, Hlc, Hls. cbn [length].
      split; [lia|split; [lia|split; [exact Cl'|]]].
      rewrite Hlen, Ec.
      destruct (existsb (is_solution start) (pc_col st)) eqn:Ex; auto.
    - (* one more token *)
      cbn [Alg.parse_loop]. rewrite Est.
      assert (Hnth : nth_error w i = Some tk).
      { rewrite Hw, nth_error_app2 by lia. rewrite Hpre, Nat.sub_diag. reflexivity. }
      destruct (scan tok tmatch tk (pc_scan st)) as [nc nq] eqn:Escan. cbn [fst snd].
      pose proof Escan as Escan'. unfold scan in Escan'.
      destruct (places_spec _ _ (scan_step_eq tk) _ _ _ _ _ Escan') as (_ & _ & A3 & A4 & A5 & A6).
      assert (Hsrc : forall z, (exists x, In x (pc_scan st) /\ scan_pick tk x = Some z) -> chart (S i) z).
      { intros z (x & Hx & Hp). apply scan_pick_spec in Hp. destruct Hp as (t & He & Hm & ->).
        eapply chart_scan'; eauto. }
      assert (Rec : out_ok (parse_loop G predictions tok tmatch start rest (S i)
                              (cols ++ [pc_col st]) (scans ++ [pc_scan st]) nc nq)).
      { apply (IH (S i) _ _ nc nq (pre ++ [tk])); auto.
        - rewrite <- app_assoc. exact Hw.
        - rewrite app_length. simpl. lia.
        - rewrite app_length. simpl. lia.
        - rewrite app_length. simpl. lia.
        - apply A6. constructor.
        - intros z Hz. destruct (A4 z Hz) as [[]|(_ & Hex)]. auto.
        - intros z Hz. destruct (A5 z Hz) as [[]|(_ & Hex)]. auto.
        - intros z Hz. destruct (A4 z Hz) as [[]|(? & _)]. auto.
        - intros z Hz. destruct (A5 z Hz) as [[]|(? & _)]. auto.
        - intros F; discriminate.
        - intros m x t tk0 Hm Hx He Hn Hmt. inversion Hm; subst m. rewrite Eq in Hx.
          rewrite Hnth in Hn. inversion Hn; subst tk0.
          apply (A3 x (advance x) Hx). apply scan_pick_spec. eauto. }
      destruct nc as [|z nc']; [destruct nq as [|z nq']|]; auto.
      exists (S i). cbn [r_cols r_scans r_out]. rewrite !app_length, Hlc, Hls. cbn [length].
      split; [lia|split; [lia|split; [exact Cl'|]]]. split; auto.
      exists tk. split; auto. rewrite Eq. exact Escan.
  Qed.

  Lemma initial_spec c0 q0 : initial predictions start = (c0, q0) ->
    NoDup c0 /\ (forall x, In x c0 -> chart 0 x) /\ (forall x, In x q0 -> chart 0 x) /\
    (forall x, In x c0 -> is_term_item x = false) /\ (forall x, In x q0 -> is_term_item x = true) /\
    (forall r, In r G -> lhs r = start -> In (mkItem r 0 0) c0 \/ In (mkItem r 0 0) q0).
  Proof.
    unfold initial. intros H.
    destruct (places_spec init_step (fun r => Some (mkItem r 0 0)) init_step_eq _ _ _ _ _ H)
      as (_ & _ & A3 & A4 & A5 & A6).
    assert (Hsrc : forall z, (exists r, In r (predictions start) /\ Some (mkItem r 0 0) = Some z) -> chart 0 z).
    { intros z (r & Hr & Hz). inversion Hz; subst z. destruct (pred_sound _ _ Hr) as (Hg & Hreach).
      eapply chart_init_lc; eauto. }
    repeat split.
    - apply A6. constructor.
    - intros z Hz. destruct (A4 z Hz) as [[]|(_ & Hex)]. auto.
    - intros z Hz. destruct (A5 z Hz) as [[]|(_ & Hex)]. auto.
    - intros z Hz. destruct (A4 z Hz) as [[]|(? & _)]. auto.
    - intros z Hz. destruct (A5 z Hz) as [[]|(? & _)]. auto.
    - intros r Hr Hl. apply (A3 r); auto.
  Qed.

  Theorem parse_ok : out_ok (parse G predictions tok tmatch start w).
  Proof.
    unfold parse. destruct (initial predictions start) as [c0 q0] eqn:E. cbn [fst snd].
    destruct (initial_spec _ _ E) as (ND & Sc & Sq & Dc & Dq & Hi).
    apply (parse_loop_spec w 0 [] [] c0 q0 []); auto.
    - constructor; intros; lia.
    - intros m x t tk F; discriminate.
  Qed.

  (* ---- the theorems about one run ---- *)
  Notation res := (parse G predictions tok tmatch start w).

  Theorem alg_sound k x : In x (colf (r_cols res) k) \/ In x (colf (r_scans res) k) -> chart k x.
  Proof.
    destruct parse_ok as (n & L1 & L2 & Cl & _). intros H.
    destruct (Nat.lt_ge_cases k n) as [Hlt|Hge].
    - apply (cl_sound _ _ _ Cl k x Hlt). exact H.
    - rewrite !colf_overflow in H by lia. destruct H as [[]|[]].
  Qed.

  Theorem alg_complete k x : chart k x -> k < length (r_cols res) ->
    In x (colf (r_cols res) k) \/ In x (colf (r_scans res) k).
  Proof.
    destruct parse_ok as (n & L1 & L2 & Cl & _). intros H Hk.
    apply (closed_complete _ _ n Cl k x H). lia.
  Qed.

  Theorem fuel_suffices i : r_out res <> OutOfFuel i.
  Proof. destruct parse_ok as (n & _ & _ & _ & H). intros E. rewrite E in H. exact H. Qed.

  Lemma chart_down m z : chart m z -> forall k, k <= m -> exists z', chart k z'.
  Proof.
    induction 1 as [r Hin Hl | k r d j a r' Hc IH Hn Hin Hl | k r d j t x Hc IH Hn Hw Hm
                   | k r d j a r' i Hc1 IH1 Hn Hc2 IH2 Hl]; intros k' Hk'.
    - exists (mkItem r 0 0). replace k' with 0 by lia. constructor; auto.
    - apply IH; auto.
    - destruct (Nat.eq_dec k' (S k)) as [->|Hne].
      + eexists. eapply c_scan; eauto.
      + apply IH. lia.
    - apply IH2; auto.
  Qed.

  Lemma solution_spec x : is_solution start x = true <-> expect x = None /\ lhs (irule x) = start /\ orig x = 0.
  Proof.
    unfold is_solution. destruct (expect x).
    - split; [discriminate|intros (F & _); discriminate].
    - rewrite andb_true_iff, !Nat.eqb_eq. tauto.
  Qed.

  Theorem accepts_iff_spec :
    accepts G predictions tok tmatch start w = true <-> accepts_spec G tok tmatch w start.
  Proof.
    unfold accepts. destruct parse_ok as (n & L1 & L2 & Cl & Hout). split.
    - destruct (r_out res); try discriminate. intros _. destruct Hout as (Hn & Hex).
      apply existsb_exists in Hex. destruct Hex as (x & Hx & Hsol).
      apply solution_spec in Hsol. destruct Hsol as (He & Hl & Ho).
      assert (Hc : chart (length w) x) by (apply (cl_sound _ _ _ Cl); [lia|left; auto]).
      pose proof (expect_none_complete _ _ Hc He) as Hd.
      destruct (chart_wf _ _ Hc) as (Hg & _).
      exists (irule x). repeat split; auto.
      destruct x as [r d j]; cbn [irule dot orig] in *. subst. exact Hc.
    - intros (r & Hr & Hl & Hc).
      destruct (r_out res) as [| |k|k] eqn:Eo; auto; exfalso.
      + destruct Hout as (Hn & Hex).
        assert (Hin : In (mkItem r (length (rhs r)) 0) (colf (r_cols res) (length w))).
        { apply (inT_C (colf (r_cols res)) (colf (r_scans res)) n); auto; [lia|apply (closed_complete _ _ n Cl); auto; lia|].
          apply term_item_None. unfold expect; cbn [irule dot]. apply nth_error_None. lia. }
        assert (Ht : existsb (is_solution start) (colf (r_cols res) (length w)) = true).
        { apply existsb_exists. eexists; split; [exact Hin|]. apply solution_spec.
          unfold expect; cbn [irule dot orig]. repeat split; auto. apply nth_error_None. lia. }
        congruence.
      + destruct Hout as (Hn & tk & Hnth & Hscan).
        assert (Hk : S k <= length w).
        { assert (k < length w) by (apply nth_error_Some; congruence). lia. }
        destruct (chart_down _ _ Hc (S k) Hk) as (z & Hz).
        assert (Cl2 : closed (colf (r_cols res ++ [[]])) (colf (r_scans res ++ [[]])) (S n)).
        { apply (closed_extend n (colf (r_cols res)) (colf (r_scans res))); auto.
          - intros j Hj. split; apply colf_snoc_lt; lia.
          - intros x. rewrite colf_snoc_eq' by auto. intros [].
          - intros x. rewrite colf_snoc_eq' by auto. intros [].
          - intros x. unfold inT. rewrite !colf_snoc_eq' by auto. intros [[]|[]].
          - intros F. lia.
          - intros x a r0. rewrite colf_snoc_eq' by auto. intros [].
          - intros m x t tk0 Hm Hx He Hn0 Hmt. assert (m = k) by lia. subst m.
            rewrite Hnth in Hn0. inversion Hn0; subst tk0. unfold scan in Hscan.
            destruct (places_spec _ _ (scan_step_eq tk) _ _ _ _ _ Hscan) as (_ & _ & A3 & _).
            destruct (A3 x (advance x) Hx) as [[]|[]]. apply scan_pick_spec. eauto.
          - intros x y. rewrite colf_snoc_eq' by auto. intros []. }
        assert (Hin : inT (colf (r_cols res ++ [[]])) (colf (r_scans res ++ [[]])) (S k) z).
        { apply (closed_complete _ _ (S n) Cl2); auto. lia. }
        unfold inT in Hin. rewrite !colf_snoc_eq' in Hin by lia. destruct Hin as [[]|[]].
  Qed.
End Proofs.

(* ---------------------------------------------------------------------------------------- *)
(* lark's configuration: predictions = expand_rule, tokens = terminal ids *)
Section Basic.
  Variable G : grammar.
  Variable start : nat.
  Variable toks : list nat.

  (* the prediction table is a cache of Analysis.predictions *)
  Lemma pred_table_ok : forall p, In p (pred_table G) -> snd p = Analysis.predictions G (fst p).
  Proof.
    unfold pred_table.
    assert (H : forall l tbl, (forall p, In p tbl -> snd p = Analysis.predictions G (fst p)) ->
              forall p, In p (fold_left (fun tbl r => if existsb (fun p => Nat.eqb (fst p) (lhs r)) tbl then tbl
                                          else tbl ++ [(lhs r, Analysis.predictions G (lhs r))]) l tbl) ->
                        snd p = Analysis.predictions G (fst p)).
    { induction l as [|r l IH]; intros tbl Ht p Hp; simpl in Hp; auto.
      apply (IH _) in Hp; auto. intros q Hq.
      destruct (existsb (fun p0 => Nat.eqb (fst p0) (lhs r)) tbl); auto.
      apply in_app_or in Hq. destruct Hq as [?|[<- |[]]]; auto. }
    apply H. intros p [].
  Qed.

  Lemma pred_lookup_eq a : pred_lookup G (pred_table G) a = Analysis.predictions G a.
  Proof.
    unfold pred_lookup. destruct (find (fun p => Nat.eqb (fst p) a) (pred_table G)) as [p|] eqn:E; auto.
    apply find_some in E. destruct E as (Hin & He). apply Nat.eqb_eq in He. subst a.
    apply pred_table_ok; auto.
  Qed.

  Let ps : forall a r, In r (pred_lookup G (pred_table G) a) -> In r G /\ lc_reach G a (lhs r).
  Proof. intros a r. rewrite pred_lookup_eq. apply predictions_spec. Qed.
  Let pd : forall a r, In r G -> lhs r = a -> In r (pred_lookup G (pred_table G) a).
  Proof. intros a r. rewrite pred_lookup_eq. apply predictions_direct. Qed.

  Theorem earley_alg_sound k x :
    In x (colf (r_cols (earley_parse G start toks)) k) \/ In x (colf (r_scans (earley_parse G start toks)) k) ->
    chart G nat Nat.eqb toks start k x.
  Proof. apply (alg_sound G (pred_lookup G (pred_table G)) nat Nat.eqb start toks ps pd). Qed.

  Theorem earley_alg_complete k x :
    chart G nat Nat.eqb toks start k x -> k < length (r_cols (earley_parse G start toks)) ->
    In x (colf (r_cols (earley_parse G start toks)) k) \/ In x (colf (r_scans (earley_parse G start toks)) k).
  Proof. apply (alg_complete G (pred_lookup G (pred_table G)) nat Nat.eqb start toks ps pd). Qed.

  Theorem earley_trace_is_chart k x :
    k < length (r_cols (earley_parse G start toks)) ->
    (In x (colf (r_cols (earley_parse G start toks)) k) \/ In x (colf (r_scans (earley_parse G start toks)) k)
     <-> chart G nat Nat.eqb toks start k x).
  Proof. intros Hk. split; [apply earley_alg_sound|intros H; apply earley_alg_complete; auto]. Qed.

  Theorem earley_fuel_suffices i : r_out (earley_parse G start toks) <> OutOfFuel i.
  Proof. apply (fuel_suffices G (pred_lookup G (pred_table G)) nat Nat.eqb start toks ps pd). Qed.

  Theorem earley_accepts_iff_sentence :
    earley_accepts G start toks = true <-> derives G nat Nat.eqb [NT start] toks.
  Proof.
    unfold earley_accepts.
    rewrite (accepts_iff_spec G (pred_lookup G (pred_table G)) nat Nat.eqb start toks ps pd).
    apply accepts_iff_sentence.
  Qed.
End Basic.

(* the same for any token type, matcher and prediction table between "the rules of a" and "the rules
   reachable from a through first symbols" (e.g. no pre-computed closure at all) *)
Theorem accepts_iff_sentence_gen G predictions tok tmatch start w :
  (forall a r, In r (predictions a) -> In r G /\ lc_reach G a (lhs r)) ->
  (forall a r, In r G -> lhs r = a -> In r (predictions a)) ->
  (accepts G predictions tok tmatch start w = true <-> derives G tok tmatch [NT start] w).
Proof.
  intros ps pd. rewrite (accepts_iff_spec G predictions tok tmatch start w ps pd). apply accepts_iff_sentence.
Qed.
