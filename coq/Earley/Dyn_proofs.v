(* Proofs about Earley/Dyn.v (the model of lark's dynamic Earley lexers).
   Specification: derivations over the "position graph" of the text - a terminal t may span i..j when j is one of
   the ends the scanner explores for t at i (ends_of: the one match of the regex engine; with complete_lex also the
   matches on the truncations of that match), ignored terminals span i..j by the engine's match; before every
   terminal and after the whole sentence any path of ignored spans may be skipped.
     gsound / gcomplete : the position-graph chart (gchart) accepts iff such a derivation exists
     dyn_*              : the model's columns are exactly gchart, it never runs out of fuel, and it accepts iff
                          gchart accepts
   Everything is under H_fwd: the engine never returns an empty match (lark refuses zero-width terminals for the
   dynamic lexers when the parser is built). *)
From Coq Require Import List Arith Bool Lia.
From LV Require Import Cfg.Grammar Cfg.Analysis Cfg.Analysis_proofs Earley.Spec Earley.Alg Earley.Alg_proofs Earley.Dyn.
Import ListNotations.

Lemma is_solution_spec start x :
  is_solution start x = true <-> expect x = None /\ lhs (irule x) = start /\ orig x = 0.
Proof.
  unfold is_solution. destruct (expect x).
  - split; [discriminate|intros (F & _); discriminate].
  - rewrite andb_true_iff, !Nat.eqb_eq. tauto.
Qed.

Section DynSpec.
  Variable G : grammar.
  Variable start : nat.
  Variable n : nat.
  Variable rmatch : nat -> nat -> option nat.
  Variable rtrunc : nat -> nat -> nat -> option nat.
  Variable complete_lex : bool.
  Variable ignore : list nat.

  Notation ends := (ends_of rmatch rtrunc complete_lex).

  (* what ends_of computes *)
  Lemma ends_spec t i j :
    In j (ends t i) <->
    exists e, rmatch t i = Some e /\
              (j = e \/ (complete_lex = true /\ exists k, 1 <= k < e - i /\ rtrunc t i (e - k) = Some j)).
  Proof.
    unfold ends_of. destruct (rmatch t i) as [e|].
    - split.
      + intros [E|H]; [exists e; auto|]. exists e. split; auto. right.
        destruct complete_lex; [|destruct H]. split; auto.
        apply in_flat_map in H. destruct H as (k & Hk & Hj). apply in_seq in Hk.
        exists k. split; [lia|]. destruct (rtrunc t i (e - k)) as [e'|]; [|destruct Hj].
        destruct Hj as [<- |[]]; auto.
      + intros (e' & E & H). inversion E; subst e'. destruct H as [-> |(Hc & k & Hk & Hj)]; [left; auto|].
        right. rewrite Hc. apply in_flat_map. exists k. split; [apply in_seq; lia|]. rewrite Hj. left; auto.
    - split; [intros []|intros (e & E & _); discriminate].
  Qed.

  (* ---- the position graph and derivations over it ---- *)
  Definition ign_edge (i j : nat) : Prop := exists x, In x ignore /\ rmatch x i = Some j.

  Inductive ign_path : nat -> nat -> Prop :=
  | ip_refl i : ign_path i i
  | ip_step i j k : ign_edge i j -> ign_path j k -> ign_path i k.

  (* gderives ss i k: the sentential form ss spans the text from i to k; ignored spans may precede each terminal *)
  Inductive gderives : list symbol -> nat -> nat -> Prop :=
  | gd_nil i : gderives [] i i
  | gd_term t ss i i' j k : ign_path i i' -> In j (ends t i') -> gderives ss j k -> gderives (T t :: ss) i k
  | gd_nt a r ss i j k : In r G -> lhs r = a -> gderives (rhs r) i j -> gderives ss j k ->
      gderives (NT a :: ss) i k.

  (* the whole text is a sentence: a derivation of start from 0, then ignored spans up to the end *)
  Definition gsentence : Prop := exists j, gderives [NT start] 0 j /\ ign_path j n.

  Lemma ign_path_trans i j k : ign_path i j -> ign_path j k -> ign_path i k.
  Proof. induction 1; auto. intros. econstructor; eauto. Qed.

  Lemma ign_path_snoc i j k : ign_path i j -> ign_edge j k -> ign_path i k.
  Proof. intros H E. eapply ign_path_trans; eauto. econstructor; eauto. constructor. Qed.

  Lemma gderives_app a b i j k : gderives a i j -> gderives b j k -> gderives (a ++ b) i k.
  Proof.
    induction 1; intros; simpl; auto.
    - econstructor; eauto.
    - econstructor; eauto.
  Qed.

  (* ignored spans in front of a derivation can be absorbed; what the derivation does not absorb (when it derives
     no terminal) is left over behind it *)
  Lemma gderives_shift ss i k : gderives ss i k ->
    forall i', ign_path i' i -> exists k', gderives ss i' k' /\ ign_path k' k.
  Proof.
    induction 1 as [i | t ss i i1 j k Hp He Hd IH | a r ss i j k Hr Hl Hd1 IH1 Hd2 IH2]; intros i0 Hi.
    - exists i0. split; auto. constructor.
    - exists k. split; [|constructor]. apply (gd_term t ss i0 i1 j k); auto. eapply ign_path_trans; eauto.
    - destruct (IH1 _ Hi) as (j' & Hd1' & Hj). destruct (IH2 _ Hj) as (k' & Hd2' & Hk).
      exists k'. split; auto. econstructor; eauto.
  Qed.

  (* ---- the chart over the position graph ---- *)
  Inductive gchart : nat -> item -> Prop :=
  | g_init r : In r G -> lhs r = start -> gchart 0 (mkItem r 0 0)
  | g_pred k x a r : gchart k x -> expect x = Some (NT a) -> In r G -> lhs r = a -> gchart k (mkItem r 0 k)
  | g_comp i k y x a : gchart i y -> expect y = Some (NT a) -> gchart k x -> expect x = None -> orig x = i ->
      lhs (irule x) = a -> gchart k (advance y)
  | g_scan k x t j : gchart k x -> expect x = Some (T t) -> In j (ends t k) -> gchart j (advance x)
  | g_carry k x t j : gchart k x -> expect x = Some (T t) -> ign_edge k j -> gchart j x
  | g_carry_start k x j : gchart k x -> is_solution start x = true -> ign_edge k j -> gchart j x.

  Definition gaccepts : Prop := exists x, gchart n x /\ is_solution start x = true.

  (* the engine never returns an empty match *)
  Definition fwd : Prop :=
    (forall t i j, rmatch t i = Some j -> i < j) /\ (forall t i lim j, rtrunc t i lim = Some j -> i < j).
  Hypothesis H_fwd : fwd.

  Lemma ends_fwd t i j : In j (ends t i) -> i < j.
  Proof.
    intros H. apply ends_spec in H. destruct H as (e & E & [-> |(_ & k & _ & Hk)]).
    - eapply (proj1 H_fwd); eauto.
    - eapply (proj2 H_fwd); eauto.
  Qed.

  Lemma ign_edge_fwd i j : ign_edge i j -> i < j.
  Proof. intros (x & _ & H). eapply (proj1 H_fwd); eauto. Qed.

  Lemma expect_some_lt x s : expect x = Some s -> dot x < length (rhs (irule x)).
  Proof. unfold expect. intros H. apply nth_error_Some. congruence. Qed.

  Lemma gchart_wf k x : gchart k x ->
    In (irule x) G /\ dot x <= length (rhs (irule x)) /\ orig x <= k.
  Proof.
    induction 1 as [r Hr Hl | k x a r Hc IH He Hr Hl | i k y x a Hy IHy Hey Hx IHx Hex Ho Hl
                   | k x t j Hc IH He Hj | k x t j Hc IH He Hj | k x j Hc IH Hs Hj]; cbn [irule dot orig advance] in *.
    - repeat split; auto; lia.
    - repeat split; auto; lia.
    - destruct IHy as (A & B & C). destruct IHx as (A' & B' & C'). apply expect_some_lt in Hey.
      repeat split; auto; lia.
    - destruct IH as (A & B & C). apply expect_some_lt in He. apply ends_fwd in Hj. repeat split; auto; lia.
    - destruct IH as (A & B & C). apply ign_edge_fwd in Hj. repeat split; auto; lia.
    - destruct IH as (A & B & C). apply ign_edge_fwd in Hj. repeat split; auto; lia.
  Qed.

  Lemma firstn_S_expect x s :
    expect x = Some s -> firstn (S (dot x)) (rhs (irule x)) = firstn (dot x) (rhs (irule x)) ++ [s].
  Proof.
    unfold expect. generalize (dot x). induction (rhs (irule x)) as [|y l IH]; intros [|d] E; simpl in *; try discriminate.
    - inversion E; auto.
    - f_equal; auto.
  Qed.

  (* soundness of the chart: an item spans a derivation of its prefix followed by ignored spans *)
  Lemma gchart_sound k x : gchart k x ->
    exists k', gderives (firstn (dot x) (rhs (irule x))) (orig x) k' /\ ign_path k' k.
  Proof.
    induction 1 as [r Hr Hl | k x a r Hc IH He Hr Hl | i k y x a Hy IHy Hey Hx IHx Hex Ho Hl
                   | k x t j Hc IH He Hj | k x t j Hc IH He Hj | k x j Hc IH Hs Hj]; cbn [irule dot orig advance] in *.
    - exists 0. split; constructor.
    - exists k. split; constructor.
    - destruct IHy as (i' & Dy & Py). destruct IHx as (k1 & Dx & Px).
      rewrite firstn_all2 in Dx by (unfold expect in Hex; apply nth_error_None in Hex; lia).
      rewrite Ho in Dx. destruct (gderives_shift _ _ _ Dx _ Py) as (k2 & Dx' & Pk).
      exists k2. split; [|eapply ign_path_trans; eauto].
      rewrite (firstn_S_expect _ _ Hey). eapply gderives_app; eauto.
      econstructor; eauto. apply (gchart_wf _ _ Hx). constructor.
    - destruct IH as (k' & D & P). exists j. split; [|constructor].
      rewrite (firstn_S_expect _ _ He). eapply gderives_app; eauto.
      econstructor; eauto. constructor.
    - destruct IH as (k' & D & P). exists k'. split; auto. eapply ign_path_snoc; eauto.
    - destruct IH as (k' & D & P). exists k'. split; auto. eapply ign_path_snoc; eauto.
  Qed.

  Theorem gsound : gaccepts -> gsentence.
  Proof.
    intros (x & Hc & Hs). apply is_solution_spec in Hs. destruct Hs as (He & Hl & Ho).
    destruct (gchart_sound _ _ Hc) as (k' & D & P).
    rewrite firstn_all2 in D by (unfold expect in He; apply nth_error_None in He; lia).
    rewrite Ho in D. exists k'. split; auto.
    econstructor; eauto. apply (gchart_wf _ _ Hc). constructor.
  Qed.

  (* completeness of the chart *)
  Lemma gchart_carry_path k k' x t : ign_path k k' -> gchart k x -> expect x = Some (T t) -> gchart k' x.
  Proof. induction 1; auto. intros. apply IHign_path; auto. eapply g_carry; eauto. Qed.

  Lemma gchart_complete_gen b i k : gderives b i k ->
    forall r d o a c, gchart i (mkItem r d o) -> rhs r = a ++ b ++ c -> length a = d ->
      gchart k (mkItem r (d + length b) o).
  Proof.
    induction 1 as [i | t ss i i1 j k Hp He Hd IH | a0 r0 ss i j k Hr Hl Hd1 IH1 Hd2 IH2];
      intros r d o a c Hc E L.
    - simpl. rewrite Nat.add_0_r. auto.
    - assert (Hx : expect (mkItem r d o) = Some (T t)).
      { unfold expect; cbn [irule dot]. rewrite E, nth_error_app2 by lia. rewrite L, Nat.sub_diag. reflexivity. }
      pose proof (gchart_carry_path _ _ _ _ Hp Hc Hx) as Hc1.
      pose proof (g_scan _ _ _ _ Hc1 Hx He) as Hc2. unfold advance in Hc2; cbn [irule dot orig] in Hc2.
      simpl. replace (d + S (length ss)) with (S d + length ss) by lia.
      apply (IH r (S d) o (a ++ [T t]) c); auto.
      + rewrite E, <- app_assoc. reflexivity.
      + rewrite app_length; simpl; lia.
    - assert (Hx : expect (mkItem r d o) = Some (NT a0)).
      { unfold expect; cbn [irule dot]. rewrite E, nth_error_app2 by lia. rewrite L, Nat.sub_diag. reflexivity. }
      pose proof (g_pred _ _ _ _ Hc Hx Hr Hl) as Hp.
      pose proof (IH1 r0 0 i [] [] Hp) as Hq. simpl in Hq. rewrite app_nil_r in Hq.
      specialize (Hq eq_refl eq_refl).
      assert (Hc' : gchart j (mkItem r (S d) o)).
      { apply (g_comp i j (mkItem r d o) (mkItem r0 (length (rhs r0)) i) a0); auto.
        unfold expect; cbn [irule dot]. apply nth_error_None. lia. }
      simpl. replace (d + S (length ss)) with (S d + length ss) by lia.
      apply (IH2 r (S d) o (a ++ [NT a0]) c); auto.
      + rewrite E, <- app_assoc. reflexivity.
      + rewrite app_length; simpl; lia.
  Qed.

  Lemma gchart_carry_start_path k k' x : ign_path k k' -> gchart k x -> is_solution start x = true -> gchart k' x.
  Proof. induction 1; auto. intros. apply IHign_path; auto. eapply g_carry_start; eauto. Qed.

  Theorem gcomplete : gsentence -> gaccepts.
  Proof.
    intros (j & D & P).
    inversion D as [| |a r ss i j' k Hr Hl Hd1 Hd2]; subst. inversion Hd2; subst.
    exists (mkItem r (length (rhs r)) 0). split.
    - eapply gchart_carry_start_path; eauto.
      + apply (gchart_complete_gen _ _ _ Hd1 r 0 0 [] []); auto.
        * constructor; auto.
        * rewrite app_nil_r; auto.
      + apply is_solution_spec. unfold expect; cbn [irule dot orig]. repeat split; auto.
        apply nth_error_None. lia.
    - apply is_solution_spec. unfold expect; cbn [irule dot orig]. repeat split; auto.
      apply nth_error_None. lia.
  Qed.
End DynSpec.

(* ---------------------------------------------------------------------------------------- *)
(* delayed_matches as a finite map *)
Lemma dm_get_extend k es dm j e :
  In e (dm_get j (dm_extend k es dm)) <-> In e (dm_get j dm) \/ (j = k /\ In e es).
Proof.
  unfold dm_get. induction dm as [|[k' l] dm IH]; simpl.
  - destruct (Nat.eqb_spec k j) as [->|Hne]; simpl.
    + split; [intros H; right; auto|intros [[]|[_ H]]; auto].
    + split; [intros []|intros [[]|[E _]]; congruence].
  - destruct (Nat.eqb_spec k k') as [->|Hne]; simpl.
    + destruct (Nat.eqb_spec k' j) as [->|Hne']; simpl.
      * rewrite in_app_iff. split; [intros [?|?]; auto|intros [?|[_ ?]]; auto].
      * split; auto. intros [?|[E _]]; auto. congruence.
    + destruct (Nat.eqb_spec k' j) as [->|Hne']; simpl.
      * split; auto. intros [?|[E _]]; auto. congruence.
      * apply IH.
Qed.

Lemma dm_get_remove k dm j : dm_get j (dm_remove k dm) = if Nat.eqb j k then [] else dm_get j dm.
Proof.
  unfold dm_get, dm_remove. induction dm as [|[k' l] dm IH]; simpl.
  - destruct (Nat.eqb j k); auto.
  - destruct (Nat.eqb_spec k' k) as [->|Hne]; simpl.
    + destruct (Nat.eqb_spec k j) as [->|Hne']; simpl.
      * rewrite IH, Nat.eqb_refl. auto.
      * rewrite IH. destruct (Nat.eqb_spec j k); auto; try congruence.
    + destruct (Nat.eqb_spec k' j) as [->|Hne']; simpl.
      * destruct (Nat.eqb_spec j k); auto; try congruence.
      * apply IH.
Qed.

Lemma dm_get_nil j : dm_get j [] = [].
Proof. reflexivity. Qed.

(* lifting a one-step description of dm_get to a fold *)
Lemma fold_get_spec {A} (f : dmap -> A -> dmap) (P : A -> nat -> dentry -> Prop) :
  (forall dm a j e, In e (dm_get j (f dm a)) <-> In e (dm_get j dm) \/ P a j e) ->
  forall l dm j e, In e (dm_get j (fold_left f l dm)) <-> In e (dm_get j dm) \/ exists a, In a l /\ P a j e.
Proof.
  intros Hf. induction l as [|a l IH]; intros dm j e; simpl.
  - split; auto. intros [?|(a & [] & _)]; auto.
  - rewrite IH, Hf. split.
    + intros [[?|?]|(a' & ? & ?)]; auto; right; eauto.
    + intros [?|(a' & [<- |?] & ?)]; auto. right; eauto.
Qed.

Section DynAlg.
  Variable G : grammar.
  Variable predictions : nat -> list rule.
  Variable start : nat.
  Variable n : nat.
  Variable rmatch : nat -> nat -> option nat.
  Variable rtrunc : nat -> nat -> nat -> option nat.
  Variable complete_lex : bool.
  Variable ignore : list nat.
  Hypothesis pred_sound : forall a r, In r (predictions a) -> In r G /\ lc_reach G a (lhs r).
  Hypothesis pred_direct : forall a r, In r G -> lhs r = a -> In r (predictions a).
  Hypothesis H_fwd : fwd rmatch rtrunc.

  Notation ends := (ends_of rmatch rtrunc complete_lex).
  Notation gchart := (gchart G start rmatch rtrunc complete_lex ignore).
  Notation ign_edge := (ign_edge rmatch ignore).
  Notation scan_item := (scan_item rmatch rtrunc complete_lex).
  Notation scan_ignore := (scan_ignore start rmatch).
  Notation dscan := (dscan start rmatch rtrunc complete_lex ignore).

  Lemma gchart_wf' k x : gchart k x -> In (irule x) G /\ dot x <= length (rhs (irule x)) /\ orig x <= k.
  Proof. apply gchart_wf; auto. Qed.

  Lemma gchart_init_lc : forall b, lc_reach G start b -> forall r, In r G -> lhs r = b -> gchart 0 (mkItem r 0 0).
  Proof.
    induction 1 as [|b r' c rest Hb IH Hr' Hl Hrhs]; intros r Hr Hlr.
    - constructor; auto.
    - eapply (g_pred _ _ _ _ _ _ 0 (mkItem r' 0 0) c); eauto.
      unfold expect; cbn [irule dot]. rewrite Hrhs. reflexivity.
  Qed.

  (* ---- what scan(i) puts into delayed_matches ---- *)
  (* emits Qi Ci i j e: scan(i) with to_scan = Qi and column = Ci adds entry e under key j *)
  Definition emits (Qi Ci : list item) (i j : nat) (e : dentry) : Prop :=
    (exists x t, In x Qi /\ expect x = Some (T t) /\ In j (ends t i) /\ e = (x, true)) \/
    (ign_edge i j /\ ((exists x, In x Qi /\ e = (x, false)) \/
                      (exists x, In x Ci /\ is_solution start x = true /\ e = (x, false)))).

  Lemma scan_item_spec i dm x j e :
    In e (dm_get j (scan_item i dm x)) <->
    In e (dm_get j dm) \/ (exists t, expect x = Some (T t) /\ In j (ends t i) /\ e = (x, true)).
  Proof.
    unfold Dyn.scan_item. destruct (expect x) as [[t|a]|] eqn:E.
    - rewrite (fold_get_spec (fun dm e0 => dm_extend e0 [(x, true)] dm) (fun e0 j e => j = e0 /\ e = (x, true))).
      + split; intros [?|H]; auto; right.
        * destruct H as (e0 & Hin & -> & ->). eauto.
        * destruct H as (t' & Et & Hin & ->). inversion Et; subst t'. eauto.
      + intros dm0 a j0 e0. rewrite dm_get_extend. simpl. split.
        * intros [?|[? [<- |[]]]]; auto.
        * intros [?|[? ->]]; auto.
    - split; auto. intros [?|(t & F & _)]; auto. discriminate.
    - split; auto. intros [?|(t & F & _)]; auto. discriminate.
  Qed.

  Lemma scan_ignore_spec i Qi Ci dm x j e :
    In e (dm_get j (scan_ignore i Qi Ci dm x)) <->
    In e (dm_get j dm) \/ (rmatch x i = Some j /\
        ((exists y, In y Qi /\ e = (y, false)) \/ (exists y, In y Ci /\ is_solution start y = true /\ e = (y, false)))).
  Proof.
    unfold Dyn.scan_ignore. destruct (rmatch x i) as [e0|] eqn:E.
    - rewrite !dm_get_extend, !in_map_iff. split.
      + intros [[?|[-> (y & <- & Hy)]]|[-> (y & <- & Hy)]]; auto; right; split; auto.
        * left; eauto.
        * apply filter_In in Hy. right. exists y. tauto.
      + intros [?|[Ej [(y & Hy & ->)|(y & Hy & Hs & ->)]]]; auto; inversion Ej; subst e0.
        * left; right; split; auto. exists y; auto.
        * right; split; auto. exists y; split; auto. apply filter_In; auto.
    - split; auto. intros [?|[F _]]; auto. discriminate.
  Qed.

  Lemma dscan_dm_spec i Qi Ci dm j e :
    In e (dm_get j (fold_left (scan_ignore i Qi Ci) ignore (fold_left (scan_item i) Qi dm))) <->
    In e (dm_get j dm) \/ emits Qi Ci i j e.
  Proof.
    rewrite (fold_get_spec _ _ (fun dm0 a j0 e0 => scan_ignore_spec i Qi Ci dm0 a j0 e0)).
    rewrite (fold_get_spec _ _ (fun dm0 a j0 e0 => scan_item_spec i dm0 a j0 e0)).
    unfold emits, Dyn_proofs.ign_edge. split.
    - intros [[?|(x & Hx & t & He & Hj & ->)]|(ig & Hig & Hm & H)]; auto.
      + right; left. exists x, t; auto.
      + right; right. split; eauto.
    - intros [?|[(x & t & Hx & He & Hj & ->)|((ig & Hig & Hm) & H)]]; auto.
      + left; right. exists x; split; auto. exists t; auto.
      + right. exists ig; auto.
  Qed.

  (* the entry as a chart item of its column *)
  Lemma emits_sound Qi Ci i j e :
    (forall x, In x Qi -> gchart i x) -> (forall x, In x Qi -> is_term_item x = true) ->
    (forall x, In x Ci -> gchart i x) ->
    emits Qi Ci i j e -> gchart j (realise e).
  Proof.
    intros SQ DQ SC [(x & t & Hx & He & Hj & ->)|(Hedge & [(x & Hx & ->)|(x & Hx & Hs & ->)])]; unfold realise; cbn [fst snd].
    - eapply g_scan; eauto.
    - pose proof (DQ x Hx) as Ht. unfold is_term_item in Ht.
      destruct (expect x) as [[t|a]|] eqn:E; try discriminate. eapply g_carry; eauto.
    - eapply g_carry_start; eauto.
  Qed.

  Lemma emits_fwd Qi Ci i j e : emits Qi Ci i j e -> i < j.
  Proof.
    intros [(x & t & _ & _ & Hj & _)|(He & _)].
    - eapply ends_fwd; eauto.
    - eapply ign_edge_fwd; eauto.
  Qed.

  (* ---- traces closed under the rules of gchart ---- *)
  Section GClosed.
    Variables (C Q : nat -> list item).
    Notation inT := (inT C Q).

    Record gclosed (N : nat) : Prop := mkGClosed {
      gcl_col_n : forall k x, k < N -> In x (C k) -> is_term_item x = false;
      gcl_scan_t : forall k x, k < N -> In x (Q k) -> is_term_item x = true;
      gcl_sound : forall k x, k < N -> inT k x -> gchart k x;
      gcl_init : forall r, 0 < N -> In r G -> lhs r = start -> inT 0 (mkItem r 0 0);
      gcl_pred : forall k x a r, k < N -> In x (C k) -> expect x = Some (NT a) -> In r G -> lhs r = a ->
                   inT k (mkItem r 0 k);
      gcl_comp : forall k x y, k < N -> In x (C k) -> expect x = None -> In y (C (orig x)) ->
                   expect y = Some (NT (lhs (irule x))) -> inT k (advance y);
      gcl_emit : forall k j e, k < N -> j < N -> emits (Q k) (C k) k j e -> inT j (realise e)
    }.

    Lemma ginT_C N k x : gclosed N -> k < N -> inT k x -> is_term_item x = false -> In x (C k).
    Proof. intros Cl Hk [H|H] Ht; auto. rewrite (gcl_scan_t _ Cl k x Hk H) in Ht. discriminate. Qed.
    Lemma ginT_Q N k x : gclosed N -> k < N -> inT k x -> is_term_item x = true -> In x (Q k).
    Proof. intros Cl Hk [H|H] Ht; auto. rewrite (gcl_col_n _ Cl k x Hk H) in Ht. discriminate. Qed.

    Theorem gclosed_complete N : gclosed N -> forall k x, gchart k x -> k < N -> inT k x.
    Proof.
      intros Cl. induction 1 as [r Hr Hl | k x a r Hc IH He Hr Hl | i k y x a Hy IHy Hey Hx IHx Hex Ho Hl
                   | k x t j Hc IH He Hj | k x t j Hc IH He Hj | k x j Hc IH Hs Hj]; intros Hk.
      - apply (gcl_init _ Cl); auto.
      - eapply (gcl_pred _ Cl k x); eauto. eapply ginT_C; eauto. eapply term_item_NT; eauto.
      - assert (Hik : i <= k) by (apply gchart_wf' in Hx; lia).
        assert (Hxc : In x (C k)) by (eapply ginT_C; eauto; eapply term_item_None; eauto).
        assert (Hyc : In y (C i)).
        { eapply (ginT_C N); eauto; [lia|apply IHy; lia|]. eapply term_item_NT; eauto. }
        apply (gcl_comp _ Cl k x y); auto.
        + rewrite Ho. exact Hyc.
        + rewrite Hl. exact Hey.
      - pose proof (ends_fwd _ _ _ H_fwd _ _ _ Hj) as Hlt.
        assert (Hq : In x (Q k)).
        { eapply (ginT_Q N); eauto; [lia|apply IH; lia|]. eapply term_item_T; eauto. }
        apply (gcl_emit _ Cl k j (x, true)); auto; [lia|]. left. exists x, t. auto.
      - pose proof (ign_edge_fwd _ _ _ H_fwd _ _ Hj) as Hlt.
        assert (Hq : In x (Q k)).
        { eapply (ginT_Q N); eauto; [lia|apply IH; lia|]. eapply term_item_T; eauto. }
        apply (gcl_emit _ Cl k j (x, false)); auto; [lia|]. right. split; auto. left. exists x; auto.
      - pose proof (ign_edge_fwd _ _ _ H_fwd _ _ Hj) as Hlt.
        assert (Hq : In x (C k)).
        { eapply (ginT_C N); eauto; [lia|apply IH; lia|]. apply is_solution_spec in Hs.
          eapply term_item_None; apply Hs. }
        apply (gcl_emit _ Cl k j (x, false)); auto; [lia|]. right. split; auto. right. exists x; auto.
    Qed.
  End GClosed.

  Lemma gclosed_extend N C Q C' Q' :
    gclosed C Q N ->
    (forall k, k < N -> C' k = C k /\ Q' k = Q k) ->
    (forall x, In x (C' N) -> is_term_item x = false) ->
    (forall x, In x (Q' N) -> is_term_item x = true) ->
    (forall x, inT C' Q' N x -> gchart N x) ->
    (N = 0 -> forall r, In r G -> lhs r = start -> inT C' Q' N (mkItem r 0 0)) ->
    (forall x a r, In x (C' N) -> expect x = Some (NT a) -> In r G -> lhs r = a -> inT C' Q' N (mkItem r 0 N)) ->
    (forall x y, In x (C' N) -> expect x = None -> In y (C' (orig x)) ->
                 expect y = Some (NT (lhs (irule x))) -> inT C' Q' N (advance y)) ->
    (forall k e, k < N -> emits (Q k) (C k) k N e -> inT C' Q' N (realise e)) ->
    gclosed C' Q' (S N).
  Proof.
    intros Cl Ag Dn Dt Sd Hi Hp Hc He.
    assert (AgT : forall k z, k < N -> inT C Q k z <-> inT C' Q' k z).
    { intros k z Hk. unfold inT. destruct (Ag k Hk) as [-> ->]. tauto. }
    assert (Cases : forall k, k < S N -> k < N \/ k = N) by (intros; lia).
    constructor.
    - intros k x Hk Hx. destruct (Cases k Hk) as [Hlt| ->]; auto.
      destruct (Ag k Hlt) as [E _]. rewrite E in Hx. apply (gcl_col_n _ _ _ Cl k x Hlt Hx).
    - intros k x Hk Hx. destruct (Cases k Hk) as [Hlt| ->]; auto.
      destruct (Ag k Hlt) as [_ E]. rewrite E in Hx. apply (gcl_scan_t _ _ _ Cl k x Hlt Hx).
    - intros k x Hk Hx. destruct (Cases k Hk) as [Hlt| ->]; auto.
      apply (gcl_sound _ _ _ Cl k x Hlt). apply AgT; auto.
    - intros r _ Hr Hl. destruct N as [|N']; [apply Hi; auto|].
      apply AgT; [lia|]. apply (gcl_init _ _ _ Cl); auto; lia.
    - intros k x a r Hk Hx Hex Hr Hl. destruct (Cases k Hk) as [Hlt| ->]; [|eapply Hp; eauto].
      apply AgT; auto. destruct (Ag k Hlt) as [E _]. rewrite E in Hx.
      eapply (gcl_pred _ _ _ Cl); eauto.
    - intros k x y Hk Hx Hex Hy Hey. destruct (Cases k Hk) as [Hlt| ->]; [|eapply Hc; eauto].
      destruct (Ag k Hlt) as [E _]. rewrite E in Hx.
      assert (Ho : orig x <= k).
      { assert (Hch : gchart k x) by (apply (gcl_sound _ _ _ Cl k x Hlt); left; auto).
        apply gchart_wf' in Hch. lia. }
      destruct (Ag (orig x)) as [E' _]; [lia|]. rewrite E' in Hy.
      apply AgT; auto. eapply (gcl_comp _ _ _ Cl); eauto.
    - intros k j e Hk Hj Hem. pose proof (emits_fwd _ _ _ _ _ Hem) as Hlt.
      assert (HkN : k < N) by lia. destruct (Ag k HkN) as [E1 E2]. rewrite E1, E2 in Hem.
      destruct (Cases j Hj) as [HjN| ->].
      + apply AgT; auto. apply (gcl_emit _ _ _ Cl k j e); auto.
      + apply He with (k := k); auto.
  Qed.

  (* ---- scan(i) ---- *)
  Lemma dscan_spec i Qi Ci dm nc nq dm' :
    dscan i Qi Ci dm = (nc, nq, dm') ->
    (forall j e, j <> S i -> (In e (dm_get j dm') <-> In e (dm_get j dm) \/ emits Qi Ci i j e)) /\
    (forall e, In e (dm_get (S i) dm) \/ emits Qi Ci i (S i) e -> In (realise e) nc \/ In (realise e) nq) /\
    (forall y, In y nc \/ In y nq ->
               exists e, (In e (dm_get (S i) dm) \/ emits Qi Ci i (S i) e) /\ y = realise e) /\
    (forall y, In y nc -> is_term_item y = false) /\ (forall y, In y nq -> is_term_item y = true) /\ NoDup nc.
  Proof.
    unfold Dyn.dscan. intros H.
    set (dm2 := fold_left (scan_ignore i Qi Ci) ignore (fold_left (scan_item i) Qi dm)) in *.
    destruct (fold_left (fun acc e => dplace acc (realise e)) (dm_get (S i) dm2) ([], [])) as [c q] eqn:E.
    cbn [fst snd] in H. inversion H; subst nc nq dm'. clear H.
    destruct (places_spec (fun acc e => dplace acc (realise e)) (fun e => Some (realise e))
                (fun acc e => eq_refl) _ _ _ _ _ E) as (_ & _ & A3 & A4 & A5 & A6).
    repeat split.
    - rewrite dm_get_remove. destruct (Nat.eqb_spec j (S i)); [contradiction|]. apply dscan_dm_spec.
    - rewrite dm_get_remove. destruct (Nat.eqb_spec j (S i)); [contradiction|]. apply dscan_dm_spec.
    - intros e He. apply (A3 e (realise e)); auto. apply dscan_dm_spec. exact He.
    - intros y [Hy|Hy].
      + destruct (A4 y Hy) as [[]|(_ & e & He & Hs)]. inversion Hs. exists e. split; auto. apply dscan_dm_spec; auto.
      + destruct (A5 y Hy) as [[]|(_ & e & He & Hs)]. inversion Hs. exists e. split; auto. apply dscan_dm_spec; auto.
    - intros y Hy. destruct (A4 y Hy) as [[]|(? & _)]. auto.
    - intros y Hy. destruct (A5 y Hy) as [[]|(? & _)]. auto.
    - apply A6. constructor.
  Qed.

  (* ---- the main loop ---- *)
  Notation dloop := (dloop G predictions start rmatch rtrunc complete_lex ignore).

  Record dinv (i : nat) (cols scans : list (list item)) (col scanq : list item) (dm : dmap) : Prop := mkDInv {
    di_lc : length cols = i;
    di_ls : length scans = i;
    di_closed : gclosed (colf cols) (colf scans) i;
    di_nodup : NoDup col;
    di_sound_c : forall x, In x col -> gchart i x;
    di_sound_q : forall x, In x scanq -> gchart i x;
    di_col_n : forall x, In x col -> is_term_item x = false;
    di_scan_t : forall x, In x scanq -> is_term_item x = true;
    di_init : i = 0 -> forall r, In r G -> lhs r = start -> In (mkItem r 0 0) col \/ In (mkItem r 0 0) scanq;
    (* everything the earlier scans emitted is either in the seeds of this column or still pending *)
    di_pend : forall k j e, k < i -> emits (colf scans k) (colf cols k) k j e ->
                (j = i -> In (realise e) col \/ In (realise e) scanq) /\ (i < j -> In e (dm_get j dm));
    di_pend_sound : forall j e, In e (dm_get j dm) -> gchart j (realise e)
  }.

  Lemma gcolumn_step i cols scans col scanq dm :
    dinv i cols scans col scanq dm ->
    exists st, predict_and_complete predictions (pc_fuel G i) i cols col scanq = Some st /\
               gclosed (colf (cols ++ [pc_col st])) (colf (scans ++ [pc_scan st])) (S i) /\
               (forall x, In x (pc_col st) -> gchart i x) /\ (forall x, In x (pc_scan st) -> gchart i x) /\
               (forall x, In x (pc_scan st) -> is_term_item x = true).
  Proof.
    intros I. pose proof (di_lc _ _ _ _ _ _ I) as Hlc. pose proof (di_ls _ _ _ _ _ _ I) as Hls.
    pose proof (di_closed _ _ _ _ _ _ I) as Cl.
    assert (cols_sound : forall j x, In x (nth j cols []) -> gchart j x).
    { intros j x Hx; destruct (Nat.lt_ge_cases j i) as [Hlt|Hge].
      - apply (gcl_sound _ _ _ Cl j x Hlt); left; exact Hx.
      - rewrite nth_overflow in Hx by lia; destruct Hx. }
    destruct (pc_spec G predictions pred_sound pred_direct gchart gchart_wf'
                (g_pred G start rmatch rtrunc complete_lex ignore)
                (g_comp G start rmatch rtrunc complete_lex ignore)
                i cols cols_sound col scanq (di_nodup _ _ _ _ _ _ I) (di_sound_c _ _ _ _ _ _ I)
                (di_sound_q _ _ _ _ _ _ I) (di_col_n _ _ _ _ _ _ I) (di_scan_t _ _ _ _ _ _ I)) as (st & Est & R).
    pose proof (colf_snoc_eq' cols (pc_col st) i Hlc) as Ec.
    pose proof (colf_snoc_eq' scans (pc_scan st) i Hls) as Eq.
    exists st. split; auto. split; [|split; [apply (pr_sound_c _ _ _ _ _ _ _ R)|split;
      [apply (pr_sound_q _ _ _ _ _ _ _ R)|apply (pr_scan_t _ _ _ _ _ _ _ R)]]].
    apply (gclosed_extend i (colf cols) (colf scans)); auto; unfold inT; try rewrite Ec; try rewrite Eq.
    - intros k Hk; split; apply colf_snoc_lt; lia.
    - apply (pr_col_n _ _ _ _ _ _ _ R).
    - apply (pr_scan_t _ _ _ _ _ _ _ R).
    - intros x [Hx|Hx]; [apply (pr_sound_c _ _ _ _ _ _ _ R)|apply (pr_sound_q _ _ _ _ _ _ _ R)]; auto.
    - intros Hi0 r Hr Hl; destruct (di_init _ _ _ _ _ _ I Hi0 r Hr Hl);
        [left; apply (pr_col0 _ _ _ _ _ _ _ R)|right; apply (pr_scan0 _ _ _ _ _ _ _ R)]; auto.
    - intros x a r Hx He Hr Hl; apply (pr_pred _ _ _ _ _ _ _ R x a r); auto.
    - intros x y Hx He Hy Hey.
      assert (Ho : orig x <= i) by (apply (pr_sound_c _ _ _ _ _ _ _ R), gchart_wf' in Hx; lia).
      destruct (Nat.eq_dec (orig x) i) as [Heq|Hne].
      + rewrite Heq, Ec in Hy. apply (pr_comp_here _ _ _ _ _ _ _ R x y); auto.
      + rewrite colf_snoc_lt in Hy by lia. apply (pr_comp_old _ _ _ _ _ _ _ R x y); auto.
    - intros k e Hk Hem. destruct (di_pend _ _ _ _ _ _ I k i e Hk Hem) as [H _].
      destruct (H eq_refl); [left; apply (pr_col0 _ _ _ _ _ _ _ R)|right; apply (pr_scan0 _ _ _ _ _ _ _ R)]; auto.
  Qed.

  (* what a finished run looks like *)
  Definition dout_ok (res : dresult) : Prop :=
    exists N, length (d_cols res) = N /\ length (d_scans res) = N /\
      gclosed (colf (d_cols res)) (colf (d_scans res)) N /\
      match d_out res with
      | DAccept => N = S n /\ existsb (is_solution start) (colf (d_cols res) n) = true
      | DRejectEOF => N = S n /\ existsb (is_solution start) (colf (d_cols res) n) = false
      | DRejectChar i => N = S i /\ i < n /\
          forall k j e, k <= i -> i < j -> ~ emits (colf (d_scans res) k) (colf (d_cols res) k) k j e
      | DOutOfFuel _ => False
      end.

  Lemma dloop_spec : forall rem i cols scans keys col scanq dm,
    i + rem = n -> dinv i cols scans col scanq dm ->
    dout_ok (dloop rem i cols scans keys col scanq dm).
  Proof.
    induction rem as [|rem IH]; intros i cols scans keys col scanq dm Hn I;
      destruct (gcolumn_step _ _ _ _ _ _ I) as (st & Est & Cl' & Sc' & Sq' & Dq');
      pose proof (di_lc _ _ _ _ _ _ I) as Hlc; pose proof (di_ls _ _ _ _ _ _ I) as Hls;
      pose proof (colf_snoc_eq' cols (pc_col st) i Hlc) as Ec;
      pose proof (colf_snoc_eq' scans (pc_scan st) i Hls) as Eq.
    - cbn [Dyn.dloop]. rewrite Est. assert (Hi : i = n) by lia.
      exists (S i). cbn [d_cols d_scans d_out]. rewrite !app_length, Hlc, Hls. cbn [length].
      split; [lia|split; [lia|split; [exact Cl'|]]].
      rewrite <- Hi, Ec. destruct (existsb (is_solution start) (pc_col st)) eqn:Ex; auto.
    - cbn [Dyn.dloop]. rewrite Est.
      destruct (dscan i (pc_scan st) (pc_col st) dm) as [[nc nq] dm'] eqn:Escan. cbn [fst snd].
      destruct (dscan_spec _ _ _ _ _ _ _ Escan) as (A1 & A2 & A3 & A4 & A5 & A6).
      (* everything emitted up to and including scan(i), in terms of the extended trace *)
      assert (Hem : forall k j e, k < S i ->
                emits (colf (scans ++ [pc_scan st]) k) (colf (cols ++ [pc_col st]) k) k j e ->
                (j = S i -> In (realise e) nc \/ In (realise e) nq) /\ (S i < j -> In e (dm_get j dm'))).
      { intros k j e Hk He. assert (Hc : k < i \/ k = i) by lia. destruct Hc as [Hlt| ->].
        - rewrite !colf_snoc_lt in He by lia.
          destruct (di_pend _ _ _ _ _ _ I k j e Hlt He) as [_ Hp]. pose proof (emits_fwd _ _ _ _ _ He) as Hf.
          split.
          + intros ->. apply A2. left. apply Hp. lia.
          + intros Hj. apply A1; [lia|]. left. apply Hp. lia.
        - rewrite Ec, Eq in He. split.
          + intros ->. apply A2. right; auto.
          + intros Hj. apply A1; [lia|]. right; auto. }
      assert (Rec : dout_ok (dloop rem (S i) (cols ++ [pc_col st]) (scans ++ [pc_scan st])
                              (keys ++ [map fst dm']) nc nq dm')).
      { apply IH; [lia|]. constructor; auto.
        - rewrite app_length. simpl. lia.
        - rewrite app_length. simpl. lia.
        - intros y Hy. destruct (A3 y (or_introl Hy)) as (e & [He|He] & ->).
          + apply (di_pend_sound _ _ _ _ _ _ I _ _ He).
          + apply (emits_sound (pc_scan st) (pc_col st) i (S i) e); auto.
        - intros y Hy. destruct (A3 y (or_intror Hy)) as (e & [He|He] & ->).
          + apply (di_pend_sound _ _ _ _ _ _ I _ _ He).
          + apply (emits_sound (pc_scan st) (pc_col st) i (S i) e); auto.
        - intros F; discriminate.
        - intros j e He. destruct (Nat.eq_dec j (S i)) as [->|Hne].
          + unfold Dyn.dscan in Escan. inversion Escan as [[E1 E2 E3]]. rewrite <- E3 in He.
            rewrite dm_get_remove, Nat.eqb_refl in He. destruct He.
          + apply (A1 j e Hne) in He. destruct He as [He|He].
            * apply (di_pend_sound _ _ _ _ _ _ I _ _ He).
            * apply (emits_sound (pc_scan st) (pc_col st) i j e); auto. }
      destruct nc as [|z nc']; [destruct dm' as [|p dm'']; [destruct nq as [|z nq']|]|]; auto.
      exists (S i). cbn [d_cols d_scans d_out]. rewrite !app_length, Hlc, Hls. cbn [length].
      split; [lia|split; [lia|split; [exact Cl'|]]]. split; auto. split; [lia|].
      intros k j e Hk Hj He. destruct (Hem k j e) as [H1 H2]; [lia|exact He|].
      destruct (Nat.eq_dec j (S i)) as [->|Hne].
      + destruct (H1 eq_refl) as [[]|[]].
      + assert (F : In e (dm_get j [])) by (apply H2; lia). destruct F.
  Qed.

  Notation dres := (dparse G predictions start n rmatch rtrunc complete_lex ignore).

  Theorem dparse_ok : dout_ok dres.
  Proof.
    unfold dparse. destruct (initial predictions start) as [c0 q0] eqn:E. cbn [fst snd].
    unfold initial in E.
    destruct (places_spec init_step (fun r => Some (mkItem r 0 0)) init_step_eq _ _ _ _ _ E)
      as (_ & _ & A3 & A4 & A5 & A6).
    assert (Hsrc : forall z, (exists r, In r (predictions start) /\ Some (mkItem r 0 0) = Some z) -> gchart 0 z).
    { intros z (r & Hr & Hz). inversion Hz; subst z. destruct (pred_sound _ _ Hr) as (Hg & Hreach).
      eapply gchart_init_lc; eauto. }
    apply dloop_spec; [lia|]. constructor; auto.
    - constructor; intros; lia.
    - apply A6. constructor.
    - intros z Hz. destruct (A4 z Hz) as [[]|(_ & Hex)]. auto.
    - intros z Hz. destruct (A5 z Hz) as [[]|(_ & Hex)]. auto.
    - intros z Hz. destruct (A4 z Hz) as [[]|(? & _)]. auto.
    - intros z Hz. destruct (A5 z Hz) as [[]|(? & _)]. auto.
    - intros _ r Hr Hl. apply (A3 r); auto.
    - intros k j e F. lia.
    - intros j e F. destruct F.
  Qed.

  (* ---- the theorems about one run ---- *)
  Theorem dyn_alg_sound k x : In x (colf (d_cols dres) k) \/ In x (colf (d_scans dres) k) -> gchart k x.
  Proof.
    destruct dparse_ok as (N & L1 & L2 & Cl & _). intros H.
    destruct (Nat.lt_ge_cases k N) as [Hlt|Hge].
    - apply (gcl_sound _ _ _ Cl k x Hlt). exact H.
    - rewrite !colf_overflow in H by lia. destruct H as [[]|[]].
  Qed.

  Theorem dyn_alg_complete k x : gchart k x -> k < length (d_cols dres) ->
    In x (colf (d_cols dres) k) \/ In x (colf (d_scans dres) k).
  Proof.
    destruct dparse_ok as (N & L1 & L2 & Cl & _). intros H Hk.
    apply (gclosed_complete _ _ N Cl k x H). lia.
  Qed.

  Theorem dyn_fuel_suffices i : d_out dres <> DOutOfFuel i.
  Proof. destruct dparse_ok as (N & _ & _ & _ & H). intros E. rewrite E in H. exact H. Qed.

  (* after an UnexpectedCharacters at i nothing of the chart lies beyond i *)
  Lemma gclosed_pad C Q i :
    gclosed C Q (S i) -> (forall k, i < k -> C k = [] /\ Q k = []) ->
    (forall k j e, k <= i -> i < j -> ~ emits (Q k) (C k) k j e) ->
    forall N, S i <= N -> gclosed C Q N.
  Proof.
    intros Cl Hempty Hno. induction N as [|N IHN]; intros HN; [lia|].
    destruct (Nat.eq_dec N i) as [->|Hne]; auto.
    assert (HN' : S i <= N) by lia. specialize (IHN HN').
    destruct (Hempty N) as [EC EQ]; [lia|].
    apply (gclosed_extend N C Q C Q); auto; unfold inT; try rewrite EC; try rewrite EQ.
    - intros x [].
    - intros x [].
    - intros x [[]|[]].
    - intros F; lia.
    - intros x a r [].
    - intros x y [].
    - intros k e Hk Hem. exfalso. destruct (Nat.le_gt_cases k i) as [Hle|Hgt].
      + apply (Hno k N e); auto; lia.
      + destruct (Hempty k Hgt) as [EC' EQ']. rewrite EC', EQ' in Hem.
        destruct Hem as [(x & t & [] & _)|(_ & [(x & [] & _)|(x & [] & _)])].
  Qed.

  Theorem daccepts_iff_gaccepts :
    daccepts G predictions start n rmatch rtrunc complete_lex ignore = true <->
    gaccepts G start n rmatch rtrunc complete_lex ignore.
  Proof.
    unfold daccepts. destruct dparse_ok as (N & L1 & L2 & Cl & Hout). split.
    - destruct (d_out dres); try discriminate. intros _. destruct Hout as (HN & Hex).
      apply existsb_exists in Hex. destruct Hex as (x & Hx & Hsol).
      exists x. split; auto. apply (gcl_sound _ _ _ Cl); [lia|left; auto].
    - intros (x & Hc & Hs).
      assert (Hnt : is_term_item x = false).
      { apply is_solution_spec in Hs. eapply term_item_None. apply Hs. }
      destruct (d_out dres) as [| |i|i] eqn:Eo; auto; exfalso.
      + destruct Hout as (HN & Hex).
        assert (Hin : In x (colf (d_cols dres) n)).
        { apply (ginT_C (colf (d_cols dres)) (colf (d_scans dres)) N); auto; [lia|].
          apply (gclosed_complete _ _ N Cl); auto; lia. }
        assert (Ht : existsb (is_solution start) (colf (d_cols dres) n) = true).
        { apply existsb_exists. eauto. }
        congruence.
      + destruct Hout as (HN & Hi & Hno). rewrite HN in *.
        assert (Cl2 : gclosed (colf (d_cols dres)) (colf (d_scans dres)) (S n)).
        { apply (gclosed_pad _ _ i Cl); [|exact Hno|lia].
          intros k Hk. split; apply colf_overflow; lia. }
        destruct (gclosed_complete _ _ (S n) Cl2 n x Hc) as [F|F]; [lia| |];
          rewrite colf_overflow in F by lia; destruct F.
  Qed.
End DynAlg.

(* ---------------------------------------------------------------------------------------- *)
(* lark's configuration: the prediction table of Earley/Alg.v *)
Section DynTop.
  Variable G : grammar.
  Variable start n : nat.
  Variable rmatch : nat -> nat -> option nat.
  Variable rtrunc : nat -> nat -> nat -> option nat.
  Variable complete_lex : bool.
  Variable ignore : list nat.
  Hypothesis H_fwd : fwd rmatch rtrunc.

  Let ps : forall a r, In r (pred_lookup G (pred_table G) a) -> In r G /\ lc_reach G a (lhs r).
  Proof. intros a r. rewrite pred_lookup_eq. apply predictions_spec. Qed.
  Let pd : forall a r, In r G -> lhs r = a -> In r (pred_lookup G (pred_table G) a).
  Proof. intros a r. rewrite pred_lookup_eq. apply predictions_direct. Qed.

  Notation res := (dyn_parse G start n rmatch rtrunc complete_lex ignore).

  Theorem dyn_trace_is_gchart k x :
    k < length (d_cols res) ->
    (In x (colf (d_cols res) k) \/ In x (colf (d_scans res) k)
     <-> gchart G start rmatch rtrunc complete_lex ignore k x).
  Proof.
    intros Hk. split.
    - apply (dyn_alg_sound G _ start n rmatch rtrunc complete_lex ignore ps pd H_fwd).
    - intros H. apply (dyn_alg_complete G _ start n rmatch rtrunc complete_lex ignore ps pd H_fwd); auto.
  Qed.

  Theorem dyn_never_out_of_fuel i : d_out res <> DOutOfFuel i.
  Proof. apply (dyn_fuel_suffices G _ start n rmatch rtrunc complete_lex ignore ps pd H_fwd). Qed.

  Theorem dyn_accepts_iff_gsentence :
    dyn_accepts G start n rmatch rtrunc complete_lex ignore = true <->
    gsentence G start n rmatch rtrunc complete_lex ignore.
  Proof.
    unfold dyn_accepts.
    rewrite (daccepts_iff_gaccepts G _ start n rmatch rtrunc complete_lex ignore ps pd H_fwd).
    split; [apply gsound; auto|apply gcomplete].
  Qed.
End DynTop.

(* ---------------------------------------------------------------------------------------- *)
(* Terminals that are fixed strings: the engine's match at i is "the string is a prefix of the text here", so the
   position-graph language is the character-level language of the grammar with ignored strings allowed before
   every terminal and at the end of the text. *)
Lemma app_eq_len {A} (a b c d : list A) : length a = length c -> a ++ b = c ++ d -> a = c /\ b = d.
Proof.
  revert c. induction a as [|x a IH]; intros [|y c] L E; simpl in *; try discriminate; auto.
  inversion E; subst. destruct (IH c) as [-> ->]; auto.
Qed.

Section DynString.
  Variable G : grammar.
  Variable start : nat.
  Variable text : list nat.                       (* the characters *)
  Variable tstr : nat -> list nat.                (* the string of each terminal (rule terminals and ignored ones) *)
  Variable rmatch : nat -> nat -> option nat.
  Variable rtrunc : nat -> nat -> nat -> option nat.
  Variable complete_lex : bool.
  Variable ignore : list nat.

  Notation seg := (span nat text).
  Notation n := (length text).

  (* the regex engine on a string terminal: it matches exactly when the (non-empty) string starts here, and a
     proper truncation of the string never matches *)
  Hypothesis H_nonempty : forall t, tstr t <> [].
  Hypothesis H_match : forall t i j, rmatch t i = Some j <-> seg i j (tstr t).
  Hypothesis H_trunc : forall t i lim j, rtrunc t i lim = Some j -> i + length (tstr t) <= lim /\ seg i j (tstr t).

  Inductive igns : list nat -> Prop :=
  | ig_nil : igns []
  | ig_cons x u : In x ignore -> igns u -> igns (tstr x ++ u).

  Inductive cderives : list symbol -> list nat -> Prop :=
  | cd_nil : cderives [] []
  | cd_term t ss g u : igns g -> cderives ss u -> cderives (T t :: ss) (g ++ tstr t ++ u)
  | cd_nt a r ss u v : In r G -> lhs r = a -> cderives (rhs r) u -> cderives ss v -> cderives (NT a :: ss) (u ++ v).

  Definition csentence : Prop := exists u g, text = u ++ g /\ cderives [NT start] u /\ igns g.

  Lemma seg_len i j u : seg i j u -> j = i + length u /\ j <= n.
  Proof. intros (p & s & E & L1 & L2). split; [lia|]. rewrite E, !app_length. lia. Qed.

  Lemma seg_split i k u v : seg i k (u ++ v) -> seg i (i + length u) u /\ seg (i + length u) k v.
  Proof.
    intros (p & s & E & L1 & L2). rewrite app_length in L2. split.
    - exists p, (v ++ s). rewrite <- app_assoc in E. repeat split; auto.
    - exists (p ++ u), s. rewrite app_length. repeat split; try lia.
      rewrite E, <- !app_assoc. reflexivity.
  Qed.

  Lemma seg_nil_inv i k : seg i k [] -> k = i.
  Proof. intros H. apply seg_len in H. simpl in H. lia. Qed.

  Lemma seg_pos t i j : seg i j (tstr t) -> i < j.
  Proof.
    intros H. apply seg_len in H. pose proof (H_nonempty t). destruct (tstr t); [congruence|]. simpl in H. lia.
  Qed.

  Lemma fwd_string : fwd rmatch rtrunc.
  Proof.
    split.
    - intros t i j H. apply H_match in H. eapply seg_pos; eauto.
    - intros t i lim j H. apply H_trunc in H. eapply seg_pos; apply H.
  Qed.

  Notation ends := (ends_of rmatch rtrunc complete_lex).
  Notation gderives := (gderives G rmatch rtrunc complete_lex ignore).
  Notation ign_path := (ign_path rmatch ignore).

  Lemma ends_string t i j : In j (ends t i) <-> seg i j (tstr t).
  Proof.
    rewrite ends_spec. split.
    - intros (e & E & [-> |(_ & k & Hk & Ht)]); [apply H_match; auto|].
      apply H_trunc in Ht. apply H_match, seg_len in E. lia.
    - intros H. exists j. split; [apply H_match; auto|left; auto].
  Qed.

  Lemma ign_path_igns i j : ign_path i j -> exists g, igns g /\ (i <= n -> seg i j g).
  Proof.
    induction 1 as [i|i j k (x & Hx & Hm) Hp (g & Hg & Hs)].
    - exists []. split; [constructor|]. intros. apply span_nil; auto.
    - apply H_match in Hm. exists (tstr x ++ g). split; [constructor; auto|].
      intros _. eapply span_app; eauto. apply Hs. apply seg_len in Hm. lia.
  Qed.

  Lemma igns_ign_path g : igns g -> forall i j, seg i j g -> ign_path i j.
  Proof.
    induction 1 as [|x u Hx Hu IH]; intros i j Hs.
    - apply seg_nil_inv in Hs. subst. constructor.
    - apply seg_split in Hs. destruct Hs as [S1 S2].
      econstructor; [|apply IH; eauto]. exists x. split; auto. apply H_match; auto.
  Qed.

  Lemma gderives_cderives ss i k : gderives ss i k -> i <= n -> exists u, cderives ss u /\ seg i k u.
  Proof.
    induction 1 as [i | t ss i i1 j k Hp He Hd IH | a r ss i j k Hr Hl Hd1 IH1 Hd2 IH2]; intros Hi.
    - exists []. split; [constructor|apply span_nil; auto].
    - destruct (ign_path_igns _ _ Hp) as (g & Hg & Sg). specialize (Sg Hi).
      apply ends_string in He. destruct IH as (u & Hu & Su); [apply seg_len in He; lia|].
      exists (g ++ tstr t ++ u). split; [constructor; auto|].
      eapply span_app; eauto. eapply span_app; eauto.
    - destruct (IH1 Hi) as (u & Hu & Su). destruct IH2 as (v & Hv & Sv); [apply seg_len in Su; lia|].
      exists (u ++ v). split; [econstructor; eauto|eapply span_app; eauto].
  Qed.

  Lemma cderives_gderives ss u : cderives ss u -> forall i k, seg i k u -> gderives ss i k.
  Proof.
    induction 1 as [| t ss g u Hg Hu IH | a r ss u v Hr Hl Hu IHu Hv IHv]; intros i k Hs.
    - apply seg_nil_inv in Hs. subst. constructor.
    - apply seg_split in Hs. destruct Hs as [S1 S2]. apply seg_split in S2. destruct S2 as [S2 S3].
      apply (gd_term _ _ _ _ _ t ss i (i + length g) (i + length g + length (tstr t)) k).
      + eapply igns_ign_path; eauto.
      + apply ends_string; auto.
      + apply IH; auto.
    - apply seg_split in Hs. destruct Hs as [S1 S2]. econstructor; eauto.
  Qed.

  Theorem gsentence_iff_csentence :
    gsentence G start n rmatch rtrunc complete_lex ignore <-> csentence.
  Proof.
    split.
    - intros (j & D & P). destruct (gderives_cderives _ _ _ D (Nat.le_0_l _)) as (u & Hu & Su).
      destruct (ign_path_igns _ _ P) as (g & Hg & Sg).
      assert (Hj : j <= n) by (apply seg_len in Su; lia). specialize (Sg Hj).
      exists u, g. repeat split; auto.
      destruct Su as (p & s & E & L1 & L2). destruct p; [|discriminate]. simpl in E.
      destruct Sg as (p' & s' & E' & L1' & L2').
      assert (Hs' : s' = []).
      { apply (f_equal (@length nat)) in E'. rewrite !app_length in E'. destruct s'; auto. simpl in E'. lia. }
      subst s'. rewrite app_nil_r in E'. rewrite E in E'. simpl in L2.
      destruct (app_eq_len u s p' g (eq_trans L2 (eq_sym L1')) E') as [E1 E2]. rewrite <- E2. exact E.
    - intros (u & g & E & Hu & Hg). exists (length u). split.
      + apply (cderives_gderives _ _ Hu). exists [], g. simpl. repeat split; auto.
      + apply (igns_ign_path _ Hg). exists u, []. rewrite app_nil_r. repeat split; auto.
        rewrite E, app_length. reflexivity.
  Qed.

  (* the model of the dynamic lexers accepts exactly the character-level language *)
  Theorem dyn_accepts_iff_csentence :
    dyn_accepts G start n rmatch rtrunc complete_lex ignore = true <-> csentence.
  Proof.
    rewrite (dyn_accepts_iff_gsentence G start n rmatch rtrunc complete_lex ignore fwd_string).
    apply gsentence_iff_csentence.
  Qed.
End DynString.
