(* The Earley models re-expressed with the decision conditions REGENERATED from the source
   (coq/Gen/EarleySteps.v, written by translator/gen_earley.py from lark/parsers/earley.py, xearley.py,
   grammar_analysis.py and utils.bfs; the control skeleton around the conditions is pinned by the translator's templates).
   Every g_* function below has the shape of the corresponding hand-written function of Earley/Alg.v, Earley/Dyn.v,
   Cfg/Analysis.v, but takes each decision by the generated condition applied to the model's reading of its atoms
   (item.is_complete = the dot is at the end, `x in column` = mem, ...).  Earley/Steps_proofs.v proves that the
   hand models are equal to these functions: an edit of a condition in the source that changes its meaning changes
   Gen/EarleySteps.v and breaks one of those proofs; an edit the translator cannot read breaks the regeneration.
   Definitions only. *)
From Coq Require Import List Arith Bool.
From LV Require Import Cfg.Grammar Cfg.Analysis Earley.Spec Earley.Alg Earley.Dyn Gen.EarleySteps.
Import ListNotations.

(* the model's reading of the atoms *)
Definition is_complete (x : item) : bool := match expect x with None => true | Some _ => false end.
Definition expect_in_terminals (x : item) : bool := match expect x with Some (T _) => true | _ => false end.
Definition expect_in_nonterminals (x : item) : bool := match expect x with Some (NT _) => true | _ => false end.
Definition expected_nt (x : item) : nat := match expect x with Some (NT a) => a | _ => 0 end.
Definition nonempty {A : Type} (l : list A) : bool := match l with [] => false | _ :: _ => true end.

(* ------------------------------------------------------------------ earley.Parser.predict_and_complete *)
Definition g_add_new (st : pc_state) (x : item) : pc_state :=
  if src_pc_toscan (expect_in_terminals x)
  then mkPC (pc_col st) (pc_work st) (set_add x (pc_scan st)) (pc_held st)
  else if src_pc_newcol (mem x (pc_col st))
       then mkPC (pc_col st ++ [x]) (x :: pc_work st) (pc_scan st) (pc_held st)
       else st.

Section GAlg.
  Variable G : grammar.
  Variable predictions : nat -> list rule.
  Variable tok : Type.
  Variable tmatch : nat -> tok -> bool.
  Variable start : nat.

  (* `transitives` is a list of empty dicts (the translator checks that nothing is ever stored into one), so the
     Leo test `item.rule.origin in transitives[item.start]` reads false *)
  Definition g_pc_step (i : nat) (cols : list (list item)) (x : item) (st : pc_state) : pc_state :=
    if src_pc_completer (is_complete x) then
      if src_pc_leo false then st
      else
        let a := lhs (irule x) in
        let is_empty_item := src_pc_is_empty (orig x) i in
        let st1 := if is_empty_item
                   then mkPC (pc_col st) (pc_work st) (pc_scan st) (nat_add a (pc_held st)) else st in
        let src := if Nat.eqb (orig x) i then pc_col st else nth (orig x) cols [] in
        let originators := filter (fun o => src_pc_originator (is_complete o) (expects_nt a o)) src in
        fold_left g_add_new (map advance originators) st1
    else if src_pc_predictor (expect_in_nonterminals x) then
      let a := expected_nt x in
      let new_items := map (fun r => mkItem r 0 i) (predictions a)
                       ++ (if src_pc_held (nat_mem a (pc_held st)) then [advance x] else []) in
      fold_left g_add_new new_items st
    else st.

  Fixpoint g_pc_loop (fuel : nat) (i : nat) (cols : list (list item)) (st : pc_state) : option pc_state :=
    match pc_work st with
    | [] => Some st
    | x :: work' =>
        match fuel with
        | 0 => None
        | S f => g_pc_loop f i cols (g_pc_step i cols x (mkPC (pc_col st) work' (pc_scan st) (pc_held st)))
        end
    end.

  Definition g_predict_and_complete (fuel i : nat) (cols : list (list item)) (col scanq : list item) :=
    g_pc_loop fuel i cols (mkPC col (rev col) scanq []).

  (* ---------------------------------------------------------------- earley.Parser._parse: scan *)
  Definition g_scan_step (tk : tok) (acc : list item * list item) (x : item) : list item * list item :=
    if src_scan_match (match expect x with Some (T t) => tmatch t tk | _ => false end) then
      let y := advance x in
      if src_scan_toscan (expect_in_terminals y) then (fst acc, set_add y (snd acc)) else (set_add y (fst acc), snd acc)
    else acc.
  Definition g_scan (tk : tok) (scanq : list item) : list item * list item :=
    fold_left (g_scan_step tk) scanq ([], []).

  (* ---------------------------------------------------------------- earley.Parser.parse *)
  (* n.node is not None: every complete item of a column has been popped by the completer, whose first statement
     (pinned verbatim by the translator) gives it a node *)
  Definition g_is_solution (x : item) : bool :=
    src_solution_test (is_complete x) true (Nat.eqb (lhs (irule x)) start) (orig x).

  Fixpoint g_parse_loop (toks : list tok) (i : nat) (cols scans : list (list item)) (col scanq : list item) : result :=
    match g_predict_and_complete (pc_fuel G i) i cols col scanq with
    | None => mkRes (OutOfFuel i) cols scans
    | Some st =>
        let cols' := cols ++ [pc_col st] in
        let scans' := scans ++ [pc_scan st] in
        match toks with
        | [] => mkRes (if src_eof_test (existsb g_is_solution (pc_col st)) then RejectEOF else Accept) cols' scans'
        | tk :: rest =>
            let ns := g_scan tk (pc_scan st) in
            if src_scan_fail (nonempty (fst ns)) (nonempty (snd ns)) then mkRes (RejectTok i) cols' scans'
            else g_parse_loop rest (S i) cols' scans' (fst ns) (snd ns)
        end
    end.

  Definition g_init_step (acc : list item * list item) (r : rule) : list item * list item :=
    let x := mkItem r 0 0 in
    if src_init_toscan (expect_in_terminals x) then (fst acc, set_add x (snd acc)) else (set_add x (fst acc), snd acc).
  Definition g_initial : list item * list item := fold_left g_init_step (predictions start) ([], []).

  Definition g_parse (toks : list tok) : result :=
    g_parse_loop toks 0 [] [] (fst g_initial) (snd g_initial).
End GAlg.

(* ------------------------------------------------------------------ xearley.Parser._parse *)
Definition is_some {A : Type} (o : option A) : bool := match o with Some _ => true | None => false end.
(* m.end() (only read under `if m:`) *)
Definition m_end (o : option nat) : nat := match o with Some e => e | None => 0 end.

Section GDyn.
  Variable G : grammar.
  Variable predictions : nat -> list rule.
  Variable start : nat.
  Variable n : nat.
  Variable rmatch : nat -> nat -> option nat.          (* m.end() of match(t, stream, i) *)
  Variable rtrunc_rel : nat -> nat -> nat -> option nat.   (* m.end() of match(t, stream[i:lim]): relative to i *)
  Variable complete_lex : bool.
  Variable ignore : list nat.

  Definition g_ends_of (t i : nat) : list nat :=
    let m := rmatch t i in
    if src_x_matched (is_some m) then
      let e := m_end m in
      src_x_end1 i e ::
      (if src_x_complete_lex complete_lex
       then flat_map (fun j => let m2 := rtrunc_rel t i (e - src_x_trunc_drop j) in
                               if src_x_matched (is_some m2) then [src_x_end2 i (m_end m2)] else [])
                     (seq (src_x_j_lo (e - i)) (src_x_j_hi (e - i) - src_x_j_lo (e - i)))
       else [])
    else [].

  Definition g_scan_item (i : nat) (dm : dmap) (x : item) : dmap :=
    match expect x with
    | Some (T t) => fold_left (fun dm e => dm_extend e [(x, true)] dm) (g_ends_of t i) dm
    | _ => dm
    end.

  Definition g_scan_ignore (i : nat) (to_scan col : list item) (dm : dmap) (x : nat) : dmap :=
    let m := rmatch x i in
    if src_x_matched (is_some m) then
      dm_extend (src_x_end1 i (m_end m))
        (map (fun it => (it, false))
             (filter (fun it => src_x_carry_start (is_complete it) (Nat.eqb (lhs (irule it)) start) (orig it)) col))
        (dm_extend (src_x_end1 i (m_end m)) (map (fun it => (it, false)) to_scan) dm)
    else dm.

  (* an entry (item, start, token): `token is None` for carried items *)
  Definition g_realise (e : dentry) : item := if src_x_is_token (negb (snd e)) then advance (fst e) else fst e.
  Definition g_dplace (acc : list item * list item) (y : item) : list item * list item :=
    if src_x_toscan (expect_in_terminals y) then (fst acc, set_add y (snd acc)) else (set_add y (fst acc), snd acc).

  Definition g_dscan (i : nat) (to_scan col : list item) (dm : dmap) : list item * list item * dmap :=
    let dm1 := fold_left (g_scan_item i) to_scan dm in
    let dm2 := fold_left (g_scan_ignore i to_scan col) ignore dm1 in
    let ns := fold_left (fun acc e => g_dplace acc (g_realise e)) (dm_get (src_x_due i) dm2) ([], []) in
    (fst ns, snd ns, dm_remove (src_x_due i) dm2).

  Fixpoint g_dloop (rem i : nat) (cols scans : list (list item)) (keys : list (list nat))
           (col scanq : list item) (dm : dmap) : dresult :=
    match g_predict_and_complete predictions (pc_fuel G i) i cols col scanq with
    | None => mkDRes (DOutOfFuel i) cols scans keys
    | Some st =>
        let cols' := cols ++ [pc_col st] in
        let scans' := scans ++ [pc_scan st] in
        match rem with
        | 0 => mkDRes (if src_eof_test (existsb (g_is_solution start) (pc_col st)) then DRejectEOF else DAccept)
                      cols' scans' keys
        | S rem' =>
            let r := g_dscan i (pc_scan st) (pc_col st) dm in
            let nc := fst (fst r) in
            let nq := snd (fst r) in
            let dm' := snd r in
            if src_x_fail (nonempty nc) (nonempty dm') (nonempty nq) then mkDRes (DRejectChar (src_x_uc_pos i)) cols' scans' keys
            else g_dloop rem' (S i) cols' scans' (keys ++ [map fst dm']) nc nq dm'
        end
    end.

  Definition g_dparse : dresult :=
    let init := g_initial predictions start in
    g_dloop n 0 [] [] [] (fst init) (snd init) [].
End GDyn.

(* ------------------------------------------------------------------ grammar_analysis: update_set, NULLABLE *)
Definition nat_subset (a b : list nat) : bool := forallb (fun x => nat_mem x b) a.

(* update_set(set1, set2) on duplicate-free lists: the new set1 and the returned flag *)
Definition g_update_set (s1 s2 : list nat) : list nat * bool :=
  if src_us_early (nonempty s2) (nat_subset s2 s1 && negb (nat_subset s1 s2)) then (s1, false)
  else let s1' := fold_left (fun s a => nat_add a s) s2 s1 in
       (s1', src_us_result (negb (nat_subset s1' s1 && nat_subset s1 s1'))).

(* the NULLABLE part of the body of `for rule in rules` (the FIRST part also sets `changed`, which can only add
   sweeps after NULLABLE has stopped growing) *)
Definition g_null_rule (st : list nat * bool) (r : rule) : list nat * bool :=
  if src_cs_null (forallb (sym_nullable (fst st)) (rhs r)) then
    let u := g_update_set (fst st) [lhs r] in
    (fst u, if snd u then true else snd st)
  else st.

(* while changed: changed = False; for rule in rules: ... *)
Fixpoint g_nullable_iter (G : grammar) (fuel : nat) (N : list nat) : list nat :=
  match fuel with
  | 0 => N
  | S f => let st := fold_left g_null_rule G (N, false) in
           if snd st then g_nullable_iter G f (fst st) else fst st
  end.

Definition g_nullable_set (G : grammar) : list nat := g_nullable_iter G (S (length G)) [].

(* ------------------------------------------------------------------ expand_rule / utils.bfs *)
Definition g_first_nt (r : rule) : list nat :=
  if src_er_nonempty (nonempty (rhs r)) then
    match rhs r with
    | s :: _ => if src_er_follow (match s with T _ => true | NT _ => false end)
                then (match s with NT b => [b] | T _ => [] end) else []
    | [] => []
    end
  else [].

Definition g_bfs_visit (ov : list nat * list nat) (b : nat) : list nat * list nat :=
  if src_bfs_new (if in_dec Nat.eq_dec b (snd ov) then true else false) then (fst ov ++ [b], snd ov ++ [b]) else ov.

Fixpoint g_bfs (G : grammar) (fuel : nat) (open visited : list nat) (acc : list rule) : option (list rule) :=
  match open with
  | [] => Some acc
  | a :: open' =>
      match fuel with
      | 0 => None
      | S f =>
          let rs := rules_by_origin G a in
          let ov := fold_left g_bfs_visit (flat_map g_first_nt rs) (open', visited) in
          g_bfs G f (fst ov) (snd ov) (fold_left rule_add rs acc)
      end
  end.

Definition g_expand_rule (G : grammar) (a : nat) : option (list rule) :=
  g_bfs G (bfs_fuel G) [a] [a] [].
