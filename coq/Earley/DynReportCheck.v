(* Comparison functions used by the generated correspondence cases of C08 for the dynamic lexers (no proofs):
   the report of Earley/DynReport.dyn_report on the recorded regex answers vs the attributes of the exception lark raised. *)
From Coq Require Import List Arith Bool NArith ZArith.
From LV Require Import Cfg.Grammar Cfg.Analysis Earley.Spec Earley.Alg Earley.AlgCheck Earley.Dyn Earley.DynCheck
  Earley.DynReport.
Import ListNotations.

Definition nat_set_eqb (a b : list nat) : bool :=
  forallb (fun x => existsb (Nat.eqb x) b) a && forallb (fun x => existsb (Nat.eqb x) a) b.

(* item.s = (rule, ptr) packed as rule index * 64 + ptr *)
Definition state_code (G : grammar) (s : rule * nat) : N := (N.of_nat (index_of G (fst s)) * 64 + N.of_nat (snd s))%N.

(* what lark did: kind (0 UnexpectedCharacters, 1 UnexpectedEOF, 2 no error), pos_in_stream, line, column,
   allowed / expected (terminal ids), considered_tokens = considered_rules (item codes), state (state codes) *)
Definition robs := (nat * nat * Z * Z * list nat * list N * list N)%type.
(* one run: the text (character codes), complete_lex, the two oracle tables, the observation *)
Definition rrun := (list nat * bool * list N * list N * robs)%type.

Definition rrun_check (G : grammar) (start : nat) (ignore : list nat) (c : rrun) : bool :=
  let '(text, cl, mtab, ttab, obs) := c in
  let '(kind, pos, line, col, allowed, considered, state) := obs in
  let r := dyn_parse G start (length text) (tbl_match mtab) (tbl_trunc ttab) cl ignore in
  match dyn_report text r with
  | Some (RepChars p l c a q s) =>
      Nat.eqb kind 0 && Nat.eqb p pos && Z.eqb l line && Z.eqb c col && nat_set_eqb a allowed
      && set_eqb (map (item_code G) q) considered && set_eqb (map (state_code G) s) state
  | Some (RepEOF a s) =>
      Nat.eqb kind 1 && nat_set_eqb a allowed && set_eqb (map (state_code G) s) state
  | None => Nat.eqb kind 2
  end.

Definition rcase := (list (nat * list symbol) * nat * list nat * list rrun)%type.

Definition report_check (c : rcase) : bool :=
  let '(rules, start, ignore, runs) := c in
  let G := mk_grammar rules in
  forallb (rrun_check G start ignore) runs.

(* for diagnostics: the model's report in the observation's encoding *)
Definition report_of (c : rcase) : list (option robs) :=
  let '(rules, start, ignore, runs) := c in
  let G := mk_grammar rules in
  map (fun c : rrun =>
         let '(text, cl, mtab, ttab, _) := c in
         let r := dyn_parse G start (length text) (tbl_match mtab) (tbl_trunc ttab) cl ignore in
         match dyn_report text r with
         | Some (RepChars p l c a q s) => Some (0, p, l, c, a, map (item_code G) q, map (state_code G) s)
         | Some (RepEOF a s) => Some (1, 0, 0%Z, 0%Z, a, [], map (state_code G) s)
         | None => None
         end) runs.
