(* Executable mirror of lark/parsers/xearley.py (the dynamic Earley lexers) as a recogniser:
     Parser._parse main loop  -> dloop / dparse
     scan(i, to_scan)         -> dscan  (scan_item: terminal matches and complete_lex; scan_ignore: %ignore
                                 carry-over of the scan buffer and of a completed start item with origin 0;
                                 delayed_matches[i+1] -> next column / next to_scan; the UnexpectedCharacters test)
     predict_and_complete     -> reused from Earley/Alg.v (xearley inherits it)
   The input is a text of n characters; the regex engine is an oracle:
     rmatch t i       = Some e  iff  match(t, stream, i) succeeds and m.end() = e
     rtrunc t i lim   = Some e  iff  match(t, stream[i:lim]) succeeds and i + m.end() = e   (complete_lex re-matches
                                     every truncation s[:-j] of the first match)
   delayed_matches is a defaultdict(list): an association list in key-creation order; `.extend([])` creates the key,
   exactly as in Python (this matters for the `not delayed_matches` test).  SPPF nodes, tokens and line/column
   bookkeeping are left out.  Definitions only; proofs are in Earley/Dyn_proofs.v. *)
From Coq Require Import List Arith Bool.
From LV Require Import Cfg.Grammar Cfg.Analysis Earley.Spec Earley.Alg.
Import ListNotations.

(* (item, token is not None): an entry of delayed_matches without the start position and the token *)
Definition dentry := (item * bool)%type.
Definition dmap := list (nat * list dentry).

(* delayed_matches[k].extend(es)  (append = extend with one element) *)
Fixpoint dm_extend (k : nat) (es : list dentry) (dm : dmap) : dmap :=
  match dm with
  | [] => [(k, es)]
  | (k', l) :: dm' => if Nat.eqb k k' then (k', l ++ es) :: dm' else (k', l) :: dm_extend k es dm'
  end.
Definition dm_get (k : nat) (dm : dmap) : list dentry :=
  match find (fun p => Nat.eqb (fst p) k) dm with Some p => snd p | None => [] end.
(* del delayed_matches[k] *)
Definition dm_remove (k : nat) (dm : dmap) : dmap := filter (fun p => negb (Nat.eqb (fst p) k)) dm.

(* token entries advance the item, carried entries keep it *)
Definition realise (e : dentry) : item := if snd e then advance (fst e) else fst e.

(* if new_item.expect in self.TERMINALS: next_to_scan.add(new_item) else: next_set.add(new_item) *)
Definition dplace (acc : list item * list item) (y : item) : list item * list item :=
  match expect y with
  | Some (T _) => (fst acc, set_add y (snd acc))
  | _ => (set_add y (fst acc), snd acc)
  end.

Section Dyn.
  Variable G : grammar.
  Variable predictions : nat -> list rule.
  Variable start : nat.
  Variable n : nat.                                   (* len(stream) *)
  Variable rmatch : nat -> nat -> option nat.
  Variable rtrunc : nat -> nat -> nat -> option nat.
  Variable complete_lex : bool.
  Variable ignore : list nat.                         (* self.ignore *)

  (* the ends at which terminal t, tried at position i, is put into delayed_matches, in the order of the code:
     m.end() first, then for j in range(1, len(s)) the end of match(t, s[:-j]) *)
  Definition ends_of (t i : nat) : list nat :=
    match rmatch t i with
    | None => []
    | Some e =>
        e :: (if complete_lex
              then flat_map (fun j => match rtrunc t i (e - j) with Some e' => [e'] | None => [] end)
                            (seq 1 (e - i - 1))
              else [])
    end.

  (* step 1 of scan for one item of to_scan *)
  Definition scan_item (i : nat) (dm : dmap) (x : item) : dmap :=
    match expect x with
    | Some (T t) => fold_left (fun dm e => dm_extend e [(x, true)] dm) (ends_of t i) dm
    | _ => dm
    end.

  (* step 3 of scan for one ignored terminal *)
  Definition scan_ignore (i : nat) (to_scan col : list item) (dm : dmap) (x : nat) : dmap :=
    match rmatch x i with
    | Some e =>
        dm_extend e (map (fun it => (it, false)) (filter (is_solution start) col))
          (dm_extend e (map (fun it => (it, false)) to_scan) dm)
    | None => dm
    end.

  (* scan(i, to_scan): (next_set, next_to_scan, delayed_matches afterwards) *)
  Definition dscan (i : nat) (to_scan col : list item) (dm : dmap) : list item * list item * dmap :=
    let dm1 := fold_left (scan_item i) to_scan dm in
    let dm2 := fold_left (scan_ignore i to_scan col) ignore dm1 in
    let ns := fold_left (fun acc e => dplace acc (realise e)) (dm_get (S i) dm2) ([], []) in
    (fst ns, snd ns, dm_remove (S i) dm2).

  Inductive doutcome :=
  | DAccept
  | DRejectEOF                    (* UnexpectedEOF *)
  | DRejectChar (i : nat)         (* UnexpectedCharacters raised by scan(i) *)
  | DOutOfFuel (i : nat).

  (* d_cols[i], d_scans[i]: column i and to_scan after predict_and_complete(i); d_keys[i]: the keys of
     delayed_matches after scan(i) when the parse went on *)
  Record dresult := mkDRes { d_out : doutcome; d_cols : list (list item); d_scans : list (list item);
                             d_keys : list (list nat) }.

  Fixpoint dloop (rem i : nat) (cols scans : list (list item)) (keys : list (list nat))
           (col scanq : list item) (dm : dmap) : dresult :=
    match predict_and_complete predictions (pc_fuel G i) i cols col scanq with
    | None => mkDRes (DOutOfFuel i) cols scans keys
    | Some st =>
        let cols' := cols ++ [pc_col st] in
        let scans' := scans ++ [pc_scan st] in
        match rem with
        | 0 => mkDRes (if existsb (is_solution start) (pc_col st) then DAccept else DRejectEOF) cols' scans' keys
        | S rem' =>
            let r := dscan i (pc_scan st) (pc_col st) dm in
            let nc := fst (fst r) in
            let nq := snd (fst r) in
            let dm' := snd r in
            match nc, dm', nq with
            | [], [], [] => mkDRes (DRejectChar i) cols' scans' keys
            | _, _, _ => dloop rem' (S i) cols' scans' (keys ++ [map fst dm']) nc nq dm'
            end
        end
    end.

  Definition dparse : dresult :=
    let init := initial predictions start in
    dloop n 0 [] [] [] (fst init) (snd init) [].

  Definition daccepts : bool := match d_out dparse with DAccept => true | _ => false end.
End Dyn.

(* lark's configuration: the prediction table of the basic model *)
Definition dyn_parse (G : grammar) (start n : nat) (rmatch : nat -> nat -> option nat)
           (rtrunc : nat -> nat -> nat -> option nat) (complete_lex : bool) (ignore : list nat) : dresult :=
  let tbl := pred_table G in dparse G (pred_lookup G tbl) start n rmatch rtrunc complete_lex ignore.
Definition dyn_accepts (G : grammar) (start n : nat) rmatch rtrunc (complete_lex : bool) (ignore : list nat) : bool :=
  let tbl := pred_table G in daccepts G (pred_lookup G tbl) start n rmatch rtrunc complete_lex ignore.
