(* Expected-terminal set of the executable Earley model = the `expects` set of the
   specification chart (ties C08's theorems over Earley/Spec.v to the model that is compared
   with lark's parser column by column). *)
From Coq Require Import List Arith Bool.
From LV Require Import Cfg.Grammar Earley.Spec Earley.Prefix Earley.Alg Earley.Alg_proofs.
Import ListNotations.

Definition items_at (res : result) (k : nat) : list item :=
  nth k (r_cols res) [] ++ nth k (r_scans res) [].

Definition expected_at (res : result) (k : nat) : list nat :=
  flat_map (fun x => match expect x with Some (T t) => [t] | _ => [] end) (items_at res k).

Theorem expected_at_exact G start toks k t :
  k < length (r_cols (earley_parse G start toks)) ->
  (In t (expected_at (earley_parse G start toks) k) <-> expects G nat Nat.eqb start toks k t).
Proof.
  intros Hk. unfold expected_at, items_at. rewrite in_flat_map. split.
  - intros (x & Hin & Ht).
    destruct (expect x) as [[t'|a]|] eqn:He; simpl in Ht; try contradiction.
    destruct Ht as [<-|[]].
    apply in_app_or in Hin.
    assert (Hc : chart G nat Nat.eqb toks start k x).
    { apply (earley_trace_is_chart G start toks k x Hk). unfold colf. tauto. }
    destruct x as [r d j]. exists r, d, j. split; auto.
  - intros (r & d & j & Hc & Hn).
    apply (earley_trace_is_chart G start toks k (mkItem r d j) Hk) in Hc.
    exists (mkItem r d j). split.
    + apply in_or_app. unfold colf in Hc. tauto.
    + unfold expect. cbn [irule dot]. rewrite Hn. left; reflexivity.
Qed.

(* comparison used by the C08 harness: (rules, start, consumed tokens, observed expected set) *)
Definition exp_case := (list (nat * list symbol) * nat * list nat * list nat)%type.

Definition mk_grammar (l : list (nat * list symbol)) : grammar := map (fun p => mkRule (fst p) (snd p)) l.

Definition nat_subset (a b : list nat) : bool := forallb (fun x => existsb (Nat.eqb x) b) a.

Definition expected_check (c : exp_case) : bool :=
  let '(rules, start, toks, obs) := c in
  let res := earley_parse (mk_grammar rules) start toks in
  let k := length toks in
  Nat.ltb k (length (r_cols res)) &&
  nat_subset (expected_at res k) obs && nat_subset obs (expected_at res k).
