(* to_cnf = unit_loop (bin_step (term_step (init rules))) produces exactly the characterised rules:
   to_cnf fuel rules = Ok g -> unit_closure_spec rules g, and the rules of g are CNF-shaped when no
   rule of G is empty. *)
From Coq Require Import String Ascii List Bool Arith Lia.
From LV Require Import Base.Prelude Shape.Chain Shape.Spec Shape.Cnf Shape.CnfLink Shape.CykParse_proofs
  Shape.CnfLink_proofs Shape.CnfClosure_proofs.
Import ListNotations.

Lemma In_dedup x l : In x (dedup l) <-> In x l.
Proof.
  induction l as [|y l IH]; simpl; [tauto|].
  destruct (existsb (crule_eqb y) l) eqn:E.
  - rewrite IH. split; auto. intros [->|H]; auto. apply existsb_crule. exact E.
  - simpl. rewrite IH. tauto.
Qed.

Section ToCnf.
  Variable rules : list rrec.
  Notation n := (length rules).
  Notation exp_of := (exp_of rules).
  Notation tf_of := (tf_of rules).
  Notation e_of := (e_of rules).
  Notation head_rhs := (head_rhs rules).
  Notation origin := (origin rules).
  Notation chain := (chain rules).
  Notation canon := (canon rules).

  (* partial chains: the last rule may still be a unit rule *)
  Inductive pchain : nat -> list (cnt * calias) -> nat -> Prop :=
  | pchain_nil rid : rid < n -> pchain rid [] rid
  | pchain_cons rid r1 sk f : rid < n -> exp_of rid = [CN (NOrig (origin r1))] -> pchain r1 sk f ->
      pchain rid ((NOrig (origin r1), ARule r1) :: sk) f.

  Definition phead (r0 : nat) (sk : list (cnt * calias)) (rk : nat) : crule :=
    mkC (NOrig (origin r0)) (head_rhs rk) (ARule r0) sk.

  Definition is_term_rule (r : crule) : Prop :=
    exists rid t, rid < n /\ tf_of rid = true /\ In (CT t) (exp_of rid) /\ r = term_rule t.
  Definition is_split_rule (r : crule) : Prop :=
    exists rid, rid < n /\ 3 <= length (e_of rid) /\ In r (split_tail rid 1 (tl (e_of rid))).

  (* the invariant of the unit-elimination loop *)
  Definition inv (g : list crule) : Prop :=
    (forall r, In r g -> is_term_rule r \/ is_split_rule r \/ exists r0 sk rk, pchain r0 sk rk /\ r = phead r0 sk rk) /\
    (forall r, is_term_rule r \/ is_split_rule r -> In r g) /\
    (forall r0 sk rk, chain r0 sk rk ->
       exists sk1 rj sk2, sk = sk1 ++ sk2 /\ pchain r0 sk1 rj /\ chain rj sk2 rk /\ In (phead r0 sk1 rj) g).

  Lemma pchain_app r0 sk1 rj s0 sk2 rm :
    pchain r0 sk1 rj -> exp_of rj = [CN (NOrig (origin s0))] -> pchain s0 sk2 rm ->
    pchain r0 (sk1 ++ (NOrig (origin s0), ARule s0) :: sk2) rm.
  Proof. induction 1; intros He Hp; simpl; constructor; auto. Qed.

  Lemma split_tail_rhs2 rid : forall l i r, In r (split_tail rid i l) -> exists a b, c_rhs r = [a; b].
  Proof.
    induction l as [|a l IH]; intros i r H; [destruct H|].
    destruct l as [|b l1]; [simpl in H; destruct H as [<-|[]]; simpl; eauto|].
    destruct l1 as [|c l2]; [simpl in H; destruct H as [<-|[]]; simpl; eauto|].
    change (split_tail rid i (a :: b :: c :: l2))
      with (mkC (NSplit rid i) [a; CN (NSplit rid (S i))] ASplitA [] :: split_tail rid (S i) (b :: c :: l2)) in H.
    destruct H as [<-|H]; [simpl; eauto|]. apply (IH (S i)). exact H.
  Qed.

  Lemma head_rhs_unit rid b : head_rhs rid = [CN b] -> exists b', b = NOrig b' /\ exp_of rid = [CN (NOrig b')].
  Proof.
    unfold CnfLink.head_rhs, CnfLink.e_of, CnfLink.tf_of, needs_term.
    destruct (exp_of rid) as [|x [|y l]] eqn:Ee; simpl.
    - discriminate.
    - intros H. injection H as Hx. subst x. unfold CnfLink.exp_of in Ee.
      destruct (r_exp (rule_n rules rid)) as [|s [|s2 l2]]; simpl in Ee; try discriminate.
      injection Ee as Ee. unfold of_sym in Ee. destruct (s_term s); [discriminate|]. injection Ee as <-. eauto.
    - destruct (is_ct x || (is_ct y || existsb is_ct l)); destruct l; simpl; intros H; discriminate.
  Qed.

  Lemma unit_head_rhs rid b : exp_of rid = [CN (NOrig b)] -> head_rhs rid = [CN (NOrig b)].
  Proof. intros E. unfold CnfLink.head_rhs, CnfLink.e_of, CnfLink.tf_of, needs_term. rewrite E. reflexivity. Qed.

  (* ---- one round of _remove_unit_rule preserves the invariant ------------------------------- *)
  Lemma remove_unit_inv g u : inv g -> In u g -> is_unit u = true -> inv (remove_unit g u).
  Proof.
    intros (HS & HC1 & HC2) Hu Hun. unfold is_unit in Hun. unfold remove_unit.
    destruct (c_rhs u) as [|[t|b] [|s l]] eqn:Er; try discriminate.
    assert (Hup : exists r0 sk1 rj b', pchain r0 sk1 rj /\ u = phead r0 sk1 rj /\ b = NOrig b' /\ exp_of rj = [CN (NOrig b')]).
    { destruct (HS u Hu) as [(rid & t & _ & _ & _ & ->)|[(rid & _ & _ & Hin)|(r0 & sk1 & rj & Hp & ->)]].
      - simpl in Er. discriminate.
      - apply split_tail_rhs2 in Hin. destruct Hin as (a & b0 & E). rewrite E in Er. discriminate.
      - simpl in Er. destruct (head_rhs_unit rj b Er) as (b' & -> & He). eauto 10. }
    destruct Hup as (r0 & sk1 & rj & b' & Hp & -> & -> & Hej).
    split; [|split].
    - intros r Hr. apply (proj1 (In_dedup _ _)) in Hr. apply in_app_iff in Hr. destruct Hr as [Hr|Hr].
      + apply filter_In in Hr. apply HS. apply Hr.
      + apply in_map_iff in Hr. destruct Hr as (t & <- & Ht). apply filter_In in Ht. destruct Ht as [Ht Hl].
        apply cnt_eqb_eq in Hl.
        destruct (HS t Ht) as [(rid & t0 & _ & _ & _ & ->)|[(rid & _ & _ & Hin)|(s0 & sk3 & rm & Hp3 & ->)]].
        * simpl in Hl. discriminate.
        * apply split_tail_lhs in Hin. destruct Hin as (j & _ & E). congruence.
        * right. right. simpl in Hl. injection Hl as Hl.
          exists r0, (sk1 ++ (NOrig (origin s0), ARule s0) :: sk3), rm. split.
          -- apply (pchain_app r0 sk1 rj s0 sk3 rm); auto. rewrite Hej, Hl. reflexivity.
          -- unfold build_skip, phead. simpl. reflexivity.
    - intros r Hr. apply (proj2 (In_dedup _ _)). apply in_or_app. left. apply filter_In. split; [apply HC1; exact Hr|].
      apply negb_true_iff. destruct (crule_eqb r (phead r0 sk1 rj)) eqn:E; auto. apply crule_eqb_eq in E. subst r.
      destruct Hr as [(rid & t & _ & _ & _ & E)|(rid & _ & _ & Hin)].
      + discriminate.
      + apply split_tail_lhs in Hin. destruct Hin as (j & _ & E). discriminate.
    - intros q0 sk qk Hch. destruct (HC2 q0 sk qk Hch) as (ska & qj & skb & -> & Hpa & Hcb & Hin).
      destruct (crule_eqb (phead q0 ska qj) (phead r0 sk1 rj)) eqn:E.
      + apply crule_eqb_eq in E. unfold phead in E. injection E as Eo Eh Eq Esk. subst ska.
        assert (Hej' : exp_of qj = [CN (NOrig b')]).
        { rewrite (unit_head_rhs rj b' Hej) in Eh. destruct (head_rhs_unit qj (NOrig b') Eh) as (b2 & Eb & He).
          injection Eb as <-. exact He. }
        inversion Hcb as [? ? Hnu|? s0 skb' ? ? He Hc']; subst; [exfalso; apply (Hnu b'); exact Hej'|].
        rewrite Hej' in He. injection He as Hb.
        destruct (HC2 s0 skb' qk Hc') as (sk3 & rm & sk4 & -> & Hp3 & Hc4 & Hin3).
        exists (sk1 ++ (NOrig (origin s0), ARule s0) :: sk3), rm, sk4. split; [|split; [|split]].
        * rewrite <- app_assoc. reflexivity.
        * apply (pchain_app r0 sk1 qj s0 sk3 rm); auto. rewrite Hej', Hb. reflexivity.
        * exact Hc4.
        * apply (proj2 (In_dedup _ _)). apply in_or_app. right.
          replace (phead r0 (sk1 ++ (NOrig (origin s0), ARule s0) :: sk3) rm)
            with (build_skip (phead r0 sk1 rj) (phead s0 sk3 rm)).
          -- apply in_map. apply filter_In. split; [exact Hin3|]. simpl. rewrite Hb. apply String.eqb_refl.
          -- unfold build_skip, phead. simpl. reflexivity.
      + exists ska, qj, skb. repeat split; auto. apply (proj2 (In_dedup _ _)). apply in_or_app. left. apply filter_In. split; auto.
        rewrite E. reflexivity.
  Qed.

  Lemma unit_loop_inv : forall fuel g g', inv g -> unit_loop fuel g = Ok g' ->
    inv g' /\ forall r, In r g' -> is_unit r = false.
  Proof.
    induction fuel as [|f IH]; intros g g' Hi H; simpl in H.
    - destruct (find is_unit g) eqn:Ef; [discriminate|]. injection H as <-. split; auto.
      intros r Hr. apply (find_none _ _ Ef). exact Hr.
    - destruct (find is_unit g) as [u|] eqn:Ef.
      + apply find_some in Ef. destruct Ef as [Hu Hun]. apply (IH _ _ (remove_unit_inv g u Hi Hu Hun) H).
      + injection H as <-. split; auto. intros r Hr. apply (find_none _ _ Ef). exact Hr.
  Qed.

  (* at the exit the invariant is the characterisation *)
  Lemma inv_exit g : inv g -> (forall r, In r g -> is_unit r = false) -> unit_closure_spec rules g.
  Proof.
    intros (HS & HC1 & HC2) Hnu. split.
    - intros r Hr. destruct (HS r Hr) as [(rid & t & H1 & H2 & H3 & ->)|[(rid & H1 & H2 & H3)|(r0 & sk & rk & Hp & ->)]].
      + apply (canon_term rules rid t); auto.
      + apply (canon_split rules rid); auto.
      + apply canon_head. specialize (Hnu _ Hr). unfold is_unit, phead in Hnu. cbn [c_rhs] in Hnu.
        clear Hr. induction Hp as [rid Hlt|rid r1 sk f Hlt He Hp IHp].
        * constructor; auto. intros b Hb. rewrite (unit_head_rhs rid b Hb) in Hnu. discriminate.
        * constructor; auto.
    - intros r Hc. destruct Hc as [rid t H1 H2 H3|rid r H1 H2 H3|r0 sk rk Hch].
      + apply HC1. left. exists rid, t. auto.
      + apply HC1. right. exists rid. auto.
      + destruct (HC2 r0 sk rk Hch) as (sk1 & rj & sk2 & -> & Hp & Hc2 & Hin).
        pose proof (Hnu _ Hin) as Hn. unfold is_unit, phead in Hn. cbn [c_rhs] in Hn.
        inversion Hc2 as [? ? Hnu2|? s0 sk' ? ? He Hc']; subst.
        * rewrite app_nil_r. exact Hin.
        * rewrite (unit_head_rhs rj _ He) in Hn. discriminate.
  Qed.

  (* ---- TERM and BIN: the invariant holds before the loop ---------------------------------------- *)
  Definition R0 (rid : nat) : crule := mkC (NOrig (origin rid)) (exp_of rid) (ARule rid) [].
  Definition R1 (rid : nat) : crule := mkC (NOrig (origin rid)) (e_of rid) (ARule rid) [].

  Lemma in_init_from : forall rs i r,
    In r (init_from i rs) <->
    exists k rr, nth_error rs k = Some rr /\ r = mkC (NOrig (r_origin rr)) (map of_sym (r_exp rr)) (ARule (i + k)) [].
  Proof.
    induction rs as [|x rs IH]; intros i r; simpl.
    - split; [tauto|]. intros (k & rr & H & _). destruct k; discriminate.
    - rewrite IH. split.
      + intros [<-|(k & rr & H & ->)]; [exists 0, x; rewrite Nat.add_0_r; auto|].
        exists (S k), rr. split; auto. f_equal. f_equal. lia.
      + intros ([|k] & rr & H & ->); simpl in H.
        * injection H as ->. left. rewrite Nat.add_0_r. reflexivity.
        * right. exists k, rr. split; auto. f_equal. f_equal. lia.
  Qed.

  Lemma in_init r : In r (init_from 0 rules) <-> exists rid, rid < n /\ r = R0 rid.
  Proof.
    rewrite in_init_from. split.
    - intros (k & rr & H & ->). exists k. split; [apply nth_error_Some; congruence|].
      unfold R0, CnfLink.origin, CnfLink.exp_of, rule_n. rewrite (nth_error_nth _ _ _ H). reflexivity.
    - intros (rid & Hlt & ->). destruct (nth_error rules rid) as [rr|] eqn:E; [|apply nth_error_None in E; lia].
      exists rid, rr. split; auto. unfold R0, CnfLink.origin, CnfLink.exp_of, rule_n. rewrite (nth_error_nth _ _ _ E). reflexivity.
  Qed.

  Lemma in_terms_of t l : In t (terms_of l) <-> In (CT t) l.
  Proof.
    unfold terms_of. rewrite in_flat_map. split.
    - intros ([t'|x] & Hx & Ht); simpl in Ht; [|destruct Ht]. destruct Ht as [<-|[]]. exact Hx.
    - intros H. exists (CT t). split; simpl; auto.
  Qed.

  Lemma in_term_step r :
    In r (term_step (init_from 0 rules)) <->
    (exists rid, rid < n /\ r = R1 rid) \/ (exists rid t, rid < n /\ tf_of rid = true /\ In (CT t) (exp_of rid) /\ r = term_rule t).
  Proof.
    unfold term_step. rewrite In_dedup, in_flat_map. split.
    - intros (r' & Hr' & H). apply in_init in Hr'. destruct Hr' as (rid & Hlt & ->). cbn [R0 c_rhs c_lhs c_alias c_skipped] in H.
      fold (tf_of rid) in H. destruct (tf_of rid) eqn:Et.
      + destruct H as [<-|H].
        * left. exists rid. split; auto. unfold R1, CnfLink.e_of. rewrite Et. reflexivity.
        * right. apply in_map_iff in H. destruct H as (t & <- & Ht). apply in_terms_of in Ht. exists rid, t. auto.
      + destruct H as [<-|[]]. left. exists rid. split; auto. unfold R1, R0, CnfLink.e_of. rewrite Et. reflexivity.
    - intros [(rid & Hlt & ->)|(rid & t & Hlt & Et & Hin & ->)]; exists (R0 rid); (split; [apply in_init; eauto|]);
        cbn [R0 c_rhs c_lhs c_alias c_skipped]; fold (tf_of rid).
      + unfold R1, CnfLink.e_of. destruct (tf_of rid); simpl; auto.
      + rewrite Et. right. apply in_map. apply in_terms_of. exact Hin.
  Qed.

  Lemma bin_of_R1 rid :
    (if Nat.ltb 2 (length (c_rhs (R1 rid))) then split (R1 rid) else [R1 rid]) =
    phead rid [] rid :: (if Nat.leb 3 (length (e_of rid)) then split_tail rid 1 (tl (e_of rid)) else []).
  Proof.
    unfold R1, phead, split, CnfLink.head_rhs. cbn [c_rhs c_lhs c_alias alias_rid].
    destruct (e_of rid) as [|x0 [|x1 [|x2 l]]]; reflexivity.
  Qed.

  Lemma in_g0 r :
    In r (bin_step (term_step (init_from 0 rules))) <->
    (exists rid, rid < n /\ r = phead rid [] rid) \/ is_term_rule r \/ is_split_rule r.
  Proof.
    unfold bin_step. rewrite In_dedup, in_flat_map. split.
    - intros (r' & Hr' & H). apply in_term_step in Hr'. destruct Hr' as [(rid & Hlt & ->)|(rid & t & Hlt & Et & Hin & ->)].
      + rewrite bin_of_R1 in H. destruct H as [<-|H]; [left; eauto|].
        destruct (Nat.leb 3 (length (e_of rid))) eqn:E3; [|destruct H]. apply Nat.leb_le in E3.
        right. right. exists rid. auto.
      + simpl in H. destruct H as [<-|[]]. right. left. exists rid, t. auto.
    - intros [(rid & Hlt & ->)|[(rid & t & Hlt & Et & Hin & ->)|(rid & Hlt & H3 & Hin)]].
      + exists (R1 rid). split; [apply in_term_step; left; eauto|]. rewrite bin_of_R1. left. reflexivity.
      + exists (term_rule t). split; [apply in_term_step; right; eauto 8|]. simpl. auto.
      + exists (R1 rid). split; [apply in_term_step; left; eauto|]. rewrite bin_of_R1. right.
        apply Nat.leb_le in H3. rewrite H3. exact Hin.
  Qed.

  Lemma inv_g0 : inv (bin_step (term_step (init_from 0 rules))).
  Proof.
    split; [|split].
    - intros r Hr. apply in_g0 in Hr. destruct Hr as [(rid & Hlt & ->)|[H|H]]; auto.
      right. right. exists rid, [], rid. split; [constructor; auto|reflexivity].
    - intros r Hr. apply in_g0. auto.
    - intros r0 sk rk Hch. exists [], r0, sk. split; [reflexivity|]. pose proof (chain_lt rules _ _ _ Hch) as Hlt.
      split; [constructor; auto|]. split; auto. apply in_g0. left. eauto.
  Qed.

  (* to_cnf computes the characterisation *)
  Theorem to_cnf_closure fuel g : to_cnf fuel rules = Ok g -> unit_closure_spec rules g.
  Proof.
    unfold to_cnf. intros H. destruct (unit_loop_inv fuel _ g inv_g0 H) as [Hi Hnu]. apply inv_exit; auto.
  Qed.

  (* ---- CNF shape ---------------------------------------------------------------------------------- *)
  Definition is_cn (s : csym) : bool := match s with CN _ => true | CT _ => false end.

  Lemma e_of_all_cn rid : 2 <= length (e_of rid) -> forallb is_cn (e_of rid) = true.
  Proof.
    unfold CnfLink.e_of, CnfLink.tf_of, needs_term. intros H2.
    destruct (Nat.ltb 1 (length (exp_of rid))) eqn:El.
    - simpl. destruct (existsb is_ct (exp_of rid)) eqn:Ec.
      + clear. induction (exp_of rid) as [|[t|x] l IH]; simpl; auto.
      + clear -Ec. induction (exp_of rid) as [|[t|x] l IH]; simpl in *; auto; discriminate.
    - simpl in H2. apply Nat.ltb_ge in El. lia.
  Qed.

  Lemma split_tail_shape rid : forall l i r, forallb is_cn l = true -> In r (split_tail rid i l) -> 2 <= length l -> cnf_shape r = true.
  Proof.
    induction l as [|a l IH]; intros i r Hc H H2; [destruct H|].
    destruct l as [|b l1]; [simpl in H2; lia|]. simpl in Hc. apply andb_true_iff in Hc. destruct Hc as [Ha Hc].
    apply andb_true_iff in Hc. destruct Hc as [Hb Hc]. destruct a as [?|a]; [discriminate|]. destruct b as [?|b]; [discriminate|].
    destruct l1 as [|c l2]; [simpl in H; destruct H as [<-|[]]; reflexivity|].
    change (split_tail rid i (CN a :: CN b :: c :: l2))
      with (mkC (NSplit rid i) [CN a; CN (NSplit rid (S i))] ASplitA [] :: split_tail rid (S i) (CN b :: c :: l2)) in H.
    destruct H as [<-|H]; [reflexivity|]. apply (IH (S i)); auto. simpl. lia.
  Qed.

  Theorem canon_cnf_shape r : (forall rid, rid < n -> exp_of rid <> []) -> canon r -> cnf_shape r = true.
  Proof.
    intros Hne Hc. destruct Hc as [rid t _ _ _|rid r Hlt H3 Hin|r0 sk rk Hch].
    - reflexivity.
    - pose proof (e_of_all_cn rid ltac:(lia)) as Hall. destruct (e_of rid) as [|x0 rest] eqn:Ee; [simpl in H3; lia|].
      simpl in Hall. apply andb_true_iff in Hall. destruct Hall as [_ Hall]. simpl in Hin, H3.
      apply (split_tail_shape rid rest 1 r Hall Hin). lia.
    - destruct (chain_final rules _ _ _ Hch) as [Hlt Hnu]. unfold cnf_shape. cbn [c_rhs]. unfold CnfLink.head_rhs.
      destruct (e_of rk) as [|x0 [|x1 [|x2 l]]] eqn:Ee.
      + exfalso. apply (Hne rk Hlt). unfold CnfLink.e_of in Ee. destruct (tf_of rk); [|exact Ee].
        destruct (exp_of rk); [reflexivity|discriminate].
      + destruct x0 as [t|b]; auto. exfalso.
        assert (E : exp_of rk = [CN b]).
        { unfold CnfLink.e_of, CnfLink.tf_of, needs_term in Ee. destruct (exp_of rk) as [|y [|z l]]; simpl in Ee; try discriminate; auto.
          destruct (is_ct y || (is_ct z || existsb is_ct l)); discriminate. }
        unfold CnfLink.exp_of in E. destruct (r_exp (rule_n rules rk)) as [|s [|s2 l2]] eqn:Er; simpl in E; try discriminate.
        injection E as E. unfold of_sym in E. destruct (s_term s) eqn:Es; [discriminate|]. injection E as <-.
        apply (Hnu (s_name s)). unfold CnfLink.exp_of. rewrite Er. simpl. unfold of_sym. rewrite Es. reflexivity.
      + pose proof (e_of_all_cn rk ltac:(rewrite Ee; simpl; lia)) as Hall. rewrite Ee in Hall. simpl in Hall.
        destruct x0, x1; simpl in Hall; try discriminate. reflexivity.
      + pose proof (e_of_all_cn rk ltac:(rewrite Ee; simpl; lia)) as Hall. rewrite Ee in Hall. simpl in Hall.
        destruct x0; simpl in Hall; try discriminate. reflexivity.
  Qed.

  Theorem to_cnf_shape fuel g : to_cnf fuel rules = Ok g -> (forall rid, rid < n -> exp_of rid <> []) ->
    forall r, In r g -> cnf_shape r = true.
  Proof. intros H Hne r Hr. apply canon_cnf_shape; auto. apply (proj1 (to_cnf_closure fuel g H)). exact Hr. Qed.
End ToCnf.
