(* Transformer_InPlace and Transformer_InPlaceRecursive on a heap of Tree OBJECTS (object identity, shared
   sub-objects: lark's parse "trees" are DAGs under ambiguity='explicit', and nothing stops a user from sharing
   a subtree).  Shape/Transform.v models the two classes on tree-shaped inputs (objects = paths); here an object
   is an address, `subtree.children = [...]` rebinds the children of ONE object, every holder of the object sees
   it, and Tree.iter_subtrees is modelled as coded (queue, dict keyed by id(), reversed) - all three bodies are
   pinned by translator/gen_shape.py.  Definitions only; proofs in InPlaceDag_proofs.v.

   Values.  A callback may be handed an object that has not been rewritten yet (on a DAG a parent can come
   before a shared child) and keep it inside its result, so values can contain references; what the user finally
   sees is the value read against the FINAL heap ([reify]).  A Tree built by __default__ during the run is a
   fresh object nobody rewrites in Transformer_InPlace, hence an immutable [XTree]. *)
From Coq Require Import String Ascii List Bool Arith.
From LV Require Import Base.Prelude Shape.Chain Shape.Spec Shape.Transform.
Import ListNotations.

Definition addr := nat.

Inductive dval :=
| XRef (a : addr)                              (* a Tree object of the input *)
| XTok (ty v : string)
| XNone
| XTree (n : string) (ch : list dval)          (* a Tree created by __default__ *)
| XUser (tag : string) (args : list dval).     (* whatever a user callback returns *)

Definition dobj := (string * list dval)%type.  (* (tree.data, tree.children) *)
Definition dheap := list dobj.

Record dtransformer := mkDT {
  d_rule : string -> option (list dval -> dval);
  d_tok : string -> option (string -> string -> dval) }.

Definition hget (H : dheap) (a : addr) : option dobj := nth_error H a.

Fixpoint hset (H : dheap) (a : addr) (ch : list dval) : dheap :=
  match H, a with
  | [], _ => []
  | (n, _) :: r, 0 => (n, ch) :: r
  | o :: r, S a' => o :: hset r a' ch
  end.

Fixpoint amem (a : addr) (l : list addr) : bool :=
  match l with [] => false | b :: r => Nat.eqb a b || amem a r end.

(* [c for c in children if isinstance(c, Tree)]: the input's Tree objects among the children *)
Definition refs_of (ch : list dval) : list addr :=
  flat_map (fun c => match c with XRef a => [a] | _ => [] end) ch.

(* Tree.iter_subtrees:  queue = [self]; subtrees = dict()
     for subtree in queue:
         subtrees[id(subtree)] = subtree                      (a dict keeps the position of the FIRST insertion)
         queue += [c for c in reversed(subtree.children) if isinstance(c, Tree) and id(c) not in subtrees]
     return reversed(list(subtrees.values()))
   An object can be queued several times (it is only "in subtrees" once it has been taken from the queue). *)
Fixpoint iter_q (fuel : nat) (H : dheap) (queue seen : list addr) : option (list addr) :=
  match queue with
  | [] => Some seen
  | a :: rest =>
      match fuel with
      | 0 => None
      | S f =>
          let seen' := if amem a seen then seen else seen ++ [a] in
          let kids := match hget H a with Some (_, ch) => refs_of ch | None => [] end in
          iter_q f H (rest ++ filter (fun c => negb (amem c seen')) (rev kids)) seen'
      end
  end.

Definition iter_subtrees_dag (fuel : nat) (H : dheap) (root : addr) : option (list addr) :=
  option_map (@rev addr) (iter_q fuel H [root] []).

Section Run.
  Variable T : dtransformer.
  Variable vt : bool.

  Definition d_call_rule (n : string) (vs : list dval) : dval :=
    match d_rule T n with Some f => f vs | None => XTree n vs end.
  Definition d_visit_tok (ty v : string) : dval :=
    if vt then match d_tok T ty with Some f => f ty v | None => XTok ty v end else XTok ty v.

  (* Transformer_InPlace: list(self._transform_children(subtree.children)) with
     _transform_tree(c) = self._call_userfunc(c), which reads c.children as they are NOW *)
  Definition ip_child (H : dheap) (c : dval) : dval :=
    match c with
    | XRef a => match hget H a with Some (n, ch) => d_call_rule n ch | None => XNone end
    | XTree n ch => d_call_rule n ch
    | XTok ty v => d_visit_tok ty v
    | other => other
    end.

  Definition ip_step_dag (H : dheap) (a : addr) : dheap :=
    match hget H a with
    | Some (_, ch) => hset H a (map (ip_child H) ch)     (* subtree.children = [...] *)
    | None => H
    end.

  (* transform(tree): the loop over iter_subtrees, then self._transform_tree(tree) *)
  Definition transform_ip_dag (fuel : nat) (H : dheap) (root : addr) : option (dheap * dval) :=
    match iter_subtrees_dag fuel H root with
    | None => None
    | Some order =>
        let H' := fold_left ip_step_dag order H in
        match hget H' root with
        | Some (n, ch) => Some (H', d_call_rule n ch)
        | None => None
        end
    end.

  (* Transformer_InPlaceRecursive._transform_tree(tree): tree.children = list(_transform_children(tree.children));
     return _call_userfunc(tree).  A shared object is visited once per reference; the second visit finds the
     already rewritten children (values; Trees made by __default__ are visited again, their in-place rewriting is
     not tracked: it is invisible for callbacks that are functions) *)
  Fixpoint ipr_val (fuel : nat) (H : dheap) (c : dval) : option (dheap * dval) :=
    match fuel with
    | 0 => None
    | S f =>
        let go := fix go (H : dheap) (l : list dval) : option (dheap * list dval) :=
                    match l with
                    | [] => Some (H, [])
                    | x :: r => match ipr_val f H x with
                                | None => None
                                | Some (H1, v) => match go H1 r with
                                                  | None => None
                                                  | Some (H2, vs) => Some (H2, v :: vs)
                                                  end
                                end
                    end in
        match c with
        | XRef a => match hget H a with
                    | None => Some (H, XNone)
                    | Some (n, ch) => match go H ch with
                                      | None => None
                                      | Some (H1, vs) => Some (hset H1 a vs, d_call_rule n vs)
                                      end
                    end
        | XTree n ch => match go H ch with
                        | None => None
                        | Some (H1, vs) => Some (H1, d_call_rule n vs)
                        end
        | XTok ty v => Some (H, d_visit_tok ty v)
        | other => Some (H, other)
        end
    end.
End Run.

(* the value as the user sees it when the transformation is over: references read against the final heap *)
Fixpoint reify (fuel : nat) (H : dheap) (v : dval) : option value :=
  match fuel with
  | 0 => None
  | S f =>
      match v with
      | XRef a => match hget H a with
                  | Some (n, ch) => option_map (VTree n) (all_some (map (reify f H) ch))
                  | None => None
                  end
      | XTok ty x => Some (VTok ty x)
      | XNone => Some VNone
      | XTree n ch => option_map (VTree n) (all_some (map (reify f H) ch))
      | XUser tag args => option_map (VUser tag) (all_some (map (reify f H) args))
      end
  end.

(* ---- tree-shaped heaps: an stree laid out in pre-order from a base address ------------------------------------ *)
Fixpoint tcount (t : stree) : nat :=
  match t with Tr _ ch => S (fold_right (fun c a => tcount c + a) 0 ch) | _ => 0 end.

Fixpoint alloc (base : addr) (t : stree) : dheap :=
  match t with
  | Tr n ch =>
      let go := fix go (b : addr) (l : list stree) : list dval * dheap :=
                  match l with
                  | [] => ([], [])
                  | c :: r => let '(sl, hs) := go (b + tcount c) r in
                              ((match c with Tr _ _ => XRef b | Tok ty v => XTok ty v | NoneV => XNone end) :: sl,
                               alloc b c ++ hs)
                  end in
      let '(slots, objs) := go (S base) ch in (n, slots) :: objs
  | _ => []
  end.

(* values and transformers of the tree-level model inside the heap-level one *)
Fixpoint vinj (v : value) : dval :=
  match v with
  | VTree n ch => XTree n (map vinj ch)
  | VTok ty x => XTok ty x
  | VNone => XNone
  | VUser tag args => XUser tag (map vinj args)
  end.

(* the symbolic transformer (tags), as in ChainCheck.sym_T *)
Fixpoint dassoc (k : string) (l : list (string * string)) : option string :=
  match l with [] => None | (k', v) :: r => if String.eqb k k' then Some v else dassoc k r end.
Definition sym_DT (rules toks : list (string * string)) : dtransformer :=
  mkDT (fun n => match dassoc n rules with Some tag => Some (fun vs => XUser tag vs) | None => None end)
       (fun ty => match dassoc ty toks with Some tag => Some (fun t v => XUser tag [XTok t v]) | None => None end).
