(* C16: what a transformer object returns depends on its attribute state at the time of the call only. *)
From Coq Require Import String Ascii List Bool Arith.
From LV Require Import Base.Prelude Shape.Chain Shape.Spec Shape.Shape_proofs Shape.Transform Shape.Transform_proofs
  Shape.InPlace_proofs Shape.Log_proofs Shape.GenTie Shape.Lookup.
Import ListNotations.
Local Open Scope string_scope.

Lemma after_ignores_uses hs : forall T, after T hs = after T (filter (fun h => negb (is_use h)) hs).
Proof.
  induction hs as [|h hs IH]; intros T; [reflexivity|].
  unfold after in *. cbn [fold_left filter]. destruct h; cbn [is_use negb hstep fold_left]; apply IH.
Qed.

(* the four traversals on an object with a history return what the recursive reference returns for the
   attribute state the object has NOW (uses and copies dropped from the history) *)
Theorem lookup_is_current_state T hs vt n ch :
  let Tnow := after T (filter (fun h => negb (is_use h)) hs) in
  let t := Tr n ch in
  exists l1 l2 l3 l4,
    transform_rec (after T hs) vt t = (tr Tnow vt t, l1) /\
    transform_nr (after T hs) vt t = Some (tr Tnow vt t, l2) /\
    transform_ip (after T hs) vt t = Some (tr Tnow vt t, l3) /\
    transform_ipr (after T hs) vt t = (tr Tnow vt t, l4).
Proof. cbv zeta. rewrite <- after_ignores_uses. exact (variants_equal vt (after T hs) n ch). Qed.

(* ... and so does the embedded transformer (create_callback / _get_lexer_callbacks do a fresh getattr) *)
Theorem embedded_is_current_state T hs vt mp d :
  let Tnow := after T (filter (fun h => negb (is_use h)) hs) in
  (forall n, starts_us n = true -> on_rule Tnow n = None) ->
  wf_dtree mp d = true ->
  embedded (after T hs) vt mp d = option_map (tr Tnow vt) (shape mp d).
Proof. cbv zeta. rewrite <- after_ignores_uses. intros H. exact (embedded_eq_posthoc (after T hs) vt H mp d). Qed.

(* the memoising lookup violates it: no callback for `b`, one use on b[], then setattr(obj, 'b', f) *)
Definition ex_T0 : transformer := mkT (fun _ => None) (fun _ => None).
Definition ex_hist : list hop := [HUse true (Tr "b" []); HSetRule "b" (Some (fun vs => VUser "b" vs))].

Theorem memo_lookup_refuted :
  fst (mtr true (mafter ex_T0 ex_hist) (Tr "b" [])) = VTree "b" [] /\
  tr (after ex_T0 ex_hist) true (Tr "b" []) = VUser "b" [].
Proof. split; vm_compute; reflexivity. Qed.

(* ... and so does a re-configured copy of a used object: the copy shares the memo of bound callbacks *)
Definition ex_hist2 : list hop :=
  [HSetRule "b" (Some (fun vs => VUser "b@x" vs)); HUse true (Tr "b" []); HCopy; HSetRule "b" (Some (fun vs => VUser "b@y" vs))].
Theorem memo_copy_refuted :
  fst (mtr true (mafter ex_T0 ex_hist2) (Tr "b" [])) = VUser "b@x" [] /\
  tr (after ex_T0 ex_hist2) true (Tr "b" []) = VUser "b@y" [].
Proof. split; vm_compute; reflexivity. Qed.
