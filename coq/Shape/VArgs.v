(* v_args wrappers (lark/visitors.py: _vargs_inline, _vargs_meta_inline, _vargs_meta, _vargs_tree, custom wrapper)
   as argument adapters, in the two places that apply them:
     Transformer._call_userfunc          f.visit_wrapper(f, tree.data, children, tree.meta)   or  f(children)
     ParseTreeBuilder.create_callback    apply_visit_wrapper(f, user_callback_name, wrapper): wrapper(f, name, children, None),
                                         NotImplementedError for the two meta wrappers; inplace_transformer(f) for a
                                         Transformer_InPlace instance; f(children) otherwise
   (all pinned by translator/gen_shape.py).  Definitions only; proofs in VArgs_proofs.v. *)
From Coq Require Import String Ascii List Bool Arith.
From LV Require Import Base.Prelude Shape.Chain Shape.Spec Shape.Transform.
Import ListNotations.

Inductive mval := MNone | MSome (id : nat).      (* the meta argument: tree.meta, or None on the embedded path *)

(* how a user function is called *)
Inductive uarg :=
| AList (children : list value)                              (* f(children) *)
| AStar (children : list value)                              (* f( *children ) *)
| ATree (data : string) (children : list value) (m : mval)   (* f(Tree(data, children, meta)) *)
| AMeta (m : mval) (children : list value)                   (* f(meta, children) *)
| AMetaStar (m : mval) (children : list value).              (* f(meta, *children ) *)

Definition ufun := uarg -> value.

Inductive vwrap :=
| VInline | VMetaInline | VMeta | VTreeW
| VCustom (w : ufun -> string -> list value -> mval -> value).    (* v_args(wrapper=w) *)

Record ucb := mkU { u_f : ufun; u_wrap : option vwrap }.            (* getattr(f, 'visit_wrapper', None) *)

Definition wrap_call (w : vwrap) (f : ufun) (data : string) (children : list value) (m : mval) : value :=
  match w with
  | VInline => f (AStar children)
  | VMetaInline => f (AMetaStar m children)
  | VMeta => f (AMeta m children)
  | VTreeW => f (ATree data children m)
  | VCustom w => w f data children m
  end.

(* Transformer._call_userfunc(tree, children), after the lookup succeeded *)
Definition posthoc_call (c : ucb) (data : string) (children : list value) (m : mval) : value :=
  match u_wrap c with
  | Some w => wrap_call w (u_f c) data children m
  | None => u_f c (AList children)
  end.

Definition is_meta_wrap (w : vwrap) : bool := match w with VMeta | VMetaInline => true | _ => false end.

(* create_callback for a Transformer / _NonRecursive / _InPlaceRecursive instance; None = NotImplementedError *)
Definition embedded_call (c : ucb) (name : string) (children : list value) : option value :=
  match u_wrap c with
  | Some w => if is_meta_wrap w then None else Some (wrap_call w (u_f c) name children MNone)
  | None => Some (u_f c (AList children))
  end.

(* ... for a Transformer_InPlace instance: inplace_transformer builds Tree(func.__name__, children) *)
Definition embedded_call_inplace (c : ucb) (fname name : string) (children : list value) : option value :=
  match u_wrap c with
  | Some w => if is_meta_wrap w then None else Some (wrap_call w (u_f c) name children MNone)
  | None => Some (u_f c (ATree fname children MNone))
  end.

(* "meta arguments excepted": the callback does not look at the meta it may be handed *)
Definition meta_free (c : ucb) : Prop :=
  match u_wrap c with
  | Some VTreeW => forall d ch m, u_f c (ATree d ch m) = u_f c (ATree d ch MNone)
  | Some (VCustom w) => forall d ch m, w (u_f c) d ch m = w (u_f c) d ch MNone
  | Some VMeta | Some VMetaInline => False
  | Some VInline | None => True
  end.

(* the transformer a table of decorated callbacks denotes (what Transformer.transform calls) *)
Definition vargs_T (tbl : string -> option ucb) (toks : string -> option (string -> string -> value)) : transformer :=
  mkT (fun n => option_map (fun c vs => posthoc_call c n vs MNone) (tbl n)) toks.

(* the callbacks create_callback installs for the same table (NotImplementedError shown as VNone: excluded by meta_free) *)
Definition emb_user (tbl : string -> option ucb) (n : string) : option (list value -> value) :=
  option_map (fun c vs => match embedded_call c n vs with Some v => v | None => VNone end) (tbl n).
