(* cyk._parse: the chart holds exactly the CNF derivations.  Soundness: every tree recorded for a
   non-terminal and a span is a derivation (cder) of that non-terminal whose yield is the span;
   completeness: if the CNF grammar derives the span from A, the cell has a rule with lhs A and a
   tree for A. *)
From Coq Require Import String Ascii List Bool Arith Lia.
From LV Require Import Base.Prelude Shape.Chain Shape.Spec Shape.Cnf Shape.CykParse.
Import ListNotations.

Lemma cnt_eqb_eq a b : cnt_eqb a b = true <-> a = b.
Proof.
  destruct a, b; simpl; split; intros H; try discriminate; try (apply String.eqb_eq in H; congruence);
    try (injection H as ->; apply String.eqb_refl).
  - apply andb_true_iff in H. destruct H as [H1 H2]. apply Nat.eqb_eq in H1, H2. congruence.
  - injection H as -> ->. rewrite !Nat.eqb_refl. reflexivity.
Qed.

Lemma cnt_eqb_refl a : cnt_eqb a a = true.
Proof. apply cnt_eqb_eq. reflexivity. Qed.

Lemma tlookup_tadd a b t ts :
  tlookup a (tadd b t ts) =
  match tlookup a ts with Some x => Some x | None => if cnt_eqb a b then Some t else None end.
Proof.
  unfold tadd. destruct (tlookup b ts) as [tb|] eqn:Eb.
  - destruct (tlookup a ts) eqn:Ea; auto. destruct (cnt_eqb a b) eqn:E; auto.
    apply cnt_eqb_eq in E. subst. congruence.
  - clear Eb. induction ts as [|[c u] ts IH]; simpl.
    + destruct (cnt_eqb a b); reflexivity.
    + destruct (cnt_eqb a c); auto.
Qed.

Lemma in_radd x r rs : In x (radd r rs) -> x = r \/ In x rs.
Proof. unfold radd. destruct (existsb (crule_eqb r) rs); [auto|]. intros H. apply in_app_iff in H. simpl in H. intuition (subst; auto). Qed.

Lemma radd_keeps x r rs : In x rs -> In x (radd r rs).
Proof. unfold radd. destruct (existsb (crule_eqb r) rs); auto. intros. apply in_or_app. auto. Qed.

Lemma radd_has_lhs r rs : exists r', In r' (radd r rs) /\ c_lhs r' = c_lhs r.
Proof.
  unfold radd. destruct (existsb (crule_eqb r) rs) eqn:E.
  - apply existsb_exists in E. destruct E as (r' & Hin & He). exists r'. split; auto.
    unfold crule_eqb in He. repeat (apply andb_true_iff in He; destruct He as [He ?]).
    apply cnt_eqb_eq in He. auto.
  - exists r. split; auto. apply in_or_app. simpl. auto.
Qed.

Lemma fold_left_inv {A B} (f : A -> B -> A) (P : A -> Prop) l : forall a,
  P a -> (forall acc x, In x l -> P acc -> P (f acc x)) -> P (fold_left f l a).
Proof. induction l as [|x l IH]; intros a Ha Hs; simpl; auto. apply IH; [apply Hs; simpl; auto|]. intros; apply Hs; simpl; auto. Qed.

Lemma fold_left_reach {A B} (f : A -> B -> A) (Q : A -> Prop) l x : forall a,
  In x l -> (forall acc, Q (f acc x)) -> (forall acc y, Q acc -> Q (f acc y)) -> Q (fold_left f l a).
Proof.
  induction l as [|y l IH]; intros a Hin Hx Hm; [destruct Hin|]. simpl. destruct Hin as [->|Hin].
  - apply fold_left_inv; auto.
  - apply IH; auto.
Qed.

Section CtreeInd.
  Variable P : ctree -> Prop.
  Hypothesis Hl : forall ty v, P (CLeaf ty v).
  Hypothesis Hn : forall r ch, Forall P ch -> P (CNode r ch).
  Fixpoint ctree_ind' (t : ctree) : P t :=
    match t with
    | CLeaf ty v => Hl ty v
    | CNode r ch => Hn r ch ((fix go l : Forall P l :=
                                match l with [] => Forall_nil P | x :: r' => Forall_cons x (ctree_ind' x) (go r') end) ch)
    end.
End CtreeInd.

Definition span {A} (w : list A) (i l : nat) : list A := firstn l (skipn i w).

Lemma firstn_plus {A} (l : list A) p q : firstn (p + q) l = firstn p l ++ firstn q (skipn p l).
Proof. revert l; induction p as [|p IH]; intros [|x l]; simpl; auto; [destruct q; reflexivity|]. f_equal. apply IH. Qed.

Lemma skipn_plus {A} (l : list A) i p : skipn p (skipn i l) = skipn (i + p) l.
Proof. revert l; induction i as [|i IH]; intros l; simpl; auto. destruct l; [destruct p; reflexivity|]. apply IH. Qed.

Lemma span_split {A} (w : list A) i p l : p <= l -> span w i l = span w i p ++ span w (i + p) (l - p).
Proof.
  intros Hp. unfold span. replace l with (p + (l - p)) at 1 by lia.
  rewrite firstn_plus, skipn_plus. reflexivity.
Qed.

Lemma app_eq_len {A} (a b c d : list A) : a ++ b = c ++ d -> length a = length c -> a = c /\ b = d.
Proof.
  revert c; induction a as [|x a IH]; intros [|y c] H Hl; simpl in *; try discriminate; auto.
  injection H as -> H. destruct (IH c H) as [-> ->]; auto.
Qed.

Lemma span_one {A} (w : list A) i x : nth_error w i = Some x -> span w i 1 = [x].
Proof.
  unfold span. revert w; induction i as [|i IH]; intros [|y w] H; simpl in *; try discriminate.
  - injection H as ->. reflexivity.
  - apply IH. exact H.
Qed.

Lemma span_length {A} (w : list A) i l : i + l <= length w -> length (span w i l) = l.
Proof. intros H. unfold span. rewrite firstn_length, skipn_length. lia. Qed.

Section Chart.
  Variable g : list crule.
  Variable w : list ctoken.
  Notation term_cell := (term_cell g).
  Notation combine := (combine g).
  Notation cellF := (cellF g w).

  Definition cell_ok (l i : nat) (c : cell) : Prop :=
    (forall r, In r (fst c) -> In r g /\ exists t, tlookup (c_lhs r) (snd c) = Some t) /\
    (forall a t, tlookup a (snd c) = Some t -> cder g t (CN a) /\ cyield t = span w i l).

  (* adding a rule with a sound tree keeps a cell sound *)
  Lemma cell_ok_add l i c r t :
    cell_ok l i c -> In r g -> cder g t (CN (c_lhs r)) -> cyield t = span w i l ->
    cell_ok l i (radd r (fst c), tadd (c_lhs r) t (snd c)).
  Proof.
    intros [HR HT] Hin Hd Hy. split; cbn [fst snd].
    - intros x Hx. apply in_radd in Hx. destruct Hx as [->|Hx].
      + split; auto. rewrite tlookup_tadd. destruct (tlookup (c_lhs r) (snd c)); eauto.
        rewrite cnt_eqb_refl. eauto.
      + destruct (HR x Hx) as [H1 [t' H2]]. split; auto. rewrite tlookup_tadd, H2. eauto.
    - intros a t' H. rewrite tlookup_tadd in H. destruct (tlookup a (snd c)) eqn:E.
      + injection H as <-. apply HT. exact E.
      + destruct (cnt_eqb a (c_lhs r)) eqn:Ea; [|discriminate]. injection H as <-.
        apply cnt_eqb_eq in Ea. subst a. auto.
  Qed.

  Lemma term_cell_ok i tk : nth_error w i = Some tk -> cell_ok 1 i (term_cell tk).
  Proof.
    intros Hn. unfold CykParse.term_cell. apply fold_left_inv.
    - split; [intros r []|intros a t H; discriminate].
    - intros acc r Hin Hacc. destruct (c_rhs r) as [|[t|n] [|s rest]] eqn:Er; auto.
      destruct (String.eqb t (fst tk)) eqn:Et; auto. apply String.eqb_eq in Et.
      apply cell_ok_add; auto.
      + replace (CN (c_lhs r)) with (CN (c_lhs r)) by reflexivity.
        apply cder_node; auto. rewrite Er. constructor; [|constructor]. rewrite <- Et. constructor.
      + simpl. rewrite (span_one w i tk Hn). destruct tk; reflexivity.
  Qed.

  Lemma combine_ok l i p c1 c2 acc :
    1 <= p -> p < l -> cell_ok p i c1 -> cell_ok (l - p) (i + p) c2 -> cell_ok l i acc -> cell_ok l i (combine c1 c2 acc).
  Proof.
    intros Hp Hl H1 H2 Hacc. unfold CykParse.combine.
    apply fold_left_inv; auto. intros acc1 r1 Hr1 Ha1.
    apply fold_left_inv; auto. intros acc2 r2 Hr2 Ha2.
    apply fold_left_inv; auto. intros acc3 r Hr Ha3.
    destruct (tlookup (c_lhs r1) (snd c1)) as [t1|] eqn:E1; auto.
    destruct (tlookup (c_lhs r2) (snd c2)) as [t2|] eqn:E2; auto.
    unfold bin_rules in Hr. apply filter_In in Hr. destruct Hr as [Hg Hsh].
    destruct (c_rhs r) as [|[t|x] [|[t'|y] [|]]] eqn:Er; try discriminate.
    apply andb_true_iff in Hsh. destruct Hsh as [Hx Hy]. apply cnt_eqb_eq in Hx, Hy. subst x y.
    destruct (proj2 H1 _ _ E1) as [D1 Y1]. destruct (proj2 H2 _ _ E2) as [D2 Y2].
    apply cell_ok_add; auto.
    - apply cder_node; auto. rewrite Er. repeat constructor; auto.
    - simpl. rewrite app_nil_r, Y1, Y2. symmetry. apply span_split. lia.
  Qed.

  (* (1) soundness of the chart *)
  Theorem cellF_sound : forall fuel l i, 1 <= l -> l <= fuel -> i + l <= length w -> cell_ok l i (cellF fuel l i).
  Proof.
    induction fuel as [|f IH]; intros l i H1 Hf Hw; [lia|]. cbn [CykParse.cellF].
    destruct (Nat.eqb_spec l 1) as [->|Hne].
    - destruct (nth_error w i) as [tk|] eqn:En.
      + apply term_cell_ok. exact En.
      + apply nth_error_None in En. lia.
    - apply fold_left_inv.
      + split; [intros r []|intros a t H; discriminate].
      + intros acc p Hp Hacc. apply in_seq in Hp. apply (combine_ok l i p); auto; try lia; apply IH; lia.
  Qed.

  (* ---- completeness ------------------------------------------------------------------------- *)
  Hypothesis Hshape : forall r, In r g -> cnf_shape r = true.

  Definition has (a : cnt) (c : cell) : Prop :=
    (exists t, tlookup a (snd c) = Some t) /\ exists r, In r (fst c) /\ c_lhs r = a.

  Lemma has_add a c r t : has a c -> has a (radd r (fst c), tadd (c_lhs r) t (snd c)).
  Proof.
    intros [[t' Ht] [r' [Hr Hl]]]. split; cbn [fst snd].
    - rewrite tlookup_tadd, Ht. eauto.
    - exists r'. split; auto. apply radd_keeps. exact Hr.
  Qed.

  Lemma has_new c r t : has (c_lhs r) (radd r (fst c), tadd (c_lhs r) t (snd c)).
  Proof.
    split; cbn [fst snd].
    - rewrite tlookup_tadd. destruct (tlookup (c_lhs r) (snd c)); eauto. rewrite cnt_eqb_refl. eauto.
    - destruct (radd_has_lhs r (fst c)) as (r' & H1 & H2). eauto.
  Qed.

  Lemma term_cell_mono a tk r acc : has a acc ->
    has a (match c_rhs r with
           | [CT t] => if String.eqb t (fst tk)
                       then (radd r (fst acc), tadd (c_lhs r) (CNode r [CLeaf (fst tk) (snd tk)]) (snd acc)) else acc
           | _ => acc end).
  Proof.
    intros H. destruct (c_rhs r) as [|[t|n] [|s rest]]; auto. destruct (String.eqb t (fst tk)); auto. apply has_add; auto.
  Qed.

  Lemma combine_mono a c1 c2 acc : has a acc -> has a (combine c1 c2 acc).
  Proof.
    intros H. unfold CykParse.combine.
    apply fold_left_inv; auto. intros acc1 r1 _ Ha1.
    apply fold_left_inv; auto. intros acc2 r2 _ Ha2.
    apply fold_left_inv; auto. intros acc3 r _ Ha3.
    destruct (tlookup (c_lhs r1) (snd c1)); auto. destruct (tlookup (c_lhs r2) (snd c2)); auto. apply has_add; auto.
  Qed.

  Lemma cder_yield_pos c s : cder g c s -> 1 <= length (cyield c).
  Proof.
    revert s. induction c as [ty v|r ch IH] using ctree_ind'; intros s H; [simpl; lia|].
    inversion H as [|r0 ch0 Hin HF]; subst. specialize (Hshape r Hin). unfold cnf_shape in Hshape.
    destruct (c_rhs r) as [|[t|a] [|[t'|b] [|]]] eqn:Er; try discriminate.
    - inversion HF as [|c1 ? ? ? Hc1 Hr]; subst. inversion Hr; subst. inversion IH; subst.
      simpl. rewrite app_length. specialize (H2 _ Hc1). lia.
    - inversion HF as [|c1 ? ? ? Hc1 Hr]; subst. inversion IH; subst.
      simpl. rewrite app_length. specialize (H2 _ Hc1). lia.
  Qed.

  (* (2) completeness of the chart *)
  Theorem cellF_complete : forall fuel c a i,
    cder g c (CN a) -> length (cyield c) <= fuel -> cyield c = span w i (length (cyield c)) ->
    has a (cellF fuel (length (cyield c)) i).
  Proof.
    induction fuel as [|f IH]; intros c a i Hd Hf Hy.
    { pose proof (cder_yield_pos _ _ Hd). lia. }
    inversion Hd as [|r ch Hin HF]; subst. pose proof (Hshape r Hin) as Hs. unfold cnf_shape in Hs.
    cbn [CykParse.cellF].
    destruct (c_rhs r) as [|[t|x] [|[t'|y] [|]]] eqn:Er; try discriminate.
    - (* A -> t *)
      inversion HF as [|c1 ? ? ? Hc1 Hr]; subst. inversion Hr; subst. inversion Hc1; subst.
      simpl in *. unfold span in Hy. destruct (nth_error w i) as [tk|] eqn:En.
      + assert (tk = (t, v)).
        { apply span_one in En. unfold span in En. rewrite En in Hy. congruence. }
        subst tk. unfold CykParse.term_cell.
        apply (fold_left_reach _ (has (c_lhs r)) g r); auto.
        * intros acc. rewrite Er. cbn [fst snd]. rewrite String.eqb_refl. apply has_new.
        * intros acc y0 Hacc. apply term_cell_mono. exact Hacc.
      + apply nth_error_None in En. rewrite skipn_all2 in Hy by lia. discriminate.
    - (* A -> B C *)
      inversion HF as [|c1 ? ? ? Hc1 Hr]; subst. inversion Hr as [|c2 ? ? ? Hc2 Hr2]; subst. inversion Hr2; subst.
      pose proof (cder_yield_pos _ _ Hc1) as P1. pose proof (cder_yield_pos _ _ Hc2) as P2.
      cbn [cyield flat_map] in *. rewrite app_nil_r in *. rewrite app_length in *.
      set (l1 := length (cyield c1)) in *. set (l2 := length (cyield c2)) in *.
      destruct (Nat.eqb_spec (l1 + l2) 1) as [E|_]; [lia|].
      rewrite (span_split w i l1 (l1 + l2)) in Hy by lia.
      assert (Hlen1 : length (span w i l1) = l1).
      { apply (f_equal (@length _)) in Hy. rewrite !app_length in Hy. fold l1 l2 in Hy.
        unfold span in *. rewrite !firstn_length in *. lia. }
      apply app_eq_len in Hy; [|symmetry; exact Hlen1]. destruct Hy as [Y1 Y2].
      replace (l1 + l2 - l1) with l2 in Y2 by lia.
      apply (fold_left_reach _ (has (c_lhs r)) _ l1).
      + apply in_seq. lia.
      + intros acc.
        assert (H1 : has x (cellF f l1 i)) by (apply (IH c1 x i Hc1); [fold l1; lia|exact Y1]).
        assert (H2 : has y (cellF f l2 (i + l1))) by (apply (IH c2 y (i + l1) Hc2); [fold l2; lia|exact Y2]).
        replace (l1 + l2 - l1) with l2 by lia.
        destruct H1 as [[t1 T1] [r1 [R1 L1]]]. destruct H2 as [[t2 T2] [r2 [R2 L2]]].
        unfold CykParse.combine.
        apply (fold_left_reach _ (has (c_lhs r)) _ r1); auto.
        * intros acc1. apply (fold_left_reach _ (has (c_lhs r)) _ r2); auto.
          -- intros acc2. apply (fold_left_reach _ (has (c_lhs r)) _ r).
             ++ unfold bin_rules. apply filter_In. split; auto. rewrite Er, L1, L2, !cnt_eqb_refl. reflexivity.
             ++ intros acc3. rewrite L1, L2, T1, T2. apply has_new.
             ++ intros acc3 r3 Ha. destruct (tlookup (c_lhs r1) (snd (cellF f l1 i))); auto.
                destruct (tlookup (c_lhs r2) (snd (cellF f l2 (i + l1)))); auto. apply has_add; auto.
          -- intros acc2 r3 Ha. apply fold_left_inv; auto. intros acc3 r4 _ Ha3.
             destruct (tlookup (c_lhs r1) (snd (cellF f l1 i))); auto.
             destruct (tlookup (c_lhs r3) (snd (cellF f l2 (i + l1)))); auto. apply has_add; auto.
        * intros acc1 r3 Ha. apply fold_left_inv; auto. intros acc2 r4 _ Ha2.
          apply fold_left_inv; auto. intros acc3 r5 _ Ha3.
          destruct (tlookup (c_lhs r3) (snd (cellF f l1 i))); auto.
          destruct (tlookup (c_lhs r4) (snd (cellF f l2 (i + l1)))); auto. apply has_add; auto.
      + intros acc p Ha. apply combine_mono. exact Ha.
  Qed.
End Chart.

(* ---- Parser.parse ------------------------------------------------------------------------------ *)
Lemma span_all {A} (w : list A) : span w 0 (length w) = w.
Proof. unfold span. simpl. apply firstn_all. Qed.

Section ParseTheorems.
  Variable g : list crule.
  Variable w : list ctoken.
  Variable start : string.

  Theorem cyk_parse_sound t : cyk_parse g w start = Some t -> cder g t (CN (NOrig start)) /\ cyield t = w.
  Proof.
    unfold cyk_parse, cyk_cell. destruct (existsb _ _); [|discriminate]. intros H.
    destruct w as [|x w'] eqn:Ew; [discriminate|]. rewrite <- Ew in *.
    assert (Hl : 1 <= length w) by (rewrite Ew; simpl; lia).
    destruct (cellF_sound g w (length w) (length w) 0 Hl (le_n _) (le_n _)) as [_ HT].
    destruct (HT _ _ H) as [Hd Hy]. rewrite span_all in Hy. auto.
  Qed.

  Hypothesis Hshape : forall r, In r g -> cnf_shape r = true.

  Theorem cyk_parse_complete c : cder g c (CN (NOrig start)) -> cyield c = w -> exists t, cyk_parse g w start = Some t.
  Proof.
    intros Hd Hy. unfold cyk_parse, cyk_cell.
    pose proof (cellF_complete g w Hshape (length w) c (NOrig start) 0 Hd) as H.
    rewrite Hy in H. specialize (H (le_n _)). rewrite span_all in H. specialize (H eq_refl).
    destruct H as [[t Ht] [r [Hr Hl]]].
    assert (E : existsb (fun r0 => cnt_eqb (c_lhs r0) (NOrig start)) (fst (cellF g w (length w) (length w) 0)) = true).
    { apply existsb_exists. exists r. split; auto. rewrite Hl. apply cnt_eqb_refl. }
    rewrite E. eauto.
  Qed.

  (* (3) an unambiguous sentence: the chart returns THE derivation *)
  Theorem cyk_parse_unique c :
    cder g c (CN (NOrig start)) -> cyield c = w ->
    (forall c', cder g c' (CN (NOrig start)) -> cyield c' = w -> c' = c) ->
    cyk_parse g w start = Some c.
  Proof.
    intros Hd Hy Hu. destruct (cyk_parse_complete c Hd Hy) as [t Ht].
    destruct (cyk_parse_sound t Ht) as [Hd' Hy']. rewrite (Hu t Hd' Hy') in Ht. exact Ht.
  Qed.
End ParseTheorems.
